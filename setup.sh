#!/bin/bash
# Build the framework from files on disk only (offline): Coq development (full
# .vo build), harness go.mod from /repo/go.mod, first build of the harness.
set -e
cd "$(dirname "$0")"
export GOFLAGS=-mod=mod GOPROXY=off GOSUMDB=off GOTOOLCHAIN=local
mkdir -p .build evidence replay
python3 - <<'PY'
import sys, os
sys.argv = ["check"]
import importlib.machinery, importlib.util
loader = importlib.machinery.SourceFileLoader("check", os.path.join(os.getcwd(), "check"))
spec = importlib.util.spec_from_loader("check", loader)
m = importlib.util.module_from_spec(spec); loader.exec_module(m)
import json
claimed = sorted(json.load(open("claimed.json")))
# a property's check may have components (props/<component>.json): build them as well
claimed = claimed + sorted({c for p in claimed for c in m.PROPS.get(p, {}).get("components", [])})
extra = sorted({x for p in claimed for x in m.PROPS.get(p, {}).get("extra_properties", [])})
ok, log = m.coq_build(None, ["Model/DecCheck.vo"] + ["Properties/%s.vo" % p for p in claimed + extra])
print(log[-3000:])
if not ok:
    sys.exit(1)
allok = True
# one go invocation compiles and links all harness binaries in parallel (the per-binary
# builds below then only confirm them from the build cache)
import subprocess, shutil
hdir = os.path.join(os.getcwd(), "harness")
r = subprocess.run([sys.executable, os.path.join("tools", "gen_gomod.py"), hdir], env=dict(m.GOENV, VERIF_REPO=m.REPO))
bindir = os.path.join(m.BUILD, "bin_all")
os.makedirs(bindir, exist_ok=True)
r = subprocess.run(["go", "build", "-tags", "verif", "-o", bindir + os.sep, "./cmd/..."], cwd=hdir, env=m.GOENV)
if r.returncode == 0:
    for f in os.listdir(bindir):
        shutil.copy2(os.path.join(bindir, f), os.path.join(m.BUILD, "kvh_" + f))
ok, log, _ = m.go_build('DEC')
print('DEC harness build', 'ok' if ok else 'FAILED')
allok = allok and ok
for prop in claimed:
    ok, log, _ = m.go_build(prop)
    print(prop, "harness build", "ok" if ok else "FAILED")
    if not ok:
        print(log[-3000:]); allok = False
sys.exit(0 if allok else 1)
PY
