#!/usr/bin/env python3
"""Generate harness/go.mod (+ go.sum) from /repo/go.mod: same requires and
replaces, module renamed, kava replaced by /repo."""
import re, shutil, sys, os
repo = os.environ.get("VERIF_REPO", "/repo")
dst = sys.argv[1] if len(sys.argv) > 1 else "/verif/harness"
src = open(os.path.join(repo, "go.mod")).read()
src = re.sub(r"^module\s+\S+", "module kavaverif", src, count=1, flags=re.M)
src += "\nrequire github.com/kava-labs/kava v0.0.0\n\nreplace github.com/kava-labs/kava => %s\n" % repo
new = src
p = os.path.join(dst, "go.mod")
if not os.path.exists(p) or open(p).read() != new:
    open(p, "w").write(new)
s = os.path.join(dst, "go.sum")
rs = open(os.path.join(repo, "go.sum")).read()
if not os.path.exists(s) or open(s).read() != rs:
    open(s, "w").write(rs)
