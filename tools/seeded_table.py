#!/usr/bin/env python3
"""Print the DESIGN.md D.7 table rows from seeded/*/meta.json."""
import json, glob, os, re
root = os.path.dirname(os.path.dirname(os.path.abspath(__file__)))
def short(s, n):
    s = re.sub(r"\s+", " ", s or "").replace("|", "/")
    return s if len(s) <= n else s[: n - 1].rsplit(" ", 1)[0] + "…"
for d in sorted(glob.glob(os.path.join(root, "seeded", "*", ""))):
    m = json.load(open(d + "meta.json"))
    sid = os.path.basename(d.rstrip("/"))
    prop = m.get("property", sid.split("-")[0])
    first = (m.get("detection_first_run") or {}).get(prop, {})
    laterall = m.get("detection_after_strengthening") or {}
    later = laterall.get(prop)
    final = later or first
    # a change to one property's code may be caught by another property's check (genesis paths by C14)
    by = prop
    if final.get("exit") != 1:
        for q, r in laterall.items():
            if r.get("exit") == 1:
                final, by = r, q
    sigs = []
    for s in final.get("caught_by") or []:
        if s not in sigs:
            sigs.append(s)
    if by != prop:
        sigs = ["by ./check %s" % by] + sigs
    firsttxt = "caught" if first.get("exit") == 1 else "**missed**"
    conf = m.get("confirmation", {})
    note = "" if conf.get("existing_tests_pass_with_change") else " (existing tests of the package fail with it: not a valid seed, kept for the record)"
    print("| %s | %s — needs: %s%s | %s | %s |" % (sid, short(m.get("summary"), 170), short(m.get("needs_to_manifest"), 150), note, firsttxt,
          ("exit %s: " % final.get("exit")) + ", ".join("`%s`" % s for s in sigs)))
