#!/usr/bin/env python3
"""Minimal dependency-driven Coq builder: builds the given targets (paths of .vo
files relative to the coq directory) and, recursively, only the files they
Require — so a file of another property that is being edited (or is broken)
never affects this build.  Full .vo compilation with coqc; no -vos/-vok.

usage: coqbuild.py [-C coqdir] target.vo [...]"""
import os, re, subprocess, sys, fcntl

WARN = "-notation-overridden,-deprecated-hint-without-locality,-deprecated-syntactic-definition,-deprecated-instance-without-locality"


def deps(coqdir, v):
    r = subprocess.run(["coqdep", "-Q", ".", "Kava", v], cwd=coqdir, stdout=subprocess.PIPE, stderr=subprocess.PIPE, text=True)
    if r.returncode:
        raise RuntimeError("coqdep failed on %s:\n%s" % (v, r.stderr))
    out = []
    for line in r.stdout.splitlines():
        if ":" not in line or not line.split(":")[0].strip().startswith(v[:-2] + ".vo"):
            continue
        for tok in line.split(":", 1)[1].split():
            if tok.endswith(".vo") and not tok.startswith("/"):
                out.append(tok[:-1])  # .vo -> .v
    return [d for d in out if d != v]


def build(coqdir, targets, timeout=3000, log=None):
    order, seen = [], set()

    def visit(v, stack=()):
        if v in seen:
            return
        if v in stack:
            raise RuntimeError("dependency cycle at " + v)
        if not os.path.exists(os.path.join(coqdir, v)):
            raise RuntimeError("missing source file " + v)
        for d in deps(coqdir, v):
            visit(d, stack + (v,))
        seen.add(v)
        order.append(v)

    for t in targets:
        visit(t[:-1] if t.endswith(".vo") else t)
    import concurrent.futures as cf, threading
    depmap = {v: deps(coqdir, v) for v in order}
    rebuilt = set()
    out = []
    mu = threading.Lock()

    def one(v):
        """returns (ok, text); compiles v if it is out of date w.r.t. its source or its dependencies"""
        vo = os.path.join(coqdir, v + "o")
        src = os.path.join(coqdir, v)
        need = not os.path.exists(vo) or os.path.getmtime(vo) < os.path.getmtime(src)
        if not need:
            for d in depmap[v]:
                dvo = os.path.join(coqdir, d + "o")
                with mu:
                    dr = d in rebuilt
                if dr or os.path.getmtime(dvo) > os.path.getmtime(vo):
                    need = True
                    break
        if not need:
            return True, ""
        lock = open(vo + ".lock", "w")
        fcntl.flock(lock, fcntl.LOCK_EX)
        try:
            # another process may have built it while we waited
            with mu:
                anyr = any(d in rebuilt for d in depmap[v])
            if os.path.exists(vo) and os.path.getmtime(vo) >= os.path.getmtime(src) and not anyr \
               and all(os.path.getmtime(os.path.join(coqdir, d + "o")) <= os.path.getmtime(vo) for d in depmap[v]):
                return True, ""
            r = subprocess.run(["timeout", str(timeout), "coqc", "-q", "-Q", ".", "Kava", "-w", WARN, v], cwd=coqdir,
                               stdout=subprocess.PIPE, stderr=subprocess.STDOUT, text=True)
            if log:
                log("COQC " + v)
            if r.returncode:
                return False, "COQC %s\n%s" % (v, r.stdout)
            with mu:
                rebuilt.add(v)
            return True, "COQC %s\n%s" % (v, r.stdout)
        finally:
            fcntl.flock(lock, fcntl.LOCK_UN)
            lock.close()
            try:
                os.unlink(vo + ".lock")
            except OSError:
                pass

    # independent files compile in parallel (a file starts when all it Requires are done)
    jobs = int(os.environ.get("COQBUILD_JOBS", "0")) or min(12, os.cpu_count() or 1)
    done, pending, running = set(), list(order), {}
    with cf.ThreadPoolExecutor(max_workers=jobs) as ex:
        while pending or running:
            for v in [v for v in pending if all(d in done for d in depmap[v])]:
                pending.remove(v)
                running[ex.submit(one, v)] = v
            if not running:
                raise RuntimeError("dependency order stuck at " + ", ".join(pending[:3]))
            fin, _ = cf.wait(list(running), return_when=cf.FIRST_COMPLETED)
            for f in fin:
                v = running.pop(f)
                ok, text = f.result()
                if text:
                    out.append(text)
                if not ok:
                    for g in running:
                        g.cancel()
                    return False, "\n".join(out)
                done.add(v)
    return True, "\n".join(out)


if __name__ == "__main__":
    args = sys.argv[1:]
    coqdir = "/verif/coq"
    if args and args[0] == "-C":
        coqdir, args = args[1], args[2:]
    if not args:
        print(__doc__); sys.exit(2)
    try:
        ok, log = build(coqdir, args, timeout=int(os.environ.get("COQMAKE_TIMEOUT", "1500")), log=lambda s: print(s, flush=True))
    except RuntimeError as e:
        print(e); sys.exit(1)
    if not ok:
        print(log[-6000:])
    sys.exit(0 if ok else 1)
