#!/usr/bin/env python3
"""Minimal dependency-driven Coq builder: builds the given targets (paths of .vo
files relative to the coq directory) and, recursively, only the files they
Require — so a file of another property that is being edited (or is broken)
never affects this build.  Full .vo compilation with coqc; no -vos/-vok.

usage: coqbuild.py [-C coqdir] target.vo [...]"""
import os, re, subprocess, sys, fcntl

WARN = "-notation-overridden,-deprecated-hint-without-locality,-deprecated-syntactic-definition,-deprecated-instance-without-locality"


def deps(coqdir, v):
    r = subprocess.run(["coqdep", "-Q", ".", "Kava", v], cwd=coqdir, stdout=subprocess.PIPE, stderr=subprocess.PIPE, text=True)
    if r.returncode:
        raise RuntimeError("coqdep failed on %s:\n%s" % (v, r.stderr))
    out = []
    for line in r.stdout.splitlines():
        if ":" not in line or not line.split(":")[0].strip().startswith(v[:-2] + ".vo"):
            continue
        for tok in line.split(":", 1)[1].split():
            if tok.endswith(".vo") and not tok.startswith("/"):
                out.append(tok[:-1])  # .vo -> .v
    return [d for d in out if d != v]


def build(coqdir, targets, timeout=3000, log=None):
    order, seen = [], set()

    def visit(v, stack=()):
        if v in seen:
            return
        if v in stack:
            raise RuntimeError("dependency cycle at " + v)
        if not os.path.exists(os.path.join(coqdir, v)):
            raise RuntimeError("missing source file " + v)
        for d in deps(coqdir, v):
            visit(d, stack + (v,))
        seen.add(v)
        order.append(v)

    for t in targets:
        visit(t[:-1] if t.endswith(".vo") else t)
    rebuilt = set()
    out = []
    for v in order:
        vo = os.path.join(coqdir, v + "o")
        src = os.path.join(coqdir, v)
        need = not os.path.exists(vo) or os.path.getmtime(vo) < os.path.getmtime(src)
        if not need:
            for d in deps(coqdir, v):
                dvo = os.path.join(coqdir, d + "o")
                if d in rebuilt or os.path.getmtime(dvo) > os.path.getmtime(vo):
                    need = True
                    break
        if not need:
            continue
        lock = open(vo + ".lock", "w")
        fcntl.flock(lock, fcntl.LOCK_EX)
        try:
            # another process may have built it while we waited
            if os.path.exists(vo) and os.path.getmtime(vo) >= os.path.getmtime(src) and not any(d in rebuilt for d in deps(coqdir, v)) \
               and all(os.path.getmtime(os.path.join(coqdir, d + "o")) <= os.path.getmtime(vo) for d in deps(coqdir, v)):
                continue
            r = subprocess.run(["timeout", str(timeout), "coqc", "-q", "-Q", ".", "Kava", "-w", WARN, v], cwd=coqdir,
                               stdout=subprocess.PIPE, stderr=subprocess.STDOUT, text=True)
            out.append("COQC %s\n%s" % (v, r.stdout))
            if log:
                log("COQC " + v)
            if r.returncode:
                return False, "\n".join(out)
            rebuilt.add(v)
        finally:
            fcntl.flock(lock, fcntl.LOCK_UN)
            lock.close()
            try:
                os.unlink(vo + ".lock")
            except OSError:
                pass
    return True, "\n".join(out)


if __name__ == "__main__":
    args = sys.argv[1:]
    coqdir = "/verif/coq"
    if args and args[0] == "-C":
        coqdir, args = args[1], args[2:]
    if not args:
        print(__doc__); sys.exit(2)
    try:
        ok, log = build(coqdir, args, timeout=int(os.environ.get("COQMAKE_TIMEOUT", "1500")), log=lambda s: print(s, flush=True))
    except RuntimeError as e:
        print(e); sys.exit(1)
    if not ok:
        print(log[-6000:])
    sys.exit(0 if ok else 1)
