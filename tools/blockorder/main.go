// blockorder: source enumerator of the C02 check.  Re-reads the arguments of
// app.mm.SetOrderBeginBlockers( … ) and app.mm.SetOrderEndBlockers( … ) from
// <repo>/app/app.go (go/parser, no type checking) and prints one row per
// position:
//
//	{"key": "begin:03:kava:committee"}     phase : position : kava|ext : module
//
// "kava" = the argument's package is imported from github.com/kava-labs/kava/x/…
// (module = the directory under x/), "ext" = any other import path (module = last
// path element after dropping a trailing /types or /exported).  The rows are
// compared as a set with the table in coq/Model/WorldOrder.v by ./check; since the
// position is part of the key, any insertion, removal or reordering of a blocker
// shows up as a table mismatch.
package main

import (
	"encoding/json"
	"fmt"
	"go/ast"
	"go/parser"
	"go/printer"
	"go/token"
	"os"
	"path/filepath"
	"strconv"
	"strings"
)

type row struct {
	Key string `json:"key"`
}

const kavaPrefix = "github.com/kava-labs/kava/x/"

func moduleOf(path string) (string, string) {
	if strings.HasPrefix(path, kavaPrefix) {
		rest := strings.TrimPrefix(path, kavaPrefix)
		return "kava", strings.SplitN(rest, "/", 2)[0]
	}
	p := strings.TrimSuffix(strings.TrimSuffix(path, "/types"), "/exported")
	i := strings.LastIndex(p, "/")
	return "ext", p[i+1:]
}

func main() {
	if len(os.Args) < 2 {
		fmt.Fprintln(os.Stderr, "usage: blockorder <repo>")
		os.Exit(2)
	}
	file := filepath.Join(os.Args[1], "app", "app.go")
	fset := token.NewFileSet()
	f, err := parser.ParseFile(fset, file, nil, 0)
	if err != nil {
		fmt.Fprintln(os.Stderr, err)
		os.Exit(1)
	}
	imports := map[string]string{} // local name -> import path
	for _, im := range f.Imports {
		path, _ := strconv.Unquote(im.Path.Value)
		name := ""
		if im.Name != nil {
			name = im.Name.Name
		} else {
			name = path[strings.LastIndex(path, "/")+1:]
		}
		imports[name] = path
	}
	phases := map[string]string{"SetOrderBeginBlockers": "begin", "SetOrderEndBlockers": "end"}
	if len(os.Args) > 2 && os.Args[2] == "genesis" {
		// the C14 table: the order in which InitGenesis runs (the genesis invariant assertion of
		// x/crisis must come after every module whose state an invariant reads)
		phases = map[string]string{"SetOrderInitGenesis": "genesis"}
	}
	seen := map[string]int{}
	var rows []row
	ast.Inspect(f, func(n ast.Node) bool {
		call, ok := n.(*ast.CallExpr)
		if !ok {
			return true
		}
		sel, ok := call.Fun.(*ast.SelectorExpr)
		if !ok {
			return true
		}
		phase, ok := phases[sel.Sel.Name]
		if !ok {
			return true
		}
		seen[phase]++
		if seen[phase] > 1 {
			// a second call overrides the first: make the table differ
			rows = append(rows, row{fmt.Sprintf("%s:duplicate-call-%d", phase, seen[phase])})
		}
		for i, arg := range call.Args {
			kind, mod := "expr", ""
			if s, ok := arg.(*ast.SelectorExpr); ok && s.Sel.Name == "ModuleName" {
				if id, ok := s.X.(*ast.Ident); ok {
					if path, ok := imports[id.Name]; ok {
						kind, mod = moduleOf(path)
					}
				}
			}
			if kind == "expr" {
				var sb strings.Builder
				printer.Fprint(&sb, fset, arg)
				mod = sb.String()
			}
			rows = append(rows, row{fmt.Sprintf("%s:%02d:%s:%s", phase, i, kind, mod)})
		}
		return true
	})
	for _, ph := range phases {
		if seen[ph] == 0 {
			rows = append(rows, row{ph + ":no-call-found"})
		}
	}
	out, _ := json.Marshal(rows)
	fmt.Println(string(out))
}
