module kavablockorder

go 1.22.0
