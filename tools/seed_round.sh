#!/bin/bash
# usage: seed_round.sh C05 [skip [result2.json]]  -> collects /tmp/seed5/C05/_seed (a sub-agent's deliverables) into /var/tmp/seed_out5/C05/<next id>/, runs tools/run_seeded.py on it (with "skip": checks only), prints the verdict; then tools/collect_seeded.py /var/tmp/seed_out5 0 and tools/seeded_table.py
p=$1
k=$(( $(ls -d /verif/seeded/$p-* | sed "s/.*-//" | sort -n | tail -1) + 1 ))
d=/var/tmp/seed_out5/$p/$k
if [ -d /var/tmp/seed_out5/$p ]; then d=$(ls -d /var/tmp/seed_out5/$p/*/ | head -1); d=${d%/}; else mkdir -p $d; cp /tmp/seed5/$p/_seed/* $d/; fi
cd /verif && python3 tools/run_seeded.py $d ${2:+--skip-confirm} > $d/${3:-result.json} 2> $d/err.log
python3 - $d/${3:-result.json} <<'P'
import json,sys
r=json.load(open(sys.argv[1]))
print(r.get('property'), {k:r.get(k) for k in ('patch_applies','builds','existing_tests_pass_with_change','demo_fails_with_change','demo_passes_without_change','error')})
for p,c in r.get('checks',{}).items(): print(' ',p,'exit',c['exit'],[x.get('signature') for x in c['details']][:6], c.get('tail','')[-200:])
P
