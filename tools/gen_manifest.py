#!/usr/bin/env python3
"""Generate MANIFEST.json from props.json (claimed checks) and properties.jsonl."""
import json, os, subprocess
ROOT = os.path.dirname(os.path.dirname(os.path.abspath(__file__)))
props = {f[:-5]: json.load(open(os.path.join(ROOT, "props", f))) for f in sorted(os.listdir(os.path.join(ROOT, "props"))) if f.endswith(".json")}
allp = [json.loads(l)["id"] for l in open(os.path.join(ROOT, "properties.jsonl"))]
hooks = []
try:
    out = subprocess.run(["git", "-C", "/repo", "log", "--format=%H %s"], capture_output=True, text=True).stdout
    hooks = [l.split()[0] for l in out.splitlines() if " verif hook:" in l or l.split(" ", 1)[1].startswith("verif:")]
except Exception:
    pass
baseline = json.load(open("/root/.vp/BASELINE.json"))["cmd"] if os.path.exists("/root/.vp/BASELINE.json") else "go test ./..."
checks, na = [], []
claimed = set(json.load(open(os.path.join(ROOT, "claimed.json"))))
for pid in allp:
    c = props.get(pid)
    if not c or c.get("not_applicable") or pid not in claimed:
        na.append({"property_id": pid, "reason": (c or {}).get("not_applicable", "check not built yet in this development (model and driver pending); not claimed")})
        continue
    checks.append({
        "property_id": pid,
        "quick_cmd": "./check %s --tier quick" % pid,
        "thorough_cmd": "./check %s --tier thorough" % pid,
        "evidence_file": "evidence/%s.json" % pid,
        "replay_cmd_template": "./check %s --replay {path}" % pid,
        "engine": "coq-model+go-correspondence",
        "level_claimed": {
            "category": "proof",
            "text": c.get("level_text", ""),
            "design_ref": c.get("design_ref", "DESIGN.md section 7"),
        },
        "level_note": c.get("level_note", "Trusted: Coq 8.16.1 kernel (vm_compute, no native_compute), no axioms of our own; hand-written Gallina model tied to /repo by a differential correspondence check on every run; " + c.get("modelled", "")),
        "technique": c.get("technique", "machine-checked proof in Coq of theorems over a Gallina model + differential correspondence check of model against the Go implementation"),
    })
m = {
    "version": 1,
    "setup_cmd": "./setup.sh",
    "hooks": {
        "guard": "verif",
        "enable": "go build -tags verif (the harness module in /verif/harness is built with -tags verif against /repo via a replace directive)",
        "baseline_off_cmd": baseline,
        "source_commits": hooks,
        "add_only": True,
    },
    "engines": [{
        "name": "coq-model+go-correspondence", "path": "check",
        "serves_properties": [c["property_id"] for c in checks],
        "kind_free_text": "Coq 8.16.1 development (coq/: Base, Model, Proofs, Properties) whose theorems state each property over a hand-written executable Gallina model; on every run a Go harness (harness/, built against /repo's working tree) drives the real keepers with PRNG histories, evaluates Go monitors and writes the histories as Coq case files; coqc evaluates the model on them with vm_compute and compares projected observables step by step",
    }],
    "checks": checks,
    "not_applicable": na,
    "notes": "See DESIGN.md. Exit codes of ./check: 0 held, 1 VIOLATION line, 2 infrastructure failure (e.g. /repo does not compile).",
}
json.dump(m, open(os.path.join(ROOT, "MANIFEST.json"), "w"), indent=1)
print("checks:", len(checks), "not_applicable:", len(na))
