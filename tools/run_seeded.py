#!/usr/bin/env python3
"""Confirm a seeded change and run the checks against it.

usage: run_seeded.py <seed_dir> [--props C03,C02] [--skip-confirm] [--tier quick]
  <seed_dir> contains patch.diff, meta.json (property, demo_location, demo_cmd,
  existing_tests_cmd) and the demonstration file(s).

Steps (all in a scratch worktree of /repo, removed afterwards):
  1. apply patch.diff; go build of the touched packages;
  2. existing tests of the touched packages pass WITH the change;
  3. the demonstration fails WITH the change and passes WITHOUT it;
  4. VERIF_REPO=<worktree> ./check <prop> for the requested properties: record
     exit code and VIOLATION lines.
Prints a JSON summary."""
import argparse, json, os, re, shutil, subprocess, sys, tempfile

ENV = dict(os.environ, GOFLAGS="-mod=mod", GOPROXY="off", GOSUMDB="off", GOTOOLCHAIN="local")


def sh(cmd, cwd=None, timeout=3600, env=None):
    r = subprocess.run(cmd, shell=True, cwd=cwd, env=env or ENV, stdout=subprocess.PIPE, stderr=subprocess.STDOUT, text=True, timeout=timeout)
    return r.returncode, r.stdout


def main():
    ap = argparse.ArgumentParser()
    ap.add_argument("seed_dir")
    ap.add_argument("--props")
    ap.add_argument("--skip-confirm", action="store_true")
    ap.add_argument("--tier", default="quick")
    a = ap.parse_args()
    sd = os.path.abspath(a.seed_dir)
    meta = json.load(open(os.path.join(sd, "meta.json")))
    props = (a.props or meta["property"]).split(",")
    wt = tempfile.mkdtemp(prefix="wt_seed_", dir="/var/tmp")
    os.rmdir(wt)
    out = {"seed": sd, "property": meta["property"], "checks": {}}
    try:
        rc, o = sh("git -C /repo worktree add --detach %s HEAD" % wt)
        if rc:
            out["error"] = "worktree: " + o[-500:]; return out
        # untracked hook files of /repo (verif_export.go) are needed by the harness
        rc, o = sh("git -C /repo ls-files --others --exclude-standard")
        for f in o.split():
            if f.endswith(".go"):
                os.makedirs(os.path.dirname(os.path.join(wt, f)), exist_ok=True)
                shutil.copy(os.path.join("/repo", f), os.path.join(wt, f))
        rc, o = sh("git apply --whitespace=nowarn %s" % os.path.join(sd, "patch.diff"), cwd=wt)
        out["patch_applies"] = rc == 0
        if rc:
            out["error"] = "patch does not apply: " + o[-800:]; return out
        files = re.findall(r"^\+\+\+ b/(\S+)", open(os.path.join(sd, "patch.diff")).read(), flags=re.M)
        pkgs = sorted({"./" + os.path.dirname(f) + "/..." for f in files if f.endswith(".go")})
        out["touched_packages"] = pkgs
        if not a.skip_confirm:
            rc, o = sh("go build " + " ".join(pkgs), cwd=wt)
            out["builds"] = rc == 0
            if rc:
                out["error"] = "does not build: " + o[-800:]; return out
            tcmd = meta.get("existing_tests_cmd") or ("go test -count=1 " + " ".join(pkgs))
            tcmd = re.sub(r"\([^)]*\)", "", tcmd)
            if "-count=1" not in tcmd:
                tcmd = tcmd.replace("go test", "go test -count=1", 1)
            rc, o = sh(tcmd, cwd=wt)
            out["existing_tests_pass_with_change"] = rc == 0
            out["existing_tests_cmd"] = tcmd
            if rc:
                out["existing_tests_tail"] = o[-1500:]
            # demonstration
            loc = (meta.get("demo_location") or "").split()[0] if meta.get("demo_location") else None
            demo_files = [f for f in os.listdir(sd) if f.endswith(".go")]
            if loc and demo_files:
                dst = os.path.join(wt, loc)
                if dst.endswith(".go"):
                    dstdir = os.path.dirname(dst)
                else:
                    dstdir = dst
                os.makedirs(dstdir, exist_ok=True)
                placed = []
                for f in demo_files:
                    target = dst if (dst.endswith(".go") and len(demo_files) == 1) else os.path.join(dstdir, f)
                    shutil.copy(os.path.join(sd, f), target)
                    placed.append(target)
                rc, o = sh(meta["demo_cmd"], cwd=wt)
                out["demo_fails_with_change"] = rc != 0
                out["demo_with_change_tail"] = o[-600:]
                sh("git apply -R --whitespace=nowarn %s" % os.path.join(sd, "patch.diff"), cwd=wt)
                rc, o = sh(meta["demo_cmd"], cwd=wt)
                out["demo_passes_without_change"] = rc == 0
                if rc:
                    out["demo_without_change_tail"] = o[-600:]
                sh("git apply --whitespace=nowarn %s" % os.path.join(sd, "patch.diff"), cwd=wt)
                for t in placed:
                    os.unlink(t)
        for p in props:
            env = dict(ENV, VERIF_REPO=wt, VERIF_TIER=a.tier)
            rc, o = sh("./check %s --tier %s" % (p, a.tier), cwd="/verif", env=env, timeout=5400)
            lines = [l for l in o.splitlines() if l.startswith("VIOLATION") or l.startswith("KNOWN-FINDING")]
            det = []
            for l in lines:
                m = re.search(r"replay=(\S+)", l)
                if m and os.path.exists(m.group(1)):
                    try:
                        rp = json.load(open(m.group(1)))
                        det.append({"kind": rp.get("kind"), "signature": rp.get("signature"), "predicate": rp.get("predicate")})
                    except Exception:
                        pass
            out["checks"][p] = {"exit": rc, "violations": [l for l in lines if l.startswith("VIOLATION")], "details": det,
                                "tail": o[-400:] if rc not in (0, 1) else ""}
        return out
    finally:
        sh("git -C /repo worktree remove --force %s" % wt)
        shutil.rmtree(wt, ignore_errors=True)


if __name__ == "__main__":
    res = main()
    print(json.dumps(res, indent=1))
