# tiny EVM assembler with labels (all jumps PUSH2)
OPS = dict(STOP=0x00, ADD=0x01, SUB=0x03, LT=0x10, EQ=0x14, ISZERO=0x15, SHL=0x1b, SHR=0x1c, CALLER=0x33, CALLDATALOAD=0x35,
           CODECOPY=0x39, POP=0x50, MSTORE=0x52, SLOAD=0x54, SSTORE=0x55, JUMPI=0x57, JUMPDEST=0x5b, RETURN=0xf3, REVERT=0xfd,
           DUP1=0x80, DUP2=0x81, DUP3=0x82, SWAP1=0x90)
src = """
PUSH1 00 CALLDATALOAD PUSH1 e0 SHR
DUP1 PUSH4 70a08231 EQ PUSH2 @balanceOf JUMPI
DUP1 PUSH4 a9059cbb EQ PUSH2 @transfer JUMPI
DUP1 PUSH4 40c10f19 EQ PUSH2 @mint JUMPI
DUP1 PUSH4 18160ddd EQ PUSH2 @total JUMPI
:rev JUMPDEST PUSH1 00 PUSH1 00 REVERT
:balanceOf JUMPDEST PUSH1 04 CALLDATALOAD SLOAD PUSH1 00 MSTORE PUSH1 20 PUSH1 00 RETURN
:total JUMPDEST PUSH1 01 PUSH1 a0 SHL SLOAD PUSH1 00 MSTORE PUSH1 20 PUSH1 00 RETURN
:mint JUMPDEST
 PUSH1 04 CALLDATALOAD ISZERO PUSH2 @rev JUMPI
 PUSH1 24 CALLDATALOAD
 PUSH1 01 PUSH1 a0 SHL SLOAD
 DUP2 ADD
 DUP2 DUP2 LT PUSH2 @rev JUMPI
 PUSH1 01 PUSH1 a0 SHL SSTORE
 PUSH1 04 CALLDATALOAD DUP1 SLOAD DUP3 ADD SWAP1 SSTORE
 POP STOP
:transfer JUMPDEST
 PUSH1 04 CALLDATALOAD ISZERO PUSH2 @rev JUMPI
 PUSH1 24 CALLDATALOAD
 CALLER SLOAD
 DUP2 DUP2 LT PUSH2 @fail JUMPI
 DUP2 SWAP1 SUB CALLER SSTORE
 PUSH1 04 CALLDATALOAD DUP1 SLOAD DUP3 ADD SWAP1 SSTORE
 POP
 PUSH1 01 PUSH1 00 MSTORE PUSH1 20 PUSH1 00 RETURN
:fail JUMPDEST PUSH1 00 PUSH1 00 MSTORE PUSH1 20 PUSH1 00 RETURN
"""
toks = src.split()
# pass 1: sizes
def size(i):
    t = toks[i]
    if t.startswith(':'): return 0, 1
    if t.startswith('PUSH'):
        n = int(t[4:]); return 1 + n, 2
    return 1, 1
labels = {}; pc = 0; i = 0
while i < len(toks):
    t = toks[i]
    if t.startswith(':'): labels[t[1:]] = pc; i += 1; continue
    sz, adv = size(i); pc += sz; i += adv
out = bytearray(); i = 0
while i < len(toks):
    t = toks[i]
    if t.startswith(':'): i += 1; continue
    if t.startswith('PUSH'):
        n = int(t[4:]); arg = toks[i+1]
        out.append(0x5f + n)
        if arg.startswith('@'): out += labels[arg[1:]].to_bytes(n, 'big')
        else:
            b = bytes.fromhex(arg); assert len(b) == n, (t, arg); out += b
        i += 2; continue
    out.append(OPS[t]); i += 1
for l, p in labels.items(): assert out[p] == 0x5b, l
rt = bytes(out)
init = bytes([0x61]) + len(rt).to_bytes(2,'big') + bytes([0x80, 0x61, 0x00, 0x0d, 0x60, 0x00, 0x39, 0x60, 0x00, 0xf3])
assert len(init) == 13
print(len(rt), (init + rt).hex())
