#!/usr/bin/env python3
"""Copy confirmed seeded changes from /var/tmp/seed_out/<prop>/<k>/ into
/verif/seeded/<prop>-<k>/ (patch.diff, demonstration, meta.json augmented with
what was confirmed and which check caught it) and print a summary table."""
import json, os, shutil, sys, glob
# usage: collect_seeded.py [src_dir [offset]]   (round 2: /var/tmp/seed_out2 3  =>  C01/1 -> seeded/C01-4)
src = sys.argv[1] if len(sys.argv) > 1 else "/var/tmp/seed_out"
offset = int(sys.argv[2]) if len(sys.argv) > 2 else 0
dst = "/verif/seeded"
rows = []
for d in sorted(glob.glob(src + "/*/*/")):
    prop, k = d.rstrip("/").split("/")[-2:]
    k = str(int(k) + offset)
    if not os.path.exists(d + "patch.diff") or not os.path.exists(d + "meta.json"):
        continue
    res = None
    for name in ("result.json",):
        try:
            res = json.load(open(d + name))
        except Exception:
            pass
    if not res:
        continue
    later = None
    for name in ("result3.json", "result2.json"):
        try:
            later = json.load(open(d + name)); break
        except Exception:
            pass
    meta = json.load(open(d + "meta.json"))
    confirmed = res.get("builds") and res.get("demo_fails_with_change") and res.get("demo_passes_without_change")
    final = later or res
    def caught(r):
        out = {}
        for p, c in (r.get("checks") or {}).items():
            out[p] = {"exit": c["exit"], "caught_by": [x.get("signature") or x.get("kind") for x in c["details"]]}
        return out
    meta["confirmation"] = {
        "patch_applies_to_head": res.get("patch_applies"), "builds": res.get("builds"),
        "existing_tests_pass_with_change": res.get("existing_tests_pass_with_change"),
        "existing_tests_cmd_run": res.get("existing_tests_cmd"),
        "demo_fails_with_change": res.get("demo_fails_with_change"),
        "demo_passes_without_change": res.get("demo_passes_without_change"),
        "what_i_ran": "tools/run_seeded.py (scratch worktree of /repo HEAD, patch applied, go build, existing tests of touched packages, demonstration with and without the change, VERIF_REPO=<worktree> ./check <property>)",
    }
    meta["detection_first_run"] = caught(res)
    if later:
        meta["detection_after_strengthening"] = caught(later)
    if not confirmed:
        meta["kept"] = False
    out = os.path.join(dst, "%s-%s" % (prop, k))
    os.makedirs(out, exist_ok=True)
    for f in os.listdir(d):
        if f.endswith(".go") or f == "patch.diff":
            shutil.copy(d + f, out)
    json.dump(meta, open(os.path.join(out, "meta.json"), "w"), indent=1)
    f1 = caught(res).get(prop, {})
    f2 = caught(later).get(prop, {}) if later else None
    rows.append((prop, k, bool(confirmed), res.get("existing_tests_pass_with_change"), f1.get("exit"), ",".join(map(str, f1.get("caught_by") or [])),
                 (f2 or {}).get("exit"), ",".join(map(str, (f2 or {}).get("caught_by") or [])), meta.get("summary", "")[:110]))
for r in rows:
    print("| %s-%s | %s | %s | %s %s | %s %s | %s |" % (r[0], r[1], "yes" if r[2] else "NO", r[3], r[4], r[5], r[6] if r[6] is not None else "", r[7], r[8]))
