// sites: enumerates, from the current source of /repo (non-test, non-generated
// files of ./x/... and ./app/...), every place where the Go code consults
// something that is not a function of state and block: range loops over maps,
// sort.Slice / sort.Sort / sort.SliceStable / slices.Sort* calls, time.Now,
// go statements, select statements, math/rand and crypto/rand uses.
// Output: JSON list of {key, kind, file, func, expr, in_telemetry}.
package main

import (
	"encoding/json"
	"fmt"
	"go/ast"
	"go/printer"
	"go/token"
	"go/types"
	"os"
	"path/filepath"
	"sort"
	"strings"

	"golang.org/x/tools/go/packages"
)

type Site struct {
	Key         string `json:"key"`
	Kind        string `json:"kind"`
	File        string `json:"file"`
	Func        string `json:"func"`
	Expr        string `json:"expr"`
	InTelemetry bool   `json:"in_telemetry,omitempty"`
}

func main() {
	repo := "/repo"
	if len(os.Args) > 1 {
		repo = os.Args[1]
	}
	cfg := &packages.Config{Mode: packages.NeedName | packages.NeedFiles | packages.NeedSyntax | packages.NeedTypes | packages.NeedTypesInfo | packages.NeedImports,
		Dir: repo, Tests: false}
	pkgs, err := packages.Load(cfg, "./x/...", "./app/...")
	if err != nil {
		fmt.Fprintln(os.Stderr, err)
		os.Exit(2)
	}
	var sites []Site
	for _, p := range pkgs {
		if len(p.Errors) > 0 {
			fmt.Fprintln(os.Stderr, "package errors:", p.PkgPath, p.Errors[0])
			os.Exit(2)
		}
		for i, f := range p.Syntax {
			_ = i
			fn := p.Fset.Position(f.Pos()).Filename
			rel, _ := filepath.Rel(repo, fn)
			base := filepath.Base(fn)
			if strings.HasSuffix(base, "_test.go") || strings.HasSuffix(base, ".pb.go") || strings.HasSuffix(base, ".pb.gw.go") ||
				strings.Contains(rel, "/client/") || strings.Contains(rel, "/simulation/") || strings.Contains(rel, "/testutil/") ||
				strings.Contains(rel, "/mocks/") || strings.Contains(rel, "/legacy/") || strings.Contains(rel, "/migrations/") {
				continue
			}
			sites = append(sites, scan(p, f, rel)...)
		}
	}
	sort.Slice(sites, func(i, j int) bool { return sites[i].Key < sites[j].Key })
	// disambiguate identical keys deterministically
	seen := map[string]int{}
	for i := range sites {
		seen[sites[i].Key]++
		if n := seen[sites[i].Key]; n > 1 {
			sites[i].Key = fmt.Sprintf("%s#%d", sites[i].Key, n)
		}
	}
	out, _ := json.MarshalIndent(sites, "", " ")
	fmt.Println(string(out))
}

func exprString(fset *token.FileSet, e ast.Node) string {
	var b strings.Builder
	printer.Fprint(&b, fset, e)
	s := strings.Join(strings.Fields(b.String()), " ")
	if len(s) > 60 {
		s = s[:60]
	}
	return s
}

func scan(p *packages.Package, f *ast.File, rel string) []Site {
	var out []Site
	var funcStack []string
	var telemetryDepth int
	add := func(kind string, n ast.Node, expr string) {
		fn := "<file>"
		if len(funcStack) > 0 {
			fn = funcStack[len(funcStack)-1]
		}
		tl := ""
		if telemetryDepth > 0 {
			tl = "|telemetry"
		}
		out = append(out, Site{Key: rel + "|" + fn + "|" + kind + "|" + expr + tl, Kind: kind, File: rel, Func: fn, Expr: expr, InTelemetry: telemetryDepth > 0})
	}
	var visit func(n ast.Node) bool
	visit = func(n ast.Node) bool {
		switch x := n.(type) {
		case *ast.FuncDecl:
			name := x.Name.Name
			if x.Recv != nil && len(x.Recv.List) > 0 {
				name = exprString(p.Fset, x.Recv.List[0].Type) + "." + name
			}
			funcStack = append(funcStack, name)
			if x.Body != nil {
				ast.Inspect(x.Body, visit)
			}
			funcStack = funcStack[:len(funcStack)-1]
			return false
		case *ast.RangeStmt:
			if t := p.TypesInfo.TypeOf(x.X); t != nil {
				if _, ok := t.Underlying().(*types.Map); ok {
					add("maprange", x, exprString(p.Fset, x.X))
				}
			}
		case *ast.GoStmt:
			add("go", x, exprString(p.Fset, x.Call.Fun))
		case *ast.SelectStmt:
			add("select", x, "")
		case *ast.CallExpr:
			if sel, ok := x.Fun.(*ast.SelectorExpr); ok {
				if id, ok := sel.X.(*ast.Ident); ok {
					if pn, ok := p.TypesInfo.Uses[id].(*types.PkgName); ok {
						path := pn.Imported().Path()
						name := sel.Sel.Name
						switch {
						case path == "sort" && (name == "Slice" || name == "Sort" || name == "SliceStable" || name == "Stable" || name == "Strings" || name == "Ints" || name == "Float64s"):
							add("sort."+name, x, exprString(p.Fset, x.Args[0]))
						case (path == "slices" || path == "golang.org/x/exp/slices") && strings.HasPrefix(name, "Sort"):
							add("slices."+name, x, exprString(p.Fset, x.Args[0]))
						case path == "time" && name == "Now":
							add("time.Now", x, "")
						case path == "math/rand" || path == "crypto/rand" || path == "math/rand/v2":
							add("rand."+name, x, "")
						case strings.HasSuffix(path, "/telemetry"):
							telemetryDepth++
							for _, a := range x.Args {
								ast.Inspect(a, visit)
							}
							telemetryDepth--
							return false
						}
					}
				}
			}
		}
		return true
	}
	ast.Inspect(f, visit)
	return out
}
