// sites: enumerates, from the current source of /repo (non-test, non-generated
// files of ./x/... and ./app/...), every place where the Go code consults
// something that is not a function of state and block: range loops over maps,
// sort.Slice / sort.Sort / sort.SliceStable / slices.Sort* calls, time.Now,
// go statements, select statements, math/rand and crypto/rand uses.
// Output: JSON list of {key, kind, file, func, expr, in_telemetry}.
package main

import (
	"encoding/json"
	"fmt"
	"go/ast"
	"go/printer"
	"go/token"
	"go/types"
	"os"
	"path/filepath"
	"sort"
	"strings"

	"golang.org/x/tools/go/packages"
)

type Site struct {
	Key         string `json:"key"`
	Kind        string `json:"kind"`
	File        string `json:"file"`
	Func        string `json:"func"`
	Expr        string `json:"expr"`
	InTelemetry bool   `json:"in_telemetry,omitempty"`
}

func main() {
	repo := "/repo"
	if len(os.Args) > 1 {
		repo = os.Args[1]
	}
	cfg := &packages.Config{Mode: packages.NeedName | packages.NeedFiles | packages.NeedSyntax | packages.NeedTypes | packages.NeedTypesInfo | packages.NeedImports,
		Dir: repo, Tests: false}
	pkgs, err := packages.Load(cfg, "./x/...", "./app/...")
	if err != nil {
		fmt.Fprintln(os.Stderr, err)
		os.Exit(2)
	}
	var sites []Site
	for _, p := range pkgs {
		if len(p.Errors) > 0 {
			fmt.Fprintln(os.Stderr, "package errors:", p.PkgPath, p.Errors[0])
			os.Exit(2)
		}
		for i, f := range p.Syntax {
			_ = i
			fn := p.Fset.Position(f.Pos()).Filename
			rel, _ := filepath.Rel(repo, fn)
			base := filepath.Base(fn)
			if strings.HasSuffix(base, "_test.go") || strings.HasSuffix(base, ".pb.go") || strings.HasSuffix(base, ".pb.gw.go") ||
				strings.Contains(rel, "/client/") || strings.Contains(rel, "/simulation/") || strings.Contains(rel, "/testutil/") ||
				strings.Contains(rel, "/mocks/") || strings.Contains(rel, "/legacy/") || strings.Contains(rel, "/migrations/") {
				continue
			}
			sites = append(sites, scan(p, f, rel)...)
		}
	}
	sort.Slice(sites, func(i, j int) bool { return sites[i].Key < sites[j].Key })
	// disambiguate identical keys deterministically
	seen := map[string]int{}
	for i := range sites {
		seen[sites[i].Key]++
		if n := seen[sites[i].Key]; n > 1 {
			sites[i].Key = fmt.Sprintf("%s#%d", sites[i].Key, n)
		}
	}
	out, _ := json.MarshalIndent(sites, "", " ")
	fmt.Println(string(out))
}

func exprString(fset *token.FileSet, e ast.Node) string {
	var b strings.Builder
	printer.Fprint(&b, fset, e)
	s := strings.Join(strings.Fields(b.String()), " ")
	if len(s) > 60 {
		s = s[:60]
	}
	return s
}

func scan(p *packages.Package, f *ast.File, rel string) []Site {
	var out []Site
	var funcStack []string
	var telemetryDepth int
	add := func(kind string, n ast.Node, expr string) {
		fn := "<file>"
		if len(funcStack) > 0 {
			fn = funcStack[len(funcStack)-1]
		}
		tl := ""
		if telemetryDepth > 0 {
			tl = "|telemetry"
		}
		out = append(out, Site{Key: rel + "|" + fn + "|" + kind + "|" + expr + tl, Kind: kind, File: rel, Func: fn, Expr: expr, InTelemetry: telemetryDepth > 0})
	}
	var visit func(n ast.Node) bool
	visit = func(n ast.Node) bool {
		switch x := n.(type) {
		case *ast.FuncDecl:
			name := x.Name.Name
			if x.Recv != nil && len(x.Recv.List) > 0 {
				name = exprString(p.Fset, x.Recv.List[0].Type) + "." + name
			}
			funcStack = append(funcStack, name)
			if x.Body != nil {
				ast.Inspect(x.Body, visit)
			}
			funcStack = funcStack[:len(funcStack)-1]
			return false
		case *ast.GenDecl:
			// struct types that live as long as the process and are reachable from block
			// execution (keepers, the app, ante decorators, msg/query servers): every field is
			// listed with its type, so that an added in-memory cache (a map, a sync.Map, a
			// pointer to mutable state that is not rolled back with a failed transaction and
			// not rebuilt identically after a restart) shows up as a new row
			if x.Tok == token.TYPE && len(funcStack) == 0 {
				for _, sp := range x.Specs {
					ts, ok := sp.(*ast.TypeSpec)
					if !ok {
						continue
					}
					st, ok := ts.Type.(*ast.StructType)
					if !ok || !longLived(ts.Name.Name) {
						continue
					}
					for _, fl := range st.Fields.List {
						ty := exprString(p.Fset, fl.Type)
						if len(fl.Names) == 0 {
							out = append(out, Site{Key: rel + "|" + ts.Name.Name + "|field|(embedded) " + ty, Kind: "field", File: rel, Func: ts.Name.Name, Expr: ty})
						}
						for _, nm := range fl.Names {
							out = append(out, Site{Key: rel + "|" + ts.Name.Name + "|field|" + nm.Name + " " + ty, Kind: "field", File: rel, Func: ts.Name.Name, Expr: nm.Name + " " + ty})
						}
					}
				}
			}
			// package-level variables of container or pointer type (process-wide mutable state)
			if x.Tok == token.VAR && len(funcStack) == 0 {
				for _, sp := range x.Specs {
					vs, ok := sp.(*ast.ValueSpec)
					if !ok {
						continue
					}
					for _, nm := range vs.Names {
						if nm.Name == "_" {
							continue
						}
						obj := p.TypesInfo.Defs[nm]
						if obj == nil {
							continue
						}
						if mutableContainer(obj.Type()) {
							out = append(out, Site{Key: rel + "|<package>|pkgvar|" + nm.Name + " " + types.TypeString(obj.Type(), shortQual), Kind: "pkgvar", File: rel, Func: "<package>", Expr: nm.Name})
						}
					}
				}
			}
		case *ast.RangeStmt:
			if t := p.TypesInfo.TypeOf(x.X); t != nil {
				if _, ok := t.Underlying().(*types.Map); ok {
					add("maprange", x, exprString(p.Fset, x.X))
				}
			}
		case *ast.GoStmt:
			add("go", x, exprString(p.Fset, x.Call.Fun))
		case *ast.SelectStmt:
			add("select", x, "")
		case *ast.SelectorExpr:
			if id, ok := x.X.(*ast.Ident); ok && x.Sel.Name == "Local" {
				if pn, ok := p.TypesInfo.Uses[id].(*types.PkgName); ok && pn.Imported().Path() == "time" {
					add("time.Local", x, "")
				}
			}
		case *ast.CallExpr:
			if sel, ok := x.Fun.(*ast.SelectorExpr); ok && (sel.Sel.Name == "Local" || sel.Sel.Name == "In" || sel.Sel.Name == "MarshalBinary" || sel.Sel.Name == "GobEncode") {
				if t := p.TypesInfo.TypeOf(sel.X); t != nil && t.String() == "time.Time" {
					add("time.Time."+sel.Sel.Name, x, exprString(p.Fset, x))
				}
			}
			if sel, ok := x.Fun.(*ast.SelectorExpr); ok {
				if id, ok := sel.X.(*ast.Ident); ok {
					if pn, ok := p.TypesInfo.Uses[id].(*types.PkgName); ok {
						path := pn.Imported().Path()
						name := sel.Sel.Name
						switch {
						case path == "sort" && (name == "Slice" || name == "Sort" || name == "SliceStable" || name == "Stable" || name == "Strings" || name == "Ints" || name == "Float64s"):
							add("sort."+name, x, exprString(p.Fset, x.Args[0]))
						case (path == "slices" || path == "golang.org/x/exp/slices") && strings.HasPrefix(name, "Sort"):
							add("slices."+name, x, exprString(p.Fset, x.Args[0]))
						case path == "time" && name == "Now":
							add("time.Now", x, "")
						case path == "time" && name == "Date" && len(x.Args) == 8 && exprString(p.Fset, x.Args[7]) == "time.UTC":
							// explicit UTC: independent of the environment
						case path == "time" && (name == "Unix" || name == "UnixMilli" || name == "UnixMicro" || name == "Date" || name == "ParseInLocation"):
							// a Time built from a count or fields carries a location: time.Unix gives the
							// PROCESS-LOCAL zone, which binary/amino time encodings write into the store
							add("time."+name, x, exprString(p.Fset, x))
						case path == "time" && (name == "Since" || name == "Until" || name == "LoadLocation" || name == "After" || name == "Tick" || name == "Sleep" || name == "NewTimer" || name == "NewTicker"):
							add("time."+name, x, "")
						case path == "os" && (name == "Getenv" || name == "LookupEnv" || name == "Environ" || name == "Hostname" || name == "Getpid" || name == "Getwd"):
							add("os."+name, x, exprString(p.Fset, x))
						case path == "runtime" && (name == "NumCPU" || name == "GOMAXPROCS" || name == "NumGoroutine"):
							add("runtime."+name, x, "")
						case path == "math/rand" || path == "crypto/rand" || path == "math/rand/v2":
							add("rand."+name, x, "")
						case strings.HasSuffix(path, "/telemetry"):
							telemetryDepth++
							for _, a := range x.Args {
								ast.Inspect(a, visit)
							}
							telemetryDepth--
							return false
						}
					}
				}
			}
		}
		return true
	}
	ast.Inspect(f, visit)
	return out
}

func longLived(name string) bool {
	return name == "App" || strings.HasSuffix(name, "Keeper") || strings.HasSuffix(name, "keeper") ||
		strings.HasSuffix(name, "Decorator") || strings.HasSuffix(name, "Server") || strings.HasSuffix(name, "server") ||
		strings.HasSuffix(name, "Hooks") || strings.HasSuffix(name, "Handler") || name == "AppModule"
}

func shortQual(p *types.Package) string { return p.Name() }

// maps, channels, sync/atomic values and pointers to them: state that survives a
// transaction roll-back and differs between a fresh and a long-running process.
// Slices and arrays of bytes/strings (key prefixes, name lists) are excluded.
func mutableContainer(t types.Type) bool {
	switch u := t.Underlying().(type) {
	case *types.Map, *types.Chan:
		return true
	case *types.Pointer:
		return mutableContainer(u.Elem()) || isSync(u.Elem())
	}
	return isSync(t)
}

func isSync(t types.Type) bool {
	if n, ok := t.(*types.Named); ok && n.Obj().Pkg() != nil {
		pp := n.Obj().Pkg().Path()
		return pp == "sync" || pp == "sync/atomic"
	}
	return false
}
