package lib

import (
	"encoding/hex"
	"fmt"
	"math/big"
	"sync"
	"time"

	sdkmath "cosmossdk.io/math"
	tmproto "github.com/cometbft/cometbft/proto/tendermint/types"
	"github.com/cosmos/cosmos-sdk/store/rootmulti"
	storetypes "github.com/cosmos/cosmos-sdk/store/types"
	sdk "github.com/cosmos/cosmos-sdk/types"

	"github.com/kava-labs/kava/app"
)

var sdkConfigOnce sync.Once

// NewApp returns a fresh TestApp; the sdk config is set exactly once.
func NewApp() app.TestApp {
	sdkConfigOnce.Do(func() { app.SetSDKConfig() })
	return app.NewTestAppFromSealed()
}

var GenesisTime = time.Date(2024, 1, 1, 0, 0, 0, 0, time.UTC)

// NewCtx returns a deliver-mode context at the given height and time.
func NewCtx(tApp app.TestApp, height int64, t time.Time) sdk.Context {
	return tApp.NewContext(false, tmproto.Header{Height: height, Time: t, ChainID: app.TestChainId})
}

// Addrs returns n deterministic addresses.
func Addrs(n int) []sdk.AccAddress {
	_, a := app.GeneratePrivKeyAddressPairs(n)
	return a
}

// Class is the canonical result class of an operation.
type Class int

const (
	ClassOk Class = iota
	ClassErr
	ClassPanic
)

func (c Class) Coq() string {
	switch c {
	case ClassOk:
		return "ROk"
	case ClassErr:
		return "RErr"
	default:
		return "RPanic"
	}
}

func (c Class) String() string { return [...]string{"ok", "err", "panic"}[c] }

// Atomically executes f on a cached context; the writes are committed only if
// f returns nil and does not panic — the atomicity baseapp gives a message.
func Atomically(ctx sdk.Context, f func(ctx sdk.Context) error) (cls Class, err error) {
	cctx, write := ctx.CacheContext()
	defer func() {
		if r := recover(); r != nil {
			cls = ClassPanic
			err = fmt.Errorf("panic: %v", r)
		}
	}()
	if e := f(cctx); e != nil {
		return ClassErr, e
	}
	write()
	return ClassOk, nil
}

func BI(x sdkmath.Int) *big.Int { return x.BigInt() }

func Pow10(n int) *big.Int { return new(big.Int).Exp(big.NewInt(10), big.NewInt(int64(n)), nil) }

// DumpStores returns, for every named KV store of the app's multistore, all
// key/value pairs (hex) as seen by ctx.
func DumpStores(tApp app.TestApp, ctx sdk.Context, only map[string]bool) map[string]map[string]string {
	byName := tApp.CommitMultiStore().(*rootmulti.Store).StoreKeysByName()
	out := map[string]map[string]string{}
	for name, key := range byName {
		if only != nil && !only[name] {
			continue
		}
		if _, ok := key.(*storetypes.KVStoreKey); !ok {
			continue
		}
		m := map[string]string{}
		it := ctx.KVStore(key).Iterator(nil, nil)
		for ; it.Valid(); it.Next() {
			m[hex.EncodeToString(it.Key())] = hex.EncodeToString(it.Value())
		}
		it.Close()
		out[name] = m
	}
	return out
}
