// Package drivers holds one correspondence driver per property.  A driver
// generates histories from a single PRNG state, runs them against the real
// keepers of a fresh app.TestApp, evaluates monitors (the property stated
// directly on the implementation's observable state) and writes the same
// histories, with the projected observations, as Coq terms for the model run.
package lib

import (
	"encoding/json"
	"flag"
	"fmt"
	"math/big"
	"os"
	"path/filepath"
	"runtime"
	"sort"
	"strings"
	"sync"
)

// ---------------------------------------------------------------- PRNG

// Rng is splitmix64; every random choice of a history derives from one state.
type Rng struct{ s uint64 }

func NewRng(seed uint64, stream uint64) *Rng {
	r := &Rng{s: seed*0x9E3779B97F4A7C15 + stream*0xD1B54A32D192ED03 + 0x632BE59BD9B4E019}
	r.Next()
	return r
}

func (r *Rng) Next() uint64 {
	r.s += 0x9E3779B97F4A7C15
	z := r.s
	z = (z ^ (z >> 30)) * 0xBF58476D1CE4E5B9
	z = (z ^ (z >> 27)) * 0x94D049BB133111EB
	return z ^ (z >> 31)
}

// Intn returns a value in [0,n).
func (r *Rng) Intn(n int) int {
	if n <= 0 {
		return 0
	}
	return int(r.Next() % uint64(n))
}

func (r *Rng) Int63n(n int64) int64 {
	if n <= 0 {
		return 0
	}
	return int64(r.Next() % uint64(n))
}

// Chance returns true with probability num/den.
func (r *Rng) Chance(num, den int) bool { return r.Intn(den) < num }

// BigBelow returns a uniformly random big integer in [0, 2^bits).
func (r *Rng) BigBits(bits int) *big.Int {
	z := new(big.Int)
	for i := 0; i < (bits+63)/64; i++ {
		z.Lsh(z, 64)
		z.Or(z, new(big.Int).SetUint64(r.Next()))
	}
	m := new(big.Int).Lsh(big.NewInt(1), uint(bits))
	return z.Mod(z, m)
}

// Pick returns a weighted choice index.
func (r *Rng) Pick(weights ...int) int {
	t := 0
	for _, w := range weights {
		t += w
	}
	x := r.Intn(t)
	for i, w := range weights {
		if x < w {
			return i
		}
		x -= w
	}
	return len(weights) - 1
}

// ---------------------------------------------------------------- results

// Failure is a monitor failure: the property fails on the implementation on a
// concrete history.
type Failure struct {
	History   int             `json:"history"`
	Step      int             `json:"step"`
	Predicate string          `json:"predicate"`
	Signature string          `json:"signature"` // classifier matched against known_findings.json
	Detail    string          `json:"detail"`
	Replay    json.RawMessage `json:"replay"` // self-contained description of the (shrunk) failing history
}

// Result is what a driver run reports to the check script.
type Result struct {
	Property           string         `json:"property"`
	Seed               uint64         `json:"seed"`
	Evaluations        int            `json:"evaluations"`         // operations executed on the implementation
	Histories          int            `json:"histories"`           // histories generated
	DistinctNontrivial int            `json:"distinct_nontrivial"` // see Rule
	Rule               string         `json:"rule"`
	Samples            []any          `json:"samples"`
	Counters           map[string]int `json:"counters"` // op mix, error kinds, proof-relevant case splits
	QualityGate        []string       `json:"quality_gate_unmet"`
	Failures           []Failure      `json:"failures"`
	Shards             []string       `json:"shards"`     // Coq case files written
	HistIndex          []HistRef      `json:"hist_index"` // shard/position -> history id, for mapping mismatches back
	Extra              map[string]any `json:"extra,omitempty"`
}

type HistRef struct {
	Shard int             `json:"shard"`
	Pos   int             `json:"pos"`
	Hist  int             `json:"hist"`
	Desc  json.RawMessage `json:"desc"` // replayable description of the history
}

// Opts are the common driver options.
type Opts struct {
	Seed    uint64
	N       int    // number of histories
	Len     int    // operations per history (0 = driver default)
	OutDir  string // where shards and result.json go
	Replay  string // replay file (optional)
	Tier    string
	Workers int
}

type Driver func(o Opts) (*Result, error)

var Registry = map[string]Driver{}

// Counters is a concurrency-safe counter map.
type Counters struct {
	mu sync.Mutex
	m  map[string]int
}

func NewCounters() *Counters { return &Counters{m: map[string]int{}} }
func (c *Counters) Inc(k string) {
	c.mu.Lock()
	c.m[k]++
	c.mu.Unlock()
}
func (c *Counters) Add(k string, n int) {
	c.mu.Lock()
	c.m[k] += n
	c.mu.Unlock()
}
func (c *Counters) Map() map[string]int {
	c.mu.Lock()
	defer c.mu.Unlock()
	out := map[string]int{}
	for k, v := range c.m {
		out[k] = v
	}
	return out
}

// ---------------------------------------------------------------- Coq term writer

// Z renders an integer as a Coq Z literal (Z scope is open in case files).
func Z(x *big.Int) string {
	if x.Sign() < 0 {
		return "(" + x.String() + ")"
	}
	return x.String()
}
func Zi(x int64) string { return Z(big.NewInt(x)) }

// Nat renders a nat literal.
func Nat(n int) string { return fmt.Sprintf("%d%%nat", n) }

func Bool(b bool) string {
	if b {
		return "true"
	}
	return "false"
}

func List(items []string) string { return "[" + strings.Join(items, "; ") + "]" }

func ZList(xs []*big.Int) string {
	it := make([]string, len(xs))
	for i, x := range xs {
		it[i] = Z(x)
	}
	return List(it)
}

func BoolList(xs []bool) string {
	it := make([]string, len(xs))
	for i, x := range xs {
		it[i] = Bool(x)
	}
	return List(it)
}

// WriteShard writes one Coq case file.  header is the Require line(s); each
// case is a Coq term of the model's history type; the file prints the list of
// mismatching (history position, step) pairs.
func WriteShard(dir string, shard int, header string, cases []string, mismatchFn string) (string, error) {
	name := fmt.Sprintf("cases_%03d.v", shard)
	var b strings.Builder
	b.WriteString(header)
	b.WriteString("\nOpen Scope Z_scope.\n")
	// one definition per case keeps the parser's memory small
	for i, c := range cases {
		fmt.Fprintf(&b, "Definition c%d := %s.\n", i, c)
	}
	names := make([]string, len(cases))
	for i := range cases {
		names[i] = fmt.Sprintf("c%d", i)
	}
	fmt.Fprintf(&b, "Definition cases := %s.\n", List(names))
	fmt.Fprintf(&b, "Definition M := Eval vm_compute in (%s cases).\nPrint M.\n", mismatchFn)
	return name, os.WriteFile(filepath.Join(dir, name), []byte(b.String()), 0o644)
}

func WriteResult(dir string, r *Result) error {
	bz, err := json.MarshalIndent(r, "", " ")
	if err != nil {
		return err
	}
	return os.WriteFile(filepath.Join(dir, "result.json"), bz, 0o644)
}

// SortedKeys returns the keys of a counter map in order.
func SortedKeys(m map[string]int) []string {
	ks := make([]string, 0, len(m))
	for k := range m {
		ks = append(ks, k)
	}
	sort.Strings(ks)
	return ks
}

// Shrink removes operations one at a time while the failure persists
// (a simple delta-debugging pass, repeated to a fixed point).
func Shrink[T any](ops []T, fails func([]T) bool) []T {
	cur := append([]T(nil), ops...)
	for changed := true; changed; {
		changed = false
		for i := len(cur) - 1; i >= 0; i-- {
			cand := append(append([]T(nil), cur[:i]...), cur[i+1:]...)
			if fails(cand) {
				cur = cand
				changed = true
			}
		}
	}
	return cur
}

func MustJSON(v any) json.RawMessage {
	bz, err := json.Marshal(v)
	if err != nil {
		panic(err)
	}
	return bz
}

// ParallelFor runs f(i) for i in [0,n) on w workers.
func ParallelFor(n, w int, f func(i int)) {
	if w < 1 {
		w = 1
	}
	var wg sync.WaitGroup
	ch := make(chan int)
	for k := 0; k < w; k++ {
		wg.Add(1)
		go func() {
			defer wg.Done()
			for i := range ch {
				f(i)
			}
		}()
	}
	for i := 0; i < n; i++ {
		ch <- i
	}
	close(ch)
	wg.Wait()
}

// Main is the entry point shared by the per-property binaries:
//
//	kvh_Cxx -seed S -n N [-len L] -out DIR [-replay FILE] [-tier quick|thorough] [-workers W]
func Main(prop string) {
	fs := flag.NewFlagSet("kvh", flag.ExitOnError)
	seed := fs.Uint64("seed", 1, "PRNG seed")
	n := fs.Int("n", 10, "number of histories")
	l := fs.Int("len", 0, "operations per history (0 = driver default)")
	out := fs.String("out", ".", "output directory")
	replay := fs.String("replay", "", "replay file")
	tier := fs.String("tier", "quick", "tier")
	workers := fs.Int("workers", runtime.NumCPU(), "parallel workers")
	_ = fs.Parse(os.Args[1:])
	d, ok := Registry[prop]
	if !ok {
		fmt.Fprintf(os.Stderr, "no driver for %s\n", prop)
		os.Exit(2)
	}
	if err := os.MkdirAll(*out, 0o755); err != nil {
		fmt.Fprintln(os.Stderr, err)
		os.Exit(2)
	}
	res, err := d(Opts{Seed: *seed, N: *n, Len: *l, OutDir: *out, Replay: *replay, Tier: *tier, Workers: *workers})
	if err != nil {
		fmt.Fprintln(os.Stderr, "driver error:", err)
		os.Exit(2)
	}
	if err := WriteResult(*out, res); err != nil {
		fmt.Fprintln(os.Stderr, err)
		os.Exit(2)
	}
	fmt.Printf("kvh %s: histories=%d evaluations=%d failures=%d shards=%d\n", prop, res.Histories, res.Evaluations, len(res.Failures), len(res.Shards))
}

// WriteShardList writes a Coq case file whose cases are the elements of one list.
func WriteShardList(dir string, shard int, header string, cases []string, mismatchFn string) (string, error) {
	name := fmt.Sprintf("cases_%03d.v", shard)
	var b strings.Builder
	b.WriteString(header)
	b.WriteString("\nOpen Scope Z_scope.\n")
	fmt.Fprintf(&b, "Definition cases := [\n%s\n].\n", strings.Join(cases, ";\n"))
	fmt.Fprintf(&b, "Definition M := Eval vm_compute in (%s cases).\nPrint M.\n", mismatchFn)
	return name, os.WriteFile(filepath.Join(dir, name), []byte(b.String()), 0o644)
}
