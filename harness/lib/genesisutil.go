package lib

// helpers of the in-place genesis re-import (component C14a of C14)

import (
	"encoding/hex"
	"fmt"
	"sort"

	storetypes "github.com/cosmos/cosmos-sdk/store/types"
	sdk "github.com/cosmos/cosmos-sdk/types"
)

// DumpStore returns every key/value pair (hex) of one KV store as seen by ctx.
func DumpStore(ctx sdk.Context, key storetypes.StoreKey) map[string]string {
	m := map[string]string{}
	it := ctx.KVStore(key).Iterator(nil, nil)
	defer it.Close()
	for ; it.Valid(); it.Next() {
		m[hex.EncodeToString(it.Key())] = hex.EncodeToString(it.Value())
	}
	return m
}

// WipeStore deletes every key of one KV store and returns how many there were.
func WipeStore(ctx sdk.Context, key storetypes.StoreKey) int {
	st := ctx.KVStore(key)
	var keys [][]byte
	it := st.Iterator(nil, nil)
	for ; it.Valid(); it.Next() {
		keys = append(keys, append([]byte(nil), it.Key()...))
	}
	it.Close()
	for _, k := range keys {
		st.Delete(k)
	}
	return len(keys)
}

// DiffDumps lists keys whose presence or value differs, ignoring keys for which exempt returns true.
func DiffDumps(a, b map[string]string, exempt func(keyHex string) bool) []string {
	var out []string
	for k, v := range a {
		if exempt != nil && exempt(k) {
			continue
		}
		if w, ok := b[k]; !ok {
			out = append(out, "missing after import: "+k)
		} else if w != v {
			out = append(out, "value changed: "+k+" "+v+" -> "+w)
		}
	}
	for k := range b {
		if exempt != nil && exempt(k) {
			continue
		}
		if _, ok := a[k]; !ok {
			out = append(out, "new after import: "+k+" = "+b[k])
		}
	}
	sort.Strings(out)
	if len(out) > 8 {
		out = append(out[:8], fmt.Sprintf("... %d more", len(out)-8))
	}
	return out
}

// GenesisPartOut is what one module's part of the C14a driver reports for a history.
type GenesisPartOut struct {
	Coq     string
	Fail    *Failure
	NOps    int
	Nontriv bool
	Desc    any
	Key     string
}
