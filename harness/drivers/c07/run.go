// Package c07 is the correspondence driver of property C07 (x/swap AMM).
package c07

import (
	. "kavaverif/lib"

	"encoding/json"
	"fmt"
	"os"
)

func init() { Registry["C07"] = runC07 }

const (
	c07Header   = "From Kava Require Import Base.Prelude Base.Dec Model.Swap Model.SwapGov."
	c07DefaultL = 40
)

type c07Item struct {
	coq    string
	desc   json.RawMessage
	fail   *Failure
	evals  int
	hist   int
	key    string
	nontr  bool
	sample any
}

func runC07(o Opts) (*Result, error) {
	n := o.Len
	if n == 0 {
		n = c07DefaultL
	}
	res := &Result{Property: "C07", Seed: o.Seed,
		Rule: "three kinds of histories, all generated from splitmix64(seed, index): (1) " + fmt.Sprint(n) + " swap keeper calls (Deposit/Withdraw/SwapExactForTokens/SwapForExactTokens by 3 accounts on 2 allowed pools sharing a denom) on a fresh app.TestApp, the swap fee changed in the middle of most histories by a parameter-change proposal through the governance router (valid and out-of-range fees) on the one keeper instance of the history, every third history delivered at the message level instead (ValidateBasic, then the real msg server at generated block times, deadlines one second before / exactly on / one second after the block time, far ahead, or not positive); (2) batches of single operations on x/swap/types.BasePool with reserves, shares and amounts up to 2^255; (3) the exhaustive small domain (all reserves, shares and amounts up to n, five fees) compared through digests. A keeper history is non-trivial when it contains a successful operation that exercises a counted case split (new pool, A- or B-reduced deposit, partial/exiting/pool-deleting withdrawal, either direction of either swap kind); a BasePool batch when at least one of its operations hits a counted split; distinct by hash of the operation list"}
	cnt := NewCounters()

	if o.Replay != "" {
		bz, err := os.ReadFile(o.Replay)
		if err != nil {
			return nil, err
		}
		var kind struct {
			Kind string `json:"kind"`
		}
		_ = json.Unmarshal(bz, &kind)
		var coq string
		var fail *Failure
		mismatchFn := "mismatches"
		switch kind.Kind {
		case "base":
			var b bBatch
			if err := json.Unmarshal(bz, &b); err != nil {
				return nil, err
			}
			var ops []bOp
			if len(b.Ops) == 0 { // a whole generated batch, named by seed and index
				ops, coq, fail, _ = bRunBatch(b.Seed, b.Idx, 250, nil, cnt)
			} else {
				ops, coq, fail, _ = bRunBatch(b.Seed, b.Idx, 0, b.Ops, cnt)
			}
			res.Evaluations = len(ops)
		case "exhaustive":
			var x xRow
			if err := json.Unmarshal(bz, &x); err != nil {
				return nil, err
			}
			coq, fail, res.Evaluations = xRunRow(x.N, x.A, cnt)
		default:
			var h kHist
			if err := json.Unmarshal(bz, &h); err != nil {
				return nil, err
			}
			if len(h.Genesis.Bals) == 0 {
				return nil, fmt.Errorf("replay file has no keeper history")
			}
			h2, c, f, _ := kRunMode(h.Mode, h.Seed, h.Idx, 0, &h.Genesis, h.Ops, cnt)
			coq, fail = c, f
			if fail != nil {
				fail.Replay = MustJSON(h2)
			}
			res.Evaluations = len(h.Ops)
			mismatchFn = "mismatches_v"
		}
		name, err := WriteShard(o.OutDir, 0, c07Header, []string{coq}, mismatchFn)
		if err != nil {
			return nil, err
		}
		res.Shards = []string{name}
		res.HistIndex = []HistRef{{0, 0, 0, bz}}
		res.Histories = 1
		if fail != nil {
			fail.History = 0
			res.Failures = append(res.Failures, *fail)
		}
		res.Counters = cnt.Map()
		return res, nil
	}

	// ---- (1) keeper histories
	nK := o.N
	kItems := make([]c07Item, nK)
	kMode := func(i int) string { // every third keeper history is delivered at the message level
		if i%3 == 2 {
			return "tx"
		}
		return ""
	}
	ParallelFor(nK, o.Workers, func(i int) {
		h, coq, fail, splits := kRunMode(kMode(i), o.Seed, i, n, nil, nil, cnt)
		if fail != nil {
			sig := fail.Signature
			fails := func(cand []kOp) bool {
				_, _, f, _ := kRunMode(kMode(i), o.Seed, i, 0, &h.Genesis, cand, nil)
				return f != nil && f.Signature == sig
			}
			small := Shrink(h.Ops[:fail.Step+1], fails)
			h2, _, f2, _ := kRunMode(kMode(i), o.Seed, i, 0, &h.Genesis, small, nil)
			if f2 != nil {
				f2.History = i
				f2.Replay = MustJSON(h2)
				fail = f2
			} else {
				hh := h
				hh.Ops = h.Ops[:fail.Step+1]
				fail.Replay = MustJSON(hh)
			}
		}
		nontr := false
		for k := range splits {
			if k != "panic" && k != "two-pools-live" {
				nontr = true
			}
		}
		kItems[i] = c07Item{coq: coq, desc: MustJSON(h), fail: fail, evals: len(h.Ops), hist: i, key: string(MustJSON(h.Ops)), nontr: nontr, sample: h}
	})

	// ---- (2) BasePool batches
	nB := o.N / 4
	if nB < 4 {
		nB = 4
	}
	perBatch := 250
	bItems := make([]c07Item, nB)
	ParallelFor(nB, o.Workers, func(i int) {
		ops, coq, fail, nontrivial := bRunBatch(o.Seed, nK+i, perBatch, nil, cnt)
		b := bBatch{"base", o.Seed, nK + i, ops}
		bItems[i] = c07Item{coq: coq, desc: MustJSON(bBatch{"base", o.Seed, nK + i, nil}), fail: fail, evals: len(ops), hist: nK + i, key: string(MustJSON(b.Ops)), nontr: nontrivial > 0}
		if i == 0 {
			bItems[i].sample = bBatch{"base", o.Seed, nK + i, ops[:6]}
		}
	})

	// ---- (3) exhaustive small domain
	xn := 5
	if o.Tier == "thorough" {
		xn = 30
	}
	xItems := make([]c07Item, xn)
	ParallelFor(xn, o.Workers, func(i int) {
		coq, fail, evals := xRunRow(xn, i+1, cnt)
		if fail != nil {
			fail.History = nK + nB + i
		}
		xItems[i] = c07Item{coq: coq, desc: MustJSON(xRow{"exhaustive", xn, i + 1}), fail: fail, evals: evals, hist: nK + nB + i, nontr: false}
	})

	// ---- shards
	seen := map[string]bool{}
	var cases []string
	shard := 0
	mismatchFn := "mismatches"
	flush := func() error {
		if len(cases) == 0 {
			return nil
		}
		name, err := WriteShard(o.OutDir, shard, c07Header, cases, mismatchFn)
		if err != nil {
			return err
		}
		res.Shards = append(res.Shards, name)
		shard++
		cases = nil
		return nil
	}
	addItems := func(items []c07Item, perShard int) error {
		for _, it := range items {
			res.Histories++
			res.Evaluations += it.evals
			if it.nontr && !seen[it.key] {
				seen[it.key] = true
				res.DistinctNontrivial++
			}
			res.HistIndex = append(res.HistIndex, HistRef{shard, len(cases), it.hist, it.desc})
			cases = append(cases, it.coq)
			if len(cases) >= perShard {
				if err := flush(); err != nil {
					return err
				}
			}
			if it.fail != nil {
				res.Failures = append(res.Failures, *it.fail)
			}
		}
		return flush()
	}
	var kKeeper, kTx []c07Item
	for i, it := range kItems {
		if kMode(i) == "tx" {
			kTx = append(kTx, it)
		} else {
			kKeeper = append(kKeeper, it)
		}
	}
	mismatchFn = "mismatches_v" // keeper and message-level histories are [vhistory] terms (Model/SwapGov.v)
	if err := addItems(kKeeper, 40); err != nil {
		return nil, err
	}
	if err := addItems(kTx, 40); err != nil {
		return nil, err
	}
	mismatchFn = "mismatches"
	if err := addItems(bItems, 2); err != nil {
		return nil, err
	}
	xPer := 5
	if xn > 8 {
		xPer = 1
	}
	if err := addItems(xItems, xPer); err != nil {
		return nil, err
	}
	for i := 0; i < 2 && i < len(kItems); i++ {
		res.Samples = append(res.Samples, kItems[i].sample)
	}
	if len(bItems) > 0 {
		res.Samples = append(res.Samples, bItems[0].sample)
	}
	res.Counters = cnt.Map()
	for _, k := range kAllSplits {
		if res.Counters["split:keeper:"+k] == 0 {
			res.QualityGate = append(res.QualityGate, "keeper:"+k)
		}
	}
	for _, k := range kTxSplits {
		if res.Counters["split:keeper:"+k] == 0 {
			res.QualityGate = append(res.QualityGate, "keeper:"+k)
		}
	}
	for _, k := range bAllSplits {
		if res.Counters["split:base:"+k] == 0 {
			res.QualityGate = append(res.QualityGate, "base:"+k)
		}
	}
	okOps, allOps := 0, 0
	for k, v := range res.Counters {
		if len(k) > 3 && k[:3] == "op:" && (len(k) < 8 || k[:8] != "op:base:") {
			allOps += v
			if k[len(k)-3:] == ":ok" {
				okOps += v
			}
		}
	}
	okTx, allTx := 0, 0
	for k, v := range res.Counters {
		if len(k) > 5 && k[:5] == "optx:" {
			allTx += v
			if k[len(k)-3:] == ":ok" {
				okTx += v
			}
		}
	}
	res.Extra = map[string]any{"keeper_ops": allOps, "keeper_ops_ok": okOps, "tx_msgs": allTx, "tx_msgs_ok": okTx, "exhaustive_n": xn, "base_batches": nB, "base_cases_per_batch": perBatch}
	if allTx > 0 && okTx*100 < allTx*35 {
		res.QualityGate = append(res.QualityGate, fmt.Sprintf("message success ratio %d/%d below 35%%", okTx, allTx))
	}
	if allOps > 0 && okOps*100 < allOps*60 {
		res.QualityGate = append(res.QualityGate, fmt.Sprintf("keeper success ratio %d/%d below 60%%", okOps, allOps))
	}
	return res, nil
}
