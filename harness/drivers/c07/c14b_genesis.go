package c07

// Genesis re-import histories for the C14b component of C14 (added for C14b; the
// C07 driver does not use this file): ordinary C07 keeper histories (same world,
// same generator) with in-place re-imports of the x/swap genesis at PRNG-chosen
// points,
//
//	gs := swap.ExportGenesis(branch of ctx); gs.Validate(); JSON round trip;
//	delete every key of the swap KV store and the module's parameters;
//	swap.InitGenesis(ctx, k, gs)
//
// on the real keeper; the history continues on the re-imported store.  A second
// stream perturbs real exports one field at a time and compares the verdict of the
// real GenesisState.Validate / InitGenesis with the model's (Model/GenesisSwap.v).

import (
	. "kavaverif/lib"

	"bytes"
	"encoding/json"
	"fmt"
	"math/big"
	"sort"
	"strings"

	sdkmath "cosmossdk.io/math"
	tmproto "github.com/cometbft/cometbft/proto/tendermint/types"
	sdk "github.com/cosmos/cosmos-sdk/types"
	paramstypes "github.com/cosmos/cosmos-sdk/x/params/types"

	"github.com/kava-labs/kava/x/swap"
	swaptypes "github.com/kava-labs/kava/x/swap/types"
)

const GenesisHeader = "From Kava Require Import Base.Prelude Base.Dec Model.Swap Model.GenesisSwap."

var GenesisWanted = []string{
	"swap/reimport:ok", "swap/reimport:with-pools", "swap/reimport:two-pools", "swap/reimport:several-depositors-in-a-pool",
	"swap/reimport:dust-shares", "swap/reimport:empty-store", "swap/reimport:after-pool-deleted",
	"swap/mutgen:valid=true", "swap/mutgen:valid=false", "swap/mutgen:init:ok", "swap/mutgen:invalid:init:panic",
}

type GenesisHist struct {
	Part    string   `json:"part"`
	Seed    uint64   `json:"seed"`
	Idx     int      `json:"history"`
	Genesis kGenesis `json:"genesis"`
	Ops     []kOp    `json:"ops"`
}

func (w *kWorld) accIdx(a sdk.AccAddress) int {
	for i, ad := range w.addrs {
		if ad.Equals(a) {
			return i
		}
	}
	return -1
}

func idPair(id string) (int, int) {
	parts := strings.Split(id, ":")
	if len(parts) != 2 {
		return -1, -1
	}
	return denomIdx(parts[0]), denomIdx(parts[1])
}

func zOf(x sdkmath.Int) string {
	if x.IsNil() {
		return "0"
	}
	return Z(x.BigInt())
}

// coqGenesis renders a genesis state; records sorted by identifier numbers (the stores
// list them by pool-id string and by address)
func (w *kWorld) coqGenesis(gs swaptypes.GenesisState, keepOrder bool) string {
	al := make([]string, len(gs.Params.AllowedPools))
	for i, p := range gs.Params.AllowedPools {
		al[i] = fmt.Sprintf("(%s, %s)", Nat(denomIdx(p.TokenA)), Nat(denomIdx(p.TokenB)))
	}
	type rec struct {
		k [3]int
		s string
	}
	var ps, ss []rec
	for _, p := range gs.PoolRecords {
		x, y := idPair(p.PoolID)
		ps = append(ps, rec{[3]int{x, y, 0}, fmt.Sprintf("mkGP %s %s %s %s %s %s %s", Nat(x), Nat(y), Nat(denomIdx(p.ReservesA.Denom)), Nat(denomIdx(p.ReservesB.Denom)),
			zOf(p.ReservesA.Amount), zOf(p.ReservesB.Amount), zOf(p.TotalShares))})
	}
	for _, r := range gs.ShareRecords {
		x, y := idPair(r.PoolID)
		a := w.accIdx(r.Depositor)
		ss = append(ss, rec{[3]int{a, x, y}, fmt.Sprintf("mkGS %s %s %s %s", Nat(a), Nat(x), Nat(y), zOf(r.SharesOwned))})
	}
	if !keepOrder {
		less := func(l []rec) func(i, j int) bool {
			return func(i, j int) bool {
				for k := 0; k < 3; k++ {
					if l[i].k[k] != l[j].k[k] {
						return l[i].k[k] < l[j].k[k]
					}
				}
				return false
			}
		}
		sort.SliceStable(ps, less(ps))
		sort.SliceStable(ss, less(ss))
	}
	pl, sl := make([]string, len(ps)), make([]string, len(ss))
	for i := range ps {
		pl[i] = ps[i].s
	}
	for i := range ss {
		sl[i] = ss[i].s
	}
	return fmt.Sprintf("(mkGen %s %s\n      %s\n      %s)", List(al), Z(gs.Params.SwapFee.BigInt()), List(pl), List(sl))
}

func wipeSwapParams(ctx sdk.Context, w *kWorld) {
	st := ctx.KVStore(w.tApp.GetKVStoreKey(paramstypes.StoreKey))
	var keys [][]byte
	it := sdk.KVStorePrefixIterator(st, []byte(swaptypes.ModuleName+"/"))
	for ; it.Valid(); it.Next() {
		keys = append(keys, append([]byte(nil), it.Key()...))
	}
	it.Close()
	for _, k := range keys {
		st.Delete(k)
	}
}

// swapInvariants evaluates the invariant routes x/swap registers with the crisis keeper.
func (w *kWorld) swapInvariants(ctx sdk.Context) (route, msg string) {
	defer func() {
		if r := recover(); r != nil {
			route, msg = "invariant-evaluation-panic", fmt.Sprint(r)
		}
	}()
	ck := w.tApp.GetCrisisKeeper()
	for _, r := range ck.Routes() {
		if r.ModuleName != swaptypes.ModuleName {
			continue
		}
		if m, broken := r.Invar(ctx); broken {
			return r.Route, m
		}
	}
	return "", ""
}

type swapReimport struct {
	cls               Class
	genesis           string
	pred, sig, detail string
}

func (w *kWorld) reimport(mark func(string)) swapReimport {
	key := w.tApp.GetKVStoreKey(swaptypes.StoreKey)
	cdc := w.tApp.AppCodec()
	out := swapReimport{genesis: "(mkGen [] 0 [] [])"}
	stage := "export"
	set := func(p, s, d string) {
		if out.pred == "" {
			out.pred, out.sig, out.detail = p, s, d
		}
	}
	cls, err := Atomically(w.ctx, func(ctx sdk.Context) error {
		bctx, _ := ctx.CacheContext()
		gs := swap.ExportGenesis(bctx, w.sk)
		out.genesis = w.coqGenesis(gs, false)
		stage = "validate"
		if e := gs.Validate(); e != nil {
			set("swap-exported-genesis-validates", "swap-export-fails-validation", e.Error())
		}
		stage = "json"
		bz := cdc.MustMarshalJSON(&gs)
		var gs2 swaptypes.GenesisState
		cdc.MustUnmarshalJSON(bz, &gs2)
		dumpBefore := DumpStore(ctx, key)
		stage = "import"
		WipeStore(ctx, key)
		wipeSwapParams(ctx, w)
		swap.InitGenesis(ctx, w.sk, gs2)
		stage = "compare"
		if d := DiffDumps(dumpBefore, DumpStore(ctx, key), nil); len(d) > 0 {
			set("swap-store-identical-after-reimport", "swap-store-differs-after-reimport", strings.Join(d, "; "))
		}
		p2 := w.sk.GetParams(ctx)
		if !bytes.Equal(cdc.MustMarshalJSON(&p2), cdc.MustMarshalJSON(&gs.Params)) {
			set("swap-params-identical-after-reimport", "swap-params-differ-after-reimport", "params changed by the round trip")
		}
		b2, _ := ctx.CacheContext()
		gs3 := swap.ExportGenesis(b2, w.sk)
		if bz3 := cdc.MustMarshalJSON(&gs3); !bytes.Equal(bz, bz3) {
			set("swap-reexport-identical", "swap-reexport-differs", fmt.Sprintf("first export %d bytes, re-export %d bytes", len(bz), len(bz3)))
		}
		if r, m := w.swapInvariants(ctx); r != "" {
			set("swap-invariants-hold-after-reimport", "swap-invariant-broken-after-reimport:"+r, m)
		}
		return nil
	})
	out.cls = cls
	mark("swap/reimport:" + cls.String())
	if cls != ClassOk {
		out.pred, out.sig, out.detail = "swap-reimport-does-not-panic", "swap-reimport-panics-at-"+stage, fmt.Sprint(err)
	}
	return out
}

const nSwapMutations = 15

// swapGenesisExpect: what GenesisState.Validate and InitGenesis must both say about a perturbed export, stated
// independently of the model, for the perturbations whose verdict does not depend on the values in the state
var swapGenesisExpect = map[string]bool{
	"none": true, "shares-moved-between-depositors": true,
	"duplicate-pool": false, "duplicate-share-record": false, "share-record-split-in-two": false, "share-record-dropped": false,
	"pool-record-dropped": false, "share-record-without-pool": false, "pool-id-reversed-or-equal-tokens": false,
	"pool-id-does-not-match-reserves": false, "share-record-id-reversed": false,
}

func (w *kWorld) mutatedGenesis(kind, sel int, mark func(string)) (term string, valid bool, cls Class, name string) {
	bctx, _ := w.ctx.CacheContext()
	gs := swap.ExportGenesis(bctx, w.sk)
	gs.PoolRecords = append(swaptypes.PoolRecords(nil), gs.PoolRecords...)
	gs.ShareRecords = append(swaptypes.ShareRecords(nil), gs.ShareRecords...)
	gs.Params.AllowedPools = append(swaptypes.AllowedPools(nil), gs.Params.AllowedPools...)
	np, ns := len(gs.PoolRecords), len(gs.ShareRecords)
	name = "none"
	one := sdkmath.OneInt()
	switch kind {
	case 0:
		if np > 0 {
			gs.PoolRecords = append(gs.PoolRecords, gs.PoolRecords[sel%np])
			name = "duplicate-pool"
		}
	case 1:
		if ns > 0 {
			gs.ShareRecords = append(gs.ShareRecords, gs.ShareRecords[sel%ns])
			name = "duplicate-share-record"
		}
	case 2: // a reserve zero / negative / one
		if np > 0 {
			p := gs.PoolRecords[sel%np]
			v := []sdkmath.Int{sdkmath.ZeroInt(), sdkmath.NewInt(-3), one}[(sel/np)%3]
			if (sel/np/3)%2 == 0 {
				p.ReservesA.Amount = v
			} else {
				p.ReservesB.Amount = v
			}
			gs.PoolRecords[sel%np] = p
			name = "pool-reserve-0-or-negative-or-1"
		}
	case 3: // total shares zero / off by one
		if np > 0 {
			p := gs.PoolRecords[sel%np]
			p.TotalShares = []sdkmath.Int{sdkmath.ZeroInt(), p.TotalShares.Add(one), p.TotalShares.Sub(one), sdkmath.NewInt(-1)}[(sel/np)%4]
			gs.PoolRecords[sel%np] = p
			name = "pool-total-shares-0-or-off-by-one-or-negative"
		}
	case 4: // shares owned zero / negative / off by one
		if ns > 0 {
			r := gs.ShareRecords[sel%ns]
			r.SharesOwned = []sdkmath.Int{sdkmath.ZeroInt(), sdkmath.NewInt(-2), r.SharesOwned.Add(one)}[(sel/ns)%3]
			gs.ShareRecords[sel%ns] = r
			name = "shares-owned-0-or-negative-or-off-by-one"
		}
	case 5: // a share record dropped
		if ns > 0 {
			i := sel % ns
			gs.ShareRecords = append(gs.ShareRecords[:i:i], gs.ShareRecords[i+1:]...)
			name = "share-record-dropped"
		}
	case 6: // a pool record dropped (its share records stay)
		if np > 0 {
			i := sel % np
			gs.PoolRecords = append(gs.PoolRecords[:i:i], gs.PoolRecords[i+1:]...)
			name = "pool-record-dropped"
		}
	case 7: // pool id tokens reversed / equal
		if np > 0 {
			p := gs.PoolRecords[sel%np]
			if (sel/np)%2 == 0 {
				p.PoolID = p.ReservesB.Denom + ":" + p.ReservesA.Denom
			} else {
				p.PoolID = p.ReservesA.Denom + ":" + p.ReservesA.Denom
			}
			gs.PoolRecords[sel%np] = p
			name = "pool-id-reversed-or-equal-tokens"
		}
	case 8: // pool id names another pair than the reserves
		if np > 0 {
			p := gs.PoolRecords[sel%np]
			other := "bnb:ukava"
			if p.PoolID == other {
				other = "bnb:usdx"
			}
			p.PoolID = other
			gs.PoolRecords[sel%np] = p
			name = "pool-id-does-not-match-reserves"
		}
	case 9: // swap fee at and beyond its bounds
		gs.Params.SwapFee = []sdk.Dec{sdk.OneDec(), sdk.SmallestDec().Neg(), sdk.OneDec().Sub(sdk.SmallestDec()), sdk.ZeroDec()}[sel%4]
		name = "swap-fee-bounds"
	case 10: // allowed pools: reversed / duplicated / equal tokens
		switch sel % 3 {
		case 0:
			gs.Params.AllowedPools = append(gs.Params.AllowedPools, swaptypes.AllowedPool{TokenA: "usdx", TokenB: "bnb"})
		case 1:
			if len(gs.Params.AllowedPools) > 0 {
				gs.Params.AllowedPools = append(gs.Params.AllowedPools, gs.Params.AllowedPools[0])
			}
		default:
			gs.Params.AllowedPools = append(gs.Params.AllowedPools, swaptypes.AllowedPool{TokenA: "bnb", TokenB: "bnb"})
		}
		name = "allowed-pools-malformed"
	case 11: // a share record of a pool that has no record
		gs.ShareRecords = append(gs.ShareRecords, swaptypes.NewShareRecord(w.addrs[sel%kNUsers], "bnb:ukava", sdkmath.NewInt(int64(1+sel%9))))
		name = "share-record-without-pool"
	case 12: // share record id reversed
		if ns > 0 {
			r := gs.ShareRecords[sel%ns]
			x, y := idPair(r.PoolID)
			r.PoolID = kDenoms[y] + ":" + kDenoms[x]
			gs.ShareRecords[sel%ns] = r
			name = "share-record-id-reversed"
		}
	case 13: // a share record split in two records of the same depositor and pool (the sum is unchanged:
		// only the duplicate check can refuse it) — preferring a depositor's record that is NOT its
		// first-listed pool, since a duplicate check that only remembers the first pool misses that
		if ns > 0 {
			i := sel % ns
			firstOf := map[string]int{}
			for j, r := range gs.ShareRecords {
				if _, ok := firstOf[r.Depositor.String()]; !ok {
					firstOf[r.Depositor.String()] = j
				}
			}
			for j := range gs.ShareRecords {
				k := (i + j) % ns
				if firstOf[gs.ShareRecords[k].Depositor.String()] != k && gs.ShareRecords[k].SharesOwned.GT(one) {
					i = k
					break
				}
			}
			if r := gs.ShareRecords[i]; r.SharesOwned.GT(one) {
				a, b := r, r
				a.SharesOwned = r.SharesOwned.Sub(one)
				b.SharesOwned = one
				gs.ShareRecords[i] = a
				gs.ShareRecords = append(gs.ShareRecords, b)
				name = "share-record-split-in-two"
			}
		}
	default: // shares moved between two depositors of one pool (accepted: the sum is unchanged)
		if ns > 1 {
			i := sel % ns
			for j := 0; j < ns; j++ {
				if j != i && gs.ShareRecords[j].PoolID == gs.ShareRecords[i].PoolID && gs.ShareRecords[i].SharesOwned.GT(one) {
					a, b := gs.ShareRecords[i], gs.ShareRecords[j]
					a.SharesOwned, b.SharesOwned = a.SharesOwned.Sub(one), b.SharesOwned.Add(one)
					gs.ShareRecords[i], gs.ShareRecords[j] = a, b
					name = "shares-moved-between-depositors"
					break
				}
			}
		}
	}
	term = w.coqGenesis(gs, true)
	valid = gs.Validate() == nil
	mark("swap/mutgen:" + name + fmt.Sprintf(":valid=%v", valid))
	mark(fmt.Sprintf("swap/mutgen:valid=%v", valid))
	// the real InitGenesis runs on EVERY perturbed genesis, also those Validate refuses (scratch branch,
	// never written back, panics recovered): InitGenesis is the only gate at chain start
	cls, _ = Atomically(w.ctx, func(ctx sdk.Context) error {
		c2, _ := ctx.CacheContext() // never written back
		WipeStore(c2, w.tApp.GetKVStoreKey(swaptypes.StoreKey))
		wipeSwapParams(c2, w)
		swap.InitGenesis(c2, w.sk, gs)
		return nil
	})
	if valid {
		mark("swap/mutgen:init:" + cls.String())
	} else {
		mark("swap/mutgen:invalid:init:" + cls.String())
	}
	return
}

// GenesisRun executes generated (explicit == false) or explicit operations on a fresh C07 keeper world.
func GenesisRun(seed uint64, idx, n int, gen *kGenesis, ops []kOp, explicit bool, cnt *Counters) (GenesisPartOut, kGenesis, []kOp) {
	r := NewRng(seed, uint64(idx)+7_000_000)
	var g kGenesis
	if gen != nil {
		g = *gen
	} else {
		g = kGenGenesis(r)
	}
	mark := func(k string) {
		if cnt != nil {
			cnt.Inc(k)
		}
	}
	w := kSetup(g)
	out := GenesisPartOut{}
	prev := w.snap()
	rows := make([]string, len(prev.bal))
	for a := range prev.bal {
		rows[a] = ZList(prev.bal[a])
	}
	al := make([]string, len(kAllowed))
	for i, p := range kAllowed {
		al[i] = fmt.Sprintf("(%s, %s)", Nat(p[0]), Nat(p[1]))
	}
	header := fmt.Sprintf("(mkEnv %s %s %s %s)\n  (mk_state %s)", Nat(kNUsers), Nat(kNDen), List(al), Z(bigS(g.Fee)), List(rows))
	var steps []string
	var done []kOp
	trip := &kTrip{}
	if explicit {
		n = len(ops)
	}
	forced := n/3 + r.Intn(n/2+1)
	reimports := 0
	probeNo := 0 // perturbation kinds rotate, offset by the history index: every kind is probed in every run
	hadPool, afterDelete := false, false
	for i := 0; i < n; i++ {
		var op kOp
		if explicit {
			op = ops[i]
		} else {
			switch {
			case idx == 0 && i == 0:
				// history 0 starts with a fixed prefix: a pool is created, emptied (the record is
				// deleted) and the emptied store is re-imported
				amt := new(big.Int).Quo(prev.bal[0][0], bi(1000))
				amt2 := new(big.Int).Quo(prev.bal[0][2], bi(1000))
				if amt.Sign() <= 0 || amt2.Sign() <= 0 {
					amt, amt2 = bi(1), bi(1)
				}
				op = kOp{Kind: "deposit", Who: 0, D1: 0, A1: amt.String(), D2: 2, A2: amt2.String(), Slip: "1000000000000000000"}
			case idx == 0 && i == 1 && prev.share(0, 0, 2).Sign() > 0:
				op = kOp{Kind: "withdraw", Who: 0, Shares: prev.share(0, 0, 2).String(), D1: 0, A1: "1", D2: 2, A2: "1"}
			case hadPool && len(prev.pools) == 0 && !afterDelete:
				// the last pool was just deleted: re-import the emptied store once
				afterDelete = true
				op = kOp{Kind: "reimport"}
			case r.Chance(1, 7) || (i >= forced && reimports == 0):
				op = kOp{Kind: "reimport"}
			case r.Chance(1, 8):
				op = kOp{Kind: "mutgen", D1: (idx*5 + probeNo) % nSwapMutations, D2: r.Intn(1 << 16)}
				probeNo++
			default:
				op = kGenOp(r, w, prev, trip)
			}
		}
		done = append(done, op)
		if op.Kind == "mutgen" {
			term, valid, cls, name := w.mutatedGenesis(op.D1, op.D2, mark)
			v := int64(0)
			if valid {
				v = 1
			}
			steps = append(steps, fmt.Sprintf("(GProbe %s,\n    ObsProbe [%d; %s])", term, v, Zi(int64(cls))))
			if !valid && cls != ClassPanic && out.Fail == nil {
				out.Fail = &Failure{Step: i, Predicate: "invalid-genesis-imported:swap:" + name, Signature: "invalid-genesis-imported:swap:" + name,
					Detail: fmt.Sprintf("GenesisState.Validate refuses this genesis state (perturbation %s of a real export) but InitGenesis on an emptied store imports it: %s", name, term)}
			}
			if want, ok := swapGenesisExpect[name]; ok && (want != valid || want != (cls == ClassOk)) && out.Fail == nil {
				out.Fail = &Failure{Step: i, Predicate: "swap-genesis-verdicts:" + name, Signature: "swap-probe-verdict-" + name,
					Detail: fmt.Sprintf("perturbation %s of the exported genesis: Validate passes=%v, InitGenesis ok=%v (both expected %v): %s", name, valid, cls == ClassOk, want, term)}
			}
			continue
		}
		if op.Kind == "reimport" {
			reimports++
			ro := w.reimport(mark)
			after := w.snap()
			if ro.cls == ClassOk {
				switch {
				case len(prev.pools) == 0:
					mark("swap/reimport:empty-store")
					if hadPool {
						mark("swap/reimport:after-pool-deleted")
					}
				default:
					mark("swap/reimport:with-pools")
					out.Nontriv = true
					if len(prev.pools) > 1 {
						mark("swap/reimport:two-pools")
					}
					per := map[[2]int]int{}
					for k, v := range prev.shares {
						per[[2]int{k[1], k[2]}]++
						if v.Cmp(bi(10)) < 0 {
							mark("swap/reimport:dust-shares")
						}
					}
					for _, c := range per {
						if c > 1 {
							mark("swap/reimport:several-depositors-in-a-pool")
						}
					}
				}
			}
			steps = append(steps, fmt.Sprintf("(GReimport,\n    ObsReimport (%s) %s)", kCoqObs(ro.cls, prev, after), ro.genesis))
			if ro.pred != "" && out.Fail == nil {
				out.Fail = &Failure{Step: i, Predicate: ro.pred, Signature: ro.sig, Detail: ro.detail}
			}
			if after.extra != "" && out.Fail == nil {
				out.Fail = &Failure{Step: i, Predicate: "swap-store-well-formed-after-reimport", Signature: "swap-store-malformed-after-reimport", Detail: after.extra}
			}
			prev = after
			continue
		}
		cls, _ := w.exec(op)
		after := w.snap()
		if cnt != nil {
			cnt.Inc("swap/op:" + op.Kind + ":" + cls.String())
		}
		if len(after.pools) > 0 {
			hadPool = true
		}
		steps = append(steps, fmt.Sprintf("(GOp (%s),\n    ObsStep (%s))", kCoqOp(op), kCoqObs(cls, prev, after)))
		prev = after
	}
	out.NOps = len(done)
	out.Coq = fmt.Sprintf("mkGHist %s\n  %s", header, List(steps))
	out.Key = string(MustJSON(done))
	out.Desc = GenesisHist{Part: "swap", Seed: seed, Idx: idx, Genesis: g, Ops: done}
	return out, g, done
}

func GenesisPart(seed uint64, i, n int, cnt *Counters) GenesisPartOut {
	out, g, ops := GenesisRun(seed, i, n, nil, nil, false, cnt)
	if out.Fail != nil {
		sig := out.Fail.Signature
		upto := out.Fail.Step + 1
		if upto > len(ops) {
			upto = len(ops)
		}
		fails := func(cand []kOp) bool {
			o2, _, _ := GenesisRun(seed, i, n, &g, cand, true, nil)
			return o2.Fail != nil && o2.Fail.Signature == sig
		}
		small := ops[:upto]
		if fails(small) {
			small = Shrink(small, fails)
		}
		if o2, _, _ := GenesisRun(seed, i, n, &g, small, true, nil); o2.Fail != nil {
			out.Fail = o2.Fail
		}
		out.Fail.Replay = MustJSON(GenesisHist{Part: "swap", Seed: seed, Idx: i, Genesis: g, Ops: small})
	}
	return out
}

func GenesisReplay(raw json.RawMessage, cnt *Counters) (GenesisPartOut, error) {
	var h GenesisHist
	if err := json.Unmarshal(raw, &h); err != nil {
		return GenesisPartOut{}, err
	}
	out, _, _ := GenesisRun(h.Seed, h.Idx, len(h.Ops), &h.Genesis, h.Ops, true, cnt)
	if out.Fail != nil {
		out.Fail.Replay = MustJSON(h)
	}
	return out, nil
}

var _ = tmproto.Header{}
