package c07

// BasePool level: single operations on x/swap/types.BasePool (exported type),
// with monitors stated directly on the results, random values up to 2^255 and
// an exhaustive small domain compared through digests.

import (
	. "kavaverif/lib"

	"fmt"
	"math/big"
	"strings"

	sdkmath "cosmossdk.io/math"

	swaptypes "github.com/kava-labs/kava/x/swap/types"
)

var (
	prec18  = Pow10(18)
	two255  = new(big.Int).Lsh(big.NewInt(1), 255)
	hashMsk = new(big.Int).Sub(new(big.Int).Lsh(big.NewInt(1), 61), big.NewInt(1))
	hashMul = big.NewInt(1000003)
)

func bi(x int64) *big.Int { return big.NewInt(x) }

func bigS(s string) *big.Int {
	x, ok := new(big.Int).SetString(s, 10)
	if !ok {
		panic("bad integer " + s)
	}
	return x
}

func sInt(x *big.Int) sdkmath.Int { return sdkmath.NewIntFromBigInt(x) }

// decM builds a LegacyDec from its mantissa.
func decM(m *big.Int) sdkmath.LegacyDec { return sdkmath.LegacyNewDecFromBigIntWithPrec(m, 18) }

func mul(a, b *big.Int) *big.Int { return new(big.Int).Mul(a, b) }
func add(a, b *big.Int) *big.Int { return new(big.Int).Add(a, b) }
func sub(a, b *big.Int) *big.Int { return new(big.Int).Sub(a, b) }

// ceilDiv for non-negative a, positive b
func ceilDiv(a, b *big.Int) *big.Int {
	q, r := new(big.Int).QuoRem(a, b, new(big.Int))
	if r.Sign() > 0 {
		q.Add(q, big.NewInt(1))
	}
	return q
}

// bOp is one operation on a base pool with given reserves and shares.
type bOp struct {
	RA, RB, S string // pool before ("0","0","0" = emptied pool)
	Kind      string // new | newshares | add | remove | value | swapAB | swapBA | forB | forA
	X, Y, Z   string // arguments (amounts; fee mantissa in Y for swaps; shares in Z for newshares)
}

type bRes struct {
	cls  Class
	outs []*big.Int
	pool [3]*big.Int
	msg  string // panic message
}

// mkPool builds a BasePool with the given state; the emptied pool is reached by removing all liquidity.
func mkPool(ra, rb, s *big.Int) *swaptypes.BasePool {
	if ra.Sign() == 0 && rb.Sign() == 0 && s.Sign() == 0 {
		p, err := swaptypes.NewBasePool(sdkmath.OneInt(), sdkmath.OneInt())
		if err != nil {
			panic(err)
		}
		p.RemoveLiquidity(sdkmath.OneInt())
		return p
	}
	p, err := swaptypes.NewBasePoolWithExistingShares(sInt(ra), sInt(rb), sInt(s))
	if err != nil {
		panic(fmt.Sprintf("cannot build pool (%s,%s,%s): %v", ra, rb, s, err))
	}
	return p
}

func poolState(p *swaptypes.BasePool) [3]*big.Int {
	return [3]*big.Int{p.ReservesA().BigInt(), p.ReservesB().BigInt(), p.TotalShares().BigInt()}
}

// bExec runs the operation on a fresh pool with the recorded state.
func bExec(op bOp) (res bRes) {
	x, y, z := bigS(op.X), bigS(op.Y), bigS(op.Z)
	var p *swaptypes.BasePool
	defer func() {
		if r := recover(); r != nil {
			res = bRes{cls: ClassPanic, msg: fmt.Sprint(r)}
		}
	}()
	switch op.Kind {
	case "new":
		q, err := swaptypes.NewBasePool(sInt(x), sInt(y))
		if err != nil {
			return bRes{cls: ClassErr}
		}
		return bRes{cls: ClassOk, pool: poolState(q)}
	case "newshares":
		q, err := swaptypes.NewBasePoolWithExistingShares(sInt(x), sInt(y), sInt(z))
		if err != nil {
			return bRes{cls: ClassErr}
		}
		return bRes{cls: ClassOk, pool: poolState(q)}
	}
	p = mkPool(bigS(op.RA), bigS(op.RB), bigS(op.S))
	var outs []*big.Int
	switch op.Kind {
	case "add":
		a, b, s := p.AddLiquidity(sInt(x), sInt(y))
		outs = []*big.Int{a.BigInt(), b.BigInt(), s.BigInt()}
	case "remove":
		a, b := p.RemoveLiquidity(sInt(x))
		outs = []*big.Int{a.BigInt(), b.BigInt()}
	case "value":
		a, b := p.ShareValue(sInt(x))
		outs = []*big.Int{a.BigInt(), b.BigInt()}
	case "swapAB":
		a, b := p.SwapExactAForB(sInt(x), decM(y))
		outs = []*big.Int{a.BigInt(), b.BigInt()}
	case "swapBA":
		a, b := p.SwapExactBForA(sInt(x), decM(y))
		outs = []*big.Int{a.BigInt(), b.BigInt()}
	case "forB":
		a, b := p.SwapAForExactB(sInt(x), decM(y))
		outs = []*big.Int{a.BigInt(), b.BigInt()}
	case "forA":
		a, b := p.SwapBForExactA(sInt(x), decM(y))
		outs = []*big.Int{a.BigInt(), b.BigInt()}
	default:
		panic("unknown base op " + op.Kind)
	}
	return bRes{cls: ClassOk, outs: outs, pool: poolState(p)}
}

// mirror returns the same operation on the pool with A and B exchanged.
func (op bOp) mirror() bOp {
	m := op
	m.RA, m.RB = op.RB, op.RA
	switch op.Kind {
	case "new", "newshares", "add":
		m.X, m.Y = op.Y, op.X
	case "swapAB":
		m.Kind = "swapBA"
	case "swapBA":
		m.Kind = "swapAB"
	case "forB":
		m.Kind = "forA"
	case "forA":
		m.Kind = "forB"
	}
	return m
}

func isSwap(k string) bool { return k == "swapAB" || k == "swapBA" || k == "forB" || k == "forA" }

// bMonitor states C07 directly on the result of one BasePool operation.
func bMonitor(op bOp, r bRes) (pred, sig, detail string) {
	ra, rb, s := bigS(op.RA), bigS(op.RB), bigS(op.S)
	x, y := bigS(op.X), bigS(op.Y)
	// results do not depend on the order in which the two tokens are named
	mr := bExec(op.mirror())
	if mr.cls != r.cls {
		return "denom-order-symmetry", "asymmetric-result-class", fmt.Sprintf("%v vs %v", r.cls, mr.cls)
	}
	if r.cls == ClassOk {
		okSym := r.pool[0].Cmp(mr.pool[1]) == 0 && r.pool[1].Cmp(mr.pool[0]) == 0 && r.pool[2].Cmp(mr.pool[2]) == 0
		switch op.Kind {
		case "add":
			okSym = okSym && r.outs[0].Cmp(mr.outs[1]) == 0 && r.outs[1].Cmp(mr.outs[0]) == 0 && r.outs[2].Cmp(mr.outs[2]) == 0
		case "remove", "value":
			okSym = okSym && r.outs[0].Cmp(mr.outs[1]) == 0 && r.outs[1].Cmp(mr.outs[0]) == 0
		case "swapAB", "swapBA", "forB", "forA":
			okSym = okSym && r.outs[0].Cmp(mr.outs[0]) == 0 && r.outs[1].Cmp(mr.outs[1]) == 0
		}
		if !okSym {
			return "denom-order-symmetry", "asymmetric-result", fmt.Sprintf("%v %v vs mirrored %v %v", r.outs, r.pool, mr.outs, mr.pool)
		}
	}
	// the pool's own "this is a bug" assertions never fire on a pool with positive reserves and shares
	if r.cls == ClassPanic && strings.Contains(r.msg, "invalid state") && ra.Sign() > 0 && rb.Sign() > 0 && s.Sign() > 0 &&
		!strings.Contains(r.msg, "deposit B must be positive") {
		return "internal-assertions-unreachable", "internal-assertion-fired", r.msg
	}
	if r.cls != ClassOk {
		return "", "", ""
	}
	na, nb, ns := r.pool[0], r.pool[1], r.pool[2]
	switch op.Kind {
	case "new":
		// floor square root
		if mul(ns, ns).Cmp(mul(x, y)) > 0 || mul(add(ns, bi(1)), add(ns, bi(1))).Cmp(mul(x, y)) <= 0 {
			return "initial-shares-floor-sqrt", "initial-shares-not-floor-sqrt", fmt.Sprintf("shares %s for %s*%s", ns, x, y)
		}
	case "swapAB", "swapBA", "forB", "forA":
		fee := y
		if ra.Sign() == 0 || rb.Sign() == 0 {
			break // the emptied pool is not a pool the keeper ever stores
		}
		if ns.Cmp(s) != 0 {
			return "swap-keeps-shares", "swap-changed-shares", fmt.Sprintf("%s -> %s", s, ns)
		}
		if mul(na, nb).Cmp(mul(ra, rb)) < 0 {
			return "product-non-decreasing", "product-decreased", fmt.Sprintf("%s*%s -> %s*%s", ra, rb, na, nb)
		}
		// which side is the input
		var inRes, outRes, nIn, nOut *big.Int
		if op.Kind == "swapAB" || op.Kind == "forB" {
			inRes, outRes, nIn, nOut = ra, rb, na, nb
		} else {
			inRes, outRes, nIn, nOut = rb, ra, nb, na
		}
		in := sub(nIn, inRes)
		out := sub(outRes, nOut)
		if in.Sign() <= 0 || out.Sign() < 0 || nOut.Sign() <= 0 {
			return "swap-direction", "swap-wrong-direction", fmt.Sprintf("in %s out %s", in, out)
		}
		var retFee *big.Int
		if op.Kind == "swapAB" || op.Kind == "swapBA" {
			if in.Cmp(x) != 0 || out.Cmp(r.outs[0]) != 0 {
				return "swap-exact-amounts", "swap-reserve-delta-mismatch", fmt.Sprintf("in %s (arg %s) out %s (returned %s)", in, x, out, r.outs[0])
			}
			retFee = r.outs[1]
		} else {
			if out.Cmp(x) != 0 || in.Cmp(r.outs[0]) != 0 {
				return "swap-exact-amounts", "swap-reserve-delta-mismatch", fmt.Sprintf("out %s (arg %s) in %s (returned %s)", out, x, in, r.outs[0])
			}
			retFee = r.outs[1]
		}
		// at least the configured fee stays in the pool: the product does not decrease even
		// when ceil(in*fee) of the input is left out of the reserves
		minFee := ceilDiv(mul(in, fee), prec18)
		if mul(sub(nIn, minFee), nOut).Cmp(mul(inRes, outRes)) < 0 {
			return "fee-kept", "fee-not-kept", fmt.Sprintf("in %s fee rate %s: (%s-%s)*%s < %s*%s", in, fee, nIn, minFee, nOut, inRes, outRes)
		}
		if retFee.Cmp(minFee) < 0 {
			return "fee-kept", "reported-fee-below-rate", fmt.Sprintf("fee %s < ceil(%s*%s)", retFee, in, fee)
		}
	case "add":
		a, b, sh := r.outs[0], r.outs[1], r.outs[2]
		if a.Cmp(x) > 0 || b.Cmp(y) > 0 || a.Sign() < 0 || b.Sign() < 0 || sh.Sign() < 0 {
			return "deposit-at-most-desired", "deposit-exceeds-desired", fmt.Sprintf("%s,%s of %s,%s", a, b, x, y)
		}
		if s.Sign() > 0 {
			if sub(na, ra).Cmp(a) != 0 || sub(nb, rb).Cmp(b) != 0 || sub(ns, s).Cmp(sh) != 0 {
				return "add-exact-amounts", "add-reserve-delta-mismatch", fmt.Sprintf("%v -> %v returned %v", []*big.Int{ra, rb, s}, r.pool, r.outs)
			}
			// reserves per share never decrease: ra'/S' >= ra/S
			if mul(na, s).Cmp(mul(ra, ns)) < 0 || mul(nb, s).Cmp(mul(rb, ns)) < 0 {
				return "share-value-non-decreasing", "deposit-dilutes-shares", fmt.Sprintf("(%s,%s,%s) -> (%s,%s,%s)", ra, rb, s, na, nb, ns)
			}
		}
		// depositing and immediately withdrawing never returns more than was put in
		if sh.Sign() > 0 {
			wr := bExec(bOp{RA: na.String(), RB: nb.String(), S: ns.String(), Kind: "remove", X: sh.String(), Y: "0", Z: "0"})
			if wr.cls == ClassOk && (wr.outs[0].Cmp(a) > 0 || wr.outs[1].Cmp(b) > 0) {
				return "deposit-withdraw-no-profit", "deposit-withdraw-profit", fmt.Sprintf("put %s,%s got %s,%s", a, b, wr.outs[0], wr.outs[1])
			}
		}
	case "remove":
		wa, wb := r.outs[0], r.outs[1]
		if sub(ra, na).Cmp(wa) != 0 || sub(rb, nb).Cmp(wb) != 0 || sub(s, ns).Cmp(x) != 0 {
			return "remove-exact-amounts", "remove-reserve-delta-mismatch", fmt.Sprintf("%v -> %v returned %v", []*big.Int{ra, rb, s}, r.pool, r.outs)
		}
		if na.Sign() < 0 || nb.Sign() < 0 || ns.Sign() < 0 {
			return "reserves-non-negative", "negative-reserves", fmt.Sprint(r.pool)
		}
		if mul(na, s).Cmp(mul(ra, ns)) < 0 || mul(nb, s).Cmp(mul(rb, ns)) < 0 {
			return "share-value-non-decreasing", "withdraw-dilutes-shares", fmt.Sprintf("(%s,%s,%s) -> (%s,%s,%s)", ra, rb, s, na, nb, ns)
		}
		if ns.Sign() > 0 && (na.Sign() == 0 || nb.Sign() == 0) {
			return "reserves-positive-while-shares", "reserve-emptied-with-shares-outstanding", fmt.Sprint(r.pool)
		}
	}
	return "", "", ""
}

// ------------------------------------------------------------ Coq rendering

func bCoqOp(op bOp) string {
	x, y, z := Z(bigS(op.X)), Z(bigS(op.Y)), Z(bigS(op.Z))
	switch op.Kind {
	case "new":
		return fmt.Sprintf("BNew %s %s", x, y)
	case "newshares":
		return fmt.Sprintf("BNewShares %s %s %s", x, y, z)
	case "add":
		return fmt.Sprintf("BAdd %s %s", x, y)
	case "remove":
		return fmt.Sprintf("BRemove %s", x)
	case "value":
		return fmt.Sprintf("BShareValue %s", x)
	case "swapAB":
		return fmt.Sprintf("BSwapAB %s %s", x, y)
	case "swapBA":
		return fmt.Sprintf("BSwapBA %s %s", x, y)
	case "forB":
		return fmt.Sprintf("BSwapForB %s %s", x, y)
	default:
		return fmt.Sprintf("BSwapForA %s %s", x, y)
	}
}

func bCoqCase(op bOp, r bRes) string {
	outs, pool := "[]", "[]"
	if r.cls == ClassOk {
		outs = ZList(r.outs)
		pool = ZList(r.pool[:])
	}
	return fmt.Sprintf("mkBC %s %s %s (%s) (mkBR %s %s %s)", Z(bigS(op.RA)), Z(bigS(op.RB)), Z(bigS(op.S)), bCoqOp(op), r.cls.Coq(), outs, pool)
}

// ------------------------------------------------------------ generation

var bFees = []string{"0", "1", "1500000000000000", "3000000000000000", "30000000000000000", "250000000000000000", "500000000000000000", "990000000000000000", "999999999999999999"}

// bigMix draws a positive integer from the mixture: small, near a power of ten, near a power of two, huge.
func bigMix(r *Rng) *big.Int { return clampPos(bigMix0(r)) }

func bigMix0(r *Rng) *big.Int {
	switch r.Pick(30, 15, 15, 20, 20) {
	case 0:
		return bi(int64(1 + r.Intn(30)))
	case 1:
		x := Pow10(1 + r.Intn(70))
		return x.Add(x, bi(int64(r.Intn(5)-2)))
	case 2:
		x := new(big.Int).Lsh(bi(1), uint(1+r.Intn(254)))
		return x.Add(x, bi(int64(r.Intn(5)-2)))
	case 3:
		return add(r.BigBits(1+r.Intn(255)), bi(1))
	default: // just below 2^255
		return sub(two255, r.BigBits(1+r.Intn(200)))
	}
}

func clampPos(x *big.Int) *big.Int {
	if x.Sign() <= 0 {
		return bi(1)
	}
	if x.Cmp(two255) > 0 {
		return new(big.Int).Set(two255)
	}
	return x
}

func bGenFee(r *Rng) string {
	switch r.Pick(70, 25, 5) {
	case 0:
		return bFees[r.Intn(len(bFees))]
	case 1:
		return new(big.Int).Mod(r.BigBits(64), prec18).String()
	default: // invalid
		return []string{"-1", "1000000000000000000", "2000000000000000000"}[r.Intn(3)]
	}
}

// bGenState draws a pool state (possibly the emptied pool).
func bGenState(r *Rng) (ra, rb, s *big.Int) {
	if r.Chance(1, 40) {
		return bi(0), bi(0), bi(0)
	}
	ra = bigMix(r)
	switch r.Pick(40, 30, 30) {
	case 0:
		rb = bigMix(r)
	case 1: // same magnitude
		rb = clampPos(add(ra, bi(int64(r.Intn(41)-20))))
	default: // fixed price
		rb = clampPos(mul(ra, bi(int64(1+r.Intn(9)))))
	}
	switch r.Pick(45, 25, 15, 15) {
	case 0: // as after initialisation
		s = new(big.Int).Sqrt(mul(ra, rb))
		if s.Sign() == 0 {
			s = bi(1)
		}
	case 1:
		s = bigMix(r)
	case 2:
		s = bi(int64(1 + r.Intn(5)))
	default:
		s = clampPos(add(new(big.Int).Sqrt(mul(ra, rb)), bi(int64(r.Intn(2001)-1000))))
	}
	return
}

// near returns base + {-2..2}
func near(r *Rng, base *big.Int) *big.Int { return add(base, bi(int64(r.Intn(5)-2))) }

func bGenOp(r *Rng, ra, rb, s *big.Int, cnt *Counters) bOp {
	op := bOp{RA: ra.String(), RB: rb.String(), S: s.String(), X: "0", Y: "0", Z: "0"}
	empty := s.Sign() == 0
	lim := func(x *big.Int) *big.Int { // arguments must fit a sdkmath.Int
		if x.CmpAbs(two255) > 0 {
			return new(big.Int).Set(two255)
		}
		return x
	}
	amount := func(res, other *big.Int) *big.Int {
		var x *big.Int
		switch r.Pick(25, 20, 20, 10, 15, 10) {
		case 0:
			x = bi(int64(r.Intn(31)))
		case 1: // fraction of the reserve
			x = new(big.Int).Quo(res, bi(int64(1+r.Intn(1000))))
		case 2: // around the reserve
			x = near(r, res)
		case 3: // around the price boundary where the output rounds to zero
			if other.Sign() > 0 {
				x = near(r, new(big.Int).Quo(res, other))
			} else {
				x = bi(1)
			}
		case 4:
			x = bigMix(r)
		default:
			x = mul(res, bi(int64(1+r.Intn(100))))
		}
		return lim(x)
	}
	switch r.Pick(6, 6, 22, 14, 4, 12, 12, 12, 12) {
	case 0:
		op.Kind = "new"
		op.X, op.Y = amount(ra, rb).String(), amount(rb, ra).String()
	case 1:
		op.Kind = "newshares"
		op.X, op.Y, op.Z = amount(ra, rb).String(), amount(rb, ra).String(), amount(s, bi(1)).String()
	case 2:
		op.Kind = "add"
		da := amount(ra, rb)
		var db *big.Int
		if !empty && r.Chance(6, 10) && da.Sign() > 0 { // near the pool ratio (both branches of the optimal-amount choice)
			db = lim(near(r, new(big.Int).Quo(mul(da, rb), ra)))
		} else {
			db = amount(rb, ra)
		}
		if r.Chance(1, 2) {
			// fix B instead
			db2 := amount(rb, ra)
			if !empty && db2.Sign() > 0 && r.Chance(6, 10) {
				da = lim(near(r, new(big.Int).Quo(mul(db2, ra), rb)))
				db = db2
			}
		}
		op.X, op.Y = da.String(), db.String()
	case 3:
		op.Kind = "remove"
		var x *big.Int
		switch r.Pick(25, 25, 25, 25) {
		case 0:
			x = bi(int64(r.Intn(10)))
		case 1:
			x = near(r, s)
		case 2:
			x = new(big.Int).Quo(s, bi(int64(1+r.Intn(10))))
		default: // just enough shares for one unit of the smaller reserve
			m := ra
			if rb.Cmp(ra) < 0 {
				m = rb
			}
			if m.Sign() > 0 {
				x = near(r, ceilDiv(s, m))
			} else {
				x = bi(1)
			}
		}
		op.X = lim(x).String()
	case 4:
		op.Kind = "value"
		op.X = lim(near(r, new(big.Int).Quo(s, bi(int64(1+r.Intn(4)))))).String()
	case 5:
		op.Kind = "swapAB"
		op.X, op.Y = amount(ra, rb).String(), bGenFee(r)
	case 6:
		op.Kind = "swapBA"
		op.X, op.Y = amount(rb, ra).String(), bGenFee(r)
	case 7:
		op.Kind = "forB"
		op.X, op.Y = amount(rb, ra).String(), bGenFee(r)
	default:
		op.Kind = "forA"
		op.X, op.Y = amount(ra, rb).String(), bGenFee(r)
	}
	return op
}

// bSplits classifies a successful operation by the case splits of the proofs.
func bSplits(op bOp, r bRes, cnt *Counters) []string {
	var out []string
	mark := func(k string) {
		out = append(out, k)
		if cnt != nil {
			cnt.Inc("split:base:" + k)
		}
	}
	ra, rb, s := bigS(op.RA), bigS(op.RB), bigS(op.S)
	x, y := bigS(op.X), bigS(op.Y)
	huge := ra.BitLen() > 200 || rb.BitLen() > 200 || x.BitLen() > 200
	if r.cls == ClassPanic {
		if huge {
			mark("panic:huge")
		}
		return out
	}
	if r.cls != ClassOk {
		return out
	}
	if huge {
		mark("ok:huge-values")
	}
	switch op.Kind {
	case "add":
		if s.Sign() == 0 {
			mark("add:reinitialise-empty")
			return out
		}
		c := mul(rb, x).Cmp(mul(ra, y))
		switch {
		case c < 0:
			mark("add:A-fixed")
		case c == 0:
			mark("add:exact-ratio")
		default:
			mark("add:B-fixed")
		}
		if r.outs[2].Sign() == 0 {
			mark("add:zero-shares")
		}
		shA := new(big.Int).Quo(mul(r.outs[0], s), ra)
		shB := new(big.Int).Quo(mul(r.outs[1], s), rb)
		if c := shA.Cmp(shB); c < 0 {
			mark("add:sharesA-smaller")
		} else if c > 0 {
			mark("add:sharesB-smaller")
		}
	case "remove":
		if x.Cmp(s) == 0 {
			mark("remove:all")
		} else {
			mark("remove:partial")
		}
		if r.outs[0].Sign() == 0 || r.outs[1].Sign() == 0 {
			mark("remove:zero-amount")
		}
	case "swapAB", "swapBA":
		if r.outs[0].Sign() == 0 {
			mark("swap-in:zero-output")
		} else {
			mark("swap-in:positive-output")
		}
		if y.Sign() > 0 && r.outs[1].Cmp(bi(1)) == 0 {
			mark("swap-in:minimum-fee-1")
		}
		if y.Sign() == 0 {
			mark("swap-in:zero-fee")
		}
	case "forB", "forA":
		var inRes, outRes *big.Int
		if op.Kind == "forB" {
			inRes, outRes = ra, rb
		} else {
			inRes, outRes = rb, ra
		}
		if new(big.Int).Rem(mul(inRes, x), sub(outRes, x)).Sign() == 0 {
			mark("swap-out:exact-division")
		} else {
			mark("swap-out:input-ceiled")
		}
		w := sub(r.outs[0], r.outs[1])
		if y.Sign() > 0 && new(big.Int).Rem(mul(w, prec18), sub(prec18, y)).Sign() != 0 {
			mark("swap-out:fee-division-inexact")
		}
		if y.Sign() == 0 {
			mark("swap-out:zero-fee")
		}
	}
	return out
}

var bAllSplits = []string{
	"ok:huge-values", "panic:huge",
	"add:reinitialise-empty", "add:A-fixed", "add:exact-ratio", "add:B-fixed", "add:zero-shares", "add:sharesA-smaller", "add:sharesB-smaller",
	"remove:all", "remove:partial", "remove:zero-amount",
	"swap-in:zero-output", "swap-in:positive-output", "swap-in:minimum-fee-1", "swap-in:zero-fee",
	"swap-out:exact-division", "swap-out:input-ceiled", "swap-out:fee-division-inexact", "swap-out:zero-fee",
}

// bBatch is a batch of BasePool cases (one Coq history).
type bBatch struct {
	Kind string `json:"kind"` // "base"
	Seed uint64 `json:"seed"`
	Idx  int    `json:"history"`
	Ops  []bOp  `json:"ops"`
}

// bRunBatch generates (ops == nil) or replays a batch: sequences of operations on evolving pools.
func bRunBatch(seed uint64, idx, n int, ops []bOp, cnt *Counters) (exec []bOp, coq string, fail *Failure, nontrivial int) {
	r := NewRng(seed, uint64(idx)+1_000_000)
	var cases []string
	var ra, rb, s *big.Int
	left := 0
	if ops != nil {
		n = len(ops)
	}
	for i := 0; i < n; i++ {
		var op bOp
		if ops != nil {
			op = ops[i]
		} else {
			if left == 0 {
				ra, rb, s = bGenState(r)
				left = 1 + r.Intn(6)
			}
			left--
			op = bGenOp(r, ra, rb, s, cnt)
		}
		res := bExec(op)
		exec = append(exec, op)
		cases = append(cases, bCoqCase(op, res))
		if cnt != nil {
			cnt.Inc("op:base:" + op.Kind + ":" + res.cls.String())
		}
		if len(bSplits(op, res, cnt)) > 0 {
			nontrivial++
		}
		if pred, sig, detail := bMonitor(op, res); pred != "" && fail == nil {
			fail = &Failure{History: idx, Step: i, Predicate: pred, Signature: sig, Detail: detail,
				Replay: MustJSON(bBatch{"base", seed, idx, []bOp{op}})}
		}
		// the next operation continues on the resulting pool (unless it was not changed or is out of range)
		if ops == nil && res.cls == ClassOk && op.Kind != "value" {
			ok := true
			for _, v := range res.pool {
				if v.Sign() < 0 || v.Cmp(two255) > 0 {
					ok = false
				}
			}
			allZero := res.pool[0].Sign() == 0 && res.pool[1].Sign() == 0 && res.pool[2].Sign() == 0
			anyZero := res.pool[0].Sign() == 0 || res.pool[1].Sign() == 0 || res.pool[2].Sign() == 0
			if ok && (allZero || !anyZero) {
				ra, rb, s = res.pool[0], res.pool[1], res.pool[2]
			} else {
				left = 0
			}
		}
	}
	coq = "HB " + List(cases)
	return
}

// ------------------------------------------------------------ exhaustive small domain

var xFees = []string{"0", "1", "3000000000000000", "500000000000000000", "999999999999999999"}

func mix(h, v *big.Int) *big.Int {
	t := mul(h, hashMul)
	t.Add(t, v)
	return t.And(t, hashMsk)
}

func code(r bRes) *big.Int {
	switch r.cls {
	case ClassOk:
		acc := bi(0)
		vals := append([]*big.Int{bi(1)}, r.outs...)
		vals = append(vals, r.pool[:]...)
		for _, x := range vals {
			acc = add(mul(acc, bi(4096)), add(x, bi(1)))
		}
		return acc
	case ClassErr:
		return bi(2)
	default:
		return bi(3)
	}
}

type xRow struct {
	Kind string `json:"kind"` // "exhaustive"
	N    int    `json:"n"`
	A    int    `json:"a"`
}

// xRunRow computes the digests of all results for reserves A = a (rows b = 1..n) on the
// real BasePool and evaluates the monitors on every case.
func xRunRow(n, a int, cnt *Counters) (coq string, fail *Failure, evals int) {
	digs := make([]*big.Int, 0, n)
	chk := func(op bOp, res bRes) {
		evals++
		if fail != nil {
			return
		}
		if pred, sig, detail := bMonitor(op, res); pred != "" {
			fail = &Failure{Predicate: pred, Signature: sig, Detail: detail, Replay: MustJSON(bBatch{"base", 0, 0, []bOp{op}})}
		}
	}
	for b := 1; b <= n; b++ {
		as, bs := fmt.Sprint(a), fmt.Sprint(b)
		h := bi(0)
		for _, f := range xFees {
			for x := 0; x <= n; x++ {
				for _, k := range []string{"swapAB", "swapBA", "forB", "forA"} {
					op := bOp{RA: as, RB: bs, S: "1", Kind: k, X: fmt.Sprint(x), Y: f, Z: "0"}
					res := bExec(op)
					chk(op, res)
					h = mix(h, code(res))
				}
			}
		}
		for s := 1; s <= n; s++ {
			ss := fmt.Sprint(s)
			hp := bi(0)
			for da := 0; da <= n; da++ {
				for db := 0; db <= n; db++ {
					op := bOp{RA: as, RB: bs, S: ss, Kind: "add", X: fmt.Sprint(da), Y: fmt.Sprint(db), Z: "0"}
					res := bExec(op)
					chk(op, res)
					hp = mix(hp, code(res))
				}
			}
			for x := 0; x <= n+1; x++ {
				op := bOp{RA: as, RB: bs, S: ss, Kind: "remove", X: fmt.Sprint(x), Y: "0", Z: "0"}
				res := bExec(op)
				chk(op, res)
				hp = mix(hp, code(res))
			}
			h = mix(h, hp)
		}
		digs = append(digs, h)
	}
	fees := make([]*big.Int, len(xFees))
	for i, f := range xFees {
		fees[i] = bigS(f)
	}
	if cnt != nil {
		cnt.Add("exhaustive:cases", evals)
	}
	coq = fmt.Sprintf("HX %d %s %d %s", n, ZList(fees), a, ZList(digs))
	return
}
