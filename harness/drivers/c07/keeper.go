package c07

// Keeper level: histories of Deposit / Withdraw / SwapExactForTokens /
// SwapForExactTokens on the real x/swap keeper over the real x/bank
// (3 accounts, 3 denoms, 2 allowed pools sharing one denom), with monitors
// stating C07 on the observable state and Coq terms for Model/Swap.v.

import (
	. "kavaverif/lib"

	"fmt"
	"math/big"
	"os"
	"sort"
	"strings"

	sdk "github.com/cosmos/cosmos-sdk/types"
	govv1beta1 "github.com/cosmos/cosmos-sdk/x/gov/types/v1beta1"
	paramproposal "github.com/cosmos/cosmos-sdk/x/params/types/proposal"
	bankkeeper "github.com/cosmos/cosmos-sdk/x/bank/keeper"
	banktypes "github.com/cosmos/cosmos-sdk/x/bank/types"

	"github.com/kava-labs/kava/app"
	swapkeeper "github.com/kava-labs/kava/x/swap/keeper"
	swaptypes "github.com/kava-labs/kava/x/swap/types"
)

var kDenoms = []string{"bnb", "ukava", "usdx"} // string order = index order

const (
	kNUsers = 3
	kMod    = 3 // index of the swap module account
	kNDen   = 3
)

var kAllowed = [][2]int{{0, 2}, {1, 2}}

type kOp struct {
	Kind   string `json:"kind"` // deposit | withdraw | swapin | swapout | banksend (plain MsgSend of A1 of D1 to the swap module account) | setfee (parameter-change proposal: SwapFee := mantissa A1)
	Who    int    `json:"who"`
	D1     int    `json:"d1"`
	A1     string `json:"a1"`
	D2     int    `json:"d2"`
	A2     string `json:"a2"`
	Slip   string `json:"slip,omitempty"`   // slippage limit mantissa
	Shares string `json:"shares,omitempty"` // withdraw
	// message-level histories only (kHist.Mode == "tx")
	T        int64 `json:"t,omitempty"`        // block time, Unix seconds
	TN       int64 `json:"tn,omitempty"`       // ... and its nanoseconds
	Deadline int64 `json:"deadline,omitempty"` // the message's deadline, Unix seconds
}

type kGenesis struct {
	Fee  string     `json:"fee"`  // swap fee mantissa
	Bals [][]string `json:"bals"` // [user][denom]
}

type kWorld struct {
	tApp  app.TestApp
	ctx   sdk.Context
	sk    swapkeeper.Keeper
	addrs []sdk.AccAddress // users then module
	fee   *big.Int         // the swap fee the params subspace holds (re-read before every operation)
	// fee changes of the history so far: the last accepted proposal changed the stored value
	feeChanged bool
}

type kPool struct{ ra, rb, s *big.Int }

type kSnap struct {
	bal    [][]*big.Int        // [account][denom]
	pools  map[[2]int]kPool    // by (denomA, denomB)
	shares map[[3]int]*big.Int // by (account, denomA, denomB)
	extra  string              // anything that does not fit the projection (unknown denoms, depositors, malformed ids)
}

func kSetup(g kGenesis) *kWorld {
	tApp := NewApp()
	users := Addrs(kNUsers)
	cdc := tApp.AppCodec()
	b := app.NewAuthBankGenesisBuilder()
	for i := 0; i < kNUsers; i++ {
		var cs sdk.Coins
		for d, dn := range kDenoms {
			amt := bigS(g.Bals[i][d])
			if amt.Sign() > 0 {
				cs = append(cs, sdk.NewCoin(dn, sInt(amt)))
			}
		}
		b.WithSimpleAccount(users[i], cs)
	}
	tApp.InitializeFromGenesisStatesWithTime(GenesisTime, b.BuildMarshalled(cdc))
	ctx := NewCtx(tApp, 2, GenesisTime.Add(100*1e9))
	sk := tApp.GetSwapKeeper()
	var ap swaptypes.AllowedPools
	for _, p := range kAllowed {
		ap = append(ap, swaptypes.NewAllowedPool(kDenoms[p[0]], kDenoms[p[1]]))
	}
	params := swaptypes.NewParams(ap, decM(bigS(g.Fee)))
	if err := params.Validate(); err != nil {
		panic(err)
	}
	sk.SetParams(ctx, params)
	addrs := append([]sdk.AccAddress{}, users...)
	addrs = append(addrs, tApp.GetAccountKeeper().GetModuleAccount(ctx, swaptypes.ModuleAccountName).GetAddress())
	return &kWorld{tApp: tApp, ctx: ctx, sk: sk, addrs: addrs, fee: bigS(g.Fee)}
}

func denomIdx(d string) int {
	for i, x := range kDenoms {
		if x == d {
			return i
		}
	}
	return -1
}

func (w *kWorld) snap() *kSnap {
	bk := w.tApp.GetBankKeeper()
	s := &kSnap{pools: map[[2]int]kPool{}, shares: map[[3]int]*big.Int{}}
	var extra []string
	for a := 0; a <= kNUsers; a++ {
		row := make([]*big.Int, kNDen)
		for d := range row {
			row[d] = bi(0)
		}
		for _, c := range bk.GetAllBalances(w.ctx, w.addrs[a]) {
			if i := denomIdx(c.Denom); i >= 0 {
				row[i] = c.Amount.BigInt()
			} else if a == kMod {
				extra = append(extra, "module holds "+c.String())
			}
		}
		s.bal = append(s.bal, row)
	}
	// raw iteration of the pool and share record prefixes
	for _, rec := range w.sk.GetAllPools(w.ctx) {
		x, y := denomIdx(rec.ReservesA.Denom), denomIdx(rec.ReservesB.Denom)
		if x < 0 || y < 0 || rec.PoolID != kDenoms[x]+":"+kDenoms[y] {
			extra = append(extra, "pool record "+rec.PoolID)
			continue
		}
		s.pools[[2]int{x, y}] = kPool{rec.ReservesA.Amount.BigInt(), rec.ReservesB.Amount.BigInt(), rec.TotalShares.BigInt()}
	}
	for _, rec := range w.sk.GetAllDepositorShares(w.ctx) {
		a := -1
		for i, ad := range w.addrs {
			if ad.Equals(rec.Depositor) {
				a = i
			}
		}
		parts := strings.Split(rec.PoolID, ":")
		if a < 0 || len(parts) != 2 || denomIdx(parts[0]) < 0 || denomIdx(parts[1]) < 0 {
			extra = append(extra, "share record "+rec.PoolID)
			continue
		}
		s.shares[[3]int{a, denomIdx(parts[0]), denomIdx(parts[1])}] = rec.SharesOwned.BigInt()
	}
	sort.Strings(extra)
	s.extra = strings.Join(extra, "; ")
	return s
}

// paramsFee reads the swap fee back through the keeper's GetParams (the params subspace).
func (w *kWorld) paramsFee() *big.Int { return w.sk.GetParams(w.ctx).SwapFee.BigInt() }

// proposeFee changes the swap fee the way governance does: a parameter-change proposal executed by
// the handler registered in the gov router (x/params proposal handler -> Subspace.Update, which
// runs validateSwapFee), NOT Keeper.SetParams.  The keeper instance of the history stays the same.
func (w *kWorld) proposeFee(ctx sdk.Context, mantissa *big.Int) error {
	val, err := w.tApp.LegacyAmino().MarshalJSON(decM(mantissa))
	if err != nil {
		return err
	}
	var content govv1beta1.Content = paramproposal.NewParameterChangeProposal("swap fee", "change the swap fee", []paramproposal.ParamChange{
		{Subspace: swaptypes.ModuleName, Key: string(swaptypes.KeySwapFee), Value: string(val)},
	})
	if err := content.ValidateBasic(); err != nil {
		return err
	}
	return w.tApp.GetGovKeeper().LegacyRouter().GetRoute(content.ProposalRoute())(ctx, content)
}

func kCoin(d int, a string) sdk.Coin { return sdk.Coin{Denom: kDenoms[d], Amount: sInt(bigS(a))} }

func (w *kWorld) exec(op kOp) (Class, error) {
	return Atomically(w.ctx, func(ctx sdk.Context) error {
		k := w.sk
		switch op.Kind {
		case "setfee":
			return w.proposeFee(ctx, bigS(op.A1))
		case "banksend":
			// as a transaction would: the bank msg server, which checks BlockedAddr
			_, err := bankkeeper.NewMsgServerImpl(w.tApp.GetBankKeeper()).Send(sdk.WrapSDKContext(ctx),
				&banktypes.MsgSend{FromAddress: w.addrs[op.Who].String(), ToAddress: w.addrs[kMod].String(), Amount: sdk.NewCoins(kCoin(op.D1, op.A1))})
			return err
		case "deposit":
			return k.Deposit(ctx, w.addrs[op.Who], kCoin(op.D1, op.A1), kCoin(op.D2, op.A2), decM(bigS(op.Slip)))
		case "withdraw":
			return k.Withdraw(ctx, w.addrs[op.Who], sInt(bigS(op.Shares)), kCoin(op.D1, op.A1), kCoin(op.D2, op.A2))
		case "swapin":
			return (&k).SwapExactForTokens(ctx, w.addrs[op.Who], kCoin(op.D1, op.A1), kCoin(op.D2, op.A2), decM(bigS(op.Slip)))
		case "swapout":
			return (&k).SwapForExactTokens(ctx, w.addrs[op.Who], kCoin(op.D1, op.A1), kCoin(op.D2, op.A2), decM(bigS(op.Slip)))
		}
		panic("unknown op kind " + op.Kind)
	})
}

func kErrKind(err error) string {
	if err == nil {
		return "none"
	}
	m := err.Error()
	switch {
	case strings.HasPrefix(m, "panic:"):
		return "panic"
	case strings.Contains(m, "deadline exceeded"):
		return "deadline"
	case strings.Contains(m, "slippage exceeded"):
		return "slippage"
	case strings.Contains(m, "insufficient liquidity"):
		return "insufficient-liquidity"
	case strings.Contains(m, "insufficient funds") || strings.Contains(m, "is smaller than"):
		return "insufficient-funds"
	case strings.Contains(m, "not allowed"):
		return "not-allowed"
	case strings.Contains(m, "deposit not found"):
		return "deposit-not-found"
	case strings.Contains(m, "invalid shares"):
		return "invalid-shares"
	case strings.Contains(m, "invalid pool"):
		return "pool-not-found"
	}
	return "other"
}

func sortPair(d1, d2 int) (int, int) {
	if d2 < d1 {
		return d2, d1
	}
	return d1, d2
}

func zeroPool() kPool { return kPool{bi(0), bi(0), bi(0)} }

func (s *kSnap) pool(x, y int) kPool {
	if p, ok := s.pools[[2]int{x, y}]; ok {
		return p
	}
	return zeroPool()
}

func (s *kSnap) share(a, x, y int) *big.Int {
	if v, ok := s.shares[[3]int{a, x, y}]; ok {
		return v
	}
	return bi(0)
}

// ------------------------------------------------------------ monitors

// kTrip remembers the last successful deposit, for the deposit-then-withdraw round trip.
type kTrip struct {
	active         bool
	who, x, y      int
	dx, dy, minted *big.Int
}

func kSameState(a, b *kSnap) string {
	for i := range a.bal {
		for d := range a.bal[i] {
			if a.bal[i][d].Cmp(b.bal[i][d]) != 0 {
				return fmt.Sprintf("balance of %d in %s", i, kDenoms[d])
			}
		}
	}
	for x := 0; x < kNDen; x++ {
		for y := 0; y < kNDen; y++ {
			p, q := a.pool(x, y), b.pool(x, y)
			if p.ra.Cmp(q.ra) != 0 || p.rb.Cmp(q.rb) != 0 || p.s.Cmp(q.s) != 0 {
				return fmt.Sprintf("pool %d:%d", x, y)
			}
			for u := 0; u <= kNUsers; u++ {
				if a.share(u, x, y).Cmp(b.share(u, x, y)) != 0 {
					return fmt.Sprintf("shares of %d in %d:%d", u, x, y)
				}
			}
		}
	}
	return ""
}

// kMonitor states C07 on the implementation's observable state after one operation.
func kMonitor(w *kWorld, op kOp, cls Class, err error, before, after *kSnap, trip *kTrip) (pred, sig, detail string) {
	// the module account takes coins only through the keeper: a plain transfer to it must be refused
	if op.Kind == "banksend" && cls == ClassOk {
		return "module-account-refuses-direct-transfers", "direct-send-to-module-accepted",
			fmt.Sprintf("MsgSend of %s%s to the swap module account accepted: module %s -> %s", op.A1, kDenoms[op.D1], before.bal[kMod][op.D1], after.bal[kMod][op.D1])
	}
	// custody: module balance = sum of reserves, per denom, and nothing else
	if after.extra != "" {
		return "records-well-formed", "unexpected-record", after.extra
	}
	for d := 0; d < kNDen; d++ {
		sum := bi(0)
		for k, p := range after.pools {
			if k[0] == d {
				sum.Add(sum, p.ra)
			}
			if k[1] == d {
				sum.Add(sum, p.rb)
			}
		}
		if sum.Cmp(after.bal[kMod][d]) != 0 {
			return "module-balance-equals-reserves", "custody-broken", fmt.Sprintf("%s: module %s, reserves %s", kDenoms[d], after.bal[kMod][d], sum)
		}
	}
	// pool shares = sum of depositor shares; records positive
	for x := 0; x < kNDen; x++ {
		for y := 0; y < kNDen; y++ {
			sum := bi(0)
			for u := 0; u <= kNUsers; u++ {
				sum.Add(sum, after.share(u, x, y))
			}
			if sum.Cmp(after.pool(x, y).s) != 0 {
				return "pool-shares-equal-depositor-shares", "shares-sum-broken", fmt.Sprintf("pool %d:%d total %s, depositors %s", x, y, after.pool(x, y).s, sum)
			}
		}
	}
	for k, p := range after.pools {
		if p.ra.Sign() <= 0 || p.rb.Sign() <= 0 || p.s.Sign() <= 0 || k[0] >= k[1] {
			return "records-well-formed", "non-positive-pool-record", fmt.Sprintf("pool %v: %s %s %s", k, p.ra, p.rb, p.s)
		}
	}
	for k, v := range after.shares {
		if v.Sign() <= 0 {
			return "records-well-formed", "non-positive-share-record", fmt.Sprintf("%v: %s", k, v)
		}
	}
	if msg, broken := swapkeeper.AllInvariants(w.sk)(w.ctx); broken {
		return "keeper-invariants", "keeper-invariant-broken", strings.TrimSpace(msg)
	}
	if op.Kind == "setfee" {
		// a fee change touches nothing but the parameter; it is accepted exactly for fees in [0, 1)
		if what := kSameState(before, after); what != "" {
			return "fee-change-touches-only-the-fee", "fee-change-changed-state", what
		}
		f := bigS(op.A1)
		valid := f.Sign() >= 0 && f.Cmp(prec18) < 0
		now := w.paramsFee()
		switch {
		case cls == ClassOk && !valid:
			return "fee-in-range", "invalid-fee-accepted", f.String()
		case cls == ClassOk && now.Cmp(f) != 0:
			return "fee-change-takes-effect", "accepted-fee-not-stored", fmt.Sprintf("proposed %s, params hold %s", f, now)
		case cls != ClassOk && now.Cmp(w.fee) != 0:
			return "failed-op-no-change", "refused-fee-change-changed-fee", fmt.Sprintf("%s -> %s", w.fee, now)
		case cls != ClassOk && valid:
			return "fee-change-takes-effect", "valid-fee-refused", fmt.Sprintf("%s: %v", f, err)
		}
		return "", "", ""
	}
	if now := w.paramsFee(); now.Cmp(w.fee) != 0 {
		return "only-governance-changes-the-fee", "fee-changed-by-swap-operation", fmt.Sprintf("%s -> %s", w.fee, now)
	}
	wasTrip := *trip
	trip.active = false
	if cls == ClassPanic && err != nil && strings.Contains(err.Error(), "invalid state") && !strings.Contains(err.Error(), "deposit B must be positive") {
		return "internal-assertions-unreachable", "internal-assertion-fired", err.Error()
	}
	if cls != ClassOk {
		if what := kSameState(before, after); what != "" {
			return "failed-op-no-change", "failed-op-changed-state", what
		}
		return "", "", ""
	}
	if op.Kind == "banksend" {
		return "", "", ""
	}
	x, y := sortPair(op.D1, op.D2)
	if x == y {
		return "same-denoms-refused", "same-denom-accepted", op.Kind
	}
	// nothing but the caller, the module account and the named pool changes; coins are conserved
	for u := 0; u <= kNUsers; u++ {
		for d := 0; d < kNDen; d++ {
			if u != op.Who && u != kMod && before.bal[u][d].Cmp(after.bal[u][d]) != 0 {
				return "only-caller-pays", "third-party-balance-changed", fmt.Sprintf("account %d %s", u, kDenoms[d])
			}
		}
	}
	for d := 0; d < kNDen; d++ {
		if add(before.bal[op.Who][d], before.bal[kMod][d]).Cmp(add(after.bal[op.Who][d], after.bal[kMod][d])) != 0 {
			return "coins-conserved", "coins-not-conserved", kDenoms[d]
		}
		if after.bal[op.Who][d].Sign() < 0 {
			return "coins-conserved", "negative-balance", kDenoms[d]
		}
	}
	for px := 0; px < kNDen; px++ {
		for py := 0; py < kNDen; py++ {
			if px == x && py == y {
				continue
			}
			p, q := before.pool(px, py), after.pool(px, py)
			if p.ra.Cmp(q.ra) != 0 || p.rb.Cmp(q.rb) != 0 || p.s.Cmp(q.s) != 0 {
				return "only-named-pool-changes", "other-pool-changed", fmt.Sprintf("%d:%d", px, py)
			}
		}
	}
	for u := 0; u <= kNUsers; u++ {
		for px := 0; px < kNDen; px++ {
			for py := 0; py < kNDen; py++ {
				if (u != op.Who || px != x || py != y) && before.share(u, px, py).Cmp(after.share(u, px, py)) != 0 {
					return "only-caller-shares-change", "other-share-record-changed", fmt.Sprintf("%d in %d:%d", u, px, py)
				}
			}
		}
	}
	p, q := before.pool(x, y), after.pool(x, y)
	paid := func(d int) *big.Int { return sub(before.bal[op.Who][d], after.bal[op.Who][d]) } // positive = caller paid
	slip := bi(0)
	if op.Slip != "" {
		slip = bigS(op.Slip)
	}
	amt := func(d int) *big.Int { // the amount the caller named for denom d
		if d == op.D1 {
			return bigS(op.A1)
		}
		return bigS(op.A2)
	}
	switch op.Kind {
	case "deposit":
		dx, dy, ds := sub(q.ra, p.ra), sub(q.rb, p.rb), sub(q.s, p.s)
		if dx.Sign() <= 0 || dy.Sign() <= 0 || ds.Sign() <= 0 {
			return "deposit-adds-liquidity", "deposit-without-effect", fmt.Sprintf("%s %s %s", dx, dy, ds)
		}
		if paid(x).Cmp(dx) != 0 || paid(y).Cmp(dy) != 0 {
			return "coins-moved-exactly", "deposit-payment-mismatch", fmt.Sprintf("paid %s,%s reserves +%s,+%s", paid(x), paid(y), dx, dy)
		}
		if dx.Cmp(amt(x)) > 0 || dy.Cmp(amt(y)) > 0 {
			return "deposit-at-most-desired", "deposit-exceeds-desired", fmt.Sprintf("%s,%s of %s,%s", dx, dy, amt(x), amt(y))
		}
		if sub(after.share(op.Who, x, y), before.share(op.Who, x, y)).Cmp(ds) != 0 {
			return "shares-credited-exactly", "deposit-shares-mismatch", ds.String()
		}
		if p.s.Sign() == 0 {
			ok := false
			for _, al := range kAllowed {
				if al[0] == x && al[1] == y {
					ok = true
				}
			}
			if !ok {
				return "only-allowed-pools", "pool-created-not-allowed", fmt.Sprintf("%d:%d", x, y)
			}
			if mul(q.s, q.s).Cmp(mul(q.ra, q.rb)) > 0 || mul(add(q.s, bi(1)), add(q.s, bi(1))).Cmp(mul(q.ra, q.rb)) <= 0 {
				return "initial-shares-floor-sqrt", "initial-shares-not-floor-sqrt", fmt.Sprintf("%s for %s*%s", q.s, q.ra, q.rb)
			}
		} else if mul(q.ra, p.s).Cmp(mul(p.ra, q.s)) < 0 || mul(q.rb, p.s).Cmp(mul(p.rb, q.s)) < 0 {
			return "share-value-non-decreasing", "deposit-dilutes-shares", fmt.Sprintf("(%s,%s,%s) -> (%s,%s,%s)", p.ra, p.rb, p.s, q.ra, q.rb, q.s)
		}
		// slippage: max(desired/deposited) - 1 <= limit (one ulp of tolerance for the decimal rounding)
		lim := add(add(prec18, slip), bi(1))
		if mul(amt(x), prec18).Cmp(mul(dx, lim)) > 0 || mul(amt(y), prec18).Cmp(mul(dy, lim)) > 0 {
			return "slippage-enforced", "deposit-slippage-ignored", fmt.Sprintf("desired %s,%s deposited %s,%s limit %s", amt(x), amt(y), dx, dy, slip)
		}
		*trip = kTrip{true, op.Who, x, y, dx, dy, ds}
	case "withdraw":
		wx, wy, ds := sub(p.ra, q.ra), sub(p.rb, q.rb), sub(p.s, q.s)
		if ds.Cmp(bigS(op.Shares)) != 0 || sub(before.share(op.Who, x, y), after.share(op.Who, x, y)).Cmp(ds) != 0 {
			return "shares-debited-exactly", "withdraw-shares-mismatch", fmt.Sprintf("burned %s asked %s", ds, op.Shares)
		}
		if wx.Sign() <= 0 || wy.Sign() <= 0 {
			return "withdraw-removes-liquidity", "withdraw-without-effect", fmt.Sprintf("%s %s", wx, wy)
		}
		if paid(x).Cmp(new(big.Int).Neg(wx)) != 0 || paid(y).Cmp(new(big.Int).Neg(wy)) != 0 {
			return "coins-moved-exactly", "withdraw-payment-mismatch", fmt.Sprintf("received %s,%s reserves -%s,-%s", new(big.Int).Neg(paid(x)), new(big.Int).Neg(paid(y)), wx, wy)
		}
		if mul(q.ra, p.s).Cmp(mul(p.ra, q.s)) < 0 || mul(q.rb, p.s).Cmp(mul(p.rb, q.s)) < 0 {
			return "share-value-non-decreasing", "withdraw-dilutes-shares", fmt.Sprintf("(%s,%s,%s) -> (%s,%s,%s)", p.ra, p.rb, p.s, q.ra, q.rb, q.s)
		}
		if wx.Cmp(amt(x)) < 0 || wy.Cmp(amt(y)) < 0 {
			return "slippage-enforced", "withdraw-minimum-ignored", fmt.Sprintf("got %s,%s minimum %s,%s", wx, wy, amt(x), amt(y))
		}
		if q.s.Sign() == 0 && (q.ra.Sign() != 0 || q.rb.Sign() != 0) {
			return "records-well-formed", "pool-without-shares", ""
		}
		if wasTrip.active && wasTrip.who == op.Who && wasTrip.x == x && wasTrip.y == y && wasTrip.minted.Cmp(ds) == 0 {
			if wx.Cmp(wasTrip.dx) > 0 || wy.Cmp(wasTrip.dy) > 0 {
				return "deposit-withdraw-no-profit", "deposit-withdraw-profit", fmt.Sprintf("put %s,%s got %s,%s", wasTrip.dx, wasTrip.dy, wx, wy)
			}
		}
	case "swapin", "swapout":
		if p.s.Cmp(q.s) != 0 {
			return "swap-keeps-shares", "swap-changed-shares", ""
		}
		if mul(q.ra, q.rb).Cmp(mul(p.ra, p.rb)) < 0 {
			return "product-non-decreasing", "product-decreased", fmt.Sprintf("%s*%s -> %s*%s", p.ra, p.rb, q.ra, q.rb)
		}
		din, dout := op.D1, op.D2
		res := func(pl kPool, d int) *big.Int {
			if d == x {
				return pl.ra
			}
			return pl.rb
		}
		in := sub(res(q, din), res(p, din))
		out := sub(res(p, dout), res(q, dout))
		if in.Sign() <= 0 || out.Sign() <= 0 {
			return "swap-direction", "swap-wrong-direction", fmt.Sprintf("in %s out %s", in, out)
		}
		if paid(din).Cmp(in) != 0 || paid(dout).Cmp(new(big.Int).Neg(out)) != 0 {
			return "coins-moved-exactly", "swap-payment-mismatch", fmt.Sprintf("paid %s received %s; reserves +%s -%s", paid(din), new(big.Int).Neg(paid(dout)), in, out)
		}
		minFee := ceilDiv(mul(in, w.fee), prec18)
		if mul(sub(res(q, din), minFee), res(q, dout)).Cmp(mul(p.ra, p.rb)) < 0 {
			return "fee-kept", "fee-not-kept", fmt.Sprintf("in %s fee rate %s (the fee the parameters hold when the swap executes) out %s reserves %s,%s", in, w.fee, out, res(p, din), res(p, dout))
		}
		// the swap is priced exactly as the pool arithmetic prices it under the CURRENT fee: an
		// exact-input swap pays out no more, an exact-output swap charges no less
		{
			bk := map[bool]string{true: "swapAB", false: "swapBA"}[din == x]
			arg := in
			if op.Kind == "swapout" {
				bk = map[bool]string{true: "forB", false: "forA"}[dout == y]
				arg = out
			}
			if want := kPredict(p, bk, arg, w.fee); want != nil {
				if op.Kind == "swapin" && out.Cmp(want[0]) > 0 {
					return "fee-kept", "reported-fee-below-rate", fmt.Sprintf("exact input %s paid out %s; under the configured fee %s at most %s may leave the pool", in, out, w.fee, want[0])
				}
				if op.Kind == "swapout" && in.Cmp(want[0]) < 0 {
					return "fee-kept", "reported-fee-below-rate", fmt.Sprintf("exact output %s charged %s; under the configured fee %s at least %s is due", out, in, w.fee, want[0])
				}
			}
		}
		if op.Kind == "swapin" {
			if in.Cmp(bigS(op.A1)) != 0 {
				return "exact-input-respected", "exact-input-mismatch", fmt.Sprintf("%s vs %s", in, op.A1)
			}
			// 1 - out/desired <= limit
			des := bigS(op.A2)
			if des.Sign() > 0 && mul(out, prec18).Cmp(mul(des, sub(sub(prec18, slip), bi(1)))) < 0 {
				return "slippage-enforced", "swap-slippage-ignored", fmt.Sprintf("out %s desired %s limit %s", out, des, slip)
			}
		} else {
			if out.Cmp(bigS(op.A2)) != 0 {
				return "exact-output-respected", "exact-output-mismatch", fmt.Sprintf("%s vs %s", out, op.A2)
			}
			// 1 - offered/(input net of fee) <= limit, where the net input is the least w with (rin+w)(rout-out) >= rin*rout
			wmin := ceilDiv(mul(res(p, din), out), sub(res(p, dout), out))
			off := bigS(op.A1)
			if mul(off, prec18).Cmp(mul(wmin, sub(sub(prec18, slip), bi(1)))) < 0 {
				return "slippage-enforced", "swap-slippage-ignored", fmt.Sprintf("offered %s needed %s limit %s", off, wmin, slip)
			}
		}
	}
	return "", "", ""
}

// ------------------------------------------------------------ Coq rendering

func kCoqOp(op kOp) string {
	sl := "0"
	if op.Slip != "" {
		sl = Z(bigS(op.Slip))
	}
	switch op.Kind {
	case "banksend":
		return fmt.Sprintf("BankSend %s %s %s", Nat(op.Who), Nat(op.D1), Z(bigS(op.A1)))
	case "deposit":
		return fmt.Sprintf("Deposit %s %s %s %s %s %s", Nat(op.Who), Nat(op.D1), Z(bigS(op.A1)), Nat(op.D2), Z(bigS(op.A2)), sl)
	case "withdraw":
		return fmt.Sprintf("Withdraw %s %s %s %s %s %s", Nat(op.Who), Z(bigS(op.Shares)), Nat(op.D1), Z(bigS(op.A1)), Nat(op.D2), Z(bigS(op.A2)))
	case "swapin":
		return fmt.Sprintf("SwapIn %s %s %s %s %s %s", Nat(op.Who), Nat(op.D1), Z(bigS(op.A1)), Nat(op.D2), Z(bigS(op.A2)), sl)
	default:
		return fmt.Sprintf("SwapOut %s %s %s %s %s %s", Nat(op.Who), Nat(op.D1), Z(bigS(op.A1)), Nat(op.D2), Z(bigS(op.A2)), sl)
	}
}

func kCoqObs(cls Class, before, after *kSnap) string {
	var db, dp, ds []string
	for a := 0; a <= kNUsers; a++ {
		for d := 0; d < kNDen; d++ {
			if before.bal[a][d].Cmp(after.bal[a][d]) != 0 {
				db = append(db, fmt.Sprintf("(%s, %s, %s)", Nat(a), Nat(d), Z(after.bal[a][d])))
			}
		}
	}
	for x := 0; x < kNDen; x++ {
		for y := 0; y < kNDen; y++ {
			_, was := before.pools[[2]int{x, y}]
			q, is := after.pools[[2]int{x, y}]
			p := before.pool(x, y)
			if was != is || p.ra.Cmp(after.pool(x, y).ra) != 0 || p.rb.Cmp(after.pool(x, y).rb) != 0 || p.s.Cmp(after.pool(x, y).s) != 0 {
				if is {
					dp = append(dp, fmt.Sprintf("(%s, %s, Some (%s, %s, %s))", Nat(x), Nat(y), Z(q.ra), Z(q.rb), Z(q.s)))
				} else {
					dp = append(dp, fmt.Sprintf("(%s, %s, None)", Nat(x), Nat(y)))
				}
			}
			for u := 0; u <= kNUsers; u++ {
				if before.share(u, x, y).Cmp(after.share(u, x, y)) != 0 {
					ds = append(ds, fmt.Sprintf("(%s, %s, %s, %s)", Nat(u), Nat(x), Nat(y), Z(after.share(u, x, y))))
				}
			}
		}
	}
	return fmt.Sprintf("mkObs %s %s %s %s", cls.Coq(), List(db), List(dp), List(ds))
}

func kCoqHeader(g kGenesis, s *kSnap) string {
	rows := make([]string, len(s.bal))
	for a := range s.bal {
		rows[a] = ZList(s.bal[a])
	}
	al := make([]string, len(kAllowed))
	for i, p := range kAllowed {
		al[i] = fmt.Sprintf("(%s, %s)", Nat(p[0]), Nat(p[1]))
	}
	return fmt.Sprintf("mkVH (mkEnv %s %s %s %s)\n  (mk_state %s)", Nat(kNUsers), Nat(kNDen), List(al), Z(bigS(g.Fee)), List(rows))
}

// a step of a [vhistory] (Model/SwapGov.v): the operation, the observation, the fee read back
func kCoqKeeperStep(op kOp, obs string, fee *big.Int) string {
	if op.Kind == "setfee" {
		return fmt.Sprintf("(VSetFee %s,\n    %s, %s)", Z(bigS(op.A1)), obs, Z(fee))
	}
	return fmt.Sprintf("(VKeeper (%s),\n    %s, %s)", kCoqOp(op), obs, Z(fee))
}

// ------------------------------------------------------------ generation

var kFees = []string{"0", "1", "1500000000000000", "3000000000000000", "30000000000000000", "500000000000000000", "999999999999999999"}

func kGenGenesis(r *Rng) kGenesis {
	g := kGenesis{}
	if r.Chance(8, 10) {
		g.Fee = kFees[r.Intn(len(kFees))]
	} else {
		g.Fee = new(big.Int).Mod(r.BigBits(64), prec18).String()
	}
	profile := r.Pick(45, 25, 30)
	for u := 0; u < kNUsers; u++ {
		row := make([]string, kNDen)
		for d := range row {
			var x *big.Int
			switch profile {
			case 0: // everyday magnitudes
				x = mul(bi(int64(1+r.Intn(1000))), Pow10(3+r.Intn(12)))
			case 1: // tiny: rounding dominates
				x = bi(int64(20 + r.Intn(3000)))
			default: // up to 2^250; one rich account, one medium, one small
				switch u {
				case 0:
					x = add(r.BigBits(200+r.Intn(51)), bi(1))
				case 1:
					x = mul(bi(int64(1+r.Intn(1000))), Pow10(6+r.Intn(30)))
				default:
					x = bi(int64(1 + r.Intn(100000)))
				}
			}
			row[d] = x.String()
		}
		g.Bals = append(g.Bals, row)
	}
	return g
}

// kPredict runs an operation on a copy of the pool (the implementation's own BasePool) to aim
// amounts at the boundaries the keeper computes.
func kPredict(p kPool, kind string, x, fee *big.Int) (out []*big.Int) {
	if p.s.Sign() == 0 {
		return nil
	}
	y := fee
	r := bExec(bOp{RA: p.ra.String(), RB: p.rb.String(), S: p.s.String(), Kind: kind, X: x.String(), Y: y.String(), Z: "0"})
	if r.cls != ClassOk {
		return nil
	}
	return r.outs
}

func kGenSlip(r *Rng, exact *big.Int) string {
	switch r.Pick(3, 10, 49, 4, 32, 2) {
	case 0:
		return "0"
	case 1:
		return "10000000000000000" // 1 %
	case 2:
		return "1000000000000000000"
	case 3:
		return new(big.Int).Mod(r.BigBits(64), prec18).String()
	case 4: // at the boundary
		if exact != nil {
			v := add(exact, bi(int64(r.Intn(4)-1)))
			return v.String()
		}
		return "500000000000000000"
	default:
		return "-1"
	}
}

func kAmount(r *Rng, balance, reserve *big.Int) *big.Int {
	var x *big.Int
	switch r.Pick(20, 15, 20, 25, 10, 10) {
	case 0:
		x = bi(int64(1 + r.Intn(20)))
	case 1:
		x = near(r, Pow10(1+r.Intn(12)))
	case 2: // near the balance
		x = near(r, balance)
	case 3: // a fraction of the balance
		x = new(big.Int).Quo(balance, bi(int64(2+r.Intn(200))))
	case 4: // relative to the reserve
		if reserve.Sign() > 0 {
			x = new(big.Int).Quo(mul(reserve, bi(int64(1+r.Intn(300)))), bi(100))
		} else {
			x = bi(int64(1 + r.Intn(1000)))
		}
	default:
		x = add(r.BigBits(1+r.Intn(254)), bi(1))
	}
	if x.Sign() <= 0 {
		x = bi(1)
	}
	return x
}

func kGenOp(r *Rng, w *kWorld, s *kSnap, trip *kTrip) kOp {
	op := kOp{Who: r.Intn(kNUsers)}
	if r.Chance(1, 40) {
		// a plain bank transfer to the module account, mostly affordable (so that only the blocked-address rule refuses it)
		op.Kind, op.D1, op.D2, op.A2 = "banksend", r.Intn(kNDen), 0, "0"
		amt := kAmount(r, s.bal[op.Who][op.D1], bi(0))
		if amt.Cmp(s.bal[op.Who][op.D1]) > 0 && s.bal[op.Who][op.D1].Sign() > 0 && r.Chance(9, 10) {
			amt = new(big.Int).Quo(add(s.bal[op.Who][op.D1], bi(1)), bi(int64(1+r.Intn(3))))
		}
		if amt.Sign() <= 0 {
			amt = bi(1)
		}
		if amt.BitLen() > 255 {
			amt = new(big.Int).Set(two255)
		}
		op.A1 = amt.String()
		return op
	}
	// the pool: mostly an allowed one
	var x, y int
	switch r.Pick(48, 48, 2, 2) {
	case 0:
		x, y = 0, 2
	case 1:
		x, y = 1, 2
	case 2:
		x, y = 0, 1 // not allowed
	default:
		x = r.Intn(kNDen)
		y = x // same denom
	}
	p := s.pool(x, y)
	exists := p.s.Sign() > 0
	if exists && r.Chance(7, 10) {
		// a caller whose funds are dust next to the reserves mostly gets "amount rounds to zero"
		if mul(s.bal[op.Who][x], bi(1000)).Cmp(p.ra) < 0 || mul(s.bal[op.Who][y], bi(1000)).Cmp(p.rb) < 0 {
			op.Who = 0
		}
	}
	flipOrder := r.Chance(1, 2)
	setDenoms := func(ax, ay *big.Int) {
		if flipOrder {
			op.D1, op.A1, op.D2, op.A2 = y, ay.String(), x, ax.String()
		} else {
			op.D1, op.A1, op.D2, op.A2 = x, ax.String(), y, ay.String()
		}
	}
	// deposit-then-withdraw round trip
	if trip.active && r.Chance(1, 3) {
		op.Kind, op.Who = "withdraw", trip.who
		x, y = trip.x, trip.y
		op.Shares = trip.minted.String()
		setDenoms(bi(1), bi(1))
		return op
	}
	kind := r.Pick(30, 20, 25, 25)
	if !exists && x != y && r.Chance(9, 10) {
		kind = 0
	}
	if kind == 1 && exists && r.Chance(9, 10) {
		any := false
		for u := 0; u < kNUsers; u++ {
			any = any || s.share(u, x, y).Sign() > 0
		}
		if !any {
			kind = 0
		}
	}
	capTo := func(v, balance *big.Int) *big.Int { // mostly stay within the caller's funds
		if v.Cmp(balance) > 0 && balance.Sign() > 0 && r.Chance(9, 10) {
			return new(big.Int).Quo(balance, bi(int64(1+r.Intn(4))))
		}
		return v
	}
	switch kind {
	case 0:
		op.Kind = "deposit"
		ax := capTo(kAmount(r, s.bal[op.Who][x], p.ra), s.bal[op.Who][x])
		var ay *big.Int
		var exact *big.Int
		if exists && r.Chance(88, 100) {
			// near the pool ratio, on either side
			ay = new(big.Int).Quo(mul(ax, p.rb), p.ra)
			if ay.Cmp(s.bal[op.Who][y]) > 0 && r.Chance(9, 10) { // scale both sides into the caller's funds
				ay = new(big.Int).Quo(s.bal[op.Who][y], bi(int64(1+r.Intn(4))))
				ax = new(big.Int).Quo(mul(ay, p.ra), p.rb)
			}
			if r.Chance(1, 2) {
				ay = near(r, ay)
			}
			if r.Chance(1, 5) {
				ay = add(ay, new(big.Int).Quo(ay, bi(int64(10+r.Intn(200))))) // a few percent off
			}
		} else if !exists && r.Chance(8, 10) {
			// initial price within a few orders of magnitude
			ay = capTo(new(big.Int).Quo(mul(ax, bi(int64(1+r.Intn(2000)))), bi(int64(1+r.Intn(2000)))), s.bal[op.Who][y])
		} else {
			ay = capTo(kAmount(r, s.bal[op.Who][y], p.rb), s.bal[op.Who][y])
		}
		if exists && p.s.Cmp(p.ra) < 0 && p.s.Cmp(p.rb) < 0 && r.Chance(1, 3) {
			// a pool whose reserves outgrew its shares (fees): the smallest deposit that still takes
			// one unit of B mints zero shares
			ax = add(ceilDiv(p.ra, p.rb), bi(int64(r.Intn(2))))
			ay = add(new(big.Int).Quo(mul(ax, p.rb), p.ra), bi(int64(r.Intn(2))))
		}
		if ax.Sign() <= 0 {
			ax = bi(1)
		}
		if ay.Sign() <= 0 {
			ay = bi(1)
		}
		if outs := kPredict(p, "add", ax, ay); outs != nil && outs[0].Sign() > 0 && outs[1].Sign() > 0 {
			// the slippage the keeper will compute
			func() {
				defer func() { _ = recover() }()
				qa := decM(mul(ax, prec18)).Quo(decM(mul(outs[0], prec18)))
				qb := decM(mul(ay, prec18)).Quo(decM(mul(outs[1], prec18)))
				if qb.GT(qa) {
					qa = qb
				}
				exact = sub(qa.BigInt(), prec18)
			}()
		}
		setDenoms(ax, ay)
		op.Slip = kGenSlip(r, exact)
		if r.Chance(1, 40) {
			op.A1 = []string{"0", "-5"}[r.Intn(2)]
		}
	case 1:
		op.Kind = "withdraw"
		owned := s.share(op.Who, x, y)
		if owned.Sign() == 0 && r.Chance(9, 10) { // pick a depositor
			for u := 0; u < kNUsers; u++ {
				if s.share(u, x, y).Sign() > 0 {
					op.Who = u
					owned = s.share(u, x, y)
				}
			}
		}
		var sh *big.Int
		switch r.Pick(35, 35, 6, 8, 13, 3) {
		case 0:
			sh = new(big.Int).Set(owned)
		case 1:
			sh = new(big.Int).Quo(owned, bi(int64(2+r.Intn(10))))
		case 2:
			sh = bi(int64(1 + r.Intn(5)))
		case 3:
			sh = add(owned, bi(int64(1+r.Intn(2))))
		case 4: // just enough for one unit of the smaller reserve
			m := p.ra
			if p.rb.Cmp(m) < 0 {
				m = p.rb
			}
			if m.Sign() > 0 {
				sh = near(r, ceilDiv(p.s, m))
			} else {
				sh = bi(1)
			}
		default:
			sh = bi(int64(-r.Intn(2)))
		}
		if sh.Sign() <= 0 && !r.Chance(1, 10) {
			sh = bi(1)
		}
		op.Shares = sh.String()
		mx, my := bi(1), bi(1)
		if outs := kPredict(p, "value", sh, bi(0)); outs != nil && r.Chance(1, 2) {
			mx = add(outs[0], bi(int64(r.Intn(3)-1)))
			my = add(outs[1], bi(int64(r.Intn(3)-1)))
			if r.Chance(1, 2) {
				my = bi(1)
			}
		}
		setDenoms(mx, my)
	case 2:
		op.Kind = "swapin"
		din, dout := x, y
		rin, rout := p.ra, p.rb
		if flipOrder {
			din, dout, rin, rout = y, x, p.rb, p.ra
		}
		var ain *big.Int
		if exists && r.Chance(1, 5) && rout.Sign() > 0 { // around the input at which the output becomes 1
			ain = near(r, new(big.Int).Quo(rin, rout))
			if ain.Sign() <= 0 {
				ain = bi(1)
			}
		} else if exists && r.Chance(1, 2) {
			ain = new(big.Int).Quo(mul(rin, bi(int64(1+r.Intn(300)))), bi(100))
		} else {
			ain = kAmount(r, s.bal[op.Who][din], rin)
		}
		if exists && r.Chance(8, 10) { // enough input for a positive output
			minIn := mul(add(new(big.Int).Quo(rin, rout), bi(1)), bi(int64(2+r.Intn(4))))
			if ain.Cmp(minIn) < 0 {
				ain = minIn
			}
		}
		ain = capTo(ain, s.bal[op.Who][din])
		if ain.Sign() <= 0 {
			ain = bi(1)
		}
		des := bi(int64(1 + r.Intn(100)))
		var exact *big.Int
		bk := "swapAB"
		if din == y {
			bk = "swapBA"
		}
		if outs := kPredict(p, bk, ain, w.fee); outs != nil && outs[0].Sign() > 0 {
			switch r.Pick(40, 30, 30) {
			case 0:
				des = new(big.Int).Set(outs[0])
			case 1:
				des = near(r, outs[0])
			default:
				des = add(outs[0], new(big.Int).Quo(outs[0], bi(int64(5+r.Intn(100)))))
			}
			if des.Sign() <= 0 {
				des = bi(1)
			}
			func() {
				defer func() { _ = recover() }()
				pc := decM(mul(outs[0], prec18)).Quo(decM(mul(des, prec18)))
				exact = sub(prec18, pc.BigInt())
			}()
		}
		op.D1, op.A1, op.D2, op.A2 = din, ain.String(), dout, des.String()
		op.Slip = kGenSlip(r, exact)
		if r.Chance(1, 40) {
			op.A2 = []string{"0", "-3"}[r.Intn(2)]
		}
		if r.Chance(1, 60) {
			op.A1 = []string{"0", "-3"}[r.Intn(2)]
		}
	default:
		op.Kind = "swapout"
		din, dout := x, y
		rin, rout := p.ra, p.rb
		if flipOrder {
			din, dout, rin, rout = y, x, p.rb, p.ra
		}
		_ = rin
		var bex *big.Int
		switch r.Pick(25, 45, 12, 15, 3) {
		case 0:
			bex = bi(int64(1 + r.Intn(20)))
		case 1:
			bex = new(big.Int).Quo(rout, bi(int64(2+r.Intn(300))))
		case 2:
			bex = near(r, rout)
		case 3:
			bex = new(big.Int).Quo(mul(rout, bi(int64(50+r.Intn(50)))), bi(100))
		default:
			bex = bi(int64(-r.Intn(2)))
		}
		if bex.Sign() <= 0 && !r.Chance(1, 10) {
			bex = bi(1)
		}
		amax := kAmount(r, s.bal[op.Who][din], rin)
		var exact *big.Int
		bk := "forB"
		if dout == x {
			bk = "forA"
		}
		if outs := kPredict(p, bk, bex, w.fee); outs != nil && outs[0].Cmp(s.bal[op.Who][din]) > 0 && r.Chance(85, 100) {
			// keep the required input within the caller's funds
			bex = new(big.Int).Quo(mul(bex, s.bal[op.Who][din]), mul(outs[0], bi(2)))
			if bex.Sign() <= 0 {
				bex = bi(1)
			}
		}
		if outs := kPredict(p, bk, bex, w.fee); outs != nil {
			net := sub(outs[0], outs[1])
			switch r.Pick(40, 30, 30) {
			case 0:
				amax = new(big.Int).Set(net)
			case 1:
				amax = near(r, outs[0])
			default:
				amax = sub(net, new(big.Int).Quo(net, bi(int64(5+r.Intn(100)))))
			}
			if amax.Sign() <= 0 {
				amax = bi(1)
			}
			func() {
				defer func() { _ = recover() }()
				pc := decM(mul(amax, prec18)).Quo(decM(mul(net, prec18)))
				exact = sub(prec18, pc.BigInt())
			}()
		}
		op.D1, op.A1, op.D2, op.A2 = din, amax.String(), dout, bex.String()
		op.Slip = kGenSlip(r, exact)
	}
	// amounts must fit a sdkmath.Int
	for _, f := range []*string{&op.A1, &op.A2, &op.Shares, &op.Slip} {
		if *f != "" && bigS(*f).BitLen() > 255 {
			*f = two255.String()
		}
	}
	return op
}

// kSplits classifies an operation by the case splits of the proofs.
func kSplits(w *kWorld, op kOp, cls Class, err error, before, after *kSnap, cnt *Counters) []string {
	var out []string
	mark := func(k string) {
		out = append(out, k)
		if cnt != nil {
			cnt.Inc("split:keeper:" + k)
		}
	}
	if op.Kind == "setfee" {
		if cls == ClassOk {
			mark("setfee:accepted")
			if w.feeChanged {
				mark("setfee:accepted-new-value")
			}
		} else {
			mark("setfee:refused-out-of-range")
		}
		return out
	}
	if cls == ClassOk && (op.Kind == "swapin" || op.Kind == "swapout") && w.feeChanged {
		mark("swap-after-fee-change")
	}
	x, y := sortPair(op.D1, op.D2)
	p, q := before.pool(x, y), after.pool(x, y)
	switch cls {
	case ClassPanic:
		mark("panic")
		return out
	case ClassErr:
		if op.Kind == "banksend" {
			if bigS(op.A1).Cmp(before.bal[op.Who][op.D1]) <= 0 {
				mark("banksend:refused-though-affordable")
			}
			return nil
		}
		k := kErrKind(err)
		if k == "slippage" || k == "insufficient-liquidity" || k == "insufficient-funds" {
			mark(op.Kind + ":refused:" + k)
		}
		if op.Kind == "deposit" && k == "insufficient-liquidity" && p.s.Sign() > 0 {
			ax, ay := bigS(op.A1), bigS(op.A2)
			if op.D1 != x {
				ax, ay = ay, ax
			}
			if ax.Sign() > 0 && ay.Sign() > 0 {
				if outs := kPredict(p, "add", ax, ay); outs != nil && outs[0].Sign() > 0 && outs[1].Sign() > 0 && outs[2].Sign() == 0 {
					mark("deposit:refused:zero-shares")
				}
			}
		}
		return nil // refusals are counted but do not make a history non-trivial
	}
	switch op.Kind {
	case "deposit":
		if p.s.Sign() == 0 {
			mark("deposit:new-pool")
		} else {
			dx, dy := sub(q.ra, p.ra), sub(q.rb, p.rb)
			ax, ay := bigS(op.A1), bigS(op.A2)
			if op.D1 != x {
				ax, ay = ay, ax
			}
			switch {
			case dx.Cmp(ax) == 0 && dy.Cmp(ay) == 0:
				mark("deposit:both-desired-taken")
			case dx.Cmp(ax) == 0:
				mark("deposit:B-reduced")
			default:
				mark("deposit:A-reduced")
			}
			if before.share(op.Who, x, y).Sign() > 0 {
				mark("deposit:existing-depositor")
			} else {
				mark("deposit:new-depositor")
			}
		}
		if op.D1 > op.D2 {
			mark("deposit:denoms-named-in-reverse")
		}
	case "withdraw":
		switch {
		case q.s.Sign() == 0:
			mark("withdraw:pool-deleted")
		case after.share(op.Who, x, y).Sign() == 0:
			mark("withdraw:depositor-exits")
		default:
			mark("withdraw:partial")
		}
	case "swapin":
		if op.D1 == x {
			mark("swapin:A-for-B")
		} else {
			mark("swapin:B-for-A")
		}
	case "swapout":
		if op.D1 == x {
			mark("swapout:A-for-exact-B")
		} else {
			mark("swapout:B-for-exact-A")
		}
	}
	if len(after.pools) == 2 {
		mark("two-pools-live")
	}
	return out
}

var kAllSplits = []string{
	"deposit:new-pool", "deposit:both-desired-taken", "deposit:B-reduced", "deposit:A-reduced",
	"deposit:existing-depositor", "deposit:new-depositor", "deposit:denoms-named-in-reverse",
	"withdraw:pool-deleted", "withdraw:depositor-exits", "withdraw:partial",
	"swapin:A-for-B", "swapin:B-for-A", "swapout:A-for-exact-B", "swapout:B-for-exact-A",
	"two-pools-live", "panic", "banksend:refused-though-affordable",
	"deposit:refused:slippage", "deposit:refused:insufficient-liquidity", "deposit:refused:insufficient-funds", "deposit:refused:zero-shares",
	"withdraw:refused:slippage", "withdraw:refused:insufficient-liquidity",
	"swapin:refused:slippage", "swapin:refused:insufficient-liquidity", "swapin:refused:insufficient-funds",
	"swapout:refused:slippage", "swapout:refused:insufficient-liquidity", "swapout:refused:insufficient-funds",
	"setfee:accepted", "setfee:accepted-new-value", "setfee:refused-out-of-range", "swap-after-fee-change",
}

// kGenFeeChange: a parameter-change proposal for the swap fee: mostly a valid fee different from
// the current one (raised and lowered), sometimes the same, sometimes out of range
func kGenFeeChange(r *Rng, cur *big.Int) kOp {
	var f *big.Int
	switch r.Pick(50, 20, 8, 22) {
	case 0:
		f = bigS(kFees[r.Intn(len(kFees))])
	case 1:
		f = new(big.Int).Mod(r.BigBits(64), prec18)
	case 2:
		f = new(big.Int).Set(cur)
	default:
		f = []*big.Int{bi(-1), new(big.Int).Set(prec18), add(prec18, bi(5)), mul(prec18, bi(3)), bi(-3000000000000000)}[r.Intn(5)]
	}
	return kOp{Kind: "setfee", A1: f.String(), A2: "0"}
}

// ------------------------------------------------------------ history runner

type kHist struct {
	Kind    string   `json:"kind"`           // "keeper"
	Mode    string   `json:"mode,omitempty"` // "" = keeper calls; "tx" = ValidateBasic + msg server at generated block times
	Seed    uint64   `json:"seed"`
	Idx     int      `json:"history"`
	Genesis kGenesis `json:"genesis"`
	Ops     []kOp    `json:"ops"`
}

// kRun executes generated (ops == nil) or explicit operations.
func kRun(seed uint64, idx, n int, gen *kGenesis, ops []kOp, cnt *Counters) (h kHist, coq string, fail *Failure, splits map[string]bool) {
	return kRunMode("", seed, idx, n, gen, ops, cnt)
}

func kRunMode(mode string, seed uint64, idx, n int, gen *kGenesis, ops []kOp, cnt *Counters) (h kHist, coq string, fail *Failure, splits map[string]bool) {
	tx := mode == "tx"
	r := NewRng(seed, uint64(idx))
	var g kGenesis
	if gen != nil {
		g = *gen
	} else {
		g = kGenGenesis(r)
	}
	w := kSetup(g)
	splits = map[string]bool{}
	prev := w.snap()
	header := kCoqHeader(g, prev)
	var steps []string
	trip := &kTrip{}
	if ops != nil {
		n = len(ops)
	}
	h = kHist{Kind: "keeper", Mode: mode, Seed: seed, Idx: idx, Genesis: g}
	now := w.ctx.BlockTime().Unix()
	for i := 0; i < n; i++ {
		var op kOp
		if ops != nil {
			op = ops[i]
		} else {
			// governance changes the fee in the middle of most histories (after the first swaps)
			if i >= 3 && r.Chance(1, 12) {
				op = kGenFeeChange(r, w.paramsFee())
			} else {
				op = kGenOp(r, w, prev, trip)
			}
			if tx {
				txTimes(r, &now, &op)
			}
		}
		w.fee = w.paramsFee()
		var cls Class
		var err error
		if tx {
			cls, err = w.execTx(op)
		} else {
			cls, err = w.exec(op)
		}
		if os.Getenv("C07_DEBUG") != "" && cls != ClassOk {
			x, y := sortPair(op.D1, op.D2)
			fmt.Fprintf(os.Stderr, "DBG %s %+v pool=%v bal=%v err=%v\n", kErrKind(err), op, prev.pool(x, y), prev.bal[op.Who], err)
		}
		after := w.snap()
		feeAfter := w.paramsFee()
		if op.Kind == "setfee" && cls == ClassOk {
			w.feeChanged = feeAfter.Cmp(w.fee) != 0
		}
		h.Ops = append(h.Ops, op)
		if cnt != nil {
			pre := "op:"
			if tx { // counted apart: deadline and ValidateBasic refusals are deliberate there
				pre = "optx:"
			}
			cnt.Inc(pre + op.Kind + ":" + cls.String())
			if cls != ClassOk {
				cnt.Inc("err:" + op.Kind + ":" + kErrKind(err))
			}
		}
		for _, k := range kSplits(w, op, cls, err, prev, after, cnt) {
			splits[k] = true
		}
		var pred, sig, detail string
		if tx {
			steps = append(steps, kCoqMsgStep(op, kCoqObs(cls, prev, after), feeAfter))
			pred, sig, detail = kMonitorTx(w, op, cls, err, prev, after, trip, func(k string) {
				splits[k] = true
				if cnt != nil {
					cnt.Inc("split:keeper:" + k)
				}
			})
		} else {
			steps = append(steps, kCoqKeeperStep(op, kCoqObs(cls, prev, after), feeAfter))
			pred, sig, detail = kMonitor(w, op, cls, err, prev, after, trip)
		}
		if pred != "" && fail == nil {
			fail = &Failure{History: idx, Step: i, Predicate: pred, Signature: sig, Detail: detail}
		}
		prev = after
	}
	coq = fmt.Sprintf("%s\n  %s", header, List(steps))
	return
}
