package c07

// Message level of C07: the same keeper operations delivered as a transaction
// would deliver them -- ValidateBasic of the swap message, then the real msg
// server (deadline gate, then the keeper call) at a generated block time.
// Model: tx_step of Model/Swap.v under the current fee (VTx of Model/SwapGov.v); histories are
// rendered as [vhistory] terms and evaluated by [mismatches_v].

import (
	. "kavaverif/lib"

	"fmt"
	"math/big"
	"time"

	sdk "github.com/cosmos/cosmos-sdk/types"

	swapkeeper "github.com/kava-labs/kava/x/swap/keeper"
	swaptypes "github.com/kava-labs/kava/x/swap/types"
)

// execTx delivers op as a message at block time (op.T seconds + op.TN nanoseconds).
func (w *kWorld) execTx(op kOp) (Class, error) {
	if op.Kind == "banksend" || op.Kind == "setfee" {
		return w.exec(op)
	}
	ctx0 := w.ctx.WithBlockTime(time.Unix(op.T, op.TN).UTC())
	return Atomically(ctx0, func(ctx sdk.Context) error {
		ms := swapkeeper.NewMsgServerImpl(w.sk)
		who := w.addrs[op.Who].String()
		var err error
		switch op.Kind {
		case "deposit":
			m := swaptypes.NewMsgDeposit(who, kCoin(op.D1, op.A1), kCoin(op.D2, op.A2), decM(bigS(op.Slip)), op.Deadline)
			if err = m.ValidateBasic(); err == nil {
				_, err = ms.Deposit(sdk.WrapSDKContext(ctx), m)
			}
		case "withdraw":
			m := swaptypes.NewMsgWithdraw(who, sInt(bigS(op.Shares)), kCoin(op.D1, op.A1), kCoin(op.D2, op.A2), op.Deadline)
			if err = m.ValidateBasic(); err == nil {
				_, err = ms.Withdraw(sdk.WrapSDKContext(ctx), m)
			}
		case "swapin":
			m := swaptypes.NewMsgSwapExactForTokens(who, kCoin(op.D1, op.A1), kCoin(op.D2, op.A2), decM(bigS(op.Slip)), op.Deadline)
			if err = m.ValidateBasic(); err == nil {
				_, err = ms.SwapExactForTokens(sdk.WrapSDKContext(ctx), m)
			}
		case "swapout":
			m := swaptypes.NewMsgSwapForExactTokens(who, kCoin(op.D1, op.A1), kCoin(op.D2, op.A2), decM(bigS(op.Slip)), op.Deadline)
			if err = m.ValidateBasic(); err == nil {
				_, err = ms.SwapForExactTokens(sdk.WrapSDKContext(ctx), m)
			}
		default:
			panic("unknown op kind " + op.Kind)
		}
		return err
	})
}

// txTimes assigns the block time and the deadline of a generated operation:
// block times advance by 0..10 s with arbitrary nanoseconds; deadlines sit one
// second before, exactly on, and one second after the block time (in whole
// seconds, the granularity the code compares at), far ahead, or are not positive.
func txTimes(r *Rng, now *int64, op *kOp) {
	switch r.Pick(30, 40, 30) {
	case 0:
	case 1:
		*now += int64(1 + r.Intn(10))
	default:
		*now += int64(r.Intn(2))
	}
	op.T = *now
	switch r.Pick(25, 25, 50) {
	case 0:
		op.TN = 0
	case 1:
		op.TN = 999_999_999
	default:
		op.TN = r.Int63n(1_000_000_000)
	}
	switch r.Pick(10, 10, 10, 66, 2, 2) {
	case 0:
		op.Deadline = op.T - 1
	case 1:
		op.Deadline = op.T
	case 2:
		op.Deadline = op.T + 1
	case 3:
		op.Deadline = op.T + 1000 + r.Int63n(1_000_000)
	case 4:
		op.Deadline = 0
	default:
		op.Deadline = -1 - r.Int63n(1000)
	}
}

// txValid states ValidateBasic of the four messages on the operation's fields.
func txValid(op kOp) bool {
	if op.Kind == "banksend" || op.Kind == "setfee" {
		return true
	}
	if bigS(op.A1).Sign() <= 0 || bigS(op.A2).Sign() <= 0 || op.D1 == op.D2 || op.Deadline <= 0 {
		return false
	}
	if op.Kind == "withdraw" {
		return bigS(op.Shares).Sign() > 0
	}
	return bigS(op.Slip).Sign() >= 0
}

// kMonitorTx states the message-level rules on the implementation, then the keeper-level property.
func kMonitorTx(w *kWorld, op kOp, cls Class, err error, before, after *kSnap, trip *kTrip, mark func(string)) (pred, sig, detail string) {
	if op.Kind != "banksend" && op.Kind != "setfee" {
		exceeded := op.Deadline <= op.T // blockTime.Unix() >= deadline
		switch {
		case op.Deadline == op.T-1:
			mark("deadline:one-second-before-block-time")
		case op.Deadline == op.T:
			mark("deadline:equals-block-time")
		case op.Deadline == op.T+1:
			mark("deadline:one-second-after-block-time")
		}
		if !txValid(op) {
			mark("tx:refused-by-validate-basic")
		}
		if (exceeded || !txValid(op)) && cls == ClassOk {
			s := "message-accepted-after-deadline"
			if !txValid(op) {
				s = "message-accepted-against-validate-basic"
			}
			return "deadline-and-validate-basic-gate-messages", s, fmt.Sprintf("%s deadline %d at block time %d.%09d: accepted", op.Kind, op.Deadline, op.T, op.TN)
		}
		if exceeded || !txValid(op) {
			if cls == ClassPanic {
				return "refused-message-fails-cleanly", "refused-message-panicked", fmt.Sprint(err)
			}
			if d := kSameState(before, after); d != "" {
				return "refused-message-changes-nothing", "refused-message-changed-state", d
			}
			if exceeded && txValid(op) {
				mark("tx:refused-deadline-exceeded")
				if kErrKind(err) != "deadline" {
					return "deadline-exceeded-is-reported-as-such", "deadline-exceeded-other-error", fmt.Sprint(err)
				}
			}
		} else {
			if kErrKind(err) == "deadline" {
				return "message-before-deadline-is-not-refused-for-it", "deadline-refusal-before-deadline", fmt.Sprintf("deadline %d, block time %d.%09d: %v", op.Deadline, op.T, op.TN, err)
			}
			mark("tx:reached-keeper")
			if cls == ClassPanic {
				// ValidateBasic keeps malformed coins away from the keeper: nothing a validated message carries may panic it
				// (arithmetic overflow of 256-bit amounts excepted, which the generator stays away from in tx histories)
				mark("tx:keeper-panicked")
			}
		}
	}
	return kMonitor(w, op, cls, err, before, after, trip)
}

func kCoqMsgStep(op kOp, obs string, fee *big.Int) string {
	if op.Kind == "setfee" {
		return kCoqKeeperStep(op, obs, fee)
	}
	return fmt.Sprintf("(VTx %s (mkMsg (%s) %s),\n    %s, %s)", Zi(op.T), kCoqOp(op), Zi(op.Deadline), obs, Z(fee))
}

var kTxSplits = []string{
	"deadline:one-second-before-block-time", "deadline:equals-block-time", "deadline:one-second-after-block-time",
	"tx:refused-by-validate-basic", "tx:refused-deadline-exceeded", "tx:reached-keeper",
}

var _ = big.NewInt
