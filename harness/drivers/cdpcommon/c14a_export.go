package cdpcommon

// exported lookups used by the C14a component (genesis re-import / probes); added for C14a

import sdk "github.com/cosmos/cosmos-sdk/types"

// AddrIndex returns the model index of an address (users, then the cdp, liquidator and auction module accounts); 99 = unknown.
func (w *World) AddrIndex(a sdk.AccAddress) int {
	if i, ok := w.addrIdx[string(a)]; ok {
		return i
	}
	return 99
}

// TypeIndex returns the model index of a collateral type; 99 = unknown.
func (w *World) TypeIndex(name string) int {
	if i, ok := w.typeIdx[name]; ok {
		return i
	}
	return 99
}
