// Package cdpcommon is shared by the C04 and C05 drivers: a world of three
// collateral types over the real x/cdp, x/pricefeed, x/auction and x/bank
// keepers, the operations of Model/Cdp.v executed at message level
// (ValidateBasic + msg server) and the cdp begin blocker, raw snapshots of the
// stores, generators, monitors and the Coq rendering.
package cdpcommon

import (
	. "kavaverif/lib"

	"bytes"
	"encoding/binary"
	"fmt"
	"math/big"
	"sort"
	"strings"
	"time"

	sdkmath "cosmossdk.io/math"
	abci "github.com/cometbft/cometbft/abci/types"
	sdk "github.com/cosmos/cosmos-sdk/types"

	"github.com/kava-labs/kava/app"
	auctiontypes "github.com/kava-labs/kava/x/auction/types"
	"github.com/kava-labs/kava/x/cdp"
	cdpkeeper "github.com/kava-labs/kava/x/cdp/keeper"
	cdptypes "github.com/kava-labs/kava/x/cdp/types"
	pricefeedtypes "github.com/kava-labs/kava/x/pricefeed/types"
)

const (
	NUsers = 4
	CDPM   = NUsers     // cdp module account
	LIQM   = NUsers + 1 // liquidator module account
	AUCM   = NUsers + 2 // auction module account
	NAcc   = NUsers + 3
)

// denoms and markets by model index
var Denoms = []string{"bnb", "debt", "ukava", "usdx", "xrp"}

const (
	DBnb = iota
	DDebt
	DGov
	DUsdx
	DXrp
)

var Markets = []string{"bnb:usd", "bnb:usd:30", "xrp:usd", "xrp:usd:30"}

// TypeCfg is one collateral parameter set (decimals as strings).
type TypeCfg struct {
	Name     string `json:"name"`
	Denom    int    `json:"denom"`
	Liq      string `json:"liq"`
	Limit    string `json:"limit"`
	Fee      string `json:"fee"`
	ASize    string `json:"asize"`
	Pen      string `json:"pen"`
	Spot     int    `json:"spot"`
	LiqM     int    `json:"liqm"`
	Reward   string `json:"reward"`
	Count    int64  `json:"count"`
	CF       int64  `json:"cf"`
	GenFac   bool   `json:"gen_fac"`  // genesis has an accumulation-time entry (interest factor 1.0)
	GenTime  bool   `json:"gen_time"` // ... with a previous accrual time
}

// Config is the per-history configuration (chosen by the history's PRNG).
type Config struct {
	Types      []TypeCfg `json:"types"`
	DebtCF     int64     `json:"debt_cf"`
	DebtFloor  string    `json:"debt_floor"`
	GlobalLim  string    `json:"global_limit"`
	SurThr     string    `json:"sur_thr"`
	SurLot     string    `json:"sur_lot"`
	DebtThr    string    `json:"debt_thr"`
	DebtLot    string    `json:"debt_lot"`
	Interval   int64     `json:"interval"`
	KeeperFocus bool     `json:"keeper_focus,omitempty"` // history aimed at keeper liquidations of multi-depositor cdps (blocks never reach the liquidation interval)
	Prices     []string  `json:"prices"` // initial price per market ("0" = none)
	UserFunds  []string  `json:"user_funds"` // per denom
}

// Op is one operation of a history.
type Op struct {
	Kind   string     `json:"kind"` // create | deposit | withdraw | draw | repay | liquidate | block
	O      int        `json:"o"`    // owner
	U      int        `json:"u"`    // depositor / keeper
	T      int        `json:"t"`    // collateral type index (>= number of types: unknown type)
	CD     int        `json:"cd"`   // collateral denom index
	X      string     `json:"x"`    // collateral amount (create/deposit/withdraw) or debt amount (draw/repay)
	PD     int        `json:"pd"`   // principal / payment denom index
	P      string     `json:"p"`    // principal (create)
	Dt     int64      `json:"dt"`   // block: nanoseconds to the next block
	Prices [][2]string `json:"prices,omitempty"` // block: (market index, new price or "0")
}

func bigOf(s string) *big.Int {
	if s == "" {
		return new(big.Int)
	}
	z, ok := new(big.Int).SetString(s, 10)
	if !ok {
		panic("bad integer " + s)
	}
	return z
}

func decOf(s string) sdk.Dec { return sdk.MustNewDecFromStr(s) }

// Mant returns the mantissa of a Dec.
func Mant(d sdk.Dec) *big.Int { return new(big.Int).Set(d.BigInt()) }

type World struct {
	Cfg     Config
	App     app.TestApp
	Ctx     sdk.Context
	K       cdpkeeper.Keeper
	Msg     cdptypes.MsgServer
	Addrs   []sdk.AccAddress // users sorted by address bytes, then cdp, liquidator, auction module accounts
	addrIdx map[string]int
	typeIdx map[string]int
	Usdx0   *big.Int // usdx supply at genesis
	nextAuc uint64   // first auction id not yet reported
	Height  int64
	Time    time.Time
}

func typeName(cfg Config, t int) string {
	if t >= 0 && t < len(cfg.Types) {
		return cfg.Types[t].Name
	}
	return "nope-a"
}

func denomName(d int) string {
	if d >= 0 && d < len(Denoms) {
		return Denoms[d]
	}
	return "zzz"
}

// Setup builds a fresh app from genesis with the given configuration.
func Setup(cfg Config) *World {
	tApp := NewApp()
	users := Addrs(NUsers)
	sort.Slice(users, func(i, j int) bool { return bytes.Compare(users[i], users[j]) < 0 })
	cdc := tApp.AppCodec()

	funds := sdk.Coins{}
	for d, amt := range cfg.UserFunds {
		a := bigOf(amt)
		if a.Sign() > 0 {
			funds = funds.Add(sdk.NewCoin(Denoms[d], sdkmath.NewIntFromBigInt(a)))
		}
	}
	b := app.NewAuthBankGenesisBuilder()
	for _, u := range users {
		b.WithSimpleAccount(u, funds)
	}

	// pricefeed genesis
	pf := pricefeedtypes.GenesisState{}
	for m, id := range Markets {
		parts := strings.Split(id, ":")
		pf.Params.Markets = append(pf.Params.Markets, pricefeedtypes.Market{MarketID: id, BaseAsset: parts[0], QuoteAsset: "usd", Oracles: []sdk.AccAddress{}, Active: true})
		if cfg.Prices[m] != "0" {
			pf.PostedPrices = append(pf.PostedPrices, pricefeedtypes.PostedPrice{MarketID: id, OracleAddress: sdk.AccAddress{}, Price: decOf(cfg.Prices[m]), Expiry: GenesisTime.Add(1000000 * time.Hour)})
		}
	}

	// cdp genesis
	cg := cdptypes.GenesisState{
		Params: cdptypes.Params{
			GlobalDebtLimit:          sdk.NewCoin("usdx", sdkmath.NewIntFromBigInt(bigOf(cfg.GlobalLim))),
			SurplusAuctionThreshold:  sdkmath.NewIntFromBigInt(bigOf(cfg.SurThr)),
			SurplusAuctionLot:        sdkmath.NewIntFromBigInt(bigOf(cfg.SurLot)),
			DebtAuctionThreshold:     sdkmath.NewIntFromBigInt(bigOf(cfg.DebtThr)),
			DebtAuctionLot:           sdkmath.NewIntFromBigInt(bigOf(cfg.DebtLot)),
			LiquidationBlockInterval: cfg.Interval,
			DebtParam: cdptypes.DebtParam{Denom: "usdx", ReferenceAsset: "usd", ConversionFactor: sdkmath.NewInt(cfg.DebtCF),
				DebtFloor: sdkmath.NewIntFromBigInt(bigOf(cfg.DebtFloor))},
		},
		StartingCdpID: cdptypes.DefaultCdpStartingID,
		DebtDenom:     cdptypes.DefaultDebtDenom,
		GovDenom:      cdptypes.DefaultGovDenom,
		CDPs:          cdptypes.CDPs{},
	}
	for _, tc := range cfg.Types {
		cg.Params.CollateralParams = append(cg.Params.CollateralParams, cdptypes.CollateralParam{
			Denom: Denoms[tc.Denom], Type: tc.Name, LiquidationRatio: decOf(tc.Liq),
			DebtLimit:    sdk.NewCoin("usdx", sdkmath.NewIntFromBigInt(bigOf(tc.Limit))),
			StabilityFee: decOf(tc.Fee), AuctionSize: sdkmath.NewIntFromBigInt(bigOf(tc.ASize)),
			LiquidationPenalty: decOf(tc.Pen), SpotMarketID: Markets[tc.Spot], LiquidationMarketID: Markets[tc.LiqM],
			KeeperRewardPercentage: decOf(tc.Reward), CheckCollateralizationIndexCount: sdkmath.NewInt(tc.Count),
			ConversionFactor: sdkmath.NewInt(tc.CF),
		})
		if tc.GenFac {
			pt := time.Time{}
			if tc.GenTime {
				pt = GenesisTime
			}
			cg.PreviousAccumulationTimes = append(cg.PreviousAccumulationTimes, cdptypes.NewGenesisAccumulationTime(tc.Name, pt, sdk.OneDec()))
		}
		cg.TotalPrincipals = append(cg.TotalPrincipals, cdptypes.NewGenesisTotalPrincipal(tc.Name, sdk.ZeroInt()))
	}

	tApp.InitializeFromGenesisStatesWithTime(GenesisTime,
		b.BuildMarshalled(cdc),
		app.GenesisState{pricefeedtypes.ModuleName: cdc.MustMarshalJSON(&pf)},
		app.GenesisState{cdptypes.ModuleName: cdc.MustMarshalJSON(&cg)},
	)
	w := &World{Cfg: cfg, App: tApp, K: tApp.GetCDPKeeper(), Height: 1, Time: GenesisTime}
	w.Ctx = NewCtx(tApp, w.Height, w.Time)
	w.Msg = cdpkeeper.NewMsgServerImpl(w.K)
	ak := tApp.GetAccountKeeper()
	w.Addrs = append(w.Addrs, users...)
	for _, m := range []string{cdptypes.ModuleName, cdptypes.LiquidatorMacc, auctiontypes.ModuleName} {
		w.Addrs = append(w.Addrs, ak.GetModuleAccount(w.Ctx, m).GetAddress())
	}
	w.addrIdx = map[string]int{}
	for i, a := range w.Addrs {
		w.addrIdx[string(a)] = i
	}
	w.typeIdx = map[string]int{}
	for i, tc := range cfg.Types {
		w.typeIdx[tc.Name] = i
	}
	w.Usdx0 = tApp.GetBankKeeper().GetSupply(w.Ctx, "usdx").Amount.BigInt()
	id, err := tApp.GetAuctionKeeper().GetNextAuctionID(w.Ctx)
	if err != nil {
		panic(err)
	}
	w.nextAuc = id
	return w
}

// Exec executes one operation atomically (committed only when it returns nil and does not panic).
func (w *World) Exec(op Op) (Class, error) {
	cfg := w.Cfg
	user := func(i int) sdk.AccAddress {
		if i >= 0 && i < NUsers {
			return w.Addrs[i]
		}
		return sdk.AccAddress(bytes.Repeat([]byte{0xEE}, 20)) // an address that has no account
	}
	coin := func(d int, amt string) sdk.Coin {
		return sdk.Coin{Denom: denomName(d), Amount: sdkmath.NewIntFromBigInt(bigOf(amt))}
	}
	if op.Kind == "block" {
		newTime := w.Time.Add(time.Duration(op.Dt))
		newCtx := w.Ctx.WithBlockHeight(w.Height + 1).WithBlockTime(newTime)
		cls, err := Atomically(newCtx, func(ctx sdk.Context) error {
			pk := w.App.GetPriceFeedKeeper()
			old := ctx.WithBlockTime(w.Time)
			for _, mp := range op.Prices {
				m := int(bigOf(mp[0]).Int64())
				if mp[1] == "0" {
					// the only posted price expires before the new block: no valid price
					if _, err := pk.SetPrice(old, sdk.AccAddress{}, Markets[m], sdk.OneDec(), w.Time.Add(1)); err != nil {
						panic(err)
					}
					_ = pk.SetCurrentPrices(ctx, Markets[m])
				} else {
					p := sdk.NewDecFromBigIntWithPrec(bigOf(mp[1]), 18)
					if _, err := pk.SetPrice(old, sdk.AccAddress{}, Markets[m], p, GenesisTime.Add(1000000*time.Hour)); err != nil {
						panic(err)
					}
					if err := pk.SetCurrentPrices(ctx, Markets[m]); err != nil {
						panic(err)
					}
				}
			}
			cdp.BeginBlocker(ctx, abci.RequestBeginBlock{}, w.K)
			return nil
		})
		if cls == ClassOk {
			w.Height++
			w.Time = newTime
			w.Ctx = newCtx
		}
		return cls, err
	}
	return Atomically(w.Ctx, func(ctx sdk.Context) error {
		goCtx := sdk.WrapSDKContext(ctx)
		switch op.Kind {
		case "create":
			msg := cdptypes.NewMsgCreateCDP(user(op.O), coin(op.CD, op.X), coin(op.PD, op.P), typeName(cfg, op.T))
			if err := msg.ValidateBasic(); err != nil {
				return err
			}
			_, err := w.Msg.CreateCDP(goCtx, &msg)
			return err
		case "deposit":
			msg := cdptypes.NewMsgDeposit(user(op.O), user(op.U), coin(op.CD, op.X), typeName(cfg, op.T))
			if err := msg.ValidateBasic(); err != nil {
				return err
			}
			_, err := w.Msg.Deposit(goCtx, &msg)
			return err
		case "withdraw":
			msg := cdptypes.NewMsgWithdraw(user(op.O), user(op.U), coin(op.CD, op.X), typeName(cfg, op.T))
			if err := msg.ValidateBasic(); err != nil {
				return err
			}
			_, err := w.Msg.Withdraw(goCtx, &msg)
			return err
		case "draw":
			msg := cdptypes.NewMsgDrawDebt(user(op.O), typeName(cfg, op.T), coin(op.PD, op.X))
			if err := msg.ValidateBasic(); err != nil {
				return err
			}
			_, err := w.Msg.DrawDebt(goCtx, &msg)
			return err
		case "repay":
			msg := cdptypes.NewMsgRepayDebt(user(op.O), typeName(cfg, op.T), coin(op.PD, op.X))
			if err := msg.ValidateBasic(); err != nil {
				return err
			}
			_, err := w.Msg.RepayDebt(goCtx, &msg)
			return err
		case "liquidate":
			msg := cdptypes.NewMsgLiquidate(user(op.U), user(op.O), typeName(cfg, op.T))
			if err := msg.ValidateBasic(); err != nil {
				return err
			}
			_, err := w.Msg.Liquidate(goCtx, &msg)
			return err
		}
		panic("unknown op kind " + op.Kind)
	})
}

// ------------------------------------------------------------ snapshots (raw store reads)

type CdpRow struct {
	T, ID, Owner int
	Coll, Prin, Fees *big.Int
	Upd  int64
	Ifac *big.Int
}
type DepRow struct {
	ID, U int
	Amt   *big.Int
}
type RidxRow struct {
	T     int
	Ratio *big.Int
	ID    int
}
type AucRow struct {
	Kind, LotD    int
	Lot, Max, Debt *big.Int
	Ret           int
}

type Snap struct {
	Cdps   []CdpRow
	Deps   []DepRow
	Oidx   [][]int // owner, ids...
	Ridx   []RidxRow
	TPrin  []*big.Int
	Ifac   []*big.Int // -1 = not set
	PTime  []int64    // -1 = not set
	NextID int
	Status []bool
	Price  []*big.Int // current price mantissa per market (0 = none)
	Bal    [][]*big.Int
	Sup    []*big.Int
	Aucs   []AucRow // started since the previous snapshot
	Bad    []string // raw-store anomalies (value/key disagreement, undecodable rows, unknown addresses)
}

func (w *World) idxOf(a sdk.AccAddress, bad *[]string, what string) int {
	i, ok := w.addrIdx[string(a)]
	if !ok {
		*bad = append(*bad, what+": unknown address "+a.String())
		return 99
	}
	return i
}

// Snap reads the observable state; everything under the cdp store key is read
// by iterating the raw prefixes.
func (w *World) Snap() *Snap {
	ctx, _ := w.Ctx.CacheContext()
	s := &Snap{}
	cdc := w.App.AppCodec()
	store := ctx.KVStore(w.App.GetKVStoreKey(cdptypes.StoreKey))
	iter := func(prefix []byte, f func(k, v []byte)) {
		it := sdk.KVStorePrefixIterator(store, prefix)
		defer it.Close()
		for ; it.Valid(); it.Next() {
			f(it.Key()[len(prefix):], it.Value())
		}
	}
	tIdx := func(name string, what string) int {
		i, ok := w.typeIdx[name]
		if !ok {
			s.Bad = append(s.Bad, what+": unknown collateral type "+name)
			return 99
		}
		return i
	}
	iter(cdptypes.CdpKeyPrefix, func(k, v []byte) {
		var c cdptypes.CDP
		if err := cdc.Unmarshal(v, &c); err != nil {
			s.Bad = append(s.Bad, "cdp row undecodable")
			return
		}
		kt, kid := cdptypes.SplitCdpKey(k)
		if kt != c.Type || kid != c.ID {
			s.Bad = append(s.Bad, fmt.Sprintf("cdp key (%s,%d) holds cdp (%s,%d)", kt, kid, c.Type, c.ID))
		}
		s.Cdps = append(s.Cdps, CdpRow{tIdx(c.Type, "cdp"), int(c.ID), w.idxOf(c.Owner, &s.Bad, "cdp owner"),
			c.Collateral.Amount.BigInt(), c.Principal.Amount.BigInt(), c.AccumulatedFees.Amount.BigInt(),
			c.FeesUpdated.UnixNano(), Mant(c.InterestFactor)})
	})
	iter(cdptypes.DepositKeyPrefix, func(k, v []byte) {
		var d cdptypes.Deposit
		if err := cdc.Unmarshal(v, &d); err != nil {
			s.Bad = append(s.Bad, "deposit row undecodable")
			return
		}
		kid, kaddr := cdptypes.SplitDepositKey(k)
		if kid != d.CdpID || !bytes.Equal(kaddr, d.Depositor) {
			s.Bad = append(s.Bad, fmt.Sprintf("deposit key (%d,%s) holds deposit (%d,%s)", kid, sdk.AccAddress(kaddr), d.CdpID, d.Depositor))
		}
		s.Deps = append(s.Deps, DepRow{int(d.CdpID), w.idxOf(d.Depositor, &s.Bad, "depositor"), d.Amount.Amount.BigInt()})
	})
	iter(cdptypes.CdpIDKeyPrefix, func(k, v []byte) {
		var ix cdptypes.OwnerCDPIndex
		if err := cdc.Unmarshal(v, &ix); err != nil {
			s.Bad = append(s.Bad, "owner index row undecodable")
			return
		}
		row := []int{w.idxOf(sdk.AccAddress(k), &s.Bad, "owner index")}
		for _, id := range ix.CdpIDs {
			row = append(row, int(id))
		}
		if len(ix.CdpIDs) == 0 {
			s.Bad = append(s.Bad, "owner index row with no ids")
		}
		s.Oidx = append(s.Oidx, row)
	})
	iter(cdptypes.CollateralRatioIndexPrefix, func(k, v []byte) {
		t, id, ratio := cdptypes.SplitCollateralRatioKey(k)
		if len(v) != 8 || binary.BigEndian.Uint64(v) != id {
			s.Bad = append(s.Bad, fmt.Sprintf("ratio index key of cdp %d holds value %x", id, v))
		}
		s.Ridx = append(s.Ridx, RidxRow{tIdx(t, "ratio index"), Mant(ratio), int(id)})
	})
	for _, tc := range w.Cfg.Types {
		s.TPrin = append(s.TPrin, w.K.GetTotalPrincipal(ctx, tc.Name, "usdx").BigInt())
		if f, ok := w.K.GetInterestFactor(ctx, tc.Name); ok {
			s.Ifac = append(s.Ifac, Mant(f))
		} else {
			s.Ifac = append(s.Ifac, big.NewInt(-1))
		}
		if t, ok := w.K.GetPreviousAccrualTime(ctx, tc.Name); ok {
			s.PTime = append(s.PTime, t.UnixNano())
		} else {
			s.PTime = append(s.PTime, -1)
		}
	}
	s.NextID = int(w.K.GetNextCdpID(ctx))
	pk := w.App.GetPriceFeedKeeper()
	for _, m := range Markets {
		s.Status = append(s.Status, w.K.GetMarketStatus(ctx, m))
		if p, err := pk.GetCurrentPrice(ctx, m); err == nil {
			s.Price = append(s.Price, Mant(p.Price))
		} else {
			s.Price = append(s.Price, new(big.Int))
		}
	}
	bk := w.App.GetBankKeeper()
	for a := 0; a < NAcc; a++ {
		row := make([]*big.Int, len(Denoms))
		for d, dn := range Denoms {
			row[d] = bk.GetBalance(ctx, w.Addrs[a], dn).Amount.BigInt()
		}
		s.Bal = append(s.Bal, row)
	}
	for _, dn := range Denoms {
		s.Sup = append(s.Sup, bk.GetSupply(ctx, dn).Amount.BigInt())
	}
	dIdx := func(dn string) int {
		for i, x := range Denoms {
			if x == dn {
				return i
			}
		}
		s.Bad = append(s.Bad, "auction with unknown denom "+dn)
		return 99
	}
	aks := w.App.GetAuctionKeeper()
	next := w.nextAuc
	aks.IterateAuctions(ctx, func(a auctiontypes.Auction) bool {
		if a.GetID() < w.nextAuc {
			return false
		}
		if a.GetID() >= next {
			next = a.GetID() + 1
		}
		switch x := a.(type) {
		case *auctiontypes.CollateralAuction:
			ret := 99
			if len(x.LotReturns.Addresses) == 1 && x.LotReturns.Weights[0].Equal(x.Lot.Amount) {
				ret = w.idxOf(x.LotReturns.Addresses[0], &s.Bad, "auction return address")
			} else {
				s.Bad = append(s.Bad, "collateral auction without a single full-weight return address")
			}
			if x.Initiator != cdptypes.LiquidatorMacc || x.CorrespondingDebt.Denom != "debt" || x.MaxBid.Denom != "usdx" {
				s.Bad = append(s.Bad, "collateral auction with unexpected initiator or denoms")
			}
			s.Aucs = append(s.Aucs, AucRow{0, dIdx(x.Lot.Denom), x.Lot.Amount.BigInt(), x.MaxBid.Amount.BigInt(), x.CorrespondingDebt.Amount.BigInt(), ret})
		case *auctiontypes.DebtAuction:
			s.Aucs = append(s.Aucs, AucRow{1, dIdx(x.Lot.Denom), x.Lot.Amount.BigInt(), x.Bid.Amount.BigInt(), x.CorrespondingDebt.Amount.BigInt(), 0})
		case *auctiontypes.SurplusAuction:
			s.Aucs = append(s.Aucs, AucRow{2, dIdx(x.Lot.Denom), x.Lot.Amount.BigInt(), new(big.Int), new(big.Int), 0})
		}
		return false
	})
	w.nextAuc = next
	return s
}

func ErrKind(err error) string {
	if err == nil {
		return "none"
	}
	m := err.Error()
	lm := strings.ToLower(m)
	for _, kv := range [][2]string{{"no price found", "pricefeed-down"}, {"not below liquidation ratio", "not-liquidatable"},
		{"below liquidation ratio", "collateral-ratio"}, {"cdp not found", "cdp-not-found"}, {"already exists", "already-exists"},
		{"exceed debt limit", "debt-limit"}, {"below minimum", "debt-floor"}, {"insufficient", "insufficient-funds"},
		{"deposit not found", "deposit-not-found"}, {"withdrawal amount", "withdraw-exceeds-deposit"}, {"invalid coins", "invalid-coins"},
		{"collateral not supported", "collateral-not-supported"}, {"invalid collateral", "invalid-collateral"},
		{"only one principal", "invalid-debt-denom"}, {"invalid payment", "invalid-payment"}, {"debt not supported", "debt-not-supported"},
		{"no valid price", "no-valid-price"}, {"prices are expired", "no-valid-price"}, {"account not found", "account-not-found"}, {"panic", "panic"}} {
		if strings.Contains(lm, kv[0]) {
			return kv[1]
		}
	}
	return "other"
}
