package cdpcommon

import (
	. "kavaverif/lib"

	"fmt"
	"math/big"

	sdkmath "cosmossdk.io/math"
	sdk "github.com/cosmos/cosmos-sdk/types"
)

// ------------------------------------------------------------ decimal helpers (re-implemented from the spec, used by generators and monitors)

func toBase(x *big.Int, cf int64) sdk.Dec {
	return sdk.NewDecFromBigInt(x).Mul(sdk.NewDecFromIntWithPrec(sdk.OneInt(), cf))
}

// decRatio is the value ratio in the implementation's own fixed-point formulation.
func decRatio(coll *big.Int, cfc int64, debt *big.Int, cfd int64, price sdk.Dec) (sdk.Dec, bool) {
	if coll.Sign() == 0 {
		return sdk.ZeroDec(), true
	}
	d := toBase(debt, cfd)
	if d.IsZero() {
		return sdk.Dec{}, false
	}
	return toBase(coll, cfc).Mul(price).Quo(d), true
}

// exactRatio is the value ratio as an exact rational.
func exactRatio(coll *big.Int, cfc int64, debt *big.Int, cfd int64, priceMant *big.Int) *big.Rat {
	num := new(big.Int).Mul(coll, priceMant)
	num.Mul(num, Pow10(int(cfd)))
	den := new(big.Int).Mul(debt, Pow10(18))
	den.Mul(den, Pow10(int(cfc)))
	if den.Sign() == 0 {
		return nil
	}
	return new(big.Rat).SetFrac(num, den)
}

func ratOfDec(s string) *big.Rat {
	return new(big.Rat).SetFrac(Mant(decOf(s)), Pow10(18))
}

// syncedDebt: principal + fees + the interest a synchronisation at global factor gf would add.
func syncedDebt(c CdpRow, gf *big.Int) *big.Int {
	tot := new(big.Int).Add(c.Prin, c.Fees)
	if gf == nil || gf.Sign() <= 0 || c.Ifac.Sign() <= 0 {
		return tot
	}
	f := sdk.NewDecFromBigIntWithPrec(gf, 18).Quo(sdk.NewDecFromBigIntWithPrec(c.Ifac, 18))
	if f.Equal(sdk.OneDec()) {
		return tot
	}
	return sdk.NewDecFromBigInt(tot).Mul(f).RoundInt().BigInt()
}

// maxDebtAtRatio: the largest debt for which decRatio(coll, debt) >= liq (binary search; 0 if none).
func maxDebtAtRatio(coll *big.Int, cfc, cfd int64, price, liq sdk.Dec) *big.Int {
	ok := func(d *big.Int) bool {
		if d.Sign() <= 0 {
			return true
		}
		r, fine := decRatio(coll, cfc, d, cfd, price)
		return fine && r.GTE(liq)
	}
	lo, hi := big.NewInt(0), big.NewInt(1)
	for ok(hi) && hi.BitLen() < 200 {
		lo.Set(hi)
		hi.Lsh(hi, 1)
	}
	for new(big.Int).Sub(hi, lo).Cmp(big.NewInt(1)) > 0 {
		mid := new(big.Int).Add(lo, hi)
		mid.Rsh(mid, 1)
		if ok(mid) {
			lo = mid
		} else {
			hi = mid
		}
	}
	return lo
}

// minCollAtRatio: the smallest collateral for which decRatio(coll, debt) >= liq.
func minCollAtRatio(debt *big.Int, cfc, cfd int64, price, liq sdk.Dec) *big.Int {
	ok := func(c *big.Int) bool {
		r, fine := decRatio(c, cfc, debt, cfd, price)
		return fine && c.Sign() > 0 && r.GTE(liq)
	}
	lo, hi := big.NewInt(0), big.NewInt(1)
	for !ok(hi) && hi.BitLen() < 200 {
		lo.Set(hi)
		hi.Lsh(hi, 1)
	}
	for new(big.Int).Sub(hi, lo).Cmp(big.NewInt(1)) > 0 {
		mid := new(big.Int).Add(lo, hi)
		mid.Rsh(mid, 1)
		if ok(mid) {
			hi = mid
		} else {
			lo = mid
		}
	}
	return hi
}

// ------------------------------------------------------------ configuration

var liqChoices = []string{"1.5", "2.0", "1.1", "1.333333333333333333", "2.25", "1.500000000000000001", "3.0"}
var feeChoices = []string{"1.0", "1.000000001547125958", "1.000000051034942716", "1.000000000782997609", "1.000000001547125958"}
var penChoices = []string{"0.05", "0.075", "0.0", "0.133333333333333333"}
var rewardChoices = []string{"0.01", "0.0", "0.0005", "0.25"}
var priceChoices = []string{"0.5", "1.0", "0.25", "17.25", "0.333333333333333333", "2.0", "0.7", "8000.0", "0.03"}

// GenConfig draws a configuration; mode "c05" favours the liquidation-boundary parameters.
func GenConfig(r *Rng, mode string) Config {
	pick := func(xs []string) string { return xs[r.Intn(len(xs))] }
	cfs := []int64{6, 8, 6, 8, 0, 18}
	mk := func(name string, denom, spot, liqm int) TypeCfg {
		return TypeCfg{Name: name, Denom: denom, Liq: pick(liqChoices), Limit: "100000000000000", Fee: pick(feeChoices),
			ASize: []string{"5000000000", "10000000000", "700000001", "50000000000000"}[r.Intn(4)], Pen: pick(penChoices), Spot: spot, LiqM: liqm,
			Reward: pick(rewardChoices), Count: []int64{10, 10, 1, 2, 0}[r.Intn(5)], CF: cfs[r.Intn(len(cfs))],
			GenFac: !r.Chance(1, 6), GenTime: r.Chance(1, 2)}
	}
	cfg := Config{
		Types:     []TypeCfg{mk("bnb-a", DBnb, 0, 1), mk("bnb-b", DBnb, 0, 1), mk("xrp-a", DXrp, 2, 3)},
		DebtCF:    6,
		DebtFloor: []string{"1", "10000000", "1000"}[r.Intn(3)],
		GlobalLim: "400000000000000",
		SurThr:    []string{"500000", "500000000000"}[r.Intn(2)], SurLot: "300000",
		DebtThr: []string{"20000000", "100000000000", "1"}[r.Intn(3)], DebtLot: "10000000",
		Interval:  []int64{1, 1, 2, 3}[r.Intn(4)],
		UserFunds: []string{"200000000000", "0", "1000000000", "2000000000000", "200000000000"},
	}
	if cfg.DebtThr == "1" {
		cfg.DebtLot = "1" // a single left-over debt coin in the liquidator account starts a debt auction
	}
	cfg.Types[1].CF = cfg.Types[0].CF // the two bnb types share the denom, hence the conversion factor
	if r.Chance(1, 8) {
		cfg.Types[2].Limit = "60000000" // a tight per-collateral debt limit
	}
	if r.Chance(1, 10) {
		cfg.GlobalLim = "90000000"
		for i := range cfg.Types {
			cfg.Types[i].Limit = "30000000"
		}
	}
	if r.Chance(1, 5) {
		// keeper-liquidation histories: the block-level liquidator never runs, cdps get third-party deposits,
		// prices drop, keepers liquidate; the reward percentage is positive so that it is deducted from a deposit
		cfg.KeeperFocus = true
		cfg.Interval = 1000
		for i := range cfg.Types {
			cfg.Types[i].Reward = []string{"0.01", "0.0005", "0.25", "0.05"}[r.Intn(4)]
		}
	}
	pb, px := pick(priceChoices), pick(priceChoices)
	cfg.Prices = []string{pb, pb, px, px}
	if r.Chance(1, 4) {
		cfg.Prices[1] = pick(priceChoices) // liquidation market differs from spot
	}
	if r.Chance(1, 12) {
		cfg.Prices[r.Intn(4)] = "0" // a market without a price at genesis
	}
	if (mode == "c05" && r.Chance(3, 4)) || r.Chance(1, 3) {
		// the textbook boundary parameters: cf 6/6, floor 1, every-block liquidation
		cfg.Types[2].CF, cfg.Types[2].Liq, cfg.DebtFloor = 6, pick([]string{"1.5", "1.5", "1.1", "3.0"}), "1"
		if !cfg.KeeperFocus {
			cfg.Interval = 1
		}
		cfg.Types[2].Count = 10
		if r.Chance(2, 3) {
			p := pick([]string{"0.5", "1.0", "0.7", "0.333333333333333333"})
			cfg.Prices[2], cfg.Prices[3] = p, p
		}
	}
	return cfg
}

// WitnessConfig is the fixed configuration of the two known-finding histories.
func WitnessConfig(price string) Config {
	t := func(name string, denom, spot, liqm int, cf int64) TypeCfg {
		return TypeCfg{Name: name, Denom: denom, Liq: "1.5", Limit: "100000000000000", Fee: "1.000000001547125958", ASize: "10000000",
			Pen: "0.05", Spot: spot, LiqM: liqm, Reward: "0.01", Count: 10, CF: cf, GenFac: true, GenTime: true}
	}
	return Config{Types: []TypeCfg{t("bnb-a", DBnb, 0, 1, 8), t("bnb-b", DBnb, 0, 1, 8), t("xrp-a", DXrp, 2, 3, 6)},
		DebtCF: 6, DebtFloor: "1", GlobalLim: "400000000000000", SurThr: "500000000000", SurLot: "10000000000",
		DebtThr: "100000000000", DebtLot: "10000000000", Interval: 1,
		Prices:    []string{"17.25", "17.25", price, price},
		UserFunds: []string{"100000000000000", "0", "1000000000", "2000000000000", "100000000000000"}}
}

// ------------------------------------------------------------ operations

type Gen struct {
	R    *Rng
	W    *World
	Mode string
	Cnt  *Counters
}

func (g *Gen) small() *big.Int { return big.NewInt(int64(1 + g.R.Intn(20))) }

func (g *Gen) jitter(x *big.Int) *big.Int {
	y := new(big.Int).Add(x, big.NewInt(int64(g.R.Intn(5)-2)))
	if y.Sign() <= 0 {
		y.SetInt64(1)
	}
	return y
}

// below: x - {0,1,2} mostly, x + 1 sometimes (upper bounds: mostly on the accepted side)
func (g *Gen) below(x *big.Int) *big.Int {
	d := []int64{0, 0, 0, -1, -1, -2, 1, 2}[g.R.Intn(8)]
	y := new(big.Int).Add(x, big.NewInt(d))
	if y.Sign() <= 0 {
		y.SetInt64(1)
	}
	return y
}

func (g *Gen) collAmount(s *Snap, u, d int) *big.Int {
	r := g.R
	switch r.Pick(40, 20, 10, 8, 2, 20) {
	case 0:
		return big.NewInt(1_000_000 + r.Int63n(50_000_000_000))
	case 1:
		return g.jitter(Pow10(5 + r.Intn(7)))
	case 2:
		return g.jitter(s.Bal[u][d])
	case 3:
		return g.small()
	case 4:
		return r.BigBits(70 + r.Intn(100))
	default:
		return new(big.Int).Mul(big.NewInt(int64(1+r.Intn(60))), big.NewInt(1_000_000))
	}
}

func (g *Gen) price(s *Snap, m int) sdk.Dec { return sdk.NewDecFromBigIntWithPrec(s.Price[m], 18) }

func (g *Gen) pickCdp(s *Snap) (CdpRow, bool) {
	if len(s.Cdps) == 0 {
		return CdpRow{}, false
	}
	return s.Cdps[g.R.Intn(len(s.Cdps))], true
}

func (g *Gen) gf(s *Snap, t int) *big.Int {
	if t < len(s.Ifac) && s.Ifac[t].Sign() > 0 {
		return s.Ifac[t]
	}
	return nil
}

// GenOp draws the next operation from the current observed state.
func (g *Gen) GenOp(s *Snap) Op {
	r := g.R
	cfg := g.W.Cfg
	nT := len(cfg.Types)
	mal := r.Chance(7, 100)
	w := []int{14, 11, 12, 13, 14, 8, 24}
	if len(s.Cdps) == 0 {
		w = []int{50, 3, 3, 3, 3, 3, 20}
	}
	if g.Mode == "c05" {
		w[5] += 6
		w[6] += 8
	}
	if cfg.KeeperFocus && len(s.Cdps) > 0 {
		w = []int{8, 22, 4, 8, 4, 26, 28}
	}
	switch r.Pick(w...) {
	case 0: // create
		o, t := r.Intn(NUsers), r.Intn(nT)
		for try := 0; try < 6; try++ {
			if _, taken := s.cdpOf(o, t); !taken && s.Status[cfg.Types[t].Spot] && s.Status[cfg.Types[t].LiqM] {
				break
			}
			if r.Chance(1, 8) {
				break
			}
			o, t = r.Intn(NUsers), r.Intn(nT)
		}
		tc := cfg.Types[t]
		op := Op{Kind: "create", O: o, U: o, T: t, CD: tc.Denom, PD: DUsdx}
		coll := g.collAmount(s, o, tc.Denom)
		p := g.price(s, tc.Spot)
		var prin *big.Int
		bound := big.NewInt(0)
		if !p.IsZero() {
			bound = maxDebtAtRatio(coll, tc.CF, cfg.DebtCF, p, decOf(tc.Liq))
		}
		tight := new(big.Int).Sub(bigOf(tc.Limit), s.TPrin[t])
		wl := 0
		if tight.Cmp(bound) < 0 {
			wl = 25
		}
		if coll.Cmp(s.Bal[o][tc.Denom]) > 0 && r.Chance(5, 6) {
			coll = new(big.Int).Div(s.Bal[o][tc.Denom], big.NewInt(int64(2+r.Intn(6))))
			if coll.Sign() <= 0 {
				coll = big.NewInt(1)
			}
			if !p.IsZero() {
				bound = maxDebtAtRatio(coll, tc.CF, cfg.DebtCF, p, decOf(tc.Liq))
			}
		}
		switch r.Pick(40, 40, 8, wl, 4) {
		case 0:
			prin = g.below(bound)
		case 1:
			prin = new(big.Int).Div(new(big.Int).Mul(bound, big.NewInt(int64(20+r.Intn(75)))), big.NewInt(100))
			if r.Chance(1, 2) {
				prin.Or(prin, big.NewInt(1)) // odd debts split unevenly over deposits
			}
		case 2:
			prin = g.jitter(bigOf(cfg.DebtFloor))
		case 3:
			prin = g.below(tight)
		default:
			prin = g.small()
		}
		if prin.Cmp(bigOf(cfg.DebtFloor)) < 0 && r.Chance(4, 5) {
			prin = bigOf(cfg.DebtFloor)
		}
		if prin.Sign() <= 0 {
			prin = big.NewInt(1)
		}
		op.X, op.P = coll.String(), prin.String()
		if mal {
			switch r.Intn(6) {
			case 0:
				op.CD = DXrp - op.CD + DBnb // the other collateral denom
			case 1:
				op.T = nT
			case 2:
				op.O = NUsers
			case 3:
				op.PD = DGov
			case 4:
				op.X = "0"
			default:
				op.P = "0"
			}
		}
		return op
	case 1: // deposit
		c, ok := g.pickCdp(s)
		op := Op{Kind: "deposit", O: c.Owner, U: r.Intn(NUsers), T: c.T}
		if !ok {
			op.O, op.T = r.Intn(NUsers), r.Intn(nT)
		}
		if r.Chance(1, 2) && !(cfg.KeeperFocus && r.Chance(3, 4)) {
			op.U = op.O
		}
		op.CD = cfg.Types[op.T].Denom
		x := g.collAmount(s, op.U, op.CD)
		if ok && (r.Chance(1, 3) || (cfg.KeeperFocus && r.Chance(2, 3))) {
			// the same amount as an existing deposit: equal shares at seizure
			for _, d := range s.Deps {
				if d.ID == c.ID {
					x = new(big.Int).Set(d.Amt)
					break
				}
			}
		}
		if op.U < NUsers && x.Cmp(s.Bal[op.U][op.CD]) > 0 && r.Chance(5, 6) {
			x = new(big.Int).Div(s.Bal[op.U][op.CD], big.NewInt(int64(2+r.Intn(6))))
			if x.Sign() <= 0 {
				x = big.NewInt(1)
			}
		}
		op.X = x.String()
		if mal {
			switch r.Intn(5) {
			case 0:
				op.CD = DXrp - op.CD + DBnb
			case 1:
				op.T = nT
			case 2:
				op.O = (op.O + 1) % NUsers
			case 3:
				op.X = "0"
			default:
				op.U = NUsers
			}
		}
		return op
	case 2: // withdraw
		c, ok := g.pickCdp(s)
		op := Op{Kind: "withdraw", O: c.Owner, U: c.Owner, T: c.T}
		if !ok {
			op.O, op.T = r.Intn(NUsers), r.Intn(nT)
		}
		tc := cfg.Types[op.T]
		op.CD = tc.Denom
		dep := big.NewInt(0)
		var mine []DepRow
		for _, d := range s.Deps {
			if d.ID == c.ID {
				mine = append(mine, d)
			}
		}
		if len(mine) > 0 {
			d := mine[r.Intn(len(mine))]
			op.U, dep = d.U, d.Amt
		}
		var x *big.Int
		p := g.price(s, tc.Spot)
		switch r.Pick(45, 20, 20, 15) {
		case 0:
			if ok && !p.IsZero() {
				minc := minCollAtRatio(syncedDebt(c, g.gf(s, c.T)), tc.CF, cfg.DebtCF, p, decOf(tc.Liq))
				x = g.below(new(big.Int).Sub(c.Coll, minc))
				if x.Cmp(dep) > 0 && r.Chance(3, 4) {
					x = new(big.Int).Set(dep)
				}
			} else {
				x = g.small()
			}
		case 1:
			x = g.below(dep)
		case 2:
			x = new(big.Int).Div(dep, big.NewInt(int64(2+r.Intn(8))))
			if ok && !p.IsZero() {
				minc := minCollAtRatio(syncedDebt(c, g.gf(s, c.T)), tc.CF, cfg.DebtCF, p, decOf(tc.Liq))
				if room := new(big.Int).Sub(c.Coll, minc); room.Sign() > 0 && x.Cmp(room) > 0 {
					x = new(big.Int).Div(room, big.NewInt(int64(1+r.Intn(4))))
				}
			}
		default:
			x = g.small()
		}
		if x.Sign() <= 0 {
			x = big.NewInt(1)
		}
		op.X = x.String()
		if mal {
			switch r.Intn(4) {
			case 0:
				op.CD = DXrp - op.CD + DBnb
			case 1:
				op.U = (op.U + 1 + r.Intn(NUsers-1)) % NUsers
			case 2:
				op.X = "0"
			default:
				op.T = nT
			}
		}
		return op
	case 3: // draw
		c, ok := g.pickCdp(s)
		op := Op{Kind: "draw", O: c.Owner, U: c.Owner, T: c.T, PD: DUsdx}
		if !ok {
			op.O, op.T = r.Intn(NUsers), r.Intn(nT)
		}
		tc := cfg.Types[op.T]
		var x *big.Int
		p := g.price(s, tc.Spot)
		switch r.Pick(50, 20, 15, 15) {
		case 0:
			if ok && !p.IsZero() {
				bound := maxDebtAtRatio(c.Coll, tc.CF, cfg.DebtCF, p, decOf(tc.Liq))
				x = g.below(new(big.Int).Sub(bound, syncedDebt(c, g.gf(s, c.T))))
			} else {
				x = g.small()
			}
		case 1:
			x = big.NewInt(1 + r.Int63n(3_000_000))
			if ok && !p.IsZero() {
				bound := maxDebtAtRatio(c.Coll, tc.CF, cfg.DebtCF, p, decOf(tc.Liq))
				if room := new(big.Int).Sub(bound, syncedDebt(c, g.gf(s, c.T))); room.Sign() > 0 {
					x = new(big.Int).Div(room, big.NewInt(int64(1+r.Intn(5))))
				}
			}
		case 2:
			x = g.below(new(big.Int).Sub(bigOf(tc.Limit), s.TPrin[op.T]))
		default:
			x = g.small()
		}
		if x.Sign() <= 0 {
			x = big.NewInt(1)
		}
		op.X = x.String()
		if mal {
			switch r.Intn(3) {
			case 0:
				op.PD = DGov
			case 1:
				op.X = "0"
			default:
				op.T = nT
			}
		}
		return op
	case 4: // repay
		c, ok := g.pickCdp(s)
		op := Op{Kind: "repay", O: c.Owner, U: c.Owner, T: c.T, PD: DUsdx}
		if !ok {
			op.O, op.T = r.Intn(NUsers), r.Intn(nT)
		}
		var x *big.Int
		if ok {
			tot := syncedDebt(c, g.gf(s, c.T))
			fees := new(big.Int).Sub(tot, c.Prin)
			switch r.Pick(25, 15, 15, 15, 15, 15) {
			case 0:
				x = new(big.Int).Set(tot)
			case 1:
				x = new(big.Int).Add(tot, big.NewInt(1+r.Int63n(1000)))
			case 2:
				x = g.jitter(fees)
			case 3:
				x = g.jitter(new(big.Int).Sub(c.Prin, bigOf(cfg.DebtFloor)))
				if r.Chance(1, 2) {
					x.Add(x, fees)
				}
			case 4:
				x = new(big.Int).Div(tot, big.NewInt(int64(2+r.Intn(5))))
			default:
				x = g.jitter(tot)
			}
		} else {
			x = g.small()
		}
		if x.Sign() <= 0 {
			x = big.NewInt(1)
		}
		op.X = x.String()
		if mal {
			switch r.Intn(3) {
			case 0:
				op.PD = DGov
			case 1:
				op.X = "0"
			default:
				op.X = new(big.Int).Add(s.Bal[op.O%NUsers][DUsdx], big.NewInt(1)).String()
			}
		}
		return op
	case 5: // keeper liquidation
		c, ok := g.pickCdp(s)
		var low []CdpRow
		for _, x := range s.Cdps {
			tc := cfg.Types[x.T]
			if rr := exactRatio(x.Coll, tc.CF, syncedDebt(x, g.gf(s, x.T)), cfg.DebtCF, s.Price[tc.LiqM]); rr != nil && s.Price[tc.LiqM].Sign() > 0 && rr.Cmp(ratOfDec(tc.Liq)) < 0 {
				low = append(low, x)
			}
		}
		// cdps whose 18-decimal ratio is within a few ulps of the liquidation ratio (the keeper gate's boundary)
		var edge []CdpRow
		for _, x := range s.Cdps {
			tc := cfg.Types[x.T]
			if s.Price[tc.LiqM].Sign() == 0 {
				continue
			}
			if dr, ok2 := decRatio(x.Coll, tc.CF, syncedDebt(x, g.gf(s, x.T)), cfg.DebtCF, g.price(s, tc.LiqM)); ok2 {
				if d := new(big.Int).Sub(Mant(dr), Mant(decOf(tc.Liq))); d.CmpAbs(big.NewInt(4)) <= 0 {
					edge = append(edge, x)
				}
			}
		}
		if len(edge) > 0 && r.Chance(2, 3) {
			c = edge[r.Intn(len(edge))]
			if g.Cnt != nil {
				g.Cnt.Inc("gen:keeper-liquidation-at-boundary")
			}
		} else if len(low) > 0 && r.Chance(4, 5) {
			c = low[r.Intn(len(low))]
		} else if r.Chance(2, 3) {
			return g.blockOp(s)
		}
		op := Op{Kind: "liquidate", O: c.Owner, U: r.Intn(NUsers), T: c.T}
		for try := 0; try < 4; try++ { // prefer a keeper who is not a depositor of the cdp
			isDep := false
			for _, d := range s.Deps {
				if d.ID == c.ID && d.U == op.U {
					isDep = true
				}
			}
			if !isDep {
				break
			}
			op.U = r.Intn(NUsers)
		}
		if !ok || mal {
			op.O, op.T = r.Intn(NUsers+1), r.Intn(nT+1)
		}
		return op
	default: // next block
		return g.blockOp(s)
	}
}

func (g *Gen) blockOp(s *Snap) Op {
	r := g.R
	{
		op := Op{Kind: "block"}
		base := []int64{1, 1, 5, 6, 60, 3600, 86400, 2592000, 7}[r.Intn(9)]
		op.Dt = base * 1_000_000_000
		if r.Chance(1, 6) {
			op.Dt += []int64{500_000_000, 499_999_999, 500_000_001, 1}[r.Intn(4)]
		}
		if r.Chance(1, 25) {
			op.Dt = []int64{1, 400_000_000, 500_000_000}[r.Intn(3)]
		}
		if r.Chance(55, 100) {
			op.Prices = g.genPrices(s)
		}
		return op
	}
}

func (g *Gen) genPrices(s *Snap) [][2]string {
	r := g.R
	cfg := g.W.Cfg
	var out [][2]string
	set := func(m int, p *big.Int) {
		if p.Sign() < 0 {
			p = new(big.Int)
		}
		for i := range out {
			if out[i][0] == fmt.Sprint(m) {
				out[i][1] = p.String()
				return
			}
		}
		out = append(out, [2]string{fmt.Sprint(m), p.String()})
	}
	pair := r.Intn(2) * 2 // bnb markets 0,1 or xrp markets 2,3
	cur := s.Price[pair+1]
	if cur.Sign() == 0 {
		cur = s.Price[pair]
	}
	pw := []int{30, 40, 10, 12, 8}
	if cfg.KeeperFocus {
		pw = []int{10, 70, 10, 4, 6}
	}
	switch r.Pick(pw...) {
	case 0: // random move of both markets
		var np *big.Int
		if cur.Sign() == 0 {
			np = Mant(decOf(priceChoices[r.Intn(len(priceChoices))]))
		} else {
			np = new(big.Int).Div(new(big.Int).Mul(cur, big.NewInt(int64(300+r.Intn(1200)))), big.NewInt(1000))
		}
		set(pair, np)
		set(pair+1, np)
	case 1: // aimed at one cdp's liquidation boundary: price = liq * debt / collateral, +- a few ulps
		var cands []CdpRow
		for _, c := range s.Cdps {
			if cfg.Types[c.T].LiqM == pair+1 {
				cands = append(cands, c)
			}
		}
		if len(cands) == 0 {
			return nil
		}
		c := cands[r.Intn(len(cands))]
		tc := cfg.Types[c.T]
		debt := syncedDebt(c, g.gf(s, c.T))
		cb := toBase(c.Coll, tc.CF)
		if cb.IsZero() || debt.Sign() == 0 {
			return nil
		}
		p := decOf(tc.Liq).Mul(toBase(debt, cfg.DebtCF)).Quo(cb)
		np := new(big.Int).Add(Mant(p), big.NewInt(int64(r.Intn(7)-3)))
		if r.Chance(1, 4) || (cfg.KeeperFocus && r.Chance(3, 4)) {
			np.Div(new(big.Int).Mul(np, big.NewInt(int64(60+r.Intn(39)))), big.NewInt(100)) // clearly below
		}
		if np.Sign() <= 0 {
			np = big.NewInt(1)
		}
		set(pair+1, np)
		if r.Chance(3, 4) {
			set(pair, np)
		}
	case 2: // only the liquidation market moves
		if cur.Sign() == 0 {
			return nil
		}
		set(pair+1, new(big.Int).Div(new(big.Int).Mul(cur, big.NewInt(int64(300+r.Intn(1000)))), big.NewInt(1000)))
	case 3: // a feed goes down
		set(pair+r.Intn(2), new(big.Int))
	default: // feeds come back
		np := Mant(decOf(priceChoices[r.Intn(len(priceChoices))]))
		set(pair, np)
		set(pair+1, np)
	}
	return out
}

var _ = sdkmath.NewInt
