package cdpcommon

import (
	. "kavaverif/lib"

	"fmt"
	"math/big"
	"strings"

	sdk "github.com/cosmos/cosmos-sdk/types"
	cdptypes "github.com/kava-labs/kava/x/cdp/types"
)

// Monitors state the properties directly on the implementation's observable
// state.  They use only raw snapshots, exact rationals and the decimal helpers
// of gen.go — not the Coq model.

type Finding struct{ Pred, Sig, Detail string }

func eq(a, b *big.Int) bool { return a.Cmp(b) == 0 }

func (s *Snap) cdpByID(id int) (CdpRow, bool) {
	for _, c := range s.Cdps {
		if c.ID == id {
			return c, true
		}
	}
	return CdpRow{}, false
}

func (s *Snap) cdpOf(o, t int) (CdpRow, bool) {
	for _, c := range s.Cdps {
		if c.Owner == o && c.T == t {
			return c, true
		}
	}
	return CdpRow{}, false
}

func (s *Snap) depsOf(id int) []DepRow {
	var out []DepRow
	for _, d := range s.Deps {
		if d.ID == id {
			out = append(out, d)
		}
	}
	return out
}

// Tol is the history variable of the total-principal bound proved in coq/Proofs/CdpTotal.v
// (total_principal_bound, ghostN): per collateral type a count N of roundings.  It moves only at an
// operation that changes the type's global interest factor (a block in which AccumulateInterest accrued),
// and then by (stored cdps of the type) + 1 + (4*stored debt + N)/10^18, all read before the operation.
// The bound checked after every operation is |total principal - sum of synchronised debt| * 10^18 <= factor * N.
type Tol struct{ N []*big.Int }

func gfacOf(s *Snap, t int) *big.Int {
	if s.Ifac[t].Sign() > 0 {
		return s.Ifac[t]
	}
	return Pow10(18)
}

// Step advances the count over one operation (prev = state before, after = state after).
func (tol *Tol) Step(prev, after *Snap) {
	for len(tol.N) < len(prev.TPrin) {
		tol.N = append(tol.N, new(big.Int))
	}
	for t := range prev.TPrin {
		if gfacOf(prev, t).Cmp(gfacOf(after, t)) == 0 {
			continue
		}
		live, sdebt := int64(0), new(big.Int)
		for _, c := range prev.Cdps {
			if c.T == t {
				live++
				sdebt.Add(sdebt, c.Prin)
				sdebt.Add(sdebt, c.Fees)
			}
		}
		extra := new(big.Int).Mul(sdebt, big.NewInt(4))
		extra.Add(extra, tol.N[t])
		extra.Div(extra, Pow10(18))
		tol.N[t].Add(tol.N[t], big.NewInt(live+1))
		tol.N[t].Add(tol.N[t], extra)
	}
}

// InvariantsC04: custody, per-cdp collateral, both indexes, debt accounting.
func (w *World) InvariantsC04(s *Snap, tol *Tol) *Finding {
	cfg := w.Cfg
	if len(s.Bad) > 0 {
		return &Finding{"raw-store-wellformed", "raw-store-anomaly", strings.Join(s.Bad, "; ")}
	}
	// (1) module account holds exactly the sum of all recorded deposits of each collateral
	sumDep := map[int]*big.Int{}
	for _, d := range s.Deps {
		c, ok := s.cdpByID(d.ID)
		if !ok {
			return &Finding{"deposits-belong-to-cdps", "orphan-deposit", fmt.Sprintf("deposit of user %d on missing cdp %d", d.U, d.ID)}
		}
		dn := cfg.Types[c.T].Denom
		if sumDep[dn] == nil {
			sumDep[dn] = new(big.Int)
		}
		sumDep[dn].Add(sumDep[dn], d.Amt)
		if d.Amt.Sign() < 0 {
			return &Finding{"deposits-nonnegative", "negative-deposit", fmt.Sprint(d)}
		}
	}
	for _, dn := range []int{DBnb, DXrp} {
		want := sumDep[dn]
		if want == nil {
			want = new(big.Int)
		}
		if !eq(s.Bal[CDPM][dn], want) {
			return &Finding{"custody", "module-balance-differs-from-deposits", fmt.Sprintf("%s: module holds %s, deposits sum to %s", Denoms[dn], s.Bal[CDPM][dn], want)}
		}
	}
	// (2) each cdp's collateral is the sum of its deposits
	ids := map[int]int{}
	for _, c := range s.Cdps {
		sum := new(big.Int)
		for _, d := range s.depsOf(c.ID) {
			sum.Add(sum, d.Amt)
		}
		if !eq(sum, c.Coll) {
			return &Finding{"cdp-collateral-is-sum-of-deposits", "cdp-collateral-differs-from-deposits", fmt.Sprintf("cdp %d: collateral %s, deposits %s", c.ID, c.Coll, sum)}
		}
		ids[c.ID]++
		if ids[c.ID] > 1 {
			return &Finding{"cdp-ids-unique", "duplicate-cdp-id", fmt.Sprint(c.ID)}
		}
		if c.ID >= s.NextID {
			return &Finding{"cdp-ids-below-next", "cdp-id-not-below-next-id", fmt.Sprint(c.ID)}
		}
	}
	// (3) owner index: each cdp exactly once, under its owner
	seen := map[int]int{}
	for _, row := range s.Oidx {
		for i, id := range row[1:] {
			c, ok := s.cdpByID(id)
			if !ok || c.Owner != row[0] {
				return &Finding{"owner-index-exact", "owner-index-stale-entry", fmt.Sprintf("owner %d lists cdp %d", row[0], id)}
			}
			if i > 0 && row[i] >= id {
				return &Finding{"owner-index-sorted", "owner-index-unsorted", fmt.Sprint(row)}
			}
			seen[id]++
		}
	}
	for _, c := range s.Cdps {
		if seen[c.ID] != 1 {
			return &Finding{"owner-index-exact", "owner-index-missing-or-duplicate", fmt.Sprintf("cdp %d appears %d times", c.ID, seen[c.ID])}
		}
	}
	// (4) ratio index: each cdp exactly once, under the ratio recomputed from the stored record
	seenR := map[int]int{}
	for _, e := range s.Ridx {
		c, ok := s.cdpByID(e.ID)
		if !ok || c.T != e.T {
			return &Finding{"ratio-index-exact", "ratio-index-stale-entry", fmt.Sprintf("entry (%d,%s,%d) without cdp", e.T, e.Ratio, e.ID)}
		}
		tc := cfg.Types[c.T]
		want := w.storedRatioKey(c, tc)
		if !eq(want, e.Ratio) {
			return &Finding{"ratio-index-exact", "ratio-index-wrong-ratio", fmt.Sprintf("cdp %d indexed under %s, stored record gives %s", c.ID, e.Ratio, want)}
		}
		seenR[e.ID]++
	}
	for _, c := range s.Cdps {
		if seenR[c.ID] != 1 {
			return &Finding{"ratio-index-exact", "ratio-index-missing-or-duplicate", fmt.Sprintf("cdp %d appears %d times", c.ID, seenR[c.ID])}
		}
	}
	// (5) stable coin issued by the module <= debt coin, all of it in the three module accounts
	debtHeld := new(big.Int).Add(s.Bal[CDPM][DDebt], s.Bal[LIQM][DDebt])
	debtHeld.Add(debtHeld, s.Bal[AUCM][DDebt])
	if !eq(debtHeld, s.Sup[DDebt]) {
		return &Finding{"debt-coin-in-module-accounts", "debt-coin-outside-module-accounts", fmt.Sprintf("supply %s held %s", s.Sup[DDebt], debtHeld)}
	}
	issued := new(big.Int).Sub(s.Sup[DUsdx], w.Usdx0)
	if issued.Cmp(debtHeld) > 0 {
		return &Finding{"stable-issued-le-debt", "stable-exceeds-debt", fmt.Sprintf("issued %s > debt coin %s", issued, debtHeld)}
	}
	// (6) total principal = sum of (synchronised) cdp debt up to interest rounding:
	// |total - sum| * 10^18 <= global factor * N  (the bound of C04_total_principal_all_histories)
	for t := range cfg.Types {
		sum := new(big.Int)
		for _, c := range s.Cdps {
			if c.T == t {
				sum.Add(sum, syncedDebt(c, gfOf(s, t)))
			}
		}
		n := new(big.Int)
		if t < len(tol.N) {
			n = tol.N[t]
		}
		diff := new(big.Int).Sub(s.TPrin[t], sum)
		lhs := new(big.Int).Mul(new(big.Int).Abs(diff), Pow10(18))
		rhs := new(big.Int).Mul(gfacOf(s, t), n)
		if lhs.Cmp(rhs) > 0 {
			return &Finding{"total-principal-tracks-debt", "total-principal-drift", fmt.Sprintf("type %d: total principal %s, sum of synchronised debt %s, interest factor %s, rounding count %s", t, s.TPrin[t], sum, gfacOf(s, t), n)}
		}
	}
	return nil
}

func gfOf(s *Snap, t int) *big.Int {
	if s.Ifac[t].Sign() > 0 {
		return s.Ifac[t]
	}
	return nil
}

// storedRatioKey recomputes the index key from a stored record (collateral / debt in base units, clipped).
func (w *World) storedRatioKey(c CdpRow, tc TypeCfg) *big.Int {
	maxS := Pow10(36)
	debt := toBase(new(big.Int).Add(c.Prin, c.Fees), w.Cfg.DebtCF)
	if debt.IsZero() || debt.GTE(cdptypes.MaxSortableDec) {
		return new(big.Int).Sub(maxS, big.NewInt(1))
	}
	r := Mant(toBase(c.Coll, tc.CF).Quo(debt))
	if r.Cmp(maxS) > 0 {
		return maxS
	}
	return r
}

func snapsEqual(a, b *Snap) string {
	if len(b.Aucs) > 0 {
		return "auctions started"
	}
	ra, rb := a.render(), b.render()
	for i := range ra {
		if ra[i] != rb[i] {
			return fmt.Sprintf("component %d changed", i)
		}
	}
	return ""
}

// rendering of each component, used for change detection and for the Coq terms
func (s *Snap) render() []string {
	var cd, dp, oi, ri, mi []string
	for _, c := range s.Cdps {
		cd = append(cd, List([]string{Zi(int64(c.T)), Zi(int64(c.ID)), Zi(int64(c.Owner)), Z(c.Coll), Z(c.Prin), Z(c.Fees), Zi(c.Upd), Z(c.Ifac)}))
	}
	for _, d := range s.Deps {
		dp = append(dp, List([]string{Zi(int64(d.ID)), Zi(int64(d.U)), Z(d.Amt)}))
	}
	for _, row := range s.Oidx {
		it := make([]string, len(row))
		for i, x := range row {
			it[i] = Zi(int64(x))
		}
		oi = append(oi, List(it))
	}
	for _, e := range s.Ridx {
		ri = append(ri, List([]string{Zi(int64(e.T)), Z(e.Ratio), Zi(int64(e.ID))}))
	}
	for t := range s.TPrin {
		mi = append(mi, List([]string{Z(s.TPrin[t]), Z(s.Ifac[t]), Zi(s.PTime[t])}))
	}
	mi = append(mi, List([]string{Zi(int64(s.NextID))}))
	st := make([]string, len(s.Status))
	for i, b := range s.Status {
		if b {
			st[i] = "1"
		} else {
			st[i] = "0"
		}
	}
	mi = append(mi, List(st))
	var bal, sup []string
	for _, row := range s.Bal {
		bal = append(bal, ZList(row))
	}
	sup = append(sup, ZList(s.Sup))
	return []string{List(cd), List(dp), List(oi), List(ri), List(mi), List(bal), List(sup)}
}

// StepC04: exact deltas of successful user operations, closing returns deposits,
// failed operations change nothing, conservation of collateral.
func (w *World) StepC04(op Op, cls Class, b, a *Snap) *Finding {
	cfg := w.Cfg
	if cls != ClassOk {
		if d := snapsEqual(b, a); d != "" {
			return &Finding{"failed-op-no-change", "failed-op-changed-state", d}
		}
		return nil
	}
	// collateral and gov coins are never minted or burned
	for _, dn := range []int{DBnb, DXrp, DGov} {
		if !eq(b.Sup[dn], a.Sup[dn]) {
			return &Finding{"collateral-conserved", "collateral-supply-changed", Denoms[dn]}
		}
	}
	if op.Kind == "liquidate" {
		// keeper liquidation: the whole collateral of the cdp leaves custody, the keeper gets the reward exactly once,
		// the rest goes to the auction module; nothing stays behind in the cdp module account
		c, ok := b.cdpOf(op.O, op.T)
		if !ok {
			return &Finding{"keeper-liquidation-needs-cdp", "liquidated-missing-cdp", ""}
		}
		dn := cfg.Types[op.T].Denom
		left := new(big.Int).Sub(b.Bal[CDPM][dn], a.Bal[CDPM][dn])
		if !eq(left, c.Coll) {
			return &Finding{"seized-collateral-leaves-custody", "keeper-liquidation-strands-collateral",
				fmt.Sprintf("cdp %d collateral %s, module account released %s", c.ID, c.Coll, left)}
		}
		reward := rewardOf(w, c)
		paid := false
		for _, d := range b.depsOf(c.ID) {
			if d.Amt.Cmp(reward) >= 0 {
				paid = true
			}
		}
		if !paid {
			reward = new(big.Int)
		}
		gotK := new(big.Int).Sub(a.Bal[op.U][dn], b.Bal[op.U][dn])
		gotA := new(big.Int).Sub(a.Bal[AUCM][dn], b.Bal[AUCM][dn])
		if !eq(gotK, reward) || !eq(new(big.Int).Add(gotK, gotA), c.Coll) {
			return &Finding{"seized-collateral-leaves-custody", "keeper-liquidation-collateral-split-wrong",
				fmt.Sprintf("collateral %s: keeper got %s (reward %s), auctions got %s", c.Coll, gotK, reward, gotA)}
		}
		return nil
	}
	if op.Kind == "block" {
		return nil
	}
	exp := make([][]*big.Int, NAcc)
	for i := range exp {
		exp[i] = make([]*big.Int, len(Denoms))
		for d := range Denoms {
			exp[i][d] = new(big.Int).Set(b.Bal[i][d])
		}
	}
	x := bigOf(op.X)
	move := func(from, to, dn int, amt *big.Int) {
		exp[from][dn].Sub(exp[from][dn], amt)
		exp[to][dn].Add(exp[to][dn], amt)
	}
	before, had := b.cdpOf(op.O, op.T)
	after, has := a.cdpOf(op.O, op.T)
	expSupUsdx := new(big.Int).Set(b.Sup[DUsdx])
	expSupDebt := new(big.Int).Set(b.Sup[DDebt])
	expTP := new(big.Int).Set(b.TPrin[op.T])
	switch op.Kind {
	case "create":
		p := bigOf(op.P)
		move(op.O, CDPM, op.CD, x)
		exp[op.O][DUsdx].Add(exp[op.O][DUsdx], p)
		exp[CDPM][DDebt].Add(exp[CDPM][DDebt], p)
		expSupUsdx.Add(expSupUsdx, p)
		expSupDebt.Add(expSupDebt, p)
		expTP.Add(expTP, p)
		if had || !has || !eq(after.Coll, x) || !eq(after.Prin, p) || after.Fees.Sign() != 0 || after.ID != b.NextID || a.NextID != b.NextID+1 {
			return &Finding{"create-records-cdp", "create-wrong-record", fmt.Sprintf("%+v", after)}
		}
		ds := a.depsOf(after.ID)
		if len(ds) != 1 || ds[0].U != op.O || !eq(ds[0].Amt, x) {
			return &Finding{"create-records-deposit", "create-wrong-deposit", fmt.Sprint(ds)}
		}
	case "deposit":
		move(op.U, CDPM, op.CD, x)
		if !had || !has || !eq(after.Coll, new(big.Int).Add(before.Coll, x)) || !eq(after.Prin, before.Prin) {
			return &Finding{"deposit-adds-collateral", "deposit-wrong-record", fmt.Sprintf("%+v -> %+v", before, after)}
		}
	case "withdraw":
		move(CDPM, op.U, op.CD, x)
		if !had || !has || !eq(after.Coll, new(big.Int).Sub(before.Coll, x)) || !eq(after.Prin, before.Prin) {
			return &Finding{"withdraw-removes-collateral", "withdraw-wrong-record", fmt.Sprintf("%+v -> %+v", before, after)}
		}
	case "draw":
		exp[op.O][DUsdx].Add(exp[op.O][DUsdx], x)
		exp[CDPM][DDebt].Add(exp[CDPM][DDebt], x)
		expSupUsdx.Add(expSupUsdx, x)
		expSupDebt.Add(expSupDebt, x)
		expTP.Add(expTP, x)
		if !had || !has || !eq(after.Prin, new(big.Int).Add(before.Prin, x)) || !eq(after.Coll, before.Coll) {
			return &Finding{"draw-adds-principal", "draw-wrong-record", fmt.Sprintf("%+v -> %+v", before, after)}
		}
	case "repay":
		if !had {
			return &Finding{"repay-needs-cdp", "repay-without-cdp", ""}
		}
		owed := syncedDebt(before, gfOf(b, op.T))
		paid := new(big.Int).Set(x)
		if paid.Cmp(owed) > 0 {
			paid.Set(owed)
		}
		exp[op.O][DUsdx].Sub(exp[op.O][DUsdx], paid)
		expSupUsdx.Sub(expSupUsdx, paid)
		burn := new(big.Int).Set(paid)
		if burn.Cmp(b.Bal[CDPM][DDebt]) > 0 {
			burn.Set(b.Bal[CDPM][DDebt])
		}
		exp[CDPM][DDebt].Sub(exp[CDPM][DDebt], burn)
		expSupDebt.Sub(expSupDebt, burn)
		expTP.Sub(expTP, paid)
		if expTP.Sign() < 0 {
			expTP.SetInt64(0)
		}
		if eq(paid, owed) {
			// closing: every depositor gets back exactly what they deposited, everything is removed
			if has {
				return &Finding{"full-repay-closes", "full-repay-left-cdp", fmt.Sprintf("%+v", after)}
			}
			for _, d := range b.depsOf(before.ID) {
				move(CDPM, d.U, cfg.Types[op.T].Denom, d.Amt)
			}
			if len(a.depsOf(before.ID)) != 0 {
				return &Finding{"close-removes-deposits", "close-left-deposits", fmt.Sprint(a.depsOf(before.ID))}
			}
		} else {
			if !has || !eq(new(big.Int).Add(after.Prin, after.Fees), new(big.Int).Sub(owed, paid)) || !eq(after.Coll, before.Coll) {
				return &Finding{"repay-reduces-debt", "repay-wrong-record", fmt.Sprintf("%+v -> %+v owed %s paid %s", before, after, owed, paid)}
			}
			// fees are paid before principal
			feesOwed := new(big.Int).Sub(owed, before.Prin)
			if paid.Cmp(feesOwed) <= 0 && !eq(after.Prin, before.Prin) {
				return &Finding{"fees-paid-first", "repay-principal-before-fees", fmt.Sprintf("%+v -> %+v", before, after)}
			}
		}
	}
	for i := 0; i < NAcc; i++ {
		for d := range Denoms {
			if !eq(exp[i][d], a.Bal[i][d]) {
				sig := "inexact-balance-delta"
				if op.Kind == "repay" && !has {
					sig = "close-returns-wrong-amount"
				}
				return &Finding{"exact-deltas", sig, fmt.Sprintf("%s: account %d %s expected %s got %s", op.Kind, i, Denoms[d], exp[i][d], a.Bal[i][d])}
			}
		}
	}
	if !eq(expSupUsdx, a.Sup[DUsdx]) || !eq(expSupDebt, a.Sup[DDebt]) {
		return &Finding{"mint-burn-together", "stable-debt-supply-delta", fmt.Sprintf("usdx %s/%s debt %s/%s", a.Sup[DUsdx], expSupUsdx, a.Sup[DDebt], expSupDebt)}
	}
	if !eq(expTP, a.TPrin[op.T]) {
		return &Finding{"total-principal-delta", "total-principal-delta", fmt.Sprintf("expected %s got %s", expTP, a.TPrin[op.T])}
	}
	// other cdps untouched
	for _, c := range b.Cdps {
		if c.Owner == op.O && c.T == op.T {
			continue
		}
		c2, ok := a.cdpByID(c.ID)
		if !ok || !eq(c2.Coll, c.Coll) || !eq(c2.Prin, c.Prin) || !eq(c2.Fees, c.Fees) {
			return &Finding{"other-cdps-untouched", "other-cdp-changed", fmt.Sprint(c.ID)}
		}
	}
	return nil
}

// ------------------------------------------------------------ C05

func ratTol(terms ...*big.Rat) *big.Rat {
	t := new(big.Rat)
	for _, x := range terms {
		t.Add(t, x)
	}
	return t
}

var ulp = new(big.Rat).SetFrac(big.NewInt(1), Pow10(18))

// StepC05: ratio gate, price-feed gate, keeper gate, block liquidation (soundness
// and completeness), whole seizure, begin blocker never panics.
func (w *World) StepC05(op Op, cls Class, err error, b, a *Snap) *Finding {
	cfg := w.Cfg
	if op.Kind == "block" && cls == ClassPanic {
		sig := "begin-block-panic"
		if err != nil && strings.Contains(err.Error(), "is smaller than") && strings.Contains(err.Error(), "debt") {
			sig = "begin-block-panic-auction-debt-exceeds-seized-debt"
		}
		return &Finding{"begin-blocker-never-halts", sig, fmt.Sprint(err)}
	}
	if cls != ClassOk {
		return nil
	}
	inT := op.T >= 0 && op.T < len(cfg.Types)
	switch op.Kind {
	case "create", "deposit", "withdraw", "draw":
		if !inT {
			return &Finding{"unknown-type-refused", "unknown-type-accepted", op.Kind}
		}
		tc := cfg.Types[op.T]
		// price-feed gate: the status flags as stored, and the price itself
		if op.Kind != "draw" && !(b.Status[tc.Spot] && b.Status[tc.LiqM]) {
			return &Finding{"pricefeed-gate", op.Kind + "-while-pricefeed-down", fmt.Sprintf("status spot=%v liquidation=%v", b.Status[tc.Spot], b.Status[tc.LiqM])}
		}
		if op.Kind == "draw" && (b.Price[tc.Spot].Sign() == 0 || !b.Status[tc.Spot]) {
			return &Finding{"pricefeed-gate", "draw-while-spot-feed-down", fmt.Sprintf("status=%v price=%s", b.Status[tc.Spot], b.Price[tc.Spot])}
		}
		if op.Kind == "deposit" {
			return nil
		}
		// ratio gate at the spot price, beyond 18-decimal rounding of the value and of the quotient
		c, ok := a.cdpOf(op.O, op.T)
		if !ok {
			return &Finding{"ratio-gate", "cdp-missing-after-" + op.Kind, ""}
		}
		debt := new(big.Int).Add(c.Prin, c.Fees)
		r := exactRatio(c.Coll, tc.CF, debt, cfg.DebtCF, b.Price[tc.Spot])
		if r == nil {
			return &Finding{"ratio-gate", "zero-debt-after-" + op.Kind, ""}
		}
		dBase := new(big.Rat).SetFrac(debt, Pow10(int(cfg.DebtCF)))
		tol := ratTol(new(big.Rat).Quo(ulp, dBase), ulp, ulp)
		if new(big.Rat).Add(r, tol).Cmp(ratOfDec(tc.Liq)) < 0 {
			return &Finding{"ratio-gate", op.Kind + "-leaves-cdp-below-liquidation-ratio", fmt.Sprintf("ratio %s < %s", r.FloatString(24), tc.Liq)}
		}
		// the same at the 18-decimal collateralization ratio the queries report
		if dr, ok := decRatio(c.Coll, tc.CF, debt, cfg.DebtCF, sdk.NewDecFromBigIntWithPrec(b.Price[tc.Spot], 18)); !ok || dr.LT(decOf(tc.Liq)) {
			return &Finding{"ratio-gate", op.Kind + "-leaves-cdp-below-liquidation-ratio", fmt.Sprintf("18-decimal ratio %s < %s", dr, tc.Liq)}
		}
		if op.Kind == "draw" && !b.Status[tc.LiqM] {
			// create, deposit and withdraw are refused while the liquidation-market feed is down; draw is not
			return &Finding{"pricefeed-gate", "draw-while-liquidation-feed-down", fmt.Sprintf("status spot=%v liquidation=%v", b.Status[tc.Spot], b.Status[tc.LiqM])}
		}
		return nil
	case "liquidate":
		if !inT {
			return &Finding{"unknown-type-refused", "unknown-type-accepted", op.Kind}
		}
		tc := cfg.Types[op.T]
		c, ok := b.cdpOf(op.O, op.T)
		if !ok {
			return &Finding{"keeper-liquidation-needs-cdp", "liquidated-missing-cdp", ""}
		}
		debt := syncedDebt(c, gfOf(b, op.T))
		r := exactRatio(c.Coll, tc.CF, debt, cfg.DebtCF, b.Price[tc.LiqM])
		dBase := new(big.Rat).SetFrac(debt, Pow10(int(cfg.DebtCF)))
		tol := ratTol(new(big.Rat).Quo(ulp, dBase), ulp, ulp)
		if r == nil || new(big.Rat).Sub(r, tol).Cmp(ratOfDec(tc.Liq)) >= 0 {
			return &Finding{"keeper-liquidation-only-below-ratio", "keeper-seized-at-or-above-ratio", fmt.Sprintf("ratio %v >= %s", r, tc.Liq)}
		}
		if dr, ok := decRatio(c.Coll, tc.CF, debt, cfg.DebtCF, sdk.NewDecFromBigIntWithPrec(b.Price[tc.LiqM], 18)); !ok || dr.GTE(decOf(tc.Liq)) {
			return &Finding{"keeper-liquidation-only-below-ratio", "keeper-seized-at-or-above-ratio", fmt.Sprintf("18-decimal ratio %s >= %s", dr, tc.Liq)}
		}
		// keeper reward
		reward := sdk.NewDecFromBigInt(c.Coll).Mul(decOf(tc.Reward)).RoundInt().BigInt()
		paid := false
		for _, d := range b.depsOf(c.ID) {
			if d.Amt.Cmp(reward) >= 0 {
				paid = true
				break
			}
		}
		if !paid {
			reward = new(big.Int)
		}
		got := new(big.Int).Sub(a.Bal[op.U][tc.Denom], b.Bal[op.U][tc.Denom])
		if !eq(got, reward) {
			return &Finding{"keeper-reward-exact", "keeper-reward-wrong", fmt.Sprintf("expected %s got %s", reward, got)}
		}
		return w.seizureWhole(b, a, []CdpRow{c}, map[int]*big.Int{c.ID: debt}, reward, op.T)
	case "block":
		return w.blockLiquidation(op, b, a)
	}
	return nil
}

// seizureWhole: the seized cdps, their deposits and index entries are gone; exactly
// their collateral (minus the keeper reward) and their debt entered auctions.
func (w *World) seizureWhole(b, a *Snap, seized []CdpRow, debts map[int]*big.Int, reward *big.Int, rewardT int) *Finding {
	cfg := w.Cfg
	type key struct{ dn, u int }
	wantLot := map[key]*big.Int{}
	wantDebt := new(big.Int)
	modDebt := new(big.Int).Set(b.Bal[CDPM][DDebt])
	for _, c := range seized {
		if _, still := a.cdpByID(c.ID); still {
			return &Finding{"seizure-removes-cdp", "seized-cdp-still-stored", fmt.Sprint(c.ID)}
		}
		if len(a.depsOf(c.ID)) != 0 {
			return &Finding{"seizure-removes-deposits", "seized-cdp-deposits-left", fmt.Sprint(c.ID)}
		}
		for _, e := range a.Ridx {
			if e.ID == c.ID {
				return &Finding{"seizure-removes-index", "seized-cdp-ratio-index-left", fmt.Sprint(c.ID)}
			}
		}
		for _, row := range a.Oidx {
			for _, id := range row[1:] {
				if id == c.ID {
					return &Finding{"seizure-removes-index", "seized-cdp-owner-index-left", fmt.Sprint(c.ID)}
				}
			}
		}
		for _, d := range b.depsOf(c.ID) {
			k := key{cfg.Types[c.T].Denom, d.U}
			if wantLot[k] == nil {
				wantLot[k] = new(big.Int)
			}
			wantLot[k].Add(wantLot[k], d.Amt)
		}
		wantDebt.Add(wantDebt, debts[c.ID])
	}
	gotLot := map[key]*big.Int{}
	gotDebt := new(big.Int)
	totalLot, totalWant := new(big.Int), new(big.Int)
	for _, au := range a.Aucs {
		if au.Kind != 0 {
			continue
		}
		k := key{au.LotD, au.Ret}
		if gotLot[k] == nil {
			gotLot[k] = new(big.Int)
		}
		gotLot[k].Add(gotLot[k], au.Lot)
		totalLot.Add(totalLot, au.Lot)
		gotDebt.Add(gotDebt, au.Debt)
	}
	for _, v := range wantLot {
		totalWant.Add(totalWant, v)
	}
	totalWant.Sub(totalWant, reward)
	if !eq(totalLot, totalWant) {
		return &Finding{"seized-collateral-enters-auctions", "auction-lots-differ-from-seized-collateral", fmt.Sprintf("lots %s, seized collateral minus reward %s", totalLot, totalWant)}
	}
	if reward.Sign() == 0 {
		for k, v := range wantLot {
			g := gotLot[k]
			if g == nil {
				g = new(big.Int)
			}
			if !eq(g, v) {
				return &Finding{"seized-collateral-enters-auctions", "auction-lots-differ-per-depositor", fmt.Sprintf("%s user %d: lots %s deposits %s", Denoms[k.dn], k.u, g, v)}
			}
		}
	}
	// SeizeCollateral moves min(debt, debt coins of the module); the clamp only bites when the module is drained
	_ = modDebt
	if !eq(gotDebt, wantDebt) && !(a.Bal[CDPM][DDebt].Sign() == 0 && gotDebt.Cmp(wantDebt) < 0) {
		return &Finding{"seized-debt-enters-auctions", "auction-debt-differs-from-seized-debt", fmt.Sprintf("auction debt %s, seized debt %s (%d cdps)", gotDebt, wantDebt, len(seized))}
	}
	return nil
}

func (w *World) blockLiquidation(op Op, b, a *Snap) *Finding {
	cfg := w.Cfg
	var seized []CdpRow
	debts := map[int]*big.Int{}
	for _, c := range b.Cdps {
		if _, still := a.cdpByID(c.ID); still {
			continue
		}
		seized = append(seized, c)
		tc := cfg.Types[c.T]
		debt := syncedDebt(c, gfOf(a, c.T)) // interest of this block is accrued before the liquidation pass
		debts[c.ID] = debt
		p := a.Price[tc.LiqM]
		liq := ratOfDec(tc.Liq)
		r := exactRatio(c.Coll, tc.CF, debt, cfg.DebtCF, p)
		if p.Sign() == 0 || r == nil {
			return &Finding{"block-liquidation-only-below-ratio", "block-seized-without-price", fmt.Sprint(c.ID)}
		}
		if r.Cmp(liq) >= 0 {
			// 1/(price/liqRatio): relative error about ulp*liq/price, twice, plus the two quotient roundings
			lp := new(big.Rat).Quo(liq, new(big.Rat).SetFrac(p, Pow10(18)))
			eps := new(big.Rat).Mul(liq, new(big.Rat).Mul(ulp, ratTol(lp, lp, lp, big.NewRat(3, 1))))
			eps.Add(eps, new(big.Rat).Mul(ulp, new(big.Rat).SetFrac(new(big.Int).Add(p, Pow10(19)), Pow10(18))))
			sig := "block-seized-above-ratio"
			if new(big.Rat).Sub(r, eps).Cmp(liq) < 0 {
				sig = "block-seized-at-ratio-within-rounding"
			}
			dr, dok := decRatio(c.Coll, tc.CF, debt, cfg.DebtCF, sdk.NewDecFromBigIntWithPrec(p, 18))
			// The collateralization ratio of the property is the 18-decimal quantity the module
			// computes and shows (CalculateCollateralizationRatio): collateral value rounded to 18
			// decimals, divided by the debt.  For a dust CDP (13 base units against 1) one ulp of the
			// collateral value is a visible fraction of the ratio: the exact rational ratio can sit a
			// few 1e-18 above the liquidation ratio while the module's ratio is below it.  That is the
			// property's "18-decimal rounding", not a seizure at or above the ratio.
			if dok && sig == "block-seized-at-ratio-within-rounding" && dr.LT(sdk.MustNewDecFromStr(tc.Liq)) {
				continue
			}
			return &Finding{"block-liquidation-only-below-ratio", sig,
				fmt.Sprintf("cdp %d type %s seized by the begin blocker: collateral %s debt %s price %s: ratio %s (fixed-point %s) >= liquidation ratio %s",
					c.ID, tc.Name, c.Coll, debt, sdk.NewDecFromBigIntWithPrec(p, 18), r.FloatString(24), dr, tc.Liq)}
		}
	}
	// completeness: at the interval, with both feeds up, with every cdp of the type within the scan count,
	// a cdp clearly below the ratio is seized
	if (w.Height)%cfg.Interval == 0 { // w.Height is already the new height
		for t, tc := range cfg.Types {
			if a.Price[tc.Spot].Sign() == 0 || a.Price[tc.LiqM].Sign() == 0 {
				continue
			}
			n := 0
			for _, c := range b.Cdps {
				if c.T == t {
					n++
				}
			}
			cnt := tc.Count
			if cnt < 1 {
				cnt = 1
			}
			if int64(n) > cnt {
				continue
			}
			for _, c := range b.Cdps {
				if c.T != t {
					continue
				}
				if _, still := a.cdpByID(c.ID); !still {
					continue
				}
				debt := syncedDebt(c, gfOf(a, t))
				r := exactRatio(c.Coll, tc.CF, debt, cfg.DebtCF, a.Price[tc.LiqM])
				liq := ratOfDec(tc.Liq)
				lp := new(big.Rat).Quo(liq, new(big.Rat).SetFrac(a.Price[tc.LiqM], Pow10(18)))
				eps := new(big.Rat).Mul(liq, new(big.Rat).Mul(ulp, ratTol(lp, lp, lp, big.NewRat(3, 1))))
				eps.Add(eps, new(big.Rat).Mul(ulp, new(big.Rat).SetFrac(new(big.Int).Add(a.Price[tc.LiqM], Pow10(19)), Pow10(18))))
				// since fix 2e356dd20 every candidate is confirmed with the fixed-point value ratio
				// Quo(Mul(collateral, price), debt): its own 18-decimal roundings (one ulp on the
				// collateral value, one on the quotient) are part of "beyond 18-decimal rounding";
				// for tiny positions the first one dominates (value 2e-6 USD => relative 2.5e-13)
				if r != nil && r.Sign() > 0 {
					val := new(big.Rat).Mul(new(big.Rat).SetFrac(c.Coll, Pow10(int(tc.CF))), new(big.Rat).SetFrac(a.Price[tc.LiqM], Pow10(18)))
					if val.Sign() > 0 {
						rel := new(big.Rat).Quo(ulp, val)
						rel.Add(rel, new(big.Rat).Quo(ulp, r))
						eps.Add(eps, new(big.Rat).Mul(liq, new(big.Rat).Mul(rel, big.NewRat(2, 1))))
					}
				}
				if r != nil && new(big.Rat).Add(r, eps).Cmp(liq) < 0 {
					return &Finding{"block-liquidation-complete", "block-liquidation-missed-cdp-below-ratio",
						fmt.Sprintf("cdp %d type %s ratio %s < %s not seized at the interval", c.ID, tc.Name, r.FloatString(24), tc.Liq)}
				}
			}
		}
	}
	if len(seized) == 0 {
		return nil
	}
	return w.seizureWhole(b, a, seized, debts, new(big.Int), 0)
}
