package cdpcommon

import (
	. "kavaverif/lib"

	"encoding/json"
	"fmt"
	"math/big"
	"os"
	"strings"

	sdk "github.com/cosmos/cosmos-sdk/types"
)

// ------------------------------------------------------------ Coq rendering

func CoqOp(op Op) string {
	x := Z(bigOf(op.X))
	switch op.Kind {
	case "create":
		return fmt.Sprintf("Create %s %s %s %s %s %s", Nat(op.O), Nat(op.T), Nat(op.CD), x, Nat(op.PD), Z(bigOf(op.P)))
	case "deposit":
		return fmt.Sprintf("Deposit %s %s %s %s %s", Nat(op.O), Nat(op.U), Nat(op.T), Nat(op.CD), x)
	case "withdraw":
		return fmt.Sprintf("Withdraw %s %s %s %s %s", Nat(op.O), Nat(op.U), Nat(op.T), Nat(op.CD), x)
	case "draw":
		return fmt.Sprintf("Draw %s %s %s %s", Nat(op.O), Nat(op.T), Nat(op.PD), x)
	case "repay":
		return fmt.Sprintf("Repay %s %s %s %s", Nat(op.O), Nat(op.T), Nat(op.PD), x)
	case "liquidate":
		return fmt.Sprintf("Liquidate %s %s %s", Nat(op.U), Nat(op.O), Nat(op.T))
	default:
		ps := make([]string, len(op.Prices))
		for i, mp := range op.Prices {
			ps[i] = fmt.Sprintf("(%s, %s)", Nat(int(bigOf(mp[0]).Int64())), Z(bigOf(mp[1])))
		}
		return fmt.Sprintf("Block %s %s", Zi(op.Dt), List(ps))
	}
}

func coqOpt(changed bool, v string) string {
	if changed {
		return "(Some " + v + ")"
	}
	return "None"
}

func CoqObs(cls Class, b, a *Snap) string {
	rb, ra := b.render(), a.render()
	var db, ds []string
	for i := range a.Bal {
		for d := range a.Bal[i] {
			if !eq(b.Bal[i][d], a.Bal[i][d]) {
				db = append(db, fmt.Sprintf("(%s, %s, %s)", Nat(i), Nat(d), Z(a.Bal[i][d])))
			}
		}
	}
	for d := range a.Sup {
		if !eq(b.Sup[d], a.Sup[d]) {
			ds = append(ds, fmt.Sprintf("(%s, %s)", Nat(d), Z(a.Sup[d])))
		}
	}
	var au []string
	for _, x := range a.Aucs {
		au = append(au, List([]string{Zi(int64(x.Kind)), Zi(int64(x.LotD)), Z(x.Lot), Z(x.Max), Z(x.Debt), Zi(int64(x.Ret))}))
	}
	return fmt.Sprintf("mkObs %s %s %s %s %s %s %s %s %s", cls.Coq(),
		coqOpt(ra[0] != rb[0], ra[0]), coqOpt(ra[1] != rb[1], ra[1]), coqOpt(ra[2] != rb[2], ra[2]),
		coqOpt(ra[3] != rb[3], ra[3]), coqOpt(ra[4] != rb[4], ra[4]), List(db), List(ds), List(au))
}

func (w *World) CoqEnvState(s *Snap) string {
	cfg := w.Cfg
	var cps []string
	for _, tc := range cfg.Types {
		cps = append(cps, fmt.Sprintf("mkCP %s %s %s %s %s %s %s %s %s %s %s", Nat(tc.Denom), Z(Mant(decOf(tc.Liq))), Z(bigOf(tc.Limit)),
			Z(Mant(decOf(tc.Fee))), Z(bigOf(tc.ASize)), Z(Mant(decOf(tc.Pen))), Nat(tc.Spot), Nat(tc.LiqM), Z(Mant(decOf(tc.Reward))), Zi(tc.Count), Zi(tc.CF)))
	}
	env := fmt.Sprintf("(mkEnv %s %s %s %s %s %s %s %s %s %s %s %s %s %s %s)", Nat(NUsers), Nat(len(Denoms)), Nat(len(Markets)), List(cps),
		Nat(DUsdx), Nat(DDebt), Nat(DGov), Zi(cfg.DebtCF), Z(bigOf(cfg.DebtFloor)), Z(bigOf(cfg.GlobalLim)),
		Z(bigOf(cfg.SurThr)), Z(bigOf(cfg.SurLot)), Z(bigOf(cfg.DebtThr)), Z(bigOf(cfg.DebtLot)), Zi(cfg.Interval))
	var bal []string
	for _, row := range s.Bal {
		bal = append(bal, ZList(row))
	}
	pt := make([]*big.Int, len(s.PTime))
	for i, t := range s.PTime {
		pt[i] = big.NewInt(t)
	}
	st := fmt.Sprintf("(mk_state %s %s %s %s %s %s %s %s %s)", List(bal), ZList(s.Sup), ZList(s.Price), BoolList(s.Status),
		ZList(s.Ifac), ZList(pt), Nat(s.NextID), Zi(w.Time.UnixNano()), Zi(w.Height))
	return env + "\n  " + Z(w.Usdx0) + "\n  " + st
}

const CoqHeader = "From Kava Require Import Base.Prelude Base.Dec Model.Cdp."

// ------------------------------------------------------------ history runner

type Hist struct {
	Prop string `json:"property"`
	Seed uint64 `json:"seed"`
	Idx  int    `json:"history"`
	Cfg  Config `json:"config"`
	Ops  []Op   `json:"ops"`
}

type RunOut struct {
	Ops    []Op
	Coq    string
	Fail   *Failure
	OkOps  int
	Splits map[string]bool
	Cfg    Config
}

// regression histories of the two boundary findings (both fixed in /repo): run first on every C05 run
func witness(idx int) (Config, []Op, bool) {
	switch idx {
	case 0: // a cdp exactly at the liquidation ratio is seized by the next begin blocker
		return WitnessConfig("0.5"), []Op{
			{Kind: "create", O: 0, U: 0, T: 2, CD: DXrp, X: "30000000", PD: DUsdx, P: "10000000"},
			{Kind: "block", Dt: 1_000_000_000},
		}, true
	case 1: // two equal deposits, odd debt: per-deposit rounding exceeds the seized debt
		return WitnessConfig("1.0"), []Op{
			{Kind: "create", O: 0, U: 0, T: 2, CD: DXrp, X: "20000000", PD: DUsdx, P: "10000003"},
			{Kind: "deposit", O: 0, U: 1, T: 2, CD: DXrp, X: "20000000"},
			{Kind: "block", Dt: 1_000_000_000, Prices: [][2]string{{"2", "300000000000000000"}, {"3", "300000000000000000"}}},
		}, true
	}
	return Config{}, nil, false
}

// Run executes generated (ops == nil) or explicit operations on a fresh world.
func Run(prop string, seed uint64, idx, n int, cfg *Config, ops []Op, cnt *Counters) RunOut {
	mode := strings.ToLower(prop)
	r := NewRng(seed, uint64(idx))
	var c Config
	if cfg != nil {
		c = *cfg
	} else {
		c = GenConfig(r, mode)
	}
	w := Setup(c)
	g := &Gen{R: r, W: w, Mode: mode, Cnt: cnt}
	out := RunOut{Splits: map[string]bool{}, Cfg: c}
	prev := w.Snap()
	header := w.CoqEnvState(prev)
	tol := &Tol{}
	var steps []string
	if ops != nil {
		n = len(ops)
	}
	mark := func(k string) {
		out.Splits[k] = true
		if cnt != nil {
			cnt.Inc("split:" + k)
		}
	}
	for i := 0; i < n; i++ {
		var op Op
		if ops != nil {
			op = ops[i]
		} else {
			op = g.GenOp(prev)
		}
		cls, err := w.Exec(op)
		after := w.Snap()
		out.Ops = append(out.Ops, op)
		if cnt != nil {
			cnt.Inc("op:" + op.Kind + ":" + cls.String())
			if cls != ClassOk {
				cnt.Inc("err:" + op.Kind + ":" + ErrKind(err))
				if ErrKind(err) == "other" && os.Getenv("CDP_DEBUG") != "" {
					fmt.Fprintln(os.Stderr, "other:", op.Kind, err)
				}
			}
		}
		tol.Step(prev, after)
		if cls == ClassOk {
			out.OkOps++
			splits(w, op, prev, after, mark)
		}
		steps = append(steps, fmt.Sprintf("(%s,\n    %s)", CoqOp(op), CoqObs(cls, prev, after)))
		if out.Fail == nil {
			var f *Finding
			if prop == "C04" {
				if f = w.StepC04(op, cls, prev, after); f == nil {
					f = w.InvariantsC04(after, tol)
				}
			} else {
				f = w.StepC05(op, cls, err, prev, after)
			}
			if f != nil {
				out.Fail = &Failure{History: idx, Step: i, Predicate: f.Pred, Signature: f.Sig, Detail: f.Detail}
			}
		}
		prev = after
	}
	out.Coq = fmt.Sprintf("mkHist %s\n  %s", header, List(steps))
	return out
}

// splits records the proof-relevant case splits a successful operation exercised.
func splits(w *World, op Op, b, a *Snap, mark func(string)) {
	cfg := w.Cfg
	switch op.Kind {
	case "create":
		mark("create")
	case "deposit":
		if op.O == op.U {
			mark("deposit:owner")
		} else {
			mark("deposit:third-party")
		}
	case "withdraw":
		c, _ := b.cdpOf(op.O, op.T)
		full := false
		for _, d := range b.depsOf(c.ID) {
			if d.U == op.U && d.Amt.Cmp(bigOf(op.X)) == 0 {
				full = true
			}
		}
		if full {
			mark("withdraw:whole-deposit")
		} else {
			mark("withdraw:partial")
		}
	case "draw":
		mark("draw")
	case "repay":
		c, _ := b.cdpOf(op.O, op.T)
		owed := syncedDebt(c, gfOf(b, op.T))
		x := bigOf(op.X)
		switch {
		case x.Cmp(owed) > 0:
			mark("repay:over-payment-closes")
		case x.Cmp(owed) == 0:
			mark("repay:exact-closes")
		case x.Cmp(new(big.Int).Sub(owed, c.Prin)) <= 0:
			mark("repay:fees-only")
		default:
			mark("repay:partial-principal")
		}
		if len(b.depsOf(c.ID)) > 1 && x.Cmp(owed) >= 0 {
			mark("close:several-depositors")
		}
	case "liquidate":
		c, _ := b.cdpOf(op.O, op.T)
		mark("keeper-liquidation")
		if len(b.depsOf(c.ID)) > 1 {
			mark("seize:several-deposits")
			mark("keeper-liquidation:several-depositors")
			reward := rewardOf(w, c)
			n := 0
			for _, d := range b.depsOf(c.ID) {
				if reward.Sign() > 0 && d.Amt.Cmp(reward) >= 0 {
					n++
				}
			}
			if n > 1 {
				mark("keeper-liquidation:several-deposits-cover-reward")
			}
		}
	case "block":
		seized := 0
		for _, c := range b.Cdps {
			if _, still := a.cdpByID(c.ID); !still {
				seized++
				if len(b.depsOf(c.ID)) > 1 {
					mark("seize:several-deposits")
				}
			}
		}
		if seized == 1 {
			mark("block:one-seized")
		} else if seized > 1 {
			mark("block:several-seized")
		}
		for t := range cfg.Types {
			if a.TPrin[t].Cmp(b.TPrin[t]) > 0 {
				mark("block:interest-accumulated")
			}
			if a.PTime[t] == b.PTime[t] && b.PTime[t] >= 0 && len(b.Cdps) > 0 {
				mark("block:accrual-time-kept")
			}
		}
		synced := false
		for _, c := range b.Cdps {
			if c2, ok := a.cdpByID(c.ID); ok && c2.Fees.Cmp(c.Fees) > 0 {
				synced = true
			}
		}
		if synced {
			mark("block:risky-cdps-synchronised")
		}
		if w.Height%cfg.Interval != 0 {
			mark("block:off-interval")
		}
		for _, au := range a.Aucs {
			if au.Kind == 1 {
				mark("block:debt-auction")
			}
			if au.Kind == 2 {
				mark("block:surplus-auction")
			}
		}
		for m := range a.Status {
			if b.Status[m] && !a.Status[m] {
				mark("block:feed-down")
			}
			if !b.Status[m] && a.Status[m] {
				mark("block:feed-up")
			}
		}
	}
	for _, e := range a.Ridx {
		if e.Ratio.Cmp(Pow10(36)) >= 0 {
			mark("ratio-key:max")
		}
	}
}

func rewardOf(w *World, c CdpRow) *big.Int {
	return sdk.NewDecFromBigInt(c.Coll).Mul(decOf(w.Cfg.Types[c.T].Reward)).RoundInt().BigInt()
}

var AllSplits = []string{
	"create", "deposit:owner", "deposit:third-party", "withdraw:whole-deposit", "withdraw:partial", "draw",
	"repay:over-payment-closes", "repay:exact-closes", "repay:fees-only", "repay:partial-principal", "close:several-depositors",
	"keeper-liquidation", "keeper-liquidation:several-depositors", "keeper-liquidation:several-deposits-cover-reward", "seize:several-deposits", "block:one-seized", "block:several-seized", "block:interest-accumulated",
	"block:accrual-time-kept", "block:risky-cdps-synchronised", "block:off-interval", "block:debt-auction", "block:surplus-auction",
	"block:feed-down", "block:feed-up",
}

// RunDriver is the shared entry point of the C04 and C05 drivers.
func RunDriver(prop string, o Opts, rule string) (*Result, error) {
	n := o.Len
	if n == 0 {
		n = 30
	}
	res := &Result{Property: prop, Seed: o.Seed, Rule: rule}
	cnt := NewCounters()

	if o.Replay != "" {
		bz, err := os.ReadFile(o.Replay)
		if err != nil {
			return nil, err
		}
		var h Hist
		if err := json.Unmarshal(bz, &h); err != nil {
			return nil, err
		}
		if len(h.Cfg.Types) == 0 {
			return nil, fmt.Errorf("replay file has no history")
		}
		ro := Run(prop, h.Seed, h.Idx, 0, &h.Cfg, h.Ops, cnt)
		name, err := WriteShard(o.OutDir, 0, CoqHeader, []string{ro.Coq}, "mismatches")
		if err != nil {
			return nil, err
		}
		res.Shards = []string{name}
		res.HistIndex = []HistRef{{0, 0, h.Idx, MustJSON(h)}}
		res.Histories, res.Evaluations = 1, len(h.Ops)
		if ro.Fail != nil {
			ro.Fail.Replay = MustJSON(h)
			res.Failures = append(res.Failures, *ro.Fail)
		}
		res.Counters = cnt.Map()
		return res, nil
	}

	outs := make([]RunOut, o.N)
	ParallelFor(o.N, o.Workers, func(i int) {
		var ro RunOut
		if wc, wops, ok := witness(i); ok && prop == "C05" {
			ro = Run(prop, o.Seed, i, 0, &wc, wops, cnt)
		} else {
			ro = Run(prop, o.Seed, i, n, nil, nil, cnt)
		}
		if ro.Fail != nil {
			sig := ro.Fail.Signature
			cfg := ro.Cfg
			fails := func(cand []Op) bool {
				r2 := Run(prop, o.Seed, i, 0, &cfg, cand, nil)
				return r2.Fail != nil && r2.Fail.Signature == sig
			}
			small := Shrink(ro.Ops[:ro.Fail.Step+1], fails)
			r2 := Run(prop, o.Seed, i, 0, &cfg, small, nil)
			if r2.Fail != nil {
				r2.Fail.History = i
				r2.Fail.Replay = MustJSON(Hist{prop, o.Seed, i, cfg, small})
				ro.Fail = r2.Fail
			} else {
				ro.Fail.Replay = MustJSON(Hist{prop, o.Seed, i, cfg, ro.Ops[:ro.Fail.Step+1]})
			}
		}
		outs[i] = ro
	})

	seen := map[string]bool{}
	perShard := 25
	var cases []string
	shard := 0
	flush := func() error {
		if len(cases) == 0 {
			return nil
		}
		name, err := WriteShard(o.OutDir, shard, CoqHeader, cases, "mismatches")
		if err != nil {
			return err
		}
		res.Shards = append(res.Shards, name)
		shard++
		cases = nil
		return nil
	}
	for i, ot := range outs {
		res.Histories++
		res.Evaluations += len(ot.Ops)
		h := Hist{prop, o.Seed, i, ot.Cfg, ot.Ops}
		key := string(MustJSON(ot.Ops))
		nontrivial := false
		for k := range ot.Splits {
			if k != "create" && k != "block:off-interval" && k != "block:accrual-time-kept" {
				nontrivial = true
			}
		}
		if nontrivial && !seen[key] {
			seen[key] = true
			res.DistinctNontrivial++
		}
		if i >= 2 && i < 4 {
			res.Samples = append(res.Samples, h)
		}
		res.HistIndex = append(res.HistIndex, HistRef{shard, len(cases), i, MustJSON(h)})
		cases = append(cases, ot.Coq)
		if len(cases) == perShard {
			if err := flush(); err != nil {
				return nil, err
			}
		}
		if ot.Fail != nil {
			res.Failures = append(res.Failures, *ot.Fail)
		}
	}
	if err := flush(); err != nil {
		return nil, err
	}
	res.Counters = cnt.Map()
	for _, k := range AllSplits {
		if res.Counters["split:"+k] == 0 {
			res.QualityGate = append(res.QualityGate, k)
		}
	}
	okOps, total := 0, 0
	for k, v := range res.Counters {
		if strings.HasPrefix(k, "op:") {
			total += v
			if strings.HasSuffix(k, ":ok") {
				okOps += v
			}
		}
	}
	res.Extra = map[string]any{"ok_operations": okOps, "operations": total}
	return res, nil
}
