// Package c14b is a component of the C14 check (genesis export/import round
// trip): per-module in-place re-imports on the real keepers of x/pricefeed,
// x/hard, x/swap, x/savings and x/incentive inside ordinary operation histories
// (the worlds and generators of the C18, C08, C07, C11 and C09 drivers), tied to
// the Coq round-trip models Model/Genesis{Pricefeed,Hard,Swap,Savings,Incentive}.v.
package c14b

import (
	. "kavaverif/lib"

	"encoding/json"
	"fmt"
	"os"

	"kavaverif/drivers/c07"
	"kavaverif/drivers/c08"
	"kavaverif/drivers/c09"
	"kavaverif/drivers/c11"
	"kavaverif/drivers/c18"
)

func init() { Registry["C14b"] = run }

const rule = "histories of the module's ordinary operations (the C18 / C08 / C07 / C11 / C09 worlds and generators) with in-place genesis re-imports (ExportGenesis, Validate, JSON round trip, empty the module's KV store, InitGenesis) at PRNG-chosen points, continued on the re-imported store; a history is non-trivial when a re-import succeeded on a store holding at least one record; distinct by module and operation list"

type partOut = GenesisPartOut

type part struct {
	name   string
	header string
	mism   string
	share  int // share of the histories, in `total`ths
	run    func(seed uint64, i, n int, cnt *Counters) partOut
	replay func(raw json.RawMessage, cnt *Counters) (partOut, error)
	length int
	wip    bool // under construction: only run when C14B_WIP is set
}

var parts = []part{
	{"pricefeed", c18.GenesisHeader, "gmismatches", 4, c18.GenesisPart, c18.GenesisReplay, 60, false},
	{"hard", c08.GenesisHeader, "gmismatches", 4, c08.GenesisPart, c08.GenesisReplay, 36, false},
	{"swap", c07.GenesisHeader, "gmismatches", 3, c07.GenesisPart, c07.GenesisReplay, 40, false},
	{"savings", c11.GenesisHeader, "gmismatches", 2, c11.GenesisPart, c11.GenesisReplay, 40, false},
	{"incentive", c09.GenesisHeader, "gmismatches", 3, c09.GenesisPart, c09.GenesisReplay, 40, false},
}

var wanted []string

func init() {
	var ps []part
	for _, p := range parts {
		if !p.wip || os.Getenv("C14B_WIP") != "" {
			ps = append(ps, p)
		}
	}
	parts = ps
	wanted = append(wanted, c18.GenesisWanted...)
	wanted = append(wanted, c08.GenesisWanted...)
	wanted = append(wanted, c07.GenesisWanted...)
	wanted = append(wanted, c11.GenesisWanted...)
	wanted = append(wanted, c09.GenesisWanted...)
}

func run(o Opts) (*Result, error) {
	res := &Result{Property: "C14b", Seed: o.Seed, Rule: rule}
	cnt := NewCounters()
	if o.Replay != "" {
		bz, err := os.ReadFile(o.Replay)
		if err != nil {
			return nil, err
		}
		var probe struct {
			Part string `json:"part"`
		}
		if err := json.Unmarshal(bz, &probe); err != nil {
			return nil, err
		}
		for _, p := range parts {
			if p.name != probe.Part {
				continue
			}
			ro, err := p.replay(bz, cnt)
			if err != nil {
				return nil, err
			}
			name, err := WriteShard(o.OutDir, 0, p.header, []string{ro.Coq}, p.mism)
			if err != nil {
				return nil, err
			}
			res.Shards = []string{name}
			res.HistIndex = []HistRef{{Shard: 0, Pos: 0, Hist: 0, Desc: MustJSON(ro.Desc)}}
			res.Histories, res.Evaluations = 1, ro.NOps
			if ro.Fail != nil {
				res.Failures = append(res.Failures, *ro.Fail)
			}
			res.Counters = cnt.Map()
			return res, nil
		}
		return nil, fmt.Errorf("replay file names no part of C14b (part=%q)", probe.Part)
	}

	total := 0
	for _, p := range parts {
		total += p.share
	}
	shard := 0
	seen := map[string]bool{}
	hid := 0
	for _, p := range parts {
		n := o.N * p.share / total
		if n < 1 {
			n = 1
		}
		length := p.length
		outs := make([]partOut, n)
		p := p
		ParallelFor(n, o.Workers, func(i int) { outs[i] = p.run(o.Seed, i, length, cnt) })
		perShard := 12
		var cases []string
		flush := func() error {
			if len(cases) == 0 {
				return nil
			}
			name, err := WriteShard(o.OutDir, shard, p.header, cases, p.mism)
			if err != nil {
				return err
			}
			res.Shards = append(res.Shards, name)
			shard++
			cases = nil
			return nil
		}
		for _, ot := range outs {
			res.Histories++
			res.Evaluations += ot.NOps
			if ot.Nontriv && !seen[p.name+ot.Key] {
				seen[p.name+ot.Key] = true
				res.DistinctNontrivial++
			}
			if len(res.Samples) < 3 && ot.Nontriv {
				res.Samples = append(res.Samples, ot.Desc)
			}
			res.HistIndex = append(res.HistIndex, HistRef{Shard: shard, Pos: len(cases), Hist: hid, Desc: MustJSON(ot.Desc)})
			cases = append(cases, ot.Coq)
			if ot.Fail != nil {
				ot.Fail.History = hid
				res.Failures = append(res.Failures, *ot.Fail)
			}
			hid++
			if len(cases) == perShard {
				if err := flush(); err != nil {
					return nil, err
				}
			}
		}
		if err := flush(); err != nil {
			return nil, err
		}
	}
	res.Counters = cnt.Map()
	for _, k := range wanted {
		if res.Counters[k] == 0 {
			res.QualityGate = append(res.QualityGate, k)
		}
	}
	return res, nil
}
