package c18

// Genesis re-import histories for the C14b component of C14 (added for C14b; the
// C18 driver does not use this file): ordinary C18 histories (same world, same
// generator) with in-place re-imports of the x/pricefeed genesis at PRNG-chosen
// points,
//
//	gs := pricefeed.ExportGenesis(branch of ctx); gs.Validate(); JSON round trip;
//	delete every key of the pricefeed KV store and the module's parameter;
//	pricefeed.InitGenesis(ctx, k, gs)
//
// on the real keeper; the history continues on the re-imported store.  The model
// is Model/GenesisPricefeed.v (operation GReimport).

import (
	. "kavaverif/lib"

	"bytes"
	"encoding/json"
	"fmt"
	"math/big"
	"strings"
	"time"

	sdk "github.com/cosmos/cosmos-sdk/types"
	paramstypes "github.com/cosmos/cosmos-sdk/x/params/types"

	"github.com/kava-labs/kava/x/pricefeed"
	pftypes "github.com/kava-labs/kava/x/pricefeed/types"
)

const GenesisHeader = "From Kava Require Import Base.Prelude Model.Pricefeed Model.GenesisPricefeed."

// GenesisWanted: situations in which a re-import must have happened at least once per run.
var GenesisWanted = []string{
	"pricefeed/reimport:ok", "pricefeed/reimport:drops-expired-post", "pricefeed/reimport:post-expiring-at-block-time-dropped",
	"pricefeed/reimport:post-expiring-1ns-after-block-time-kept", "pricefeed/reimport:inactive-market-in-params",
	"pricefeed/reimport:market-removed-from-params", "pricefeed/reimport:after-end-blocker", "pricefeed/reimport:mid-block",
	"pricefeed/reimport:active-market-without-live-post", "pricefeed/reimport:median-of-two-or-more",
	"pricefeed/reimport:drops-current-price-of-inactive-or-removed-market", "pricefeed/reimport:drops-unexpired-post-of-removed-market",
	"pricefeed/mutgen:duplicate-market:valid=false", "pricefeed/mutgen:duplicate-oracle:valid=false", "pricefeed/mutgen:duplicate-post:valid=false",
	"pricefeed/mutgen:duplicate-post-other-price:valid=false", "pricefeed/mutgen:negative-price:valid=false",
	"pricefeed/mutgen:expiry-unix-around-zero:valid=false", "pricefeed/mutgen:expiry-unix-around-zero:valid=true",
	"pricefeed/mutgen:expiry-around-block-time:valid=true", "pricefeed/mutgen:post-of-unknown-market:valid=true", "pricefeed/mutgen:zero-price:valid=true",
	"pricefeed/mutgen:init:ok",
}

type GenesisHist struct {
	Part string `json:"part"`
	Seed uint64 `json:"seed"`
	Idx  int    `json:"history"`
	Len  int    `json:"len"`
	Ops  []op   `json:"ops"`
}

type reimportOut struct {
	cls               Class
	valid             bool
	genesis           string // Coq term of the exported genesis state
	pred, sig, detail string
}

func coqGenesis(w *world, gs pftypes.GenesisState) string {
	var ms []mkt
	for _, m := range gs.Params.Markets {
		x := mkt{ID: marketIndex(m.MarketID), Active: m.Active, Oracles: []int{}}
		for _, o := range m.Oracles {
			x.Oracles = append(x.Oracles, w.oracleIndex(o))
		}
		ms = append(ms, x)
	}
	it := make([]string, len(gs.PostedPrices))
	for i, pp := range gs.PostedPrices {
		it[i] = fmt.Sprintf("(%s, %s, %s, %s)", Nat(marketIndex(pp.MarketID)), Nat(w.oracleIndex(pp.OracleAddress)), Z(pp.Price.BigInt()), Zi(pp.Expiry.UnixNano()))
	}
	return fmt.Sprintf("(mkGen %s %s)", coqMarkets(ms), List(it))
}

func wipeParams(ctx sdk.Context, w *world, subspace string) {
	st := ctx.KVStore(w.tApp.GetKVStoreKey(paramstypes.StoreKey))
	var keys [][]byte
	it := sdk.KVStorePrefixIterator(st, []byte(subspace+"/"))
	for ; it.Valid(); it.Next() {
		keys = append(keys, append([]byte(nil), it.Key()...))
	}
	it.Close()
	for _, k := range keys {
		st.Delete(k)
	}
}

// activePrices: GetCurrentPrice of every active market of the params (nil = error)
func (w *world) activePrices(ctx sdk.Context) map[int]*big.Int {
	out := map[int]*big.Int{}
	for _, m := range w.pk.GetMarkets(ctx) {
		if !m.Active {
			continue
		}
		if cp, err := w.pk.GetCurrentPrice(ctx, m.MarketID); err == nil {
			out[marketIndex(m.MarketID)] = cp.Price.BigInt()
		} else {
			out[marketIndex(m.MarketID)] = nil
		}
	}
	return out
}

func samePrices(a, b map[int]*big.Int) (bool, string) {
	for m, x := range a {
		if y, ok := b[m]; !ok || !eqBig(x, y) {
			return false, fmt.Sprintf("%s: %v before, %v after", marketIDs[m], x, b[m])
		}
	}
	return len(a) == len(b), "different sets of active markets"
}

// reimport performs the in-place export/validate/import and evaluates the monitors.
// afterEnd: the previous operation was the end blocker at the same block time.
func (w *world) reimport(afterEnd, reportKnown bool, mark func(string)) reimportOut {
	key := w.tApp.GetKVStoreKey(pftypes.StoreKey)
	cdc := w.tApp.AppCodec()
	out := reimportOut{valid: true}
	stage := "export"
	set := func(p, s, d string) {
		if out.pred == "" {
			out.pred, out.sig, out.detail = p, s, d
		}
	}
	before, _ := w.snapshotD(w.ctx, false)
	now := w.ctx.BlockTime()
	cls, err := Atomically(w.ctx, func(ctx sdk.Context) error {
		bctx, _ := ctx.CacheContext()
		gs := pricefeed.ExportGenesis(bctx, w.pk)
		out.genesis = coqGenesis(w, gs)
		stage = "validate"
		if e := gs.Validate(); e != nil {
			out.valid = false
			set("pricefeed-exported-genesis-validates", "pricefeed-export-fails-validation", e.Error())
		}
		stage = "json"
		bz := cdc.MustMarshalJSON(&gs)
		var gs2 pftypes.GenesisState
		cdc.MustUnmarshalJSON(bz, &gs2)
		pricesBefore := w.activePrices(ctx)
		// the original chain's next end blocker, on a branch
		ectx, _ := ctx.CacheContext()
		pricefeed.EndBlocker(ectx, w.pk)
		nextBefore := w.activePrices(ectx)
		dumpBefore := DumpStore(ctx, key)

		stage = "import"
		WipeStore(ctx, key)
		wipeParams(ctx, w, pftypes.ModuleName)
		pricefeed.InitGenesis(ctx, w.pk, gs2)

		stage = "compare"
		dumpAfter := DumpStore(ctx, key)
		// expected store, computed from the store before the export: the posts of markets in the
		// params that expire after the block time, byte for byte; the current price of an active
		// market with such a post is their median; nothing else
		inParams, active := map[string]bool{}, map[string]bool{}
		for _, m := range gs.Params.Markets {
			inParams[m.MarketID] = true
			active[m.MarketID] = m.Active
		}
		expected := map[string]string{}
		live := map[string][]*big.Int{}
		for k, v := range dumpBefore {
			kb := mustHex(k)
			if kb[0] != pftypes.RawPriceFeedPrefix[0] {
				continue
			}
			var pp pftypes.PostedPrice
			cdc.MustUnmarshal(mustHex(v), &pp)
			switch {
			case !inParams[pp.MarketID]:
				mark("pricefeed/reimport:market-removed-from-params")
				if pp.Expiry.After(now) {
					// KNOWN FINDING (Coq: C14_pricefeed_removed_market_posts_refuted): reported by the
					// directed history, exempt (counted) elsewhere
					mark("pricefeed/reimport:drops-unexpired-post-of-removed-market")
					if reportKnown {
						set("pricefeed-unexpired-posts-survive-reimport", "pricefeed-removed-market-posts-lost-by-reimport",
							fmt.Sprintf("market %s is not in the params at export time: its unexpired post by oracle %d (price %s, expiry %d ns) is not exported", pp.MarketID, w.oracleIndex(pp.OracleAddress), pp.Price, pp.Expiry.UnixNano()))
					}
				}
			case pp.Expiry.After(now):
				expected[k] = v
				live[pp.MarketID] = append(live[pp.MarketID], pp.Price.BigInt())
				if pp.Expiry.UnixNano() == now.UnixNano()+1 {
					mark("pricefeed/reimport:post-expiring-1ns-after-block-time-kept")
				}
			default:
				mark("pricefeed/reimport:drops-expired-post")
				if pp.Expiry.Equal(now) {
					mark("pricefeed/reimport:post-expiring-at-block-time-dropped")
				}
			}
		}
		var diffs []string
		for k, v := range expected {
			if dumpAfter[k] != v {
				diffs = append(diffs, "unexpired post missing or changed: "+k)
			}
		}
		for k, v := range dumpAfter {
			kb := mustHex(k)
			switch kb[0] {
			case pftypes.RawPriceFeedPrefix[0]:
				if _, ok := expected[k]; !ok {
					diffs = append(diffs, "post that should have been dropped (or was never there): "+k)
				}
			case pftypes.CurrentPricePrefix[0]:
				id := string(kb[1:])
				var cp pftypes.CurrentPrice
				cdc.MustUnmarshal(mustHex(v), &cp)
				if !active[id] || len(live[id]) == 0 {
					diffs = append(diffs, "current price stored for a market that is inactive or has no unexpired post: "+id)
				} else if cp.Price.IsNil() || cp.Price.BigInt().Cmp(indepMedian(live[id])) != 0 || cp.MarketID != id {
					diffs = append(diffs, fmt.Sprintf("current price of %s is %v, the median of the unexpired posts is %v", id, cp.Price, indepMedian(live[id])))
				}
			default:
				diffs = append(diffs, "unknown key "+k)
			}
		}
		for id, l := range live {
			if active[id] {
				if _, ok := dumpAfter[hexOf(pftypes.CurrentPriceKey(id))]; !ok {
					diffs = append(diffs, "no current price stored for active market "+id+" with an unexpired post")
				}
				if len(l) >= 2 {
					mark("pricefeed/reimport:median-of-two-or-more")
				}
			}
		}
		for id := range inParams {
			if !active[id] {
				mark("pricefeed/reimport:inactive-market-in-params")
			} else if len(live[id]) == 0 {
				mark("pricefeed/reimport:active-market-without-live-post")
			}
		}
		if len(diffs) > 0 {
			if len(diffs) > 6 {
				diffs = diffs[:6]
			}
			set("pricefeed-store-after-reimport-is-the-unexpired-part-of-the-exported-store", "pricefeed-store-differs-after-reimport", strings.Join(diffs, "; "))
		}
		// params
		var gsP = w.pk.GetParams(ctx)
		if !bytes.Equal(cdc.MustMarshalJSON(&gsP), cdc.MustMarshalJSON(&gs.Params)) {
			set("pricefeed-params-identical-after-reimport", "pricefeed-params-differ-after-reimport", "params changed by the round trip")
		}
		// re-export: identical apart from the posts already expired at import time
		b2, _ := ctx.CacheContext()
		gs3 := pricefeed.ExportGenesis(b2, w.pk)
		filtered := pftypes.GenesisState{Params: gs.Params}
		for _, pp := range gs.PostedPrices {
			if pp.Expiry.After(now) {
				filtered.PostedPrices = append(filtered.PostedPrices, pp)
			}
		}
		if !bytes.Equal(cdc.MustMarshalJSON(&gs3), cdc.MustMarshalJSON(&filtered)) {
			set("pricefeed-reexport-identical-apart-from-expired-posts", "pricefeed-reexport-differs", fmt.Sprintf("first export %d posts (%d unexpired), re-export %d posts", len(gs.PostedPrices), len(filtered.PostedPrices), len(gs3.PostedPrices)))
		}
		// exported as an end blocker left it: every active market answers as before
		if afterEnd {
			if ok, d := samePrices(pricesBefore, w.activePrices(ctx)); !ok {
				set("pricefeed-current-price-of-active-markets-same-after-reimport", "pricefeed-current-price-differs-after-reimport", d)
			}
		}
		// every market: GetCurrentPrice answers as before - except (KNOWN FINDING, Coq:
		// C14_pricefeed_inactive_market_price_refuted) a market that is not active or not in the
		// params at export time, whose frozen price is not part of the genesis state
		for m := 0; m < nMarkets; m++ {
			if active[marketIDs[m]] || before.get[m] == nil {
				continue
			}
			if _, err := w.pk.GetCurrentPrice(ctx, marketIDs[m]); err != nil {
				mark("pricefeed/reimport:drops-current-price-of-inactive-or-removed-market")
				if reportKnown {
					set("pricefeed-current-price-survives-reimport", "pricefeed-inactive-market-price-lost-by-reimport",
						fmt.Sprintf("market %s (in params: %v, active: false) served price %s before the export and no price after the import", marketIDs[m], inParams[marketIDs[m]], before.get[m]))
				}
			}
		}
		// the next end blocker computes the same price for every active market on both
		e2, _ := ctx.CacheContext()
		pricefeed.EndBlocker(e2, w.pk)
		if ok, d := samePrices(nextBefore, w.activePrices(e2)); !ok {
			set("pricefeed-next-end-blocker-same-price-after-reimport", "pricefeed-next-price-differs-after-reimport", d)
		}
		return nil
	})
	out.cls = cls
	mark("pricefeed/reimport:" + cls.String())
	if cls != ClassOk {
		out.pred, out.sig, out.detail = "pricefeed-reimport-does-not-panic", "pricefeed-reimport-panics-at-"+stage, fmt.Sprint(err)
		if out.genesis == "" {
			out.genesis = "(mkGen [] [])"
		}
	}
	return out
}

func mustHex(s string) []byte {
	bz := make([]byte, len(s)/2)
	for i := range bz {
		fmt.Sscanf(s[2*i:2*i+2], "%02x", &bz[i])
	}
	return bz
}

func hexOf(b []byte) string { return fmt.Sprintf("%x", b) }

// directed: fixed histories built on the scenario's genesis markets.
// 0: every oracle of market 0 posts, the end blocker sets its price, the market is made
//
//	inactive (its price stays frozen), end blocker, re-import.
//
// 1: every oracle of market 1 posts, end blocker, the market is removed from the params,
//
//	end blocker, re-import (its unexpired posts are not exported), the market is restored,
//	end blocker.
func (w *world) directed(sc *scenario, which int) []op {
	ms := w.paramMarkets(w.ctx)
	t1, t2, t3 := sc.times[0], sc.times[1], sc.times[2]
	far := t3 + 3600e9
	var ops []op
	ops = append(ops, op{Kind: "begin", T: t1})
	target := which // market 0 or 1
	for _, mk := range ms {
		if mk.ID == target {
			for _, o := range mk.Oracles {
				ops = append(ops, op{Kind: "post", O: o, M: mk.ID, Price: jitter(NewRng(7, uint64(o)), sc.base[mk.ID]).String(), Expiry: far})
			}
		}
	}
	ops = append(ops, op{Kind: "end"}, op{Kind: "begin", T: t2})
	var changed []mkt
	var removed mkt
	for _, mk := range ms {
		c := mkt{ID: mk.ID, Active: mk.Active, Oracles: append([]int(nil), mk.Oracles...)}
		if mk.ID == target {
			if which == 0 {
				c.Active = false
			} else {
				removed = c
				continue
			}
		}
		changed = append(changed, c)
	}
	ops = append(ops, op{Kind: "params", Markets: changed}, op{Kind: "end"}, op{Kind: "reimport"})
	if which == 1 {
		ops = append(ops, op{Kind: "begin", T: t3}, op{Kind: "params", Markets: append(append([]mkt(nil), changed...), removed)}, op{Kind: "end"})
	}
	return ops
}

const nMutations = 9

// mutatedGenesis takes the real export of the current state, perturbs one field, calls the
// real GenesisState.Validate and - whether it passes or not - the real InitGenesis on an emptied
// store of a discarded branch.  Returns the Coq term of the perturbed genesis state and both verdicts.
func (w *world) mutatedGenesis(kind, sel int, mark func(string)) (term string, valid bool, cls Class, name string) {
	bctx, _ := w.ctx.CacheContext()
	gs := pricefeed.ExportGenesis(bctx, w.pk)
	gs.PostedPrices = append(pftypes.PostedPrices(nil), gs.PostedPrices...)
	ms := append(pftypes.Markets(nil), gs.Params.Markets...)
	gs.Params.Markets = ms
	np := len(gs.PostedPrices)
	name = "none"
	switch kind {
	case 0: // duplicated post
		if np > 0 {
			gs.PostedPrices = append(gs.PostedPrices, gs.PostedPrices[sel%np])
			name = "duplicate-post"
		}
	case 1: // negative price
		if np > 0 {
			pp := gs.PostedPrices[sel%np]
			pp.Price = pp.Price.Neg().Sub(sdk.SmallestDec())
			gs.PostedPrices[sel%np] = pp
			name = "negative-price"
		}
	case 2: // expiry with Unix() <= 0 / exactly one second
		if np > 0 {
			pp := gs.PostedPrices[sel%np]
			pp.Expiry = time.Unix(0, []int64{0, 999_999_999, 1_000_000_000, -5}[(sel/np)%4]).UTC()
			gs.PostedPrices[sel%np] = pp
			name = "expiry-unix-around-zero"
		}
	case 3: // duplicated market
		if len(ms) > 0 {
			gs.Params.Markets = append(ms, ms[sel%len(ms)])
			name = "duplicate-market"
		}
	case 4: // duplicated oracle within a market
		if len(ms) > 0 {
			i := sel % len(ms)
			if len(ms[i].Oracles) > 0 {
				m := ms[i]
				m.Oracles = append(append([]sdk.AccAddress(nil), m.Oracles...), m.Oracles[0])
				ms[i] = m
				name = "duplicate-oracle"
			}
		}
	case 5: // post of a market that is not in the params (accepted: Validate does not cross-check)
		gs.PostedPrices = append(gs.PostedPrices, pftypes.PostedPrice{MarketID: marketIDs[4], OracleAddress: w.oracles[sel%nOracles], Price: sdk.OneDec(), Expiry: w.ctx.BlockTime().Add(time.Hour)})
		name = "post-of-unknown-market"
	case 6: // already expired post / expiring exactly at the block time (accepted, skipped by the import)
		if np > 0 {
			pp := gs.PostedPrices[sel%np]
			pp.Expiry = w.ctx.BlockTime().Add(time.Duration([]int64{0, -1, 1}[(sel/np)%3]))
			gs.PostedPrices[sel%np] = pp
			name = "expiry-around-block-time"
		}
	case 7: // zero price (accepted)
		if np > 0 {
			pp := gs.PostedPrices[sel%np]
			pp.Price = sdk.ZeroDec()
			gs.PostedPrices[sel%np] = pp
			name = "zero-price"
		}
	default: // same oracle, same market, listed twice with different prices
		if np > 0 {
			pp := gs.PostedPrices[sel%np]
			pp.Price = pp.Price.Add(sdk.OneDec())
			gs.PostedPrices = append([]pftypes.PostedPrice{pp}, gs.PostedPrices...)
			name = "duplicate-post-other-price"
		}
	}
	term = coqGenesis(w, gs)
	valid = gs.Validate() == nil
	mark("pricefeed/mutgen:" + name + fmt.Sprintf(":valid=%v", valid))
	// the real InitGenesis runs on EVERY perturbed genesis, also those Validate refuses (scratch branch,
	// never written back, panics recovered): InitGenesis is the only gate at chain start
	cls, _ = Atomically(w.ctx, func(ctx sdk.Context) error {
		c2, _ := ctx.CacheContext() // never written back
		WipeStore(c2, w.tApp.GetKVStoreKey(pftypes.StoreKey))
		wipeParams(c2, w, pftypes.ModuleName)
		pricefeed.InitGenesis(c2, w.pk, gs)
		return nil
	})
	if valid {
		mark("pricefeed/mutgen:init:" + cls.String())
	} else {
		mark("pricefeed/mutgen:invalid:" + name + ":init:" + cls.String())
	}
	return term, valid, cls, name
}

// GenesisRun executes generated (ops == nil) or explicit operations on a fresh C18 world.
func GenesisRun(seed uint64, idx, n int, ops []op, explicit bool, cnt *Counters) (GenesisPartOut, []op) {
	r := NewRng(seed, uint64(idx)+5_000_000)
	nblocks := n/5 + 2
	sc := genScenario(r, nblocks)
	out := GenesisPartOut{}
	w, perr := setupSafe(sc)
	if perr != "" {
		out.Coq = fmt.Sprintf("mkGHist %s (mk_state 0 [] [] [] []) []", coqEnv())
		out.Fail = &Failure{Step: 0, Predicate: "valid-genesis-initialises", Signature: "pricefeed-genesis-panic", Detail: perr}
		return out, ops
	}
	g := &gen{r: r, sc: sc, block: -1}
	mark := func(k string) {
		if cnt != nil {
			cnt.Inc(k)
		}
	}
	prev, _ := w.snapshotD(w.ctx, false)
	init := fmt.Sprintf("(mk_state %s %s %s %s %s)", Zi(w.ctx.BlockTime().UnixNano()), coqMarkets(w.paramMarkets(w.ctx)), coqRaw(nil, prev), coqCur(nil, prev), BoolList(prev.status))
	var steps []string
	var done []op
	inBlock, afterEnd := false, false
	txLeft := 0
	total := n
	if explicit {
		total = len(ops)
	}
	forced := n/3 + r.Intn(n/2+1)
	reimports := 0
	probeNo := 0 // perturbation kinds rotate, offset by the history index: every kind is probed in every run
	// histories 0 and 1 are fixed: they reproduce the two known findings on every run
	reportKnown := idx < 2
	if !explicit && idx < 2 {
		ops, explicit = w.directed(sc, idx), true
		total = len(ops)
	}
	for i := 0; i < total; i++ {
		var o op
		if explicit {
			o = ops[i]
		} else {
			switch {
			case (afterEnd || inBlock) && r.Chance(1, 9):
				o = op{Kind: "mutgen", M: (idx*5 + probeNo) % nMutations, O: r.Intn(1 << 16)}
				probeNo++
			case afterEnd && (r.Chance(1, 3) || i >= forced && reimports == 0):
				o = op{Kind: "reimport"}
			case inBlock && txLeft > 0 && r.Chance(1, 12):
				o = op{Kind: "reimport"}
			case !inBlock:
				g.block++
				t := sc.times[len(sc.times)-1] + int64(g.block)*2e9
				if g.block < len(sc.times) {
					t = sc.times[g.block]
				}
				o = op{Kind: "begin", T: t}
				inBlock = true
				txLeft = r.Intn(7)
			case txLeft > 0:
				o = g.tx(w, prev)
				txLeft--
			default:
				o = op{Kind: "end"}
				inBlock = false
			}
		}
		done = append(done, o)
		if o.Kind == "mutgen" {
			term, valid, cls, name := w.mutatedGenesis(o.M, o.O, mark)
			v, c := int64(0), int64(cls)
			if valid {
				v = 1
			}
			if !valid && cls != ClassPanic {
				// x/pricefeed's InitGenesis does not call GenesisState.Validate (the only module of the two
				// components whose InitGenesis does not): a refused post list (negative price, duplicate
				// (market, oracle), zero expiry) is imported on the unchanged code; refused params panic in
				// SetParams.  Not a statement of the property (a refused genesis is not an export of a reachable
				// state): counted, no monitor; the tie is the comparison with GenesisPricefeed.init_genesis,
				// which states exactly what is refused, so a change that adds or removes a check shows as a divergence.
				mark("pricefeed/mutgen:invalid-genesis-imported:" + name)
				if (name == "duplicate-market" || name == "duplicate-oracle") && out.Fail == nil {
					out.Fail = &Failure{Step: i, Predicate: "invalid-genesis-imported:pricefeed:" + name, Signature: "invalid-genesis-imported:pricefeed:" + name,
						Detail: fmt.Sprintf("the parameters of this genesis state are refused by Validate (perturbation %s of a real export) but InitGenesis on an emptied store imports it: %s", name, term)}
				}
			}
			steps = append(steps, fmt.Sprintf("(GProbe %s,\n    ObsStep (%s))", term, coqObs(ClassOk, []int64{v, c}, prev, prev)))
			continue
		}
		if o.Kind == "reimport" {
			reimports++
			if afterEnd {
				mark("pricefeed/reimport:after-end-blocker")
			} else {
				mark("pricefeed/reimport:mid-block")
			}
			ro := w.reimport(afterEnd, reportKnown, mark)
			after, bad := w.snapshotD(w.ctx, false)
			v := int64(0)
			if ro.valid {
				v = 1
			}
			outv := []int64{}
			if ro.cls == ClassOk {
				outv = []int64{v}
			}
			steps = append(steps, fmt.Sprintf("(GReimport,\n    ObsFull (%s) %s)", coqObs(ro.cls, outv, nil, after), ro.genesis))
			if ro.pred != "" && out.Fail == nil {
				out.Fail = &Failure{Step: i, Predicate: ro.pred, Signature: ro.sig, Detail: ro.detail}
			}
			if bad != "" && out.Fail == nil {
				out.Fail = &Failure{Step: i, Predicate: "raw-store-well-formed", Signature: "pricefeed-raw-key-value-mismatch", Detail: bad}
			}
			if ro.cls == ClassOk && (len(prev.raw) > 0) {
				out.Nontriv = true
			}
			prev = after
			afterEnd = false
			continue
		}
		afterEnd = false
		facts := cfacts{}
		if isConsumer(o.Kind) {
			facts = w.consumerFacts(o)
		}
		var outv []int64
		cls, err := w.exec(o)
		after, bad := w.snapshotD(w.ctx, false)
		if o.Kind == "begin" && cls == ClassOk {
			t := w.ctx.BlockTime().UnixNano()
			accr := w.accrualTimes()
			for k := range ctypes {
				if accr[k] == t {
					outv = append(outv, 1)
				} else {
					outv = append(outv, 0)
				}
			}
		}
		if cnt != nil {
			cnt.Inc("pricefeed/op:" + o.Kind + ":" + cls.String())
			_ = err
		}
		steps = append(steps, fmt.Sprintf("(GOp (%s),\n    ObsStep (%s))", coqOp(o, cls, facts), coqObs(cls, outv, prev, after)))
		if bad != "" && out.Fail == nil {
			out.Fail = &Failure{Step: i, Predicate: "raw-store-well-formed", Signature: "pricefeed-raw-key-value-mismatch", Detail: bad}
		}
		prev = after
		if o.Kind == "end" && cls == ClassOk {
			afterEnd = true
		}
		if cls == ClassPanic && (o.Kind == "begin" || o.Kind == "end") {
			break // chain halt
		}
	}
	out.NOps = len(done)
	out.Coq = fmt.Sprintf("mkGHist %s\n  %s\n  %s", coqEnv(), init, List(steps))
	out.Key = string(MustJSON(done))
	out.Desc = GenesisHist{Part: "pricefeed", Seed: seed, Idx: idx, Len: n, Ops: done}
	return out, done
}

// GenesisPart runs one generated history, shrinking a monitor failure.
func GenesisPart(seed uint64, i, n int, cnt *Counters) GenesisPartOut {
	out, ops := GenesisRun(seed, i, n, nil, false, cnt)
	if out.Fail != nil && len(ops) > 0 {
		sig := out.Fail.Signature
		upto := out.Fail.Step + 1
		if upto > len(ops) {
			upto = len(ops)
		}
		fails := func(cand []op) bool {
			o2, _ := GenesisRun(seed, i, n, cand, true, nil)
			return o2.Fail != nil && o2.Fail.Signature == sig
		}
		small := Shrink(ops[:upto], fails)
		if o2, _ := GenesisRun(seed, i, n, small, true, nil); o2.Fail != nil {
			out.Fail = o2.Fail
			out.Fail.Replay = MustJSON(GenesisHist{Part: "pricefeed", Seed: seed, Idx: i, Len: n, Ops: small})
		} else {
			out.Fail.Replay = MustJSON(GenesisHist{Part: "pricefeed", Seed: seed, Idx: i, Len: n, Ops: ops[:upto]})
		}
	} else if out.Fail != nil {
		out.Fail.Replay = MustJSON(GenesisHist{Part: "pricefeed", Seed: seed, Idx: i, Len: n, Ops: []op{}})
	}
	return out
}

// GenesisReplay re-executes a recorded history.
func GenesisReplay(raw json.RawMessage, cnt *Counters) (GenesisPartOut, error) {
	var h GenesisHist
	if err := json.Unmarshal(raw, &h); err != nil {
		return GenesisPartOut{}, err
	}
	if h.Ops == nil {
		h.Ops = []op{}
	}
	out, _ := GenesisRun(h.Seed, h.Idx, h.Len, h.Ops, true, cnt)
	if out.Fail != nil {
		out.Fail.Replay = MustJSON(h)
	}
	return out, nil
}
