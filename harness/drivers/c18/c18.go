package c18

// C18 — price feed.  Block-structured histories on the real pricefeed keeper
// (MsgPostPrice through the msg server, parameter changes, EndBlocker,
// SetCurrentPrices on a discarded branch), the real cdp begin blocker, and the
// real cdp and hard messages attempted while prices come and go.  Monitors
// state the property on the implementation (independently computed median,
// refusal without a price); the same histories go to Model/Pricefeed.v.

import (
	. "kavaverif/lib"

	"encoding/json"
	"fmt"
	"math/big"
	"os"
	"sort"
	"strings"
	"time"

	sdkmath "cosmossdk.io/math"
	abci "github.com/cometbft/cometbft/abci/types"
	sdk "github.com/cosmos/cosmos-sdk/types"

	"github.com/kava-labs/kava/app"
	"github.com/kava-labs/kava/x/cdp"
	cdpkeeper "github.com/kava-labs/kava/x/cdp/keeper"
	cdptypes "github.com/kava-labs/kava/x/cdp/types"
	"github.com/kava-labs/kava/x/hard"
	hardkeeper "github.com/kava-labs/kava/x/hard/keeper"
	hardtypes "github.com/kava-labs/kava/x/hard/types"
	"github.com/kava-labs/kava/x/pricefeed"
	pfkeeper "github.com/kava-labs/kava/x/pricefeed/keeper"
	pftypes "github.com/kava-labs/kava/x/pricefeed/types"
)

func init() { Registry["C18"] = run }

// markets in raw-price store order (length-prefixed id); the last one is never in the params
var marketIDs = []string{"bnb:usd", "xrp:usd", "usdx:usd", "bnb:usd:30", "zzz:usd"}
var marketBase = []string{"bnb", "xrp", "usdx", "bnb", "zzz"}

const (
	nMarkets  = 5
	nParamMk  = 4 // markets 0..3 can be in the params
	nOracles  = 7 // 0..5 can be oracles, 6 is never one
	nUsers    = 3 // 0,1 consumers, 2 keeper
	defaultL  = 60
	coqHeader = "From Kava Require Import Base.Prelude Model.Pricefeed."
)

// cdp collateral types: (denom, type, spot market, liquidation market, conversion factor)
var ctypes = []struct {
	denom, typ string
	spot, liq  int
	cf         int64
}{
	{"bnb", "bnb-a", 0, 3, 8},
	{"xrp", "xrp-a", 1, 1, 6},
}

// hard money markets: denom -> market
var hardDenoms = []string{"bnb", "xrp", "usdx"}
var hardMarket = map[string]int{"bnb": 0, "xrp": 1, "usdx": 2}
var hardCF = map[string]int64{"bnb": 1e8, "xrp": 1e6, "usdx": 1e6}

type mkt struct {
	ID      int   `json:"id"`
	Active  bool  `json:"active"`
	Oracles []int `json:"oracles"`
}

type op struct {
	Kind    string `json:"kind"` // begin end post params probe cdp_create cdp_deposit cdp_withdraw cdp_draw cdp_liquidate hard_borrow hard_withdraw hard_liquidate
	T       int64  `json:"t,omitempty"`
	O       int    `json:"o,omitempty"`
	M       int    `json:"m,omitempty"`
	Price   string `json:"price,omitempty"`  // mantissa
	Expiry  int64  `json:"expiry,omitempty"` // unix ns
	Markets []mkt  `json:"markets,omitempty"`
	U       int    `json:"u,omitempty"`
	Ct      int    `json:"ct,omitempty"`
	D       int    `json:"d,omitempty"` // hard denom index
	Amt     string `json:"amt,omitempty"`
	Target  int    `json:"target,omitempty"`
}

type world struct {
	tApp    app.TestApp
	ctx     sdk.Context
	pk      pfkeeper.Keeper
	ck      cdpkeeper.Keeper
	hk      hardkeeper.Keeper
	oracles []sdk.AccAddress // index = model oracle id (sorted by address bytes)
	users   []sdk.AccAddress
	height  int64
}

type rawEntry struct{ p, ex *big.Int }

type snap struct {
	raw    map[[2]int]rawEntry
	cur    map[int]*big.Int
	get    []*big.Int // nil = error
	status []bool
	digest string
}

// ------------------------------------------------------------ scenario / setup

type scenario struct {
	markets []mkt
	posts   []op // genesis posted prices
	base    []*big.Int
	times   []int64 // block times (unix ns)
}

func decOf(m *big.Int) sdk.Dec { return sdk.NewDecFromBigIntWithPrec(new(big.Int).Set(m), 18) }

func randDec18(r *Rng, lo, hi int64) *big.Int { // lo..hi in units of 1e-3, with 18 random decimals
	x := big.NewInt(lo + r.Int63n(hi-lo+1))
	x.Mul(x, Pow10(15))
	x.Add(x, big.NewInt(r.Int63n(1_000_000_000_000_000)))
	return x
}

func genScenario(r *Rng, nblocks int) *scenario {
	sc := &scenario{}
	perm := []int{0, 1, 2, 3, 4, 5}
	for m := 0; m < nParamMk; m++ {
		for i := len(perm) - 1; i > 0; i-- {
			j := r.Intn(i + 1)
			perm[i], perm[j] = perm[j], perm[i]
		}
		k := 1 + r.Intn(6)
		os := append([]int(nil), perm[:k]...)
		sc.markets = append(sc.markets, mkt{ID: m, Active: true, Oracles: os})
	}
	sc.base = []*big.Int{randDec18(r, 100_000, 400_000), randDec18(r, 200, 900), randDec18(r, 950, 1050), nil, nil}
	sc.base[3] = new(big.Int).Set(sc.base[0])
	sc.base[4] = big.NewInt(1)
	t := GenesisTime.UnixNano()
	gaps := []int64{1e9, 1e9 + 1, 2e9, 3e9, 7e9, 60e9}
	for i := 0; i < nblocks+8; i++ {
		t += gaps[r.Pick(30, 10, 25, 15, 15, 5)]
		sc.times = append(sc.times, t)
	}
	// genesis posts: every oracle of every market, expiring within the first blocks
	for _, mk := range sc.markets {
		for _, o := range mk.Oracles {
			p := jitter(r, sc.base[mk.ID])
			k := r.Intn(6)
			ex := sc.times[k] + []int64{-1, 0, 1, 500_000_000}[r.Intn(4)]
			if r.Chance(1, 6) {
				ex = t + 3600e9
			}
			sc.posts = append(sc.posts, op{Kind: "post", O: o, M: mk.ID, Price: p.String(), Expiry: ex})
		}
	}
	return sc
}

func jitter(r *Rng, base *big.Int) *big.Int {
	f := big.NewInt(700 + r.Int63n(601)) // 0.7 .. 1.3
	x := new(big.Int).Mul(base, f)
	x.Quo(x, big.NewInt(1000))
	x.Add(x, big.NewInt(r.Int63n(1000)))
	return x
}

func c(d string, a int64) sdk.Coin { return sdk.NewInt64Coin(d, a) }
func dd(s string) sdk.Dec          { return sdk.MustNewDecFromStr(s) }

func setupSafe(sc *scenario) (w *world, perr string) {
	defer func() {
		if r := recover(); r != nil {
			perr = fmt.Sprint(r)
			if len(perr) > 300 {
				perr = perr[:300]
			}
		}
	}()
	return setup(sc), ""
}

func setup(sc *scenario) *world {
	tApp := NewApp()
	all := Addrs(nOracles + nUsers)
	oracles := append([]sdk.AccAddress(nil), all[:nOracles]...)
	sort.Slice(oracles, func(i, j int) bool { return string(oracles[i]) < string(oracles[j]) })
	users := all[nOracles:]
	cdc := tApp.AppCodec()
	funds := sdk.NewCoins(c("bnb", 1_000_000_000_000), c("xrp", 1_000_000_000_000), c("usdx", 1_000_000_000_000), c("ukava", 1_000_000_000))
	authGS := app.NewFundedGenStateWithSameCoins(cdc, funds, users)

	w := &world{tApp: tApp, oracles: oracles, users: users, height: 1}
	pf := pftypes.GenesisState{Params: pftypes.Params{Markets: w.pfMarkets(sc.markets)}}
	for _, p := range sc.posts {
		m, _ := new(big.Int).SetString(p.Price, 10)
		pf.PostedPrices = append(pf.PostedPrices, pftypes.PostedPrice{MarketID: marketIDs[p.M], OracleAddress: oracles[p.O], Price: decOf(m), Expiry: time.Unix(0, p.Expiry).UTC()})
	}
	var cps cdptypes.CollateralParams
	var gats cdptypes.GenesisAccumulationTimes
	var gtps cdptypes.GenesisTotalPrincipals
	for _, ct := range ctypes {
		cps = append(cps, cdptypes.CollateralParam{
			Denom: ct.denom, Type: ct.typ, LiquidationRatio: dd("1.5"), DebtLimit: c("usdx", 1_000_000_000_000),
			StabilityFee: sdk.OneDec(), LiquidationPenalty: dd("0.05"), AuctionSize: sdkmath.NewInt(50_000_000_000),
			SpotMarketID: marketIDs[ct.spot], LiquidationMarketID: marketIDs[ct.liq], KeeperRewardPercentage: dd("0.01"),
			CheckCollateralizationIndexCount: sdkmath.NewInt(10), ConversionFactor: sdkmath.NewInt(ct.cf),
		})
		gats = append(gats, cdptypes.NewGenesisAccumulationTime(ct.typ, time.Time{}, sdk.OneDec()))
		gtps = append(gtps, cdptypes.NewGenesisTotalPrincipal(ct.typ, sdk.ZeroInt()))
	}
	cdpGen := cdptypes.GenesisState{
		Params: cdptypes.Params{
			GlobalDebtLimit: c("usdx", 2_000_000_000_000), SurplusAuctionThreshold: cdptypes.DefaultSurplusThreshold,
			SurplusAuctionLot: cdptypes.DefaultSurplusLot, DebtAuctionThreshold: cdptypes.DefaultDebtThreshold,
			DebtAuctionLot: cdptypes.DefaultDebtLot, LiquidationBlockInterval: 3,
			CollateralParams: cps,
			DebtParam:        cdptypes.DebtParam{Denom: "usdx", ReferenceAsset: "usd", ConversionFactor: sdkmath.NewInt(6), DebtFloor: sdkmath.NewInt(10_000_000)},
		},
		StartingCdpID: cdptypes.DefaultCdpStartingID, DebtDenom: cdptypes.DefaultDebtDenom, GovDenom: cdptypes.DefaultGovDenom,
		CDPs: cdptypes.CDPs{}, PreviousAccumulationTimes: gats, TotalPrincipals: gtps,
	}
	hardGen := hardtypes.DefaultGenesisState()
	for _, dn := range hardDenoms {
		hardGen.Params.MoneyMarkets = append(hardGen.Params.MoneyMarkets, hardtypes.NewMoneyMarket(dn,
			hardtypes.NewBorrowLimit(false, sdk.NewDec(1e15), dd("0.8")), marketIDs[hardMarket[dn]], sdkmath.NewInt(hardCF[dn]),
			hardtypes.NewInterestRateModel(dd("0.05"), dd("2"), dd("0.8"), dd("10")), dd("0.05"), dd("0.05")))
	}
	hardGen.Params.MinimumBorrowUSDValue = dd("0.000001")
	tApp.InitializeFromGenesisStatesWithTime(GenesisTime, authGS,
		app.GenesisState{pftypes.ModuleName: cdc.MustMarshalJSON(&pf)},
		app.GenesisState{cdptypes.ModuleName: cdc.MustMarshalJSON(&cdpGen)},
		app.GenesisState{hardtypes.ModuleName: cdc.MustMarshalJSON(&hardGen)})
	w.ctx = NewCtx(tApp, w.height, GenesisTime)
	w.pk, w.ck, w.hk = tApp.GetPriceFeedKeeper(), tApp.GetCDPKeeper(), tApp.GetHardKeeper()

	// positions opened while the genesis prices are live (not part of the recorded history)
	pre := []op{
		{Kind: "cdp_create", U: 0, Ct: 0, Amt: "1000000000"}, // 10 bnb, principal below
		{Kind: "cdp_create", U: 0, Ct: 1, Amt: "2000000000"}, // 2000 xrp
		{Kind: "cdp_create", U: 1, Ct: 1, Amt: "1500000000"},
		{Kind: "hard_deposit", U: 0, D: 0, Amt: "500000000"},
		{Kind: "hard_deposit", U: 0, D: 1, Amt: "900000000"},
		{Kind: "hard_deposit", U: 1, D: 2, Amt: "800000000"},
		{Kind: "hard_deposit", U: 1, D: 0, Amt: "300000000"},
		{Kind: "hard_deposit", U: 2, D: 0, Amt: "100000000"},
		{Kind: "hard_deposit", U: 2, D: 1, Amt: "100000000"},
		{Kind: "hard_deposit", U: 2, D: 2, Amt: "100000000"},
		{Kind: "hard_borrow", U: 0, D: 2, Amt: "50000000"},
		{Kind: "hard_borrow", U: 1, D: 1, Amt: "40000000"},
	}
	for _, o := range pre {
		_, _ = w.exec(o) // failures (e.g. a genesis price of an unlucky scenario) just leave fewer positions
	}
	return w
}

func (w *world) pfMarkets(ms []mkt) []pftypes.Market {
	var out []pftypes.Market
	for _, m := range ms {
		os := []sdk.AccAddress{}
		for _, o := range m.Oracles {
			os = append(os, w.oracles[o])
		}
		out = append(out, pftypes.Market{MarketID: marketIDs[m.ID], BaseAsset: marketBase[m.ID], QuoteAsset: "usd", Oracles: os, Active: m.Active})
	}
	return out
}

// ------------------------------------------------------------ observation

func marketIndex(id string) int {
	for i, s := range marketIDs {
		if s == id {
			return i
		}
	}
	return -1
}

func (w *world) oracleIndex(a []byte) int {
	for i, o := range w.oracles {
		if string(o) == string(a) {
			return i
		}
	}
	return -1
}

// snapshot reads the pricefeed store raw (prefix iteration, keys parsed by hand)
func (w *world) snapshot(ctx sdk.Context) (*snap, string) { return w.snapshotD(ctx, true) }

func (w *world) snapshotD(ctx sdk.Context, withDigest bool) (*snap, string) {
	s := &snap{raw: map[[2]int]rawEntry{}, cur: map[int]*big.Int{}}
	bad := ""
	store := ctx.KVStore(w.tApp.GetKVStoreKey(pftypes.StoreKey))
	it := sdk.KVStorePrefixIterator(store, pftypes.RawPriceFeedPrefix)
	for ; it.Valid(); it.Next() {
		k := it.Key()[1:]
		ml := int(k[0])
		id := string(k[1 : 1+ml])
		rest := k[1+ml:]
		ol := int(rest[0])
		addr := rest[1 : 1+ol]
		var pp pftypes.PostedPrice
		w.tApp.AppCodec().MustUnmarshal(it.Value(), &pp)
		mi, oi := marketIndex(id), w.oracleIndex(addr)
		if mi < 0 || oi < 0 || pp.MarketID != id || string(pp.OracleAddress) != string(addr) {
			bad = fmt.Sprintf("raw entry key (%s,%x) value (%s,%x)", id, addr, pp.MarketID, []byte(pp.OracleAddress))
			continue
		}
		s.raw[[2]int{mi, oi}] = rawEntry{pp.Price.BigInt(), big.NewInt(pp.Expiry.UnixNano())}
	}
	it.Close()
	it = sdk.KVStorePrefixIterator(store, pftypes.CurrentPricePrefix)
	for ; it.Valid(); it.Next() {
		id := string(it.Key()[1:])
		var cp pftypes.CurrentPrice
		w.tApp.AppCodec().MustUnmarshal(it.Value(), &cp)
		mi := marketIndex(id)
		if mi < 0 {
			bad = "current price for unknown market " + id
			continue
		}
		if cp.Price.IsNil() {
			s.cur[mi] = big.NewInt(0)
		} else {
			s.cur[mi] = cp.Price.BigInt()
		}
	}
	it.Close()
	for m := 0; m < nMarkets; m++ {
		cp, err := w.pk.GetCurrentPrice(ctx, marketIDs[m])
		if err != nil {
			s.get = append(s.get, nil)
		} else {
			s.get = append(s.get, cp.Price.BigInt())
		}
		s.status = append(s.status, w.ck.GetMarketStatus(ctx, marketIDs[m]))
	}
	if withDigest {
		s.digest = w.digest(ctx)
	}
	return s, bad
}

// digest of everything a consumer message could change
func (w *world) digest(ctx sdk.Context) string {
	var b strings.Builder
	bk := w.tApp.GetBankKeeper()
	ak := w.tApp.GetAccountKeeper()
	for _, u := range w.users {
		b.WriteString(bk.GetAllBalances(ctx, u).String() + "|")
	}
	for _, mn := range []string{cdptypes.ModuleName, cdptypes.LiquidatorMacc, hardtypes.ModuleAccountName, "auction"} {
		if acc := ak.GetModuleAccount(ctx, mn); acc != nil {
			b.WriteString(bk.GetAllBalances(ctx, acc.GetAddress()).String() + "|")
		}
	}
	for _, cd := range w.ck.GetAllCdps(ctx) {
		fmt.Fprintf(&b, "cdp%d:%s:%s:%s:%s;", cd.ID, cd.Type, cd.Collateral, cd.Principal, cd.AccumulatedFees)
		for _, dp := range w.ck.GetDeposits(ctx, cd.ID) {
			fmt.Fprintf(&b, "dep:%s;", dp.Amount)
		}
	}
	for _, u := range w.users {
		if d, ok := w.hk.GetDeposit(ctx, u); ok {
			fmt.Fprintf(&b, "hd:%s;", d.Amount)
		}
		if br, ok := w.hk.GetBorrow(ctx, u); ok {
			fmt.Fprintf(&b, "hb:%s;", br.Amount)
		}
	}
	return b.String()
}

func (w *world) paramMarkets(ctx sdk.Context) []mkt {
	var out []mkt
	for _, m := range w.pk.GetMarkets(ctx) {
		x := mkt{ID: marketIndex(m.MarketID), Active: m.Active, Oracles: []int{}}
		for _, o := range m.Oracles {
			x.Oracles = append(x.Oracles, w.oracleIndex(o))
		}
		out = append(out, x)
	}
	return out
}

// ------------------------------------------------------------ execution

func bigOf(s string) *big.Int {
	x, ok := new(big.Int).SetString(s, 10)
	if !ok {
		return big.NewInt(0)
	}
	return x
}

func coinOf(denom, amt string) sdk.Coin {
	return sdk.Coin{Denom: denom, Amount: sdkmath.NewIntFromBigInt(bigOf(amt))}
}

func (w *world) exec(o op) (Class, error) {
	switch o.Kind {
	case "begin":
		w.height++
		w.ctx = w.ctx.WithBlockTime(time.Unix(0, o.T).UTC()).WithBlockHeight(w.height)
		return Atomically(w.ctx, func(ctx sdk.Context) error {
			cdp.BeginBlocker(ctx, abci.RequestBeginBlock{}, w.ck)
			hard.BeginBlocker(ctx, w.hk)
			return nil
		})
	case "end":
		return Atomically(w.ctx, func(ctx sdk.Context) error {
			pricefeed.EndBlocker(ctx, w.pk)
			return nil
		})
	case "probe":
		return ClassOk, nil // evaluated by probe()
	}
	return Atomically(w.ctx, func(ctx sdk.Context) error {
		switch o.Kind {
		case "post":
			msg := pftypes.NewMsgPostPrice(w.oracles[o.O].String(), marketIDs[o.M], decOf(bigOf(o.Price)), time.Unix(0, o.Expiry).UTC())
			if err := msg.ValidateBasic(); err != nil {
				return err
			}
			_, err := pfkeeper.NewMsgServerImpl(w.pk).PostPrice(sdk.WrapSDKContext(ctx), msg)
			return err
		case "params":
			w.pk.SetParams(ctx, pftypes.NewParams(w.pfMarkets(o.Markets)))
			return nil
		case "cdp_create":
			ct := ctypes[o.Ct]
			msg := cdptypes.NewMsgCreateCDP(w.users[o.U], coinOf(ct.denom, o.Amt), c("usdx", 20_000_000), ct.typ)
			if err := msg.ValidateBasic(); err != nil {
				return err
			}
			_, err := cdpkeeper.NewMsgServerImpl(w.ck).CreateCDP(sdk.WrapSDKContext(ctx), &msg)
			return err
		case "cdp_deposit":
			ct := ctypes[o.Ct]
			msg := cdptypes.NewMsgDeposit(w.users[o.U], w.users[o.U], coinOf(ct.denom, o.Amt), ct.typ)
			if err := msg.ValidateBasic(); err != nil {
				return err
			}
			_, err := cdpkeeper.NewMsgServerImpl(w.ck).Deposit(sdk.WrapSDKContext(ctx), &msg)
			return err
		case "cdp_withdraw":
			ct := ctypes[o.Ct]
			msg := cdptypes.NewMsgWithdraw(w.users[o.U], w.users[o.U], coinOf(ct.denom, o.Amt), ct.typ)
			if err := msg.ValidateBasic(); err != nil {
				return err
			}
			_, err := cdpkeeper.NewMsgServerImpl(w.ck).Withdraw(sdk.WrapSDKContext(ctx), &msg)
			return err
		case "cdp_draw":
			ct := ctypes[o.Ct]
			msg := cdptypes.NewMsgDrawDebt(w.users[o.U], ct.typ, coinOf("usdx", o.Amt))
			if err := msg.ValidateBasic(); err != nil {
				return err
			}
			_, err := cdpkeeper.NewMsgServerImpl(w.ck).DrawDebt(sdk.WrapSDKContext(ctx), &msg)
			return err
		case "cdp_liquidate":
			ct := ctypes[o.Ct]
			msg := cdptypes.NewMsgLiquidate(w.users[o.U], w.users[o.Target], ct.typ)
			if err := msg.ValidateBasic(); err != nil {
				return err
			}
			_, err := cdpkeeper.NewMsgServerImpl(w.ck).Liquidate(sdk.WrapSDKContext(ctx), &msg)
			return err
		case "hard_deposit":
			msg := hardtypes.NewMsgDeposit(w.users[o.U], sdk.NewCoins(coinOf(hardDenoms[o.D], o.Amt)))
			_, err := hardkeeper.NewMsgServerImpl(w.hk).Deposit(sdk.WrapSDKContext(ctx), &msg)
			return err
		case "hard_borrow":
			msg := hardtypes.NewMsgBorrow(w.users[o.U], sdk.Coins{coinOf(hardDenoms[o.D], o.Amt)})
			if err := msg.ValidateBasic(); err != nil {
				return err
			}
			_, err := hardkeeper.NewMsgServerImpl(w.hk).Borrow(sdk.WrapSDKContext(ctx), &msg)
			return err
		case "hard_withdraw":
			msg := hardtypes.NewMsgWithdraw(w.users[o.U], sdk.Coins{coinOf(hardDenoms[o.D], o.Amt)})
			if err := msg.ValidateBasic(); err != nil {
				return err
			}
			_, err := hardkeeper.NewMsgServerImpl(w.hk).Withdraw(sdk.WrapSDKContext(ctx), &msg)
			return err
		case "hard_liquidate":
			msg := hardtypes.NewMsgLiquidate(w.users[o.U], w.users[o.Target])
			if err := msg.ValidateBasic(); err != nil {
				return err
			}
			_, err := hardkeeper.NewMsgServerImpl(w.hk).Liquidate(sdk.WrapSDKContext(ctx), &msg)
			return err
		}
		panic("unknown op kind " + o.Kind)
	})
}

// probe runs SetCurrentPrices(m) on one discarded branch and SetCurrentPricesForAllMarkets on
// another; returns (class of SetCurrentPrices, stored price after it or nil, stored price after the
// all-markets implementation or nil)
func (w *world) probe(m int) (Class, *big.Int, *big.Int) {
	c1, _ := w.ctx.CacheContext()
	var cls Class
	func() {
		defer func() {
			if r := recover(); r != nil {
				cls = ClassPanic
			}
		}()
		if err := w.pk.SetCurrentPrices(c1, marketIDs[m]); err != nil {
			cls = ClassErr
		}
	}()
	s1, _ := w.snapshotD(c1, false)
	c2, _ := w.ctx.CacheContext()
	w.pk.SetCurrentPricesForAllMarkets(c2)
	s2, _ := w.snapshotD(c2, false)
	return cls, s1.cur[m], s2.cur[m]
}

// ------------------------------------------------------------ consumer facts (read from the stores)

type cfacts struct {
	needed   []int // hard: markets looked up, in lookup order (duplicates removed)
	restZero bool  // cdp withdraw: nothing would remain
	collZero bool
	exempt   bool // hard withdraw: the asset leaves the position entirely and is not borrowed
	hasPos   bool
}

func (w *world) consumerFacts(o op) cfacts {
	f := cfacts{}
	add := func(dn string) {
		m, ok := hardMarket[dn]
		if !ok {
			return
		}
		for _, x := range f.needed {
			if x == m {
				return
			}
		}
		f.needed = append(f.needed, m)
	}
	switch o.Kind {
	case "cdp_withdraw", "cdp_draw", "cdp_liquidate":
		owner := w.users[o.U]
		if o.Kind == "cdp_liquidate" {
			owner = w.users[o.Target]
		}
		cd, ok := w.ck.GetCdpByOwnerAndCollateralType(w.ctx, owner, ctypes[o.Ct].typ)
		f.hasPos = ok
		if ok {
			f.collZero = cd.Collateral.IsZero()
			f.restZero = cd.Collateral.Amount.BigInt().Cmp(bigOf(o.Amt)) == 0
		}
	case "hard_borrow", "hard_withdraw", "hard_liquidate":
		u := w.users[o.U]
		if o.Kind == "hard_liquidate" {
			u = w.users[o.Target]
		}
		cctx, _ := w.ctx.CacheContext()
		func() {
			defer func() { _ = recover() }()
			w.hk.SyncBorrowInterest(cctx, u)
			w.hk.SyncSupplyInterest(cctx, u)
		}()
		dep, okd := w.hk.GetDeposit(cctx, u)
		bor, okb := w.hk.GetBorrow(cctx, u)
		f.hasPos = okd
		switch o.Kind {
		case "hard_borrow":
			add(hardDenoms[o.D])
			if okd {
				for _, cn := range dep.Amount {
					add(cn.Denom)
				}
				if okb {
					for _, cn := range bor.Amount {
						add(cn.Denom)
					}
				}
			}
		case "hard_withdraw":
			if okd {
				dn := hardDenoms[o.D]
				remaining := false
				for _, cn := range dep.Amount {
					if cn.Denom == dn {
						if cn.Amount.BigInt().Cmp(bigOf(o.Amt)) > 0 {
							add(cn.Denom)
							remaining = true
						}
					} else {
						add(cn.Denom)
					}
				}
				borrowed := false
				if okb {
					for _, cn := range bor.Amount {
						add(cn.Denom)
						if cn.Denom == dn {
							borrowed = true
						}
					}
				}
				f.exempt = !remaining && !borrowed && dep.Amount.AmountOf(dn).IsPositive()
			}
		case "hard_liquidate":
			f.hasPos = okd && okb
			if okd && okb {
				for _, cn := range bor.Amount {
					add(cn.Denom)
				}
				for _, cn := range dep.Amount {
					add(cn.Denom)
				}
			}
		}
	}
	return f
}

// ------------------------------------------------------------ independent median (monitor)

func indepMedian(prices []*big.Int) *big.Int {
	ps := make([]*big.Int, len(prices))
	copy(ps, prices)
	sort.Slice(ps, func(i, j int) bool { return ps[i].Cmp(ps[j]) < 0 })
	n := len(ps)
	if n%2 == 1 {
		return new(big.Int).Set(ps[n/2])
	}
	sum := new(big.Int).Add(ps[n/2-1], ps[n/2])
	q, rm := new(big.Int).QuoRem(sum, big.NewInt(2), new(big.Int)) // non-negative mantissas
	if rm.Sign() != 0 && q.Bit(0) == 1 {
		q.Add(q, big.NewInt(1)) // exact half: to the even neighbour
	}
	return q
}

func livePrices(s *snap, m int, t int64) []*big.Int {
	var out []*big.Int
	for o := 0; o < nOracles; o++ {
		if e, ok := s.raw[[2]int{m, o}]; ok && e.ex.Cmp(big.NewInt(t)) > 0 {
			out = append(out, e.p)
		}
	}
	return out
}

func eqBig(a, b *big.Int) bool {
	if a == nil || b == nil {
		return a == nil && b == nil
	}
	return a.Cmp(b) == 0
}

func sameRaw(a, b *snap, except *[2]int) bool {
	if len(a.raw) != len(b.raw) && except == nil {
		return false
	}
	for k, v := range b.raw {
		if except != nil && k == *except {
			continue
		}
		x, ok := a.raw[k]
		if !ok || x.p.Cmp(v.p) != 0 || x.ex.Cmp(v.ex) != 0 {
			return false
		}
	}
	for k := range a.raw {
		if _, ok := b.raw[k]; !ok {
			return false
		}
	}
	return true
}

func sameCur(a, b *snap) bool {
	if len(a.cur) != len(b.cur) {
		return false
	}
	for k, v := range b.cur {
		if x, ok := a.cur[k]; !ok || x.Cmp(v) != 0 {
			return false
		}
	}
	return true
}

type mon struct {
	w      *world
	cnt    *Counters
	splits map[string]bool
}

func (mo *mon) mark(k string) {
	mo.splits[k] = true
	if mo.cnt != nil {
		mo.cnt.Inc("split:" + k)
	}
}

func isConsumer(k string) bool { return strings.HasPrefix(k, "cdp_") || strings.HasPrefix(k, "hard_") }

// monitor states the property on the implementation; returns (predicate, signature, detail)
func (mo *mon) monitor(o op, cls Class, before, after *snap, markets []mkt, facts cfacts, prevAccr, accr []int64, cdpCountBefore, cdpCountAfter []int) (string, string, string) {
	w := mo.w
	t := w.ctx.BlockTime().UnixNano()
	if o.Kind != "end" && !sameCur(before, after) {
		return "current-price-written-only-by-end-blocker", "current-price-changed-outside-end-block", o.Kind
	}
	if o.Kind != "post" && !sameRaw(before, after, nil) {
		return "raw-prices-written-only-by-posts", "raw-price-changed-outside-post", o.Kind
	}
	switch o.Kind {
	case "end":
		if cls != ClassOk {
			return "end-blocker-never-fails", "end-blocker-" + cls.String(), ""
		}
		active := map[int]bool{}
		for _, m := range markets {
			if m.Active {
				active[m.ID] = true
			}
		}
		for m := 0; m < nMarkets; m++ {
			if !active[m] {
				if !eqBig(before.cur[m], after.cur[m]) {
					return "inactive-market-untouched", "inactive-market-price-changed", marketIDs[m]
				}
				if after.get[m] != nil && len(livePrices(before, m, t)) == 0 {
					mo.mark("market:inactive-or-removed-serves-price-with-no-live-post")
				}
				continue
			}
			live := livePrices(before, m, t)
			for oi := 0; oi < nOracles; oi++ {
				if e, ok := before.raw[[2]int{m, oi}]; ok {
					if e.ex.Int64() > t && !oracleListed(markets, m, oi) {
						mo.mark("median:includes-live-post-of-delisted-oracle")
					}
					switch e.ex.Int64() - t {
					case 0:
						mo.mark("expiry:eq-block-time-at-end")
					case 1:
						mo.mark("expiry:block-time+1ns-at-end")
					case -1:
						mo.mark("expiry:block-time-1ns-at-end")
					}
				}
			}
			if len(live) == 0 {
				mo.mark("median:none-live")
				if after.get[m] != nil {
					return "none-unexpired-unavailable", "stale-price-served", fmt.Sprintf("%s: no live post at %d but GetCurrentPrice = %s", marketIDs[m], t, after.get[m])
				}
				if c0, ok := after.cur[m]; !ok || c0.Sign() != 0 {
					return "none-unexpired-unavailable", "stale-price-stored", marketIDs[m]
				}
				continue
			}
			exp := indepMedian(live)
			n := len(live)
			if n > 6 {
				n = 6
			}
			mo.mark(fmt.Sprintf("median:n=%d", n))
			if len(live)%2 == 0 {
				ps := append([]*big.Int(nil), live...)
				sort.Slice(ps, func(i, j int) bool { return ps[i].Cmp(ps[j]) < 0 })
				sum := new(big.Int).Add(ps[len(ps)/2-1], ps[len(ps)/2])
				if sum.Bit(0) == 1 {
					if new(big.Int).Mul(exp, big.NewInt(2)).Cmp(sum) > 0 {
						mo.mark("median:half-rounds-up-to-even")
					} else {
						mo.mark("median:half-rounds-down-to-even")
					}
				}
				if ps[len(ps)/2-1].Cmp(ps[len(ps)/2]) == 0 {
					mo.mark("median:tie-in-the-middle")
				}
			}
			if exp.Sign() == 0 {
				mo.mark("median:zero")
				if after.get[m] != nil {
					return "zero-price-unavailable", "zero-price-served", marketIDs[m]
				}
				continue
			}
			if after.get[m] == nil || after.get[m].Cmp(exp) != 0 {
				got := "error"
				if after.get[m] != nil {
					got = after.get[m].String()
				}
				return "current-price-is-median-of-live-posts", "current-price-not-median", fmt.Sprintf("%s at %d: live %v, expected %s, GetCurrentPrice %s", marketIDs[m], t, live, exp, got)
			}
		}
	case "post":
		key := [2]int{o.M, o.O}
		p := bigOf(o.Price)
		authorised := false
		inParams := false
		for _, m := range markets {
			if m.ID == o.M {
				inParams = true
				if !m.Active {
					mo.mark("post:inactive-market")
				}
				for _, x := range m.Oracles {
					if x == o.O {
						authorised = true
					}
				}
				break
			}
		}
		valid := authorised && o.Expiry > t && p.Sign() >= 0 && floorDiv(o.Expiry, 1e9) > 0
		if cls == ClassOk {
			if o.Expiry <= t {
				return "post-expired-refused", "expired-post-accepted", fmt.Sprintf("expiry %d <= block time %d", o.Expiry, t)
			}
			if !authorised {
				return "only-oracles-post", "unauthorised-post-accepted", fmt.Sprintf("oracle %d market %s", o.O, marketIDs[o.M])
			}
			if p.Sign() < 0 {
				return "no-negative-price", "negative-post-accepted", o.Price
			}
			e, ok := after.raw[key]
			if !ok || e.p.Cmp(p) != 0 || e.ex.Int64() != o.Expiry {
				return "post-overwrites-own-entry", "post-not-stored", fmt.Sprintf("%v", key)
			}
			if !sameRaw(before, after, &key) {
				return "post-overwrites-own-entry", "post-changed-other-entry", fmt.Sprintf("%v", key)
			}
			if _, had := before.raw[key]; had {
				mo.mark("post:repost-overwrites")
			}
			if o.Expiry == t+1 {
				mo.mark("post:expiry-block-time+1ns-accepted")
			}
		} else {
			if !sameRaw(before, after, nil) {
				return "failed-op-no-change", "failed-post-changed-state", ""
			}
			if valid {
				return "valid-post-accepted", "valid-post-refused", fmt.Sprintf("oracle %d market %s expiry %d > %d", o.O, marketIDs[o.M], o.Expiry, t)
			}
			switch {
			case !inParams:
				mo.mark("post:unknown-market")
			case !authorised:
				mo.mark("post:unauthorised")
			case p.Sign() < 0:
				mo.mark("post:negative")
			case floorDiv(o.Expiry, 1e9) <= 0:
				mo.mark("post:expiry-unix-nonpositive")
			case o.Expiry == t:
				mo.mark("post:expiry-eq-block-time-refused")
			default:
				mo.mark("post:expired-refused")
			}
		}
	case "begin":
		if cls != ClassOk {
			return "begin-blocker-never-fails", "begin-blocker-" + cls.String(), ""
		}
		for i, ct := range ctypes {
			missing := before.get[ct.spot] == nil || before.get[ct.liq] == nil
			proceeded := accr[i] == t
			if missing {
				if before.get[ct.spot] == nil {
					mo.mark("begin:skip-spot-missing")
				} else {
					mo.mark("begin:skip-liquidation-price-missing")
				}
				if proceeded || cdpCountAfter[i] != cdpCountBefore[i] {
					return "no-begin-block-liquidation-without-price", "begin-block-acted-without-price", ct.typ
				}
			} else {
				mo.mark("begin:proceed")
				if !proceeded {
					return "begin-block-proceeds-with-prices", "begin-block-skipped-with-prices", ct.typ
				}
			}
			// status flags follow availability
			if after.status[ct.spot] != (before.get[ct.spot] != nil) {
				return "cdp-status-follows-availability", "status-flag-out-of-sync", marketIDs[ct.spot]
			}
			if before.get[ct.spot] != nil && after.status[ct.liq] != (before.get[ct.liq] != nil) {
				return "cdp-status-follows-availability", "status-flag-out-of-sync", marketIDs[ct.liq]
			}
		}
	}
	if isConsumer(o.Kind) {
		if cls != ClassOk && before.digest != after.digest {
			return "refused-means-no-state-change", "refused-consumer-changed-state", o.Kind
		}
		miss := func(m int) bool { return before.get[m] == nil }
		missing := false
		switch o.Kind {
		case "cdp_create", "cdp_deposit", "cdp_withdraw":
			missing = miss(ctypes[o.Ct].spot) || miss(ctypes[o.Ct].liq)
			if !miss(ctypes[o.Ct].spot) && miss(ctypes[o.Ct].liq) {
				mo.mark("cdp:spot-available-liquidation-missing")
			}
		case "cdp_draw":
			missing = miss(ctypes[o.Ct].spot)
		case "cdp_liquidate":
			missing = miss(ctypes[o.Ct].liq)
		case "hard_borrow":
			missing = miss(hardMarket[hardDenoms[o.D]])
			for _, m := range facts.needed {
				missing = missing || miss(m)
			}
			if missing && !miss(hardMarket[hardDenoms[o.D]]) && cls != ClassOk {
				mo.mark("hard_borrow:priced-asset-refused-for-unpriced-position")
			}
		case "hard_withdraw":
			if facts.exempt {
				if miss(hardMarket[hardDenoms[o.D]]) && cls == ClassOk {
					mo.mark("hard_withdraw:whole-asset-out-price-not-needed-ok")
				}
			} else if facts.hasPos {
				missing = miss(hardMarket[hardDenoms[o.D]])
			}
			for _, m := range facts.needed {
				missing = missing || miss(m)
			}
			if missing && !miss(hardMarket[hardDenoms[o.D]]) && cls != ClassOk {
				mo.mark("hard_withdraw:priced-asset-refused-for-unpriced-position")
			}
		case "hard_liquidate":
			for _, m := range facts.needed {
				missing = missing || miss(m)
			}
		}
		switch {
		case missing && cls == ClassOk:
			return "no-price-no-action", "consumer-proceeded-without-price:" + o.Kind, fmt.Sprintf("%+v", o)
		case missing:
			mo.mark("consumer:" + o.Kind + ":price-missing-refused")
		case cls == ClassOk:
			mo.mark("consumer:" + o.Kind + ":price-available-ok")
		default:
			mo.mark("consumer:" + o.Kind + ":price-available-refused-otherwise")
		}
	}
	return "", "", ""
}

func floorDiv(a, b int64) int64 {
	q := a / b
	if (a%b != 0) && ((a < 0) != (b < 0)) {
		q--
	}
	return q
}

// ------------------------------------------------------------ generation

type gen struct {
	r       *Rng
	sc      *scenario
	block   int // index into sc.times of the current block
	pending []op
}

func (g *gen) price(w *world, s *snap, m int) *big.Int {
	r := g.r
	base := g.sc.base[m]
	switch r.Pick(40, 18, 12, 6, 8, 4, 4, 8) {
	case 0:
		return jitter(r, base)
	case 1: // tie with an existing post of this market
		var cands []*big.Int
		for o := 0; o < nOracles; o++ {
			if e, ok := s.raw[[2]int{m, o}]; ok {
				cands = append(cands, e.p)
			}
		}
		if len(cands) > 0 {
			x := new(big.Int).Set(cands[r.Intn(len(cands))])
			if r.Chance(1, 3) {
				x.Add(x, big.NewInt(int64(r.Intn(3)-1)))
			}
			if x.Sign() < 0 {
				x.SetInt64(0)
			}
			return x
		}
		return jitter(r, base)
	case 2: // smallest mantissas: exact halves
		return big.NewInt(int64(1 + r.Intn(6)))
	case 3:
		return big.NewInt(0)
	case 4: // crash
		return new(big.Int).Quo(jitter(r, base), big.NewInt(int64(50+r.Intn(200))))
	case 5: // huge
		return r.BigBits(100 + r.Intn(120))
	case 6: // negative (malformed)
		return big.NewInt(-int64(1 + r.Intn(1000)))
	default:
		x := jitter(r, base)
		x.Quo(x, Pow10(15))
		return x.Mul(x, Pow10(15)) // three decimals, as real oracles post
	}
}

func (g *gen) expiry(now int64) int64 {
	r := g.r
	switch r.Pick(70, 15, 3, 2, 10) {
	case 0:
		k := []int{0, 1, 1, 1, 2, 2, 3, 4, 6}[r.Intn(9)]
		i := g.block + k
		var base int64
		if i < len(g.sc.times) {
			base = g.sc.times[i]
		} else {
			base = g.sc.times[len(g.sc.times)-1] + int64(k)*3e9
		}
		return base + []int64{-1, 0, 0, 1, 1, 500_000_000, -500_000_000}[r.Intn(7)]
	case 1:
		return now + 3600e9
	case 2:
		return []int64{0, 999_999_999, 1_000_000_000, 1}[r.Intn(4)]
	case 3:
		return -int64(1 + r.Intn(2_000_000_000))
	default:
		return now + []int64{-1e9, -1, 0, 1, 1e9}[r.Intn(5)]
	}
}

// mixedPosition looks for a user whose hard position (deposit or borrow) holds a denom
// whose price is missing, and a denom whose price is available
func (g *gen) mixedPosition(w *world, s *snap) (int, int, bool) {
	var availD []int
	for d, dn := range hardDenoms {
		if s.get[hardMarket[dn]] != nil {
			availD = append(availD, d)
		}
	}
	if len(availD) == 0 || len(availD) == len(hardDenoms) {
		return 0, 0, false
	}
	start := g.r.Intn(nUsers)
	for k := 0; k < nUsers; k++ {
		u := (start + k) % nUsers
		var coins sdk.Coins
		if d, ok := w.hk.GetDeposit(w.ctx, w.users[u]); ok {
			coins = coins.Add(d.Amount...)
		}
		if b, ok := w.hk.GetBorrow(w.ctx, w.users[u]); ok {
			coins = coins.Add(b.Amount...)
		}
		for _, cn := range coins {
			if m, ok := hardMarket[cn.Denom]; ok && s.get[m] == nil {
				return u, availD[g.r.Intn(len(availD))], true
			}
		}
	}
	return 0, 0, false
}

func (g *gen) tx(w *world, s *snap) op {
	r := g.r
	now := w.ctx.BlockTime().UnixNano()
	markets := w.paramMarkets(w.ctx)
	if len(g.pending) > 0 {
		o := g.pending[0]
		g.pending = g.pending[1:]
		if o.Expiry <= now {
			o.Expiry = now + 3600e9
		}
		return o
	}
	switch r.Pick(44, 38, 9) {
	case 0: // post
		m := r.Intn(nParamMk)
		o := r.Intn(6)
		if r.Chance(1, 12) && len(markets) > 0 {
			// burst: every authorised oracle of one market posts (a crash, or fresh prices after a gap)
			mk := markets[r.Intn(len(markets))]
			crash := r.Chance(1, 2)
			ex := g.expiry(now)
			if ex <= now || r.Chance(1, 2) {
				ex = now + 3600e9
			}
			for _, oi := range mk.Oracles {
				p := jitter(r, g.sc.base[mk.ID])
				if crash {
					p.Quo(p, big.NewInt(300))
				}
				g.pending = append(g.pending, op{Kind: "post", O: oi, M: mk.ID, Price: p.String(), Expiry: ex})
			}
			if len(g.pending) > 0 {
				first := g.pending[0]
				g.pending = g.pending[1:]
				return first
			}
		}
		// mostly an authorised oracle
		for _, mk := range markets {
			if mk.ID == m && len(mk.Oracles) > 0 && r.Chance(9, 10) {
				o = mk.Oracles[r.Intn(len(mk.Oracles))]
			}
		}
		if r.Chance(1, 40) {
			o = 6
		}
		if r.Chance(1, 40) {
			m = 4
		}
		return op{Kind: "post", O: o, M: m, Price: g.price(w, s, m).String(), Expiry: g.expiry(now)}
	case 1: // consumer
		u := r.Intn(2)
		switch r.Pick(10, 14, 14, 14, 10, 14, 14, 10) {
		case 0:
			return op{Kind: "cdp_create", U: r.Intn(3), Ct: r.Intn(2), Amt: fmt.Sprint(1_000_000_000 + r.Int63n(1_000_000_000))}
		case 1:
			return op{Kind: "cdp_deposit", U: u, Ct: r.Intn(2), Amt: fmt.Sprint(1 + r.Int63n(50_000_000))}
		case 2:
			o := op{Kind: "cdp_withdraw", U: u, Ct: r.Intn(2), Amt: fmt.Sprint(1 + r.Int63n(20_000_000))}
			if r.Chance(1, 8) {
				if cd, ok := w.ck.GetCdpByOwnerAndCollateralType(w.ctx, w.users[u], ctypes[o.Ct].typ); ok {
					o.Amt = cd.Collateral.Amount.String() // everything
				}
			}
			return o
		case 3:
			return op{Kind: "cdp_draw", U: u, Ct: r.Intn(2), Amt: fmt.Sprint(1 + r.Int63n(5_000_000))}
		case 4:
			return op{Kind: "cdp_liquidate", U: 2, Target: u, Ct: r.Intn(2)}
		case 5:
			o := op{Kind: "hard_borrow", U: r.Intn(3), D: r.Intn(3), Amt: fmt.Sprint(1 + r.Int63n(3_000_000))}
			if uu, dd, ok := g.mixedPosition(w, s); ok && r.Chance(2, 3) {
				o.U, o.D = uu, dd // an asset with a price, for a user whose position holds one without
			}
			return o
		case 6:
			o := op{Kind: "hard_withdraw", U: r.Intn(3), D: r.Intn(3), Amt: fmt.Sprint(1 + r.Int63n(3_000_000))}
			if uu, dd, ok := g.mixedPosition(w, s); ok && r.Chance(1, 2) {
				o.U, o.D = uu, dd
			}
			if r.Chance(1, 4) {
				o.Amt = "1000000000000000" // more than the deposit: the whole asset leaves
			}
			return o
		default:
			return op{Kind: "hard_liquidate", U: 2, Target: u}
		}
	default: // parameter change
		ms := append([]mkt(nil), markets...)
		for i := range ms {
			ms[i].Oracles = append([]int(nil), ms[i].Oracles...)
		}
		switch r.Pick(40, 15, 15, 10, 12, 4, 4) {
		case 0: // toggle active
			if len(ms) > 0 {
				i := r.Intn(len(ms))
				ms[i].Active = !ms[i].Active
			}
		case 1: // remove an oracle
			if len(ms) > 0 {
				i := r.Intn(len(ms))
				if len(ms[i].Oracles) > 0 {
					j := r.Intn(len(ms[i].Oracles))
					ms[i].Oracles = append(ms[i].Oracles[:j], ms[i].Oracles[j+1:]...)
				}
			}
		case 2: // add an oracle
			if len(ms) > 0 {
				i := r.Intn(len(ms))
				o := r.Intn(6)
				dup := false
				for _, x := range ms[i].Oracles {
					dup = dup || x == o
				}
				if !dup {
					ms[i].Oracles = append(ms[i].Oracles, o)
				}
			}
		case 3: // remove a market
			if len(ms) > 1 {
				i := r.Intn(len(ms))
				ms = append(ms[:i], ms[i+1:]...)
			}
		case 4: // restore a missing market
			for m := 0; m < nParamMk; m++ {
				found := false
				for _, x := range ms {
					found = found || x.ID == m
				}
				if !found {
					ms = append(ms, mkt{ID: m, Active: r.Chance(3, 4), Oracles: []int{r.Intn(6)}})
					break
				}
			}
		case 5: // malformed: duplicated market
			if len(ms) > 0 {
				ms = append(ms, ms[r.Intn(len(ms))])
			}
		default: // malformed: duplicated oracle
			if len(ms) > 0 {
				i := r.Intn(len(ms))
				if len(ms[i].Oracles) > 0 {
					ms[i].Oracles = append(ms[i].Oracles, ms[i].Oracles[0])
				}
			}
		}
		return op{Kind: "params", Markets: ms}
	}
}

// ------------------------------------------------------------ Coq rendering

func coqMarkets(ms []mkt) string {
	it := make([]string, len(ms))
	for i, m := range ms {
		os := make([]string, len(m.Oracles))
		for j, o := range m.Oracles {
			os[j] = Nat(o)
		}
		it[i] = fmt.Sprintf("mkMarket %s %s %s", Nat(m.ID), Bool(m.Active), List(os))
	}
	return List(it)
}

func coqNats(xs []int) string {
	it := make([]string, len(xs))
	for i, x := range xs {
		it[i] = Nat(x)
	}
	return List(it)
}

func coqOp(o op, cls Class, f cfacts) string {
	switch o.Kind {
	case "begin":
		return fmt.Sprintf("BeginBlock %s", Zi(o.T))
	case "end":
		return "EndBlock"
	case "post":
		return fmt.Sprintf("Post %s %s %s %s", Nat(o.O), Nat(o.M), Z(bigOf(o.Price)), Zi(o.Expiry))
	case "params":
		return fmt.Sprintf("SetMarkets %s", coqMarkets(o.Markets))
	case "probe":
		return fmt.Sprintf("ProbeOne %s", Nat(o.M))
	case "cdp_create":
		return fmt.Sprintf("Consume (CdpCreate %s) %s", Nat(o.Ct), cls.Coq())
	case "cdp_deposit":
		return fmt.Sprintf("Consume (CdpDeposit %s) %s", Nat(o.Ct), cls.Coq())
	case "cdp_withdraw":
		return fmt.Sprintf("Consume (CdpWithdraw %s %s) %s", Nat(o.Ct), Bool(f.restZero), cls.Coq())
	case "cdp_draw":
		return fmt.Sprintf("Consume (CdpDraw %s %s) %s", Nat(o.Ct), Bool(f.collZero), cls.Coq())
	case "cdp_liquidate":
		return fmt.Sprintf("Consume (CdpLiquidate %s %s) %s", Nat(o.Ct), Bool(f.collZero), cls.Coq())
	case "hard_borrow":
		return fmt.Sprintf("Consume (HardBorrow %s) %s", coqNats(f.needed), cls.Coq())
	case "hard_withdraw":
		return fmt.Sprintf("Consume (HardWithdraw %s) %s", coqNats(f.needed), cls.Coq())
	case "hard_liquidate":
		return fmt.Sprintf("Consume (HardLiquidate %s) %s", coqNats(f.needed), cls.Coq())
	}
	panic("coqOp " + o.Kind)
}

func sortedRawKeys(s *snap) [][2]int {
	ks := make([][2]int, 0, len(s.raw))
	for k := range s.raw {
		ks = append(ks, k)
	}
	sort.Slice(ks, func(i, j int) bool {
		if ks[i][0] != ks[j][0] {
			return ks[i][0] < ks[j][0]
		}
		return ks[i][1] < ks[j][1]
	})
	return ks
}

func coqRaw(before, after *snap) string {
	var it []string
	for _, k := range sortedRawKeys(after) {
		e := after.raw[k]
		if before != nil {
			if b, ok := before.raw[k]; ok && b.p.Cmp(e.p) == 0 && b.ex.Cmp(e.ex) == 0 {
				continue
			}
		}
		it = append(it, fmt.Sprintf("(%s, %s, %s, %s)", Nat(k[0]), Nat(k[1]), Z(e.p), Z(e.ex)))
	}
	return List(it)
}

func coqCur(before, after *snap) string {
	var it []string
	for m := 0; m < nMarkets; m++ {
		v, ok := after.cur[m]
		if !ok {
			continue
		}
		if before != nil {
			if b, ok := before.cur[m]; ok && b.Cmp(v) == 0 {
				continue
			}
		}
		it = append(it, fmt.Sprintf("(%s, %s)", Nat(m), Z(v)))
	}
	return List(it)
}

func coqGet(s *snap) string {
	it := make([]string, nMarkets)
	for m := 0; m < nMarkets; m++ {
		if s.get[m] == nil {
			it[m] = "None"
		} else {
			it[m] = "Some " + Z(s.get[m])
		}
	}
	return List(it)
}

func coqObs(cls Class, out []int64, before, after *snap) string {
	os := make([]string, len(out))
	for i, x := range out {
		os[i] = Zi(x)
	}
	return fmt.Sprintf("mkObs %s %s %s %s %s %s", cls.Coq(), List(os), coqRaw(before, after), coqCur(before, after), BoolList(after.status), coqGet(after))
}

func coqEnv() string {
	it := make([]string, len(ctypes))
	for i, ct := range ctypes {
		it[i] = fmt.Sprintf("(%s, %s)", Nat(ct.spot), Nat(ct.liq))
	}
	return fmt.Sprintf("(mkEnv %s %s %s)", Nat(nMarkets), Nat(nOracles), List(it))
}

// ------------------------------------------------------------ history runner

type hist struct {
	Seed uint64 `json:"seed"`
	Idx  int    `json:"history"`
	Len  int    `json:"len"`
	Ops  []op   `json:"ops"`
}

type runOut struct {
	ops        []op
	coq        string
	fail       *Failure
	okOps      int
	splits     map[string]bool
	nontrivial bool
}

func (w *world) accrualTimes() []int64 {
	out := make([]int64, len(ctypes))
	for i, ct := range ctypes {
		if t, ok := w.ck.GetPreviousAccrualTime(w.ctx, ct.typ); ok {
			out[i] = t.UnixNano()
		}
	}
	return out
}

func (w *world) cdpCounts() []int {
	out := make([]int, len(ctypes))
	for i, ct := range ctypes {
		out[i] = len(w.ck.GetAllCdpsByCollateralType(w.ctx, ct.typ))
	}
	return out
}

func kindErr(err error) string {
	if err == nil {
		return "none"
	}
	m := err.Error()
	for _, k := range []string{"price is expired", "oracle does not exist", "market does not exist", "pricefeed", "no price found", "all input prices are expired", "not liquidatable", "within valid LTV", "collateral ratio", "loan-to-value", "already exists", "not found", "insufficient", "exceeds", "negative", "expiration"} {
		if strings.Contains(m, k) {
			return strings.ReplaceAll(k, " ", "-")
		}
	}
	return "other"
}

// runHist executes generated (ops == nil) or explicit operations
func runHist(seed uint64, idx, n int, ops []op, cnt *Counters) runOut {
	return runHistX(seed, idx, n, ops, ops != nil, cnt)
}

func runHistX(seed uint64, idx, n int, ops []op, explicit bool, cnt *Counters) runOut {
	r := NewRng(seed, uint64(idx))
	nblocks := n/5 + 2
	sc := genScenario(r, nblocks)
	w, perr := setupSafe(sc)
	if perr != "" {
		// a valid genesis (every posted price expires after the genesis time) must initialise
		return runOut{splits: map[string]bool{}, ops: ops,
			coq:  fmt.Sprintf("mkHist %s (mk_state 0 [] [] [] []) []", coqEnv()),
			fail: &Failure{History: idx, Step: 0, Predicate: "valid-genesis-initialises", Signature: "genesis-panic", Detail: perr}}
	}
	g := &gen{r: r, sc: sc, block: -1}
	mo := &mon{w: w, cnt: cnt, splits: map[string]bool{}}
	out := runOut{splits: mo.splits}

	prev, _ := w.snapshot(w.ctx)
	init := fmt.Sprintf("(mk_state %s %s %s %s %s)", Zi(w.ctx.BlockTime().UnixNano()), coqMarkets(w.paramMarkets(w.ctx)), coqRaw(nil, prev), coqCur(nil, prev), BoolList(prev.status))
	var steps []string
	medianSeen, refusedSeen := false, false

	// generation state: position within the block
	inBlock := false
	txLeft := 0
	probesLeft := 0
	total := n
	if explicit {
		total = len(ops)
	}
	for i := 0; i < total; i++ {
		var o op
		if explicit {
			o = ops[i]
		} else {
			switch {
			case !inBlock:
				g.block++
				t := sc.times[len(sc.times)-1] + int64(g.block)*2e9
				if g.block < len(sc.times) {
					t = sc.times[g.block]
				}
				o = op{Kind: "begin", T: t}
				inBlock = true
				txLeft = r.Intn(7)
				probesLeft = r.Intn(3)
			case txLeft > 0:
				o = g.tx(w, prev)
				txLeft--
			case probesLeft > 0:
				o = op{Kind: "probe", M: r.Intn(nMarkets)}
				probesLeft--
			default:
				o = op{Kind: "end"}
				inBlock = false
			}
		}
		markets := w.paramMarkets(w.ctx)
		facts := cfacts{}
		if isConsumer(o.Kind) {
			facts = w.consumerFacts(o)
		}
		prevAccr, cdpBefore := w.accrualTimes(), w.cdpCounts()
		var outv []int64
		var cls Class
		var err error
		var fail *Failure
		if o.Kind == "probe" {
			pc, one, all := w.probe(o.M)
			cls = ClassOk
			code := int64(pc)
			stored := int64(-1)
			outv = []int64{code, stored}
			oneS := "-1"
			if one != nil {
				oneS = one.String()
			}
			// rendered below with the big value
			active := false
			for _, m := range markets {
				active = active || (m.ID == o.M && m.Active)
			}
			if active && !eqBig(one, all) {
				fail = &Failure{Predicate: "two-implementations-agree", Signature: "implementations-disagree", Detail: fmt.Sprintf("%s: SetCurrentPrices stores %s, SetCurrentPricesForAllMarkets stores %v", marketIDs[o.M], oneS, all)}
			}
			switch {
			case pc == ClassOk:
				mo.mark("probe:ok")
			case pc == ClassErr && marketKnown(markets, o.M):
				mo.mark("probe:err-none-live")
			case pc == ClassErr:
				mo.mark("probe:err-unknown-market")
			}
			after, _ := w.snapshot(w.ctx)
			obs := fmt.Sprintf("mkObs ROk [%d; %s] [] [] %s %s", code, zOrMinus1(one), BoolList(after.status), coqGet(after))
			steps = append(steps, fmt.Sprintf("(%s,\n    %s)", coqOp(o, cls, facts), obs))
			out.ops = append(out.ops, o)
			if cnt != nil {
				cnt.Inc("op:probe:ok")
			}
			if fail != nil && out.fail == nil {
				fail.History, fail.Step = idx, i
				out.fail = fail
			}
			out.okOps++
			prev = after
			continue
		}
		cls, err = w.exec(o)
		after, bad := w.snapshot(w.ctx)
		accr, cdpAfter := w.accrualTimes(), w.cdpCounts()
		if o.Kind == "begin" && cls == ClassOk {
			t := w.ctx.BlockTime().UnixNano()
			for k := range ctypes {
				if accr[k] == t {
					outv = append(outv, 1)
				} else {
					outv = append(outv, 0)
				}
			}
		}
		out.ops = append(out.ops, o)
		if cnt != nil {
			cnt.Inc("op:" + o.Kind + ":" + cls.String())
			if cls == ClassErr {
				cnt.Inc("err:" + kindErr(err))
			}
		}
		if cls == ClassOk {
			out.okOps++
		}
		steps = append(steps, fmt.Sprintf("(%s,\n    %s)", coqOp(o, cls, facts), coqObs(cls, outv, prev, after)))
		if bad != "" && out.fail == nil {
			out.fail = &Failure{History: idx, Step: i, Predicate: "raw-store-well-formed", Signature: "raw-key-value-mismatch", Detail: bad}
		}
		if pred, sig, detail := mo.monitor(o, cls, prev, after, markets, facts, prevAccr, accr, cdpBefore, cdpAfter); pred != "" && out.fail == nil {
			out.fail = &Failure{History: idx, Step: i, Predicate: pred, Signature: sig, Detail: detail}
		}
		if o.Kind == "end" {
			for k := range mo.splits {
				if strings.HasPrefix(k, "median:n=") && k != "median:n=1" {
					medianSeen = true
				}
			}
		}
		if isConsumer(o.Kind) && mo.splits["consumer:"+o.Kind+":price-missing-refused"] {
			refusedSeen = true
		}
		prev = after
		if cls == ClassPanic && (o.Kind == "begin" || o.Kind == "end") {
			break // chain halt
		}
	}
	out.nontrivial = medianSeen && refusedSeen
	out.coq = fmt.Sprintf("mkHist %s\n  %s\n  %s", coqEnv(), init, List(steps))
	return out
}

func oracleListed(ms []mkt, m, o int) bool {
	for _, x := range ms {
		if x.ID == m {
			for _, y := range x.Oracles {
				if y == o {
					return true
				}
			}
			return false
		}
	}
	return false
}

func marketKnown(ms []mkt, m int) bool {
	for _, x := range ms {
		if x.ID == m {
			return true
		}
	}
	return false
}

func zOrMinus1(x *big.Int) string {
	if x == nil {
		return "(-1)"
	}
	return Z(x)
}

var allSplits = []string{
	"median:n=1", "median:n=2", "median:n=3", "median:n=4", "median:n=5", "median:n=6",
	"median:none-live", "median:zero", "median:half-rounds-up-to-even", "median:half-rounds-down-to-even", "median:tie-in-the-middle",
	"expiry:eq-block-time-at-end", "expiry:block-time+1ns-at-end", "expiry:block-time-1ns-at-end",
	"post:repost-overwrites", "post:expiry-block-time+1ns-accepted", "post:expiry-eq-block-time-refused", "post:expired-refused",
	"post:unauthorised", "post:unknown-market", "post:negative", "post:inactive-market", "post:expiry-unix-nonpositive",
	"market:inactive-or-removed-serves-price-with-no-live-post", "median:includes-live-post-of-delisted-oracle",
	"probe:ok", "probe:err-none-live", "probe:err-unknown-market",
	"begin:proceed", "begin:skip-spot-missing", "begin:skip-liquidation-price-missing",
	"cdp:spot-available-liquidation-missing", "hard_withdraw:whole-asset-out-price-not-needed-ok",
	"hard_borrow:priced-asset-refused-for-unpriced-position", "hard_withdraw:priced-asset-refused-for-unpriced-position",
	"consumer:cdp_create:price-missing-refused", "consumer:cdp_deposit:price-missing-refused", "consumer:cdp_withdraw:price-missing-refused",
	"consumer:cdp_draw:price-missing-refused", "consumer:cdp_liquidate:price-missing-refused",
	"consumer:hard_borrow:price-missing-refused", "consumer:hard_withdraw:price-missing-refused", "consumer:hard_liquidate:price-missing-refused",
	"consumer:cdp_create:price-available-ok", "consumer:cdp_deposit:price-available-ok", "consumer:cdp_withdraw:price-available-ok",
	"consumer:cdp_draw:price-available-ok", "consumer:cdp_liquidate:price-available-ok",
	"consumer:hard_borrow:price-available-ok", "consumer:hard_withdraw:price-available-ok", "consumer:hard_liquidate:price-available-ok",
}

func run(o Opts) (*Result, error) {
	n := o.Len
	if n == 0 {
		n = defaultL
	}
	res := &Result{Property: "C18", Seed: o.Seed,
		Rule: "block-structured histories of " + fmt.Sprint(n) + " operations (cdp begin blocker, MsgPostPrice, pricefeed parameter changes, cdp and hard messages, SetCurrentPrices probes, pricefeed end blocker) generated from splitmix64(seed, history index) on a fresh app.TestApp with PRNG-chosen oracle sets, genesis posts and block times; a history is non-trivial when some end blocker computed a median of two or more live posts and some cdp or hard message was refused because a needed price was missing; distinct by hash of the operation list"}
	cnt := NewCounters()

	if o.Replay != "" {
		bz, err := os.ReadFile(o.Replay)
		if err != nil {
			return nil, err
		}
		var h hist
		if err := json.Unmarshal(bz, &h); err != nil {
			return nil, err
		}
		if h.Len == 0 {
			h.Len = n
		}
		ro := runHistX(h.Seed, h.Idx, h.Len, h.Ops, true, cnt)
		name, err := WriteShard(o.OutDir, 0, coqHeader, []string{ro.coq}, "mismatches")
		if err != nil {
			return nil, err
		}
		res.Shards = []string{name}
		res.HistIndex = []HistRef{{0, 0, h.Idx, MustJSON(h)}}
		res.Histories, res.Evaluations = 1, len(h.Ops)
		if ro.fail != nil {
			ro.fail.Replay = MustJSON(h)
			res.Failures = append(res.Failures, *ro.fail)
		}
		res.Counters = cnt.Map()
		return res, nil
	}

	outs := make([]runOut, o.N)
	ParallelFor(o.N, o.Workers, func(i int) {
		ro := runHist(o.Seed, i, n, nil, cnt)
		if ro.fail != nil && len(ro.ops) == 0 {
			ro.fail.Replay = MustJSON(hist{o.Seed, i, n, []op{}})
		} else if ro.fail != nil {
			sig := ro.fail.Signature
			fails := func(cand []op) bool {
				f := runHistX(o.Seed, i, n, cand, true, nil).fail
				return f != nil && f.Signature == sig
			}
			small := Shrink(ro.ops[:ro.fail.Step+1], fails)
			if f2 := runHistX(o.Seed, i, n, small, true, nil).fail; f2 != nil {
				f2.History = i
				f2.Replay = MustJSON(hist{o.Seed, i, n, small})
				ro.fail = f2
			} else {
				ro.fail.Replay = MustJSON(hist{o.Seed, i, n, ro.ops[:ro.fail.Step+1]})
			}
		}
		outs[i] = ro
	})

	seen := map[string]bool{}
	perShard := 20
	var cases []string
	shard := 0
	flush := func() error {
		if len(cases) == 0 {
			return nil
		}
		name, err := WriteShard(o.OutDir, shard, coqHeader, cases, "mismatches")
		if err != nil {
			return err
		}
		res.Shards = append(res.Shards, name)
		shard++
		cases = nil
		return nil
	}
	for i, ot := range outs {
		res.Histories++
		res.Evaluations += len(ot.ops)
		h := hist{o.Seed, i, n, ot.ops}
		key := string(MustJSON(ot.ops))
		if ot.nontrivial && !seen[key] {
			seen[key] = true
			res.DistinctNontrivial++
		}
		if i < 2 {
			res.Samples = append(res.Samples, h)
		}
		res.HistIndex = append(res.HistIndex, HistRef{shard, len(cases), i, MustJSON(h)})
		cases = append(cases, ot.coq)
		if len(cases) == perShard {
			if err := flush(); err != nil {
				return nil, err
			}
		}
		if ot.fail != nil {
			res.Failures = append(res.Failures, *ot.fail)
		}
	}
	if err := flush(); err != nil {
		return nil, err
	}
	res.Counters = cnt.Map()
	for _, k := range allSplits {
		if res.Counters["split:"+k] == 0 {
			res.QualityGate = append(res.QualityGate, k)
		}
	}
	res.Extra = map[string]any{
		"observation2": "a post of an oracle that was later removed from the market's oracle list keeps counting until it expires (split:median:includes-live-post-of-delisted-oracle)",
		"observation":  "markets that are inactive or removed from the params keep their last current price (the end blocker skips them); counted in split:market:inactive-or-removed-serves-price-with-no-live-post; see Coq C18_inactive_market_price_frozen / C18_no_stale_price_any_market_refuted",
	}
	return res, nil
}
