package c16

// View: everything the authorisation guards read, and every position the
// property talks about, read from the implementation through store iteration
// (GetAll*/Iterate* and params), never through the lookup the guard itself
// uses.  Used by the generator, the monitors and the Coq rendering.

import (
	. "kavaverif/lib"

	"fmt"
	"math/big"
	"sort"
	"strings"

	sdk "github.com/cosmos/cosmos-sdk/types"

	bep3types "github.com/kava-labs/kava/x/bep3/types"
	committeetypes "github.com/kava-labs/kava/x/committee/types"
	hardtypes "github.com/kava-labs/kava/x/hard/types"
	savingstypes "github.com/kava-labs/kava/x/savings/types"
)

type assetView struct {
	owner              int
	paused, blockable  bool
	blocked            []int
	rlActive           bool
	rlLimit, curSupply *big.Int
}

type swapView struct {
	sender, recipient, denom int
	amount                   *big.Int
	incoming                 bool
}

type comView struct {
	id         int
	members    []int
	memberType bool
	dur        int64
}

type propView struct {
	id, com  int
	deadline int64
}

type voteView struct{ pid, voter, vt int }

type cdpView struct {
	id, owner, ctype  int
	coll, princ, fees *big.Int
	deps              []*big.Int // per actor
}

type c16View struct {
	markets    [][]int
	prices     map[[2]int][2]*big.Int
	assets     []assetView
	issBal     [][]*big.Int // [user][asset]
	b3dep      []int
	swapCount  int
	swaps      []swapView // the ones created in this history, newest first
	allSwaps   []swapView // every swap in the store (unordered)
	coms       []comView
	props      []propView
	nextPid    int
	votes      []voteView
	cparams    [3]*big.Int
	cdps       []cdpView
	nextCdp    int
	hard, sav  [][]*big.Int // [actor][denom]
	pools      [][3]*big.Int
	swapShares [][]*big.Int // [actor][pool]
	earn       [][]*big.Int // [actor][denom] share mantissas
	earnVal    [][]*big.Int // [actor][denom] value of the shares in coins (generator only)
	bank       [][]*big.Int // [actor][bankDenoms]
	exist      []bool       // x/auth has an account for the actor
	unknown    []string     // records held by addresses that are not actors
}

var c16BankDenoms = []string{"bnb", "btcb", "ukava", "usdx", "xrp"}

func zeros(n int) []*big.Int {
	out := make([]*big.Int, n)
	for i := range out {
		out[i] = new(big.Int)
	}
	return out
}

func grid(n, m int) [][]*big.Int {
	out := make([][]*big.Int, n)
	for i := range out {
		out[i] = zeros(m)
	}
	return out
}

func (w *c16World) actor(a sdk.AccAddress) int {
	if i, ok := w.idx[a.String()]; ok {
		return i
	}
	return -1
}

func indexOf(l []string, s string) int {
	for i, x := range l {
		if x == s {
			return i
		}
	}
	return -1
}

func (w *c16World) swapView(s bep3types.AtomicSwap) swapView {
	return swapView{w.actor(s.Sender), w.actor(s.Recipient), indexOf(c16B3Denoms, s.Amount[0].Denom),
		s.Amount[0].Amount.BigInt(), s.Direction == bep3types.SWAP_DIRECTION_INCOMING}
}

func (w *c16World) view(ctx sdk.Context) *c16View {
	v := &c16View{prices: map[[2]int][2]*big.Int{}}
	t := w.tApp
	note := func(what string, a sdk.AccAddress) int {
		i := w.actor(a)
		if i < 0 {
			v.unknown = append(v.unknown, what+":"+a.String())
		}
		return i
	}
	// pricefeed
	pk := t.GetPriceFeedKeeper()
	for mi, m := range pk.GetParams(ctx).Markets {
		var os []int
		for _, o := range m.Oracles {
			os = append(os, note("oracle", o))
		}
		v.markets = append(v.markets, os)
		for _, rp := range pk.GetRawPrices(ctx, m.MarketID) {
			if a := w.actor(rp.OracleAddress); a >= 0 {
				v.prices[[2]int{mi, a}] = [2]*big.Int{rp.Price.BigInt(), big.NewInt(rp.Expiry.Unix())}
			}
		}
	}
	// issuance
	ik := t.GetIssuanceKeeper()
	bk := t.GetBankKeeper()
	assets := ik.GetParams(ctx).Assets
	v.issBal = grid(c16NUsers, len(assets))
	for ai, a := range assets {
		av := assetView{paused: a.Paused, blockable: a.Blockable, rlActive: a.RateLimit.Active, rlLimit: a.RateLimit.Limit.BigInt(), curSupply: new(big.Int)}
		oa, _ := sdk.AccAddressFromBech32(a.Owner)
		av.owner = note("asset-owner", oa)
		for _, b := range a.BlockedAddresses {
			ba, _ := sdk.AccAddressFromBech32(b)
			av.blocked = append(av.blocked, note("blocked", ba))
		}
		if sup, ok := ik.GetAssetSupply(ctx, a.Denom); ok {
			av.curSupply = sup.CurrentSupply.Amount.BigInt()
		}
		v.assets = append(v.assets, av)
		for u := 0; u < c16NUsers; u++ {
			v.issBal[u][ai] = bk.GetBalance(ctx, w.addrs[u], a.Denom).Amount.BigInt()
		}
	}
	// bep3
	b3 := t.GetBep3Keeper()
	for _, ap := range b3.GetParams(ctx).AssetParams {
		v.b3dep = append(v.b3dep, note("deputy", ap.DeputyAddress))
	}
	all := b3.GetAllAtomicSwaps(ctx)
	v.swapCount = len(all)
	for _, s := range all {
		v.allSwaps = append(v.allSwaps, w.swapView(s))
	}
	for _, id := range w.swapIDs {
		if s, ok := b3.GetAtomicSwap(ctx, id); ok {
			v.swaps = append(v.swaps, w.swapView(s))
		}
	}
	// committee
	ck := t.GetCommitteeKeeper()
	for _, c := range ck.GetCommittees(ctx) {
		cv := comView{id: int(c.GetID()), dur: int64(c.GetProposalDuration().Seconds())}
		_, cv.memberType = c.(*committeetypes.MemberCommittee)
		for _, m := range c.GetMembers() {
			cv.members = append(cv.members, note("member", m))
		}
		v.coms = append(v.coms, cv)
	}
	for _, p := range ck.GetProposals(ctx) {
		v.props = append(v.props, propView{int(p.ID), int(p.CommitteeID), p.Deadline.Unix()})
	}
	np, _ := ck.GetNextProposalID(ctx)
	v.nextPid = int(np)
	for _, vt := range ck.GetVotes(ctx) {
		v.votes = append(v.votes, voteView{int(vt.ProposalID), note("voter", vt.Voter), int(vt.VoteType)})
	}
	sort.Slice(v.votes, func(i, j int) bool {
		if v.votes[i].pid != v.votes[j].pid {
			return v.votes[i].pid < v.votes[j].pid
		}
		return v.votes[i].voter < v.votes[j].voter
	})
	// community
	cp, _ := t.GetCommunityKeeper().GetParams(ctx)
	v.cparams = [3]*big.Int{big.NewInt(cp.UpgradeTimeDisableInflation.Unix()), cp.StakingRewardsPerSecond.BigInt(), cp.UpgradeTimeSetStakingRewardsPerSecond.BigInt()}
	// cdp
	dk := t.GetCDPKeeper()
	for _, c := range dk.GetAllCdps(ctx) {
		cv := cdpView{id: int(c.ID), owner: note("cdp-owner", c.Owner), ctype: indexOf(c16CTypes, c.Type),
			coll: c.Collateral.Amount.BigInt(), princ: c.Principal.Amount.BigInt(), fees: c.AccumulatedFees.Amount.BigInt(), deps: zeros(w.nacc)}
		for _, d := range dk.GetDeposits(ctx, c.ID) {
			if a := note("cdp-depositor", d.Depositor); a >= 0 {
				cv.deps[a] = d.Amount.Amount.BigInt()
			}
		}
		v.cdps = append(v.cdps, cv)
	}
	sort.Slice(v.cdps, func(i, j int) bool { return v.cdps[i].id < v.cdps[j].id })
	v.nextCdp = int(dk.GetNextCdpID(ctx))
	// hard, savings
	v.hard = grid(w.nacc, len(c16Denoms))
	t.GetHardKeeper().IterateDeposits(ctx, func(d hardtypes.Deposit) bool {
		if a := note("hard-depositor", d.Depositor); a >= 0 {
			for _, c := range d.Amount {
				if di := denomIdx(c.Denom); di >= 0 {
					v.hard[a][di] = c.Amount.BigInt()
				}
			}
		}
		return false
	})
	v.sav = grid(w.nacc, len(c16Denoms))
	t.GetSavingsKeeper().IterateDeposits(ctx, func(d savingstypes.Deposit) bool {
		if a := note("savings-depositor", d.Depositor); a >= 0 {
			for _, c := range d.Amount {
				if di := denomIdx(c.Denom); di >= 0 {
					v.sav[a][di] = c.Amount.BigInt()
				}
			}
		}
		return false
	})
	// swap
	sk := t.GetSwapKeeper()
	v.pools = make([][3]*big.Int, len(c16Pools))
	for i := range v.pools {
		v.pools[i] = [3]*big.Int{new(big.Int), new(big.Int), new(big.Int)}
	}
	for _, p := range sk.GetAllPools(ctx) {
		if pi := indexOf(c16Pools, p.PoolID); pi >= 0 {
			v.pools[pi] = [3]*big.Int{p.ReservesA.Amount.BigInt(), p.ReservesB.Amount.BigInt(), p.TotalShares.BigInt()}
		}
	}
	v.swapShares = grid(w.nacc, len(c16Pools))
	for _, sr := range sk.GetAllDepositorShares(ctx) {
		if a := note("swap-depositor", sr.Depositor); a >= 0 {
			if pi := indexOf(c16Pools, sr.PoolID); pi >= 0 {
				v.swapShares[a][pi] = sr.SharesOwned.BigInt()
			}
		}
	}
	// earn
	v.earn = grid(w.nacc, len(c16Denoms))
	v.earnVal = grid(w.nacc, len(c16Denoms))
	ek := t.GetEarnKeeper()
	for _, r := range ek.GetAllVaultShareRecords(ctx) {
		if a := note("earn-depositor", r.Depositor); a >= 0 {
			for _, s := range r.Shares {
				if di := denomIdx(s.Denom); di >= 0 {
					v.earn[a][di] = s.Amount.BigInt()
					if c, err := ek.GetVaultAccountValue(ctx, s.Denom, r.Depositor); err == nil {
						v.earnVal[a][di] = c.Amount.BigInt()
					}
				}
			}
		}
	}
	// auth
	ak := t.GetAccountKeeper()
	for a := 0; a < w.nacc; a++ {
		v.exist = append(v.exist, ak.GetAccount(ctx, w.addrs[a]) != nil)
	}
	// bank
	v.bank = grid(w.nacc, len(c16BankDenoms))
	for a := 0; a < w.nacc; a++ {
		for di, d := range c16BankDenoms {
			v.bank[a][di] = bk.GetBalance(ctx, w.addrs[a], d).Amount.BigInt()
		}
	}
	return v
}

// ---------------------------------------------------------------- Coq rendering

func natList(xs []int) string {
	it := make([]string, len(xs))
	for i, x := range xs {
		it[i] = Nat(x)
	}
	return List(it)
}

func triples(g [][]*big.Int) string {
	var it []string
	for a, row := range g {
		for d, x := range row {
			if x.Sign() != 0 {
				it = append(it, fmt.Sprintf("(%s, %s, %s)", Nat(a), Nat(d), Z(x)))
			}
		}
	}
	return List(it)
}

func (w *c16World) coqEnv() string {
	macc := make([]bool, w.nacc)
	for a := 0; a < w.nacc; a++ {
		macc[a] = a >= c16NUsers
	}
	return fmt.Sprintf("(mk_env %s %s %s %s %s %s %s %s %s)", Nat(w.nacc), Nat(c16NUsers), Zi(w.ctx.BlockTime().Unix()),
		BoolList(macc), Nat(w.gov), Nat(len(c16Denoms)), Nat(len(c16Pools)), Nat(w.earn), natList(c16EarnStrat))
}

func (v *c16View) coqState() string {
	var mk, pr, as, b3, coms, props, vts, cds, cdeps, pools []string
	for i, os := range v.markets {
		mk = append(mk, fmt.Sprintf("(%s, %s)", Nat(i), natList(os)))
	}
	var pkeys [][2]int
	for k := range v.prices {
		pkeys = append(pkeys, k)
	}
	sort.Slice(pkeys, func(i, j int) bool {
		if pkeys[i][0] != pkeys[j][0] {
			return pkeys[i][0] < pkeys[j][0]
		}
		return pkeys[i][1] < pkeys[j][1]
	})
	for _, k := range pkeys {
		p := v.prices[k]
		pr = append(pr, fmt.Sprintf("(%s, %s, (%s, %s))", Nat(k[0]), Nat(k[1]), Z(p[0]), Z(p[1])))
	}
	var isup []*big.Int
	for i, a := range v.assets {
		as = append(as, fmt.Sprintf("mkAsset %s %s %s %s %s %s %s", Nat(i), Nat(a.owner), Bool(a.paused), Bool(a.blockable), natList(a.blocked), Bool(a.rlActive), Z(a.rlLimit)))
		isup = append(isup, a.curSupply)
	}
	for i, d := range v.b3dep {
		b3 = append(b3, fmt.Sprintf("mkB3 %s %s", Nat(i), Nat(d)))
	}
	for _, c := range v.coms {
		coms = append(coms, fmt.Sprintf("mkCom %s %s %s", Nat(c.id), natList(c.members), Bool(c.memberType)))
	}
	for _, p := range v.props {
		props = append(props, fmt.Sprintf("(%s, (%s, %s))", Nat(p.id), Nat(p.com), Zi(p.deadline)))
	}
	for _, x := range v.votes {
		vts = append(vts, fmt.Sprintf("(%s, %s, %s)", Nat(x.pid), Nat(x.voter), Nat(x.vt)))
	}
	for _, c := range v.cdps {
		cds = append(cds, fmt.Sprintf("(%s, mkCdp %s %s %s %s)", Nat(c.id), Nat(c.owner), Nat(c.ctype), Z(c.coll), Z(c.princ)))
		for a, x := range c.deps {
			if x.Sign() != 0 {
				cdeps = append(cdeps, fmt.Sprintf("(%s, %s, %s)", Nat(c.id), Nat(a), Z(x)))
			}
		}
	}
	for _, p := range v.pools {
		pools = append(pools, fmt.Sprintf("(%s, %s, %s)", Z(p[0]), Z(p[1]), Z(p[2])))
	}
	var sw []string
	for _, s := range v.swaps {
		sw = append(sw, fmt.Sprintf("mkSwap %s %s %s %s %s", Nat(s.sender), Nat(s.recipient), Nat(s.denom), Z(s.amount), Bool(s.incoming)))
	}
	parts := []string{
		List(mk), List(pr),
		List(as), ZList(isup), triples(v.issBal),
		List(b3), List(sw),
		List(coms), List(props), Nat(v.nextPid), List(vts),
		fmt.Sprintf("(%s, %s, %s)", Z(v.cparams[0]), Z(v.cparams[1]), Z(v.cparams[2])),
		List(cds), Nat(v.nextCdp), List(cdeps),
		triples(v.hard), triples(v.sav), List(pools), triples(v.swapShares), triples(v.earn),
		BoolList(v.exist),
	}
	return "(mk_state " + strings.Join(parts, "\n    ") + ")"
}

func flat(g [][]*big.Int) []*big.Int {
	var out []*big.Int
	for _, row := range g {
		out = append(out, row...)
	}
	return out
}

func bi(i int) *big.Int { return big.NewInt(int64(i)) }
func bb(b bool) *big.Int {
	if b {
		return big.NewInt(1)
	}
	return big.NewInt(0)
}

// project flattens the component an operation kind writes exactly like
// [project] of Model/Auth.v.
func (w *c16World) project(v *c16View, kind string) []*big.Int {
	var out []*big.Int
	switch kind {
	case "postprice":
		for m := range v.markets {
			for a := 0; a < w.nacc; a++ {
				if p, ok := v.prices[[2]int{m, a}]; ok {
					out = append(out, bi(1), p[0], p[1])
				} else {
					out = append(out, bi(0))
				}
			}
		}
	case "issue", "redeem", "block", "unblock", "pause":
		for i, a := range v.assets {
			out = append(out, bi(a.owner), bb(a.paused), bb(a.blockable), bi(len(a.blocked)))
			for _, b := range a.blocked {
				out = append(out, bi(b))
			}
			out = append(out, a.curSupply)
			for u := 0; u < c16NUsers; u++ {
				out = append(out, v.issBal[u][i])
			}
		}
	case "swap":
		out = append(out, bi(v.swapCount))
		for _, s := range v.swaps {
			out = append(out, bi(s.sender), bi(s.recipient), bi(s.denom), s.amount, bb(s.incoming))
		}
	case "submit", "vote":
		out = append(out, bi(v.nextPid))
		for pid := 0; pid < v.nextPid; pid++ {
			found := false
			for _, p := range v.props {
				if p.id == pid {
					out = append(out, bi(1), bi(p.com), big.NewInt(p.deadline))
					found = true
				}
			}
			if !found {
				out = append(out, bi(0))
			}
			for _, x := range v.votes {
				if x.pid == pid {
					out = append(out, bi(x.voter), bi(x.vt))
				}
			}
		}
	case "params":
		out = append(out, v.cparams[0], v.cparams[1], v.cparams[2])
	case "draw", "repay", "cdpwd":
		for _, c := range v.cdps {
			out = append(out, bi(c.id), bi(c.owner), bi(c.ctype), c.coll, c.princ)
			out = append(out, c.deps...)
		}
	case "hardwd":
		out = flat(v.hard)
	case "savwd":
		out = flat(v.sav)
	case "swapwd":
		for _, p := range v.pools {
			out = append(out, p[0], p[1], p[2])
		}
		out = append(out, flat(v.swapShares)...)
	case "earnwd":
		out = append(out, flat(v.earn)...)
		out = append(out, v.hard[w.earn]...)
		out = append(out, v.sav[w.earn]...)
	}
	return out
}

// c16MaxCom: committee ids below this bound are projected (max_com of Model/Auth.v).
const c16MaxCom = 8

// aproject flattens the component a change of principals writes exactly like
// [aproject] of Model/Auth.v.
func (w *c16World) aproject(v *c16View, kind string) []*big.Int {
	var out []*big.Int
	switch kind {
	case "setoracles":
		for i, os := range v.markets {
			out = append(out, bi(i), bi(len(os)))
			for _, o := range os {
				out = append(out, bi(o))
			}
		}
	case "setowner":
		out = w.project(v, "pause")
	case "setdeputy":
		for i, d := range v.b3dep {
			out = append(out, bi(i), bi(d))
		}
	case "setmembers", "delcom":
		for _, c := range v.coms { // in id order (store order)
			if c.id >= c16MaxCom {
				continue
			}
			out = append(out, bi(c.id), bb(c.memberType), bi(len(c.members)))
			for _, m := range c.members {
				out = append(out, bi(m))
			}
		}
		out = append(out, w.project(v, "vote")...)
	}
	return out
}
