package c16

// Source enumerator: lists every method of the type msgServer defined in the
// keeper package of each module under x/ (method name + module) by parsing the
// Go sources of the tree the harness was built against, and compares the list
// with the classification table the Coq model (Model/Auth.v, [handlers]) was
// proved against.  A new or vanished handler breaks the tie.

import (
	"fmt"
	"go/ast"
	"go/parser"
	"go/token"
	"os"
	"path/filepath"
	"sort"
	"strings"
)

type c16Row struct {
	Module string `json:"module"`
	Method string `json:"method"`
	Class  string `json:"class"` // Coq term: Unpriv | Priv P...
}

// c16Table mirrors [handlers] of coq/Model/Auth.v (the Coq side compares the
// enumerated table, rendered with these classes, against its own table, so a
// difference between the two copies is a correspondence failure as well).
var c16Table = []c16Row{
	{"auction", "PlaceBid", "Unpriv"},
	{"bep3", "ClaimAtomicSwap", "Unpriv"},
	{"bep3", "CreateAtomicSwap", "Priv PDeputy"},
	{"bep3", "RefundAtomicSwap", "Unpriv"},
	{"cdp", "CreateCDP", "Unpriv"},
	{"cdp", "Deposit", "Unpriv"},
	{"cdp", "DrawDebt", "Priv PCdpOwner"},
	{"cdp", "Liquidate", "Unpriv"},
	{"cdp", "RepayDebt", "Priv PCdpOwner"},
	{"cdp", "Withdraw", "Priv PRecordOwner"},
	{"committee", "SubmitProposal", "Priv PMember"},
	{"committee", "Vote", "Priv PMember"},
	{"community", "FundCommunityPool", "Unpriv"},
	{"community", "UpdateParams", "Priv PGovAuthority"},
	{"earn", "Deposit", "Unpriv"},
	{"earn", "Withdraw", "Priv PRecordOwner"},
	{"evmutil", "ConvertCoinToERC20", "Unpriv"},
	{"evmutil", "ConvertCosmosCoinFromERC20", "Unpriv"},
	{"evmutil", "ConvertCosmosCoinToERC20", "Unpriv"},
	{"evmutil", "ConvertERC20ToCoin", "Unpriv"},
	{"hard", "Borrow", "Unpriv"},
	{"hard", "Deposit", "Unpriv"},
	{"hard", "Liquidate", "Unpriv"},
	{"hard", "Repay", "Unpriv"},
	{"hard", "Withdraw", "Priv PRecordOwner"},
	{"incentive", "ClaimDelegatorReward", "Unpriv"},
	{"incentive", "ClaimEarnReward", "Unpriv"},
	{"incentive", "ClaimHardReward", "Unpriv"},
	{"incentive", "ClaimSavingsReward", "Unpriv"},
	{"incentive", "ClaimSwapReward", "Unpriv"},
	{"incentive", "ClaimUSDXMintingReward", "Unpriv"},
	{"issuance", "BlockAddress", "Priv PAssetOwner"},
	{"issuance", "IssueTokens", "Priv PAssetOwner"},
	{"issuance", "RedeemTokens", "Priv PAssetOwner"},
	{"issuance", "SetPauseStatus", "Priv PAssetOwner"},
	{"issuance", "UnblockAddress", "Priv PAssetOwner"},
	{"liquid", "BurnDerivative", "Unpriv"},
	{"liquid", "MintDerivative", "Unpriv"},
	{"pricefeed", "PostPrice", "Priv POracle"},
	{"router", "DelegateMintDeposit", "Unpriv"},
	{"router", "MintDeposit", "Unpriv"},
	{"router", "WithdrawBurn", "Unpriv"},
	{"router", "WithdrawBurnUndelegate", "Unpriv"},
	{"savings", "Deposit", "Unpriv"},
	{"savings", "Withdraw", "Priv PRecordOwner"},
	{"swap", "Deposit", "Unpriv"},
	{"swap", "SwapExactForTokens", "Unpriv"},
	{"swap", "SwapForExactTokens", "Unpriv"},
	{"swap", "Withdraw", "Priv PRecordOwner"},
}

func c16RepoRoot() string {
	if r := os.Getenv("VERIF_REPO"); r != "" {
		return r
	}
	return "/repo"
}

func recvTypeName(fd *ast.FuncDecl) string {
	if fd.Recv == nil || len(fd.Recv.List) != 1 {
		return ""
	}
	t := fd.Recv.List[0].Type
	if st, ok := t.(*ast.StarExpr); ok {
		t = st.X
	}
	if id, ok := t.(*ast.Ident); ok {
		return id.Name
	}
	return ""
}

// c16Enumerate parses every non-test Go file of x/*/keeper and returns the
// exported methods of the type msgServer, sorted by module then method.
func c16Enumerate(root string) ([]c16Row, error) {
	dirs, err := filepath.Glob(filepath.Join(root, "x", "*", "keeper"))
	if err != nil {
		return nil, err
	}
	sort.Strings(dirs)
	var rows []c16Row
	for _, dir := range dirs {
		module := filepath.Base(filepath.Dir(dir))
		files, _ := filepath.Glob(filepath.Join(dir, "*.go"))
		sort.Strings(files)
		fset := token.NewFileSet()
		for _, f := range files {
			if strings.HasSuffix(f, "_test.go") {
				continue
			}
			af, err := parser.ParseFile(fset, f, nil, parser.SkipObjectResolution)
			if err != nil {
				return nil, fmt.Errorf("parse %s: %w", f, err)
			}
			for _, d := range af.Decls {
				fd, ok := d.(*ast.FuncDecl)
				if !ok || recvTypeName(fd) != "msgServer" || !fd.Name.IsExported() {
					continue
				}
				rows = append(rows, c16Row{Module: module, Method: fd.Name.Name})
			}
		}
	}
	sort.Slice(rows, func(i, j int) bool {
		if rows[i].Module != rows[j].Module {
			return rows[i].Module < rows[j].Module
		}
		return rows[i].Method < rows[j].Method
	})
	return rows, nil
}

// c16CompareTable returns the enumerated table with classes filled in from
// c16Table (rows unknown to the table get the class "Unpriv" so that the Coq
// comparison fails on them too) and the list of differences.
func c16CompareTable(enum []c16Row) (filled []c16Row, diffs []string) {
	known := map[string]string{}
	for _, r := range c16Table {
		known[r.Module+"."+r.Method] = r.Class
	}
	seen := map[string]bool{}
	for _, r := range enum {
		k := r.Module + "." + r.Method
		seen[k] = true
		cls, ok := known[k]
		if !ok {
			diffs = append(diffs, "new handler not classified: "+k)
			cls = "Unpriv"
		}
		filled = append(filled, c16Row{r.Module, r.Method, cls})
	}
	for _, r := range c16Table {
		if !seen[r.Module+"."+r.Method] {
			diffs = append(diffs, "handler vanished from the source: "+r.Module+"."+r.Method)
		}
	}
	return
}

func c16CoqTable(rows []c16Row) string {
	it := make([]string, len(rows))
	for i, r := range rows {
		it[i] = fmt.Sprintf("(%q, %q, %s)", r.Module, r.Method, r.Class)
	}
	return "[" + strings.Join(it, ";\n  ") + "]%string"
}
