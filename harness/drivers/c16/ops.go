package c16

// Operations: one probed message per privileged handler kind.  An operation
// names the designated principal as signer; exec sends the same message with
// any actor as signer through the module's real msg server.

import (
	. "kavaverif/lib"

	"crypto/sha256"
	"fmt"
	"math/big"
	"time"

	sdkmath "cosmossdk.io/math"
	sdk "github.com/cosmos/cosmos-sdk/types"
	govv1beta1 "github.com/cosmos/cosmos-sdk/x/gov/types/v1beta1"
	paramproposal "github.com/cosmos/cosmos-sdk/x/params/types/proposal"

	bep3types "github.com/kava-labs/kava/x/bep3/types"
	cdptypes "github.com/kava-labs/kava/x/cdp/types"
	committeetypes "github.com/kava-labs/kava/x/committee/types"
	communitytypes "github.com/kava-labs/kava/x/community/types"
	earntypes "github.com/kava-labs/kava/x/earn/types"
	hardtypes "github.com/kava-labs/kava/x/hard/types"
	issuancetypes "github.com/kava-labs/kava/x/issuance/types"
	pricefeedtypes "github.com/kava-labs/kava/x/pricefeed/types"
	savingstypes "github.com/kava-labs/kava/x/savings/types"
	swaptypes "github.com/kava-labs/kava/x/swap/types"
)

type c16Coin struct {
	D int    `json:"d"`
	A string `json:"a"`
}

// c16Op is a self-contained, replayable description of one probed message.
type c16Op struct {
	Kind   string    `json:"kind"`
	P      int       `json:"p"`           // signer of the base message (the designated principal)
	A      int       `json:"a,omitempty"` // market / asset / bep3 denom / committee id / proposal id / collateral type / pool / vault denom
	B      int       `json:"b,omitempty"` // receiver / blocked address / recipient / cdp owner / vote type
	X      string    `json:"x,omitempty"` // amount, price, shares
	Y      string    `json:"y,omitempty"` // expiry, swap nonce, second param
	Z      string    `json:"z,omitempty"`
	Flag   bool      `json:"flag,omitempty"`
	Coins  []c16Coin `json:"coins,omitempty"`
	L      []int     `json:"l,omitempty"` // the new oracle / member list of a change of principals
	Commit bool      `json:"commit"`
}

var c16Kinds = []string{"postprice", "issue", "redeem", "block", "unblock", "pause", "swap", "submit", "vote", "params",
	"draw", "repay", "cdpwd", "hardwd", "savwd", "swapwd", "earnwd"}

// changes of the designated principals (not messages: they are what an enacted governance proposal does)
var c16AdminKinds = []string{"setoracles", "setowner", "setdeputy", "setmembers", "delcom"}

func isAdmin(kind string) bool {
	for _, k := range c16AdminKinds {
		if k == kind {
			return true
		}
	}
	return false
}

var c16Handler = map[string]string{
	"postprice": "pricefeed.PostPrice", "issue": "issuance.IssueTokens", "redeem": "issuance.RedeemTokens",
	"block": "issuance.BlockAddress", "unblock": "issuance.UnblockAddress", "pause": "issuance.SetPauseStatus",
	"swap": "bep3.CreateAtomicSwap", "submit": "committee.SubmitProposal", "vote": "committee.Vote",
	"params": "community.UpdateParams", "draw": "cdp.DrawDebt", "repay": "cdp.RepayDebt", "cdpwd": "cdp.Withdraw",
	"hardwd": "hard.Withdraw", "savwd": "savings.Withdraw", "swapwd": "swap.Withdraw", "earnwd": "earn.Withdraw",
}

func bigOf(s string) *big.Int {
	if s == "" {
		return new(big.Int)
	}
	x, ok := new(big.Int).SetString(s, 10)
	if !ok {
		panic("bad integer " + s)
	}
	return x
}

func intOf(s string) sdkmath.Int { return sdkmath.NewIntFromBigInt(bigOf(s)) }

func opCoins(cs []c16Coin) sdk.Coins {
	out := make(sdk.Coins, len(cs))
	for i, c := range cs {
		out[i] = sdk.Coin{Denom: c16Denoms[c.D], Amount: intOf(c.A)}
	}
	return out
}

func idxName(l []string, i int, dflt string) string {
	if i >= 0 && i < len(l) {
		return l[i]
	}
	return dflt
}

// swapCoins: the amount of a bep3 message; Coins (indexes into c16B3Denoms, in
// sdk.Coins order) when given, otherwise the single coin (A, X).
func swapCoins(op c16Op) sdk.Coins {
	if len(op.Coins) == 0 {
		return sdk.Coins{sdk.NewCoin(idxName(c16B3Denoms, op.A, "nob3"), intOf(op.X))}
	}
	out := make(sdk.Coins, len(op.Coins))
	for i, c := range op.Coins {
		out[i] = sdk.NewCoin(idxName(c16B3Denoms, c.D, "nob3"), intOf(c.A))
	}
	return out
}

func swapHash(nonce string) []byte {
	h := sha256.Sum256([]byte("c16-swap-" + nonce))
	return h[:]
}

// exec sends the message of op with actor `signer` in the signer field.
func (w *c16World) exec(ctx sdk.Context, op c16Op, signer int) error {
	g := sdk.WrapSDKContext(ctx)
	s := w.addrs[signer]
	var err error
	// The account a transaction must be signed by is msg.GetSigners(); the handlers authenticate a
	// field of the message.  The probes put the acting account into that field, so GetSigners()
	// must return exactly the acting account — otherwise somebody else's signature authorises
	// the action (and the designated principal's own signature is refused by the ante handler).
	bind := func(m sdk.Msg) {
		sg := m.GetSigners()
		if len(sg) != 1 || !sg[0].Equals(s) {
			w.signerMismatch = fmt.Sprintf("%T: the handler authenticates %s, GetSigners() = %v", m, s, sg)
		}
	}
	switch op.Kind {
	case "postprice":
		m := pricefeedtypes.NewMsgPostPrice(s.String(), idxName(c16Markets, op.A, "nomarket:usd"),
			sdk.NewDecFromBigIntWithPrec(bigOf(op.X), 18), time.Unix(bigOf(op.Y).Int64(), 0).UTC())
		bind(m)
		_, err = w.pfMsg.PostPrice(g, m)
	case "issue":
		m := issuancetypes.NewMsgIssueTokens(s.String(), sdk.NewCoin(idxName(c16IssDenoms, op.A, "notok"), intOf(op.X)), w.addrs[op.B].String())
		bind(m)
		_, err = w.issMsg.IssueTokens(g, m)
	case "redeem":
		m := issuancetypes.NewMsgRedeemTokens(s.String(), sdk.NewCoin(idxName(c16IssDenoms, op.A, "notok"), intOf(op.X)))
		bind(m)
		_, err = w.issMsg.RedeemTokens(g, m)
	case "block":
		m := issuancetypes.NewMsgBlockAddress(s.String(), idxName(c16IssDenoms, op.A, "notok"), w.addrs[op.B].String())
		bind(m)
		_, err = w.issMsg.BlockAddress(g, m)
	case "unblock":
		m := issuancetypes.NewMsgUnblockAddress(s.String(), idxName(c16IssDenoms, op.A, "notok"), w.addrs[op.B].String())
		bind(m)
		_, err = w.issMsg.UnblockAddress(g, m)
	case "pause":
		m := issuancetypes.NewMsgSetPauseStatus(s.String(), idxName(c16IssDenoms, op.A, "notok"), op.Flag)
		bind(m)
		_, err = w.issMsg.SetPauseStatus(g, m)
	case "swap":
		m := bep3types.NewMsgCreateAtomicSwap(s.String(), w.addrs[op.B].String(), "0xrecipientOtherChain", "0xsenderOtherChain",
			swapHash(op.Y), ctx.BlockTime().Unix(), swapCoins(op), 250)
		bind(&m)
		_, err = w.b3Msg.CreateAtomicSwap(g, &m)
	case "submit":
		m, e := committeetypes.NewMsgSubmitProposal(govv1beta1.NewTextProposal("title "+op.Y, "description"), s, uint64(op.A))
		if e != nil {
			return e
		}
		bind(m)
		_, err = w.comMsg.SubmitProposal(g, m)
	case "vote":
		m := committeetypes.NewMsgVote(s, uint64(op.A), committeetypes.VoteType(op.B))
		bind(m)
		_, err = w.comMsg.Vote(g, m)
	case "params":
		m := communitytypes.NewMsgUpdateParams(s, communitytypes.NewParams(time.Unix(bigOf(op.X).Int64(), 0).UTC(),
			sdk.NewDecFromBigIntWithPrec(bigOf(op.Y), 18), sdk.NewDecFromBigIntWithPrec(bigOf(op.Z), 18)))
		bind(&m)
		_, err = w.cmtyMsg.UpdateParams(g, &m)
	case "draw":
		m := cdptypes.NewMsgDrawDebt(s, idxName(c16CTypes, op.A, "none-a"), sdk.NewCoin("usdx", intOf(op.X)))
		bind(&m)
		_, err = w.cdpMsg.DrawDebt(g, &m)
	case "repay":
		m := cdptypes.NewMsgRepayDebt(s, idxName(c16CTypes, op.A, "none-a"), sdk.NewCoin("usdx", intOf(op.X)))
		bind(&m)
		_, err = w.cdpMsg.RepayDebt(g, &m)
	case "cdpwd":
		m := cdptypes.NewMsgWithdraw(w.addrs[op.B], s, sdk.NewCoin(idxName(c16CDenom, op.A, "none"), intOf(op.X)), idxName(c16CTypes, op.A, "none-a"))
		bind(&m)
		_, err = w.cdpMsg.Withdraw(g, &m)
	case "hardwd":
		m := hardtypes.NewMsgWithdraw(s, opCoins(op.Coins))
		bind(&m)
		_, err = w.hardMsg.Withdraw(g, &m)
	case "savwd":
		m := savingstypes.NewMsgWithdraw(s, opCoins(op.Coins))
		bind(&m)
		_, err = w.savMsg.Withdraw(g, &m)
	case "swapwd":
		m := swaptypes.NewMsgWithdraw(s.String(), intOf(op.X), sdk.NewCoin(c16PoolA[op.A], intOf(op.Y)), sdk.NewCoin("usdx", intOf(op.Z)),
			ctx.BlockTime().Unix()+1000)
		bind(m)
		_, err = w.swapMsg.Withdraw(g, m)
	case "earnwd":
		strat := earntypes.STRATEGY_TYPE_HARD
		if c16EarnStrat[op.A] == 1 {
			strat = earntypes.STRATEGY_TYPE_SAVINGS
		}
		m := earntypes.NewMsgWithdraw(s.String(), sdk.NewCoin(c16Denoms[op.A], intOf(op.X)), strat)
		bind(m)
		_, err = w.earnMsg.Withdraw(g, m)
	default:
		panic("unknown op kind " + op.Kind)
	}
	return err
}

func (w *c16World) userAddrs(l []int) []sdk.AccAddress {
	out := make([]sdk.AccAddress, 0, len(l))
	for _, a := range l {
		out = append(out, w.addrs[a])
	}
	return out
}

// admin performs a change of the designated principals the way an enacted governance proposal
// does: parameter changes through the x/params ParameterChangeProposal handler of the app's gov
// router (Subspace.Update: amino JSON, the module's validator, then the store), committee
// changes through the x/committee proposal handler of the same router.
func (w *c16World) admin(ctx sdk.Context, op c16Op) error {
	amino := w.tApp.LegacyAmino()
	paramChange := func(subspace, key string, value any) error {
		bz, err := amino.MarshalJSON(value)
		if err != nil {
			return err
		}
		content := paramproposal.NewParameterChangeProposal("change of principals", "c16",
			[]paramproposal.ParamChange{paramproposal.NewParamChange(subspace, key, string(bz))})
		return w.govRoute.GetRoute(paramproposal.RouterKey)(ctx, content)
	}
	switch op.Kind {
	case "setoracles":
		ms := w.tApp.GetPriceFeedKeeper().GetParams(ctx).Markets
		for i := range ms {
			if ms[i].MarketID == idxName(c16Markets, op.A, "") {
				ms[i].Oracles = w.userAddrs(op.L)
			}
		}
		return paramChange(pricefeedtypes.ModuleName, string(pricefeedtypes.KeyMarkets), ms)
	case "setowner":
		as := w.tApp.GetIssuanceKeeper().GetParams(ctx).Assets
		for i := range as {
			if as[i].Denom == idxName(c16IssDenoms, op.A, "") {
				as[i].Owner = w.addrs[op.B].String()
			}
		}
		return paramChange(issuancetypes.ModuleName, string(issuancetypes.KeyAssets), as)
	case "setdeputy":
		aps := w.tApp.GetBep3Keeper().GetParams(ctx).AssetParams
		for i := range aps {
			if aps[i].Denom == idxName(c16B3Denoms, op.A, "") {
				aps[i].DeputyAddress = w.addrs[op.B]
			}
		}
		return paramChange(bep3types.ModuleName, string(bep3types.KeyAssetParams), aps)
	case "setmembers":
		var nc committeetypes.Committee
		members := w.userAddrs(op.L)
		cur, found := w.tApp.GetCommitteeKeeper().GetCommittee(ctx, uint64(op.A))
		switch c := cur.(type) {
		case *committeetypes.MemberCommittee:
			base := *c.BaseCommittee
			base.Members = members
			nc = &committeetypes.MemberCommittee{BaseCommittee: &base}
		case *committeetypes.TokenCommittee:
			base := *c.BaseCommittee
			base.Members = members
			nc = &committeetypes.TokenCommittee{BaseCommittee: &base, Quorum: c.Quorum, TallyDenom: c.TallyDenom}
		default:
			if found {
				return fmt.Errorf("committee %d of unknown kind %T", op.A, cur)
			}
			nc = &committeetypes.MemberCommittee{BaseCommittee: &committeetypes.BaseCommittee{
				ID: uint64(op.A), Description: fmt.Sprintf("member committee %d", op.A), Members: members,
				VoteThreshold: dec("0.5"), ProposalDuration: 7 * 24 * time.Hour, TallyOption: committeetypes.TALLY_OPTION_FIRST_PAST_THE_POST}}
			nc.SetPermissions([]committeetypes.Permission{&committeetypes.TextPermission{}})
		}
		content, err := committeetypes.NewCommitteeChangeProposal("change of members", "c16", nc)
		if err != nil {
			return err
		}
		return w.govRoute.GetRoute(committeetypes.RouterKey)(ctx, &content)
	case "delcom":
		content := committeetypes.NewCommitteeDeleteProposal("delete committee", "c16", uint64(op.A))
		return w.govRoute.GetRoute(committeetypes.RouterKey)(ctx, &content)
	}
	panic("unknown change of principals " + op.Kind)
}

// coqAdmin renders a change of principals as a term of Model/Auth.v [admin].
func coqAdmin(op c16Op) string {
	switch op.Kind {
	case "setoracles":
		return fmt.Sprintf("SetOracles %s %s", Nat(op.A), natList(op.L))
	case "setowner":
		return fmt.Sprintf("SetOwner %s %s", Nat(op.A), Nat(op.B))
	case "setdeputy":
		return fmt.Sprintf("SetDeputy %s %s", Nat(op.A), Nat(op.B))
	case "setmembers":
		return fmt.Sprintf("SetMembers %s %s", Nat(op.A), natList(op.L))
	case "delcom":
		return fmt.Sprintf("DelCommittee %s", Nat(op.A))
	}
	panic("unknown change of principals " + op.Kind)
}

// othersHold: for the messages whose remaining conditions do not depend on the signer, whether
// those conditions hold in this world (so that every designated principal must be accepted):
// a price post needs a known market and an expiry after the block time; a text proposal needs a
// known committee (every committee of this world may enact text proposals); a vote needs an
// open proposal and, in a member committee, the vote type yes.
func (w *c16World) othersHold(v *c16View, op c16Op) (holds, applicable bool) {
	now := w.ctx.BlockTime().Unix()
	switch op.Kind {
	case "postprice":
		return op.A >= 0 && op.A < len(v.markets) && bigOf(op.Y).Int64() > now, true
	case "submit":
		for _, c := range v.coms {
			if c.id == op.A {
				return true, true
			}
		}
		return false, true
	case "vote":
		for _, p := range v.props {
			if p.id == op.A {
				for _, c := range v.coms {
					if c.id == p.com {
						return p.deadline > now && (!c.memberType || op.B == 1) && op.B >= 1 && op.B <= 3, true
					}
				}
			}
		}
		return false, true
	}
	return false, false
}

// attempt executes the message on a cached context (never written) and
// returns the class, the error and the cached context as the handler left it.
func (w *c16World) attempt(op c16Op, signer int) (cls Class, err error, cctx sdk.Context) {
	cctx, _ = w.ctx.CacheContext()
	defer func() {
		if r := recover(); r != nil {
			cls, err = ClassPanic, fmt.Errorf("panic: %v", r)
		}
	}()
	if e := w.exec(cctx, op, signer); e != nil {
		return ClassErr, e, cctx
	}
	return ClassOk, nil, cctx
}

func contains(l []int, x int) bool {
	for _, y := range l {
		if y == x {
			return true
		}
	}
	return false
}

func anyPos(row []*big.Int) bool {
	for _, x := range row {
		if x.Sign() > 0 {
			return true
		}
	}
	return false
}

// isPrincipal states, on the implementation's own data, whether actor b is the
// principal the property designates for this message.
func (w *c16World) isPrincipal(v *c16View, op c16Op, b int) bool {
	switch op.Kind {
	case "postprice":
		return op.A >= 0 && op.A < len(v.markets) && contains(v.markets[op.A], b)
	case "issue", "redeem", "block", "unblock", "pause":
		return op.A >= 0 && op.A < len(v.assets) && v.assets[op.A].owner == b
	case "swap":
		// incoming swaps only from the deputy; a message addressed to the deputy is an outgoing swap, open to anyone;
		// a message with several coins (only the first is checked against a deputy, a claim mints all) is for nobody
		if len(op.Coins) > 1 {
			return false
		}
		return op.A >= 0 && op.A < len(v.b3dep) && (v.b3dep[op.A] == b || v.b3dep[op.A] == op.B)
	case "submit":
		for _, c := range v.coms {
			if c.id == op.A {
				return contains(c.members, b)
			}
		}
		return false
	case "vote":
		for _, p := range v.props {
			if p.id == op.A {
				for _, c := range v.coms {
					if c.id == p.com {
						return !c.memberType || contains(c.members, b)
					}
				}
			}
		}
		return false
	case "params":
		return b == w.gov
	case "draw", "repay":
		for _, c := range v.cdps {
			if c.owner == b && c.ctype == op.A {
				return true
			}
		}
		return false
	case "cdpwd":
		for _, c := range v.cdps {
			if c.owner == op.B && c.ctype == op.A {
				return c.deps[b].Sign() > 0
			}
		}
		return false
	case "hardwd":
		return anyPos(v.hard[b])
	case "savwd":
		return anyPos(v.sav[b])
	case "swapwd":
		return v.swapShares[b][op.A].Sign() > 0
	case "earnwd":
		return anyPos(v.earn[b])
	}
	return false
}

// ---------------------------------------------------------------- Coq rendering of an operation

func coqCoins(cs []c16Coin) string {
	it := make([]string, len(cs))
	for i, c := range cs {
		it[i] = fmt.Sprintf("(%s, %s)", Nat(c.D), Z(bigOf(c.A)))
	}
	return List(it)
}

type earnOracle struct {
	ws, wa, av *big.Int
	dust       bool
}

// earnOracles records the values earn's Withdraw computes from the vault
// (share conversion) for the base message of op.  The dust decision is taken
// by the implementation after the strategy withdrawal; it is read off the
// principal's executed attempt (earnDust).
func (w *c16World) earnOracles(op c16Op) earnOracle {
	o := earnOracle{new(big.Int), new(big.Int), new(big.Int), false}
	ek := w.tApp.GetEarnKeeper()
	ctx, _ := w.ctx.CacheContext()
	denom := c16Denoms[op.A]
	sh, err := ek.ConvertToShares(ctx, sdk.NewCoin(denom, intOf(op.X)))
	if err != nil {
		return o
	}
	o.ws = sh.Amount.BigInt()
	if c, err := ek.ConvertToAssets(ctx, sh); err == nil {
		o.wa = c.Amount.BigInt()
	}
	if c, err := ek.GetVaultAccountValue(ctx, denom, w.addrs[op.P]); err == nil {
		o.av = c.Amount.BigInt()
	}
	return o
}

// earnDust: the principal's remaining shares were removed as dust (the record
// lost more shares than the withdrawal converts to).
func (w *c16World) earnDust(op c16Op, eo earnOracle, before *c16View, after sdk.Context) bool {
	cur := before.earn[op.P][op.A]
	left := new(big.Int)
	ek := w.tApp.GetEarnKeeper()
	if rec, ok := ek.GetVaultShareRecord(after, w.addrs[op.P]); ok {
		left = rec.Shares.AmountOf(c16Denoms[op.A]).BigInt()
	}
	return left.Sign() == 0 && new(big.Int).Sub(cur, eo.ws).Sign() > 0
}

// coqOp renders the base message (signer = op.P) with the given value of the
// oracle flag for the handler's other checks.
func (w *c16World) coqOp(op c16Op, rest bool, eo earnOracle) string {
	r := Bool(rest)
	switch op.Kind {
	case "postprice":
		return fmt.Sprintf("PostPrice %s %s %s %s", Nat(op.P), Nat(op.A), Z(bigOf(op.X)), Z(bigOf(op.Y)))
	case "issue":
		return fmt.Sprintf("Issue %s %s %s %s", Nat(op.P), Nat(op.A), Z(bigOf(op.X)), Nat(op.B))
	case "redeem":
		return fmt.Sprintf("Redeem %s %s %s", Nat(op.P), Nat(op.A), Z(bigOf(op.X)))
	case "block":
		return fmt.Sprintf("Block %s %s %s", Nat(op.P), Nat(op.A), Nat(op.B))
	case "unblock":
		return fmt.Sprintf("Unblock %s %s %s", Nat(op.P), Nat(op.A), Nat(op.B))
	case "pause":
		return fmt.Sprintf("SetPause %s %s %s", Nat(op.P), Nat(op.A), Bool(op.Flag))
	case "swap":
		cs := op.Coins
		if len(cs) == 0 {
			cs = []c16Coin{{op.A, op.X}}
		}
		return fmt.Sprintf("CreateSwap %s %s %s %s", Nat(op.P), Nat(op.B), coqCoins(cs), r)
	case "submit":
		return fmt.Sprintf("Submit %s %s %s %s", Nat(op.P), Nat(op.A), Z(bigOf(op.X)), r)
	case "vote":
		return fmt.Sprintf("Vote %s %s %s", Nat(op.P), Nat(op.A), Nat(op.B))
	case "params":
		return fmt.Sprintf("UpdateParams %s (%s, %s, %s)", Nat(op.P), Z(bigOf(op.X)), Z(bigOf(op.Y)), Z(bigOf(op.Z)))
	case "draw":
		return fmt.Sprintf("CdpDraw %s %s %s %s", Nat(op.P), Nat(op.A), Z(bigOf(op.X)), r)
	case "repay":
		return fmt.Sprintf("CdpRepay %s %s %s %s", Nat(op.P), Nat(op.A), Z(bigOf(op.X)), r)
	case "cdpwd":
		return fmt.Sprintf("CdpWithdraw %s %s %s %s %s", Nat(op.P), Nat(op.B), Nat(op.A), Z(bigOf(op.X)), r)
	case "hardwd":
		return fmt.Sprintf("HardWithdraw %s %s %s", Nat(op.P), coqCoins(op.Coins), r)
	case "savwd":
		return fmt.Sprintf("SavWithdraw %s %s", Nat(op.P), coqCoins(op.Coins))
	case "swapwd":
		return fmt.Sprintf("SwapWithdraw %s %s %s %s %s %s", Nat(op.P), Nat(op.A), Z(bigOf(op.X)), Z(bigOf(op.Y)), Z(bigOf(op.Z)), r)
	case "earnwd":
		return fmt.Sprintf("EarnWithdraw %s %s %s %s %s %s %s", Nat(op.P), Nat(op.A), Z(eo.ws), Z(eo.wa), Z(eo.av), Bool(eo.dust), r)
	}
	panic("unknown op kind " + op.Kind)
}

// ---------------------------------------------------------------- generation

func pickPos(r *Rng, row []*big.Int) int {
	var c []int
	for i, x := range row {
		if x.Sign() > 0 {
			c = append(c, i)
		}
	}
	if len(c) == 0 {
		return -1
	}
	return c[r.Intn(len(c))]
}

func holders(g [][]*big.Int, users int) []int {
	var out []int
	for a := 0; a < users && a < len(g); a++ {
		if anyPos(g[a]) {
			out = append(out, a)
		}
	}
	return out
}

// amountNear draws an amount from the mixture: small, near the limit (±2), the
// limit itself, above the limit.
func amountNear(r *Rng, limit *big.Int) *big.Int {
	x := new(big.Int)
	switch r.Pick(30, 30, 20, 10, 10) {
	case 0:
		x.SetInt64(int64(1 + r.Intn(20)))
	case 1:
		x.Add(limit, big.NewInt(int64(r.Intn(5)-2)))
	case 2:
		x.Set(limit)
	case 3:
		x.Add(limit, big.NewInt(int64(1+r.Intn(1000))))
	default:
		x = new(big.Int).Mod(new(big.Int).SetUint64(r.Next()), new(big.Int).Add(limit, big.NewInt(1)))
	}
	if x.Sign() <= 0 {
		x.SetInt64(1)
	}
	return x
}

// genKind draws one operation of the given kind in the current state; fa >= 0 pins the market /
// asset / bep3 denom / committee the operation is about (a directed re-probe).
func (w *c16World) genKind(r *Rng, v *c16View, kind string, fa int) (c16Op, bool) {
	now := w.ctx.BlockTime().Unix()
	anyUser := func() int { return r.Intn(c16NUsers) }
	op := c16Op{Kind: kind, Commit: r.Chance(65, 100)}
	switch kind {
	case "postprice":
		op.A = r.Intn(len(v.markets))
		if fa >= 0 && fa < len(v.markets) {
			op.A = fa
		}
		if len(v.markets[op.A]) == 0 {
			if fa < 0 && !r.Chance(1, 4) {
				return op, false
			}
			op.P = anyUser() // a market without oracles: nobody can post
		} else {
			op.P = v.markets[op.A][r.Intn(len(v.markets[op.A]))]
		}
		if fa < 0 && r.Chance(1, 25) {
			op.A = len(v.markets) // unknown market
		}
		op.X = new(big.Int).Mul(big.NewInt(int64(1+r.Intn(5000))), Pow10(15)).String()
		exp := now + int64(1+r.Intn(10000))
		if r.Chance(1, 8) {
			exp = now - int64(r.Intn(3)) // expired or expiring now
		}
		op.Y = fmt.Sprint(exp)
	case "issue", "redeem", "block", "unblock", "pause":
		op.A = r.Intn(len(v.assets))
		if fa >= 0 && fa < len(v.assets) {
			op.A = fa
		}
		a := v.assets[op.A]
		op.P = a.owner
		switch kind {
		case "issue":
			op.B = r.Intn(c16NUsers)
			if r.Chance(1, 6) && len(a.blocked) > 0 {
				op.B = a.blocked[r.Intn(len(a.blocked))]
			}
			if r.Chance(1, 12) {
				op.B = c16NUsers + r.Intn(w.nacc-c16NUsers) // a module account
			}
			amt := big.NewInt(int64(1 + r.Intn(300)))
			if a.rlActive && r.Chance(1, 2) {
				amt = amountNear(r, new(big.Int).Sub(a.rlLimit, a.curSupply))
			}
			op.X = amt.String()
		case "redeem":
			op.X = amountNear(r, v.issBal[a.owner][op.A]).String()
			if r.Chance(1, 2) {
				op.X = fmt.Sprint(1 + r.Intn(50))
			}
		case "block":
			op.B = r.Intn(c16NUsers)
			if r.Chance(1, 10) {
				op.B = a.owner // makes the param validator panic
			}
			if r.Chance(1, 12) {
				op.B = c16NUsers + r.Intn(w.nacc-c16NUsers)
			}
			if !a.blockable && !r.Chance(1, 3) {
				return op, false
			}
		case "unblock":
			if len(a.blocked) > 0 && !r.Chance(1, 6) {
				op.B = a.blocked[r.Intn(len(a.blocked))]
			} else if r.Chance(1, 2) {
				op.B = r.Intn(c16NUsers)
			} else {
				return op, false
			}
		case "pause":
			op.Flag = r.Chance(1, 2)
		}
		if fa < 0 && r.Chance(1, 30) {
			op.A = len(v.assets) // unknown asset
		}
	case "swap":
		op.A = r.Intn(len(v.b3dep))
		if fa >= 0 && fa < len(v.b3dep) {
			op.A = fa
		}
		dep := v.b3dep[op.A]
		if r.Chance(3, 4) || fa >= 0 { // incoming: deputy -> user
			op.P = dep
			op.B = r.Intn(c16NUsers)
			if op.B == dep && !r.Chance(1, 5) {
				op.B = (dep + 1) % c16NUsers
			}
			if r.Chance(1, 12) {
				op.B = c16NUsers + r.Intn(w.nacc-c16NUsers)
			}
			op.X = fmt.Sprint(1 + r.Intn(2_000_000))
		} else { // outgoing: user -> deputy (open to anyone with funds)
			op.P = r.Intn(c16NoAcc)
			if op.P == dep {
				op.P = (dep + 1) % c16NoAcc
			}
			op.B = dep
			op.X = fmt.Sprint(1002 + r.Intn(2_000_000))
		}
		if fa < 0 && r.Chance(1, 4) && op.A < len(v.b3dep) {
			// several coins: the asset of another deputy rides along behind (or in front of) the checked coin
			other := (op.A + 1) % len(v.b3dep)
			cs := []c16Coin{{op.A, op.X}, {other, fmt.Sprint(1 + r.Intn(2_000_000))}}
			if cs[0].D > cs[1].D {
				cs[0], cs[1] = cs[1], cs[0]
			}
			op.Coins = cs
			op.A, op.X = cs[0].D, cs[0].A // the coin the keeper looks at
			if r.Chance(1, 2) {
				op.P = v.b3dep[op.A] // sent by the deputy of the first coin
				if op.B == op.P {
					op.B = (op.P + 1) % c16NUsers
				}
			}
		}
		w.nonce++
		op.Y = fmt.Sprintf("%d", w.nonce)
	case "submit":
		if len(v.coms) == 0 {
			if fa < 0 {
				return op, false
			}
			// no committee is left: a submission to the deleted one, refused for everybody
			op.A, op.P, op.X = fa, r.Intn(c16NUsers), "0"
			w.nonce++
			op.Y = fmt.Sprintf("%d", w.nonce)
			return op, true
		}
		c := v.coms[r.Intn(len(v.coms))]
		if fa >= 0 {
			found := false
			for _, x := range v.coms {
				if x.id == fa {
					c, found = x, true
				}
			}
			if !found {
				// the committee was deleted: the submission is refused for everybody
				op.A, op.P, op.X = fa, c.members[r.Intn(len(c.members))], fmt.Sprint(c.dur)
				w.nonce++
				op.Y = fmt.Sprintf("%d", w.nonce)
				return op, true
			}
		}
		op.A = c.id
		op.P = c.members[r.Intn(len(c.members))]
		op.X = fmt.Sprint(c.dur)
		if fa < 0 && r.Chance(1, 25) {
			op.A = 77 // unknown committee
		}
		w.nonce++
		op.Y = fmt.Sprintf("%d", w.nonce)
	case "vote":
		if len(v.props) == 0 {
			return op, false
		}
		p := v.props[r.Intn(len(v.props))]
		if fa >= 0 {
			var ps []propView
			for _, x := range v.props {
				if x.com == fa {
					ps = append(ps, x)
				}
			}
			if len(ps) == 0 {
				return op, false
			}
			p = ps[r.Intn(len(ps))]
		}
		op.A = p.id
		var com comView
		for _, c := range v.coms {
			if c.id == p.com {
				com = c
			}
		}
		op.B = 1
		if com.memberType {
			op.P = com.members[r.Intn(len(com.members))]
			if r.Chance(1, 10) {
				op.B = 2 + r.Intn(2) // member committees accept only yes
			}
		} else {
			// an account that can sign: a committed vote of an address x/auth does not know makes the
			// token tally (run when the proposal is closed) dereference a nil account
			op.P = r.Intn(c16NoAcc)
			op.B = 1 + r.Intn(3)
		}
		if fa < 0 && r.Chance(1, 25) {
			op.A = v.nextPid + 3 // unknown proposal
		}
	case "params":
		op.P = w.gov
		op.X = fmt.Sprint(now + int64(r.Intn(1_000_000)))
		op.Y = new(big.Int).Mul(big.NewInt(int64(r.Intn(1000))), Pow10(15)).String()
		op.Z = new(big.Int).Mul(big.NewInt(int64(r.Intn(1000))), Pow10(15)).String()
		if r.Chance(1, 8) {
			op.Y = "-" + Pow10(18).String() // refused by Params.Validate
		}
	case "draw", "repay":
		if len(v.cdps) == 0 {
			return op, false
		}
		c := v.cdps[r.Intn(len(v.cdps))]
		op.P, op.A = c.owner, c.ctype
		if kind == "draw" {
			op.X = fmt.Sprint(int64(1+r.Intn(5)) * 1_000_000)
			if r.Chance(1, 10) {
				op.X = new(big.Int).Mul(c.coll, big.NewInt(100)).String() // breaks the collateral ratio
			}
		} else {
			switch r.Pick(60, 15, 15, 10) {
			case 0:
				op.X = fmt.Sprint(int64(1+r.Intn(3)) * 1_000_000)
			case 1:
				op.X = c.princ.String() // closes the cdp
			case 2:
				op.X = new(big.Int).Add(c.princ, big.NewInt(int64(r.Intn(5_000_000)))).String() // over-payment, closes
			default:
				op.X = new(big.Int).Sub(c.princ, big.NewInt(int64(1+r.Intn(999_999)))).String() // leaves less than the debt floor
			}
			if bigOf(op.X).Sign() <= 0 {
				op.X = "1000000"
			}
		}
	case "cdpwd":
		if len(v.cdps) == 0 {
			return op, false
		}
		c := v.cdps[r.Intn(len(v.cdps))]
		d := pickPos(r, c.deps)
		if d < 0 {
			return op, false
		}
		op.P, op.B, op.A = d, c.owner, c.ctype
		if d == c.owner {
			op.X = amountNear(r, new(big.Int).Div(c.deps[d], big.NewInt(20))).String()
		} else {
			op.X = amountNear(r, c.deps[d]).String()
		}
	case "hardwd", "savwd":
		g := v.hard
		if kind == "savwd" {
			g = v.sav
		}
		hs := holders(g, c16NUsers)
		if len(hs) == 0 {
			return op, false
		}
		op.P = hs[r.Intn(len(hs))]
		for d := range c16Denoms {
			has := g[op.P][d].Sign() > 0
			if (has && r.Chance(2, 3)) || (!has && r.Chance(1, 25)) {
				lim := g[op.P][d]
				if !has {
					lim = big.NewInt(10)
				}
				op.Coins = append(op.Coins, c16Coin{d, amountNear(r, lim).String()})
			}
		}
		if len(op.Coins) == 0 {
			d := pickPos(r, g[op.P])
			op.Coins = []c16Coin{{d, amountNear(r, g[op.P][d]).String()}}
		}
	case "swapwd":
		var cands [][2]int
		for a := 0; a < c16NUsers; a++ {
			for p := range c16Pools {
				if v.swapShares[a][p].Sign() > 0 {
					cands = append(cands, [2]int{a, p})
				}
			}
		}
		if len(cands) == 0 {
			return op, false
		}
		c := cands[r.Intn(len(cands))]
		op.P, op.A = c[0], c[1]
		op.X = amountNear(r, v.swapShares[c[0]][c[1]]).String()
		op.Y, op.Z = "1", "1"
		if r.Chance(1, 12) {
			op.Y = v.pools[op.A][0].String() // slippage
		}
	case "earnwd":
		hs := holders(v.earn, c16NUsers)
		if len(hs) == 0 {
			return op, false
		}
		op.P = hs[r.Intn(len(hs))]
		op.A = pickPos(r, v.earn[op.P])
		val := v.earnVal[op.P][op.A]
		op.X = amountNear(r, val).String()
		if r.Chance(1, 4) && val.Sign() > 0 {
			op.X = val.String() // the whole value: a fractional remainder of shares is removed as dust
		}
	default:
		return w.genAdmin(r, v, kind, fa)
	}
	return op, true
}

// ---------------------------------------------------------------- changes of the designated principals

func without(l []int, drop map[int]bool) []int {
	var out []int
	for _, x := range l {
		if !drop[x] {
			out = append(out, x)
		}
	}
	return out
}

// newList draws a new principal list from the current one: some current
// principals leave (the ones in `prefer` first: they have used their right
// already), some accounts join.
func newList(r *Rng, cur, prefer []int, minLen int) []int {
	drop := map[int]bool{}
	if len(prefer) > 0 && r.Chance(4, 5) {
		drop[prefer[r.Intn(len(prefer))]] = true
	}
	for _, a := range cur {
		if r.Chance(1, 3) {
			drop[a] = true
		}
	}
	if len(cur) > 0 && len(drop) == 0 && r.Chance(3, 4) {
		drop[cur[r.Intn(len(cur))]] = true
	}
	l := without(cur, drop)
	nAdd := r.Pick(30, 45, 25)
	for k := 0; k < nAdd; k++ {
		a := r.Intn(c16NUsers)
		if !contains(cur, a) && !contains(l, a) {
			l = append(l, a)
		}
	}
	for len(l) < minLen {
		a := r.Intn(c16NUsers)
		if !contains(l, a) && (!drop[a] || r.Chance(1, 4)) {
			l = append(l, a)
		}
	}
	return l
}

func (w *c16World) genAdmin(r *Rng, v *c16View, kind string, fa int) (c16Op, bool) {
	op := c16Op{Kind: kind, Commit: true}
	switch kind {
	case "setoracles":
		op.A = r.Intn(len(v.markets))
		if fa >= 0 && fa < len(v.markets) {
			op.A = fa
		}
		cur := v.markets[op.A]
		var posted []int
		for _, a := range cur {
			if _, ok := v.prices[[2]int{op.A, a}]; ok {
				posted = append(posted, a)
			}
		}
		op.L = newList(r, cur, posted, 0)
		if len(op.L) > 0 && r.Chance(1, 20) {
			op.L = append(op.L, op.L[0]) // a duplicated oracle: refused by the parameter validator
		}
	case "setowner":
		op.A = r.Intn(len(v.assets))
		if fa >= 0 && fa < len(v.assets) {
			op.A = fa
		}
		a := v.assets[op.A]
		op.B = r.Intn(c16NUsers)
		if op.B == a.owner && !r.Chance(1, 8) {
			op.B = (a.owner + 1 + r.Intn(c16NUsers-1)) % c16NUsers
		}
		if len(a.blocked) > 0 && r.Chance(1, 6) {
			op.B = a.blocked[r.Intn(len(a.blocked))] // refused by the parameter validator
		} else if contains(a.blocked, op.B) && !r.Chance(1, 4) {
			// a blocked address as owner is refused by the parameter validator: mostly avoided
			for k := 0; k < c16NUsers; k++ {
				if c := (op.B + k) % c16NUsers; !contains(a.blocked, c) && c != a.owner {
					op.B = c
					break
				}
			}
		}
	case "setdeputy":
		op.A = r.Intn(len(v.b3dep))
		if fa >= 0 && fa < len(v.b3dep) {
			op.A = fa
		}
		op.B = r.Intn(c16NUsers)
		if op.B == v.b3dep[op.A] && !r.Chance(1, 8) {
			op.B = (op.B + 1 + r.Intn(c16NUsers-1)) % c16NUsers
		}
	case "setmembers":
		var cur, voted []int
		op.A = -1
		if fa >= 0 {
			op.A = fa
		} else if len(v.coms) > 0 && !r.Chance(1, 10) {
			op.A = v.coms[r.Intn(len(v.coms))].id
		} else {
			op.A = 1 + r.Intn(5) // possibly an id that is free: the change creates the committee
		}
		for _, c := range v.coms {
			if c.id == op.A {
				cur = c.members
			}
		}
		for _, x := range v.votes {
			for _, p := range v.props {
				if p.id == x.pid && p.com == op.A && contains(cur, x.voter) {
					voted = append(voted, x.voter)
				}
			}
		}
		op.L = newList(r, cur, voted, 1)
		switch r.Pick(92, 4, 4) {
		case 1:
			op.L = nil // no members: refused
		case 2:
			op.L = append(op.L, op.L[0]) // duplicate member: refused
		}
	case "delcom":
		if len(v.coms) == 0 {
			return op, false
		}
		op.A = v.coms[r.Intn(len(v.coms))].id
		if fa >= 0 {
			op.A = fa
		}
		if fa < 0 && len(v.coms) <= 1 && !r.Chance(1, 4) {
			return op, false
		}
	default:
		panic("unknown op kind " + kind)
	}
	return op, true
}

// scenario queues a directed sequence around one change of principals: the
// principal-to-be-removed first uses the right (so that whatever the keepers
// remember about it is in place), the list changes, and the privileged
// messages of the module are probed again with every signer.
func (w *c16World) scenario(r *Rng, v *c16View) {
	q := func(kind string, a, commit int) { w.queue = append(w.queue, c16Queued{kind, a, commit}) }
	switch r.Pick(30, 30, 15, 10, 15) {
	case 0: // oracle rotation
		m := r.Intn(len(v.markets))
		for k := 0; k < len(v.markets) && len(v.markets[m]) == 0; k++ {
			m = (m + 1) % len(v.markets)
		}
		q("postprice", m, 1)
		if r.Chance(1, 2) {
			q("postprice", m, 1)
		}
		q("setoracles", m, 1)
		q("postprice", m, -1)
		if r.Chance(1, 2) {
			q("postprice", m, -1)
		}
	case 1: // committee member rotation
		if len(v.coms) == 0 {
			return
		}
		c := v.coms[r.Intn(len(v.coms))].id
		q("submit", c, 1)
		q("vote", c, 1)
		q("setmembers", c, 1)
		q("submit", c, 1)
		q("vote", c, -1)
		if r.Chance(1, 2) {
			q("submit", c, -1)
		}
	case 2: // asset owner hand-over
		d := r.Intn(len(v.assets))
		kinds := []string{"issue", "redeem", "block", "unblock", "pause"}
		q(kinds[r.Intn(len(kinds))], d, -1)
		q("setowner", d, 1)
		q(kinds[r.Intn(len(kinds))], d, -1)
		q(kinds[r.Intn(len(kinds))], d, -1)
	case 3: // deputy hand-over
		d := r.Intn(len(v.b3dep))
		q("swap", d, 1)
		q("setdeputy", d, 1)
		q("swap", d, -1)
		q("swap", d, -1)
	case 4: // committee deleted, then created again under the same id
		if len(v.coms) == 0 {
			return
		}
		c := v.coms[r.Intn(len(v.coms))].id
		q("submit", c, 1)
		q("delcom", c, 1)
		q("submit", c, 0)
		q("setmembers", c, 1)
		q("submit", c, 1)
		q("vote", c, -1)
	}
}

// reprobe queues, after a change of principals drawn outside a scenario, one
// probe of a privileged message the changed list guards.
func (w *c16World) reprobe(r *Rng, op c16Op) {
	if len(w.queue) > 0 {
		return
	}
	var kind string
	switch op.Kind {
	case "setoracles":
		kind = "postprice"
	case "setowner":
		kind = []string{"issue", "redeem", "block", "unblock", "pause"}[r.Intn(5)]
	case "setdeputy":
		kind = "swap"
	case "setmembers", "delcom":
		kind = "submit"
	}
	w.queue = append(w.queue, c16Queued{kind, op.A, -1})
}

func kindEnabled(enabled []string, k string) bool {
	for _, e := range enabled {
		if e == k {
			return true
		}
	}
	return false
}

func (w *c16World) genOp(r *Rng, v *c16View, enabled []string) c16Op {
	now := w.ctx.BlockTime().Unix()
	for try := 0; try < 60; try++ {
		if len(w.queue) > 0 {
			qd := w.queue[0]
			w.queue = w.queue[1:]
			if !kindEnabled(enabled, qd.kind) {
				continue
			}
			op, ok := w.genKind(r, v, qd.kind, qd.a)
			if !ok {
				continue
			}
			if qd.commit >= 0 {
				op.Commit = qd.commit == 1
			}
			if isAdmin(op.Kind) {
				op.Commit = true
			}
			return op
		}
		switch r.Pick(84, 9, 7) {
		case 1:
			w.scenario(r, v)
			continue
		case 2:
			kind := c16AdminKinds[r.Pick(30, 20, 15, 25, 10)]
			if !kindEnabled(enabled, kind) {
				continue
			}
			if op, ok := w.genKind(r, v, kind, -1); ok {
				w.reprobe(r, op)
				return op
			}
			continue
		}
		kind := enabled[r.Intn(len(enabled))]
		if isAdmin(kind) {
			continue
		}
		if op, ok := w.genKind(r, v, kind, -1); ok {
			return op
		}
	}
	// always possible
	return c16Op{Kind: "params", P: w.gov, X: fmt.Sprint(now), Y: "0", Z: "0", Commit: false}
}
