package c16

// C16 — privileged actions succeed only for their designated principal; for
// every other signer the message fails and changes no state.
//
// A history builds a fresh chain (world.go), then probes a sequence of
// privileged messages.  Each probe: the message is built so that it is valid
// for its designated principal in the current state; the SAME message is sent
// with every actor as signer (ordinary users, principals of other modules,
// every module account) through the module's real msg server on a cached
// context.  Monitors (stated on the implementation's own data, independent of
// the model): a signer who is not the principal must be refused, and the
// full-store digest of the cached context after the refused message must equal
// the digest before; a committed withdrawal / draw / repay leaves every other
// holder's record and bank balance alone.  The same probes go to the Coq model
// (Model/Auth.v) which must predict accept / refuse / panic of every attempt
// and reproduce the written component after every committed message.
//
// The designated principals change during a history: between probes the oracle
// list of a market, the owner of an issuance asset, the deputy of a bep3 asset
// are changed through the x/params proposal handler, and committee member lists
// are replaced / committees deleted through the x/committee proposal handler,
// both taken from the gov router of the app under test (ops.go admin).  The app,
// its keepers and msg servers live for the whole history, so anything a keeper
// remembers outside the store can go stale.  isPrincipal reads the lists back
// from the store (view.go), so after a change every former principal must be
// refused (nothing written) and — for messages whose other conditions do not
// depend on the signer — every new principal accepted.  The model takes the
// same changes as [IAdmin] items and must reproduce the changed lists.

import (
	. "kavaverif/lib"

	"crypto/sha1"
	"encoding/hex"
	"encoding/json"
	"fmt"
	"math/big"
	"os"
	"sort"
	"strings"

	sdk "github.com/cosmos/cosmos-sdk/types"

	bep3types "github.com/kava-labs/kava/x/bep3/types"
)

func init() { Registry["C16"] = runC16 }

var c16AllKinds = append(append([]string(nil), c16Kinds...), c16AdminKinds...)

type c16Hist struct {
	Seed    uint64   `json:"seed"`
	Idx     int      `json:"history"`
	Enabled []string `json:"enabled,omitempty"`
	Ops     []c16Op  `json:"ops"`
}

type c16Out struct {
	ops      []c16Op
	coq      string
	fail     *Failure
	evals    int
	probeKey []string // one key per non-trivial probe
	sample   any
}

const c16CoqHeader = "From Coq Require Import String.\nFrom Kava Require Import Base.Prelude Model.Auth."

func bigEq(a, b *big.Int) bool { return a.Cmp(b) == 0 }

func gridDiff(name string, before, after [][]*big.Int, except int) string {
	for a := range before {
		if a == except {
			continue
		}
		for d := range before[a] {
			if !bigEq(before[a][d], after[a][d]) {
				return fmt.Sprintf("%s of actor %d slot %d: %s -> %s", name, a, d, before[a][d], after[a][d])
			}
		}
	}
	return ""
}

// frameMonitor states "only the signer's own record and funds move" directly
// on the implementation after a committed message.
func (w *c16World) frameMonitor(op c16Op, before, after *c16View) (pred, sig, detail string) {
	p := op.P
	others := func(checks ...string) string {
		for _, c := range checks {
			if c != "" {
				return c
			}
		}
		return ""
	}
	userBank := func() string {
		// bank balances of every other ordinary user are untouched
		for a := 0; a < c16NUsers; a++ {
			if a == p {
				continue
			}
			for d := range c16BankDenoms {
				if !bigEq(before.bank[a][d], after.bank[a][d]) {
					return fmt.Sprintf("bank balance of user %d in %s: %s -> %s", a, c16BankDenoms[d], before.bank[a][d], after.bank[a][d])
				}
			}
		}
		return ""
	}
	bankIdx := func(denom string) int { return indexOf(c16BankDenoms, denom) }
	switch op.Kind {
	case "hardwd", "savwd":
		bg, ag, name := before.hard, after.hard, "hard deposit"
		if op.Kind == "savwd" {
			bg, ag, name = before.sav, after.sav, "savings deposit"
		}
		if d := others(gridDiff(name, bg, ag, p), userBank()); d != "" {
			return "withdraw-touches-only-signer", "withdraw-touched-other-" + op.Kind, d
		}
		for d := range c16Denoms {
			paid := new(big.Int).Sub(bg[p][d], ag[p][d])
			if paid.Sign() < 0 || ag[p][d].Sign() < 0 {
				return "withdraw-bounded-by-record", "withdraw-exceeds-record-" + op.Kind, fmt.Sprintf("denom %s: record %s -> %s", c16Denoms[d], bg[p][d], ag[p][d])
			}
			got := new(big.Int).Sub(after.bank[p][bankIdx(c16Denoms[d])], before.bank[p][bankIdx(c16Denoms[d])])
			if !bigEq(got, paid) {
				return "withdraw-pays-what-record-loses", "withdraw-pays-other-than-record-" + op.Kind, fmt.Sprintf("denom %s: record -%s, balance +%s", c16Denoms[d], paid, got)
			}
		}
		if op.Kind == "hardwd" {
			if d := others(gridDiff("savings deposit", before.sav, after.sav, -1)); d != "" {
				return "withdraw-touches-only-signer", "withdraw-touched-other-" + op.Kind, d
			}
		}
	case "swapwd":
		if d := others(gridDiff("swap shares", before.swapShares, after.swapShares, p), userBank()); d != "" {
			return "withdraw-touches-only-signer", "withdraw-touched-other-swapwd", d
		}
		burned := new(big.Int).Sub(before.swapShares[p][op.A], after.swapShares[p][op.A])
		if burned.Sign() <= 0 || after.swapShares[p][op.A].Sign() < 0 || !bigEq(burned, bigOf(op.X)) {
			return "withdraw-bounded-by-record", "withdraw-exceeds-record-swapwd", fmt.Sprintf("shares %s -> %s, asked %s", before.swapShares[p][op.A], after.swapShares[p][op.A], op.X)
		}
		// the payout is at most the pro-rata part of each reserve
		for k, denom := range []string{c16PoolA[op.A], "usdx"} {
			got := new(big.Int).Sub(after.bank[p][bankIdx(denom)], before.bank[p][bankIdx(denom)])
			lhs := new(big.Int).Mul(got, before.pools[op.A][2])
			rhs := new(big.Int).Mul(before.pools[op.A][k], burned)
			if got.Sign() < 0 || lhs.Cmp(rhs) > 0 {
				return "withdraw-bounded-by-record", "withdraw-exceeds-record-swapwd", fmt.Sprintf("%s paid %s for %s of %s shares, reserve %s", denom, got, burned, before.pools[op.A][2], before.pools[op.A][k])
			}
		}
	case "earnwd":
		if d := others(gridDiff("earn shares", before.earn, after.earn, p), userBank()); d != "" {
			return "withdraw-touches-only-signer", "withdraw-touched-other-earnwd", d
		}
		for d := range c16Denoms {
			if after.earn[p][d].Sign() < 0 || after.earn[p][d].Cmp(before.earn[p][d]) > 0 {
				return "withdraw-bounded-by-record", "withdraw-exceeds-record-earnwd", fmt.Sprintf("shares %s -> %s", before.earn[p][d], after.earn[p][d])
			}
		}
		// the strategy deposit of the earn module account is the only hard / savings record that moves
		if d := others(gridDiff("hard deposit", before.hard, after.hard, w.earn), gridDiff("savings deposit", before.sav, after.sav, w.earn)); d != "" {
			return "withdraw-touches-only-signer", "withdraw-touched-other-earnwd", d
		}
	case "draw", "repay", "cdpwd":
		if d := userBank(); d != "" {
			if op.Kind != "repay" { // a repayment that closes the cdp returns third-party collateral
				return "cdp-touches-only-signer", "cdp-touched-other-" + op.Kind, d
			}
		}
		var target int = -1
		for _, c := range before.cdps {
			owner := p
			if op.Kind == "cdpwd" {
				owner = op.B
			}
			if c.owner == owner && c.ctype == op.A {
				target = c.id
			}
		}
		for _, c := range before.cdps {
			if c.id == target {
				continue
			}
			var ac *cdpView
			for i := range after.cdps {
				if after.cdps[i].id == c.id {
					ac = &after.cdps[i]
				}
			}
			if ac == nil || !bigEq(ac.coll, c.coll) || !bigEq(ac.princ, c.princ) || ac.owner != c.owner {
				return "cdp-touches-only-signer", "cdp-touched-other-" + op.Kind, fmt.Sprintf("cdp %d of owner %d changed", c.id, c.owner)
			}
			for a := range c.deps {
				if !bigEq(c.deps[a], ac.deps[a]) {
					return "cdp-touches-only-signer", "cdp-touched-other-" + op.Kind, fmt.Sprintf("deposit of %d on cdp %d changed", a, c.id)
				}
			}
		}
		if op.Kind == "cdpwd" {
			for _, c := range before.cdps {
				if c.id != target {
					continue
				}
				for i := range after.cdps {
					if after.cdps[i].id != target {
						continue
					}
					for a := range c.deps {
						if a != p && !bigEq(c.deps[a], after.cdps[i].deps[a]) {
							return "withdraw-touches-only-signer", "withdraw-touched-other-cdpwd", fmt.Sprintf("deposit of %d on cdp %d changed", a, c.id)
						}
					}
					paid := new(big.Int).Sub(c.deps[p], after.cdps[i].deps[p])
					got := new(big.Int).Sub(after.bank[p][bankIdx(c16CDenom[op.A])], before.bank[p][bankIdx(c16CDenom[op.A])])
					if paid.Sign() <= 0 || after.cdps[i].deps[p].Sign() < 0 || !bigEq(paid, got) {
						return "withdraw-bounded-by-record", "withdraw-exceeds-record-cdpwd", fmt.Sprintf("deposit %s -> %s, balance +%s", c.deps[p], after.cdps[i].deps[p], got)
					}
				}
			}
		}
	case "swap":
		// the swap this message recorded (newest first): incoming only when its sender is the asset's
		// deputy of the state the message ran in (the deputy may have been changed since older swaps)
		if len(after.swaps) > 0 {
			s := after.swaps[0]
			if s.incoming && (s.denom < 0 || s.denom >= len(before.b3dep) || s.sender != before.b3dep[s.denom]) {
				return "incoming-swap-from-deputy", "incoming-swap-not-from-deputy", fmt.Sprintf("sender %d denom %d", s.sender, s.denom)
			}
		}
	case "vote":
		for _, x := range after.votes {
			for _, pr := range after.props {
				if pr.id != x.pid {
					continue
				}
				for _, c := range after.coms {
					if c.id == pr.com && c.memberType && !contains(c.members, x.voter) {
						return "member-vote-from-member", "member-vote-from-non-member", fmt.Sprintf("proposal %d voter %d", x.pid, x.voter)
					}
				}
			}
		}
	}
	return "", "", ""
}

// c16Run executes a generated (ops == nil) or explicit history.
func c16Run(seed uint64, idx, n int, enabled []string, ops []c16Op, cnt *Counters) c16Out {
	r := NewRng(seed, uint64(idx))
	w := c16Setup(r)
	if len(enabled) == 0 {
		enabled = c16AllKinds
	}
	var out c16Out
	inc := func(k string) {
		if cnt != nil {
			cnt.Inc(k)
		}
	}
	if len(w.setupErrs) > 0 {
		inc("setup:step-refused")
	}
	v := w.view(w.ctx)
	if len(v.unknown) > 0 {
		panic("c16: records of non-actors: " + strings.Join(v.unknown, ","))
	}
	header := w.coqEnv() + "\n  " + v.coqState()
	var probes []string
	lastAdmin := map[string]adminMark{} // module -> the latest applied change of its principals
	if ops != nil {
		n = len(ops)
	}
	setFail := func(step int, pred, sig, detail string) {
		if out.fail == nil {
			out.fail = &Failure{History: idx, Step: step, Predicate: pred, Signature: sig, Detail: detail}
		}
	}
	for i := 0; i < n; i++ {
		var op c16Op
		if ops != nil {
			op = ops[i]
		} else {
			op = w.genOp(r, v, enabled)
		}
		out.ops = append(out.ops, op)
		if isAdmin(op.Kind) {
			// a change of the designated principals, through the gov router of the app (committed when accepted)
			cls, aerr := Atomically(w.ctx, func(ctx sdk.Context) error { return w.admin(ctx, op) })
			out.evals++
			_ = aerr
			code := 1
			if cls == ClassPanic {
				code = 3 // the model never panics on a change of principals: reported as a mismatch
				inc("admin:" + op.Kind + ":panicked")
			}
			var after []*big.Int
			if cls == ClassOk {
				code = 0
				nv := w.view(w.ctx)
				c16AdminSplits(op, v, nv, inc)
				v = nv
				after = w.aproject(v, op.Kind)
				lastAdmin[adminGuards(op.Kind)] = adminMark{i, op.A}
			} else {
				inc("split:admin:" + op.Kind + ":refused")
			}
			probes = append(probes, fmt.Sprintf("IAdmin (%s) %s %s", coqAdmin(op), Nat(code), ZList(after)))
			continue
		}
		base := w.digest(w.ctx)
		var eo earnOracle
		if op.Kind == "earnwd" {
			eo = w.earnOracles(op)
		}
		codes := make([]int, w.nacc)
		refusedByGuard, otherAccepted := 0, 0
		for b := 0; b < w.nacc; b++ {
			w.signerMismatch = ""
			cls, err, cctx := w.attempt(op, b)
			out.evals++
			if w.signerMismatch != "" {
				setFail(i, "transaction-signer-is-the-authenticated-account", "signer-binding-mismatch:"+c16Handler[op.Kind], w.signerMismatch)
			}
			if b == op.P && op.Kind == "earnwd" && cls == ClassOk {
				eo.dust = w.earnDust(op, eo, v, cctx)
				if eo.dust {
					inc("split:earnwd:dust-removed")
				}
			}
			princ := w.isPrincipal(v, op, b)
			who := "user"
			if b >= c16NUsers {
				who = "macc"
			}
			switch {
			case !princ && cls == ClassOk && op.Kind == "swap" && len(op.Coins) > 1:
				codes[b] = 0
				setFail(i, "swap-of-several-coins-refused", "multi-coin-swap-accepted:bep3.CreateAtomicSwap",
					fmt.Sprintf("bep3.CreateAtomicSwap with amount %s accepted from actor %d (%s): only the first coin is checked against its deputy (deputies per asset %v), a claim mints every coin",
						swapCoins(op), b, w.names[b], v.b3dep))
			case !princ && cls == ClassOk:
				codes[b] = 0
				setFail(i, "wrong-signer-refused", "wrong-signer-accepted:"+c16Handler[op.Kind],
					fmt.Sprintf("%s accepted from actor %d (%s), who is not the designated principal (base signer %d)", c16Handler[op.Kind], b, w.names[b], op.P))
			case !princ && cls == ClassErr:
				codes[b] = 1
				refusedByGuard++
				inc("attempt:" + op.Kind + ":" + who + "-refused")
				if w.digest(cctx) != base {
					setFail(i, "refused-message-changes-nothing", "rejected-message-changed-state:"+c16Handler[op.Kind],
						fmt.Sprintf("%s from actor %d (%s) failed (%v) but wrote to stores %v", c16Handler[op.Kind], b, w.names[b], err, w.changedStores(w.ctx, cctx)))
				}
			case !princ:
				codes[b] = 3
				inc("attempt:" + op.Kind + ":" + who + "-panicked")
			case cls == ClassOk:
				codes[b] = 0
				if b != op.P {
					otherAccepted++
					inc("split:" + op.Kind + ":another-principal-accepted")
					if b >= c16NUsers {
						inc("split:module-account-own-record-accepted")
					}
				}
			case cls == ClassErr:
				codes[b] = 2
				if b != op.P {
					inc("attempt:" + op.Kind + ":another-principal-refused")
				}
			default:
				codes[b] = 3
			}
			_ = err
		}
		if holds, ok := w.othersHold(v, op); ok && holds {
			// every account the CURRENT list designates is accepted (the message's other conditions do not depend on the signer)
			for b := 0; b < w.nacc; b++ {
				if w.isPrincipal(v, op, b) && codes[b] != 0 {
					setFail(i, "designated-principal-accepted", "designated-principal-refused:"+c16Handler[op.Kind],
						fmt.Sprintf("%s refused from actor %d (%s), who is a designated principal in the current state and the message's other conditions hold", c16Handler[op.Kind], b, w.names[b]))
				}
			}
		}
		if m, ok := lastAdmin[adminGuards(op.Kind)]; ok && (m.a == op.A || op.Kind == "vote") {
			inc("split:reprobe:" + op.Kind + ":after-change-of-principals")
			if i == m.step+1 {
				inc("split:reprobe:next-operation-after-change")
			}
		}
		pcode := codes[op.P]
		inc("op:" + op.Kind + ":principal-" + []string{"ok", "err", "err", "panic"}[pcode])
		if pcode == 0 {
			inc("split:" + op.Kind + ":principal-accepted")
		}
		switch op.Kind {
		case "issue", "redeem", "block", "unblock", "pause":
			// the asset is one of the case twins ("usdtoken" / "USDTOKEN") and the other twin has
			// another owner, who is among the refused signers
			if op.A < 2 && len(v.assets) >= 2 && v.assets[0].owner != v.assets[1].owner && pcode == 0 && codes[v.assets[1-op.A].owner] == 1 {
				inc("split:issuance:case-twin:owner-accepted-other-twin-owner-refused")
				if op.A == 1 {
					inc("split:issuance:case-twin:second-listed")
				}
			}
		}
		if pcode == 3 {
			inc("split:" + op.Kind + ":principal-panic")
		}
		if pcode == 0 && refusedByGuard > 0 {
			key := sha1.Sum([]byte(fmt.Sprintf("%s|%v", MustJSON(op), codes)))
			out.probeKey = append(out.probeKey, hex.EncodeToString(key[:8]))
		}
		if op.Kind == "swap" && len(op.Coins) > 1 {
			inc("split:swap:several-coins")
			if v.b3dep[op.Coins[0].D] != v.b3dep[op.Coins[1].D] && op.P == v.b3dep[op.Coins[0].D] {
				inc("split:swap:several-coins-from-first-deputy-other-deputy-second")
			}
		}
		if op.Kind == "swap" && pcode == 0 {
			if v.b3dep[op.A] == op.P {
				inc("split:swap:incoming")
			} else {
				inc("split:swap:outgoing")
			}
		}
		if op.Kind == "vote" && pcode == 0 {
			for _, p := range v.props {
				if p.id == op.A {
					for _, c := range v.coms {
						if c.id == p.com {
							if c.memberType {
								inc("split:vote:member-committee")
							} else {
								inc("split:vote:token-committee")
							}
						}
					}
				}
			}
		}
		commit := op.Commit && pcode == 0
		var after []*big.Int
		if commit {
			if op.Kind == "swap" {
				id := bep3types.CalculateSwapID(swapHash(op.Y), w.addrs[op.P], "0xsenderOtherChain")
				w.swapIDs = append([][]byte{id}, w.swapIDs...)
			}
			cls, err := Atomically(w.ctx, func(ctx sdk.Context) error { return w.exec(ctx, op, op.P) })
			out.evals++
			if cls != ClassOk {
				panic(fmt.Sprintf("c16: committed message failed after succeeding on the cached context: %v", err))
			}
			inc("split:" + op.Kind + ":committed")
			nv := w.view(w.ctx)
			if pred, sig, detail := w.frameMonitor(op, v, nv); pred != "" {
				setFail(i, pred, sig, detail)
			}
			c16CommitSplits(op, v, nv, inc)
			v = nv
			after = w.project(v, op.Kind)
		}
		att := make([]string, len(codes))
		for k, c := range codes {
			att[k] = fmt.Sprint(c)
		}
		probes = append(probes, fmt.Sprintf("IProbe (mkProbe (%s)\n     [%s]%%nat %s %s)",
			w.coqOp(op, pcode == 0, eo), strings.Join(att, ";"), Bool(commit), ZList(after)))
		if idx < 2 && i < 4 {
			out.sample = nil
		}
	}
	out.coq = fmt.Sprintf("mkHist %s\n  %s", header, List(probes))
	return out
}

type adminMark struct{ step, a int }

// adminGuards names the list a kind of change writes / a kind of message reads.
func adminGuards(kind string) string {
	switch kind {
	case "setoracles", "postprice":
		return "oracles"
	case "setowner", "issue", "redeem", "block", "unblock", "pause":
		return "owner"
	case "setdeputy", "swap":
		return "deputy"
	case "setmembers", "delcom", "submit", "vote":
		return "members"
	}
	return "none:" + kind
}

func diffLists(before, after []int) (removed, added []int) {
	for _, x := range before {
		if !contains(after, x) {
			removed = append(removed, x)
		}
	}
	for _, x := range after {
		if !contains(before, x) {
			added = append(added, x)
		}
	}
	return
}

// c16AdminSplits counts the shapes of applied changes of principals.
func c16AdminSplits(op c16Op, before, after *c16View, inc func(string)) {
	inc("split:admin:" + op.Kind + ":applied")
	members := func(v *c16View, id int) ([]int, bool) {
		for _, c := range v.coms {
			if c.id == id {
				return c.members, true
			}
		}
		return nil, false
	}
	switch op.Kind {
	case "setoracles":
		if op.A < len(before.markets) {
			rem, add := diffLists(before.markets[op.A], after.markets[op.A])
			if len(add) > 0 {
				inc("split:admin:setoracles:oracle-added")
			}
			for _, a := range rem {
				inc("split:admin:setoracles:oracle-removed")
				if _, ok := before.prices[[2]int{op.A, a}]; ok {
					inc("split:admin:setoracles:removed-oracle-had-posted")
				}
			}
		}
	case "setowner":
		if op.A < len(before.assets) && before.assets[op.A].owner != after.assets[op.A].owner {
			inc("split:admin:setowner:owner-changed")
		}
	case "setdeputy":
		if op.A < len(before.b3dep) && before.b3dep[op.A] != after.b3dep[op.A] {
			inc("split:admin:setdeputy:deputy-changed")
			for _, s := range before.allSwaps {
				if s.incoming && s.denom == op.A {
					inc("split:admin:setdeputy:incoming-swap-of-former-deputy-recorded")
					break
				}
			}
		}
	case "setmembers":
		bm, existed := members(before, op.A)
		am, _ := members(after, op.A)
		if !existed {
			inc("split:admin:setmembers:committee-created")
		}
		rem, add := diffLists(bm, am)
		if len(rem) > 0 {
			inc("split:admin:setmembers:member-removed")
		}
		if len(add) > 0 && existed {
			inc("split:admin:setmembers:member-added")
		}
		if len(after.props) < len(before.props) {
			inc("split:admin:setmembers:closes-proposals")
		}
		if len(after.votes) < len(before.votes) {
			inc("split:admin:setmembers:closes-votes")
		}
	case "delcom":
		if _, existed := members(before, op.A); existed {
			inc("split:admin:delcom:committee-deleted")
		}
		if len(after.props) < len(before.props) {
			inc("split:admin:delcom:closes-proposals")
		}
	}
}

// c16CommitSplits counts proof-relevant case splits of committed messages.
func c16CommitSplits(op c16Op, before, after *c16View, inc func(string)) {
	switch op.Kind {
	case "repay":
		if len(after.cdps) < len(before.cdps) {
			inc("split:repay:closes-cdp")
		}
	case "hardwd", "savwd":
		g := before.hard
		if op.Kind == "savwd" {
			g = before.sav
		}
		for _, c := range op.Coins {
			if bigOf(c.A).Cmp(g[op.P][c.D]) > 0 {
				inc("split:" + op.Kind + ":capped-to-record")
			}
		}
	case "earnwd":
		if after.earn[op.P][op.A].Sign() == 0 {
			inc("split:earnwd:record-emptied")
		}
	case "issue":
		if before.assets[op.A].rlActive {
			inc("split:issue:rate-limited-asset")
		}
	case "unblock":
		if len(before.assets[op.A].blocked) > 1 {
			inc("split:unblock:swap-with-last")
		}
	}
}

var c16GateSplits = func() []string {
	var out []string
	for _, k := range c16Kinds {
		out = append(out, k+":principal-accepted", k+":committed")
	}
	return append(out, "swap:incoming", "swap:outgoing", "vote:member-committee", "vote:token-committee", "repay:closes-cdp",
		"hardwd:capped-to-record", "savwd:capped-to-record", "block:principal-panic", "postprice:another-principal-accepted",
		"issue:rate-limited-asset", "earnwd:dust-removed", "swap:several-coins",
		"issuance:case-twin:owner-accepted-other-twin-owner-refused", "issuance:case-twin:second-listed",
		"swap:several-coins-from-first-deputy-other-deputy-second",
		"admin:setoracles:applied", "admin:setoracles:oracle-added", "admin:setoracles:removed-oracle-had-posted", "admin:setoracles:refused",
		"admin:setowner:owner-changed", "admin:setowner:refused", "admin:setdeputy:deputy-changed",
		"admin:setdeputy:incoming-swap-of-former-deputy-recorded",
		"admin:setmembers:member-removed", "admin:setmembers:member-added", "admin:setmembers:committee-created",
		"admin:setmembers:closes-proposals", "admin:setmembers:closes-votes", "admin:setmembers:refused",
		"admin:delcom:committee-deleted", "admin:delcom:closes-proposals",
		"reprobe:postprice:after-change-of-principals", "reprobe:submit:after-change-of-principals",
		"reprobe:vote:after-change-of-principals", "reprobe:swap:after-change-of-principals",
		"reprobe:pause:after-change-of-principals", "reprobe:issue:after-change-of-principals",
		"reprobe:next-operation-after-change")
}()

func runC16(o Opts) (*Result, error) {
	n := o.Len
	if n == 0 {
		n = c16DefaultL
	}
	res := &Result{Property: "C16", Seed: o.Seed,
		Rule: "a history is a fresh app.TestApp with PRNG-drawn oracle lists, asset owners, deputies, committees, CDPs and deposits, followed by " + fmt.Sprint(n) +
			" operations: probed privileged messages and changes of the designated principals (oracle lists, asset owners, deputies through the x/params proposal handler, committee member lists and deletions through the x/committee proposal handler of the app's gov router; directed sequences let a principal use its right, remove it, and probe again); each probe sends the same message with each of the 33 actors (10 users, 23 module accounts) as signer through the real msg server; " +
			"a probe is non-trivial when the designated principal's message is accepted and at least one other signer is refused by the guard; distinct by hash of (message, per-actor outcome vector)"}
	cnt := NewCounters()

	// the handler table, regenerated from the source of the tree under test
	enum, err := c16Enumerate(c16RepoRoot())
	if err != nil {
		return nil, err
	}
	filled, diffs := c16CompareTable(enum)
	coqTable := c16CoqTable(filled)
	res.Extra = map[string]any{"handlers_enumerated": len(enum), "handlers_in_table": len(c16Table), "table_diffs": diffs, "repo": c16RepoRoot()}
	if len(diffs) > 0 {
		res.Failures = append(res.Failures, Failure{History: -1, Step: 0, Predicate: "handler-table-equals-source", Signature: "handler-table-mismatch",
			Detail: strings.Join(diffs, "; "), Replay: MustJSON(map[string]any{"table_diffs": diffs})})
	}
	header := c16CoqHeader + "\nDefinition enum_table : list hrow := " + coqTable + "."

	if o.Replay != "" {
		bz, err := os.ReadFile(o.Replay)
		if err != nil {
			return nil, err
		}
		var h c16Hist
		if err := json.Unmarshal(bz, &h); err != nil {
			return nil, err
		}
		var out c16Out
		if h.Ops != nil || h.Seed != 0 {
			out = c16Run(h.Seed, h.Idx, 0, h.Enabled, h.Ops, cnt)
			name, err := WriteShard(o.OutDir, 0, header, []string{out.coq}, "mismatches enum_table")
			if err != nil {
				return nil, err
			}
			res.Shards = []string{name}
			res.HistIndex = []HistRef{{0, 0, h.Idx, MustJSON(h)}}
			res.Histories, res.Evaluations = 1, out.evals
			if out.fail != nil {
				out.fail.Replay = MustJSON(h)
				res.Failures = append(res.Failures, *out.fail)
			}
		}
		res.Counters = cnt.Map()
		return res, nil
	}

	outs := make([]c16Out, o.N)
	ParallelFor(o.N, o.Workers, func(i int) {
		out := c16Run(o.Seed, i, n, nil, nil, cnt)
		if out.fail != nil {
			sig := out.fail.Signature
			fails := func(cand []c16Op) bool {
				f := c16Run(o.Seed, i, 0, nil, cand, nil).fail
				return f != nil && f.Signature == sig
			}
			small := Shrink(out.ops[:out.fail.Step+1], fails)
			if f2 := c16Run(o.Seed, i, 0, nil, small, nil).fail; f2 != nil {
				f2.History = i
				f2.Replay = MustJSON(c16Hist{o.Seed, i, nil, small})
				out.fail = f2
			} else {
				out.fail.Replay = MustJSON(c16Hist{o.Seed, i, nil, out.ops[:out.fail.Step+1]})
			}
		}
		outs[i] = out
	})

	seen := map[string]bool{}
	perShard := 30
	var cases []string
	shard := 0
	flush := func() error {
		if len(cases) == 0 {
			return nil
		}
		name, err := WriteShard(o.OutDir, shard, header, cases, "mismatches enum_table")
		if err != nil {
			return err
		}
		res.Shards = append(res.Shards, name)
		shard++
		cases = nil
		return nil
	}
	for i, ot := range outs {
		res.Histories++
		res.Evaluations += ot.evals
		h := c16Hist{o.Seed, i, nil, ot.ops}
		for _, k := range ot.probeKey {
			if !seen[k] {
				seen[k] = true
				res.DistinctNontrivial++
			}
		}
		if i < 2 {
			res.Samples = append(res.Samples, h)
		}
		res.HistIndex = append(res.HistIndex, HistRef{shard, len(cases), i, MustJSON(h)})
		cases = append(cases, ot.coq)
		if len(cases) == perShard {
			if err := flush(); err != nil {
				return nil, err
			}
		}
		if ot.fail != nil {
			res.Failures = append(res.Failures, *ot.fail)
		}
	}
	if o.N == 0 {
		// the table is still compared when no history is generated
		cases = append(cases[:0], nil...)
	}
	if err := flush(); err != nil {
		return nil, err
	}
	res.Counters = cnt.Map()
	keys := make([]string, 0)
	for _, k := range c16GateSplits {
		if res.Counters["split:"+k] == 0 {
			keys = append(keys, k)
		}
	}
	sort.Strings(keys)
	res.QualityGate = keys
	return res, nil
}
