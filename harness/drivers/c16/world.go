package c16

// World: a fresh app.TestApp whose genesis and initial records are drawn from
// the history's PRNG — pricefeed markets with oracle lists, issuance assets
// with owners / block lists, bep3 assets with deputies, member and token
// committees, CDPs with third-party deposits, hard / savings / swap / earn
// positions — plus the actors (ordinary users and every module account).

import (
	. "kavaverif/lib"

	"crypto/sha256"
	"encoding/binary"
	"fmt"
	"sort"
	"time"

	sdkmath "cosmossdk.io/math"
	"github.com/cosmos/cosmos-sdk/store/rootmulti"
	storetypes "github.com/cosmos/cosmos-sdk/store/types"
	sdk "github.com/cosmos/cosmos-sdk/types"
	authtypes "github.com/cosmos/cosmos-sdk/x/auth/types"
	govv1beta1 "github.com/cosmos/cosmos-sdk/x/gov/types/v1beta1"

	"github.com/kava-labs/kava/app"
	bep3keeper "github.com/kava-labs/kava/x/bep3/keeper"
	bep3types "github.com/kava-labs/kava/x/bep3/types"
	cdpkeeper "github.com/kava-labs/kava/x/cdp/keeper"
	cdptypes "github.com/kava-labs/kava/x/cdp/types"
	committeekeeper "github.com/kava-labs/kava/x/committee/keeper"
	committeetypes "github.com/kava-labs/kava/x/committee/types"
	communitykeeper "github.com/kava-labs/kava/x/community/keeper"
	communitytypes "github.com/kava-labs/kava/x/community/types"
	earnkeeper "github.com/kava-labs/kava/x/earn/keeper"
	earntypes "github.com/kava-labs/kava/x/earn/types"
	hardkeeper "github.com/kava-labs/kava/x/hard/keeper"
	hardtypes "github.com/kava-labs/kava/x/hard/types"
	issuancekeeper "github.com/kava-labs/kava/x/issuance/keeper"
	issuancetypes "github.com/kava-labs/kava/x/issuance/types"
	pricefeedkeeper "github.com/kava-labs/kava/x/pricefeed/keeper"
	pricefeedtypes "github.com/kava-labs/kava/x/pricefeed/types"
	savingskeeper "github.com/kava-labs/kava/x/savings/keeper"
	savingstypes "github.com/kava-labs/kava/x/savings/types"
	swapkeeper "github.com/kava-labs/kava/x/swap/keeper"
	swaptypes "github.com/kava-labs/kava/x/swap/types"
)

const (
	c16NUsers   = 10 // actors 0..9 are ordinary addresses; actor 9 has no account
	c16NoAcc    = 9
	c16DefaultL = 32
)

var (
	c16Denoms    = []string{"bnb", "ukava", "usdx", "xrp"} // deposit denoms, in sdk.Coins order
	c16Markets   = []string{"bnb:usd", "kava:usd", "usdx:usd", "xrp:usd"}
	// the first two issuance assets are case twins: coin denoms are case sensitive and the issuance
	// parameter validation only refuses exact duplicates, so "usdtoken" and "USDTOKEN" are two
	// assets, each with its own owner (the world gives them different owners)
	c16IssDenoms = []string{"usdtoken", "USDTOKEN", "tok2"}
	c16B3Denoms  = []string{"bnb", "btcb"}
	c16CTypes    = []string{"bnb-a", "xrp-a"}
	c16CDenom    = []string{"bnb", "xrp"}
	c16Pools     = []string{"bnb:usdx", "ukava:usdx"}
	c16PoolA     = []string{"bnb", "ukava"}
	c16EarnStrat = []int{1, 0, 0, 0} // per deposit denom: bnb vault -> savings (1), usdx vault -> hard (0)
)

func denomIdx(d string) int {
	for i, x := range c16Denoms {
		if x == d {
			return i
		}
	}
	return -1
}

type c16World struct {
	tApp   app.TestApp
	ctx    sdk.Context
	addrs  []sdk.AccAddress
	names  []string       // actor names ("u3", module name)
	idx    map[string]int // address string -> actor
	nacc   int
	gov    int
	earn   int
	keys   []storetypes.StoreKey // every store of the multistore, sorted by name
	knames []string

	signerMismatch string // set by exec when msg.GetSigners() is not the account the handler authenticates

	pfMsg   pricefeedtypes.MsgServer
	issMsg  issuancetypes.MsgServer
	b3Msg   bep3types.MsgServer
	comMsg  committeetypes.MsgServer
	cmtyMsg communitytypes.MsgServer
	cdpMsg  cdptypes.MsgServer
	hardMsg hardtypes.MsgServer
	savMsg  savingstypes.MsgServer
	swapMsg swaptypes.MsgServer
	earnMsg earntypes.MsgServer

	setupErrs []string

	swapIDs [][]byte // bep3 swaps created by committed operations, newest first
	nonce   int      // makes random number hashes distinct

	// the gov router of the app under test: changes of the designated principals go through the
	// handlers an enacted governance proposal reaches (x/params ParameterChangeProposal handler,
	// x/committee proposal handler).  Keepers, msg servers and this router are created once per
	// history, so whatever a keeper remembers in memory lives as long as it does in a node.
	govRoute govv1beta1.Router
	queue    []c16Queued // directed follow-up operations (re-probes after a change of principals)
}

// c16Queued is a pending directed operation: the kind and the market / asset / denom / committee it is about.
type c16Queued struct {
	kind   string
	a      int
	commit int // -1: drawn, 0: never, 1: always
}

func dec(s string) sdk.Dec { return sdk.MustNewDecFromStr(s) }

func subset(r *Rng, pool []int, min, max int) []int {
	n := min + r.Intn(max-min+1)
	perm := append([]int(nil), pool...)
	for i := len(perm) - 1; i > 0; i-- {
		j := r.Intn(i + 1)
		perm[i], perm[j] = perm[j], perm[i]
	}
	if n > len(perm) {
		n = len(perm)
	}
	out := append([]int(nil), perm[:n]...)
	sort.Ints(out)
	return out
}

func c16Setup(r *Rng) *c16World {
	tApp := NewApp()
	cdc := tApp.AppCodec()
	users := Addrs(c16NUsers)
	w := &c16World{tApp: tApp, idx: map[string]int{}}
	for i, u := range users {
		w.addrs = append(w.addrs, u)
		w.names = append(w.names, fmt.Sprintf("u%d", i))
	}
	var mnames []string
	for name := range app.GetMaccPerms() {
		mnames = append(mnames, name)
	}
	sort.Strings(mnames)
	for _, name := range mnames {
		if name == "gov" {
			w.gov = len(w.addrs)
		}
		if name == earntypes.ModuleName {
			w.earn = len(w.addrs)
		}
		w.addrs = append(w.addrs, authtypes.NewModuleAddress(name))
		w.names = append(w.names, name)
	}
	w.nacc = len(w.addrs)
	for i, a := range w.addrs {
		w.idx[a.String()] = i
	}
	userAddr := func(is []int) []sdk.AccAddress {
		out := make([]sdk.AccAddress, len(is))
		for k, i := range is {
			out[k] = users[i]
		}
		return out
	}
	roles := []int{0, 1, 2, 3, 4, 5, 6, 7} // users that may hold a role; 8 is a plain funded user, 9 has no account

	// ---- issuance assets
	var assets []issuancetypes.Asset
	nAssets := 2 + r.Intn(2)
	owners := make([]int, nAssets)
	for i := 0; i < nAssets; i++ {
		owners[i] = roles[r.Intn(len(roles))]
		if i == 1 && owners[1] == owners[0] {
			// the case twins never share their owner
			owners[1] = roles[(owners[0]+1+r.Intn(len(roles)-1))%len(roles)]
		}
		blockable := r.Chance(2, 3)
		var blocked []string
		if blockable {
			for _, b := range subset(r, []int{0, 1, 2, 3, 4, 5, 6, 7, 8}, 0, 2) {
				if b != owners[i] {
					blocked = append(blocked, users[b].String())
				}
			}
		}
		limit := issuancetypes.NewRateLimit(false, sdkmath.ZeroInt(), time.Duration(0))
		if r.Chance(1, 2) {
			limit = issuancetypes.NewRateLimit(true, sdkmath.NewInt(int64(500+r.Intn(3000))), 24*time.Hour)
		}
		assets = append(assets, issuancetypes.NewAsset(users[owners[i]].String(), c16IssDenoms[i], blocked, r.Chance(1, 6), blockable, limit))
	}
	issGen := issuancetypes.NewGenesisState(issuancetypes.NewParams(assets), nil)

	// ---- auth / bank
	b := app.NewAuthBankGenesisBuilder()
	for i := 0; i < c16NUsers; i++ {
		if i == c16NoAcc {
			continue
		}
		coins := sdk.NewCoins(
			sdk.NewInt64Coin("bnb", 1_000_000_000_000), sdk.NewInt64Coin("btcb", 1_000_000_000_000),
			sdk.NewInt64Coin("ukava", 1_000_000_000_000), sdk.NewInt64Coin("usdx", 1_000_000_000_000),
			sdk.NewInt64Coin("xrp", 1_000_000_000_000))
		for k := 0; k < nAssets; k++ {
			// the owner and some other users hold the asset (a redeem by a non-owner would not fail for lack of funds)
			if owners[k] == i || r.Chance(1, 2) {
				coins = coins.Add(sdk.NewInt64Coin(c16IssDenoms[k], int64(100+r.Intn(900))))
			}
		}
		b.WithSimpleAccount(users[i], coins)
	}

	// ---- pricefeed
	farFuture := GenesisTime.Add(10 * 365 * 24 * time.Hour)
	prices := []string{[]string{"5.0", "8.0", "12.5"}[r.Intn(3)], "2.0", "1.0", []string{"0.5", "0.25", "1.0"}[r.Intn(3)]}
	var markets []pricefeedtypes.Market
	var posted []pricefeedtypes.PostedPrice
	for i, m := range c16Markets {
		base := m[:len(m)-4]
		markets = append(markets, pricefeedtypes.Market{MarketID: m, BaseAsset: base, QuoteAsset: "usd",
			Oracles: userAddr(subset(r, roles, 0, 3)), Active: true})
		posted = append(posted, pricefeedtypes.PostedPrice{MarketID: m, OracleAddress: sdk.AccAddress{}, Price: dec(prices[i]), Expiry: farFuture})
	}
	pfGen := pricefeedtypes.GenesisState{Params: pricefeedtypes.Params{Markets: markets}, PostedPrices: posted}

	// ---- bep3
	var b3params bep3types.AssetParams
	var b3sup bep3types.AssetSupplies
	deputies := make([]int, len(c16B3Denoms))
	for i := range deputies {
		deputies[i] = roles[r.Intn(len(roles))]
		// mostly different deputies for different assets
		for i > 0 && deputies[i] == deputies[i-1] && !r.Chance(1, 5) {
			deputies[i] = roles[r.Intn(len(roles))]
		}
	}
	for i, d := range c16B3Denoms {
		b3params = append(b3params, bep3types.AssetParam{
			Denom: d, CoinID: int64(714 + i),
			SupplyLimit:   bep3types.SupplyLimit{Limit: sdkmath.NewInt(350_000_000_000_000), TimeLimited: false, TimeBasedLimit: sdk.ZeroInt(), TimePeriod: time.Hour},
			Active:        true,
			DeputyAddress: users[deputies[i]],
			FixedFee:      sdkmath.NewInt(1000), MinSwapAmount: sdk.OneInt(), MaxSwapAmount: sdkmath.NewInt(1_000_000_000_000),
			MinBlockLock: bep3types.DefaultMinBlockLock, MaxBlockLock: bep3types.DefaultMaxBlockLock,
		})
		b3sup = append(b3sup, bep3types.NewAssetSupply(
			sdk.NewCoin(d, sdk.ZeroInt()), sdk.NewCoin(d, sdk.ZeroInt()), sdk.NewInt64Coin(d, 1_000_000_000_000),
			sdk.NewCoin(d, sdk.ZeroInt()), time.Duration(0)))
	}
	b3Gen := bep3types.NewGenesisState(bep3types.Params{AssetParams: b3params}, nil, b3sup, bep3types.DefaultPreviousBlockTime)

	// ---- committees
	var coms []committeetypes.Committee
	nCom := 2 + r.Intn(2)
	for i := 0; i < nCom; i++ {
		members := userAddr(subset(r, roles, 1, 3))
		perms := []committeetypes.Permission{&committeetypes.TextPermission{}}
		if r.Chance(1, 4) {
			perms = []committeetypes.Permission{&committeetypes.GodPermission{}}
		}
		if i == 0 || r.Chance(1, 2) {
			coms = append(coms, committeetypes.MustNewMemberCommittee(uint64(i+1), fmt.Sprintf("member committee %d", i+1), members, perms,
				dec("0.5"), 7*24*time.Hour, committeetypes.TALLY_OPTION_FIRST_PAST_THE_POST))
		} else {
			coms = append(coms, committeetypes.MustNewTokenCommittee(uint64(i+1), fmt.Sprintf("token committee %d", i+1), members, perms,
				dec("0.5"), 7*24*time.Hour, committeetypes.TALLY_OPTION_DEADLINE, dec("0.1"), "usdx"))
		}
	}
	comGen := committeetypes.NewGenesisState(committeetypes.DefaultNextProposalID, coms, committeetypes.Proposals{}, []committeetypes.Vote{})

	// ---- cdp
	var cparams cdptypes.CollateralParams
	var gats cdptypes.GenesisAccumulationTimes
	var gtps cdptypes.GenesisTotalPrincipals
	for i, ct := range c16CTypes {
		mk := c16CDenom[i] + ":usd"
		cparams = append(cparams, cdptypes.CollateralParam{
			Denom: c16CDenom[i], Type: ct, LiquidationRatio: dec("1.5"),
			DebtLimit: sdk.NewInt64Coin("usdx", 1_000_000_000_000), StabilityFee: sdk.OneDec(),
			LiquidationPenalty: dec("0.05"), AuctionSize: sdkmath.NewInt(100_000_000),
			SpotMarketID: mk, LiquidationMarketID: mk, KeeperRewardPercentage: dec("0.01"),
			CheckCollateralizationIndexCount: sdkmath.NewInt(10), ConversionFactor: sdkmath.NewInt(6),
		})
		gats = append(gats, cdptypes.NewGenesisAccumulationTime(ct, time.Time{}, sdk.OneDec()))
		gtps = append(gtps, cdptypes.NewGenesisTotalPrincipal(ct, sdk.ZeroInt()))
	}
	cdpGen := cdptypes.GenesisState{
		Params: cdptypes.Params{
			GlobalDebtLimit:         sdk.NewInt64Coin("usdx", 2_000_000_000_000),
			SurplusAuctionThreshold: cdptypes.DefaultSurplusThreshold, SurplusAuctionLot: cdptypes.DefaultSurplusLot,
			DebtAuctionThreshold: cdptypes.DefaultDebtThreshold, DebtAuctionLot: cdptypes.DefaultDebtLot,
			LiquidationBlockInterval: cdptypes.DefaultBeginBlockerExecutionBlockInterval,
			CollateralParams:         cparams,
			DebtParam:                cdptypes.DebtParam{Denom: "usdx", ReferenceAsset: "usd", ConversionFactor: sdkmath.NewInt(6), DebtFloor: sdkmath.NewInt(1_000_000)},
		},
		StartingCdpID: cdptypes.DefaultCdpStartingID, DebtDenom: cdptypes.DefaultDebtDenom, GovDenom: cdptypes.DefaultGovDenom,
		CDPs: cdptypes.CDPs{}, PreviousAccumulationTimes: gats, TotalPrincipals: gtps,
	}

	// ---- hard
	mm := func(denom, market string) hardtypes.MoneyMarket {
		return hardtypes.MoneyMarket{
			Denom:        denom,
			BorrowLimit:  hardtypes.BorrowLimit{HasMaxLimit: true, MaximumLimit: dec("100000000000000"), LoanToValue: dec("0.5")},
			SpotMarketID: market, ConversionFactor: sdkmath.NewInt(1_000_000),
			InterestRateModel: hardtypes.InterestRateModel{BaseRateAPY: dec("0"), BaseMultiplier: dec("0.05"), Kink: dec("0.8"), JumpMultiplier: dec("5")},
			ReserveFactor:     dec("0.025"), KeeperRewardPercentage: dec("0.02"),
		}
	}
	hardGen := hardtypes.GenesisState{
		Params:                    hardtypes.NewParams(hardtypes.MoneyMarkets{mm("bnb", "bnb:usd"), mm("ukava", "kava:usd"), mm("usdx", "usdx:usd")}, dec("10")),
		PreviousAccumulationTimes: hardtypes.GenesisAccumulationTimes{},
		Deposits:                  hardtypes.DefaultDeposits, Borrows: hardtypes.DefaultBorrows,
		TotalSupplied: sdk.NewCoins(), TotalBorrowed: sdk.NewCoins(), TotalReserves: sdk.NewCoins(),
	}

	savGen := savingstypes.NewGenesisState(savingstypes.NewParams([]string{"bnb", "ukava", "usdx"}), savingstypes.Deposits{})
	swapGen := swaptypes.NewGenesisState(swaptypes.NewParams(swaptypes.NewAllowedPools(
		swaptypes.NewAllowedPool("bnb", "usdx"), swaptypes.NewAllowedPool("ukava", "usdx")), dec("0.003")), swaptypes.PoolRecords{}, swaptypes.ShareRecords{})
	earnGen := earntypes.NewGenesisState(earntypes.NewParams(earntypes.AllowedVaults{
		earntypes.NewAllowedVault("bnb", earntypes.StrategyTypes{earntypes.STRATEGY_TYPE_SAVINGS}, false, nil),
		earntypes.NewAllowedVault("usdx", earntypes.StrategyTypes{earntypes.STRATEGY_TYPE_HARD}, false, nil),
	}), earntypes.VaultRecords{}, earntypes.VaultShareRecords{})

	tApp.InitializeFromGenesisStatesWithTime(GenesisTime,
		b.BuildMarshalled(cdc),
		app.GenesisState{pricefeedtypes.ModuleName: cdc.MustMarshalJSON(&pfGen)},
		app.GenesisState{issuancetypes.ModuleName: cdc.MustMarshalJSON(&issGen)},
		app.GenesisState{bep3types.ModuleName: cdc.MustMarshalJSON(&b3Gen)},
		app.GenesisState{committeetypes.ModuleName: cdc.MustMarshalJSON(comGen)},
		app.GenesisState{cdptypes.ModuleName: cdc.MustMarshalJSON(&cdpGen)},
		app.GenesisState{hardtypes.ModuleName: cdc.MustMarshalJSON(&hardGen)},
		app.GenesisState{savingstypes.ModuleName: cdc.MustMarshalJSON(&savGen)},
		app.GenesisState{swaptypes.ModuleName: cdc.MustMarshalJSON(&swapGen)},
		app.GenesisState{earntypes.ModuleName: cdc.MustMarshalJSON(&earnGen)},
	)
	w.ctx = NewCtx(tApp, 2, GenesisTime.Add(100*time.Second))
	ak := tApp.GetAccountKeeper()
	for _, name := range mnames {
		ak.GetModuleAccount(w.ctx, name) // creates the account when it is missing
	}

	// every store of the multistore
	byName := tApp.CommitMultiStore().(*rootmulti.Store).StoreKeysByName()
	for n := range byName {
		w.knames = append(w.knames, n)
	}
	sort.Strings(w.knames)
	for _, n := range w.knames {
		w.keys = append(w.keys, byName[n])
	}

	w.pfMsg = pricefeedkeeper.NewMsgServerImpl(tApp.GetPriceFeedKeeper())
	w.issMsg = issuancekeeper.NewMsgServerImpl(tApp.GetIssuanceKeeper())
	w.b3Msg = bep3keeper.NewMsgServerImpl(tApp.GetBep3Keeper())
	w.comMsg = committeekeeper.NewMsgServerImpl(tApp.GetCommitteeKeeper())
	w.cmtyMsg = communitykeeper.NewMsgServerImpl(tApp.GetCommunityKeeper())
	w.cdpMsg = cdpkeeper.NewMsgServerImpl(tApp.GetCDPKeeper())
	w.hardMsg = hardkeeper.NewMsgServerImpl(tApp.GetHardKeeper())
	w.savMsg = savingskeeper.NewMsgServerImpl(tApp.GetSavingsKeeper())
	w.swapMsg = swapkeeper.NewMsgServerImpl(tApp.GetSwapKeeper())
	ek := tApp.GetEarnKeeper()
	w.earnMsg = earnkeeper.NewMsgServerImpl(ek)
	w.govRoute = tApp.GetGovKeeper().LegacyRouter()

	// ---- initial records, through the keepers
	// a refused set-up step is tolerated (the history then starts from whatever
	// records exist): the tree under test may refuse it, and the probes still run
	must := func(err error) {
		if err != nil {
			w.setupErrs = append(w.setupErrs, err.Error())
		}
	}
	funded := []int{0, 1, 2, 3, 4, 5, 6, 7, 8}
	ck := tApp.GetCDPKeeper()
	for _, o := range subset(r, funded, 2, 4) {
		t := r.Intn(len(c16CTypes))
		coll := sdk.NewInt64Coin(c16CDenom[t], int64(1000+r.Intn(2000))*1_000_000)
		must(ck.AddCdp(w.ctx, users[o], coll, sdk.NewInt64Coin("usdx", int64(20+r.Intn(60))*1_000_000), c16CTypes[t]))
		for _, d := range subset(r, funded, 0, 2) {
			if d != o {
				must(ck.DepositCollateral(w.ctx, users[o], users[d], sdk.NewInt64Coin(c16CDenom[t], int64(100+r.Intn(300))*1_000_000), c16CTypes[t]))
			}
		}
	}
	hk := tApp.GetHardKeeper()
	for _, u := range subset(r, funded, 2, 4) {
		var cs sdk.Coins
		for _, d := range subset(r, []int{0, 1, 2}, 1, 3) {
			cs = cs.Add(sdk.NewInt64Coin(c16Denoms[d], int64(1+r.Intn(5000))*1000))
		}
		must(hk.Deposit(w.ctx, users[u], cs))
	}
	sk := tApp.GetSavingsKeeper()
	for _, u := range subset(r, funded, 2, 4) {
		var cs sdk.Coins
		for _, d := range subset(r, []int{0, 1, 2}, 1, 3) {
			cs = cs.Add(sdk.NewInt64Coin(c16Denoms[d], int64(1+r.Intn(5000))*1000))
		}
		must(sk.Deposit(w.ctx, users[u], cs))
	}
	wk := tApp.GetSwapKeeper()
	for p := range c16Pools {
		for k, u := range subset(r, funded, 1, 3) {
			a := int64(1000+r.Intn(9000)) * 1000
			bb := int64(1000+r.Intn(9000)) * 1000
			slip := dec("0.05")
			if k > 0 {
				slip = dec("100000")
			}
			must(wk.Deposit(w.ctx, users[u], sdk.NewInt64Coin(c16PoolA[p], a), sdk.NewInt64Coin("usdx", bb), slip))
		}
	}
	for _, u := range subset(r, funded, 2, 4) {
		if r.Chance(2, 3) {
			must(ek.Deposit(w.ctx, users[u], sdk.NewInt64Coin("usdx", int64(1+r.Intn(5000))*1000), earntypes.STRATEGY_TYPE_HARD))
		}
		if r.Chance(2, 3) {
			must(ek.Deposit(w.ctx, users[u], sdk.NewInt64Coin("bnb", int64(1+r.Intn(5000))*1000), earntypes.STRATEGY_TYPE_SAVINGS))
		}
	}
	// yield: the vaults' strategy deposits grow, so that a share is worth more than one coin
	earnAddr := w.addrs[w.earn]
	if r.Chance(1, 2) {
		if d, ok := hk.GetDeposit(w.ctx, earnAddr); ok && d.Amount.AmountOf("usdx").IsPositive() {
			y := sdk.NewCoins(sdk.NewInt64Coin("usdx", int64(1+r.Intn(900))*1000+int64(r.Intn(1000))))
			must(tApp.FundModuleAccount(w.ctx, earntypes.ModuleName, y))
			must(hk.Deposit(w.ctx, earnAddr, y))
		}
	}
	if r.Chance(1, 2) {
		if d, ok := sk.GetDeposit(w.ctx, earnAddr); ok && d.Amount.AmountOf("bnb").IsPositive() {
			y := sdk.NewCoins(sdk.NewInt64Coin("bnb", int64(1+r.Intn(900))*1000+int64(r.Intn(1000))))
			must(tApp.FundModuleAccount(w.ctx, earntypes.ModuleName, y))
			must(sk.Deposit(w.ctx, earnAddr, y))
		}
	}
	return w
}

// digest hashes every key/value pair of every store of the multistore as seen
// through ctx (a cached context shows its own pending writes).
func (w *c16World) digest(ctx sdk.Context) [32]byte {
	h := sha256.New()
	var lb [8]byte
	put := func(bz []byte) {
		binary.BigEndian.PutUint64(lb[:], uint64(len(bz)))
		h.Write(lb[:])
		h.Write(bz)
	}
	ms := ctx.MultiStore()
	for i, k := range w.keys {
		put([]byte(w.knames[i]))
		it := ms.GetKVStore(k).Iterator(nil, nil)
		n := uint64(0)
		for ; it.Valid(); it.Next() {
			put(it.Key())
			put(it.Value())
			n++
		}
		it.Close()
		binary.BigEndian.PutUint64(lb[:], n)
		h.Write(lb[:])
	}
	var out [32]byte
	copy(out[:], h.Sum(nil))
	return out
}

// storeDigests returns one digest per store (used to name the store a refused
// message wrote to).
func (w *c16World) changedStores(base, ctx sdk.Context) []string {
	var out []string
	for i, k := range w.keys {
		if w.storeDigest(base, k) != w.storeDigest(ctx, k) {
			out = append(out, w.knames[i])
		}
	}
	return out
}

func (w *c16World) storeDigest(ctx sdk.Context, k storetypes.StoreKey) [32]byte {
	h := sha256.New()
	var lb [8]byte
	it := ctx.MultiStore().GetKVStore(k).Iterator(nil, nil)
	for ; it.Valid(); it.Next() {
		for _, bz := range [][]byte{it.Key(), it.Value()} {
			binary.BigEndian.PutUint64(lb[:], uint64(len(bz)))
			h.Write(lb[:])
			h.Write(bz)
		}
	}
	it.Close()
	var out [32]byte
	copy(out[:], h.Sum(nil))
	return out
}
