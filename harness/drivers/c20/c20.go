package c20

// C20 — x/incentive time-locked reward payouts.  Histories of
// SendTimeLockedCoinsToAccount / GetPeriodLength (+ bank SendCoins by the
// recipients) on the real incentive keeper over the real x/auth vesting
// accounts and x/bank, with monitors stating the property on the
// implementation and Coq case files for Model/Vesting.v.

import (
	. "kavaverif/lib"

	"crypto/sha1"
	"encoding/hex"
	"encoding/json"
	"fmt"
	"math/big"
	"os"
	"sort"
	"strings"
	"time"

	sdkmath "cosmossdk.io/math"
	sdk "github.com/cosmos/cosmos-sdk/types"
	authkeeper "github.com/cosmos/cosmos-sdk/x/auth/keeper"
	authtypes "github.com/cosmos/cosmos-sdk/x/auth/types"
	vestingtypes "github.com/cosmos/cosmos-sdk/x/auth/vesting/types"
	bankkeeper "github.com/cosmos/cosmos-sdk/x/bank/keeper"

	"github.com/kava-labs/kava/app"
	inckeeper "github.com/kava-labs/kava/x/incentive/keeper"
	inctypes "github.com/kava-labs/kava/x/incentive/types"
)

func init() { Registry["C20"] = runC20 }

// denoms by model index (string order); index 3 is a denom nobody holds
var c20Denoms = []string{"hard", "ukava", "usdx", "zzz"}

const (
	c20ND       = 3 // tracked denoms
	c20NAcc     = 10
	c20Sink     = 6
	c20Macc     = 7
	c20DefaultL = 24
	c20T0       = int64(1704067200) // 2024-01-01 00:00:00 UTC
	c20Header   = "From Kava Require Import Base.Prelude Model.Vesting."
)

// account kinds (the model's tags)
const (
	kNone = iota
	kBase
	kPeriodic
	kContinuous
	kModule
	kOther
)

// history modes
const (
	mSmall     = 0 // second-scale layouts, boundary-directed lengths (main stream)
	mCalendar  = 1 // claim-heavy, block times near calendar features (main stream)
	mMalformed = 2 // negative lengths, ill-formed initial schedules, invalid coins (correspondence only)
	mDelegated = 3 // recipients with DelegatedVesting > 0 (reported only, see DESIGN 7.20)
)

var c20ModName = map[int]string{7: inctypes.IncentiveMacc, 8: "hard", 9: "community"}

type c20Coin struct {
	D int    `json:"d"`
	A string `json:"a"`
}

type c20Op struct {
	Kind  string    `json:"kind"` // send | claim | spend | plen
	Now   int64     `json:"now"`
	Ns    int64     `json:"ns,omitempty"` // nanosecond part of the block time (the model counts whole seconds: everything goes through .Unix())
	R     int       `json:"r"`
	Coins []c20Coin `json:"coins,omitempty"`
	Len   int64     `json:"len"` // lock-up length in seconds (send) or months of lock-up (claim, plen)
}

type c20PerJ struct {
	L int64    `json:"l"`
	A []string `json:"a"`
}

// c20AccJ is the replayable specification of an initial account.
type c20AccJ struct {
	Kind    int       `json:"kind"`
	Start   int64     `json:"start,omitempty"`
	End     int64     `json:"end,omitempty"`
	OV      []string  `json:"ov,omitempty"`
	DV      []string  `json:"dv,omitempty"`
	Periods []c20PerJ `json:"periods,omitempty"`
	Bal     []string  `json:"bal"`
}

type c20Hist struct {
	Seed uint64    `json:"seed"`
	Idx  int       `json:"history"`
	Mode int       `json:"mode"`
	Init []c20AccJ `json:"init"`
	Ops  []c20Op   `json:"ops"`
}

type c20Per struct {
	L int64
	A []*big.Int
}

// c20Acc is the observed projection of an account.
type c20Acc struct {
	Kind    int
	Start   int64
	End     int64
	OV      []*big.Int
	DV      []*big.Int
	Periods []c20Per
	Bal     []*big.Int
	Valid   error // PeriodicVestingAccount.Validate() of the stored account (periodic only)
}

type c20World struct {
	tApp  app.TestApp
	ctx   sdk.Context
	ik    inckeeper.Keeper
	bk    bankkeeper.Keeper
	ak    authkeeper.AccountKeeper
	addrs []sdk.AccAddress
}

// ------------------------------------------------------------ helpers

func bi(s string) *big.Int {
	x, ok := new(big.Int).SetString(s, 10)
	if !ok {
		panic("bad integer " + s)
	}
	return x
}

func zeroVec() []*big.Int {
	v := make([]*big.Int, c20ND)
	for i := range v {
		v[i] = new(big.Int)
	}
	return v
}

func vecJ(v []*big.Int) []string {
	out := make([]string, len(v))
	for i, x := range v {
		out[i] = x.String()
	}
	return out
}

func vecOfJ(s []string) []*big.Int {
	v := zeroVec()
	for i := 0; i < len(s) && i < c20ND; i++ {
		v[i] = bi(s[i])
	}
	return v
}

func vecCoins(v []*big.Int) sdk.Coins {
	cs := sdk.NewCoins()
	for d, x := range v {
		if x.Sign() > 0 {
			cs = cs.Add(sdk.NewCoin(c20Denoms[d], sdkmath.NewIntFromBigInt(x)))
		}
	}
	return cs
}

func coinsVec(cs sdk.Coins) []*big.Int {
	v := make([]*big.Int, c20ND)
	for d := 0; d < c20ND; d++ {
		v[d] = cs.AmountOf(c20Denoms[d]).BigInt()
	}
	return v
}

func vecEq(a, b []*big.Int) bool {
	if len(a) != len(b) {
		return false
	}
	for i := range a {
		if a[i].Cmp(b[i]) != 0 {
			return false
		}
	}
	return true
}

func vecAdd(a, b []*big.Int) []*big.Int {
	out := make([]*big.Int, len(a))
	for i := range a {
		out[i] = new(big.Int).Add(a[i], b[i])
	}
	return out
}

func vecStr(v []*big.Int) string { return "[" + strings.Join(vecJ(v), ",") + "]" }

// opCoins builds the (possibly invalid) sdk.Coins argument of an operation.
func opCoins(cs []c20Coin) sdk.Coins {
	out := make(sdk.Coins, len(cs))
	for i, c := range cs {
		out[i] = sdk.Coin{Denom: c20Denoms[c.D], Amount: sdkmath.NewIntFromBigInt(bi(c.A))}
	}
	return out
}

func accEq(a, b *c20Acc) bool {
	if a.Kind != b.Kind || a.Start != b.Start || a.End != b.End || !vecEq(a.OV, b.OV) || !vecEq(a.DV, b.DV) ||
		!vecEq(a.Bal, b.Bal) || len(a.Periods) != len(b.Periods) {
		return false
	}
	for i := range a.Periods {
		if a.Periods[i].L != b.Periods[i].L || !vecEq(a.Periods[i].A, b.Periods[i].A) {
			return false
		}
	}
	return true
}

// ------------------------------------------------------------ setup and observation

func c20Setup(init []c20AccJ) *c20World {
	tApp := NewApp()
	tApp.InitializeFromGenesisStatesWithTime(GenesisTime)
	ctx := NewCtx(tApp, 2, time.Unix(c20T0, 0).UTC())
	w := &c20World{tApp: tApp, ctx: ctx, ik: tApp.GetIncentiveKeeper(), bk: tApp.GetBankKeeper(), ak: tApp.GetAccountKeeper()}
	// incentive params: claim multipliers for the USDX-minting reward denom, every factor 1
	ms := inctypes.Multipliers{}
	for _, mo := range []int64{0, 1, 2, 3, 6, 12, 24} {
		ms = append(ms, inctypes.NewMultiplier(c20Mult[mo], mo, sdk.OneDec()))
	}
	params := inctypes.DefaultParams()
	params.ClaimMultipliers = inctypes.MultipliersPerDenoms{{Denom: "ukava", Multipliers: ms}}
	params.ClaimEnd = time.Date(2300, 1, 1, 0, 0, 0, 0, time.UTC)
	w.ik.SetParams(ctx, params)
	users := Addrs(c20NAcc)
	w.addrs = make([]sdk.AccAddress, c20NAcc)
	for i := 0; i < c20NAcc; i++ {
		spec := init[i]
		w.addrs[i] = users[i]
		bal := vecCoins(vecOfJ(spec.Bal))
		if spec.Kind == kModule {
			macc := w.ak.GetModuleAccount(ctx, c20ModName[i])
			w.addrs[i] = macc.GetAddress()
			if !bal.IsZero() {
				if err := tApp.FundModuleAccount(ctx, c20ModName[i], bal); err != nil {
					panic(err)
				}
			}
			continue
		}
		if spec.Kind == kNone {
			continue
		}
		bacc := w.ak.NewAccountWithAddress(ctx, users[i]).(*authtypes.BaseAccount)
		switch spec.Kind {
		case kBase:
			w.ak.SetAccount(ctx, bacc)
		default:
			bva := vestingtypes.NewBaseVestingAccount(bacc, vecCoins(vecOfJ(spec.OV)), spec.End)
			bva.DelegatedVesting = vecCoins(vecOfJ(spec.DV))
			switch spec.Kind {
			case kPeriodic:
				ps := vestingtypes.Periods{}
				for _, p := range spec.Periods {
					ps = append(ps, vestingtypes.Period{Length: p.L, Amount: vecCoins(vecOfJ(p.A))})
				}
				w.ak.SetAccount(ctx, vestingtypes.NewPeriodicVestingAccountRaw(bva, spec.Start, ps))
			case kContinuous:
				w.ak.SetAccount(ctx, vestingtypes.NewContinuousVestingAccountRaw(bva, spec.Start))
			default:
				w.ak.SetAccount(ctx, vestingtypes.NewDelayedVestingAccountRaw(bva))
			}
		}
		if !bal.IsZero() {
			if err := tApp.FundAccount(ctx, users[i], bal); err != nil {
				panic(err)
			}
		}
	}
	return w
}

func (w *c20World) readAcc(ctx sdk.Context, i int) c20Acc {
	a := c20Acc{OV: zeroVec(), DV: zeroVec()}
	a.Bal = make([]*big.Int, c20ND)
	for d := 0; d < c20ND; d++ {
		a.Bal[d] = w.bk.GetBalance(ctx, w.addrs[i], c20Denoms[d]).Amount.BigInt()
	}
	acc := w.ak.GetAccount(ctx, w.addrs[i])
	switch v := acc.(type) {
	case nil:
		a.Kind = kNone
	case *vestingtypes.PeriodicVestingAccount:
		a.Kind = kPeriodic
		a.Start, a.End = v.StartTime, v.EndTime
		a.OV, a.DV = coinsVec(v.OriginalVesting), coinsVec(v.DelegatedVesting)
		for _, p := range v.VestingPeriods {
			a.Periods = append(a.Periods, c20Per{p.Length, coinsVec(p.Amount)})
		}
		a.Valid = v.Validate()
	case *vestingtypes.ContinuousVestingAccount:
		a.Kind = kContinuous
	case authtypes.ModuleAccountI:
		a.Kind = kModule
	case *authtypes.BaseAccount:
		a.Kind = kBase
	default:
		a.Kind = kOther
	}
	return a
}

func (w *c20World) snap() []c20Acc {
	out := make([]c20Acc, c20NAcc)
	for i := range out {
		out[i] = w.readAcc(w.ctx, i)
	}
	return out
}

type c20Probe struct {
	T      int64
	Locked []*big.Int
	Spend  []*big.Int
	Panic  string // the bank query panicked (an account whose vested coins exceed its original vesting)
}

// probe evaluates the bank's LockedCoins / SpendableCoins of account i with contexts at the given block times.
func (w *c20World) probe(i int, times []int64) []c20Probe {
	out := make([]c20Probe, len(times))
	for k, t := range times {
		func() {
			defer func() {
				if r := recover(); r != nil {
					out[k] = c20Probe{T: t, Locked: zeroVec(), Spend: zeroVec(), Panic: fmt.Sprint(r)}
				}
			}()
			ctx := w.ctx.WithBlockTime(time.Unix(t, 0).UTC())
			out[k] = c20Probe{T: t, Locked: coinsVec(w.bk.LockedCoins(ctx, w.addrs[i])), Spend: coinsVec(w.bk.SpendableCoins(ctx, w.addrs[i]))}
		}()
	}
	return out
}

// probeTimes: every boundary of the account's schedule, its start and end, now and the lock-up end, each -1/0/+1 s.
func probeTimes(a *c20Acc, now, unlock int64) []int64 {
	set := map[int64]bool{}
	add := func(t int64) { set[t-1], set[t], set[t+1] = true, true, true }
	add(now)
	add(unlock)
	if a.Kind == kPeriodic {
		add(a.Start)
		add(a.End)
		cur := a.Start
		if a.Start > now { // the merge moves the start to now
			cur = a.Start
		}
		for _, p := range a.Periods {
			cur += p.L
			add(cur)
		}
	}
	ts := make([]int64, 0, len(set))
	for t := range set {
		ts = append(ts, t)
	}
	sort.Slice(ts, func(i, j int) bool { return ts[i] < ts[j] })
	return ts
}

// ------------------------------------------------------------ execution

func (w *c20World) exec(op c20Op) (cls Class, err error, plen int64) {
	ctx := w.ctx.WithBlockTime(time.Unix(op.Now, op.Ns).UTC())
	coins := opCoins(op.Coins)
	cls, err = Atomically(ctx, func(c sdk.Context) error {
		switch op.Kind {
		case "send":
			return w.ik.SendTimeLockedCoinsToAccount(c, inctypes.IncentiveMacc, w.addrs[op.R], coins, op.Len)
		case "claim":
			// what every Claim*Reward of claim.go does after computing the reward coins
			plen = w.ik.GetPeriodLength(c.BlockTime(), op.Len)
			return w.ik.SendTimeLockedCoinsToAccount(c, inctypes.IncentiveMacc, w.addrs[op.R], coins, plen)
		case "usdxclaim":
			// the real claim path: a stored USDX-minting claim of the recipient, claimed by its owner through
			// Keeper.ClaimUSDXMintingReward with a multiplier of factor 1 and op.Len months of lock-up
			plen = w.ik.GetPeriodLength(c.BlockTime(), op.Len)
			w.ik.SetUSDXMintingClaim(c, inctypes.NewUSDXMintingClaim(w.addrs[op.R], sdk.NewCoin("ukava", coins.AmountOf("ukava")), nil))
			return w.ik.ClaimUSDXMintingReward(c, w.addrs[op.R], w.addrs[op.R], c20Mult[op.Len])
		case "spend":
			return w.bk.SendCoins(c, w.addrs[op.R], w.addrs[c20Sink], coins)
		case "plen":
			plen = w.ik.GetPeriodLength(c.BlockTime(), op.Len)
			return nil
		}
		panic("unknown op kind " + op.Kind)
	})
	return
}

func isClaim(op c20Op) bool { return op.Kind == "claim" || op.Kind == "usdxclaim" }

// multiplier names of the incentive params set up by c20Setup, by months of lock-up (all with factor 1)
var c20Mult = map[int64]string{0: "m0", 1: "m1", 2: "m2", 3: "m3", 6: "m6", 12: "m12", 24: "m24"}

func c20ErrKind(err error) string {
	if err == nil {
		return "none"
	}
	m := err.Error()
	switch {
	case strings.HasPrefix(m, "panic"):
		return "panic"
	case strings.Contains(m, "insufficient balance to pay claim"):
		return "insufficient-module-balance"
	case strings.Contains(m, "account not found"):
		return "account-not-found"
	case strings.Contains(m, "account type not supported"):
		return "invalid-account-type"
	case strings.Contains(m, "not allowed to receive"):
		return "blocked-recipient"
	case strings.Contains(m, "invalid coins"):
		return "invalid-coins"
	case strings.Contains(m, "insufficient funds") || strings.Contains(m, "is smaller than"):
		return "insufficient-funds"
	}
	return "other"
}

// ------------------------------------------------------------ generation

func c20GenAmounts(r *Rng, k int) []string {
	v := make([]string, c20ND)
	for d := range v {
		v[d] = "0"
	}
	// one or two denoms carry an amount
	n := 1 + r.Intn(2)
	for j := 0; j < n; j++ {
		v[r.Intn(c20ND)] = fmt.Sprint(1 + r.Intn(k))
	}
	return v
}

func c20GenLens(r *Rng, mode int, n int) []int64 {
	ls := make([]int64, n)
	for i := range ls {
		switch {
		case mode == mCalendar:
			ls[i] = int64(1+r.Intn(40)) * 86400
			if r.Chance(1, 3) {
				ls[i] += int64(r.Intn(86400))
			}
		default:
			ls[i] = int64(1 + r.Intn(5))
			if r.Chance(1, 8) {
				ls[i] = int64(10 + r.Intn(90))
			}
		}
	}
	return ls
}

// c20GenPeriodic draws a periodic vesting account in a random phase relative to now0.
func c20GenPeriodic(r *Rng, mode int, now0 int64, cnt *Counters) c20AccJ {
	n := 1 + r.Intn(4)
	ls := c20GenLens(r, mode, n)
	a := c20AccJ{Kind: kPeriodic}
	ov := zeroVec()
	total := int64(0)
	for i := 0; i < n; i++ {
		am := c20GenAmounts(r, 100)
		if r.Chance(1, 12) {
			am = []string{"0", "0", "0"} // a period without coins
		}
		a.Periods = append(a.Periods, c20PerJ{ls[i], am})
		ov = vecAdd(ov, vecOfJ(am))
		total += ls[i]
	}
	unit := int64(1)
	if mode == mCalendar {
		unit = 86400
	}
	var phase string
	switch r.Pick(18, 8, 30, 14, 8, 6, 16) {
	case 0:
		phase = "not-started"
		a.Start = now0 + int64(1+r.Intn(9))*unit
	case 1:
		phase = "starts-now"
		a.Start = now0
	case 2:
		phase = "inside-period"
		a.Start = now0 - 1 - r.Int63n(total)
		if a.Start+total <= now0 {
			a.Start = now0 - total + 1
		}
	case 3:
		phase = "on-boundary"
		k := r.Intn(n)
		off := int64(0)
		for i := 0; i <= k; i++ {
			off += ls[i]
		}
		a.Start = now0 - off
	case 4:
		phase = "ends-now"
		a.Start = now0 - total
	case 5:
		phase = "ended-1s-ago"
		a.Start = now0 - total - 1
	default:
		phase = "ended"
		a.Start = now0 - total - int64(1+r.Intn(5))*unit
	}
	if cnt != nil {
		cnt.Inc("init:periodic:" + phase)
	}
	a.End = a.Start + total
	a.OV = vecJ(ov)
	a.DV = []string{"0", "0", "0"}
	free := zeroVec()
	for d := range free {
		if r.Chance(2, 3) {
			free[d] = big.NewInt(int64(r.Intn(60)))
		}
	}
	a.Bal = vecJ(vecAdd(ov, free))
	if mode == mDelegated {
		dv := zeroVec()
		for d := range dv {
			if ov[d].Sign() > 0 && r.Chance(2, 3) {
				dv[d] = big.NewInt(1 + r.Int63n(ov[d].Int64()))
			}
		}
		a.DV = vecJ(dv)
	}
	if mode == mMalformed && r.Chance(1, 2) {
		// schedules that PeriodicVestingAccount.Validate or MsgCreatePeriodicVestingAccount would reject
		switch r.Intn(4) {
		case 0:
			a.Periods[r.Intn(n)].L = 0
			if cnt != nil {
				cnt.Inc("init:periodic:zero-length-period")
			}
		case 1:
			a.End += int64(r.Intn(7) - 3)
			if cnt != nil {
				cnt.Inc("init:periodic:end-mismatch")
			}
		case 2:
			a.Periods, a.OV, a.Bal = nil, []string{"0", "0", "0"}, vecJ(free)
			a.End = a.Start + int64(r.Intn(3))
			if cnt != nil {
				cnt.Inc("init:periodic:no-periods")
			}
		default:
			a.Periods[0].L = 0
			a.Start = now0 + 2
			a.End = a.Start
			for _, p := range a.Periods {
				a.End += p.L
			}
			if cnt != nil {
				cnt.Inc("init:periodic:zero-length-first-not-started")
			}
		}
	}
	return a
}

func c20CalendarTime(r *Rng) int64 {
	y := 1971 + r.Intn(129)
	mo := 1 + r.Intn(12)
	days := []int{1, 2, 14, 15, 15, 15, 16, 28, 29, 30, 31}
	d := days[r.Intn(len(days))]
	if r.Chance(1, 5) {
		mo, d = 2, 28+r.Intn(2)
	}
	if r.Chance(1, 8) {
		mo, d = 12, 31
	}
	var h, mi, s int
	switch r.Intn(6) {
	case 0:
		h, mi, s = 0, 0, 0
	case 1:
		h, mi, s = 13, 59, 59
	case 2:
		h, mi, s = 14, 0, 0
	case 3:
		h, mi, s = 14, 0, 1
	case 4:
		h, mi, s = 23, 59, 59
	default:
		h, mi, s = r.Intn(24), r.Intn(60), r.Intn(60)
	}
	return time.Date(y, time.Month(mo), d, h, mi, s, 0, time.UTC).Unix()
}

func c20GenInit(r *Rng, mode int, now0 int64, cnt *Counters) []c20AccJ {
	init := make([]c20AccJ, c20NAcc)
	small := func() []string {
		v := zeroVec()
		for d := range v {
			if r.Chance(3, 4) {
				v[d] = big.NewInt(int64(r.Intn(200)))
			}
		}
		return vecJ(v)
	}
	init[0] = c20AccJ{Kind: kBase, Bal: small()}
	init[1] = c20GenPeriodic(r, mode, now0, cnt)
	init[2] = c20GenPeriodic(r, mode, now0, cnt)
	if r.Chance(1, 6) {
		init[2] = c20AccJ{Kind: kBase, Bal: small()}
	}
	ov := []string{"50", "70", "0"}
	init[3] = c20AccJ{Kind: kContinuous, Start: now0 - 10, End: now0 + 100, OV: ov, Bal: []string{"60", "70", "5"}}
	init[4] = c20AccJ{Kind: kOther, End: now0 + 50, OV: ov, Bal: []string{"50", "70", "0"}}
	init[5] = c20AccJ{Kind: kNone, Bal: []string{"0", "0", "0"}}
	init[c20Sink] = c20AccJ{Kind: kBase, Bal: []string{"0", "0", "0"}}
	mb := zeroVec()
	switch r.Pick(70, 12, 18) {
	case 0:
		for d := range mb {
			mb[d] = big.NewInt(1_000_000 + int64(r.Intn(1000)))
		}
	case 1: // a nearly empty payout account
		for d := range mb {
			mb[d] = big.NewInt(int64(r.Intn(60)))
		}
	default:
		for d := range mb {
			mb[d] = new(big.Int).Add(Pow10(20+r.Intn(40)), big.NewInt(int64(r.Intn(1000))))
		}
	}
	init[c20Macc] = c20AccJ{Kind: kModule, Bal: vecJ(mb)}
	init[8] = c20AccJ{Kind: kModule, Bal: []string{"0", "0", "0"}}
	init[9] = c20AccJ{Kind: kModule, Bal: []string{"3", "0", "0"}}
	return init
}

// boundaries returns the absolute unlock times of a periodic account.
func boundaries(a *c20Acc) []int64 {
	var out []int64
	cur := a.Start
	for _, p := range a.Periods {
		cur += p.L
		out = append(out, cur)
	}
	return out
}

func c20GenLen(r *Rng, a *c20Acc, now int64, mode int) int64 {
	if a.Kind != kPeriodic || r.Chance(1, 6) {
		switch r.Pick(50, 20, 12, 18) {
		case 0:
			return int64(1 + r.Intn(6))
		case 1:
			return int64(10 + r.Intn(200))
		case 2:
			return 0
		default:
			return int64(1+r.Intn(400)) * 86400
		}
	}
	bs := boundaries(a)
	var future []int64
	for _, b := range bs {
		if b > now {
			future = append(future, b)
		}
	}
	remaining := a.End - now
	ws := []int{26, 14, 22, 10, 14, 6, 8}
	if a.Start > now { // not started yet: the rarest branches of the merge; aim at the boundaries
		ws = []int{40, 8, 22, 16, 10, 2, 2}
	}
	switch r.Pick(ws...) {
	case 0: // exactly on an existing boundary
		if len(future) > 0 {
			return future[r.Intn(len(future))] - now
		}
	case 1: // one second off a boundary
		if len(future) > 0 {
			return future[r.Intn(len(future))] - now + int64(r.Intn(2)*2-1)
		}
	case 2: // strictly inside the remaining schedule
		if remaining > 1 {
			return 1 + r.Int63n(remaining-1)
		}
	case 3: // exactly the remaining schedule
		if remaining > 0 {
			return remaining
		}
	case 4: // longer than the remaining schedule
		if remaining < 0 {
			remaining = 0
		}
		return remaining + int64(1+r.Intn(6))
	case 5:
		return 0
	}
	return int64(1 + r.Intn(6))
}

func c20GenCoins(r *Rng, macc *c20Acc, malformed bool) []c20Coin {
	var cs []c20Coin
	amount := func(d int) string {
		if macc.Bal[d].Cmp(big.NewInt(100)) < 0 && r.Chance(3, 4) {
			// a nearly empty payout account: small amounts, often exactly what is left
			if macc.Bal[d].Sign() > 0 && r.Chance(1, 2) {
				return fmt.Sprint(1 + r.Int63n(macc.Bal[d].Int64()))
			}
			return fmt.Sprint(1 + r.Intn(3))
		}
		switch r.Pick(66, 12, 4, 16, 2) {
		case 0:
			return fmt.Sprint(1 + r.Intn(30))
		case 1:
			return Pow10(1 + r.Intn(4)).String()
		case 2: // near the payout account's balance
			x := new(big.Int).Add(macc.Bal[d], big.NewInt(int64(r.Intn(5)-2)))
			if x.Sign() <= 0 {
				x.SetInt64(1)
			}
			return x.String()
		case 3:
			return fmt.Sprint(1 + r.Intn(3))
		default:
			return r.BigBits(40+r.Intn(180)).Add(big.NewInt(1), r.BigBits(40+r.Intn(180))).String()
		}
	}
	n := r.Pick(55, 35, 10) + 1
	ds := []int{0, 1, 2}
	// choose n distinct denoms in order
	for len(ds) > n {
		k := r.Intn(len(ds))
		ds = append(ds[:k], ds[k+1:]...)
	}
	for _, d := range ds {
		cs = append(cs, c20Coin{d, amount(d)})
	}
	p := 3
	if malformed {
		p = 30
	}
	if r.Chance(p, 100) {
		switch r.Intn(6) {
		case 0:
			cs = append(cs, c20Coin{r.Intn(3), "0"})
		case 1:
			cs = append([]c20Coin{{2, "5"}}, cs...) // unsorted or duplicate
		case 2:
			cs[0].A = "-3"
		case 3:
			cs = nil // empty coins: a lock-up of nothing
		case 4:
			cs = append(cs, c20Coin{3, "7"}) // a denom the payout account does not hold
		default:
			cs = []c20Coin{{1, "4"}, {1, "4"}}
		}
	}
	return cs
}

type c20Gen struct {
	r    *Rng
	mode int
	now  int64
}

func (g *c20Gen) advance(s []c20Acc) {
	r := g.r
	unit := int64(1)
	if g.mode == mCalendar {
		unit = 86400
	}
	switch r.Pick(40, 18, 8, 26, 4, 4) {
	case 0:
	case 1:
		g.now += int64(1 + r.Intn(3))
	case 2:
		g.now += int64(1+r.Intn(12)) * unit
	case 3: // to an unlock boundary of one of the recipients (-1, 0, +1)
		a := &s[r.Intn(3)]
		if a.Kind == kPeriodic {
			var fut []int64
			for _, b := range append(boundaries(a), a.Start) {
				if b+1 >= g.now {
					fut = append(fut, b)
				}
			}
			if len(fut) > 0 {
				t := fut[r.Intn(len(fut))] + int64(r.Intn(3)-1)
				if t >= g.now || g.mode == mMalformed {
					g.now = t
				}
			}
		}
	case 4: // past the end of a schedule
		a := &s[1+r.Intn(2)]
		if a.Kind == kPeriodic && a.End+1 > g.now {
			g.now = a.End + int64(1+r.Intn(3))
		}
	default:
		if g.mode == mCalendar {
			// forward to the next payday edge: the 15th (or the 1st) of the next month, around 14:00 or midnight
			tm := time.Unix(g.now, 0).UTC()
			day := []int{15, 15, 1}[r.Intn(3)]
			hms := [][3]int{{13, 59, 59}, {14, 0, 0}, {14, 0, 1}, {0, 0, 0}, {23, 59, 59}}[r.Intn(5)]
			g.now = time.Date(tm.Year(), tm.Month()+time.Month(1+r.Intn(2)), day, hms[0], hms[1], hms[2], 0, time.UTC).Unix()
		} else if g.mode == mMalformed {
			g.now -= int64(r.Intn(4)) // block time going backwards (never on a chain)
		}
	}
}

func (g *c20Gen) op(s []c20Acc) c20Op {
	r := g.r
	g.advance(s)
	op := c20Op{Now: g.now}
	// block times are not whole seconds on a real chain; the lock-up arithmetic must floor them
	switch r.Pick(3, 3, 1, 1, 1) {
	case 1:
		op.Ns = int64(r.Intn(1_000_000_000))
	case 2:
		op.Ns = 999_999_999
	case 3:
		op.Ns = 500_000_000
	case 4:
		op.Ns = 1
	}
	wSend, wClaim, wSpend, wPlen := 62, 10, 22, 6
	if g.mode == mCalendar {
		wSend, wClaim, wSpend, wPlen = 25, 50, 15, 10
	}
	recipient := func() int {
		// a periodic vesting account that has not started yet is preferred while there is one
		// (the first lock-up moves its start to the block time)
		for _, i := range []int{1, 2} {
			if s[i].Kind == kPeriodic && s[i].Start > g.now && r.Chance(1, 2) {
				return i
			}
		}
		if r.Chance(82, 100) {
			return r.Intn(3)
		}
		return []int{3, 4, 5, 7, 8, 9, c20Sink}[r.Intn(7)]
	}
	switch r.Pick(wSend, wClaim, wSpend, wPlen) {
	case 0:
		op.Kind = "send"
		op.R = recipient()
		op.Coins = c20GenCoins(r, &s[c20Macc], g.mode == mMalformed)
		op.Len = c20GenLen(r, &s[op.R], g.now, g.mode)
		if g.mode == mMalformed && r.Chance(1, 5) {
			op.Len = -int64(1 + r.Intn(6))
		}
	case 1:
		op.Kind = "claim"
		op.R = recipient()
		op.Coins = c20GenCoins(r, &s[c20Macc], g.mode == mMalformed)
		op.Len = []int64{1, 1, 1, 1, 12, 12, 0, 2, 3, 6, 24, 1}[r.Intn(12)]
		if r.Chance(1, 30) {
			op.Len = -1
		} else if r.Chance(2, 5) {
			// through the real claim message path (pays one ukava coin)
			op.Kind = "usdxclaim"
			x := big.NewInt(int64(1 + r.Intn(40)))
			if r.Chance(1, 6) {
				x.Add(s[c20Macc].Bal[1], big.NewInt(int64(r.Intn(3)-1)))
			}
			if x.Sign() <= 0 || r.Chance(1, 25) {
				x.SetInt64(0) // an empty claim: ErrZeroClaim
			}
			op.Coins = []c20Coin{{1, x.String()}}
		}
	case 2:
		op.Kind = "spend"
		op.R = r.Intn(3)
		a := &s[op.R]
		// spendable at the current block time, computed from the observed schedule
		lockedNow := zeroVec()
		if a.Kind == kPeriodic {
			lockedNow = goLocked(a, g.now)
		}
		d := r.Intn(c20ND)
		sp := new(big.Int).Sub(a.Bal[d], lockedNow[d])
		x := new(big.Int)
		switch r.Pick(45, 20, 35) {
		case 0:
			x.Add(sp, big.NewInt(int64(r.Intn(3)-1)))
		case 1:
			x.Add(a.Bal[d], big.NewInt(int64(r.Intn(3)-1)))
		default:
			x.SetInt64(int64(1 + r.Intn(20)))
		}
		if x.Sign() <= 0 {
			x.SetInt64(1)
		}
		op.Coins = []c20Coin{{d, x.String()}}
	default:
		op.Kind = "plen"
		op.Len = []int64{1, 12, 0, 3, 6, 24, 120}[r.Intn(7)]
		if r.Chance(1, 2) {
			op.Now = c20CalendarTime(r)
		}
	}
	return op
}

// goLocked: the driver's own evaluation of a periodic account's locked coins at
// time t (used only to aim generated amounts, never by a monitor or the model).
func goLocked(a *c20Acc, t int64) []*big.Int {
	vested := zeroVec()
	if t > a.Start {
		cur := a.Start
		for _, p := range a.Periods {
			cur += p.L
			if cur <= t {
				vested = vecAdd(vested, p.A)
			}
		}
	}
	out := zeroVec()
	for d := range out {
		v := new(big.Int).Sub(a.OV[d], vested[d])
		m := v
		if a.DV[d].Cmp(v) < 0 {
			m = a.DV[d]
		}
		out[d] = new(big.Int).Sub(v, m)
		if out[d].Sign() < 0 {
			out[d].SetInt64(0)
		}
	}
	return out
}

// ------------------------------------------------------------ monitors

// wellFormed: PeriodicVestingAccount.Validate's conditions plus positive lengths, on the observed projection.
func wellFormed(a *c20Acc) (bool, string) {
	if a.Kind != kPeriodic {
		return true, ""
	}
	if len(a.Periods) == 0 {
		return false, "no periods"
	}
	total := int64(0)
	sum := zeroVec()
	for i, p := range a.Periods {
		if p.L <= 0 {
			return false, fmt.Sprintf("period %d has length %d", i, p.L)
		}
		total += p.L
		sum = vecAdd(sum, p.A)
	}
	if total != a.End-a.Start {
		return false, fmt.Sprintf("sum of lengths %d != end %d - start %d", total, a.End, a.Start)
	}
	if !vecEq(sum, a.OV) {
		return false, fmt.Sprintf("sum of amounts %s != original vesting %s", vecStr(sum), vecStr(a.OV))
	}
	return true, ""
}

type c20Check struct {
	pred, sig, detail string
	reported          bool // reported-only (delegated stream)
}

// c20Monitor states the property on the implementation.  pre/post are the
// observed projections of all accounts; pp/qp the bank's LockedCoins /
// SpendableCoins of the affected account at the same probe times before and
// after the operation; length is the lock-up length that was used.
func c20Monitor(w *c20World, op c20Op, cls Class, length int64, pre, post []c20Acc, pp, qp []c20Probe, mode int) *c20Check {
	coins := opCoins(op.Coins)
	moved := coinsVec(coins)
	if op.Kind == "plen" || (isClaim(op) && cls != ClassPanic) {
		// payday rule: the lock-up ends at 14:00 UTC on the 15th (claims before the 15th 14:00) or the 1st of a month,
		// the requested number of months ahead
		if op.Len > 0 {
			now := time.Unix(op.Now, 0).UTC()
			end := time.Unix(op.Now+length, 0).UTC()
			early := now.Day() < 15 || (now.Day() == 15 && now.Hour() < 14)
			wantDay, wantMonths := 1, int(op.Len)+1
			if early {
				wantDay, wantMonths = 15, int(op.Len)
			}
			gotMonths := (end.Year()*12 + int(end.Month())) - (now.Year()*12 + int(now.Month()))
			if length <= 0 || end.Day() != wantDay || end.Hour() != 14 || end.Minute() != 0 || end.Second() != 0 || gotMonths != wantMonths {
				return &c20Check{"lock-up-ends-on-payday", "payday-rule-broken", fmt.Sprintf("now %s months %d -> end %s", now, op.Len, end), false}
			}
		} else if op.Len == 0 && length != 0 {
			return &c20Check{"zero-months-no-lock-up", "payday-rule-broken", fmt.Sprintf("months 0 -> length %d", length), false}
		}
	}
	if op.Kind == "plen" {
		return nil
	}
	if cls != ClassOk {
		// refused: nothing moves, nothing changes
		for i := range pre {
			if !accEq(&pre[i], &post[i]) {
				return &c20Check{"refused-payout-moves-nothing", "refused-op-changed-state", fmt.Sprintf("account %d changed although the operation returned %s", i, cls), false}
			}
		}
		if op.Kind == "spend" {
			// a transfer of valid coins within the spendable balance must go through
			if cls == ClassErr && coins.IsValid() && len(coins) > 0 {
				ok := true
				free := unlockedAt(&pre[op.R], pp0(pp, op.Now))
				for d := 0; d < c20ND; d++ {
					if moved[d].Sign() > 0 && moved[d].Cmp(free[d]) > 0 {
						ok = false
					}
				}
				if ok && coins.AmountOf("zzz").IsZero() {
					return &c20Check{"held-coins-stay-spendable", "spendable-coins-refused", fmt.Sprintf("spend %s <= balance - locked %s refused", coins, vecStr(free)), false}
				}
			}
			return nil
		}
		// a valid payout to a base or periodic vesting account covered by the payout account must succeed
		k := pre[op.R].Kind
		if cls == ClassErr && coins.IsValid() && (k == kBase || k == kPeriodic) && !w.bk.BlockedAddr(w.addrs[op.R]) {
			covered := coins.AmountOf("zzz").IsZero()
			for d := 0; d < c20ND; d++ {
				if moved[d].Cmp(pre[c20Macc].Bal[d]) > 0 {
					covered = false
				}
			}
			if covered {
				return &c20Check{"valid-payout-accepted", "valid-payout-refused", fmt.Sprintf("payout %s to account %d (kind %d) refused", coins, op.R, k), false}
			}
		}
		return nil
	}
	// ---- successful operation
	for k := range qp {
		if qp[k].Panic != "" && (k >= len(pp) || pp[k].Panic == "") {
			return &c20Check{"bank-queries-do-not-panic", "locked-coins-query-panics", fmt.Sprintf("LockedCoins of account %d at t=%d panics after the operation: %s", op.R, qp[k].T, qp[k].Panic), false}
		}
	}
	if !coins.IsValid() {
		return &c20Check{"invalid-coins-refused", "invalid-coins-accepted", coins.String(), false}
	}
	from, to := c20Macc, op.R
	if op.Kind == "spend" {
		from, to = op.R, c20Sink
	}
	// exact transfer, nobody else touched
	for i := range pre {
		exp := pre[i]
		if i != op.R || op.Kind == "spend" || length == 0 {
			// the account structure of everybody but a lock-up recipient is unchanged
			e2 := exp
			e2.Bal = append([]*big.Int(nil), exp.Bal...)
			for d := 0; d < c20ND; d++ {
				if i == from {
					e2.Bal[d] = new(big.Int).Sub(e2.Bal[d], moved[d])
				}
				if i == to {
					e2.Bal[d] = new(big.Int).Add(e2.Bal[d], moved[d])
				}
			}
			if !accEq(&e2, &post[i]) {
				return &c20Check{"exact-transfer-others-untouched", "inexact-transfer", fmt.Sprintf("account %d: balances %s -> %s, moved %s", i, vecStr(pre[i].Bal), vecStr(post[i].Bal), vecStr(moved)), false}
			}
		} else {
			wantBal := vecAdd(pre[i].Bal, moved)
			if from == to {
				wantBal = pre[i].Bal
			}
			if !vecEq(wantBal, post[i].Bal) {
				return &c20Check{"exact-transfer-others-untouched", "inexact-transfer", fmt.Sprintf("recipient %d: balances %s -> %s, moved %s", i, vecStr(pre[i].Bal), vecStr(post[i].Bal), vecStr(moved)), false}
			}
		}
	}
	if op.Kind == "spend" {
		// the bank let it through: it must have been within the spendable balance
		// (per denom: balance minus the bank's LockedCoins at the block time)
		sp := unlockedAt(&pre[op.R], pp0(pp, op.Now))
		for d := 0; d < c20ND; d++ {
			if moved[d].Sign() > 0 && moved[d].Cmp(sp[d]) > 0 {
				return &c20Check{"locked-coins-cannot-be-spent", "locked-coins-spent", fmt.Sprintf("spent %s with balance - locked %s at %d", vecStr(moved), vecStr(sp), op.Now), false}
			}
		}
		return nil
	}
	// sufficient payout balance was required
	for d := 0; d < c20ND; d++ {
		if moved[d].Cmp(pre[c20Macc].Bal[d]) > 0 {
			return &c20Check{"insufficient-payout-balance-refused", "overdrawn-payout-accepted", fmt.Sprintf("paid %s from %s", vecStr(moved), vecStr(pre[c20Macc].Bal)), false}
		}
	}
	if length == 0 {
		return nil // a plain transfer (checked above)
	}
	// lock-up payouts only to base and periodic vesting accounts
	if k := pre[op.R].Kind; k != kBase && k != kPeriodic {
		sig := map[int]string{kNone: "payout-to-missing-account-accepted", kContinuous: "payout-to-continuous-vesting-accepted", kModule: "payout-to-module-account-accepted", kOther: "payout-to-unsupported-account-accepted"}[k]
		return &c20Check{"unsupported-recipient-refused", sig, fmt.Sprintf("recipient %d kind %d", op.R, k), false}
	}
	if length < 0 {
		return nil // outside the property (never produced by GetPeriodLength); correspondence only
	}
	preOK, _ := wellFormed(&pre[op.R])
	if !preOK {
		return nil // the recipient's schedule was not well formed to begin with (malformed stream)
	}
	a := &post[op.R]
	if a.Kind != kPeriodic {
		return &c20Check{"recipient-becomes-periodic-vesting", "recipient-not-vesting", fmt.Sprintf("kind %d", a.Kind), false}
	}
	// schedule well-formedness
	if ok, why := wellFormed(a); !ok {
		sig := "schedule-ill-formed"
		if strings.Contains(why, "lengths") {
			sig = "schedule-lengths-do-not-sum"
		} else if strings.Contains(why, "amounts") {
			sig = "schedule-amounts-do-not-sum"
		}
		return &c20Check{"schedule-well-formed", sig, why, false}
	}
	if a.Valid != nil {
		return &c20Check{"schedule-well-formed", "schedule-fails-sdk-validate", a.Valid.Error(), false}
	}
	if !vecEq(a.OV, vecAdd(pre[op.R].OV, moved)) || !vecEq(a.DV, pre[op.R].DV) {
		return &c20Check{"original-vesting-grows-by-payout", "original-vesting-inexact", fmt.Sprintf("%s -> %s, paid %s", vecStr(pre[op.R].OV), vecStr(a.OV), vecStr(moved)), false}
	}
	// unlock exactly at now+length; earlier unlock times unchanged; held coins untouched
	unlock := op.Now + length
	for k := range pp {
		t := pp[k].T
		for d := 0; d < c20ND; d++ {
			extra := new(big.Int)
			if t < unlock {
				extra = moved[d]
			}
			wantL := new(big.Int).Add(pp[k].Locked[d], extra)
			if qp[k].Locked[d].Cmp(wantL) != 0 {
				sig := "locked-coins-inexact"
				switch {
				case t < unlock && qp[k].Locked[d].Cmp(wantL) < 0 && qp[k].Locked[d].Cmp(pp[k].Locked[d]) >= 0:
					sig = "reward-spendable-before-lockup-end"
				case t >= unlock && qp[k].Locked[d].Cmp(pp[k].Locked[d]) > 0:
					sig = "reward-locked-past-lockup-end"
				case qp[k].Locked[d].Cmp(pp[k].Locked[d]) < 0:
					sig = "existing-lock-released-early"
				case t < unlock && qp[k].Locked[d].Cmp(wantL) > 0:
					sig = "existing-lock-extended"
				}
				return &c20Check{"unlock-exactly-at-lockup-end", sig,
					fmt.Sprintf("denom %s at t=%d (lock-up end %d): locked before %s, after %s, paid %s", c20Denoms[d], t, unlock, pp[k].Locked[d], qp[k].Locked[d], moved[d]), mode == mDelegated}
			}
			// spendable: what was spendable stays spendable; the reward joins at the lock-up end.
			// (The bank reports no spendable coins at all when some balance is below the locked amount;
			// that happens only at probe times earlier than a later spend of since-vested coins.)
			if !solventAt(&pre[op.R], pp[k]) {
				continue
			}
			add := new(big.Int)
			if t >= unlock {
				add = moved[d]
			}
			wantS := new(big.Int).Add(pp[k].Spend[d], add)
			if qp[k].Spend[d].Cmp(wantS) != 0 {
				sig := "spendable-coins-inexact"
				if qp[k].Spend[d].Cmp(pp[k].Spend[d]) < 0 {
					sig = "held-coins-locked"
				}
				return &c20Check{"held-coins-untouched", sig,
					fmt.Sprintf("denom %s at t=%d (lock-up end %d): spendable before %s, after %s, paid %s", c20Denoms[d], t, unlock, pp[k].Spend[d], qp[k].Spend[d], moved[d]), mode == mDelegated}
			}
		}
	}
	return nil
}

func solventAt(a *c20Acc, p c20Probe) bool {
	for d := 0; d < c20ND; d++ {
		if a.Bal[d].Cmp(p.Locked[d]) < 0 {
			return false
		}
	}
	return true
}

// unlockedAt: balance minus the bank's LockedCoins, per denom
func unlockedAt(a *c20Acc, p c20Probe) []*big.Int {
	out := make([]*big.Int, c20ND)
	for d := range out {
		out[d] = new(big.Int).Sub(a.Bal[d], p.Locked[d])
	}
	return out
}

func pp0(pp []c20Probe, t int64) c20Probe {
	for _, p := range pp {
		if p.T == t {
			return p
		}
	}
	panic("no probe at the block time")
}

// c20Split classifies the branch of the schedule merge from the observed pre-state.
func c20Split(a *c20Acc, now, length int64) string {
	if length == 0 {
		return "plain-transfer"
	}
	if length < 0 {
		return "negative-length"
	}
	if a.Kind == kBase {
		return "base-to-periodic"
	}
	if a.Kind != kPeriodic {
		return ""
	}
	if a.End < now {
		return "merge:schedule-ended"
	}
	pre := ""
	st := a.Start
	if a.Start > now {
		pre = "not-started+"
		st = now
	}
	if a.End-now < length {
		if a.End == now {
			return "merge:" + pre + "append(end=now)"
		}
		return "merge:" + pre + "append"
	}
	target := now + length
	cur := st
	for i, p := range a.Periods {
		l := p.L
		if i == 0 && a.Start > now {
			l += a.Start - now
		}
		cur += l
		pos := "middle"
		if i == 0 {
			pos = "first"
		}
		if i == len(a.Periods)-1 {
			pos = "last"
		}
		if len(a.Periods) == 1 {
			pos = "only"
		}
		if cur == target {
			return "merge:" + pre + "on-boundary(" + pos + ")"
		}
		if cur > target {
			return "merge:" + pre + "split(" + pos + ")"
		}
	}
	return "merge:" + pre + "ran-off-the-end"
}

var c20AllSplits = []string{
	"plain-transfer", "base-to-periodic", "merge:schedule-ended",
	"merge:append", "merge:append(end=now)", "merge:not-started+append",
	"merge:on-boundary(first)", "merge:on-boundary(middle)", "merge:on-boundary(last)", "merge:on-boundary(only)",
	"merge:split(first)", "merge:split(middle)", "merge:split(last)", "merge:split(only)",
	"merge:not-started+on-boundary(first)", "merge:not-started+on-boundary(last)",
	"merge:not-started+split(first)", "merge:not-started+split(middle)", "merge:not-started+split(last)",
	"refuse:module", "refuse:continuous", "refuse:other-vesting", "refuse:no-account", "refuse:insufficient-module-balance",
	"refuse:blocked-recipient", "refuse:invalid-coins",
	"claim:before-payday-15", "claim:after-payday-15", "claim:on-15th-13h", "claim:on-15th-14h", "claim:months=0", "claim:negative-months-panics",
	"spend:ok", "spend:refused-locked",
}

var c20Nontrivial = map[string]bool{}

func init() {
	for _, k := range c20AllSplits {
		if strings.HasPrefix(k, "merge:") && (strings.Contains(k, "split") || strings.Contains(k, "on-boundary") || strings.Contains(k, "not-started")) {
			c20Nontrivial[k] = true
		}
	}
}

// ------------------------------------------------------------ Coq rendering

func coqVec(v []*big.Int) string { return ZList(v) }

func coqSnap(a *c20Acc) string {
	if a.Kind != kPeriodic {
		return fmt.Sprintf("(mkSnap %d 0 0 [] [] [] %s)", a.Kind, coqVec(a.Bal))
	}
	ps := make([]string, len(a.Periods))
	for i, p := range a.Periods {
		ps[i] = fmt.Sprintf("(%s, %s)", Zi(p.L), coqVec(p.A))
	}
	return fmt.Sprintf("(mkSnap 2 %s %s %s %s %s %s)", Zi(a.Start), Zi(a.End), coqVec(a.OV), coqVec(a.DV), List(ps), coqVec(a.Bal))
}

func coqCoins(cs []c20Coin) string {
	it := make([]string, len(cs))
	for i, c := range cs {
		it[i] = fmt.Sprintf("(%s, %s)", Nat(c.D), Z(bi(c.A)))
	}
	return List(it)
}

func coqOp(op c20Op) string {
	switch op.Kind {
	case "send":
		return fmt.Sprintf("SendLocked %s %s %s %s", Zi(op.Now), Nat(op.R), coqCoins(op.Coins), Zi(op.Len))
	case "claim", "usdxclaim":
		return fmt.Sprintf("Claim %s %s %s %s", Zi(op.Now), Nat(op.R), coqCoins(op.Coins), Zi(op.Len))
	case "spend":
		return fmt.Sprintf("Spend %s %s %s", Zi(op.Now), Nat(op.R), coqCoins(op.Coins))
	default:
		return fmt.Sprintf("PLen %s %s", Zi(op.Now), Zi(op.Len))
	}
}

// coqProbes: the probes handed to the model are a bounded selection of the
// monitor's probe times: around the lock-up end, the block time and the instants
// just before and at every boundary.
func coqProbes(r int, qp []c20Probe, now, unlock int64, limit int) string {
	var it []string
	pick := func(p c20Probe) {
		if p.Panic != "" {
			return
		}
		it = append(it, fmt.Sprintf("mkProbe %s %s %s %s", Nat(r), Zi(p.T), coqVec(p.Locked), coqVec(p.Spend)))
	}
	important := map[int64]bool{now: true, unlock - 1: true, unlock: true}
	for _, p := range qp {
		if important[p.T] {
			pick(p)
		}
	}
	for _, p := range qp {
		if !important[p.T] && len(it) < limit {
			pick(p)
		}
	}
	return List(it)
}

func (w *c20World) coqEnv() string {
	blk := make([]bool, c20NAcc)
	for i := range blk {
		blk[i] = w.bk.BlockedAddr(w.addrs[i])
	}
	return fmt.Sprintf("(mk_env %s %s %s %s %s)", Nat(c20NAcc), Nat(c20ND), Nat(c20Macc), Nat(c20Sink), BoolList(blk))
}

// ------------------------------------------------------------ history runner

type c20Out struct {
	hist     c20Hist
	coq      string
	fail     *Failure
	reported []string
	okOps    int
	splits   map[string]bool
}

func specOf(s []c20Acc) []c20AccJ { // not used for replay (the generated spec is kept), only for samples
	out := make([]c20AccJ, len(s))
	for i, a := range s {
		out[i] = c20AccJ{Kind: a.Kind, Start: a.Start, End: a.End, Bal: vecJ(a.Bal)}
	}
	return out
}

// c20Run executes either generated (ops == nil) or explicit operations on a fresh app.
func c20Run(seed uint64, idx, n, mode int, init []c20AccJ, ops []c20Op, cnt *Counters) c20Out {
	r := NewRng(seed, uint64(idx))
	now0 := c20T0 + int64(r.Intn(1000))
	if init == nil {
		if mode == mCalendar {
			now0 = c20CalendarTime(r)
		}
		init = c20GenInit(r, mode, now0, cnt)
	} else if len(ops) > 0 {
		now0 = ops[0].Now
	}
	w := c20Setup(init)
	out := c20Out{hist: c20Hist{Seed: seed, Idx: idx, Mode: mode, Init: init}, splits: map[string]bool{}}
	prev := w.snap()
	initS := make([]string, c20NAcc)
	for i := range prev {
		initS[i] = coqSnap(&prev[i])
	}
	g := &c20Gen{r: r, mode: mode, now: now0}
	var steps []string
	if ops != nil {
		n = len(ops)
	}
	mark := func(k string) {
		if k == "" {
			return
		}
		out.splits[k] = true
		if cnt != nil {
			cnt.Inc("split:" + k)
		}
	}
	for i := 0; i < n; i++ {
		var op c20Op
		if ops != nil {
			op = ops[i]
		} else {
			op = g.op(prev)
		}
		if op.R < 0 || op.R >= c20NAcc {
			op.R = 0
		}
		// lock-up length the operation will use (for choosing probe times; recomputed from the implementation below)
		guess := op.Len
		if isClaim(op) || op.Kind == "plen" {
			guess = 0
			if op.Len >= 0 {
				guess = w.ik.GetPeriodLength(time.Unix(op.Now, op.Ns).UTC(), op.Len)
			}
		}
		if op.Kind == "spend" {
			guess = 0
		}
		times := probeTimes(&prev[op.R], op.Now, op.Now+guess)
		probeable := prev[op.R].Kind == kBase || prev[op.R].Kind == kPeriodic
		var pp []c20Probe
		if op.Kind != "plen" {
			pp = w.probe(op.R, times)
		}
		cls, err, plen := w.exec(op)
		after := w.snap()
		var qp []c20Probe
		if op.Kind != "plen" {
			qp = w.probe(op.R, times)
		}
		length := op.Len
		if isClaim(op) || op.Kind == "plen" {
			length = plen
		}
		out.hist.Ops = append(out.hist.Ops, op)
		if cnt != nil {
			cnt.Inc("op:" + op.Kind + ":" + cls.String())
			if cls != ClassOk {
				cnt.Inc("err:" + op.Kind + ":" + c20ErrKind(err))
			}
		}
		// case splits
		switch {
		case op.Kind == "spend":
			if cls == ClassOk {
				mark("spend:ok")
			} else if c20ErrKind(err) == "insufficient-funds" && prev[op.R].Kind == kPeriodic {
				mark("spend:refused-locked")
			}
		case op.Kind == "plen":
		default:
			if isClaim(op) {
				tm := time.Unix(op.Now, 0).UTC()
				switch {
				case op.Len < 0:
					mark("claim:negative-months-panics")
				case op.Len == 0:
					mark("claim:months=0")
				case tm.Day() == 15 && tm.Hour() == 13:
					mark("claim:on-15th-13h")
				case tm.Day() == 15 && tm.Hour() == 14:
					mark("claim:on-15th-14h")
				case tm.Day() < 15:
					mark("claim:before-payday-15")
				default:
					mark("claim:after-payday-15")
				}
			}
			if cls == ClassOk {
				out.okOps++
				mark(c20Split(&prev[op.R], op.Now, length))
			} else if cls == ClassErr {
				switch c20ErrKind(err) {
				case "insufficient-module-balance":
					mark("refuse:insufficient-module-balance")
				case "account-not-found":
					mark("refuse:no-account")
				case "blocked-recipient":
					mark("refuse:blocked-recipient")
				case "invalid-coins":
					mark("refuse:invalid-coins")
				case "invalid-account-type":
					mark(map[int]string{kModule: "refuse:module", kContinuous: "refuse:continuous", kOther: "refuse:other-vesting"}[prev[op.R].Kind])
				}
			}
		}
		// Coq step
		var deltas []string
		for a := range after {
			if !accEq(&prev[a], &after[a]) {
				deltas = append(deltas, fmt.Sprintf("(%s, %s)", Nat(a), coqSnap(&after[a])))
			}
		}
		probes := "[]"
		if op.Kind != "plen" && probeable {
			probes = coqProbes(op.R, qp, op.Now, op.Now+length, 12)
		}
		steps = append(steps, fmt.Sprintf("(%s,\n    mkObs %s %s %s %s)", coqOp(op), cls.Coq(), List(deltas), probes, Zi(plen)))
		// monitors
		if chk := c20Monitor(w, op, cls, length, prev, after, pp, qp, mode); chk != nil {
			if chk.reported {
				out.reported = append(out.reported, chk.sig)
				if cnt != nil {
					cnt.Inc("reported-only:" + chk.sig)
				}
			} else if out.fail == nil {
				out.fail = &Failure{History: idx, Step: i, Predicate: chk.pred, Signature: chk.sig, Detail: chk.detail}
			}
		}
		prev = after
	}
	out.coq = fmt.Sprintf("mkHist %s %s\n  %s\n  %s", w.coqEnv(), Bool(mode != mMalformed), List(initS), List(steps))
	return out
}

// oneStep executes one operation on the world (whose context may be a throw-away
// cache context) and returns the Coq step, the monitor verdict and the split.
func (w *c20World) oneStep(op c20Op, prev []c20Acc, mode int, probeLimit int) (coq string, chk *c20Check, split string, cls Class) {
	times := probeTimes(&prev[op.R], op.Now, op.Now+op.Len)
	pp := w.probe(op.R, times)
	cls, _, plen := w.exec(op)
	after := w.snap()
	qp := w.probe(op.R, times)
	var deltas []string
	for a := range after {
		if !accEq(&prev[a], &after[a]) {
			deltas = append(deltas, fmt.Sprintf("(%s, %s)", Nat(a), coqSnap(&after[a])))
		}
	}
	probes := coqProbes(op.R, qp, op.Now, op.Now+op.Len, probeLimit)
	coq = fmt.Sprintf("(%s,\n    mkObs %s %s %s %s)", coqOp(op), cls.Coq(), List(deltas), probes, Zi(plen))
	chk = c20Monitor(w, op, cls, op.Len, prev, after, pp, qp, mode)
	if cls == ClassOk {
		split = c20Split(&prev[op.R], op.Now, op.Len)
	}
	return
}

// layouts enumerates all period layouts with at most maxP periods of lengths 1..maxL.
func layouts(maxP, maxL int) [][]int64 {
	var out [][]int64
	var rec func(cur []int64)
	rec = func(cur []int64) {
		if len(cur) > 0 {
			out = append(out, append([]int64(nil), cur...))
		}
		if len(cur) == maxP {
			return
		}
		for l := 1; l <= maxL; l++ {
			rec(append(cur, int64(l)))
		}
	}
	rec(nil)
	return out
}

// exhaustiveSmall: every layout with <= 3 periods of lengths <= 4, every block time
// from 2 s before the start to 2 s after the end, every lock-up length from 1 s to
// 2 s beyond the remaining schedule: one lock-up payout each, on the real keeper
// (a throw-away cache context per case), all boundaries probed.
func exhaustiveSmall(o Opts, res *Result, cnt *Counters, shard *int) error {
	ls := layouts(3, 4)
	type ex struct {
		coq   []string
		refs  []c20Hist
		fails []Failure
	}
	outs := make([]ex, len(ls))
	start := c20T0 + 100
	ParallelFor(len(ls), o.Workers, func(li int) {
		lay := ls[li]
		init := c20GenInit(NewRng(o.Seed, uint64(1<<42+li)), mSmall, c20T0, nil)
		a := c20AccJ{Kind: kPeriodic, Start: start, DV: []string{"0", "0", "0"}}
		ov := zeroVec()
		total := int64(0)
		for i, l := range lay {
			am := zeroVec()
			am[i%2] = big.NewInt(int64(10 * (i + 1)))
			am[2] = big.NewInt(int64(i + 1))
			a.Periods = append(a.Periods, c20PerJ{l, vecJ(am)})
			ov = vecAdd(ov, am)
			total += l
		}
		a.End = start + total
		a.OV = vecJ(ov)
		a.Bal = vecJ(vecAdd(ov, []*big.Int{big.NewInt(5), big.NewInt(0), big.NewInt(7)}))
		init[1] = a
		init[c20Macc] = c20AccJ{Kind: kModule, Bal: []string{"1000", "1000", "1000"}}
		w := c20Setup(init)
		base := w.ctx
		prev := w.snap()
		initS := make([]string, c20NAcc)
		for i := range prev {
			initS[i] = coqSnap(&prev[i])
		}
		env := w.coqEnv()
		for now := start - 2; now <= start+total+2; now++ {
			rem := start + total - now
			if rem < 0 {
				rem = 0
			}
			for l := int64(1); l <= rem+2; l++ {
				op := c20Op{Kind: "send", Now: now, R: 1, Coins: []c20Coin{{0, "3"}, {2, "4"}}, Len: l}
				cctx, _ := base.CacheContext()
				w.ctx = cctx
				coq, chk, split, _ := w.oneStep(op, prev, mSmall, 60)
				cnt.Inc("exhaustive:" + split)
				h := c20Hist{o.Seed, -1, mSmall, init, []c20Op{op}}
				outs[li].coq = append(outs[li].coq, fmt.Sprintf("mkHist %s true\n  %s\n  %s", env, List(initS), List([]string{coq})))
				outs[li].refs = append(outs[li].refs, h)
				if chk != nil && !chk.reported {
					outs[li].fails = append(outs[li].fails, Failure{History: -1, Step: 0, Predicate: chk.pred, Signature: chk.sig, Detail: chk.detail, Replay: MustJSON(h)})
				}
			}
		}
		w.ctx = base
	})
	var cases []string
	flush := func() error {
		if len(cases) == 0 {
			return nil
		}
		name, err := WriteShard(o.OutDir, *shard, c20Header, cases, "mismatches")
		if err != nil {
			return err
		}
		res.Shards = append(res.Shards, name)
		*shard++
		cases = nil
		return nil
	}
	n := 0
	for _, e := range outs {
		for k := range e.coq {
			res.HistIndex = append(res.HistIndex, HistRef{*shard, len(cases), -1, MustJSON(e.refs[k])})
			cases = append(cases, e.coq[k])
			n++
			if len(cases) == 250 {
				if err := flush(); err != nil {
					return err
				}
			}
		}
		res.Failures = append(res.Failures, e.fails...)
	}
	res.Evaluations += n
	cnt.Add("exhaustive-small-layout-cases", n)
	return flush()
}

func c20Mode(idx int) int {
	switch idx % 10 {
	case 0, 1, 2, 3, 4:
		return mSmall
	case 5, 6:
		return mCalendar
	case 7, 8:
		return mMalformed
	default:
		return mDelegated
	}
}

// plenSweep ties GetPeriodLength to the model's calendar arithmetic on many block times in 1970..2100.
func plenSweep(seed uint64, n int, dir string, shard int) (string, int, error) {
	w := c20Setup(c20GenInit(NewRng(seed, 1<<40), mSmall, c20T0, nil))
	r := NewRng(seed, 1<<41)
	var cases []string
	for i := 0; i < n; i++ {
		var now int64
		switch r.Intn(3) {
		case 0:
			now = r.Int63n(4102444800) // 1970 .. 2100
		case 1:
			now = c20CalendarTime(r)
		default:
			now = c20CalendarTime(r) + int64(r.Intn(3)-1)
		}
		months := []int64{1, 1, 12, 2, 3, 5, 6, 11, 13, 24, 36, 120, 0}[r.Intn(13)]
		v := w.ik.GetPeriodLength(time.Unix(now, 0).UTC(), months)
		cases = append(cases, fmt.Sprintf("(%s, %s, %s)", Zi(now), Zi(months), Zi(v)))
	}
	name, err := WriteShardList(dir, shard, c20Header, cases, "plen_mismatches")
	return name, n, err
}

func histKey(h c20Hist) string {
	s := sha1.Sum(MustJSON(struct {
		I []c20AccJ
		O []c20Op
	}{h.Init, h.Ops}))
	return hex.EncodeToString(s[:])
}

func runC20(o Opts) (*Result, error) {
	n := o.Len
	if n == 0 {
		n = c20DefaultL
	}
	res := &Result{Property: "C20", Seed: o.Seed,
		Rule:  "histories of " + fmt.Sprint(n) + " operations (SendTimeLockedCoinsToAccount, GetPeriodLength+SendTimeLockedCoinsToAccount as in claim.go, bank SendCoins by the recipients) generated from splitmix64(seed, history index) on a fresh app.TestApp whose recipients are a base account, two periodic vesting accounts with PRNG-chosen layouts and phases, a continuous and a delayed vesting account, a missing account and module accounts; a history is non-trivial when it contains a successful lock-up payout into a periodic vesting account that takes the insert-on-boundary, split or not-yet-started branch of the schedule merge; distinct by hash of initial accounts and operation list",
		Extra: map[string]any{}}
	cnt := NewCounters()

	if o.Replay != "" {
		bz, err := os.ReadFile(o.Replay)
		if err != nil {
			return nil, err
		}
		var h c20Hist
		if err := json.Unmarshal(bz, &h); err != nil {
			return nil, err
		}
		if len(h.Init) != c20NAcc {
			return nil, fmt.Errorf("replay file has no initial accounts")
		}
		ot := c20Run(h.Seed, h.Idx, 0, h.Mode, h.Init, h.Ops, cnt)
		name, err := WriteShard(o.OutDir, 0, c20Header, []string{ot.coq}, "mismatches")
		if err != nil {
			return nil, err
		}
		res.Shards = []string{name}
		res.HistIndex = []HistRef{{0, 0, h.Idx, MustJSON(h)}}
		res.Histories, res.Evaluations = 1, len(h.Ops)
		if ot.fail != nil {
			ot.fail.Replay = MustJSON(h)
			res.Failures = append(res.Failures, *ot.fail)
		}
		res.Extra["reported_only"] = ot.reported
		res.Counters = cnt.Map()
		return res, nil
	}

	outs := make([]c20Out, o.N)
	shrunk := NewCounters() // failures shrunk so far, per signature (a broken tree fails hundreds of histories)
	ParallelFor(o.N, o.Workers, func(i int) {
		mode := c20Mode(i)
		ot := c20Run(o.Seed, i, n, mode, nil, nil, cnt)
		if ot.fail != nil && shrunk.Map()[ot.fail.Signature] >= 3 {
			ot.fail.Replay = MustJSON(c20Hist{o.Seed, i, mode, ot.hist.Init, ot.hist.Ops[:ot.fail.Step+1]})
		} else if ot.fail != nil {
			shrunk.Inc(ot.fail.Signature)
			sig := ot.fail.Signature
			init := ot.hist.Init
			fails := func(cand []c20Op) bool {
				if len(cand) == 0 {
					return false
				}
				f := c20Run(o.Seed, i, 0, mode, init, cand, nil).fail
				return f != nil && f.Signature == sig
			}
			small := Shrink(ot.hist.Ops[:ot.fail.Step+1], fails)
			o2 := c20Run(o.Seed, i, 0, mode, init, small, nil)
			if o2.fail != nil {
				o2.fail.History = i
				o2.fail.Replay = MustJSON(c20Hist{o.Seed, i, mode, init, small})
				ot.fail = o2.fail
			} else {
				ot.fail.Replay = MustJSON(c20Hist{o.Seed, i, mode, init, ot.hist.Ops[:ot.fail.Step+1]})
			}
		}
		outs[i] = ot
	})

	seen := map[string]bool{}
	perShard := 25
	var cases []string
	shard := 0
	flush := func() error {
		if len(cases) == 0 {
			return nil
		}
		name, err := WriteShard(o.OutDir, shard, c20Header, cases, "mismatches")
		if err != nil {
			return err
		}
		res.Shards = append(res.Shards, name)
		shard++
		cases = nil
		return nil
	}
	reported := map[string]int{}
	for i, ot := range outs {
		res.Histories++
		res.Evaluations += len(ot.hist.Ops)
		nontrivial := false
		for k := range ot.splits {
			if c20Nontrivial[k] {
				nontrivial = true
			}
		}
		if key := histKey(ot.hist); nontrivial && !seen[key] {
			seen[key] = true
			res.DistinctNontrivial++
		}
		if i == 0 || i == 5 {
			res.Samples = append(res.Samples, ot.hist)
		}
		res.HistIndex = append(res.HistIndex, HistRef{shard, len(cases), i, MustJSON(ot.hist)})
		cases = append(cases, ot.coq)
		if len(cases) == perShard {
			if err := flush(); err != nil {
				return nil, err
			}
		}
		if ot.fail != nil {
			res.Failures = append(res.Failures, *ot.fail)
		}
		for _, s := range ot.reported {
			reported[s]++
		}
	}
	if err := flush(); err != nil {
		return nil, err
	}
	// the check reports the first failure of each signature: put the smallest (shrunk) replay first
	firstOf, bestOf := map[string]int{}, map[string]int{}
	for i, f := range res.Failures {
		if _, ok := firstOf[f.Signature]; !ok {
			firstOf[f.Signature], bestOf[f.Signature] = i, i
		} else if len(f.Replay) < len(res.Failures[bestOf[f.Signature]].Replay) {
			bestOf[f.Signature] = i
		}
	}
	for sig, i := range firstOf {
		j := bestOf[sig]
		res.Failures[i], res.Failures[j] = res.Failures[j], res.Failures[i]
	}
	if o.Tier == "thorough" {
		if err := exhaustiveSmall(o, res, cnt, &shard); err != nil {
			return nil, err
		}
	}
	// GetPeriodLength sweep (its own case file; positions are not histories)
	sweepN := 1500
	if o.Tier == "thorough" {
		sweepN = 20000
	}
	name, k, err := plenSweep(o.Seed, sweepN, o.OutDir, shard)
	if err != nil {
		return nil, err
	}
	res.Shards = append(res.Shards, name)
	res.Evaluations += k
	cnt.Add("plen-sweep", k)
	res.Extra["reported_only_delegated_stream"] = reported
	res.Counters = cnt.Map()
	for _, k := range c20AllSplits {
		if res.Counters["split:"+k] == 0 {
			res.QualityGate = append(res.QualityGate, k)
		}
	}
	return res, nil
}
