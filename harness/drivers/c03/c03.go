package c03

// C03 — precisebank.  Histories of SendCoins / SendCoinsFromModuleToAccount /
// SendCoinsFromAccountToModule / MintCoins / BurnCoins on the real keeper over
// the real x/bank, with monitors stating the property on the implementation
// and Coq case files for Model/Precisebank.v.

import (
	banktypes "github.com/cosmos/cosmos-sdk/x/bank/types"
	. "kavaverif/lib"

	"encoding/json"
	"fmt"
	"math/big"
	"os"
	"strings"

	sdkmath "cosmossdk.io/math"
	sdk "github.com/cosmos/cosmos-sdk/types"
	vestingtypes "github.com/cosmos/cosmos-sdk/x/auth/vesting/types"

	"github.com/kava-labs/kava/app"
	pbkeeper "github.com/kava-labs/kava/x/precisebank/keeper"
	pbtypes "github.com/kava-labs/kava/x/precisebank/types"
)

func init() { Registry["C03"] = runC03 }

var c03Denoms = []string{"akava", "bnb", "ukava", "usdx"}

const (
	c03NUsers   = 4 // 0,1,2 plain; 3 periodic vesting with locked ukava
	c03NAcc     = 10
	c03Reserve  = 9
	c03DefaultL = 40
)

// module accounts by model index (users have pseudo module names that do not exist)
var c03ModName = []string{"user0", "user1", "user2", "user3", "evmutil", "hard", "swap", "kavadist", "community", "precisebank"}

type c03Coin struct {
	D int    `json:"d"`
	A string `json:"a"`
}

type c03Op struct {
	Kind  string    `json:"kind"` // send | m2a | a2m | mint | burn
	A     int       `json:"a"`    // from / module
	B     int       `json:"b"`    // to / module (unused for mint, burn)
	Coins []c03Coin `json:"coins"`
}

type c03World struct {
	tApp  app.TestApp
	ctx   sdk.Context
	pk    pbkeeper.Keeper
	addrs []sdk.AccAddress
	cf    *big.Int
}

type c03Snap struct {
	bal  [][]*big.Int // [acc][denom]
	frac []*big.Int
	rem  *big.Int
	sup  []*big.Int
	ext  []*big.Int   // keeper.GetBalance(addr, akava)
	spnd []*big.Int   // keeper.SpendableCoin(addr, akava)
	bsp  [][]*big.Int // x/bank SpendableCoin(addr, denom)
}

// c03Setup builds the world.  variant selects a bank configuration that must make NO
// difference at keeper level (x/bank's SendCoins, which precisebank wraps, does not
// consult the send-enabled settings; only x/bank's message server does):
//
//	1: usdx and ukava send-disabled;  2: DefaultSendEnabled = false;  other: defaults.
func c03Setup(variant int) *c03World {
	tApp := NewApp()
	users := Addrs(c03NUsers)
	cdc := tApp.AppCodec()
	b := app.NewAuthBankGenesisBuilder()
	funds := sdk.NewCoins(
		sdk.NewInt64Coin("bnb", 1_000_000),
		sdk.NewInt64Coin("ukava", 50),
		sdk.NewInt64Coin("usdx", 1_000_000),
	)
	for i := 0; i < 3; i++ {
		b.WithSimpleAccount(users[i], funds)
	}
	// vesting account: 50 ukava of which 30 are still locked at the history's block time
	start := GenesisTime.Unix()
	b.WithSimplePeriodicVestingAccount(users[3], funds, vestingtypes.Periods{
		{Length: 10, Amount: sdk.NewCoins(sdk.NewInt64Coin("ukava", 20))},
		{Length: 1_000_000, Amount: sdk.NewCoins(sdk.NewInt64Coin("ukava", 30))},
	}, start)
	tApp.InitializeFromGenesisStatesWithTime(GenesisTime, b.BuildMarshalled(cdc))
	ctx := NewCtx(tApp, 2, GenesisTime.Add(100*1e9))
	ak := tApp.GetAccountKeeper()
	addrs := make([]sdk.AccAddress, c03NAcc)
	copy(addrs, users)
	for i := c03NUsers; i < c03NAcc; i++ {
		addrs[i] = ak.GetModuleAccount(ctx, c03ModName[i]).GetAddress()
	}
	// give the module accounts some coins of the passthrough denoms
	for i := c03NUsers; i < c03NAcc-1; i++ {
		if err := tApp.FundModuleAccount(ctx, c03ModName[i], sdk.NewCoins(sdk.NewInt64Coin("ukava", 5), sdk.NewInt64Coin("usdx", 100))); err != nil {
			panic(err)
		}
	}
	bk := tApp.GetBankKeeper()
	switch variant {
	case 1:
		bk.SetSendEnabled(ctx, "usdx", false)
		bk.SetSendEnabled(ctx, "ukava", false)
	case 2:
		if err := bk.SetParams(ctx, banktypes.Params{DefaultSendEnabled: false}); err != nil {
			panic(err)
		}
	}
	return &c03World{tApp: tApp, ctx: ctx, pk: tApp.GetPrecisebankKeeper(), addrs: addrs, cf: pbtypes.ConversionFactor().BigInt()}
}

func (w *c03World) snap() *c03Snap {
	bk := w.tApp.GetBankKeeper()
	s := &c03Snap{}
	for a := 0; a < c03NAcc; a++ {
		row := make([]*big.Int, len(c03Denoms))
		for d, dn := range c03Denoms {
			row[d] = bk.GetBalance(w.ctx, w.addrs[a], dn).Amount.BigInt()
		}
		s.bal = append(s.bal, row)
		srow := make([]*big.Int, len(c03Denoms))
		for d, dn := range c03Denoms {
			srow[d] = bk.SpendableCoin(w.ctx, w.addrs[a], dn).Amount.BigInt()
		}
		s.bsp = append(s.bsp, srow)
		s.frac = append(s.frac, w.pk.GetFractionalBalance(w.ctx, w.addrs[a]).BigInt())
		s.ext = append(s.ext, w.pk.GetBalance(w.ctx, w.addrs[a], "akava").Amount.BigInt())
		s.spnd = append(s.spnd, w.pk.SpendableCoin(w.ctx, w.addrs[a], "akava").Amount.BigInt())
	}
	s.rem = w.pk.GetRemainderAmount(w.ctx).BigInt()
	for _, dn := range c03Denoms {
		s.sup = append(s.sup, bk.GetSupply(w.ctx, dn).Amount.BigInt())
	}
	return s
}

func (w *c03World) locks() [][]*big.Int {
	bk := w.tApp.GetBankKeeper()
	out := make([][]*big.Int, c03NAcc)
	for a := 0; a < c03NAcc; a++ {
		lc := bk.LockedCoins(w.ctx, w.addrs[a])
		row := make([]*big.Int, len(c03Denoms))
		for d, dn := range c03Denoms {
			row[d] = lc.AmountOf(dn).BigInt()
		}
		out[a] = row
	}
	return out
}

func c03Coins(cs []c03Coin) sdk.Coins {
	out := make(sdk.Coins, len(cs))
	for i, c := range cs {
		amt, _ := new(big.Int).SetString(c.A, 10)
		out[i] = sdk.Coin{Denom: c03Denoms[c.D], Amount: sdkmath.NewIntFromBigInt(amt)}
	}
	return out
}

func (w *c03World) exec(op c03Op) (Class, error) {
	coins := c03Coins(op.Coins)
	return Atomically(w.ctx, func(ctx sdk.Context) error {
		switch op.Kind {
		case "send":
			return w.pk.SendCoins(ctx, w.addrs[op.A], w.addrs[op.B], coins)
		case "m2a":
			return w.pk.SendCoinsFromModuleToAccount(ctx, c03ModName[op.A], w.addrs[op.B], coins)
		case "a2m":
			return w.pk.SendCoinsFromAccountToModule(ctx, w.addrs[op.A], c03ModName[op.B], coins)
		case "mint":
			return w.pk.MintCoins(ctx, c03ModName[op.A], coins)
		case "burn":
			return w.pk.BurnCoins(ctx, c03ModName[op.A], coins)
		}
		panic("unknown op kind " + op.Kind)
	})
}

// ------------------------------------------------------------ generation

func c03GenAmount(r *Rng, w *c03World, s *c03Snap, from, to int, cnt *Counters) *big.Int {
	cf := w.cf
	x := new(big.Int)
	switch r.Pick(20, 15, 25, 15, 10, 3, 12) {
	case 0: // small
		x.SetInt64(int64(r.Intn(21)))
	case 1: // k*CF + {-2..2}
		x.Mul(big.NewInt(int64(r.Intn(4))), cf)
		x.Add(x, big.NewInt(int64(r.Intn(5)-2)))
	case 2: // aimed at a borrow / carry / remainder edge
		var base *big.Int
		switch r.Intn(4) {
		case 0:
			base = new(big.Int).Set(s.frac[from])
		case 1:
			base = new(big.Int).Sub(cf, s.frac[to])
		case 2:
			base = new(big.Int).Set(s.rem)
		default:
			base = new(big.Int).Sub(cf, s.rem)
		}
		x.Add(base, big.NewInt(int64(r.Intn(3)-1)))
		if r.Chance(1, 3) {
			x.Add(x, new(big.Int).Mul(big.NewInt(int64(r.Intn(3))), cf))
		}
	case 3: // near the sender's spendable extended balance
		x.Add(s.spnd[from], big.NewInt(int64(r.Intn(5)-2)))
	case 4: // near the sender's full extended balance
		x.Add(s.ext[from], big.NewInt(int64(r.Intn(3)-1)))
	case 5: // huge
		x = r.BigBits(64 + r.Intn(190))
	default: // random fractional part
		x.SetInt64(r.Int63n(1_000_000_000_000))
		if r.Chance(1, 2) {
			x.Add(x, new(big.Int).Mul(big.NewInt(int64(r.Intn(3))), cf))
		}
	}
	if x.Sign() <= 0 {
		x.SetInt64(int64(1 + r.Intn(3)))
	}
	return x
}

func c03GenOp(r *Rng, w *c03World, s *c03Snap, cnt *Counters) c03Op {
	op := c03Op{}
	users := []int{0, 1, 2, 3}
	mods := []int{4, 5, 6, 7, 8}
	pickAny := func() int {
		if r.Chance(2, 3) {
			return users[r.Intn(len(users))]
		}
		return mods[r.Intn(len(mods))]
	}
	switch r.Pick(40, 14, 14, 20, 12) {
	case 0:
		op.Kind = "send"
		op.A, op.B = pickAny(), pickAny()
		if r.Chance(1, 8) {
			op.B = op.A // transfer to oneself
		}
		if r.Chance(1, 25) { // malformed stream: the reserve as a direct party
			if r.Chance(1, 2) {
				op.A = c03Reserve
			} else {
				op.B = c03Reserve
			}
		}
	case 1:
		op.Kind = "m2a"
		op.A, op.B = mods[r.Intn(len(mods))], pickAny()
		if r.Chance(1, 15) {
			op.A = c03Reserve
		}
		if r.Chance(1, 25) {
			op.A = users[r.Intn(3)] // not a module: panics
		}
	case 2:
		op.Kind = "a2m"
		op.A, op.B = pickAny(), mods[r.Intn(len(mods))]
		if r.Chance(1, 15) {
			op.B = c03Reserve
		}
	case 3:
		op.Kind = "mint"
		op.A = []int{4, 4, 7, 5, 4, 6, 9}[r.Intn(7)]
	default:
		op.Kind = "burn"
		op.A = []int{4, 4, 4, 4, 5, 6, 9}[r.Intn(7)]
	}
	from, to := op.A, op.B
	if op.Kind == "mint" {
		from, to = op.A, op.A
	}
	if op.Kind == "burn" {
		to = op.A
	}
	// coins: akava mostly, plus ukava / others
	var cs []c03Coin
	if r.Chance(85, 100) {
		cs = append(cs, c03Coin{0, c03GenAmount(r, w, s, from, to, cnt).String()})
	}
	if r.Chance(10, 100) {
		cs = append(cs, c03Coin{1, fmt.Sprint(1 + r.Intn(50))})
	}
	if r.Chance(30, 100) {
		amt := int64(r.Intn(4))
		if r.Chance(1, 3) {
			amt = s.bal[from][2].Int64() + int64(r.Intn(3)-1)
		}
		if amt <= 0 {
			amt = 1
		}
		cs = append(cs, c03Coin{2, fmt.Sprint(amt)})
	}
	if r.Chance(10, 100) {
		cs = append(cs, c03Coin{3, fmt.Sprint(1 + r.Intn(200))})
	}
	// malformed coins
	if r.Chance(4, 100) {
		switch r.Intn(4) {
		case 0:
			cs = append(cs, c03Coin{0, "0"})
		case 1:
			cs = append([]c03Coin{{3, "5"}}, cs...) // unsorted or duplicate
		case 2:
			cs = append(cs, c03Coin{0, "-3"})
		default:
			cs = nil // empty coins
		}
	}
	op.Coins = cs
	return op
}

// ------------------------------------------------------------ monitors

func bigEq(a, b *big.Int) bool { return a.Cmp(b) == 0 }

// c03Monitor states the property on the implementation: exact deltas of the
// extended balance view, others unchanged, the keeper's own invariants, and
// "fails exactly when bank rules require it" for plain akava transfers.
func c03Monitor(w *c03World, op c03Op, cls Class, before, after *c03Snap) (pred, sig, detail string) {
	if cls != ClassOk {
		// a failed operation leaves no change
		for a := 0; a < c03NAcc; a++ {
			if !bigEq(before.ext[a], after.ext[a]) {
				return "failed-op-no-change", "failed-op-changed-state", fmt.Sprintf("account %d", a)
			}
		}
		// plain akava transfer between distinct ordinary parties must succeed when the
		// sender's spendable extended balance covers it
		if op.Kind == "send" && cls == ClassErr && len(op.Coins) == 1 && op.Coins[0].D == 0 &&
			op.A != c03Reserve && op.B != c03Reserve {
			x, _ := new(big.Int).SetString(op.Coins[0].A, 10)
			if x.Sign() > 0 && x.Cmp(before.spnd[op.A]) <= 0 {
				return "fails-only-when-bank-rules-require", "send-refused-with-sufficient-funds",
					fmt.Sprintf("amount %s <= spendable %s", x, before.spnd[op.A])
			}
		}
		// generally: a transfer is refused only for a bank reason — invalid coins, a party that
		// is the reserve, a blocked recipient (module-to-account), a module that does not exist,
		// or insufficient spendable funds in some denomination
		if cls == ClassErr && (op.Kind == "send" || op.Kind == "m2a" || op.Kind == "a2m") {
			coins := c03Coins(op.Coins)
			reason := !coins.IsValid() || coins.Empty() || op.A == c03Reserve || op.B == c03Reserve ||
				(op.Kind == "m2a" && (op.A < c03NUsers || w.tApp.GetBankKeeper().BlockedAddr(w.addrs[op.B]))) ||
				(op.Kind == "a2m" && op.B < c03NUsers)
			if !reason {
				val := new(big.Int).Mul(coins.AmountOf("ukava").BigInt(), w.cf)
				val.Add(val, coins.AmountOf("akava").BigInt())
				short := val.Cmp(before.spnd[op.A]) > 0 || coins.AmountOf("ukava").BigInt().Cmp(before.bsp[op.A][2]) > 0
				if op.A == op.B {
					short = coins.AmountOf("akava").BigInt().Cmp(before.spnd[op.A]) > 0 || coins.AmountOf("ukava").BigInt().Cmp(before.bsp[op.A][2]) > 0
				}
				for _, d := range []int{1, 3} {
					if coins.AmountOf(c03Denoms[d]).BigInt().Cmp(before.bsp[op.A][d]) > 0 {
						short = true
					}
				}
				if !short {
					return "fails-only-when-bank-rules-require", "transfer-refused-without-bank-reason",
						fmt.Sprintf("%s %d->%d %s: valid coins, no reserve party, recipient not blocked, every denomination within the sender's spendable balance", op.Kind, op.A, op.B, coins)
				}
			}
		}
		return "", "", ""
	}
	// keeper invariants
	if msg, broken := pbkeeper.AllInvariants(w.pk)(w.ctx); broken {
		sig := "invariant-broken"
		if op.Kind == "send" && op.A == op.B {
			sig = "self-send-invariant-broken"
		} else if op.Kind == "send" && (op.A == c03Reserve || op.B == c03Reserve) {
			sig = "reserve-party-invariant-broken"
		}
		return "keeper-invariants", sig, strings.TrimSpace(msg)
	}
	coins := c03Coins(op.Coins)
	if !coins.IsValid() {
		return "invalid-coins-refused", "invalid-coins-accepted", coins.String()
	}
	val := new(big.Int).Mul(coins.AmountOf("ukava").BigInt(), w.cf)
	val.Add(val, coins.AmountOf("akava").BigInt())
	exp := make([]*big.Int, c03NAcc)
	for a := range exp {
		exp[a] = new(big.Int).Set(before.ext[a])
	}
	switch op.Kind {
	case "send", "m2a", "a2m":
		if op.A == c03Reserve || op.B == c03Reserve {
			return "reserve-as-party-refused", "reserve-party-accepted", fmt.Sprintf("%s %d->%d", op.Kind, op.A, op.B)
		}
		if op.Kind == "m2a" && w.tApp.GetBankKeeper().BlockedAddr(w.addrs[op.B]) {
			return "blocked-recipient-refused", "blocked-recipient-accepted", fmt.Sprint(op.B)
		}
		if op.A != op.B {
			exp[op.A].Sub(exp[op.A], val)
			exp[op.B].Add(exp[op.B], val)
		}
		// sufficient spendable funds were required (x/bank refuses a transfer to oneself as well)
		// (to oneself the ukava part and the akava part are each checked against the spendable
		// balance — nothing leaves the account between the two — otherwise their sum is)
		if op.A != op.B && val.Cmp(before.spnd[op.A]) > 0 {
			return "insufficient-funds-refused", "overspend-accepted", fmt.Sprintf("value %s > spendable %s", val, before.spnd[op.A])
		}
		if op.A == op.B && coins.AmountOf("akava").BigInt().Cmp(before.spnd[op.A]) > 0 {
			return "insufficient-funds-refused", "self-transfer-above-spendable-accepted", fmt.Sprintf("akava %s > spendable %s", coins.AmountOf("akava"), before.spnd[op.A])
		}
		for _, d := range []int{1, 2, 3} {
			if amt := coins.AmountOf(c03Denoms[d]).BigInt(); amt.Cmp(before.bsp[op.A][d]) > 0 {
				return "insufficient-funds-refused", "overspend-accepted:" + c03Denoms[d], fmt.Sprintf("%s %d->%d: %s%s > spendable %s", op.Kind, op.A, op.B, amt, c03Denoms[d], before.bsp[op.A][d])
			}
		}
		if !bigEq(before.rem, after.rem) {
			return "transfer-keeps-remainder", "transfer-changed-remainder", fmt.Sprintf("%s -> %s", before.rem, after.rem)
		}
	case "mint":
		exp[op.A].Add(exp[op.A], val)
	case "burn":
		exp[op.A].Sub(exp[op.A], val)
	}
	for a := 0; a < c03NAcc; a++ {
		if !bigEq(exp[a], after.ext[a]) {
			sig := "inexact-delta"
			if op.Kind == "send" && op.A == op.B {
				sig = "self-send-changes-balance"
			}
			return "exact-deltas", sig, fmt.Sprintf("account %d: expected %s got %s (before %s)", a, exp[a], after.ext[a], before.ext[a])
		}
	}
	// other denoms behave as in the base bank
	for d := 1; d < len(c03Denoms); d++ {
		if d == 2 {
			continue
		}
		amt := coins.AmountOf(c03Denoms[d]).BigInt()
		for a := 0; a < c03NAcc; a++ {
			e := new(big.Int).Set(before.bal[a][d])
			switch op.Kind {
			case "send", "m2a", "a2m":
				if a == op.A {
					e.Sub(e, amt)
				}
				if a == op.B {
					e.Add(e, amt)
				}
			case "mint":
				if a == op.A {
					e.Add(e, amt)
				}
			case "burn":
				if a == op.A {
					e.Sub(e, amt)
				}
			}
			if !bigEq(e, after.bal[a][d]) {
				return "other-denoms-as-bank", "other-denom-delta", fmt.Sprintf("account %d denom %s", a, c03Denoms[d])
			}
		}
	}
	return "", "", ""
}

// ------------------------------------------------------------ Coq rendering

func c03CoqCoins(cs []c03Coin) string {
	it := make([]string, len(cs))
	for i, c := range cs {
		a, _ := new(big.Int).SetString(c.A, 10)
		it[i] = fmt.Sprintf("(%s, %s)", Nat(c.D), Z(a))
	}
	return List(it)
}

func c03CoqOp(op c03Op) string {
	cs := c03CoqCoins(op.Coins)
	switch op.Kind {
	case "send":
		return fmt.Sprintf("Send %s %s %s", Nat(op.A), Nat(op.B), cs)
	case "m2a":
		return fmt.Sprintf("SendM2A %s %s %s", Nat(op.A), Nat(op.B), cs)
	case "a2m":
		return fmt.Sprintf("SendA2M %s %s %s", Nat(op.A), Nat(op.B), cs)
	case "mint":
		return fmt.Sprintf("Mint %s %s", Nat(op.A), cs)
	default:
		return fmt.Sprintf("Burn %s %s", Nat(op.A), cs)
	}
}

func c03CoqObs(cls Class, before, after *c03Snap) string {
	var db, df, ds []string
	for a := 0; a < c03NAcc; a++ {
		for d := range c03Denoms {
			if !bigEq(before.bal[a][d], after.bal[a][d]) {
				db = append(db, fmt.Sprintf("(%s, %s, %s)", Nat(a), Nat(d), Z(after.bal[a][d])))
			}
		}
		if !bigEq(before.frac[a], after.frac[a]) {
			df = append(df, fmt.Sprintf("(%s, %s)", Nat(a), Z(after.frac[a])))
		}
	}
	for d := range c03Denoms {
		if !bigEq(before.sup[d], after.sup[d]) {
			ds = append(ds, fmt.Sprintf("(%s, %s)", Nat(d), Z(after.sup[d])))
		}
	}
	return fmt.Sprintf("mkObs %s %s %s %s %s", cls.Coq(), List(db), List(df), Z(after.rem), List(ds))
}

func (w *c03World) coqEnvState(s *c03Snap) string {
	locks := w.locks()
	lrows := make([]string, c03NAcc)
	brows := make([]string, c03NAcc)
	for a := 0; a < c03NAcc; a++ {
		lrows[a] = ZList(locks[a])
		brows[a] = ZList(s.bal[a])
	}
	ism := make([]bool, c03NAcc)
	mint := make([]bool, c03NAcc)
	burn := make([]bool, c03NAcc)
	blk := make([]bool, c03NAcc)
	ak := w.tApp.GetAccountKeeper()
	for a := c03NUsers; a < c03NAcc; a++ {
		ism[a] = true
		acc := ak.GetModuleAccount(w.ctx, c03ModName[a])
		mint[a] = acc.HasPermission("minter")
		burn[a] = acc.HasPermission("burner")
	}
	for a := 0; a < c03NAcc; a++ {
		blk[a] = w.tApp.GetBankKeeper().BlockedAddr(w.addrs[a])
	}
	env := fmt.Sprintf("(mk_env %s %s %s %s %s %s %s)", Nat(c03NAcc), Nat(c03Reserve), List(lrows), BoolList(ism), BoolList(mint), BoolList(burn), BoolList(blk))
	st := fmt.Sprintf("(mk_state %s %s %s %s)", List(brows), ZList(s.sup), ZList(s.frac), Z(s.rem))
	return env + "\n  " + st
}

// ------------------------------------------------------------ history runner

type c03Hist struct {
	Seed uint64  `json:"seed"`
	Idx  int     `json:"history"`
	Ops  []c03Op `json:"ops"`
}

// c03Run executes either generated (ops == nil) or explicit operations and
// returns the executed ops, the Coq term and the first monitor failure.
func c03Run(seed uint64, idx, n int, ops []c03Op, cnt *Counters) (exec []c03Op, coq string, fail *Failure, okOps int, splits map[string]bool) {
	w := c03Setup(idx % 4)
	r := NewRng(seed, uint64(idx))
	if cnt != nil {
		cnt.Inc(fmt.Sprintf("config:bank-send-enabled-variant=%d", idx%4))
	}
	splits = map[string]bool{}
	prev := w.snap()
	header := w.coqEnvState(prev)
	var steps []string
	if ops != nil {
		n = len(ops)
	}
	for i := 0; i < n; i++ {
		var op c03Op
		if ops != nil {
			op = ops[i]
		} else {
			op = c03GenOp(r, w, prev, cnt)
		}
		cls, err := w.exec(op)
		after := w.snap()
		exec = append(exec, op)
		if cnt != nil {
			cnt.Inc("op:" + op.Kind + ":" + cls.String())
			if cls == ClassErr {
				cnt.Inc("err:" + c03ErrKind(err))
			}
		}
		if cls == ClassOk {
			okOps++
			c03Splits(w, op, prev, after, splits, cnt)
		}
		steps = append(steps, fmt.Sprintf("(%s,\n    %s)", c03CoqOp(op), c03CoqObs(cls, prev, after)))
		if pred, sig, detail := c03Monitor(w, op, cls, prev, after); pred != "" && fail == nil {
			fail = &Failure{History: idx, Step: i, Predicate: pred, Signature: sig, Detail: detail}
		}
		prev = after
	}
	coq = fmt.Sprintf("mkHist %s\n  %s", header, List(steps))
	return
}

func c03ErrKind(err error) string {
	if err == nil {
		return "none"
	}
	m := err.Error()
	switch {
	case strings.Contains(m, "insufficient funds") || strings.Contains(m, "is smaller than"):
		return "insufficient-funds"
	case strings.Contains(m, "not allowed to receive") || strings.Contains(m, "not allowed to send") || strings.Contains(m, "unauthorized"):
		return "unauthorized"
	case strings.Contains(m, "invalid coins"):
		return "invalid-coins"
	}
	return "other"
}

// c03Splits counts the proof-relevant case splits a successful operation exercised.
func c03Splits(w *c03World, op c03Op, before, after *c03Snap, splits map[string]bool, cnt *Counters) {
	coins := c03Coins(op.Coins)
	x := coins.AmountOf("akava").BigInt()
	if x.Sign() <= 0 {
		return
	}
	fa := new(big.Int).Mod(x, w.cf)
	mark := func(k string) {
		splits[k] = true
		if cnt != nil {
			cnt.Inc("split:" + k)
		}
	}
	switch op.Kind {
	case "send", "m2a", "a2m":
		if op.A == op.B {
			mark("send:self")
			return
		}
		borrow := before.frac[op.A].Cmp(fa) < 0
		carry := new(big.Int).Add(before.frac[op.B], fa).Cmp(w.cf) >= 0
		mark(fmt.Sprintf("send:borrow=%v,carry=%v", borrow, carry))
	case "mint":
		carry := new(big.Int).Add(before.frac[op.A], fa).Cmp(w.cf) >= 0
		wrap := before.rem.Cmp(fa) < 0
		mark(fmt.Sprintf("mint:carry=%v,remwrap=%v", carry, wrap))
	case "burn":
		borrow := before.frac[op.A].Cmp(fa) < 0
		over := new(big.Int).Add(before.rem, fa).Cmp(w.cf) >= 0
		mark(fmt.Sprintf("burn:borrow=%v,remover=%v", borrow, over))
	}
}

var c03AllSplits = []string{
	"send:self",
	"send:borrow=false,carry=false", "send:borrow=false,carry=true", "send:borrow=true,carry=false", "send:borrow=true,carry=true",
	"mint:carry=false,remwrap=false", "mint:carry=false,remwrap=true", "mint:carry=true,remwrap=false", "mint:carry=true,remwrap=true",
	"burn:borrow=false,remover=false", "burn:borrow=false,remover=true", "burn:borrow=true,remover=false", "burn:borrow=true,remover=true",
}

func runC03(o Opts) (*Result, error) {
	n := o.Len
	if n == 0 {
		n = c03DefaultL
	}
	res := &Result{Property: "C03", Seed: o.Seed,
		Rule: "histories of " + fmt.Sprint(n) + " precisebank keeper calls generated from splitmix64(seed, history index) on a fresh app.TestApp; a history is non-trivial when it contains a successful akava-moving operation that exercises a borrow, carry or remainder-wrap case split; distinct by hash of the operation list"}
	cnt := NewCounters()

	if o.Replay != "" {
		bz, err := os.ReadFile(o.Replay)
		if err != nil {
			return nil, err
		}
		var h c03Hist
		if err := json.Unmarshal(bz, &h); err != nil {
			return nil, err
		}
		_, coq, fail, _, _ := c03Run(h.Seed, h.Idx, 0, h.Ops, cnt)
		name, err := WriteShard(o.OutDir, 0, "From Kava Require Import Base.Prelude Model.Precisebank.", []string{coq}, "mismatches")
		if err != nil {
			return nil, err
		}
		res.Shards = []string{name}
		res.HistIndex = []HistRef{{0, 0, h.Idx, MustJSON(h)}}
		res.Histories, res.Evaluations = 1, len(h.Ops)
		if fail != nil {
			fail.Replay = MustJSON(h)
			res.Failures = append(res.Failures, *fail)
		}
		res.Counters = cnt.Map()
		return res, nil
	}

	type out struct {
		ops    []c03Op
		coq    string
		fail   *Failure
		okOps  int
		splits map[string]bool
	}
	outs := make([]out, o.N)
	ParallelFor(o.N, o.Workers, func(i int) {
		ops, coq, fail, okOps, splits := c03Run(o.Seed, i, n, nil, cnt)
		if fail != nil {
			// shrink: keep the failing predicate, drop operations
			sig := fail.Signature
			fails := func(cand []c03Op) bool {
				_, _, f, _, _ := c03Run(o.Seed, i, 0, cand, nil)
				return f != nil && f.Signature == sig
			}
			small := Shrink(ops[:fail.Step+1], fails)
			_, _, f2, _, _ := c03Run(o.Seed, i, 0, small, nil)
			if f2 != nil {
				f2.History = i
				f2.Replay = MustJSON(c03Hist{o.Seed, i, small})
				fail = f2
			} else {
				fail.Replay = MustJSON(c03Hist{o.Seed, i, ops[:fail.Step+1]})
			}
		}
		outs[i] = out{ops, coq, fail, okOps, splits}
	})

	seen := map[string]bool{}
	perShard := 50
	var cases []string
	shard := 0
	flush := func() error {
		if len(cases) == 0 {
			return nil
		}
		name, err := WriteShard(o.OutDir, shard, "From Kava Require Import Base.Prelude Model.Precisebank.", cases, "mismatches")
		if err != nil {
			return err
		}
		res.Shards = append(res.Shards, name)
		shard++
		cases = nil
		return nil
	}
	for i, ot := range outs {
		res.Histories++
		res.Evaluations += len(ot.ops)
		h := c03Hist{o.Seed, i, ot.ops}
		key := string(MustJSON(ot.ops))
		nontrivial := false
		for k := range ot.splits {
			if k != "send:borrow=false,carry=false" && k != "mint:carry=false,remwrap=false" && k != "burn:borrow=false,remover=false" {
				nontrivial = true
			}
		}
		if nontrivial && !seen[key] {
			seen[key] = true
			res.DistinctNontrivial++
		}
		if i < 2 {
			res.Samples = append(res.Samples, h)
		}
		res.HistIndex = append(res.HistIndex, HistRef{shard, len(cases), i, MustJSON(h)})
		cases = append(cases, ot.coq)
		if len(cases) == perShard {
			if err := flush(); err != nil {
				return nil, err
			}
		}
		if ot.fail != nil {
			res.Failures = append(res.Failures, *ot.fail)
		}
	}
	if err := flush(); err != nil {
		return nil, err
	}
	res.Counters = cnt.Map()
	for _, k := range c03AllSplits {
		if res.Counters["split:"+k] == 0 {
			res.QualityGate = append(res.QualityGate, k)
		}
	}
	return res, nil
}
