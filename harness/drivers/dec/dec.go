// Package dec: differential test of coq/Base/Dec.v against cosmossdk.io/math.
package dec

import (
	. "kavaverif/lib"

	"fmt"
	"math/big"

	sdkmath "cosmossdk.io/math"
)

func init() { Registry["DEC"] = run }

var opNames = []string{"Mul", "MulTruncate", "MulRoundUp", "Quo", "QuoTruncate", "QuoRoundUp", "QuoInt", "RoundInt", "TruncateInt", "Ceil", "MulInt", "RelativePow"}

func decFromMant(m *big.Int) sdkmath.LegacyDec { return sdkmath.LegacyNewDecFromBigIntWithPrec(m, 18) }

func genMant(r *Rng) *big.Int {
	p := Pow10(18)
	x := new(big.Int)
	switch r.Pick(20, 20, 20, 15, 15, 10) {
	case 0:
		x.SetInt64(int64(r.Intn(40)))
	case 1: // k * 10^18 + small
		x.Mul(big.NewInt(int64(r.Intn(50))), p)
		x.Add(x, big.NewInt(int64(r.Intn(7)-3)))
	case 2: // exact halves and neighbours
		x.Mul(big.NewInt(int64(r.Intn(20))), p)
		x.Add(x, new(big.Int).Div(p, big.NewInt(2)))
		x.Add(x, big.NewInt(int64(r.Intn(3)-1)))
	case 3:
		x = r.BigBits(1 + r.Intn(70))
	case 4:
		x = r.BigBits(1 + r.Intn(140))
	default: // typical ratios / prices
		x.SetInt64(r.Int63n(3_000_000_000_000_000_000))
	}
	if r.Chance(1, 5) {
		x.Neg(x)
	}
	return x
}

func eval(op int, a, b *big.Int) (res *big.Int, ok bool) {
	defer func() {
		if recover() != nil {
			ok = false
		}
	}()
	da, db := decFromMant(a), decFromMant(b)
	switch op {
	case 0:
		return da.Mul(db).BigInt(), true
	case 1:
		return da.MulTruncate(db).BigInt(), true
	case 2:
		return da.MulRoundUp(db).BigInt(), true
	case 3:
		return da.Quo(db).BigInt(), true
	case 4:
		return da.QuoTruncate(db).BigInt(), true
	case 5:
		return da.QuoRoundUp(db).BigInt(), true
	case 6:
		return da.QuoInt(sdkmath.NewIntFromBigInt(b)).BigInt(), true
	case 7:
		return da.RoundInt().BigInt(), true
	case 8:
		return da.TruncateInt().BigInt(), true
	case 9:
		return da.Ceil().BigInt(), true
	case 10:
		return da.MulInt(sdkmath.NewIntFromBigInt(b)).BigInt(), true
	case 11:
		return sdkmath.RelativePow(sdkmath.NewUintFromBigInt(a), sdkmath.NewUintFromBigInt(b), sdkmath.NewUintFromBigInt(Pow10(18))).BigInt(), true
	}
	return nil, false
}

func run(o Opts) (*Result, error) {
	res := &Result{Property: "DEC", Seed: o.Seed, Rule: "operand pairs for each LegacyDec operation: small, near integers, exact halves, up to 140 bits, negative; non-trivial when the exact result is not representable (a rounding happens)"}
	cnt := NewCounters()
	r := NewRng(o.Seed, 0xDEC)
	var cases []string
	shard := 0
	seen := map[string]bool{}
	flush := func() error {
		if len(cases) == 0 {
			return nil
		}
		name, err := WriteShardList(o.OutDir, shard, "From Kava Require Import Base.Prelude Base.Dec Model.DecCheck.", cases, "dec_mismatches")
		if err != nil {
			return err
		}
		res.Shards = append(res.Shards, name)
		shard++
		cases = nil
		return nil
	}
	total := o.N * 50
	for i := 0; i < total; i++ {
		op := r.Intn(len(opNames))
		a, b := genMant(r), genMant(r)
		if op >= 3 && op <= 6 && b.Sign() == 0 {
			b.SetInt64(3)
		}
		if op == 11 { // RelativePow: x around 1.0 (per-second rates), n up to 2^32
			a.Add(Pow10(18), big.NewInt(r.Int63n(4_000_000_000)))
			if r.Chance(1, 10) {
				a.SetInt64(0)
			}
			b.SetInt64(r.Int63n(1 << uint(1+r.Intn(32))))
		}
		v, ok := eval(op, a, b)
		if !ok {
			cnt.Inc("panic:" + opNames[op])
			continue
		}
		cnt.Inc("op:" + opNames[op])
		key := fmt.Sprintf("%d/%s/%s", op, a, b)
		if !seen[key] {
			seen[key] = true
			exact := new(big.Int)
			if op <= 2 {
				exact.Mul(a, b)
				if new(big.Int).Mod(exact, Pow10(18)).Sign() != 0 {
					res.DistinctNontrivial++
				}
			} else {
				res.DistinctNontrivial++
			}
		}
		res.Evaluations++
		if len(res.Samples) < 3 {
			res.Samples = append(res.Samples, map[string]string{"op": opNames[op], "a": a.String(), "b": b.String(), "result": v.String()})
		}
		cases = append(cases, fmt.Sprintf("(%s, %s, %s, %s)", Nat(op), Z(a), Z(b), Z(v)))
		if len(cases) == 4000 {
			if err := flush(); err != nil {
				return nil, err
			}
		}
	}
	if err := flush(); err != nil {
		return nil, err
	}
	res.Histories = res.Evaluations
	res.Counters = cnt.Map()
	return res, nil
}
