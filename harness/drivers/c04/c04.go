// Package c04 — CDP custody, stable/debt accounting and index coherence.
// The world, operations, generators, monitors and Coq rendering are shared with
// C05 (package cdpcommon); this driver runs the C04 monitors.
package c04

import (
	"kavaverif/drivers/cdpcommon"
	. "kavaverif/lib"
)

func init() { Registry["C04"] = run }

func run(o Opts) (*Result, error) {
	return cdpcommon.RunDriver("C04", o,
		"histories of create / deposit (owner, third party) / withdraw / draw / repay / keeper liquidation messages (ValidateBasic + msg server) and blocks "+
			"(price changes, time gap, cdp begin blocker) over three collateral types and four users, generated from splitmix64(seed, history index) on a fresh app.TestApp "+
			"with a per-history parameter set; a history is non-trivial when it contains a successful operation other than a bare create or an idle block "+
			"(deposit, withdraw, draw, repay, liquidation, interest accrual, seizure, feed change); distinct by the operation list")
}
