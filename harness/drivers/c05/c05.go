// Package c05 — CDP liquidation boundary.  Shares the world with C04 (package
// cdpcommon); runs the C05 monitors, with the boundary-directed parameter sets
// and the two known-finding histories at history indexes 0 and 1.
package c05

import (
	"kavaverif/drivers/cdpcommon"
	. "kavaverif/lib"
)

func init() { Registry["C05"] = run }

func run(o Opts) (*Result, error) {
	return cdpcommon.RunDriver("C05", o,
		"histories as for C04 with boundary-directed generators (debt, collateral and liquidation price placed at, one unit above and below the ratio boundary "+
			"computed from the observed state) plus two fixed histories that reproduce the known boundary findings; a history is non-trivial when it contains a "+
			"successful operation other than a bare create or an idle block; distinct by the operation list")
}
