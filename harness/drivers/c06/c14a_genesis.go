package c06

// Genesis re-import histories for the C14a component of C14 (added for C14a; the
// C06 driver does not use this file): ordinary C06 histories with in-place
// re-imports of the x/auction genesis at PRNG-chosen points,
//
//	gs := auction.ExportGenesis(branch of ctx); gs.Validate(); JSON round trip;
//	delete every key of the auction KV store; auction.InitGenesis(ctx, ..., gs)
//
// on the real keeper over the real x/bank (so InitGenesis's comparison of the
// module account with the auctions' coins sees the true balances).  The Coq
// case files use the wrapper machine of Model/GenesisAuction.v.

import (
	. "kavaverif/lib"

	"bytes"
	"encoding/json"
	"fmt"
	"math/big"
	"strings"
	"time"

	sdkmath "cosmossdk.io/math"

	sdk "github.com/cosmos/cosmos-sdk/types"

	"github.com/kava-labs/kava/x/auction"
	auctiontypes "github.com/kava-labs/kava/x/auction/types"
)

const GenesisHeader = "From Kava Require Import Base.Prelude Model.Auction Model.GenesisAuction."

type GenesisHist struct {
	Part   string `json:"part"`
	Seed   uint64 `json:"seed"`
	Idx    int    `json:"history"`
	Params Params `json:"params"`
	Ops    []Op   `json:"ops"`
}

func (w *World) reimport(cnt *Counters) (Class, *fail) {
	var f *fail
	key := w.tApp.GetKVStoreKey(auctiontypes.StoreKey)
	cdc := w.tApp.AppCodec()
	stage := "export"
	cls, err := Atomically(w.ctx, func(ctx sdk.Context) error {
		bctx, _ := ctx.CacheContext()
		gs := auction.ExportGenesis(bctx, w.k)
		exported := DumpStore(bctx, key)
		stage = "validate"
		if e := gs.Validate(); e != nil && f == nil {
			f = mk("auction-exported-genesis-validates", "auction-export-fails-validation", "%s", e.Error())
		}
		stage = "json"
		bz := cdc.MustMarshalJSON(gs)
		var gs2 auctiontypes.GenesisState
		cdc.MustUnmarshalJSON(bz, &gs2)
		stage = "import"
		WipeStore(ctx, key)
		auction.InitGenesis(ctx, w.k, w.tApp.GetBankKeeper(), w.tApp.GetAccountKeeper(), &gs2)
		stage = "compare"
		if d := DiffDumps(exported, DumpStore(ctx, key), nil); len(d) > 0 && f == nil {
			f = mk("auction-store-identical-after-reimport", "auction-store-differs-after-reimport", "%s", strings.Join(d, "; "))
		}
		b2, _ := ctx.CacheContext()
		gs3 := auction.ExportGenesis(b2, w.k)
		if bz3 := cdc.MustMarshalJSON(gs3); !bytes.Equal(bz, bz3) && f == nil {
			f = mk("auction-reexport-identical", "auction-reexport-differs", "first export %d bytes, re-export %d bytes", len(bz), len(bz3))
		}
		return nil
	})
	if cnt != nil {
		cnt.Inc("auction/reimport:" + cls.String())
	}
	if cls != ClassOk {
		return cls, mk("auction-reimport-does-not-panic", "auction-reimport-panics-at-"+stage, "%v", err)
	}
	return cls, f
}

func genesisOpCoq(op Op, parts []*big.Int) string {
	if op.Kind == "reimport" {
		return "GReimport"
	}
	return "GOp (" + opCoq(op, parts) + ")"
}

// ------------------------------------------------------------ probes: perturbed genesis files

var genesisMutations = []string{
	"none", "id-eq-next", "id-gt-next", "next-lower", "dup-auction", "drop-auction", "lot-negative", "lot-zero", "lot-changed",
	"bid-negative", "bid-changed", "end-zero", "end-after-max", "max-end-zero", "debt-negative", "debt-changed", "maxbid-negative",
	"weights-empty", "weight-negative", "weights-zero-sum", "weights-length-mismatch", "return-address-empty",
	// the bank side: the genesis is the unchanged export, the auction module account's balance is changed
	// before InitGenesis (which compares it with the coins the genesis auctions account for)
	"bank-extra-lot-unit", "bank-extra-debt-unit", "bank-extra-unheld-denom", "bank-missing-unit", "bank-extra-and-missing",
}

// bankPerturb changes the auction module account's balance on ctx (a discarded branch) and returns the
// (denom index, amount) pairs applied; nil when the perturbation does not apply to this state.
func (w *World) bankPerturb(ctx sdk.Context, mut string, list []auctiontypes.GenesisAuction, sel int) [][2]int64 {
	held := sdk.NewCoins()
	lots, debts := []string{}, []string{}
	for _, a := range list {
		held = held.Add(a.GetModuleAccountCoins()...)
		if _, isDebt := a.(*auctiontypes.DebtAuction); !isDebt && a.GetLot().Amount.IsPositive() {
			lots = append(lots, a.GetLot().Denom)
		}
		switch x := a.(type) {
		case *auctiontypes.DebtAuction:
			if x.CorrespondingDebt.Amount.IsPositive() {
				debts = append(debts, x.CorrespondingDebt.Denom)
			}
		case *auctiontypes.CollateralAuction:
			if x.CorrespondingDebt.Amount.IsPositive() {
				debts = append(debts, x.CorrespondingDebt.Denom)
			}
		}
	}
	dIdx := func(dn string) int64 {
		for i, x := range denoms {
			if x == dn {
				return int64(i)
			}
		}
		return -1
	}
	add := func(dn string, amt int64) bool {
		return w.tApp.FundModuleAccount(ctx, auctiontypes.ModuleName, sdk.NewCoins(sdk.NewInt64Coin(dn, amt))) == nil
	}
	sub := func(dn string, amt int64) bool {
		return w.tApp.GetBankKeeper().SendCoinsFromModuleToAccount(ctx, auctiontypes.ModuleName, w.addrs[0], sdk.NewCoins(sdk.NewInt64Coin(dn, amt))) == nil
	}
	amt := int64(1)
	if sel%3 == 2 {
		amt = 1 + int64(sel%1000)
	}
	switch mut {
	case "bank-extra-lot-unit":
		if len(lots) > 0 {
			dn := lots[sel%len(lots)]
			if add(dn, amt) {
				return [][2]int64{{dIdx(dn), amt}}
			}
		}
	case "bank-extra-debt-unit":
		if len(debts) > 0 {
			dn := debts[sel%len(debts)]
			if add(dn, amt) {
				return [][2]int64{{dIdx(dn), amt}}
			}
		}
	case "bank-extra-unheld-denom": // a denom no genesis auction accounts for (also with no auction at all)
		for k := range denoms {
			dn := denoms[(sel+k)%len(denoms)]
			if held.AmountOf(dn).IsZero() {
				if add(dn, amt) {
					return [][2]int64{{dIdx(dn), amt}}
				}
				break
			}
		}
	case "bank-missing-unit":
		if len(held) > 0 {
			c := held[sel%len(held)]
			if sub(c.Denom, 1) {
				return [][2]int64{{dIdx(c.Denom), -1}}
			}
		}
	case "bank-extra-and-missing": // one unit more of one denom, one less of another: the totals' count is unchanged
		if len(held) > 1 {
			a, b := held[sel%len(held)], held[(sel+1)%len(held)]
			if add(a.Denom, 1) && sub(b.Denom, 1) {
				return [][2]int64{{dIdx(a.Denom), 1}, {dIdx(b.Denom), -1}}
			}
		}
	}
	return nil
}

// mutate one auction (a copy) of the export; returns the perturbed next id and auction list
func genesisMutate(next uint64, in []auctiontypes.GenesisAuction, mut string, i int) (uint64, []auctiontypes.GenesisAuction, string) {
	kind := ""
	// value copies of the concrete records
	type rec struct {
		s *auctiontypes.SurplusAuction
		d *auctiontypes.DebtAuction
		c *auctiontypes.CollateralAuction
	}
	recs := make([]rec, len(in))
	for k, a := range in {
		switch x := a.(type) {
		case *auctiontypes.SurplusAuction:
			y := *x
			recs[k].s = &y
		case *auctiontypes.DebtAuction:
			y := *x
			recs[k].d = &y
		case *auctiontypes.CollateralAuction:
			y := *x
			y.LotReturns.Addresses = append([]sdk.AccAddress(nil), x.LotReturns.Addresses...)
			y.LotReturns.Weights = append([]sdkmath.Int(nil), x.LotReturns.Weights...)
			recs[k].c = &y
		}
	}
	base := func(r rec) *auctiontypes.BaseAuction {
		switch {
		case r.s != nil:
			return &r.s.BaseAuction
		case r.d != nil:
			return &r.d.BaseAuction
		default:
			return &r.c.BaseAuction
		}
	}
	n := len(recs)
	neg := sdkmath.NewInt(-1)
	if n > 0 {
		r := recs[i%n]
		b := base(r)
		switch {
		case r.s != nil:
			kind = "surplus"
		case r.d != nil:
			kind = "debt"
		default:
			kind = "collateral"
		}
		switch mut {
		case "id-eq-next":
			b.ID = next
		case "id-gt-next":
			b.ID = next + 3
		case "next-lower":
			next = b.ID
		case "dup-auction":
			recs = append(recs, r)
		case "drop-auction":
			recs = append(append([]rec{}, recs[:i%n]...), recs[i%n+1:]...)
		case "lot-negative":
			b.Lot.Amount = neg
		case "lot-zero":
			b.Lot.Amount = sdkmath.ZeroInt()
		case "lot-changed":
			b.Lot.Amount = b.Lot.Amount.AddRaw(1)
		case "bid-negative":
			b.Bid.Amount = neg
		case "bid-changed":
			b.Bid.Amount = b.Bid.Amount.AddRaw(1)
		case "end-zero":
			b.EndTime = time.Unix(0, 0).UTC()
		case "end-after-max":
			b.EndTime = b.MaxEndTime.Add(time.Second)
		case "max-end-zero":
			b.MaxEndTime = time.Unix(0, 0).UTC()
		case "debt-negative":
			if r.d != nil {
				r.d.CorrespondingDebt.Amount = neg
			} else if r.c != nil {
				r.c.CorrespondingDebt.Amount = neg
			}
		case "debt-changed":
			if r.d != nil {
				r.d.CorrespondingDebt.Amount = r.d.CorrespondingDebt.Amount.AddRaw(1)
			} else if r.c != nil {
				r.c.CorrespondingDebt.Amount = r.c.CorrespondingDebt.Amount.AddRaw(1)
			}
		case "maxbid-negative":
			if r.c != nil {
				r.c.MaxBid.Amount = neg
			}
		case "weights-empty":
			if r.c != nil {
				r.c.LotReturns.Addresses, r.c.LotReturns.Weights = nil, nil
			}
		case "weight-negative":
			if r.c != nil && len(r.c.LotReturns.Weights) > 0 {
				r.c.LotReturns.Weights[0] = neg
			}
		case "weights-zero-sum":
			if r.c != nil {
				for k := range r.c.LotReturns.Weights {
					r.c.LotReturns.Weights[k] = sdkmath.ZeroInt()
				}
			}
		case "weights-length-mismatch":
			if r.c != nil {
				r.c.LotReturns.Weights = append(r.c.LotReturns.Weights, sdkmath.OneInt())
			}
		case "return-address-empty":
			if r.c != nil && len(r.c.LotReturns.Addresses) > 0 {
				r.c.LotReturns.Addresses[0] = sdk.AccAddress{}
			}
		}
	}
	out := make([]auctiontypes.GenesisAuction, 0, len(recs))
	for _, r := range recs {
		switch {
		case r.s != nil:
			out = append(out, r.s)
		case r.d != nil:
			out = append(out, r.d)
		default:
			out = append(out, r.c)
		}
	}
	return next, out, kind
}

// probe: export on a discarded branch, perturb one field, real Validate, real InitGenesis (empty auction
// store, discarded branch, recover); rendered for Model/GenesisAuction.v with both verdicts
func (w *World) probe(mut string, i int, cnt *Counters) (string, *fail) {
	key := w.tApp.GetKVStoreKey(auctiontypes.StoreKey)
	bctx, _ := w.ctx.CacheContext()
	gs0 := auction.ExportGenesis(bctx, w.k)
	list, err := auctiontypes.UnpackGenesisAuctions(gs0.Auctions)
	if err != nil {
		panic(err)
	}
	next, list, kind := genesisMutate(gs0.NextAuctionId, list, mut, i)
	gs, err := auctiontypes.NewGenesisState(next, gs0.Params, list)
	if err != nil {
		panic(err)
	}
	valid := gs.Validate() == nil
	cls := ClassOk
	var bank [][2]int64
	ictx, _ := w.ctx.CacheContext() // never written back
	if strings.HasPrefix(mut, "bank-") {
		bank = w.bankPerturb(ictx, mut, list, i)
	}
	func() {
		defer func() {
			if r := recover(); r != nil {
				cls = ClassPanic
			}
		}()
		WipeStore(ictx, key)
		auction.InitGenesis(ictx, w.k, w.tApp.GetBankKeeper(), w.tApp.GetAccountKeeper(), gs)
	}()
	if cnt != nil {
		cnt.Inc(fmt.Sprintf("auction/probe:%s:valid=%v:init=%s", mut, valid, cls))
		if len(bank) > 0 {
			cnt.Inc("auction/probe:bank-perturbed:init=" + cls.String())
		}
	}
	bankCoq := make([]string, len(bank))
	bankTxt := make([]string, len(bank))
	for k, b := range bank {
		bankCoq[k] = fmt.Sprintf("(%s, %s)", Nat(int(b[0])), Zi(b[1]))
		bankTxt[k] = fmt.Sprintf("%+d%s", b[1], denoms[b[0]])
	}
	as := make([]string, len(list))
	for k, a := range list {
		as[k] = aucCoq(w.projAuction(a))
	}
	var f *fail
	want, ok := genesisExpect[mut]
	if !ok {
		want, ok = genesisExpect[mut+":"+kind]
	}
	if ok && (kind != "" || mut == "none") && (want[0] != valid || want[1] != (cls == ClassOk)) {
		f = mk("auction-genesis-verdicts:"+mut, "auction-probe-verdict-"+mut,
			"perturbation %s (index %d, %s auction) of the exported genesis: Validate passes=%v (expected %v), InitGenesis ok=%v (expected %v)", mut, i, kind, valid, want[0], cls == ClassOk, want[1])
	}
	genCoq := fmt.Sprintf("(mkGen %s %s)", Zi(int64(next)), List(as))
	// stated on the implementation alone: a genesis state GenesisState.Validate refuses is never imported, and the
	// unchanged export is never imported over a module account that holds anything else than the auctions' coins
	if !valid && cls == ClassOk {
		f = mk("invalid-genesis-imported:auction:"+mut, "invalid-genesis-imported:auction:"+mut,
			"GenesisState.Validate refuses this genesis state (perturbation %s, index %d, %s auction, of a real export) but InitGenesis on an emptied store imports it: %s", mut, i, kind, genCoq)
	}
	if len(bank) > 0 && cls == ClassOk {
		f = mk("genesis-imported-over-unaccounted-module-balance:auction:"+mut, "genesis-imported-over-unaccounted-module-balance:auction:"+mut,
			"the auction module account's balance was changed by %s before InitGenesis of the unchanged export %s: the module account no longer holds exactly what the genesis auctions account for, but InitGenesis accepts", strings.Join(bankTxt, ","), genCoq)
	}
	return fmt.Sprintf("GProbe %s %s %s %s", genCoq, List(bankCoq), Bool(valid), cls.Coq()), f
}

// genesisExpect: what GenesisState.Validate / InitGenesis must say about a perturbed export (validate passes, init
// ok), stated independently of the model; "mut:kind" entries hold for that kind of auction only
var genesisExpect = map[string][2]bool{
	"none": {true, true}, "id-eq-next": {false, false}, "id-gt-next": {false, false}, "next-lower": {false, false},
	"dup-auction": {false, false}, "lot-negative": {false, false}, "bid-negative": {false, false}, "end-zero": {false, false},
	"max-end-zero": {false, false}, "end-after-max": {false, false}, "bid-changed": {true, true},
	"lot-changed:surplus": {true, false}, "lot-changed:collateral": {true, false}, "lot-changed:debt": {true, true},
	"debt-changed:debt": {true, false}, "debt-changed:collateral": {true, false}, "debt-negative:debt": {false, false},
	"debt-negative:collateral": {false, false}, "maxbid-negative:collateral": {false, false}, "weights-empty:collateral": {false, false},
	"weights-zero-sum:collateral": {false, false}, "weights-length-mismatch:collateral": {false, false},
	"return-address-empty:collateral": {false, false},
}

// exportValidates: the monitor "every reachable state exports a genesis that passes validation"
func (w *World) exportValidates() *fail {
	var f *fail
	func() {
		defer func() {
			if r := recover(); r != nil {
				f = mk("auction-export-does-not-panic", "auction-export-panics", "%v", r)
			}
		}()
		bctx, _ := w.ctx.CacheContext()
		if e := auction.ExportGenesis(bctx, w.k).Validate(); e != nil {
			f = mk("auction-exported-genesis-validates", "auction-export-fails-validation", "%s", e.Error())
		}
	}()
	return f
}

// GenesisRun executes generated (ops == nil) or explicit operations on a fresh world.
func GenesisRun(seed uint64, idx, n int, params *Params, ops []Op, cnt *Counters) (GenesisPartOut, Params, []Op) {
	r := NewRng(seed, uint64(idx)+2_000_000)
	var p Params
	if params != nil {
		p = *params
	} else {
		p = genParams(r)
	}
	w := setup(p)
	out := GenesisPartOut{}
	prev := w.snap(w.ctx)
	header := w.envStateCoq(prev)
	g := &gen{r: r, w: w, now: t0, cnt: nil}
	var steps []string
	var done []Op
	splits := map[string]bool{}
	if ops != nil {
		n = len(ops)
	}
	forced := n/2 + r.Intn(n/2+1)
	probes := 0
	var fl *Failure
	for i := 0; i < n; i++ {
		var op Op
		if ops != nil {
			op = ops[i]
		} else {
			open := len(prev.aucs) > 0
			if probes > 0 {
				probes--
				op = Op{Kind: "probe", X: genesisMutations[r.Intn(len(genesisMutations))], A: r.Intn(8)}
			} else if i == forced || (open && r.Chance(1, 6)) || (!open && r.Chance(1, 30)) {
				op = Op{Kind: "reimport"}
			} else {
				op = g.genOp(prev)
			}
		}
		var cls Class
		var f *fail
		var parts []*big.Int
		coq := ""
		if op.Kind == "probe" {
			coq, f = w.probe(op.X, op.A, cnt)
			cls = ClassOk
		} else if op.Kind == "reimport" {
			probes = 2
			cls, f = w.reimport(cnt)
			if cls == ClassOk && cnt != nil {
				for _, a := range prev.aucs {
					switch {
					case a.Kind == 2 && a.Has && a.Bid.Cmp(a.MaxBid) == 0:
						cnt.Inc("auction/reimport:collateral-reverse-phase-with-bid")
					case a.Kind == 2 && a.Has:
						cnt.Inc("auction/reimport:collateral-forward-phase-with-bid")
					case a.Kind == 2:
						cnt.Inc("auction/reimport:collateral-without-bid")
					case a.Kind == 1 && a.Has:
						cnt.Inc("auction/reimport:debt-with-bid")
					case a.Kind == 0 && a.Has:
						cnt.Inc("auction/reimport:surplus-with-bid")
					}
				}
				if len(prev.aucs) > 1 {
					cnt.Inc("auction/reimport:several-auctions")
				}
				if len(g.dead) > 0 {
					cnt.Inc("auction/reimport:after-closes")
				}
			}
		} else {
			parts = w.oracleParts(prev, op)
			cls, _ = w.exec(op)
			if cnt != nil {
				cnt.Inc("auction/op:" + op.Kind + ":" + cls.String())
			}
		}
		after := w.snap(w.ctx)
		done = append(done, op)
		for _, b := range prev.aucs {
			if after.find(b.ID) == nil {
				g.dead = append(g.dead, b.ID)
			}
		}
		if cls == ClassOk && op.Kind == "reimport" && len(prev.aucs) > 0 {
			out.Nontriv = true
		}
		if coq == "" {
			coq = genesisOpCoq(op, parts)
		}
		steps = append(steps, fmt.Sprintf("(%s,\n    %s)", coq, obsCoq(cls, prev, after)))
		if fl == nil {
			if f == nil && op.Kind != "reimport" && op.Kind != "probe" {
				f = w.opMonitor(op, cls, prev, after, nil, splits)
			}
			if f == nil && cls == ClassOk && op.Kind != "probe" {
				f = w.exportValidates()
			}
			if f == nil && cls == ClassOk {
				if f = w.stateMonitor(w.ctx, after); f != nil && op.Kind == "reimport" {
					f = mk("auction-invariants-after-reimport:"+f.pred, f.sig, "%s", f.detail)
				}
			}
			if f == nil && op.Kind == "reimport" && cls == ClassOk {
				if d := snapEqual(prev, after); d != "" {
					f = mk("auction-state-identical-after-reimport", "auction-state-differs-after-reimport", "%s", d)
				}
			}
			if f != nil {
				sig := "C14a:auction-" + strings.TrimPrefix(f.sig, "auction-")
				if strings.HasPrefix(f.sig, "invalid-genesis-imported:") || strings.HasPrefix(f.sig, "genesis-imported-over-") {
					sig = f.sig
				}
				fl = &Failure{History: idx, Step: i, Predicate: f.pred, Signature: sig, Detail: f.detail}
			}
		}
		prev = after
	}
	out.Fail = fl
	out.NOps = n
	out.Coq = fmt.Sprintf("mkGHist %s\n  %s", header, List(steps))
	out.Key = string(MustJSON(done))
	return out, p, done
}

// GenesisPart runs one generated history and shrinks a failure.
func GenesisPart(seed uint64, i, n int, cnt *Counters) GenesisPartOut {
	ro, p, ops := GenesisRun(seed, i, n, nil, nil, cnt)
	if ro.Fail != nil {
		sig := ro.Fail.Signature
		fails := func(cand []Op) bool {
			r2, _, _ := GenesisRun(seed, i, 0, &p, cand, nil)
			return r2.Fail != nil && r2.Fail.Signature == sig
		}
		small := Shrink(ops[:ro.Fail.Step+1], fails)
		r2, _, _ := GenesisRun(seed, i, 0, &p, small, nil)
		if r2.Fail != nil {
			r2.Fail.History = i
			r2.Fail.Replay = MustJSON(GenesisHist{"auction", seed, i, p, small})
			ro.Fail = r2.Fail
		} else {
			ro.Fail.Replay = MustJSON(GenesisHist{"auction", seed, i, p, ops[:ro.Fail.Step+1]})
		}
	}
	ro.Desc = GenesisHist{"auction", seed, i, p, ops}
	return ro
}

func GenesisReplay(raw json.RawMessage, cnt *Counters) (GenesisPartOut, error) {
	var h GenesisHist
	if err := json.Unmarshal(raw, &h); err != nil {
		return GenesisPartOut{}, err
	}
	ro, _, _ := GenesisRun(h.Seed, h.Idx, 0, &h.Params, h.Ops, cnt)
	if ro.Fail != nil {
		ro.Fail.Replay = MustJSON(h)
	}
	ro.Desc = h
	return ro, nil
}

// GenesisWanted lists the states in which a re-import must have happened at least once per run.
var GenesisWanted = []string{
	"auction/reimport:collateral-reverse-phase-with-bid", "auction/reimport:collateral-forward-phase-with-bid",
	"auction/reimport:debt-with-bid", "auction/reimport:surplus-with-bid", "auction/reimport:several-auctions",
	"auction/reimport:after-closes", "auction/probe:bank-perturbed:init=panic",
}
