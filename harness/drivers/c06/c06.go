package c06

// C06 — x/auction.  Histories of Start{Surplus,Debt,Collateral}Auction /
// PlaceBid / CloseAuction / BeginBlocker on the real keeper over the real
// x/bank, with monitors stating the property on the implementation and Coq
// case files for Model/Auction.v; plus the pure largest-remainder split through
// the verif hook (split.go).

import (
	. "kavaverif/lib"

	"bytes"
	"encoding/json"
	"fmt"
	"math/big"
	"os"
	"sort"
	"strings"
	"time"

	sdkmath "cosmossdk.io/math"
	"github.com/cosmos/cosmos-sdk/store/prefix"
	sdk "github.com/cosmos/cosmos-sdk/types"

	"github.com/kava-labs/kava/app"
	"github.com/kava-labs/kava/x/auction"
	auctionkeeper "github.com/kava-labs/kava/x/auction/keeper"
	auctiontypes "github.com/kava-labs/kava/x/auction/types"
)

func init() { Registry["C06"] = runC06 }

var denoms = []string{"debt", "ukava", "usdx", "xrp"}

const (
	nUsers  = 6 // 0..3 ordinary, 4 rich, 5 poor
	iLiq    = 6 // liquidator: minter + burner
	iHard   = 7 // hard: minter only (blocked address)
	iSwap   = 8 // swap: no permissions
	iAuc    = 9 // the auction module account
	iNobody = 10
	iNoMod  = 11 // a name that is not a module account
	nAcc    = 12
	defLen  = 40
)

var modName = map[int]string{iLiq: "liquidator", iHard: "hard", iSwap: "swap", iAuc: "auction", iNoMod: "nomodule",
	0: "user0", 1: "user1", 2: "user2", 3: "user3", 4: "user4", 5: "user5", iNobody: ""}

// DistantFuture as Unix seconds
var distantFuture = auctiontypes.DistantFuture.Unix()

type Op struct {
	Kind   string   `json:"kind"` // ssurplus | sdebt | scoll | bid | close | bb
	T      int64    `json:"t,omitempty"`
	ID     uint64   `json:"id,omitempty"`
	A      int      `json:"a,omitempty"` // seller / buyer / bidder
	LotD   int      `json:"lot_d,omitempty"`
	Lot    string   `json:"lot,omitempty"`
	BidD   int      `json:"bid_d,omitempty"`
	Bid    string   `json:"bid,omitempty"` // debt auction: the fixed bid; collateral: max bid
	DebtD  int      `json:"debt_d,omitempty"`
	Debt   string   `json:"debt,omitempty"`
	RAddrs []int    `json:"raddrs,omitempty"`
	RW     []string `json:"rw,omitempty"`
	D      int      `json:"d,omitempty"` // denom of the bid coin
	X      string   `json:"x,omitempty"` // amount of the bid coin
	// bid only: deliver as a transaction would -- MsgPlaceBid.ValidateBasic, then the real msg
	// server -- instead of calling the keeper (set for every other generated bid)
	Msg bool `json:"msg,omitempty"`
}

type Params struct {
	Durs [3]int64  `json:"durs"` // max, forward, reverse (seconds)
	Incs [3]string `json:"incs"` // surplus, debt, collateral (Dec mantissas)
}

type Auc struct {
	ID      uint64
	Kind    int // 0 surplus, 1 debt, 2 collateral
	Init    int
	LotD    int
	Lot     *big.Int
	Bidder  int
	BidD    int
	Bid     *big.Int
	Has     bool
	End     int64
	MaxEnd  int64
	DebtD   int
	Debt    *big.Int
	MaxBid  *big.Int
	RAddrs  []int
	RW      []*big.Int
	problem string
}

type Snap struct {
	bal     [][]*big.Int
	aucs    []Auc
	idx     [][2]int64 // (end, id) raw, in store order
	next    uint64
	problem string // anything that could not be projected (unknown address, sub-second time, index value != key id)
	allAuc  sdk.Coins
}

type World struct {
	tApp   app.TestApp
	ctx    sdk.Context
	k      auctionkeeper.Keeper
	addrs  []sdk.AccAddress
	aidx   map[string]int
	params Params
}

func bi(s string) *big.Int {
	x, ok := new(big.Int).SetString(s, 10)
	if !ok {
		return new(big.Int)
	}
	return x
}

func decFromMant(m *big.Int) sdk.Dec { return sdkmath.LegacyNewDecFromBigIntWithPrec(m, 18) }

var t0 = GenesisTime.Unix() + 100

func setup(p Params) *World {
	tApp := NewApp()
	all := Addrs(nUsers + 1)
	cdc := tApp.AppCodec()
	b := app.NewAuthBankGenesisBuilder()
	std := func(n int64) sdk.Coins {
		return sdk.NewCoins(sdk.NewInt64Coin("debt", n), sdk.NewInt64Coin("ukava", n), sdk.NewInt64Coin("usdx", n), sdk.NewInt64Coin("xrp", n))
	}
	huge := sdkmath.NewIntFromBigInt(new(big.Int).Lsh(big.NewInt(1), 180))
	hugeCoins := sdk.NewCoins(sdk.NewCoin("debt", huge), sdk.NewCoin("ukava", huge), sdk.NewCoin("usdx", huge), sdk.NewCoin("xrp", huge))
	for i := 0; i < 4; i++ {
		b.WithSimpleAccount(all[i], std(1_000_000_000))
	}
	b.WithSimpleAccount(all[4], hugeCoins)
	b.WithSimpleAccount(all[5], std(60))
	tApp.InitializeFromGenesisStatesWithTime(GenesisTime, b.BuildMarshalled(cdc))
	ctx := NewCtx(tApp, 2, time.Unix(t0, 0).UTC())
	ak := tApp.GetAccountKeeper()
	addrs := make([]sdk.AccAddress, nAcc)
	copy(addrs, all[:nUsers])
	for _, i := range []int{iLiq, iHard, iSwap, iAuc} {
		addrs[i] = ak.GetModuleAccount(ctx, modName[i]).GetAddress()
	}
	addrs[iNobody] = sdk.AccAddress{}
	addrs[iNoMod] = all[nUsers]
	for _, m := range []string{"liquidator", "hard"} {
		if err := tApp.FundModuleAccount(ctx, m, hugeCoins); err != nil {
			panic(err)
		}
	}
	if err := tApp.FundModuleAccount(ctx, "swap", std(1000)); err != nil {
		panic(err)
	}
	k := tApp.GetAuctionKeeper()
	k.SetParams(ctx, auctiontypes.NewParams(
		time.Duration(p.Durs[0])*time.Second, time.Duration(p.Durs[1])*time.Second, time.Duration(p.Durs[2])*time.Second,
		decFromMant(bi(p.Incs[0])), decFromMant(bi(p.Incs[1])), decFromMant(bi(p.Incs[2]))))
	w := &World{tApp: tApp, ctx: ctx, k: k, addrs: addrs, aidx: map[string]int{}, params: p}
	for i, a := range addrs {
		w.aidx[string(a)] = i
	}
	return w
}

func denomIdx(d string) int {
	for i, x := range denoms {
		if x == d {
			return i
		}
	}
	return -1
}

func (w *World) addrIdx(a sdk.AccAddress) int {
	if i, ok := w.aidx[string(a)]; ok {
		return i
	}
	return -1
}

func (w *World) modIdx(name string) int {
	for i, n := range modName {
		if n == name && i >= nUsers && i != iNobody {
			return i
		}
	}
	return -1
}

func secs(t time.Time, prob *string) int64 {
	if t.Nanosecond() != 0 {
		*prob = "sub-second time " + t.String()
	}
	return t.Unix()
}

func (w *World) projAuction(a auctiontypes.Auction) Auc {
	out := Auc{ID: a.GetID(), Init: w.modIdx(a.GetInitiator()), Debt: new(big.Int), MaxBid: new(big.Int)}
	lot, bid := a.GetLot(), a.GetBid()
	out.LotD, out.Lot = denomIdx(lot.Denom), lot.Amount.BigInt()
	out.BidD, out.Bid = denomIdx(bid.Denom), bid.Amount.BigInt()
	out.Bidder = w.addrIdx(a.GetBidder())
	out.End = secs(a.GetEndTime(), &out.problem)
	out.MaxEnd = secs(a.GetMaxEndTime(), &out.problem)
	switch au := a.(type) {
	case *auctiontypes.SurplusAuction:
		out.Kind, out.Has = 0, au.HasReceivedBids
	case *auctiontypes.DebtAuction:
		out.Kind, out.Has = 1, au.HasReceivedBids
		out.DebtD, out.Debt = denomIdx(au.CorrespondingDebt.Denom), au.CorrespondingDebt.Amount.BigInt()
	case *auctiontypes.CollateralAuction:
		out.Kind, out.Has = 2, au.HasReceivedBids
		out.DebtD, out.Debt = denomIdx(au.CorrespondingDebt.Denom), au.CorrespondingDebt.Amount.BigInt()
		out.MaxBid = au.MaxBid.Amount.BigInt()
		if au.MaxBid.Denom != bid.Denom {
			out.problem = "max bid denom differs from bid denom"
		}
		for _, ad := range au.LotReturns.Addresses {
			out.RAddrs = append(out.RAddrs, w.addrIdx(ad))
		}
		for _, wt := range au.LotReturns.Weights {
			out.RW = append(out.RW, wt.BigInt())
		}
	default:
		out.problem = "unknown auction type"
	}
	if out.Init < 0 || out.LotD < 0 || out.BidD < 0 || out.DebtD < 0 || out.Bidder < 0 {
		out.problem = "unprojectable field"
	}
	for _, x := range out.RAddrs {
		if x < 0 {
			out.problem = "unprojectable return address"
		}
	}
	return out
}

// snap reads the observable state: balances, the auction store and the
// by-time index RAW (iterating the store prefixes), the next id.
func (w *World) snap(ctx sdk.Context) *Snap {
	bk := w.tApp.GetBankKeeper()
	s := &Snap{}
	for a := 0; a < nAcc; a++ {
		row := make([]*big.Int, len(denoms))
		for d, dn := range denoms {
			row[d] = bk.GetBalance(ctx, w.addrs[a], dn).Amount.BigInt()
		}
		s.bal = append(s.bal, row)
	}
	s.allAuc = bk.GetAllBalances(ctx, w.addrs[iAuc])
	key := w.tApp.GetKVStoreKey(auctiontypes.StoreKey)
	ast := prefix.NewStore(ctx.KVStore(key), auctiontypes.AuctionKeyPrefix)
	it := ast.Iterator(nil, nil)
	for ; it.Valid(); it.Next() {
		a := w.k.MustUnmarshalAuction(it.Value())
		pa := w.projAuction(a)
		if len(it.Key()) != 8 || auctiontypes.Uint64FromBytes(it.Key()) != pa.ID {
			s.problem = fmt.Sprintf("auction stored under key %x has id %d", it.Key(), pa.ID)
		}
		if pa.problem != "" {
			s.problem = fmt.Sprintf("auction %d: %s", pa.ID, pa.problem)
		}
		s.aucs = append(s.aucs, pa)
	}
	it.Close()
	ist := prefix.NewStore(ctx.KVStore(key), auctiontypes.AuctionByTimeKeyPrefix)
	it2 := ist.Iterator(nil, nil)
	for ; it2.Valid(); it2.Next() {
		k := it2.Key()
		if len(k) < 9 || len(it2.Value()) != 8 {
			s.problem = fmt.Sprintf("malformed index entry %x -> %x", k, it2.Value())
			continue
		}
		tm, err := sdk.ParseTimeBytes(k[:len(k)-8])
		if err != nil {
			s.problem = "index key time: " + err.Error()
			continue
		}
		id := auctiontypes.Uint64FromBytes(k[len(k)-8:])
		if !bytes.Equal(k[len(k)-8:], it2.Value()) {
			s.problem = fmt.Sprintf("index entry %x has value %x", k, it2.Value())
		}
		s.idx = append(s.idx, [2]int64{secs(tm, &s.problem), int64(id)})
	}
	it2.Close()
	nx, err := w.k.GetNextAuctionID(ctx)
	if err != nil {
		s.problem = "next id: " + err.Error()
	}
	s.next = nx
	return s
}

func (s *Snap) find(id uint64) *Auc {
	for i := range s.aucs {
		if s.aucs[i].ID == id {
			return &s.aucs[i]
		}
	}
	return nil
}

func coin(d int, amt string) sdk.Coin {
	return sdk.Coin{Denom: denoms[d], Amount: sdkmath.NewIntFromBigInt(bi(amt))}
}

func (w *World) ctxAt(t int64) sdk.Context { return w.ctx.WithBlockTime(time.Unix(t, 0).UTC()) }

// oracleParts returns what splitIntIntoWeightedBuckets gives for a reverse
// collateral bid on the current record (nil when the routine would not reach it).
func (w *World) oracleParts(s *Snap, op Op) []*big.Int {
	if op.Kind != "bid" {
		return nil
	}
	a := s.find(op.ID)
	if a == nil || a.Kind != 2 || a.Bid.Cmp(a.MaxBid) != 0 || len(a.RW) == 0 {
		return nil
	}
	amt := new(big.Int).Sub(a.Lot, bi(op.X))
	if amt.Sign() < 0 {
		return nil
	}
	return splitHook(amt, a.RW)
}

func splitHook(amt *big.Int, ws []*big.Int) (out []*big.Int) {
	defer func() {
		if recover() != nil {
			out = nil
		}
	}()
	b := make([]sdkmath.Int, len(ws))
	for i, x := range ws {
		b[i] = sdkmath.NewIntFromBigInt(x)
	}
	for _, p := range auctionkeeper.VerifSplitIntIntoWeightedBuckets(sdkmath.NewIntFromBigInt(amt), b) {
		out = append(out, p.BigInt())
	}
	return out
}

func (w *World) exec(op Op) (Class, error) {
	ctx := w.ctxAt(op.T)
	if op.Kind == "ssurplus" || op.Kind == "sdebt" || op.Kind == "scoll" {
		ctx = w.ctx
	}
	return Atomically(ctx, func(ctx sdk.Context) error {
		switch op.Kind {
		case "ssurplus":
			_, err := w.k.StartSurplusAuction(ctx, modName[op.A], coin(op.LotD, op.Lot), denoms[op.BidD])
			return err
		case "sdebt":
			_, err := w.k.StartDebtAuction(ctx, modName[op.A], coin(op.BidD, op.Bid), coin(op.LotD, op.Lot), coin(op.DebtD, op.Debt))
			return err
		case "scoll":
			ra := make([]sdk.AccAddress, len(op.RAddrs))
			for i, x := range op.RAddrs {
				ra[i] = w.addrs[x]
			}
			rw := make([]sdkmath.Int, len(op.RW))
			for i, x := range op.RW {
				rw[i] = sdkmath.NewIntFromBigInt(bi(x))
			}
			_, err := w.k.StartCollateralAuction(ctx, modName[op.A], coin(op.LotD, op.Lot), coin(op.BidD, op.Bid), ra, rw, coin(op.DebtD, op.Debt))
			return err
		case "bid":
			if op.Msg {
				m := auctiontypes.NewMsgPlaceBid(op.ID, w.addrs[op.A].String(), coin(op.D, op.X))
				if err := m.ValidateBasic(); err != nil {
					return err
				}
				_, err := auctionkeeper.NewMsgServerImpl(w.k).PlaceBid(sdk.WrapSDKContext(ctx), &m)
				return err
			}
			return w.k.PlaceBid(ctx, op.ID, w.addrs[op.A], coin(op.D, op.X))
		case "close":
			return w.k.CloseAuction(ctx, op.ID)
		case "bb":
			auction.BeginBlocker(ctx, w.k)
			return nil
		}
		panic("unknown op kind " + op.Kind)
	})
}

// minInc = max(1, NewDecFromInt(v).Mul(inc).RoundInt()) with the real library
func minInc(incMant string, v *big.Int) *big.Int {
	r := sdk.NewDecFromInt(sdkmath.NewIntFromBigInt(v)).Mul(decFromMant(bi(incMant))).RoundInt().BigInt()
	if r.Cmp(big.NewInt(1)) < 0 {
		return big.NewInt(1)
	}
	return r
}

// ------------------------------------------------------------ generation

var incChoices = []string{"50000000000000000", "50000000000000000", "10000000000000000", "0", "500000000000000000",
	"1", "1000000000000000000", "333333333333333333", "25000000000000000", "1500000000000000000"}

func genParams(r *Rng) Params {
	var p Params
	p.Durs[0] = []int64{1000, 1000, 600, 86400, 50, 300, 0}[r.Intn(7)]
	pick := func() int64 {
		d := []int64{300, 100, 10, 1, 0, 600, 1000, 40}[r.Intn(8)]
		if d > p.Durs[0] {
			d = p.Durs[0]
		}
		return d
	}
	p.Durs[1], p.Durs[2] = pick(), pick()
	for i := range p.Incs {
		p.Incs[i] = incChoices[r.Intn(len(incChoices))]
	}
	return p
}

func genAmount(r *Rng) *big.Int {
	x := new(big.Int)
	switch r.Pick(25, 25, 30, 12, 8) {
	case 0:
		x.SetInt64(int64(1 + r.Intn(20)))
	case 1:
		x.Add(Pow10(1+r.Intn(8)), big.NewInt(int64(r.Intn(5)-2)))
	case 2:
		x.SetInt64(1 + r.Int63n(10_000_000))
	case 3:
		x.SetInt64(1 + r.Int63n(400))
	default:
		x = r.BigBits(40 + r.Intn(130))
	}
	if x.Sign() <= 0 {
		x.SetInt64(1)
	}
	return x
}

func genWeights(r *Rng, n int) []string {
	out := make([]string, n)
	mode := r.Intn(5)
	for i := range out {
		var x *big.Int
		switch mode {
		case 0:
			x = big.NewInt(int64(r.Intn(7)))
		case 1:
			x = big.NewInt(1) // all equal: ties
		case 2:
			x = big.NewInt(int64(1 + r.Intn(3)))
		case 3:
			x = new(big.Int).Add(Pow10(1+r.Intn(9)), big.NewInt(int64(r.Intn(3))))
		default:
			x = r.BigBits(1 + r.Intn(60))
		}
		out[i] = x.String()
	}
	return out
}

type gen struct {
	r     *Rng
	w     *World
	now   int64
	dead  []uint64 // ids already closed
	cnt   *Counters
	nOpen int
}

func (g *gen) user() int {
	return []int{0, 1, 2, 3, 0, 1, 2, 4, 4, 5}[g.r.Intn(10)]
}

func near(r *Rng, x *big.Int) *big.Int {
	return new(big.Int).Add(x, big.NewInt(int64(r.Intn(5)-2)))
}

func (g *gen) genStart(s *Snap) Op {
	r := g.r
	seller := iLiq
	if r.Chance(1, 14) {
		seller = []int{iHard, iSwap, iNoMod, iHard}[r.Intn(4)]
	}
	noBurn := seller == iHard && !r.Chance(1, 4) // a surplus auction of a module without burn permission panics on every bid

	switch r.Pick(30, 25, 45) {
	case 0:
		if noBurn {
			seller = iLiq
		}
		op := Op{Kind: "ssurplus", A: seller, LotD: 2, Lot: genAmount(r).String(), BidD: 1}
		if r.Chance(1, 10) {
			op.LotD, op.BidD = r.Intn(4), r.Intn(4)
		}
		if r.Chance(1, 30) {
			op.Lot = []string{"0", "-5"}[r.Intn(2)]
		}
		return op
	case 1:
		bid := genAmount(r)
		debt := new(big.Int).Set(bid)
		switch r.Intn(4) {
		case 0:
			debt = genAmount(r)
		case 1:
			debt = near(r, bid)
		}
		if debt.Sign() < 0 {
			debt.SetInt64(0)
		}
		op := Op{Kind: "sdebt", A: seller, BidD: 2, Bid: bid.String(), LotD: 1, Lot: genAmount(r).String(), DebtD: 0, Debt: debt.String()}
		if r.Chance(1, 12) {
			op.BidD, op.LotD, op.DebtD = r.Intn(4), r.Intn(4), r.Intn(4)
		}
		if r.Chance(1, 30) {
			op.Debt = []string{"0", "-1"}[r.Intn(2)]
		}
		return op
	default:
		maxbid := genAmount(r)
		debt := new(big.Int).Set(maxbid)
		switch r.Intn(4) {
		case 0:
			debt = genAmount(r)
		case 1:
			debt = near(r, maxbid)
		}
		if debt.Sign() < 0 {
			debt.SetInt64(0)
		}
		n := 1 + r.Intn(4)
		ra := make([]int, n)
		for i := range ra {
			ra[i] = r.Intn(4)
			if r.Chance(1, 40) {
				ra[i] = []int{iHard, 5, 4}[r.Intn(3)]
			}
		}
		op := Op{Kind: "scoll", A: seller, LotD: 3, Lot: genAmount(r).String(), BidD: 2, Bid: maxbid.String(), RAddrs: ra, RW: genWeights(r, n), DebtD: 0, Debt: debt.String()}
		if r.Chance(1, 12) {
			op.BidD, op.LotD, op.DebtD = r.Intn(4), r.Intn(4), r.Intn(4)
		}
		if r.Chance(1, 25) { // malformed weights
			switch r.Intn(5) {
			case 0:
				op.RW = op.RW[:len(op.RW)-1]
			case 1:
				for i := range op.RW {
					op.RW[i] = "0"
				}
			case 2:
				op.RW[0] = "-1"
			case 3:
				op.RAddrs[0] = iNobody
			default:
				op.RAddrs, op.RW = nil, nil
			}
		}
		if r.Chance(1, 40) {
			op.Bid = "0" // max bid 0: the auction starts in the reverse phase
		}
		return op
	}
}

// live auctions: those that still accept bids at time t
func (g *gen) pickAuction(s *Snap, t int64, wantLive bool) *Auc {
	var c []*Auc
	for i := range s.aucs {
		if !wantLive || s.aucs[i].End >= t {
			c = append(c, &s.aucs[i])
		}
	}
	if len(c) == 0 {
		return nil
	}
	return c[g.r.Intn(len(c))]
}

func (g *gen) genBid(s *Snap) Op {
	r := g.r
	p := g.w.params
	a := g.pickAuction(s, g.now, !r.Chance(1, 12))
	if a == nil {
		return g.genStart(s)
	}
	op := Op{Kind: "bid", T: g.now, ID: a.ID}
	// bidder: the standing one (re-bid) or somebody else
	op.A = g.user()
	if a.Has && a.Bidder < nUsers && r.Chance(1, 4) {
		op.A = a.Bidder
	}
	if r.Chance(1, 120) {
		op.A = []int{iHard, iNobody, iLiq}[r.Intn(3)]
	}
	// time: mostly now; sometimes exactly at / around the end time
	if a.Has && r.Chance(1, 6) {
		op.T = a.End + int64(r.Intn(3)-1)
	}
	reverse := a.Kind == 1 || (a.Kind == 2 && a.Bid.Cmp(a.MaxBid) == 0)
	x := new(big.Int)
	if !reverse {
		inc := p.Incs[0]
		if a.Kind == 2 {
			inc = p.Incs[2]
		}
		op.D = a.BidD
		minNew := new(big.Int).Add(a.Bid, minInc(inc, a.Bid))
		if a.Kind == 2 && minNew.Cmp(a.MaxBid) > 0 {
			minNew.Set(a.MaxBid)
		}
		switch r.Pick(25, 8, 10, 20, 12, 5, 4, 4, 12) {
		case 0:
			x.Set(minNew)
		case 1:
			x.Sub(minNew, big.NewInt(1))
		case 2:
			x.Add(minNew, big.NewInt(1))
		case 3:
			x.Add(minNew, big.NewInt(int64(r.Intn(50))))
		case 4:
			if a.Kind == 2 {
				x.Set(a.MaxBid)
			} else {
				x.Mul(minNew, big.NewInt(2))
			}
		case 5:
			if a.Kind == 2 {
				x.Add(a.MaxBid, big.NewInt(1))
			} else {
				x.Set(a.Bid)
			}
		case 6:
			x.Set(a.Bid)
		case 7:
			x.SetInt64(int64(r.Intn(3) - 1))
		default:
			x.Add(minNew, genAmount(r))
			if a.Kind == 2 && x.Cmp(a.MaxBid) > 0 && r.Chance(3, 4) {
				x.Sub(a.MaxBid, big.NewInt(int64(r.Intn(3))))
			}
		}
	} else {
		inc := p.Incs[1]
		if a.Kind == 2 {
			inc = p.Incs[2]
		}
		op.D = a.LotD
		maxNew := new(big.Int).Sub(a.Lot, minInc(inc, a.Lot))
		switch r.Pick(28, 10, 10, 20, 10, 5, 5, 12) {
		case 0:
			x.Set(maxNew)
		case 1:
			x.Add(maxNew, big.NewInt(1))
		case 2:
			x.Sub(maxNew, big.NewInt(1))
		case 3:
			x.Sub(maxNew, big.NewInt(int64(r.Intn(30))))
		case 4:
			x.Div(a.Lot, big.NewInt(2))
		case 5:
			x.SetInt64(0)
		case 6:
			x.SetInt64(int64(-1 - r.Intn(2)))
		default:
			if a.Lot.Sign() > 0 {
				x.Mod(r.BigBits(200), a.Lot)
			}
		}
		if x.Sign() < 0 && !r.Chance(1, 5) {
			x.SetInt64(0)
		}
	}
	op.X = x.String()
	if r.Chance(1, 25) {
		op.D = r.Intn(4) // possibly the wrong denom
	}
	if r.Chance(1, 40) {
		op.ID = s.next + uint64(r.Intn(3)) // unknown id
	}
	return op
}

func (g *gen) timeNear(s *Snap) int64 {
	r := g.r
	var withBids []*Auc
	for i := range s.aucs {
		if s.aucs[i].Has {
			withBids = append(withBids, &s.aucs[i])
		}
	}
	if len(withBids) > 0 && r.Chance(4, 5) {
		a := withBids[r.Intn(len(withBids))]
		return []int64{a.End - 1, a.End, a.End + 1, a.MaxEnd, a.MaxEnd + 1, a.End, a.End - 1}[r.Intn(7)]
	}
	return g.now + int64(r.Intn(int(g.w.params.Durs[1])+2))
}

func (g *gen) genClose(s *Snap) Op {
	r := g.r
	op := Op{Kind: "close", T: g.now}
	switch {
	case len(g.dead) > 0 && r.Chance(1, 5):
		op.ID = g.dead[r.Intn(len(g.dead))] // a second close
	case r.Chance(1, 20) || len(s.aucs) == 0:
		op.ID = s.next + uint64(r.Intn(2))
	default:
		a := s.aucs[r.Intn(len(s.aucs))]
		op.ID = a.ID
		if a.Has {
			op.T = []int64{a.End - 1, a.End, a.End + 1, a.End, a.MaxEnd, a.End + 5}[r.Intn(6)]
		}
	}
	return op
}

func (g *gen) genOp(s *Snap) Op {
	r := g.r
	// block time moves forward a little between operations
	if r.Chance(1, 2) {
		g.now += int64(r.Intn(int(g.w.params.Durs[2])/3 + 3))
	}
	open := len(s.aucs)
	wStart := 20
	if open == 0 {
		wStart = 80
	} else if open >= 6 {
		wStart = 2
	}
	var op Op
	switch r.Pick(wStart, 52, 10, 18) {
	case 0:
		op = g.genStart(s)
	case 1:
		op = g.genBid(s)
	case 2:
		op = g.genClose(s)
	default:
		op = Op{Kind: "bb", T: g.timeNear(s)}
		if r.Chance(1, 200) {
			op.T = distantFuture + int64(r.Intn(2)) - int64(r.Intn(2))
		}
	}
	if op.T > g.now && op.T < distantFuture && !r.Chance(1, 30) {
		g.now = op.T // time does not normally go backwards
	}
	return op
}

// ------------------------------------------------------------ monitors

func eq(a, b *big.Int) bool { return a.Cmp(b) == 0 }

// expected module holdings computed from the records, independently of
// GetModuleAccountCoins
func expectedHoldings(s *Snap) []*big.Int {
	h := make([]*big.Int, len(denoms))
	for i := range h {
		h[i] = new(big.Int)
	}
	for _, a := range s.aucs {
		switch a.Kind {
		case 0:
			h[a.LotD].Add(h[a.LotD], a.Lot)
		case 1:
			h[a.DebtD].Add(h[a.DebtD], a.Debt)
		case 2:
			h[a.LotD].Add(h[a.LotD], a.Lot)
			h[a.DebtD].Add(h[a.DebtD], a.Debt)
		}
	}
	return h
}

type fail struct{ pred, sig, detail string }

func mk(pred, sig, format string, args ...any) *fail {
	return &fail{pred, sig, fmt.Sprintf(format, args...)}
}

// stateMonitor: custody equation, index coherence, end <= max end, the keeper's own invariants
func (w *World) stateMonitor(ctx sdk.Context, s *Snap) *fail {
	if s.problem != "" {
		return mk("projectable-state", "unprojectable-state", "%s", s.problem)
	}
	h := expectedHoldings(s)
	for d := range denoms {
		if !eq(h[d], s.bal[iAuc][d]) {
			return mk("custody-equation", "module-balance-differs-from-open-auctions", "denom %s: module holds %s, open auctions account for %s", denoms[d], s.bal[iAuc][d], h[d])
		}
	}
	for _, c := range s.allAuc {
		if denomIdx(c.Denom) < 0 {
			return mk("custody-equation", "module-holds-untracked-denom", "%s", c)
		}
	}
	// every stored auction appears in the index exactly once, and nothing else does
	want := make([][2]int64, 0, len(s.aucs))
	for _, a := range s.aucs {
		want = append(want, [2]int64{a.End, int64(a.ID)})
	}
	sort.Slice(want, func(i, j int) bool {
		if want[i][0] != want[j][0] {
			return want[i][0] < want[j][0]
		}
		return uint64(want[i][1]) < uint64(want[j][1])
	})
	if len(want) != len(s.idx) {
		return mk("index-coherence", "index-size-differs", "stored auctions %d, index entries %d (%v vs %v)", len(want), len(s.idx), want, s.idx)
	}
	for i := range want {
		if want[i] != s.idx[i] {
			return mk("index-coherence", "index-entry-differs", "position %d: expected (end,id)=%v, index has %v", i, want[i], s.idx[i])
		}
	}
	for i, a := range s.aucs {
		if a.End > a.MaxEnd {
			return mk("end-time-capped", "end-after-max-end", "auction %d: end %d > max end %d", a.ID, a.End, a.MaxEnd)
		}
		if a.Lot.Sign() < 0 || a.Bid.Sign() < 0 || a.Debt.Sign() < 0 {
			return mk("valid-auctions", "negative-amount-stored", "auction %d", a.ID)
		}
		if a.ID >= s.next {
			return mk("valid-auctions", "id-not-below-next-id", "auction %d, next id %d", a.ID, s.next)
		}
		if i > 0 && s.aucs[i-1].ID >= a.ID {
			return mk("valid-auctions", "duplicate-id", "auction %d", a.ID)
		}
	}
	for _, inv := range []sdk.Invariant{auctionkeeper.ModuleAccountInvariants(w.k), auctionkeeper.ValidAuctionInvariant(w.k), auctionkeeper.ValidIndexInvariant(w.k)} {
		if msg, broken := inv(ctx); broken {
			return mk("keeper-invariants", "keeper-invariant-broken", "%s", strings.TrimSpace(msg))
		}
	}
	return nil
}

func snapEqual(a, b *Snap) string {
	for i := range a.bal {
		for d := range a.bal[i] {
			if !eq(a.bal[i][d], b.bal[i][d]) {
				return fmt.Sprintf("balance of account %d denom %s", i, denoms[d])
			}
		}
	}
	if len(a.aucs) != len(b.aucs) || len(a.idx) != len(b.idx) || a.next != b.next {
		return "stores"
	}
	for i := range a.aucs {
		if aucCoq(a.aucs[i]) != aucCoq(b.aucs[i]) {
			return fmt.Sprintf("auction %d", a.aucs[i].ID)
		}
	}
	for i := range a.idx {
		if a.idx[i] != b.idx[i] {
			return "index"
		}
	}
	return ""
}

// user balance deltas: accounts 0..nUsers-1 are touched only by the flows named in the property
func userDeltas(before, after *Snap) [][]*big.Int {
	out := make([][]*big.Int, nUsers)
	for u := 0; u < nUsers; u++ {
		out[u] = make([]*big.Int, len(denoms))
		for d := range denoms {
			out[u][d] = new(big.Int).Sub(after.bal[u][d], before.bal[u][d])
		}
	}
	return out
}

func zeroDeltas() [][]*big.Int {
	out := make([][]*big.Int, nUsers)
	for u := range out {
		out[u] = make([]*big.Int, len(denoms))
		for d := range out[u] {
			out[u][d] = new(big.Int)
		}
	}
	return out
}

func addTo(m [][]*big.Int, who, d int, x *big.Int) {
	if who >= 0 && who < nUsers {
		m[who][d].Add(m[who][d], x)
	}
}

// opMonitor states the clauses of the property about one operation directly on
// the observed states before and after it.
func (w *World) opMonitor(op Op, cls Class, before, after *Snap, cnt *Counters, splits map[string]bool) *fail {
	mark := func(k string) {
		if splits != nil {
			splits[k] = true
		}
		if cnt != nil {
			cnt.Inc("split:" + k)
		}
	}
	if cls != ClassOk {
		if d := snapEqual(before, after); d != "" {
			return mk("failed-op-no-change", "failed-op-changed-state", "%s changed", d)
		}
		if op.Kind == "bid" {
			if a := before.find(op.ID); a != nil && op.T > a.End {
				mark("bid:after-end-refused")
			}
		}
		if op.Kind == "close" {
			if a := before.find(op.ID); a != nil && op.T < a.End {
				mark("close:before-end-refused")
			}
			if before.find(op.ID) == nil && op.ID < before.next {
				mark("close:second-close-refused")
			}
		}
		return nil
	}
	p := w.params
	switch op.Kind {
	case "ssurplus", "sdebt", "scoll":
		a := after.find(before.next)
		if a == nil || after.next != before.next+1 || len(after.aucs) != len(before.aucs)+1 {
			return mk("start-stores-new-auction", "start-did-not-store", "next id %d -> %d", before.next, after.next)
		}
		if a.End != distantFuture || a.MaxEnd != distantFuture || a.Has {
			return mk("start-stores-new-auction", "start-end-time", "end %d", a.End)
		}
		mark("start:" + op.Kind)
	case "bid":
		a := before.find(op.ID)
		b := after.find(op.ID)
		if a == nil || b == nil {
			return mk("bid-on-stored-auction", "bid-accepted-on-missing-auction", "id %d", op.ID)
		}
		if op.T > a.End {
			return mk("bid-only-before-end", "bid-accepted-after-end", "t %d > end %d", op.T, a.End)
		}
		if op.T == a.End {
			mark("bid:at-end-accepted")
		}
		x := bi(op.X)
		reverse := a.Kind == 1 || (a.Kind == 2 && eq(a.Bid, a.MaxBid))
		exp := zeroDeltas()
		changed := op.A != a.Bidder
		who := map[bool]string{true: "outbid", false: "rebid"}[changed]
		if !a.Has {
			who = "first"
		}
		kindName := []string{"surplus", "debt", "collfwd"}[a.Kind]
		if a.Kind == 2 && reverse {
			kindName = "collrev"
		}
		mark("bid:" + kindName + ":" + who)
		var dur int64
		if !reverse {
			inc := p.Incs[0]
			if a.Kind == 2 {
				inc = p.Incs[2]
			}
			minNew := new(big.Int).Add(a.Bid, minInc(inc, a.Bid))
			hitsMax := a.Kind == 2 && eq(x, a.MaxBid)
			if x.Cmp(minNew) < 0 && !hitsMax {
				return mk("bid-rules", "bid-below-min-increment-accepted", "auction %d: bid %s, standing %s, minimum %s", a.ID, x, a.Bid, minNew)
			}
			if a.Kind == 2 && x.Cmp(a.MaxBid) > 0 {
				return mk("bid-rules", "bid-above-max-bid-accepted", "auction %d: bid %s > max bid %s", a.ID, x, a.MaxBid)
			}
			if x.Cmp(a.Bid) <= 0 {
				return mk("bid-rules", "bid-not-improving-accepted", "auction %d: bid %s, standing %s", a.ID, x, a.Bid)
			}
			if !eq(b.Bid, x) || !eq(b.Lot, a.Lot) || b.Bidder != op.A {
				return mk("bid-recorded", "bid-not-recorded", "auction %d", a.ID)
			}
			if eq(x, minNew) {
				mark("bid:at-min-increment-exact")
			}
			if hitsMax {
				mark("bid:hits-max-bid")
				if x.Cmp(minNew) < 0 {
					mark("bid:hits-max-bid-below-increment")
				}
			}
			// the outbid bidder is repaid in full; the new bidder pays the full bid (or the increase)
			if changed && a.Bid.Sign() != 0 {
				addTo(exp, a.Bidder, a.BidD, a.Bid)
				addTo(exp, op.A, a.BidD, new(big.Int).Neg(x))
			} else {
				addTo(exp, op.A, a.BidD, new(big.Int).Sub(a.Bid, x))
			}
			dur = p.Durs[1]
			if a.Kind == 2 {
				if hitsMax {
					dur = p.Durs[2]
				}
				incr := new(big.Int).Sub(x, a.Bid)
				ret := new(big.Int).Set(incr)
				if ret.Cmp(a.Debt) > 0 {
					ret.Set(a.Debt)
				}
				if !eq(new(big.Int).Sub(a.Debt, ret), b.Debt) {
					return mk("debt-returned", "corresponding-debt-delta", "auction %d: debt %s -> %s, increment %s", a.ID, a.Debt, b.Debt, incr)
				}
				if a.Debt.Sign() > 0 {
					if b.Debt.Sign() == 0 {
						mark("bid:collfwd:debt-exhausted")
					} else {
						mark("bid:collfwd:debt-partial")
					}
				}
			}
		} else {
			inc := p.Incs[1]
			if a.Kind == 2 {
				inc = p.Incs[2]
			}
			maxNew := new(big.Int).Sub(a.Lot, minInc(inc, a.Lot))
			if x.Cmp(maxNew) > 0 {
				return mk("bid-rules", "lot-above-max-decrement-accepted", "auction %d: lot %s, standing %s, maximum %s", a.ID, x, a.Lot, maxNew)
			}
			if x.Sign() < 0 {
				return mk("bid-rules", "negative-lot-accepted", "auction %d: lot %s", a.ID, x)
			}
			if !eq(b.Lot, x) || !eq(b.Bid, a.Bid) || b.Bidder != op.A {
				return mk("bid-recorded", "bid-not-recorded", "auction %d", a.ID)
			}
			if eq(x, maxNew) {
				mark("bid:at-min-increment-exact")
			}
			if changed {
				addTo(exp, a.Bidder, a.BidD, a.Bid)
				addTo(exp, op.A, a.BidD, new(big.Int).Neg(a.Bid))
			}
			dur = p.Durs[1]
			if a.Kind == 2 {
				dur = p.Durs[2]
			}
			if a.Kind == 1 {
				// first bid: the "previous bidder" is the initiator module, which is repaid the bid
				first := a.Bidder == a.Init
				wantDebt := new(big.Int).Set(a.Debt)
				if first {
					ret := new(big.Int).Set(a.Bid)
					if ret.Cmp(a.Debt) > 0 {
						ret.Set(a.Debt)
					}
					wantDebt.Sub(wantDebt, ret)
					if changed {
						ib := new(big.Int).Sub(after.bal[a.Init][a.BidD], before.bal[a.Init][a.BidD])
						wantI := new(big.Int).Set(a.Bid)
						if a.BidD == a.DebtD {
							wantI.Add(wantI, ret)
						}
						if !eq(ib, wantI) {
							return mk("outbid-refunded", "initiator-not-paid-first-bid", "auction %d: initiator got %s, expected %s", a.ID, ib, wantI)
						}
					}
				}
				if !eq(wantDebt, b.Debt) {
					return mk("debt-returned", "corresponding-debt-delta", "auction %d: debt %s -> %s", a.ID, a.Debt, b.Debt)
				}
			}
		}
		act := userDeltas(before, after)
		if a.Kind == 2 && reverse {
			// what is left after the refund flows are the payouts to the return addresses:
			// lot denom only, return addresses only, summing to the decrease of the lot,
			// each address within its whole-number shares and one unit more per position
			amount := new(big.Int).Sub(a.Lot, x)
			W := new(big.Int)
			for _, wt := range a.RW {
				W.Add(W, wt)
			}
			lo := zeroDeltas()
			hi := zeroDeltas()
			allUsers := true
			tie := false
			seen := map[string]bool{}
			for i, ad := range a.RAddrs {
				q := new(big.Int).Mul(amount, a.RW[i])
				rem := new(big.Int)
				q.DivMod(q, W, rem)
				if seen[rem.String()] {
					tie = true
				}
				seen[rem.String()] = true
				if ad >= nUsers {
					allUsers = false
					continue
				}
				lo[ad][a.LotD].Add(lo[ad][a.LotD], q)
				hi[ad][a.LotD].Add(hi[ad][a.LotD], new(big.Int).Add(q, big.NewInt(1)))
			}
			total := new(big.Int)
			for u := 0; u < nUsers; u++ {
				for d := range denoms {
					res := new(big.Int).Sub(act[u][d], exp[u][d])
					if res.Cmp(lo[u][d]) < 0 || res.Cmp(hi[u][d]) > 0 {
						if res.Sign() == 0 && lo[u][d].Sign() == 0 {
							continue
						}
						return mk("split-near-exact", "return-share-out-of-range", "auction %d: user %d denom %s received %s, pro-rata whole shares %s..%s (amount %s)", a.ID, u, denoms[d], res, lo[u][d], hi[u][d], amount)
					}
					total.Add(total, res)
				}
			}
			if allUsers && !eq(total, amount) {
				return mk("split-sum", "returned-parts-do-not-sum", "auction %d: lot decreased by %s, return addresses received %s", a.ID, amount, total)
			}
			if tie {
				mark("bid:collrev:tied-remainders")
			}
		} else {
			for u := 0; u < nUsers; u++ {
				for d := range denoms {
					if !eq(act[u][d], exp[u][d]) {
						sig := "bidder-delta-inexact"
						if u == a.Bidder && changed {
							sig = "outbid-bidder-not-made-whole"
						}
						return mk("outbid-refunded", sig, "auction %d: user %d denom %s changed by %s, expected %s (standing bid %s by %d, new %s by %d)", a.ID, u, denoms[d], act[u][d], exp[u][d], a.Bid, a.Bidder, x, op.A)
					}
				}
			}
		}
		// end time: min(t + duration, max end); max end fixed by the first bid
		wantMax := a.MaxEnd
		if !a.Has {
			wantMax = op.T + p.Durs[0]
		}
		wantEnd := op.T + dur
		if wantEnd > wantMax {
			wantEnd = wantMax
			mark("end:capped-at-max-end")
		} else {
			mark("end:extended")
		}
		if b.MaxEnd != wantMax || b.End != wantEnd || !b.Has {
			return mk("end-time-capped", "end-time-wrong", "auction %d: t %d, end %d (expected %d), max end %d (expected %d)", a.ID, op.T, b.End, wantEnd, b.MaxEnd, wantMax)
		}
		if len(after.aucs) != len(before.aucs) || after.next != before.next {
			return mk("bid-touches-one-auction", "bid-changed-store-size", "")
		}
	case "close", "bb":
		exp := zeroDeltas()
		closed := 0
		for _, a := range before.aucs {
			if after.find(a.ID) != nil {
				if op.Kind == "bb" && a.End <= op.T {
					return mk("expired-auctions-closed", "expired-auction-left-open", "auction %d: end %d <= block time %d", a.ID, a.End, op.T)
				}
				continue
			}
			closed++
			if op.T < a.End {
				return mk("payout-only-after-end", "closed-before-end", "auction %d: t %d < end %d", a.ID, op.T, a.End)
			}
			if op.Kind == "close" && a.ID != op.ID {
				return mk("close-touches-one-auction", "close-removed-other-auction", "auction %d", a.ID)
			}
			addTo(exp, a.Bidder, a.LotD, a.Lot)
			mark([]string{"close:surplus", "close:debt", "close:coll"}[a.Kind])
			if op.T == a.End {
				mark("close:at-end-exactly")
			}
			if a.Kind != 0 && a.Debt.Sign() > 0 {
				mark("close:debt-left-returned")
			}
		}
		if op.Kind == "close" && closed != 1 {
			return mk("close-removes-auction", "close-did-not-remove", "closed %d", closed)
		}
		if op.Kind == "bb" {
			mark(fmt.Sprintf("bb:closed-%s", map[bool]string{true: "none", false: "some"}[closed == 0]))
			if closed > 1 {
				mark("bb:closed-several")
			}
		}
		act := userDeltas(before, after)
		for u := 0; u < nUsers; u++ {
			for d := range denoms {
				if !eq(act[u][d], exp[u][d]) {
					return mk("winner-receives-exactly-the-lot", "payout-inexact", "user %d denom %s changed by %s, lots won %s", u, denoms[d], act[u][d], exp[u][d])
				}
			}
		}
		if len(after.aucs) != len(before.aucs)-closed || after.next != before.next {
			return mk("close-removes-auction", "close-store-size", "")
		}
		// a second close of the same auction must be refused (probe on a discarded context)
		if op.Kind == "close" {
			cls2, _ := Atomically(w.ctxAt(op.T+1), func(ctx sdk.Context) error { return w.k.CloseAuction(ctx, op.ID) })
			if cls2 == ClassOk {
				return mk("payout-only-once", "second-close-accepted", "auction %d", op.ID)
			}
		}
	}
	return nil
}

// ------------------------------------------------------------ Coq rendering

func natList(xs []int) string {
	it := make([]string, len(xs))
	for i, x := range xs {
		it[i] = Nat(x)
	}
	return List(it)
}

func aucCoq(a Auc) string {
	kind := []string{"KSurplus", "KDebt", "KColl"}[a.Kind]
	return fmt.Sprintf("(mkAuc %s %s %s %s %s %s %s %s %s %s %s %s %s %s %s %s)",
		Zi(int64(a.ID)), kind, Nat(a.Init), Nat(a.LotD), Z(a.Lot), Nat(a.Bidder), Nat(a.BidD), Z(a.Bid), Bool(a.Has),
		Zi(a.End), Zi(a.MaxEnd), Nat(a.DebtD), Z(a.Debt), Z(a.MaxBid), natList(a.RAddrs), ZList(a.RW))
}

func idxCoq(ix [][2]int64) string {
	it := make([]string, len(ix))
	for i, k := range ix {
		it[i] = fmt.Sprintf("(%s, %s)", Zi(k[0]), Zi(k[1]))
	}
	return List(it)
}

func strZList(xs []string) string {
	it := make([]string, len(xs))
	for i, x := range xs {
		it[i] = Z(bi(x))
	}
	return List(it)
}

func opCoq(op Op, parts []*big.Int) string {
	switch op.Kind {
	case "ssurplus":
		return fmt.Sprintf("StartSurplus %s %s %s %s", Nat(op.A), Nat(op.LotD), Z(bi(op.Lot)), Nat(op.BidD))
	case "sdebt":
		return fmt.Sprintf("StartDebt %s %s %s %s %s %s %s", Nat(op.A), Nat(op.BidD), Z(bi(op.Bid)), Nat(op.LotD), Z(bi(op.Lot)), Nat(op.DebtD), Z(bi(op.Debt)))
	case "scoll":
		return fmt.Sprintf("StartColl %s %s %s %s %s %s %s %s %s", Nat(op.A), Nat(op.LotD), Z(bi(op.Lot)), Nat(op.BidD), Z(bi(op.Bid)),
			natList(op.RAddrs), strZList(op.RW), Nat(op.DebtD), Z(bi(op.Debt)))
	case "bid":
		return fmt.Sprintf("PlaceBid %s %s %s %s %s %s", Zi(op.T), Zi(int64(op.ID)), Nat(op.A), Nat(op.D), Z(bi(op.X)), ZList(parts))
	case "close":
		return fmt.Sprintf("Close %s %s", Zi(op.T), Zi(int64(op.ID)))
	default:
		return fmt.Sprintf("BeginBlock %s", Zi(op.T))
	}
}

func obsCoq(cls Class, before, after *Snap) string {
	var db, set, del []string
	for a := 0; a < nAcc; a++ {
		for d := range denoms {
			if !eq(before.bal[a][d], after.bal[a][d]) {
				db = append(db, fmt.Sprintf("(%s, %s, %s)", Nat(a), Nat(d), Z(after.bal[a][d])))
			}
		}
	}
	for _, a := range after.aucs {
		b := before.find(a.ID)
		if b == nil || aucCoq(*b) != aucCoq(a) {
			set = append(set, aucCoq(a))
		}
	}
	for _, b := range before.aucs {
		if after.find(b.ID) == nil {
			del = append(del, Zi(int64(b.ID)))
		}
	}
	return fmt.Sprintf("mkObs %s %s %s %s %s %s", cls.Coq(), List(db), List(set), List(del), idxCoq(after.idx), Zi(int64(after.next)))
}

func (w *World) envStateCoq(s *Snap) string {
	ism := make([]bool, nAcc)
	mint := make([]bool, nAcc)
	burn := make([]bool, nAcc)
	blk := make([]bool, nAcc)
	ak := w.tApp.GetAccountKeeper()
	bk := w.tApp.GetBankKeeper()
	for _, i := range []int{iLiq, iHard, iSwap, iAuc} {
		ism[i] = true
		acc := ak.GetModuleAccount(w.ctx, modName[i])
		mint[i] = acc.HasPermission("minter")
		burn[i] = acc.HasPermission("burner")
	}
	for a := 0; a < nAcc; a++ {
		blk[a] = bk.BlockedAddr(w.addrs[a])
	}
	p := w.params
	env := fmt.Sprintf("(mk_env %s %s %s %s %s %s %s %s)", Nat(iAuc), Nat(iNobody), BoolList(ism), BoolList(mint), BoolList(burn), BoolList(blk),
		List([]string{Zi(p.Durs[0]), Zi(p.Durs[1]), Zi(p.Durs[2])}), strZList(p.Incs[:]))
	brows := make([]string, nAcc)
	for a := 0; a < nAcc; a++ {
		brows[a] = ZList(s.bal[a])
	}
	as := make([]string, len(s.aucs))
	for i, a := range s.aucs {
		as[i] = aucCoq(a)
	}
	dn := make([]int, len(denoms))
	for i := range dn {
		dn[i] = i
	}
	cfg := fmt.Sprintf("(mkCfg %s %s)", Nat(nAcc), natList(dn))
	st := fmt.Sprintf("(mk_state %s %s %s %s)", List(brows), List(as), idxCoq(s.idx), Zi(int64(s.next)))
	return env + "\n  " + cfg + "\n  " + st
}

// ------------------------------------------------------------ history runner

type Hist struct {
	Seed   uint64 `json:"seed"`
	Idx    int    `json:"history"`
	Params Params `json:"params"`
	Ops    []Op   `json:"ops"`
}

type runOut struct {
	ops    []Op
	params Params
	coq    string
	fail   *Failure
	okOps  int
	splits map[string]bool
}

// runHist executes either generated (ops == nil) or explicit operations.
func runHist(seed uint64, idx, n int, params *Params, ops []Op, cnt *Counters) runOut {
	r := NewRng(seed, uint64(idx))
	var p Params
	if params != nil {
		p = *params
	} else {
		p = genParams(r)
	}
	w := setup(p)
	out := runOut{params: p, splits: map[string]bool{}}
	prev := w.snap(w.ctx)
	header := w.envStateCoq(prev)
	g := &gen{r: r, w: w, now: t0, cnt: cnt}
	var steps []string
	if ops != nil {
		n = len(ops)
	}
	for i := 0; i < n; i++ {
		var op Op
		if ops != nil {
			op = ops[i]
		} else {
			op = g.genOp(prev)
			// a bid by the empty address is a keeper-level call only: no transaction can carry it
			// (ValidateBasic refuses an empty bidder; model: msg_place_bid ... (nobody e) = Err)
			op.Msg = op.Kind == "bid" && (idx+i)%2 == 1
		}
		if op.A == iNobody {
			op.Msg = false
		}
		parts := w.oracleParts(prev, op)
		cls, err := w.exec(op)
		if op.Kind == "bid" && op.Msg && cnt != nil {
			cnt.Inc("msg:bid-through-validate-basic-and-msg-server:" + cls.String())
			if op.ID == 0 || bi(op.X).Sign() < 0 {
				cnt.Inc("msg:bid-refused-by-validate-basic")
			}
		}
		after := w.snap(w.ctx)
		out.ops = append(out.ops, op)
		if os.Getenv("C06_DEBUG") != "" {
			fmt.Fprintf(os.Stderr, "step %d %s -> %s %v\n", i, MustJSON(op), cls, err)
		}
		if cnt != nil {
			cnt.Inc("op:" + op.Kind + ":" + cls.String())
			if cls != ClassOk {
				cnt.Inc("err:" + op.Kind + ":" + errKind(err))
			}
		}
		if cls == ClassOk {
			out.okOps++
		}
		for _, b := range prev.aucs {
			if after.find(b.ID) == nil {
				g.dead = append(g.dead, b.ID)
			}
		}
		steps = append(steps, fmt.Sprintf("(%s,\n    %s)", opCoq(op, parts), obsCoq(cls, prev, after)))
		if out.fail == nil {
			f := w.opMonitor(op, cls, prev, after, cnt, out.splits)
			if f == nil && op.Kind == "bid" && op.Msg && cls == ClassOk && (op.ID == 0 || bi(op.X).Sign() < 0) {
				// MsgPlaceBid.ValidateBasic: auction id not zero, amount a valid coin
				f = mk("message-glue-refuses-malformed-bids", "bid-accepted-against-validate-basic", "auction %d amount %s", op.ID, op.X)
			}
			if f == nil && cls == ClassOk {
				f = w.stateMonitor(w.ctx, after)
			}
			if f == nil && parts != nil && cls == ClassOk {
				a := prev.find(op.ID)
				if msg := splitFacts(new(big.Int).Sub(a.Lot, bi(op.X)), a.RW, parts); msg != "" {
					f = mk("split-facts", "split-"+msg, "auction %d", a.ID)
				}
			}
			if f != nil {
				out.fail = &Failure{History: idx, Step: i, Predicate: f.pred, Signature: f.sig, Detail: f.detail}
			}
		}
		prev = after
	}
	out.coq = fmt.Sprintf("mkHist %s\n  %s", header, List(steps))
	return out
}

func errKind(err error) string {
	if err == nil {
		return "none"
	}
	m := err.Error()
	switch {
	case strings.HasPrefix(m, "panic"):
		return "panic"
	case strings.Contains(m, "insufficient funds") || strings.Contains(m, "is smaller than"):
		return "insufficient-funds"
	case strings.Contains(m, "not allowed to receive"):
		return "blocked-recipient"
	case strings.Contains(m, "auction not found"):
		return "not-found"
	case strings.Contains(m, "auction has closed") || strings.Contains(m, "has expired"):
		return "expired"
	case strings.Contains(m, "can't be closed") || strings.Contains(m, "not expired") || strings.Contains(m, "auction end time"):
		return "not-expired"
	case strings.Contains(m, "bid is not greater than"):
		return "bid-too-small"
	case strings.Contains(m, "bid is greater than"):
		return "bid-above-max"
	case strings.Contains(m, "lot is greater than"):
		return "lot-too-large"
	case strings.Contains(m, "lot is not greater than"):
		return "lot-negative"
	case strings.Contains(m, "denom"):
		return "denom"
	}
	return "other"
}

var allSplits = []string{
	"start:ssurplus", "start:sdebt", "start:scoll",
	"bid:surplus:first", "bid:surplus:outbid", "bid:surplus:rebid",
	"bid:collfwd:first", "bid:collfwd:outbid", "bid:collfwd:rebid",
	"bid:collrev:outbid", "bid:collrev:rebid",
	"bid:debt:first", "bid:debt:outbid", "bid:debt:rebid",
	"bid:at-min-increment-exact", "bid:hits-max-bid", "bid:hits-max-bid-below-increment",
	"bid:collfwd:debt-partial", "bid:collfwd:debt-exhausted", "bid:collrev:tied-remainders",
	"bid:at-end-accepted", "bid:after-end-refused",
	"end:capped-at-max-end", "end:extended",
	"close:surplus", "close:debt", "close:coll", "close:at-end-exactly", "close:before-end-refused",
	"close:second-close-refused", "close:debt-left-returned",
	"bb:closed-none", "bb:closed-some", "bb:closed-several",
}

const auctionHeader = "From Kava Require Import Base.Prelude Model.Auction."

func runC06(o Opts) (*Result, error) {
	n := o.Len
	if n == 0 {
		n = defLen
	}
	res := &Result{Property: "C06", Seed: o.Seed,
		Rule: "histories of " + fmt.Sprint(n) + " auction keeper calls (Start*Auction, PlaceBid, CloseAuction, BeginBlocker) generated from splitmix64(seed, history index) on a fresh app.TestApp with per-history auction params; a history is non-trivial when it contains a successful bid that outbids another bidder or re-bids and a successful payout (CloseAuction or BeginBlocker closing an auction); distinct by hash of params and operation list.  Split cases (amount, weights) through the verif hook are counted separately in extra.split_cases"}
	cnt := NewCounters()

	if o.Replay != "" {
		bz, err := os.ReadFile(o.Replay)
		if err != nil {
			return nil, err
		}
		var sc SplitCase
		if json.Unmarshal(bz, &sc) == nil && sc.Amount != "" {
			return replaySplit(o, res, sc)
		}
		var h Hist
		if err := json.Unmarshal(bz, &h); err != nil {
			return nil, err
		}
		out := runHist(h.Seed, h.Idx, 0, &h.Params, h.Ops, cnt)
		name, err := WriteShard(o.OutDir, 0, auctionHeader, []string{out.coq}, "mismatches")
		if err != nil {
			return nil, err
		}
		res.Shards = []string{name}
		res.HistIndex = []HistRef{{0, 0, h.Idx, MustJSON(h)}}
		res.Histories, res.Evaluations = 1, len(h.Ops)
		if out.fail != nil {
			out.fail.Replay = MustJSON(h)
			res.Failures = append(res.Failures, *out.fail)
		}
		res.Counters = cnt.Map()
		return res, nil
	}

	outs := make([]runOut, o.N)
	ParallelFor(o.N, o.Workers, func(i int) {
		out := runHist(o.Seed, i, n, nil, nil, cnt)
		if out.fail != nil {
			sig := out.fail.Signature
			p := out.params
			fails := func(cand []Op) bool {
				f := runHist(o.Seed, i, 0, &p, cand, nil).fail
				return f != nil && f.Signature == sig
			}
			small := Shrink(out.ops[:out.fail.Step+1], fails)
			if f2 := runHist(o.Seed, i, 0, &p, small, nil).fail; f2 != nil {
				f2.History = i
				f2.Replay = MustJSON(Hist{o.Seed, i, p, small})
				out.fail = f2
			} else {
				out.fail.Replay = MustJSON(Hist{o.Seed, i, p, out.ops[:out.fail.Step+1]})
			}
		}
		outs[i] = out
	})

	seen := map[string]bool{}
	perShard := 20
	var cases []string
	shard := 0
	flush := func() error {
		if len(cases) == 0 {
			return nil
		}
		name, err := WriteShard(o.OutDir, shard, auctionHeader, cases, "mismatches")
		if err != nil {
			return err
		}
		res.Shards = append(res.Shards, name)
		shard++
		cases = nil
		return nil
	}
	for i, ot := range outs {
		res.Histories++
		res.Evaluations += len(ot.ops)
		h := Hist{o.Seed, i, ot.params, ot.ops}
		key := string(MustJSON(h.Params)) + string(MustJSON(ot.ops))
		outbid, paid := false, false
		for k := range ot.splits {
			if strings.HasSuffix(k, ":outbid") || strings.HasSuffix(k, ":rebid") {
				outbid = true
			}
			if strings.HasPrefix(k, "close:surplus") || strings.HasPrefix(k, "close:debt") || strings.HasPrefix(k, "close:coll") {
				paid = true
			}
		}
		if outbid && paid && !seen[key] {
			seen[key] = true
			res.DistinctNontrivial++
		}
		if i < 2 {
			res.Samples = append(res.Samples, h)
		}
		res.HistIndex = append(res.HistIndex, HistRef{shard, len(cases), i, MustJSON(h)})
		cases = append(cases, ot.coq)
		if len(cases) == perShard {
			if err := flush(); err != nil {
				return nil, err
			}
		}
		if ot.fail != nil {
			res.Failures = append(res.Failures, *ot.fail)
		}
	}
	if err := flush(); err != nil {
		return nil, err
	}
	// the pure split through the hook
	if err := runSplit(o, res, cnt, &shard); err != nil {
		return nil, err
	}
	res.Counters = cnt.Map()
	for _, k := range allSplits {
		if res.Counters["split:"+k] == 0 {
			res.QualityGate = append(res.QualityGate, k)
		}
	}
	return res, nil
}
