package c06

// The largest-remainder split (x/auction/keeper/math.go) through the verif
// hook: Go monitors state the three facts directly on the output; the same
// cases go to Coq where split_ok (Model/Split.v) is evaluated on them.

import (
	. "kavaverif/lib"

	"fmt"
	"math/big"
)

type SplitCase struct {
	Amount  string   `json:"amount"`
	Weights []string `json:"weights"`
}

// splitFacts states the property on one output: the parts sum to the amount,
// each part is within one unit above its whole-number share, and whoever got
// an extra unit has a remainder at least as large as whoever did not.
func splitFacts(amount *big.Int, ws, parts []*big.Int) string {
	if len(parts) != len(ws) {
		return "length"
	}
	W := new(big.Int)
	for _, w := range ws {
		W.Add(W, w)
	}
	sum := new(big.Int)
	qs := make([]*big.Int, len(ws))
	rs := make([]*big.Int, len(ws))
	extra := make([]bool, len(ws))
	for i := range ws {
		qs[i], rs[i] = new(big.Int), new(big.Int)
		qs[i].DivMod(new(big.Int).Mul(amount, ws[i]), W, rs[i])
		sum.Add(sum, parts[i])
		d := new(big.Int).Sub(parts[i], qs[i])
		switch {
		case d.Sign() == 0:
		case d.Cmp(big.NewInt(1)) == 0:
			extra[i] = true
		default:
			return "part-out-of-range"
		}
	}
	if sum.Cmp(amount) != 0 {
		return "sum"
	}
	for i := range ws {
		for j := range ws {
			if extra[i] && !extra[j] && rs[i].Cmp(rs[j]) < 0 {
				return "extra-to-smaller-remainder"
			}
		}
	}
	return ""
}

func splitValid(amount *big.Int, ws []*big.Int) bool {
	if amount.Sign() < 0 || len(ws) == 0 {
		return false
	}
	W := new(big.Int)
	for _, w := range ws {
		if w.Sign() < 0 {
			return false
		}
		W.Add(W, w)
	}
	return W.Sign() > 0
}

func caseCoq(amount *big.Int, ws, parts []*big.Int) string {
	return fmt.Sprintf("(%s, %s, %s)", Z(amount), ZList(ws), ZList(parts))
}

func genSplitCase(r *Rng) (*big.Int, []*big.Int) {
	n := 1 + r.Intn(6)
	ws := make([]*big.Int, n)
	var amount *big.Int
	switch r.Pick(30, 25, 25, 20) {
	case 0: // small, many ties
		amount = big.NewInt(int64(r.Intn(60)))
		for i := range ws {
			ws[i] = big.NewInt(int64(r.Intn(7)))
		}
	case 1: // typical: deposits as weights
		amount = big.NewInt(r.Int63n(1_000_000_000_000))
		for i := range ws {
			ws[i] = big.NewInt(r.Int63n(1_000_000_000))
			if r.Chance(1, 4) && i > 0 {
				ws[i] = new(big.Int).Set(ws[i-1])
			}
		}
	case 2: // near powers of ten
		amount = new(big.Int).Add(Pow10(r.Intn(30)), big.NewInt(int64(r.Intn(5)-2)))
		if amount.Sign() < 0 {
			amount.SetInt64(0)
		}
		for i := range ws {
			ws[i] = new(big.Int).Add(Pow10(r.Intn(12)), big.NewInt(int64(r.Intn(3))))
		}
	default: // huge: amount up to 2^255, amount*weight stays below 2^255 (sdkmath.Int range)
		ab := 1 + r.Intn(255)
		amount = r.BigBits(ab)
		wb := 255 - ab - 3
		for i := range ws {
			if wb <= 0 {
				ws[i] = big.NewInt(int64(r.Intn(2)))
			} else {
				ws[i] = r.BigBits(1 + r.Intn(wb))
			}
		}
	}
	zero := true
	for _, w := range ws {
		if w.Sign() != 0 {
			zero = false
		}
	}
	if zero {
		ws[r.Intn(n)] = big.NewInt(1)
	}
	return amount, ws
}

func toBig(xs []string) []*big.Int {
	out := make([]*big.Int, len(xs))
	for i, x := range xs {
		out[i] = bi(x)
	}
	return out
}

func toStr(xs []*big.Int) []string {
	out := make([]string, len(xs))
	for i, x := range xs {
		out[i] = x.String()
	}
	return out
}

const splitHeader = "From Kava Require Import Base.Prelude Model.Split."

func runSplit(o Opts, res *Result, cnt *Counters, shard *int) error {
	type sc struct {
		a  *big.Int
		ws []*big.Int
	}
	var cs []sc
	r := NewRng(o.Seed, 0xC06_5711)
	nRandom := 1000
	if o.Tier == "thorough" {
		nRandom = 30000
		// exhaustive small domain: amount <= 40, <= 4 buckets, weights <= 6
		var rec func(ws []*big.Int, n int)
		rec = func(ws []*big.Int, n int) {
			if len(ws) == n {
				if !splitValid(big.NewInt(0), ws) {
					return
				}
				for a := int64(0); a <= 40; a++ {
					cs = append(cs, sc{big.NewInt(a), append([]*big.Int(nil), ws...)})
				}
				return
			}
			for w := int64(0); w <= 6; w++ {
				rec(append(ws, big.NewInt(w)), n)
			}
		}
		for n := 1; n <= 4; n++ {
			rec(nil, n)
		}
		cnt.Add("split:exhaustive-small-domain", len(cs))
	} else {
		// a slice of the small domain in the quick tier
		for i := 0; i < 1500; i++ {
			n := 1 + r.Intn(4)
			ws := make([]*big.Int, n)
			for j := range ws {
				ws[j] = big.NewInt(int64(r.Intn(7)))
			}
			if !splitValid(big.NewInt(0), ws) {
				ws[0] = big.NewInt(1)
			}
			cs = append(cs, sc{big.NewInt(int64(r.Intn(41))), ws})
		}
	}
	for i := 0; i < nRandom; i++ {
		a, ws := genSplitCase(r)
		cs = append(cs, sc{a, ws})
	}
	// inputs the function must refuse (it panics)
	for _, bad := range []sc{{big.NewInt(-1), []*big.Int{big.NewInt(1)}}, {big.NewInt(5), nil}, {big.NewInt(5), []*big.Int{big.NewInt(0), big.NewInt(0)}}, {big.NewInt(5), []*big.Int{big.NewInt(-1), big.NewInt(3)}}} {
		if splitHook(bad.a, bad.ws) != nil {
			res.Failures = append(res.Failures, Failure{History: -1, Predicate: "split-refuses-invalid-input", Signature: "split-accepted-invalid-input",
				Detail: caseCoq(bad.a, bad.ws, nil), Replay: MustJSON(SplitCase{bad.a.String(), toStr(bad.ws)})})
		}
	}
	perShard := 1000
	if o.Tier == "thorough" {
		perShard = 4000
	}
	var lines []string
	flush := func() error {
		if len(lines) == 0 {
			return nil
		}
		name, err := WriteShardList(o.OutDir, *shard, splitHeader, lines, "split_mismatches")
		if err != nil {
			return err
		}
		res.Shards = append(res.Shards, name)
		*shard++
		lines = nil
		return nil
	}
	reported := false
	for i, c := range cs {
		parts := splitHook(c.a, c.ws)
		cnt.Inc("op:split")
		msg := ""
		if parts == nil {
			msg = "panicked-on-valid-input"
		} else {
			msg = splitFacts(c.a, c.ws, parts)
		}
		if msg != "" && !reported {
			reported = true
			res.Failures = append(res.Failures, Failure{History: 1_000_000 + i, Predicate: "split-facts", Signature: "split-" + msg,
				Detail: caseCoq(c.a, c.ws, parts), Replay: MustJSON(SplitCase{c.a.String(), toStr(c.ws)})})
		}
		// ties among remainders at all?
		if parts != nil {
			seen := map[string]bool{}
			W := new(big.Int)
			for _, w := range c.ws {
				W.Add(W, w)
			}
			for _, w := range c.ws {
				rem := new(big.Int).Mod(new(big.Int).Mul(c.a, w), W).String()
				if seen[rem] {
					cnt.Inc("split:split-case-with-tied-remainders")
					break
				}
				seen[rem] = true
			}
		}
		res.HistIndex = append(res.HistIndex, HistRef{*shard, len(lines), 1_000_000 + i, MustJSON(SplitCase{c.a.String(), toStr(c.ws)})})
		lines = append(lines, caseCoq(c.a, c.ws, parts))
		if len(lines) == perShard {
			if err := flush(); err != nil {
				return err
			}
		}
	}
	if err := flush(); err != nil {
		return err
	}
	res.Evaluations += len(cs)
	if res.Extra == nil {
		res.Extra = map[string]any{}
	}
	res.Extra["split_cases"] = len(cs)
	return nil
}

func replaySplit(o Opts, res *Result, c SplitCase) (*Result, error) {
	a, ws := bi(c.Amount), toBig(c.Weights)
	parts := splitHook(a, ws)
	if splitValid(a, ws) {
		msg := "panicked-on-valid-input"
		if parts != nil {
			msg = splitFacts(a, ws, parts)
		}
		if msg != "" {
			res.Failures = append(res.Failures, Failure{History: 1_000_000, Predicate: "split-facts", Signature: "split-" + msg,
				Detail: caseCoq(a, ws, parts), Replay: MustJSON(c)})
		}
		name, err := WriteShardList(o.OutDir, 0, splitHeader, []string{caseCoq(a, ws, parts)}, "split_mismatches")
		if err != nil {
			return nil, err
		}
		res.Shards = []string{name}
		res.HistIndex = []HistRef{{0, 0, 1_000_000, MustJSON(c)}}
	} else if parts != nil {
		res.Failures = append(res.Failures, Failure{History: -1, Predicate: "split-refuses-invalid-input", Signature: "split-accepted-invalid-input",
			Detail: caseCoq(a, ws, parts), Replay: MustJSON(c)})
	}
	res.Histories, res.Evaluations = 1, 1
	return res, nil
}
