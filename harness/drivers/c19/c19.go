package c19

// C19 — emissions follow their schedule however time is cut into blocks.
// Histories of full app begin blocks (x/community switch + staking rewards,
// x/mint, x/kavadist, in the order configured in app.go), community-pool
// deposits and spends, reward-rate updates, and direct calls of the pure
// helpers calculateStakingRewards / mintIncentivePeriods /
// mintInfrastructurePeriods through the verif hooks, on a fresh app.TestApp;
// monitors state the property on the implementation's observable state; the
// same histories are written as Coq terms for Model/Emissions.v.

import (
	. "kavaverif/lib"

	"encoding/json"
	"fmt"
	"math/big"
	"os"
	"time"

	sdkmath "cosmossdk.io/math"
	abci "github.com/cometbft/cometbft/abci/types"
	sdk "github.com/cosmos/cosmos-sdk/types"
	authtypes "github.com/cosmos/cosmos-sdk/x/auth/types"
	distrtypes "github.com/cosmos/cosmos-sdk/x/distribution/types"
	minttypes "github.com/cosmos/cosmos-sdk/x/mint/types"

	"github.com/kava-labs/kava/app"
	communitykeeper "github.com/kava-labs/kava/x/community/keeper"
	communitytypes "github.com/kava-labs/kava/x/community/types"
	kavadisttypes "github.com/kava-labs/kava/x/kavadist/types"
)

func init() { Registry["C19"] = runC19 }

const (
	ns       = int64(1_000_000_000)
	day      = 86400 * ns
	defaultL = 30
	coqHead  = "From Kava Require Import Base.Prelude Base.Dec Model.Emissions."
)

var (
	t0ns  = GenesisTime.UnixNano()
	prec  = Pow10(18)
	e9    = Pow10(9)
	e27   = Pow10(27)
	bzero = big.NewInt(0)
)

// ------------------------------------------------------------ data

type per struct {
	Start int64  `json:"start"` // unix ns
	End   int64  `json:"end"`
	Infl  string `json:"infl"` // mantissa
}

// rew is one partner reward (V = ukava per second) or core reward (V = weight
// mantissa).  To names the recipient: "u0".."u3" ordinary accounts, "kd" the
// x/kavadist module account itself, "cp" the x/community module account,
// "blk" the fee collector (an address x/bank refuses to pay to).
type rew struct {
	To string `json:"to"`
	V  string `json:"v"`
}

type cfg struct {
	Rate     string `json:"rate"`     // StakingRewardsPerSecond mantissa
	UpgRate  string `json:"upg_rate"` // UpgradeTimeSetStakingRewardsPerSecond mantissa
	Upg      int64  `json:"upg"`      // UpgradeTimeDisableInflation, unix ns, 0 = zero time
	Pool     string `json:"pool"`     // community pool funding after genesis
	KdActive bool   `json:"kd_active"`
	Periods  []per  `json:"periods"`
	Infra    []per  `json:"infra"`
	Partners []rew  `json:"partners,omitempty"`
	Cores    []rew  `json:"cores,omitempty"`
	// Uninit: the history starts from the genesis staking-rewards state (zero
	// LastAccumulationTime), so the FIRST community begin blocker - which may also be the
	// block that switches inflation off - is a step of the history, not part of the setup
	Uninit bool `json:"uninit,omitempty"`
}

type op struct {
	Kind string `json:"kind"` // block | adj | rate | kdact | calc | kdmint | kdinfra
	T    int64  `json:"t,omitempty"`
	A    string `json:"a,omitempty"` // adj: signed amount; rate: mantissa
	B    bool   `json:"b,omitempty"`
	// calc
	Last int64  `json:"last,omitempty"`
	Err  string `json:"err,omitempty"`
	Rate string `json:"rate,omitempty"`
	Pool string `json:"pool,omitempty"` // pool balance as a Dec mantissa
	// kdmint / kdinfra
	Prev int64 `json:"prev,omitempty"`
	Ps   []per `json:"ps,omitempty"`
}

type hist struct {
	Seed uint64 `json:"seed"`
	Idx  int    `json:"history"`
	Cfg  cfg    `json:"cfg"`
	Ops  []op   `json:"ops"`
}

func bi(s string) *big.Int {
	x, ok := new(big.Int).SetString(s, 10)
	if !ok {
		panic("bad integer " + s)
	}
	return x
}

func decM(m *big.Int) sdkmath.LegacyDec { return sdkmath.LegacyNewDecFromBigIntWithPrec(m, 18) }
func tm(nsec int64) time.Time {
	if nsec == 0 {
		return time.Time{}
	}
	return time.Unix(0, nsec).UTC()
}
func tns(t time.Time) int64 {
	if t.IsZero() {
		return 0
	}
	return t.UnixNano()
}

func periods(ps []per) kavadisttypes.Periods {
	out := make(kavadisttypes.Periods, len(ps))
	for i, p := range ps {
		out[i] = kavadisttypes.Period{Start: tm(p.Start), End: tm(p.End), Inflation: decM(bi(p.Infl))}
	}
	return out
}

// ------------------------------------------------------------ world

type world struct {
	tApp   app.TestApp
	ctx    sdk.Context
	height int64
	user   sdk.AccAddress
	rcpt   []sdk.AccAddress // the ordinary accounts that partner / core rewards can name
	fired  bool             // the switch has been observed to fire in this history
	reen   bool // kavadist was re-activated by a governance op after the switch
}

const (
	nUsers = 4
	nProj  = 14 + nUsers
)

type snap [nProj]*big.Int

func (w *world) recipient(to string) sdk.AccAddress {
	ak := w.tApp.GetAccountKeeper()
	switch to {
	case "kd":
		return ak.GetModuleAddress(kavadisttypes.ModuleName)
	case "cp":
		return ak.GetModuleAddress(communitytypes.ModuleAccountName)
	case "blk":
		return ak.GetModuleAddress(authtypes.FeeCollectorName)
	}
	return w.rcpt[int(to[1]-'0')]
}

func setup(c cfg) *world {
	tApp := NewApp()
	cdc := tApp.AppCodec()
	addrs := Addrs(1 + nUsers)
	user := addrs[0]
	w := &world{tApp: tApp, height: 2, user: user, rcpt: addrs[1:]}
	var partners kavadisttypes.PartnerRewards
	for _, p := range c.Partners {
		// built as a literal: governance can store any amount (validateInfraParams does not look at the reward lists)
		partners = append(partners, kavadisttypes.PartnerReward{Address: w.recipient(p.To), RewardsPerSecond: sdk.Coin{Denom: "ukava", Amount: sdkmath.NewIntFromBigInt(bi(p.V))}})
	}
	var cores kavadisttypes.CoreRewards
	for _, p := range c.Cores {
		cores = append(cores, kavadisttypes.CoreReward{Address: w.recipient(p.To), Weight: decM(bi(p.V))})
	}
	funds := new(big.Int).Add(bi(c.Pool), Pow10(15))
	ab := app.NewAuthBankGenesisBuilder().WithSimpleAccount(user, sdk.NewCoins(sdk.NewCoin("ukava", sdkmath.NewIntFromBigInt(funds))))
	mg := minttypes.DefaultGenesisState()
	mg.Params.MintDenom = "ukava"
	// kavadist is inactive during InitChain's begin block (an infrastructure period that
	// is ongoing at genesis would mint for 0 seconds there, which panics) and is switched
	// on right after when the configuration says so.  An inactive configuration leaves
	// PreviousBlockTime unset, so that a later activation exercises the not-found branch.
	prev := GenesisTime
	if !c.KdActive {
		prev = kavadisttypes.DefaultPreviousBlockTime
	}
	kg := kavadisttypes.NewGenesisState(kavadisttypes.NewParams(false, periods(c.Periods),
		kavadisttypes.NewInfraParams(periods(c.Infra), partners, cores)), prev)
	cg := communitytypes.NewGenesisState(
		communitytypes.NewParams(tm(c.Upg), decM(bi(c.Rate)), decM(bi(c.UpgRate))),
		communitytypes.DefaultStakingRewardsState())
	tApp.InitializeFromGenesisStatesWithTime(GenesisTime,
		ab.BuildMarshalled(cdc),
		app.GenesisState{minttypes.ModuleName: cdc.MustMarshalJSON(mg)},
		app.GenesisState{kavadisttypes.ModuleName: cdc.MustMarshalJSON(kg)},
		app.GenesisState{communitytypes.ModuleName: cdc.MustMarshalJSON(&cg)},
	)
	w.ctx = NewCtx(tApp, w.height, GenesisTime)
	if c.KdActive {
		kp := tApp.GetKavadistKeeper().GetParams(w.ctx)
		kp.Active = true
		tApp.GetKavadistKeeper().SetParams(w.ctx, kp)
	}
	if c.Uninit {
		tApp.GetCommunityKeeper().SetStakingRewardsState(w.ctx, communitytypes.DefaultStakingRewardsState())
	}
	if p := bi(c.Pool); p.Sign() > 0 {
		if err := tApp.GetCommunityKeeper().FundCommunityPool(w.ctx, user, sdk.NewCoins(sdk.NewCoin("ukava", sdkmath.NewIntFromBigInt(p)))); err != nil {
			panic(err)
		}
	}
	return w
}

func (w *world) bal(ctx sdk.Context, mod string) *big.Int {
	return w.tApp.GetBankKeeper().GetBalance(ctx, w.tApp.GetAccountKeeper().GetModuleAddress(mod), "ukava").Amount.BigInt()
}

func (w *world) snap() snap {
	ctx := w.ctx
	var s snap
	st := w.tApp.GetCommunityKeeper().GetStakingRewardsState(ctx)
	cp, _ := w.tApp.GetCommunityKeeper().GetParams(ctx)
	mp := w.tApp.GetMintKeeper().GetParams(ctx)
	kp := w.tApp.GetKavadistKeeper().GetParams(ctx)
	s[0] = big.NewInt(tns(st.LastAccumulationTime))
	s[1] = st.LastTruncationError.BigInt()
	s[2] = cp.StakingRewardsPerSecond.BigInt()
	s[3] = big.NewInt(tns(cp.UpgradeTimeDisableInflation))
	s[4] = cp.UpgradeTimeSetStakingRewardsPerSecond.BigInt()
	s[5] = w.bal(ctx, communitytypes.ModuleAccountName)
	s[6] = new(big.Int).Add(w.bal(ctx, authtypes.FeeCollectorName), w.bal(ctx, distrtypes.ModuleName))
	s[7] = w.bal(ctx, kavadisttypes.ModuleName)
	s[8] = w.tApp.GetBankKeeper().GetSupply(ctx, "ukava").Amount.BigInt()
	s[9] = mp.InflationMin.BigInt()
	s[10] = mp.InflationMax.BigInt()
	s[11] = w.tApp.GetDistrKeeper().GetParams(ctx).CommunityTax.BigInt()
	s[12] = big.NewInt(0)
	if kp.Active {
		s[12] = big.NewInt(1)
	}
	s[13] = big.NewInt(0)
	if pt, found := w.tApp.GetKavadistKeeper().GetPreviousBlockTime(ctx); found {
		s[13] = big.NewInt(tns(pt))
	}
	for i, a := range w.rcpt {
		s[14+i] = w.tApp.GetBankKeeper().GetBalance(ctx, a, "ukava").Amount.BigInt()
	}
	return s
}

// index names of the projection
const (
	iLast = iota
	iErr
	iRate
	iUpg
	iUpgRate
	iPool
	iSink
	iKdBal
	iSupply
	iMMin
	iMMax
	iTax
	iKdAct
	iKdPrev
	iUser0
)

type stepRes struct {
	msg   string // panic / error text (diagnostics only)
	cls   Class
	outs  []*big.Int // operation outputs compared with the model
	mintO *big.Int   // oracle values (Block)
	consO *big.Int
	coins *big.Int // kdinfra: the coin amount returned by mintInfrastructurePeriods
}

func (w *world) exec(o op) stepRes {
	res := stepRes{mintO: new(big.Int), consO: new(big.Int)}
	switch o.Kind {
	case "block":
		before := w.snap()
		fp := w.tApp.GetDistrKeeper().GetFeePoolCommunityCoins(w.ctx).AmountOf("ukava").TruncateInt().BigInt()
		res.consO = fp
		ctx := NewCtx(w.tApp, w.height+1, tm(o.T))
		var e error
		res.cls, e = Atomically(ctx, func(c sdk.Context) error {
			w.tApp.BeginBlocker(c, abci.RequestBeginBlock{})
			return nil
		})
		if e != nil {
			res.msg = e.Error()
		}
		if res.cls == ClassOk {
			w.height++
			w.ctx = ctx
			after := w.snap()
			// what x/mint minted in this block: the provision of the minter it stored, under the
			// parameters it ran with (the community switch runs before it in the same block)
			mk := w.tApp.GetMintKeeper()
			res.mintO = mk.GetMinter(ctx).BlockProvision(mk.GetParams(ctx)).Amount.BigInt()
			fired := before[iUpg].Sign() != 0 && after[iUpg].Sign() == 0
			res.outs = []*big.Int{big.NewInt(0)}
			if fired {
				res.outs[0] = big.NewInt(1)
			}
		}
	case "adj":
		d := bi(o.A)
		ck := w.tApp.GetCommunityKeeper()
		res.cls, _ = Atomically(w.ctx, func(c sdk.Context) error {
			if d.Sign() >= 0 {
				return ck.FundCommunityPool(c, w.user, sdk.NewCoins(sdk.NewCoin("ukava", sdkmath.NewIntFromBigInt(d))))
			}
			return ck.DistributeFromCommunityPool(c, w.user, sdk.NewCoins(sdk.NewCoin("ukava", sdkmath.NewIntFromBigInt(new(big.Int).Neg(d)))))
		})
	case "rate":
		ck := w.tApp.GetCommunityKeeper()
		res.cls, _ = Atomically(w.ctx, func(c sdk.Context) error {
			p, _ := ck.GetParams(c)
			p.StakingRewardsPerSecond = decM(bi(o.A))
			ck.SetParams(c, p)
			return nil
		})
	case "kdact":
		kk := w.tApp.GetKavadistKeeper()
		res.cls, _ = Atomically(w.ctx, func(c sdk.Context) error {
			p := kk.GetParams(c)
			p.Active = o.B
			kk.SetParams(c, p)
			return nil
		})
		if res.cls == ClassOk && o.B && w.fired {
			w.reen = true
		}
	case "calc":
		var paid sdkmath.Int
		var e sdkmath.LegacyDec
		res.cls, _ = Atomically(w.ctx, func(c sdk.Context) error {
			paid, e = communitykeeper.VerifCalculateStakingRewards(tm(o.T), tm(o.Last), decM(bi(o.Err)), decM(bi(o.Rate)), decM(bi(o.Pool)))
			return nil
		})
		if res.cls == ClassOk {
			res.outs = []*big.Int{paid.BigInt(), e.BigInt()}
		}
	case "kdmint", "kdinfra":
		before := w.tApp.GetBankKeeper().GetSupply(w.ctx, "ukava").Amount.BigInt()
		kk := w.tApp.GetKavadistKeeper()
		var e error
		var infraCoins, infraTe *big.Int
		defer func() {
			if e != nil {
				res.msg = e.Error()
			}
		}()
		res.cls, e = Atomically(w.ctx, func(c sdk.Context) error {
			c = c.WithBlockTime(tm(o.T))
			if o.Kind == "kdmint" {
				return kk.VerifMintIncentivePeriods(c, periods(o.Ps), tm(o.Prev))
			}
			coins, el, err := kk.VerifMintInfrastructurePeriods(c, periods(o.Ps), tm(o.Prev))
			if err == nil {
				infraCoins, infraTe = coins.Amount.BigInt(), el.BigInt()
			}
			return err
		})
		if res.cls == ClassOk {
			after := w.tApp.GetBankKeeper().GetSupply(w.ctx, "ukava").Amount.BigInt()
			res.outs = []*big.Int{new(big.Int).Sub(after, before)}
			if o.Kind == "kdinfra" {
				res.outs = append(res.outs, infraTe)
				res.coins = infraCoins
			}
		}
	default:
		panic("unknown op kind " + o.Kind)
	}
	return res
}

// ------------------------------------------------------------ monitors

func unixOf(t int64) int64 { return t / ns } // all instants are after 1970

// kdAllowed is the most that may be minted for the period list when each
// period is minted only for the whole seconds of period ∩ (prev, now],
// compounding on the supply as it grows.  Written from the property, with the
// library's RelativePow for the per-second compounding.
func kdAllowed(ps []per, prev, now int64, supply *big.Int) (total *big.Int, ok bool) {
	defer func() {
		if recover() != nil {
			ok = false
		}
	}()
	s := new(big.Int).Set(supply)
	total = new(big.Int)
	for _, p := range ps {
		lo, hi := p.Start, p.End
		if prev > lo {
			lo = prev
		}
		if now < hi {
			hi = now
		}
		secs := unixOf(hi) - unixOf(lo)
		if hi <= lo || secs <= 0 {
			continue
		}
		infl := bi(p.Infl)
		if infl.Cmp(prec) < 0 {
			return nil, false // deflationary period: the bound below is not monotone; skip
		}
		acc := sdkmath.RelativePow(sdkmath.NewUintFromBigInt(infl), sdkmath.NewUint(uint64(secs)), sdkmath.NewUintFromBigInt(prec)).BigInt()
		a := new(big.Int).Mul(s, new(big.Int).Sub(acc, prec))
		a.Quo(a, prec)
		total.Add(total, a)
		s.Add(s, a)
	}
	return total, true
}

// kdSplits classifies each period of a call, independently of the model.
func kdSplits(ps []per, prev, now int64, mark func(string)) (unstarted bool) {
	for _, p := range ps {
		zero := func(from, to int64) {
			if unixOf(to) == unixOf(from) || bi(p.Infl).Cmp(prec) == 0 {
				mark("kd:period-mints-zero-coins")
			}
		}
		switch {
		case p.End < prev:
			mark("kd:case1-expired")
		case p.End > prev && p.End <= now:
			if p.Start <= prev {
				mark("kd:case2-ended-started-before-prev")
				zero(prev, p.End)
			} else {
				mark("kd:case2-ended-started-after-prev")
				unstarted = true
				zero(p.Start, p.End)
			}
			if p.End == now {
				mark("kd:case2-end-equals-now")
			}
			prev = p.End
		case p.Start <= prev && p.End > now:
			mark("kd:case3-ongoing")
			zero(prev, now)
			if p.Start == prev {
				mark("kd:case3-start-equals-prev")
			}
		case p.Start >= now:
			mark("kd:case4-not-started")
			if p.Start == now {
				mark("kd:case4-start-equals-now")
			}
		default:
			mark("kd:no-case-started-inside-block")
		}
	}
	return
}


// insideSecs is the number of whole seconds of the block interval (prev, now]
// that lie inside the periods of the list (written from the property).
func insideSecs(ps []per, prev, now int64) int64 {
	var n int64
	for _, p := range ps {
		lo, hi := p.Start, p.End
		if prev > lo {
			lo = prev
		}
		if now < hi {
			hi = now
		}
		if lo < hi {
			n += unixOf(hi) - unixOf(lo)
		}
	}
	return n
}

// mintedSecs is the number of whole seconds the period list is minted for in one
// call: a period that ended since the previous block from max(prev, Start) to its
// End (the next period then counts from that End), an ongoing period that had
// started by prev from prev to now; nothing else (the rule of the two minting loops).
func mintedSecs(ps []per, prev, now int64) int64 {
	var n int64
	for _, p := range ps {
		switch {
		case p.End < prev:
		case p.End > prev && p.End <= now:
			from := prev
			if p.Start > from {
				from = p.Start
			}
			n += unixOf(p.End) - unixOf(from)
			prev = p.End
		case p.Start <= prev && p.End > now:
			n += unixOf(now) - unixOf(prev)
		}
	}
	return n
}

// judgeElapsed states the rule for the time the partner rewards are multiplied by:
// exactly the seconds minted for, hence never more than the seconds of the block
// interval that lie inside the periods.
func judgeElapsed(te *big.Int, ps []per, prev, now int64, where string, mark func(string)) *failure {
	in, mt := insideSecs(ps, prev, now), mintedSecs(ps, prev, now)
	if te.Cmp(big.NewInt(in)) > 0 {
		return &failure{"partner-rewards-only-for-time-inside-periods", "partner-paid-for-time-outside-periods", fmt.Sprintf("%s: elapsed %s s, only %d s of (prev=%d, now=%d] lie inside the periods %s", where, te, in, prev, now, MustJSON(ps))}
	}
	if te.Cmp(big.NewInt(mt)) != 0 {
		return &failure{"partner-rewards-for-the-time-minted-for", "partner-elapsed-differs-from-time-minted-for", fmt.Sprintf("%s: elapsed %s s, minted for %d s (prev=%d now=%d periods %s)", where, te, mt, prev, now, MustJSON(ps))}
	}
	if mt < in {
		mark("infra:period-started-inside-block-interval-not-minted")
	}
	mark("infra:elapsed-equals-time-minted-for")
	return nil
}

// expectedDistribution is the rule for distributing [coins] minted for the
// infrastructure periods over [te] seconds: each partner its rate x te, in list
// order, then each core recipient its weight of what is left at that point
// (LegacyDec Mul then RoundInt), the rest stays with kavadist.  ok = false when
// the rule cannot be carried out (negative amount, more than what is left, a
// blocked address): the code fails the block then.
func expectedDistribution(c cfg, te int64, coins *big.Int) (users [nUsers]*big.Int, toPool, toKd *big.Int, ok bool) {
	for i := range users {
		users[i] = new(big.Int)
	}
	toPool, toKd = new(big.Int), new(big.Int)
	if te == 0 || coins.Sign() == 0 {
		return users, toPool, toKd, true
	}
	left := new(big.Int).Set(coins)
	pay := func(to string, a *big.Int) bool {
		if a.Sign() < 0 || a.Cmp(left) > 0 || to == "blk" {
			return false
		}
		switch to {
		case "kd":
			toKd.Add(toKd, a)
		case "cp":
			toPool.Add(toPool, a)
		default:
			i := int(to[1] - '0')
			users[i].Add(users[i], a)
		}
		left.Sub(left, a)
		return true
	}
	for _, p := range c.Partners {
		if !pay(p.To, new(big.Int).Mul(bi(p.V), big.NewInt(te))) {
			return users, toPool, toKd, false
		}
	}
	for _, p := range c.Cores {
		a := sdkmath.LegacyNewDecFromBigInt(left).Mul(decM(bi(p.V))).RoundInt().BigInt()
		if !pay(p.To, a) {
			return users, toPool, toKd, false
		}
	}
	return users, toPool, toKd, true
}

func (c cfg) names(to string) int {
	n := 0
	for _, p := range c.Partners {
		if p.To == to {
			n++
		}
	}
	for _, p := range c.Cores {
		if p.To == to {
			n++
		}
	}
	return n
}

func (c cfg) hasRewards() bool { return len(c.Partners)+len(c.Cores) > 0 }

// distPanicExpected says whether a panic of the begin blocker at block time t is
// explained by the distribution of the infrastructure coins as the code defines
// it: "no" (it must not panic on account of the distribution), "yes:<why>", or
// "unknown" (too close to call without re-doing the code's arithmetic).  The
// coins minted are asked of the code itself, on a branch of
// the pre-block state (x/mint has not run there, so the coins are lower by a
// relative 1e-8; hence the 1% margin).
func (w *world) distPanicExpected(c cfg, t int64, before snap, due bool, kdPs, kdInfra []per) (verdict string) {
	if before[iKdAct].Sign() == 0 || due || before[iKdPrev].Sign() == 0 || !c.hasRewards() {
		return "no"
	}
	defer func() {
		if recover() != nil {
			verdict = "unknown"
		}
	}()
	cc, _ := w.ctx.CacheContext()
	cc = cc.WithBlockTime(tm(t))
	kk := w.tApp.GetKavadistKeeper()
	prev := tm(before[iKdPrev].Int64())
	if err := kk.VerifMintIncentivePeriods(cc, periods(kdPs), prev); err != nil {
		return "unknown"
	}
	coin, _, err := kk.VerifMintInfrastructurePeriods(cc, periods(kdInfra), prev)
	if err != nil {
		return "unknown"
	}
	// the elapsed time by the rule (seconds minted for), not as the code reports it
	coins, te := coin.Amount.BigInt(), big.NewInt(mintedSecs(kdInfra, before[iKdPrev].Int64(), t))
	if coins.Sign() == 0 || te.Sign() == 0 {
		return "no"
	}
	need := new(big.Int)
	for _, p := range c.Partners {
		if p.To == "blk" {
			return "yes:blocked-recipient"
		}
		a := new(big.Int).Mul(bi(p.V), te)
		if a.Sign() < 0 {
			return "yes:negative-rate"
		}
		need.Add(need, a)
	}
	if need.Cmp(coins) > 0 {
		return "yes:shortfall"
	}
	if new(big.Int).Mul(need, big.NewInt(100)).Cmp(new(big.Int).Mul(coins, big.NewInt(99))) > 0 {
		return "unknown"
	}
	for _, p := range c.Cores {
		if p.To == "blk" {
			return "yes:blocked-recipient"
		}
		if wt := bi(p.V); wt.Sign() < 0 || wt.Cmp(prec) > 0 {
			return "unknown"
		}
	}
	return "no"
}

type payObs struct {
	paid, rg, e0, e1 *big.Int
	capped           bool
}

type monState struct {
	pays []payObs
}

type failure struct{ pred, sig, detail string }

func monitorBlock(w *world, ms *monState, c cfg, o op, r stepRes, before, after snap, kdPs, kdInfra []per, mark func(string)) []*failure {
	if r.cls != ClassOk {
		for i := 0; i < nProj; i++ {
			if before[i].Cmp(after[i]) != 0 {
				return []*failure{{"failed-block-no-change", "failed-block-changed-state", fmt.Sprint("component ", i)}}
			}
		}
		mark("block:panicked")
		if nonDeflationary(kdPs) && nonDeflationary(kdInfra) {
			due := before[iUpg].Sign() != 0 && o.T >= before[iUpg].Int64()
			switch v := w.distPanicExpected(c, o.T, before, due, kdPs, kdInfra); v {
			case "no":
				return []*failure{{"begin-block-does-not-panic-on-valid-schedule", "begin-block-panicked-on-valid-schedule", fmt.Sprintf("t=%d prev=%s periods %s infra %s partners %s cores %s: %s", o.T, before[iKdPrev], MustJSON(kdPs), MustJSON(kdInfra), MustJSON(c.Partners), MustJSON(c.Cores), r.msg)}}
			case "unknown":
				mark("infra:panic-unclassified")
			default:
				mark("infra:panic-" + v[4:])
				if os.Getenv("C19_DEBUG") != "" {
					fmt.Fprintf(os.Stderr, "C19_DEBUG block t=%d prev=%s panicked (%s): %s\n", o.T, before[iKdPrev], v, r.msg)
				}
			}
		}
		return nil
	}
	t := o.T
	armed := before[iUpg].Sign() != 0
	due := armed && t >= before[iUpg].Int64()
	fired := armed && after[iUpg].Sign() == 0
	dSup := new(big.Int).Sub(after[iSupply], before[iSupply])
	dKd := new(big.Int).Sub(after[iKdBal], before[iKdBal])
	dPool := new(big.Int).Sub(after[iPool], before[iPool])
	dSink := new(big.Int).Sub(after[iSink], before[iSink])
	dUsers := new(big.Int)
	for i := 0; i < nUsers; i++ {
		dUsers.Add(dUsers, new(big.Int).Sub(after[iUser0+i], before[iUser0+i]))
	}
	kdMinted := new(big.Int).Sub(dSup, r.mintO) // what kavadist minted: everything x/mint did not
	toPool := new(big.Int)                       // infrastructure rewards addressed to the community pool
	wasFired := w.fired
	if due {
		w.fired = true
	}
	var fails []*failure
	for _, part := range []func() *failure{
		// ---- every coin created in the block is in one of the observed accounts
		func() *failure {
			sum := new(big.Int).Add(dPool, dSink)
			sum.Add(sum, dKd).Add(sum, dUsers)
			if sum.Cmp(dSup) != 0 {
				return &failure{"every-minted-coin-goes-somewhere", "coins-unaccounted", fmt.Sprintf("supply %s vs pool %s + fee collector/distribution %s + kavadist %s + recipients %s", dSup, dPool, dSink, dKd, dUsers)}
			}
			if kdMinted.Sign() < 0 {
				return &failure{"kavadist-mints-non-negative", "negative-kavadist-mint", kdMinted.String()}
			}
			return nil
		},
		// ---- the one-shot switch
		func() *failure {
			switch {
			case due:
				mark("switch:fired")
				if t == before[iUpg].Int64() {
					mark("switch:block-exactly-at-upgrade-time")
				}
				if !fired || after[iMMin].Sign() != 0 || after[iMMax].Sign() != 0 || after[iKdAct].Sign() != 0 || after[iTax].Sign() != 0 {
					return &failure{"switch-at-first-block-at-or-after-upgrade-time", "switch-did-not-disable", fmt.Sprintf("t=%d upg=%s after: upg=%s min=%s max=%s kd=%s tax=%s", t, before[iUpg], after[iUpg], after[iMMin], after[iMMax], after[iKdAct], after[iTax])}
				}
				if after[iRate].Cmp(before[iUpgRate]) != 0 {
					return &failure{"switch-sets-staking-rate", "switch-rate-not-set", fmt.Sprintf("%s != %s", after[iRate], before[iUpgRate])}
				}
				if dSup.Sign() != 0 {
					return &failure{"switch-block-mints-nothing", "minted-in-switch-block", "supply delta " + dSup.String()}
				}
				if wasFired {
					return &failure{"switch-fires-once", "switch-fired-twice", ""}
				}
			default:
				if armed {
					mark("switch:armed-not-due")
					if t == before[iUpg].Int64()-1 {
						mark("switch:block-1ns-before-upgrade-time")
					}
				} else if wasFired {
					mark("switch:already-fired")
				} else {
					mark("switch:never-armed")
				}
				for _, i := range []int{iUpg, iUpgRate, iMMin, iMMax, iTax, iKdAct, iRate} {
					if before[i].Cmp(after[i]) != 0 {
						return &failure{"no-switch-before-upgrade-time", "params-changed-without-switch", fmt.Sprintf("component %d: %s -> %s (t=%d upg=%s)", i, before[i], after[i], t, before[iUpg])}
					}
				}
			}
			if w.fired && !w.reen && !due {
				// stays off: no new ukava from x/mint or kavadist, params stay zero
				if dSup.Sign() != 0 || after[iMMax].Sign() != 0 || after[iMMin].Sign() != 0 || after[iKdAct].Sign() != 0 {
					return &failure{"inflation-stays-off", "inflation-back-on", fmt.Sprintf("supply delta %s max=%s kd=%s", dSup, after[iMMax], after[iKdAct])}
				}
			}
			return nil
		},
		// ---- staking rewards
		func() *failure {
			cons := new(big.Int)
			if fired {
				cons.Set(r.consO)
			}
			poolAvail := new(big.Int).Add(before[iPool], cons)
			paid := new(big.Int).Sub(poolAvail, after[iPool])
			if c.hasRewards() && c.names("cp") > 0 {
				// the pool also receives infrastructure rewards: read the payout off the
				// fee collector side (payout + x/mint - consolidation) instead
				paid = new(big.Int).Add(dSink, cons)
				paid.Sub(paid, r.mintO)
				toPool.Sub(after[iPool], new(big.Int).Sub(poolAvail, paid))
				if toPool.Sign() < 0 {
					return &failure{"community-pool-moves-by-payout-and-rewards", "community-pool-lost-coins", toPool.String()}
				}
				if toPool.Sign() > 0 {
					mark("infra:to-community-pool")
				}
			}
			if before[iLast].Sign() == 0 {
				mark("pay:uninitialised")
				if paid.Sign() != 0 {
					return &failure{"first-block-only-initialises", "paid-on-uninitialised-state", paid.String()}
				}
			} else {
				if paid.Sign() < 0 || paid.Cmp(poolAvail) > 0 {
					return &failure{"paid-within-pool-balance", "paid-outside-pool-balance", fmt.Sprintf("paid %s pool %s", paid, poolAvail)}
				}
				gap := t - before[iLast].Int64()
				rg := new(big.Int).Mul(after[iRate], big.NewInt(gap)) // rate in force in this block * elapsed ns  (units 10^-27)
				capped := after[iPool].Cmp(toPool) == 0
				ms.pays = append(ms.pays, payObs{paid, rg, before[iErr], after[iErr], capped})
				if capped {
					mark("pay:capped-by-pool")
				} else if paid.Sign() == 0 {
					mark("pay:nothing-whole-yet")
				} else {
					mark("pay:paid")
				}
				if new(big.Int).Mod(rg, e9).Sign() != 0 {
					mark("pay:quoint-drops-dust")
				}
				if gap == 0 {
					mark("pay:zero-gap")
				}
				if after[iLast].Int64() != t {
					return &failure{"accumulation-time-advances", "accumulation-time-not-advanced", fmt.Sprint(after[iLast], " != ", t)}
				}
				// every interval ending at this block
				sp, srg := new(big.Int), new(big.Int)
				var strict *failure
				k := int64(0)
				nocap := true
				j := len(ms.pays) - 1
				for i := j; i >= 0; i-- {
					p := ms.pays[i]
					sp.Add(sp, p.paid)
					srg.Add(srg, p.rg)
					k++
					nocap = nocap && !p.capped
					dueAmt := new(big.Int).Mul(p.e0, e9) // carried error at the start of the interval
					dueAmt.Add(dueAmt, srg)
					got := new(big.Int).Mul(sp, e27)
					gotc := new(big.Int).Add(got, new(big.Int).Mul(ms.pays[j].e1, e9))
					if gotc.Cmp(dueAmt) > 0 {
						return &failure{"interval-total-at-most-rate-times-elapsed", "staking-overpay", fmt.Sprintf("payouts %d..%d: paid*1e27+carry %s > %s", i, j, gotc, dueAmt)}
					}
					if nocap {
						short := new(big.Int).Sub(dueAmt, got)
						bound := new(big.Int).Mul(new(big.Int).Sub(prec, big.NewInt(1)), e9)
						bound.Add(bound, new(big.Int).Mul(big.NewInt(k), new(big.Int).Sub(e9, big.NewInt(1))))
						if short.Cmp(bound) > 0 {
							return &failure{"interval-shortfall-within-bound", "staking-shortfall-exceeds-proven-bound", fmt.Sprintf("payouts %d..%d: shortfall %s > %s (1e-27 units)", i, j, short, bound)}
						}
						if short.Cmp(e27) >= 0 {
							strict = &failure{"interval-shortfall-less-than-one-unit", "staking-shortfall-reaches-one-unit-by-quoint-dust", fmt.Sprintf("payouts %d..%d (%d blocks): rate*elapsed+carry-in %s, paid %s units, shortfall %s >= 10^27 (1e-27 units)", i, j, k, dueAmt, new(big.Int).Set(sp), short)}
						}
					}
				}
				if strict != nil {
					mark("pay:shortfall-reaches-one-unit")
					return strict
				}
			}
			return nil
		},
		// ---- kavadist minting
		func() *failure {
			switch {
			case before[iKdAct].Sign() == 0 || fired:
				mark("kd:inactive")
				if kdMinted.Sign() != 0 || dKd.Sign() != 0 || before[iKdPrev].Cmp(after[iKdPrev]) != 0 {
					return &failure{"inactive-kavadist-mints-nothing", "inactive-kavadist-minted", kdMinted.String()}
				}
			case before[iKdPrev].Sign() == 0:
				mark("kd:prev-not-found")
				if kdMinted.Sign() != 0 || dKd.Sign() != 0 || after[iKdPrev].Int64() != t {
					return &failure{"first-active-block-only-initialises", "kavadist-minted-without-prev", kdMinted.String()}
				}
			default:
				prev := before[iKdPrev].Int64()
				un1 := kdSplits(kdPs, prev, t, mark)
				un2 := kdSplits(kdInfra, prev, t, mark)
				if after[iKdPrev].Int64() != t {
					return &failure{"kavadist-interval-advances", "kavadist-prev-not-advanced", fmt.Sprint(after[iKdPrev], " != ", t)}
				}
				s0 := new(big.Int).Sub(after[iSupply], kdMinted) // supply when kavadist starts minting
				a1, ok1 := kdAllowed(kdPs, prev, t, s0)
				if ok1 {
					a2, ok2 := kdAllowed(kdInfra, prev, t, new(big.Int).Add(s0, a1))
					if ok2 {
						allowed := new(big.Int).Add(a1, a2)
						if kdMinted.Cmp(allowed) > 0 {
							sig := "kavadist-overmint"
							if un1 || un2 {
								sig = "kavadist-mints-for-time-before-period-start"
							}
							return &failure{"minted-for-time-within-period-and-block-interval", sig, fmt.Sprintf("prev=%d now=%d minted %s > allowed %s (periods %s infra %s, supply %s)", prev, t, kdMinted, allowed, MustJSON(kdPs), MustJSON(kdInfra), s0)}
						}
					}
				}
			}
			return nil
		},
		// ---- distribution of the infrastructure coins
		func() *failure {
			outOfKd := new(big.Int).Sub(kdMinted, dKd) // left the kavadist account in this block
			for i := 0; i < nUsers; i++ {
				if after[iUser0+i].Cmp(before[iUser0+i]) < 0 {
					return &failure{"reward-recipients-only-receive", "reward-recipient-lost-coins", fmt.Sprint("user ", i)}
				}
			}
			active := before[iKdAct].Sign() != 0 && !fired && before[iKdPrev].Sign() != 0
			if !active || !c.hasRewards() {
				if outOfKd.Sign() != 0 || dUsers.Sign() != 0 {
					return &failure{"nothing-distributed-without-rewards-or-minting", "distributed-without-cause", fmt.Sprintf("left kavadist %s, recipients %s", outOfKd, dUsers)}
				}
				return nil
			}
			if outOfKd.Sign() < 0 {
				return &failure{"kavadist-keeps-at-most-what-it-minted", "kavadist-gained-more-than-minted", outOfKd.String()}
			}
			if dKd.Sign() < 0 {
				return &failure{"paid-out-within-minted", "kavadist-paid-more-than-it-minted", fmt.Sprintf("minted %s, balance moved by %s", kdMinted, dKd)}
			}
			prev := before[iKdPrev].Int64()
			s0 := new(big.Int).Sub(after[iSupply], kdMinted)
			if a1, ok1 := kdAllowed(kdPs, prev, t, s0); ok1 {
				if a2, ok2 := kdAllowed(kdInfra, prev, t, new(big.Int).Add(s0, a1)); ok2 && outOfKd.Cmp(a2) > 0 {
					return &failure{"infrastructure-rewards-within-infrastructure-mint", "infra-paid-more-than-minted", fmt.Sprintf("paid out %s > at most %s minted for the infrastructure periods (prev=%d now=%d infra %s)", outOfKd, a2, prev, t, MustJSON(kdInfra))}
				}
			}
			// the whole distribution against the rule, whenever kavadist minted exactly what the
			// schedule says (then the coins minted for the infrastructure periods are known)
			if a1, ok1 := kdAllowed(kdPs, prev, t, s0); ok1 {
				if a2, ok2 := kdAllowed(kdInfra, prev, t, new(big.Int).Add(s0, a1)); ok2 && kdMinted.Cmp(new(big.Int).Add(a1, a2)) == 0 {
					if eu, ep, _, ok := expectedDistribution(c, mintedSecs(kdInfra, prev, t), a2); ok {
						for i := 0; i < nUsers; i++ {
							if d := new(big.Int).Sub(after[iUser0+i], before[iUser0+i]); d.Cmp(eu[i]) != 0 {
								return &failure{"distribution-follows-rates-and-weights", "distribution-differs-from-rule", fmt.Sprintf("recipient u%d got %s, rule says %s (minted %s over %d s, partners %s cores %s)", i, d, eu[i], a2, mintedSecs(kdInfra, prev, t), MustJSON(c.Partners), MustJSON(c.Cores))}
							}
						}
						if c.names("cp") > 0 && toPool.Cmp(ep) != 0 {
							return &failure{"distribution-follows-rates-and-weights", "distribution-differs-from-rule", fmt.Sprintf("community pool got %s, rule says %s", toPool, ep)}
						}
						mark("infra:distribution-checked-against-rule")
					}
				}
			}
			if outOfKd.Sign() == 0 && dUsers.Sign() == 0 {
				mark("infra:nothing-distributed")
			} else {
				mark("infra:distributed")
			}
			// partner payments: the configured rate x ONE elapsed time, within the block interval;
			// read off the recipients that are named exactly once in the two lists
			var te *big.Int
			for _, p := range c.Partners {
				if p.To[0] != 'u' || c.names(p.To) != 1 {
					continue
				}
				i := int(p.To[1] - '0')
				d := new(big.Int).Sub(after[iUser0+i], before[iUser0+i])
				rate := bi(p.V)
				if rate.Sign() == 0 {
					if d.Sign() != 0 {
						return &failure{"partner-payment-is-rate-times-elapsed", "zero-rate-partner-paid", d.String()}
					}
					continue
				}
				q, m := new(big.Int).QuoRem(d, rate, new(big.Int))
				if m.Sign() != 0 {
					return &failure{"partner-payment-is-rate-times-elapsed", "partner-payment-not-a-multiple-of-rate", fmt.Sprintf("%s got %s at rate %s", p.To, d, rate)}
				}
				if te == nil {
					te = q
				} else if te.Cmp(q) != 0 {
					return &failure{"partner-payment-is-rate-times-elapsed", "partners-paid-for-different-times", fmt.Sprintf("%s vs %s seconds", te, q)}
				}
			}
			if te != nil {
				maxTe := unixOf(t) - unixOf(prev)
				if te.Sign() < 0 || te.Cmp(big.NewInt(maxTe)) > 0 {
					return &failure{"partner-elapsed-within-block-interval", "partner-paid-for-more-than-block-interval", fmt.Sprintf("%s s, block interval %d s", te, maxTe)}
				}
				if te.Sign() > 0 { // something was distributed: the elapsed time is visible
					if f := judgeElapsed(te, kdInfra, prev, t, "block", mark); f != nil {
						return f
					}
				}
			}
			return nil
		},
	} {
		if f := part(); f != nil {
			fails = append(fails, f)
		}
	}
	return fails
}

func monitorCalc(o op, r stepRes, mark func(string)) *failure {
	if r.cls != ClassOk {
		return nil
	}
	paid, e1 := r.outs[0], r.outs[1]
	gap := o.T - o.Last
	rate, e0, poolD := bi(o.Rate), bi(o.Err), bi(o.Pool)
	if gap < 0 || rate.Sign() < 0 || e0.Sign() < 0 || poolD.Sign() < 0 {
		mark("calc:out-of-domain")
		return nil
	}
	if e1.Sign() < 0 || e1.Cmp(prec) >= 0 || paid.Sign() < 0 {
		return &failure{"calc-error-in-unit-interval", "calc-bad-error", fmt.Sprintf("paid %s err %s", paid, e1)}
	}
	if new(big.Int).Mul(paid, prec).Cmp(poolD) > 0 {
		return &failure{"calc-paid-within-pool", "calc-above-pool", fmt.Sprintf("paid %s pool %s", paid, poolD)}
	}
	due := new(big.Int).Mul(e0, e9)
	rg := new(big.Int).Mul(rate, big.NewInt(gap))
	due.Add(due, rg)
	got := new(big.Int).Mul(paid, e27)
	got.Add(got, new(big.Int).Mul(e1, e9))
	if got.Cmp(due) > 0 {
		return &failure{"calc-at-most-rate-times-elapsed", "staking-overpay", fmt.Sprintf("%s > %s", got, due)}
	}
	// capped iff the pool is below what accrued
	acc := new(big.Int).Add(new(big.Int).Quo(rg, e9), e0)
	if poolD.Cmp(acc) < 0 {
		mark("calc:capped")
		if poolD.Cmp(acc.Sub(acc, big.NewInt(1))) == 0 {
			mark("calc:cap-boundary")
		}
	} else {
		mark("calc:not-capped")
		if poolD.Cmp(acc) == 0 {
			mark("calc:cap-boundary")
		}
		if new(big.Int).Sub(due, got).Cmp(e9) >= 0 {
			return &failure{"calc-loses-less-than-1e-18", "calc-drops-more-than-dust", fmt.Sprintf("%s vs %s", got, due)}
		}
	}
	if new(big.Int).Mod(rg, e9).Sign() != 0 {
		mark("calc:quoint-drops-dust")
	}
	return nil
}

func nonDeflationary(ps []per) bool {
	for _, p := range ps {
		if bi(p.Infl).Cmp(prec) < 0 || p.End < p.Start {
			return false
		}
	}
	return true
}

func monitorKd(w *world, o op, r stepRes, supplyBefore *big.Int, mark func(string)) *failure {
	if r.cls != ClassOk {
		mark("kddirect:panicked")
		if nonDeflationary(o.Ps) && o.Prev <= o.T {
			return &failure{"minting-does-not-panic-on-valid-schedule", "kavadist-panicked-on-valid-schedule", fmt.Sprintf("direct %s prev=%d now=%d periods %s: %s", o.Kind, o.Prev, o.T, MustJSON(o.Ps), r.msg)}
		}
		return nil
	}
	if o.Prev > o.T {
		return nil
	}
	un := kdSplits(o.Ps, o.Prev, o.T, mark)
	if o.Kind == "kdinfra" {
		if r.coins.Cmp(r.outs[0]) != 0 {
			return &failure{"coins-handed-to-distribution-are-the-coins-minted", "infra-coins-differ-from-minted", fmt.Sprintf("returned %s, supply moved by %s", r.coins, r.outs[0])}
		}
		if nonDeflationary(o.Ps) { // End >= Start for every period
			te, maxTe := r.outs[1], big.NewInt(unixOf(o.T)-unixOf(o.Prev))
			if te.Sign() < 0 || te.Cmp(maxTe) > 0 {
				return &failure{"partner-elapsed-within-block-interval", "partner-paid-for-more-than-block-interval", fmt.Sprintf("direct: elapsed %s s, block interval %s s (prev=%d now=%d periods %s)", te, maxTe, o.Prev, o.T, MustJSON(o.Ps))}
			}
			if f := judgeElapsed(te, o.Ps, o.Prev, o.T, "direct", mark); f != nil {
				return f
			}
		}
	}
	allowed, ok := kdAllowed(o.Ps, o.Prev, o.T, supplyBefore)
	if !ok {
		return nil
	}
	if r.outs[0].Cmp(allowed) > 0 {
		sig := "kavadist-overmint"
		if un {
			sig = "kavadist-mints-for-time-before-period-start"
		}
		return &failure{"minted-for-time-within-period-and-block-interval", sig, fmt.Sprintf("direct %s: prev=%d now=%d minted %s > allowed %s (periods %s, supply %s)", o.Kind, o.Prev, o.T, r.outs[0], allowed, MustJSON(o.Ps), supplyBefore)}
	}
	return nil
}

// ------------------------------------------------------------ generators

func genRate(r *Rng) *big.Int {
	switch r.Pick(10, 25, 15, 15, 10, 10, 10, 5) {
	case 0:
		return big.NewInt(0)
	case 1: // typical: hundreds of thousands of ukava per second with 18 decimals
		x := new(big.Int).Mul(big.NewInt(r.Int63n(2_000_000)), prec)
		return x.Add(x, big.NewInt(r.Int63n(1_000_000_000_000_000_000)))
	case 2: // tiny
		return big.NewInt(r.Int63n(1000))
	case 3: // fractional below one unit per second
		return big.NewInt(r.Int63n(1_000_000_000_000_000_000))
	case 4: // whole units
		return new(big.Int).Mul(big.NewInt(r.Int63n(1000)), prec)
	case 5: // multiples of 10^-9 (no dust for any gap)
		return new(big.Int).Mul(big.NewInt(r.Int63n(1_000_000_000_000)), e9)
	case 6: // near thirds of a unit per nanosecond: 333333333.3333333335 and neighbours
		x := bi("333333333333333333500000000")
		return x.Add(x, big.NewInt(int64(r.Intn(5)-2)*100_000_000))
	default: // huge
		return r.BigBits(64 + r.Intn(60))
	}
}

func genGap(r *Rng) int64 {
	switch r.Pick(12, 10, 12, 22, 10, 12, 12, 10) {
	case 0:
		return 1
	case 1:
		return int64(r.Intn(10))
	case 2: // sub-second
		return r.Int63n(ns)
	case 3: // typical block: 5-8 s with ns jitter
		return 5*ns + r.Int63n(3*ns)
	case 4: // whole seconds
		return int64(1+r.Intn(600)) * ns
	case 5: // hours
		return r.Int63n(24 * 3600 * ns)
	case 6: // days
		return int64(1+r.Intn(30)) * day
	default: // up to 30 days, arbitrary
		return r.Int63n(30 * day)
	}
}

func genInfl(r *Rng) string {
	switch r.Pick(10, 35, 25, 15, 6, 4, 5) {
	case 0:
		return prec.String() // 1.0: no inflation
	case 1: // around the mainnet per-second rates
		return new(big.Int).Add(prec, big.NewInt(r.Int63n(20_000_000_000))).String()
	case 2:
		return "1000000003022265980"
	case 3:
		return new(big.Int).Add(prec, big.NewInt(int64(r.Intn(3)))).String()
	case 4: // deflationary: negative coin => panic
		return new(big.Int).Sub(prec, big.NewInt(1+r.Int63n(1_000_000_000))).String()
	case 5:
		return "0"
	default:
		return new(big.Int).Add(prec, big.NewInt(r.Int63n(1_000_000))).String()
	}
}

// genPeriods draws a chronological period list laid out after base.
func genPeriods(r *Rng, base int64, n int, safe bool) []per {
	var out []per
	cur := base
	for i := 0; i < n; i++ {
		var start int64
		switch r.Pick(35, 15, 25, 25) {
		case 0:
			start = cur // contiguous with the previous period
		case 1:
			start = cur + int64(r.Intn(3))
		case 2:
			start = cur + int64(r.Intn(20))*ns + r.Int63n(2)*r.Int63n(ns)
		default:
			start = cur + r.Int63n(6*day)
		}
		var length int64
		switch r.Pick(10, 20, 20, 25, 25) {
		case 0:
			length = int64(r.Intn(3))
		case 1:
			length = int64(1+r.Intn(100)) * ns
		case 2:
			length = 3600 * ns
		case 3:
			length = r.Int63n(5 * day)
		default:
			length = int64(1+r.Intn(40)) * day
		}
		infl := genInfl(r)
		if safe && bi(infl).Cmp(prec) < 0 {
			infl = "1000000003022265980"
		}
		out = append(out, per{start, start + length, infl})
		cur = start + length
	}
	return out
}

func genCfg(r *Rng, kind int) cfg {
	c := cfg{Rate: genRate(r).String(), UpgRate: genRate(r).String(), KdActive: r.Chance(9, 10)}
	switch r.Pick(25, 20, 15, 40) {
	case 0:
		c.Upg = 0
	case 1:
		c.Upg = t0ns + 1 + r.Int63n(3*day)
	case 2:
		c.Upg = t0ns + int64(1+r.Intn(100))*ns
	default:
		c.Upg = t0ns + r.Int63n(250*day)
	}
	switch r.Pick(8, 12, 20, 60) {
	case 0:
		c.Pool = "0"
	case 1:
		c.Pool = fmt.Sprint(r.Intn(1000))
	case 2:
		c.Pool = fmt.Sprint(r.Int63n(1_000_000_000_000))
	default:
		c.Pool = Pow10(20 + r.Intn(8)).String()
	}
	base := t0ns - int64(r.Intn(3))*day
	safe := r.Chance(9, 10)
	c.Periods = genPeriods(r, base, r.Intn(4), safe)
	c.Infra = genPeriods(r, base+r.Int63n(2*day), r.Intn(3), safe)
	genRewards(r, &c)
	c.Uninit = r.Chance(1, 3)
	return c
}

func genTo(r *Rng) string {
	switch r.Pick(76, 9, 9, 6) {
	case 0:
		return fmt.Sprintf("u%d", r.Intn(nUsers))
	case 1:
		return "kd"
	case 2:
		return "cp"
	default:
		return "blk"
	}
}

// genRewards draws the partner and core reward lists.  perSec estimates what an
// infrastructure period mints per second, so that most rate lists are covered by
// the minted coins and some are not (the code then fails the whole block).
func genRewards(r *Rng, c *cfg) {
	if len(c.Infra) == 0 && r.Chance(1, 2) || r.Chance(1, 8) {
		return
	}
	if r.Chance(4, 5) { // an infrastructure schedule that is running from the first block on
		c.Infra = genPeriods(r, t0ns-r.Int63n(day), 1+r.Intn(2), true)
	}
	supply := new(big.Int).Add(bi(c.Pool), Pow10(15))
	perSec := new(big.Int).Quo(new(big.Int).Mul(supply, big.NewInt(3)), Pow10(9))
	risky := r.Chance(1, 10)
	for i, n := 0, r.Intn(4); i < n; i++ {
		var v *big.Int
		switch r.Pick(10, 25, 45, 15, 5) {
		case 0:
			v = big.NewInt(0)
		case 1:
			v = big.NewInt(1 + r.Int63n(1000))
		case 2: // a fraction of what is minted per second
			v = new(big.Int).Quo(new(big.Int).Mul(perSec, big.NewInt(int64(1+r.Intn(25)))), big.NewInt(100))
		case 3:
			v = new(big.Int).Quo(perSec, big.NewInt(int64(2+r.Intn(5))))
			if risky { // around or above the per-second mint: not covered
				v = new(big.Int).Quo(new(big.Int).Mul(perSec, big.NewInt(int64(80+r.Intn(60)))), big.NewInt(100))
			}
		default:
			v = big.NewInt(1)
			if risky {
				v = big.NewInt(-1 - r.Int63n(5))
			}
		}
		to := genTo(r)
		if to == "blk" && !risky {
			to = "u0"
		}
		c.Partners = append(c.Partners, rew{to, v.String()})
	}
	for i, n := 0, r.Intn(4); i < n; i++ {
		var v *big.Int
		switch r.Pick(10, 20, 15, 35, 10, 5, 5) {
		case 0:
			v = big.NewInt(0)
		case 1:
			v = new(big.Int).Quo(prec, big.NewInt(2))
		case 2:
			v = new(big.Int).Set(prec)
		case 3:
			v = big.NewInt(r.Int63n(1_000_000_000_000_000_000))
		case 4: // thirds, tenths: shares that round
			v = new(big.Int).Quo(prec, big.NewInt(int64(3+r.Intn(8))))
		case 5:
			v = big.NewInt(1 + r.Int63n(3)) // 10^-18
		default:
			v = new(big.Int).Set(prec)
			if risky { // just above one, or just below zero
				v = []*big.Int{new(big.Int).Add(prec, big.NewInt(1+r.Int63n(1000))), big.NewInt(-1 - r.Int63n(3)), new(big.Int).Mul(prec, big.NewInt(2))}[r.Intn(3)]
			}
		}
		to := genTo(r)
		if to == "blk" && !risky {
			to = "u1"
		}
		c.Cores = append(c.Cores, rew{to, v.String()})
	}
}

// boundary instants after now that the code compares block times with
func boundaries(c cfg, s snap, now int64) []int64 {
	var out []int64
	add := func(t int64) {
		for _, d := range []int64{-ns, -1, 0, 1, ns} {
			if t+d > now && t+d-now < 40*day {
				out = append(out, t+d)
			}
		}
	}
	if s[iUpg].Sign() != 0 {
		add(s[iUpg].Int64())
	}
	for _, p := range append(append([]per{}, c.Periods...), c.Infra...) {
		add(p.Start)
		add(p.End)
	}
	return out
}

func genOp(r *Rng, w *world, c cfg, s snap, direct bool) op {
	now := tns(w.ctx.BlockTime())
	weights := []int{58, 10, 8, 2, 12, 7, 3}
	if direct {
		weights = []int{6, 2, 2, 0, 50, 30, 10}
	}
	switch r.Pick(weights...) {
	case 0:
		t := now + genGap(r)
		if bs := boundaries(c, s, now); len(bs) > 0 && r.Chance(35, 100) {
			t = bs[r.Intn(len(bs))]
		}
		return op{Kind: "block", T: t}
	case 1:
		var d *big.Int
		switch r.Pick(30, 25, 25, 10, 10) {
		case 0:
			d = big.NewInt(r.Int63n(1_000_000))
		case 1:
			d = new(big.Int).Neg(new(big.Int).Add(s[iPool], big.NewInt(int64(r.Intn(3)-2)))) // spend about everything
		case 2:
			d = new(big.Int).Mul(big.NewInt(r.Int63n(1_000_000)), Pow10(r.Intn(8))) // the funder holds 10^15 spare ukava
		case 3:
			d = big.NewInt(0)
		default:
			d = big.NewInt(-r.Int63n(1000))
		}
		return op{Kind: "adj", A: d.String()}
	case 2:
		x := genRate(r)
		if r.Chance(1, 12) {
			x.Neg(x).Sub(x, big.NewInt(1))
		}
		return op{Kind: "rate", A: x.String()}
	case 3:
		return op{Kind: "kdact", B: r.Chance(1, 2)}
	case 4:
		return genCalc(r, now)
	default:
		kind := "kdmint"
		if r.Chance(1, 4) {
			kind = "kdinfra"
		}
		return genKd(r, now, kind)
	}
}

func genCalc(r *Rng, now int64) op {
	gap := genGap(r)
	if r.Chance(1, 15) {
		gap = 0
	}
	rate := genRate(r)
	var e0 *big.Int
	switch r.Pick(25, 20, 55) {
	case 0:
		e0 = big.NewInt(0)
	case 1:
		e0 = new(big.Int).Sub(prec, big.NewInt(1+int64(r.Intn(3))))
	default:
		e0 = big.NewInt(r.Int63n(1_000_000_000_000_000_000))
	}
	acc := new(big.Int).Mul(rate, big.NewInt(gap))
	acc.Quo(acc, e9).Add(acc, e0)
	var pool *big.Int
	switch r.Pick(35, 20, 15, 20, 10) {
	case 0: // ample
		pool = new(big.Int).Mul(new(big.Int).Add(new(big.Int).Quo(acc, prec), big.NewInt(1+r.Int63n(1_000_000))), prec)
	case 1: // whole units around what accrued
		pool = new(big.Int).Mul(new(big.Int).Add(new(big.Int).Quo(acc, prec), big.NewInt(int64(r.Intn(3)-1))), prec)
	case 2: // the Dec boundary itself (not a whole number of units)
		pool = new(big.Int).Add(acc, big.NewInt(int64(r.Intn(3)-1)))
	case 3:
		pool = new(big.Int).Mul(big.NewInt(r.Int63n(1000)), prec)
	default:
		pool = big.NewInt(0)
	}
	if pool.Sign() < 0 {
		pool = big.NewInt(0)
	}
	return op{Kind: "calc", T: now + gap, Last: now, Err: e0.String(), Rate: rate.String(), Pool: pool.String()}
}

func genKd(r *Rng, now int64, kind string) op {
	prev := now - genGap(r)
	ps := genPeriods(r, prev-int64(r.Intn(3))*day-r.Int63n(day), 1+r.Intn(3), r.Chance(9, 10))
	// aim prev / now at period edges
	var edges []int64
	for _, p := range ps {
		edges = append(edges, p.Start, p.End)
	}
	if r.Chance(1, 2) {
		prev = edges[r.Intn(len(edges))] + int64(r.Intn(3)-1)*[]int64{1, ns}[r.Intn(2)]
	}
	t := prev + genGap(r)
	if r.Chance(1, 2) {
		if e := edges[r.Intn(len(edges))] + int64(r.Intn(3)-1)*[]int64{1, ns}[r.Intn(2)]; e >= prev {
			t = e
		}
	}
	return op{Kind: kind, T: t, Prev: prev, Ps: ps}
}

// directed histories reproduce the two known defects and the switch edge on every run
func directed(idx int) (cfg, []op, bool) {
	base := cfg{Rate: "0", UpgRate: "0", Pool: "1000000000000", KdActive: true}
	switch idx {
	case 0: // a one-hour period lying between two blocks ten days apart
		c := base
		c.Periods = []per{{t0ns + 5*day, t0ns + 5*day + 3600*ns, "1000000003022265980"}}
		return c, []op{{Kind: "block", T: t0ns + 10*day}}, true
	case 1: // three blocks one nanosecond apart at 333333333.3333333335 ukava/s
		c := base
		c.Rate = "333333333333333333500000000"
		c.Pool = "1000"
		return c, []op{{Kind: "block", T: t0ns + 1}, {Kind: "block", T: t0ns + 2}, {Kind: "block", T: t0ns + 3}}, true
	case 2: // blocks just before, exactly on and after the disable time; kavadist ongoing period
		c := base
		c.Rate, c.UpgRate, c.Upg = "5000000000000000000", "744191000000000000000000", t0ns+100*ns
		c.Periods = []per{{t0ns - day, t0ns + 300*day, "1000000003022265980"}}
		return c, []op{{Kind: "block", T: t0ns + 100*ns - 1}, {Kind: "block", T: t0ns + 100*ns}, {Kind: "block", T: t0ns + 100*ns + 1}, {Kind: "block", T: t0ns + 30*day}}, true
	case 3: // same on the infrastructure periods, contiguous schedule with blocks on the edges
		c := base
		c.Infra = []per{{t0ns, t0ns + 10*ns, "1000000003022265980"}, {t0ns + 10*ns, t0ns + 20*ns, "1000000006000000000"}, {t0ns + 5*day, t0ns + 5*day + 3600*ns, "1000000003022265980"}}
		return c, []op{{Kind: "block", T: t0ns + 10*ns}, {Kind: "block", T: t0ns + 25*ns}, {Kind: "block", T: t0ns + 10*day}}, true
	case 4: // periods that mint zero coins: two blocks in the same Unix second, inflation 1.0, on both lists
		c := base
		c.Periods = []per{{t0ns - day, t0ns + 50*ns, "1000000003022265980"}, {t0ns + 50*ns, t0ns + 300*day, prec.String()}}
		c.Infra = []per{{t0ns - day, t0ns + 50*ns + 5, "1000000003022265980"}, {t0ns + 50*ns + 5, t0ns + 300*day, prec.String()}}
		return c, []op{{Kind: "block", T: t0ns + 300_000_000}, {Kind: "block", T: t0ns + 900_000_000}, {Kind: "block", T: t0ns + 50*ns + 2},
			{Kind: "block", T: t0ns + 50*ns + 7}, {Kind: "block", T: t0ns + 60*ns}, {Kind: "kdinfra", T: t0ns + 60*ns + 10, Prev: t0ns + 60*ns, Ps: c.Infra}}, true
	case 5: // distribution: partners (a user, the community pool), cores (a user at 50%, kavadist itself at 100% of the rest)
		c := base
		c.Infra = []per{{t0ns - day, t0ns + 300*day, "1000000003022265980"}}
		c.Partners = []rew{{"u0", "100"}, {"cp", "50"}}
		c.Cores = []rew{{"u1", "500000000000000000"}, {"kd", prec.String()}}
		return c, []op{{Kind: "block", T: t0ns + 6*ns}, {Kind: "block", T: t0ns + 6*ns + 5}, {Kind: "block", T: t0ns + 13*ns}}, true
	case 6: // (regression, fix f4ddd6441) a period ends inside the block interval, the next one lies in the future: partners are paid for the 5 s minted for, not for the 863990 s after the period's end
		c := base
		c.Infra = []per{{t0ns, t0ns + 10*ns, "1000000003022265980"}, {t0ns + 100*day, t0ns + 200*day, "1000000003022265980"}}
		c.Partners = []rew{{"u0", "1"}}
		return c, []op{{Kind: "block", T: t0ns + 5*ns}, {Kind: "block", T: t0ns + 10*day}}, true
	case 7: // (regression) the same with a partner at 0.05 KAVA/s: before the fix 863990 s were owed out of 5 s of minting and the begin blocker panicked on every block from then on
		c := base
		c.Infra = []per{{t0ns, t0ns + 10*ns, "1000000003022265980"}, {t0ns + 100*day, t0ns + 200*day, "1000000003022265980"}}
		c.Partners = []rew{{"u0", "50000"}}
		return c, []op{{Kind: "block", T: t0ns + 5*ns}, {Kind: "block", T: t0ns + 10*day}, {Kind: "block", T: t0ns + 11*day}}, true
	case 8: // (regression) contiguous periods, a block across the seam: partners are paid for both stretches (7 s), not for the last one only
		c := base
		c.Infra = []per{{t0ns, t0ns + 10*ns, "1000000003022265980"}, {t0ns + 10*ns, t0ns + 100*day, "1000000003022265980"}}
		c.Partners = []rew{{"u2", "7"}}
		c.Cores = []rew{{"u3", "333333333333333333"}}
		return c, []op{{Kind: "block", T: t0ns + 5*ns}, {Kind: "block", T: t0ns + 12*ns}, {Kind: "kdinfra", T: t0ns + 12*ns, Prev: t0ns + 5*ns, Ps: c.Infra}}, true
	case 9: // (reported only) a core reward addressed to the fee collector: x/bank refuses, the begin blocker panics
		c := base
		c.Infra = []per{{t0ns - day, t0ns + 300*day, "1000000003022265980"}}
		c.Partners = []rew{{"u0", "100"}}
		c.Cores = []rew{{"blk", "500000000000000000"}}
		return c, []op{{Kind: "block", T: t0ns + 6*ns}, {Kind: "block", T: t0ns + 6*ns + 5}}, true
	case 10: // (reported only) a mis-set rate: 5 KAVA/s owed, about 3.3 KAVA/s minted: the begin blocker panics instead of paying what it can
		c := base
		c.Infra = []per{{t0ns - day, t0ns + 300*day, "1000000003022265980"}}
		c.Partners = []rew{{"u0", "1000000"}, {"u1", "4000000"}}
		return c, []op{{Kind: "block", T: t0ns + 6*ns}, {Kind: "block", T: t0ns + 12*ns}}, true
	case 11: // the first community begin blocker ever is also the block that switches inflation off, an hour after the disable time: nothing is owed for time before the first accumulation
		c := base
		c.UpgRate, c.Upg, c.Uninit = "744191000000000000000000", t0ns+5*ns, true
		return c, []op{{Kind: "block", T: t0ns + 3600*ns}, {Kind: "block", T: t0ns + 3606*ns}}, true
	}
	return cfg{}, nil, false
}

// ------------------------------------------------------------ Coq rendering

func coqPer(ps []per) string {
	it := make([]string, len(ps))
	for i, p := range ps {
		it[i] = fmt.Sprintf("mkPeriod %s %s %s", Zi(p.Start), Zi(p.End), Z(bi(p.Infl)))
	}
	return List(it)
}

func coqTo(to string) string {
	switch to {
	case "kd":
		return "RKavadist"
	case "cp":
		return "RCommunity"
	case "blk":
		return "RBlocked"
	}
	return fmt.Sprintf("(RUser %s)", Nat(int(to[1]-'0')))
}

func coqRewards(rs []rew, ctor string) string {
	it := make([]string, len(rs))
	for i, p := range rs {
		it[i] = fmt.Sprintf("%s %s %s", ctor, coqTo(p.To), Z(bi(p.V)))
	}
	return List(it)
}

func coqOp(o op, r stepRes) string {
	switch o.Kind {
	case "block":
		return fmt.Sprintf("Block %s %s %s", Zi(o.T), Z(r.mintO), Z(r.consO))
	case "adj":
		return "PoolAdj " + Z(bi(o.A))
	case "rate":
		return "SetRate " + Z(bi(o.A))
	case "kdact":
		return "SetKdActive " + Bool(o.B)
	case "calc":
		return fmt.Sprintf("Calc %s %s %s %s %s", Zi(o.T), Zi(o.Last), Z(bi(o.Err)), Z(bi(o.Rate)), Z(bi(o.Pool)))
	case "kdmint":
		return fmt.Sprintf("KdMint %s %s %s", Zi(o.T), Zi(o.Prev), coqPer(o.Ps))
	default:
		return fmt.Sprintf("KdInfra %s %s %s", Zi(o.T), Zi(o.Prev), coqPer(o.Ps))
	}
}

func coqSnap(s snap) string { return ZList(s[:]) }

// coqDelta renders the components that changed as (position, new value) pairs.
func coqDelta(before, after snap) string {
	var it []string
	for i := 0; i < nProj; i++ {
		if before[i].Cmp(after[i]) != 0 {
			it = append(it, fmt.Sprintf("(%s, %s)", Nat(i), Z(after[i])))
		}
	}
	return List(it)
}

// ------------------------------------------------------------ history runner

type runOut struct {
	ops    []op
	coq    string
	fails  []*Failure // first failure of each signature
	sigs   map[string]bool
	splits map[string]bool
}

// runHist executes generated (ops == nil) or explicit operations.
func runHist(seed uint64, idx, n int, c cfg, ops []op, direct bool, cnt *Counters) runOut {
	w := setup(c)
	r := NewRng(seed, uint64(idx)+1_000_003)
	out := runOut{splits: map[string]bool{}, sigs: map[string]bool{}}
	mark := func(k string) {
		out.splits[k] = true
		if cnt != nil {
			cnt.Inc("split:" + k)
		}
	}
	ms := &monState{}
	prev := w.snap()
	init := prev
	var steps []string
	if ops != nil {
		n = len(ops)
	}
	kdPs, kdInfra := c.Periods, c.Infra
	for i := 0; i < n; i++ {
		var o op
		if ops != nil {
			o = ops[i]
		} else {
			o = genOp(r, w, c, prev, direct)
		}
		supBefore := prev[iSupply]
		res := w.exec(o)
		after := w.snap()
		out.ops = append(out.ops, o)
		if cnt != nil {
			cnt.Inc("op:" + o.Kind + ":" + res.cls.String())
		}
		steps = append(steps, fmt.Sprintf("(%s,\n    mkObs %s %s %s)", coqOp(o, res), res.cls.Coq(), coqDelta(prev, after), ZList(res.outs)))
		var f *failure
		var fs []*failure
		switch o.Kind {
		case "block":
			fs = monitorBlock(w, ms, c, o, res, prev, after, kdPs, kdInfra, mark)
		case "calc":
			f = monitorCalc(o, res, mark)
		case "kdmint", "kdinfra":
			f = monitorKd(w, o, res, supBefore, mark)
		case "adj":
			d := bi(o.A)
			want := new(big.Int).Add(prev[iPool], d)
			if res.cls == ClassOk && after[iPool].Cmp(want) != 0 || res.cls != ClassOk && after[iPool].Cmp(prev[iPool]) != 0 {
				f = &failure{"pool-adjust-exact", "pool-adjust-inexact", fmt.Sprint(prev[iPool], d, after[iPool])}
			}
			if res.cls != ClassOk {
				mark("adj:refused")
			}
		}
		if f != nil {
			fs = append(fs, f)
		}
		for _, f := range fs {
			if !out.sigs[f.sig] {
				out.sigs[f.sig] = true
				out.fails = append(out.fails, &Failure{History: idx, Step: i, Predicate: f.pred, Signature: f.sig, Detail: f.detail})
			}
		}
		prev = after
	}
	out.coq = fmt.Sprintf("mkHist (mk_state %s %s %s %s %s)\n  %s", coqSnap(init), coqPer(kdPs), coqPer(kdInfra), coqRewards(c.Partners, "mkPartner"), coqRewards(c.Cores, "mkCore"), List(steps))
	return out
}

var allSplits = []string{
	"pay:paid", "pay:nothing-whole-yet", "pay:capped-by-pool", "pay:quoint-drops-dust", "pay:zero-gap", "pay:shortfall-reaches-one-unit",
	"switch:fired", "switch:block-exactly-at-upgrade-time", "switch:block-1ns-before-upgrade-time", "switch:armed-not-due", "switch:already-fired", "switch:never-armed",
	"kd:inactive", "kd:prev-not-found", "kd:case1-expired", "kd:case2-ended-started-before-prev", "kd:case2-ended-started-after-prev", "kd:case2-end-equals-now",
	"kd:case3-ongoing", "kd:case3-start-equals-prev", "kd:case4-not-started", "kd:case4-start-equals-now", "kd:no-case-started-inside-block", "kd:period-mints-zero-coins",
	"infra:distributed", "infra:distribution-checked-against-rule", "infra:nothing-distributed", "infra:to-community-pool", "infra:elapsed-equals-time-minted-for",
	"infra:period-started-inside-block-interval-not-minted", "infra:panic-shortfall", "infra:panic-blocked-recipient",
	"calc:capped", "calc:not-capped", "calc:cap-boundary", "calc:quoint-drops-dust", "kddirect:panicked", "block:panicked", "adj:refused",
}

func histFor(seed uint64, idx int) (cfg, []op, bool, bool) {
	if c, ops, ok := directed(idx); ok {
		return c, ops, false, true
	}
	r := NewRng(seed, uint64(idx))
	direct := idx%4 == 3
	return genCfg(r, idx), nil, direct, false
}

func (ro runOut) failWith(sig string) *Failure {
	for _, f := range ro.fails {
		if f.Signature == sig {
			return f
		}
	}
	return nil
}

func shrinkFailure(seed uint64, idx int, c cfg, ro runOut, fail *Failure, direct bool) *Failure {
	sig := fail.Signature
	fails := func(cand []op) bool {
		if len(cand) == 0 {
			return false
		}
		return runHist(seed, idx, 0, c, cand, direct, nil).failWith(sig) != nil
	}
	ops := ro.ops[:fail.Step+1]
	small := Shrink(ops, fails)
	// drop configuration that is not needed
	c2 := c
	try := func(mod func(*cfg)) {
		cc := c2
		cc.Periods = append([]per(nil), c2.Periods...)
		cc.Infra = append([]per(nil), c2.Infra...)
		mod(&cc)
		if runHist(seed, idx, 0, cc, small, direct, nil).failWith(sig) != nil {
			c2 = cc
		}
	}
	try(func(x *cfg) { x.Partners, x.Cores = nil, nil })
	try(func(x *cfg) { x.Cores = nil })
	try(func(x *cfg) { x.Infra = nil })
	try(func(x *cfg) { x.Periods = nil })
	for len(c2.Periods) > 1 {
		before := len(c2.Periods)
		for i := range c2.Periods {
			i := i
			try(func(x *cfg) { x.Periods = append(append([]per(nil), x.Periods[:i]...), x.Periods[i+1:]...) })
			if len(c2.Periods) < before {
				break
			}
		}
		if len(c2.Periods) == before {
			break
		}
	}
	try(func(x *cfg) { x.Upg = 0 })
	try(func(x *cfg) { x.Rate = "0" })
	if f := runHist(seed, idx, 0, c2, small, direct, nil).failWith(sig); f != nil {
		f.History = idx
		f.Replay = MustJSON(hist{seed, idx, c2, small})
		return f
	}
	fail.Replay = MustJSON(hist{seed, idx, c, ops})
	return fail
}

func runC19(o Opts) (*Result, error) {
	n := o.Len
	if n == 0 {
		n = defaultL
	}
	res := &Result{Property: "C19", Seed: o.Seed,
		Rule: fmt.Sprintf("histories of up to %d operations (full app begin blocks at generated block times, community-pool deposits/spends, reward-rate updates, direct calls of calculateStakingRewards / mintIncentivePeriods / mintInfrastructurePeriods) from splitmix64(seed, history index) on a fresh app.TestApp with generated community / kavadist parameters; a history is non-trivial when it pays staking rewards in at least one block or mints kavadist inflation for at least one period window or fires the switch; distinct by hash of configuration and operation list", n)}
	cnt := NewCounters()

	if o.Replay != "" {
		bz, err := os.ReadFile(o.Replay)
		if err != nil {
			return nil, err
		}
		var h hist
		if err := json.Unmarshal(bz, &h); err != nil {
			return nil, err
		}
		ro := runHist(h.Seed, h.Idx, 0, h.Cfg, h.Ops, false, cnt)
		name, err := WriteShard(o.OutDir, 0, coqHead, []string{ro.coq}, "mismatches")
		if err != nil {
			return nil, err
		}
		res.Shards = []string{name}
		res.HistIndex = []HistRef{{0, 0, h.Idx, MustJSON(h)}}
		res.Histories, res.Evaluations = 1, len(h.Ops)
		for _, f := range ro.fails {
			f.Replay = MustJSON(h)
			res.Failures = append(res.Failures, *f)
		}
		res.Counters = cnt.Map()
		return res, nil
	}

	type outT struct {
		c  cfg
		ro runOut
	}
	outs := make([]outT, o.N)
	ParallelFor(o.N, o.Workers, func(i int) {
		c, ops, direct, _ := histFor(o.Seed, i)
		ro := runHist(o.Seed, i, n, c, ops, direct, cnt)
		for k, f := range ro.fails {
			ro.fails[k] = shrinkFailure(o.Seed, i, c, ro, f, direct)
		}
		outs[i] = outT{c, ro}
	})

	seen := map[string]bool{}
	perShard := 25
	var cases []string
	shard := 0
	flush := func() error {
		if len(cases) == 0 {
			return nil
		}
		name, err := WriteShard(o.OutDir, shard, coqHead, cases, "mismatches")
		if err != nil {
			return err
		}
		res.Shards = append(res.Shards, name)
		shard++
		cases = nil
		return nil
	}
	for i, ot := range outs {
		res.Histories++
		res.Evaluations += len(ot.ro.ops)
		h := hist{o.Seed, i, ot.c, ot.ro.ops}
		key := string(MustJSON(h.Cfg)) + string(MustJSON(h.Ops))
		nontrivial := false
		for k := range ot.ro.splits {
			switch k {
			case "pay:paid", "pay:capped-by-pool", "switch:fired", "kd:case2-ended-started-before-prev", "kd:case2-ended-started-after-prev", "kd:case3-ongoing", "infra:distributed":
				nontrivial = true
			}
		}
		if nontrivial && !seen[key] {
			seen[key] = true
			res.DistinctNontrivial++
		}
		if i < 2 || i == 5 {
			res.Samples = append(res.Samples, h)
		}
		res.HistIndex = append(res.HistIndex, HistRef{shard, len(cases), i, MustJSON(h)})
		cases = append(cases, ot.ro.coq)
		if len(cases) == perShard {
			if err := flush(); err != nil {
				return nil, err
			}
		}
		for _, f := range ot.ro.fails {
			res.Failures = append(res.Failures, *f)
		}
	}
	if err := flush(); err != nil {
		return nil, err
	}
	res.Counters = cnt.Map()
	for _, k := range allSplits {
		if res.Counters["split:"+k] == 0 {
			res.QualityGate = append(res.QualityGate, k)
		}
	}
	return res, nil
}
