package c17

// Generators: committee configurations, permissions, operations and proposed
// parameter documents derived from the stored ones by reordering keys and
// records, dropping, adding, duplicating keys and records, changing allowed and
// protected fields, case variants of keys, nulls and ill-typed values.

import (
	. "kavaverif/lib"

	"math/big"
	"strings"

	sdk "github.com/cosmos/cosmos-sdk/types"
)

type c17Gen struct {
	r      *Rng
	w      *c17World
	cnt    *Counters
	script []c17Op // a directed sequence being played
	idx    int     // history index
	matrix int     // matrix queries made so far in this history
}

// anyContent: a proposal of the given kind
func (g *c17Gen) anyContent(k string, perm *c17Perm, prev *c17Snap) *c17Content {
	switch k {
	case "text", "cchange", "cancelupgrade", "poolspend":
		return &c17Content{Kind: k}
	case "upgrade":
		return g.genUpgrade()
	case "param":
		for {
			if c := g.genContent0(perm, prev); c.Kind == "param" {
				return c
			}
		}
	}
	return g.genCommunity(k)
}

// staleUpgradeScript: a software-upgrade proposal that is valid when submitted and
// whose plan height has passed when it is decided - by the deadline (deadline
// tally) or by the deciding votes (first past the post).  It must then be closed
// as Invalid by the dry run of enactProposal; the real handler would fail.
func (g *c17Gen) staleUpgradeScript() []c17Op {
	w, r := g.w, g.r
	var cands []c17Com
	for _, id := range g.comIDs() {
		c := w.coms[id]
		if c.Token || c.Duration < 10*c17Sec {
			continue
		}
		for _, pm := range c.Perms {
			if pm.Kind == "other" || pm.Kind == "god" {
				cands = append(cands, c)
				break
			}
		}
	}
	if len(cands) == 0 {
		return nil
	}
	c := pick(r, cands)
	pid := w.nextPid
	h := w.height + int64(1+r.Intn(2))
	if r.Chance(3, 10) {
		h = w.height + 40 // still ahead when it is decided: scheduled
	}
	ops := []c17Op{{Kind: "submit", Com: c.ID, A: c.Members[0], Content: &c17Content{Kind: "upgrade", H: h}}}
	var votes []c17Op
	for _, m := range c.Members {
		votes = append(votes, c17Op{Kind: "vote", Pid: pid, A: m, Vt: 1})
	}
	blocks := []c17Op{{Kind: "begin", T: w.now + c17Sec}, {Kind: "begin", T: w.now + 2*c17Sec}, {Kind: "begin", T: w.now + 3*c17Sec}}
	if c.FPTP {
		// nobody votes for three blocks, then everybody does: decided at the next block
		ops = append(ops, blocks...)
		ops = append(ops, votes...)
		ops = append(ops, c17Op{Kind: "begin", T: w.now + 4*c17Sec})
	} else {
		// everybody votes at once; the decision waits for the deadline
		ops = append(ops, votes...)
		ops = append(ops, blocks...)
		ops = append(ops, c17Op{Kind: "begin", T: w.now + c.Duration})
	}
	if g.cnt != nil {
		g.cnt.Inc("split:script:stale-upgrade")
	}
	return ops
}

// communityScript: a community proposal of a kind one of the committee's permissions
// allows (or not, now and then), with amounts the keepers can serve, voted through
// by every member and decided at the next block or at the deadline.
func (g *c17Gen) communityScript() []c17Op {
	w, r := g.w, g.r
	kind := pick(r, communityKinds)
	var cands []c17Com
	for _, id := range g.comIDs() {
		c := w.coms[id]
		if c.Token {
			continue
		}
		if anyTypeAllows(c.Perms, kind) || r.Chance(1, 10) {
			cands = append(cands, c)
		}
	}
	if len(cands) == 0 {
		return nil
	}
	c := pick(r, cands)
	content := &c17Content{Kind: kind}
	switch kind {
	case "lenddeposit":
		content.Coins = pick(r, [][]c17Coin{{{"ukava", 1_000_000}}, {{"usdx", 2_000_000}}, {{"ukava", 3_000_000}, {"usdx", 1_000_000}}, {{"ukava", 3_000_000_000}}})
	case "lendwithdraw":
		content.Coins = pick(r, [][]c17Coin{{{"ukava", 1_000_000}}, {{"usdx", 2_000_000}}, {{"ukava", 700_000_000}, {"usdx", 1_000_000}}, {{"ukava", 1_500_000_000}}, {{"usdx", 1_000_000_000}}})
	case "cdprepay":
		content.CType = "xrp-a"
		content.Coins = []c17Coin{{"usdx", pick(r, []int64{1_000_000, 5_000_000, 20_000_000, 30_000_000, 60_000_000})}}
	default:
		content.CType = "xrp-a"
		content.Coins = []c17Coin{{"xrp", pick(r, []int64{1_000_000_000, 40_000_000_000, 100_000_000_000})}}
	}
	pid := w.nextPid
	ops := []c17Op{{Kind: "submit", Com: c.ID, A: c.Members[0], Content: content}}
	for _, m := range c.Members {
		ops = append(ops, c17Op{Kind: "vote", Pid: pid, A: m, Vt: 1})
	}
	if r.Chance(2, 5) { // a second one of the same kind in the same block: the first uses up what the second needs
		switch kind {
		case "lendwithdraw":
			content.Coins = []c17Coin{{"usdx", 1_000_000_000}}
		case "cdprepay":
			content.Coins = []c17Coin{{"usdx", 60_000_000}}
		case "cdpwithdraw":
			content.Coins = []c17Coin{{"xrp", 100_000_000_000}}
		}
		c2 := *content
		ops = append(ops, c17Op{Kind: "submit", Com: c.ID, A: c.Members[0], Content: &c2})
		for _, m := range c.Members {
			ops = append(ops, c17Op{Kind: "vote", Pid: pid + 1, A: m, Vt: 1})
		}
	}
	ops = append(ops, c17Op{Kind: "begin", T: w.now + c17Sec})
	if !c.FPTP {
		ops = append(ops, c17Op{Kind: "begin", T: w.now + c.Duration})
	}
	if g.cnt != nil {
		g.cnt.Inc("split:script:community")
	}
	return ops
}

// movedParamScript: a parameter-change proposal that its committee may submit now
// (it changes debt_floor only, which the allow-list names) and may no longer enact
// when it is decided, because x/gov changed a protected field (conversion_factor) of the
// same parameter in between: the stored document now differs from the current value
// in a protected field.  The permission re-check of enactProposal must close it Invalid.
func (g *c17Gen) movedParamScript(prev *c17Snap) []c17Op {
	w, r := g.w, g.r
	var cands []c17Com
	for _, id := range g.comIDs() {
		c := w.coms[id]
		if c.Token {
			continue
		}
		all, single, _ := allowedFor(c.Perms, 2)
		if all || !single["debt_floor"] || single["conversion_factor"] {
			continue
		}
		cands = append(cands, c)
	}
	cur, err := parseJSON([]byte(prev.raws[2]))
	if len(cands) == 0 || err != nil || cur.K != 'o' {
		return nil
	}
	c := pick(r, cands)
	other := func(name string, vals ...string) *jnode {
		for _, v := range vals {
			if x := cur.get(name); x == nil || x.text() != v {
				return g.val(v)
			}
		}
		return g.val(vals[0])
	}
	doc := cur.clone()
	setKey(doc, "debt_floor", other("debt_floor", `"1"`, `"20000000"`))
	moved := cur.clone()
	setKey(moved, "conversion_factor", other("conversion_factor", `"8"`, `"6"`))
	pid := w.nextPid
	ops := []c17Op{
		{Kind: "submit", Com: c.ID, A: c.Members[0], Content: &c17Content{Kind: "param", Changes: []c17Change{{2, doc.text()}}}},
		{Kind: "apply", Content: &c17Content{Kind: "param", Changes: []c17Change{{2, moved.text()}}}},
	}
	for _, m := range c.Members {
		ops = append(ops, c17Op{Kind: "vote", Pid: pid, A: m, Vt: 1})
	}
	ops = append(ops, c17Op{Kind: "begin", T: w.now + c17Sec})
	if !c.FPTP {
		ops = append(ops, c17Op{Kind: "begin", T: w.now + c.Duration})
	}
	if g.cnt != nil {
		g.cnt.Inc("split:script:moved-param")
	}
	return ops
}

var (
	assetAttrs = []string{"coin_id", "active", "supply_limit", "fixed_fee", "min_swap_amount", "max_swap_amount", "min_block_lock", "max_block_lock", "deputy_address"}
	collAttrs  = []string{"liquidation_ratio", "debt_limit", "stability_fee", "auction_size", "liquidation_penalty", "keeper_reward_percentage", "check_collateralization_index_count", "conversion_factor", "spot_market_id", "liquidation_market_id"}
	debtAttrs  = []string{"debt_floor", "conversion_factor", "reference_asset", "denom"}
)

func subset(r *Rng, pool []string, extra string) []string {
	var out []string
	k := r.Pick(10, 35, 30, 15, 10)
	for len(out) < k && len(out) < len(pool) {
		c := pool[r.Intn(len(pool))]
		dup := false
		for _, x := range out {
			if x == c {
				dup = true
			}
		}
		if !dup {
			out = append(out, c)
		}
	}
	if extra != "" && r.Chance(1, 12) {
		out = append(out, extra)
	}
	if out == nil {
		out = []string{}
	}
	return out
}

func c17GenPerm(r *Rng, allowPanic bool) c17Perm {
	p := c17Perm{Kind: "params"}
	if r.Chance(85, 100) {
		ac := c17AC{P: 0}
		for _, d := range []string{"bnb", "inc", "xrpb"} {
			if r.Chance(12, 100) {
				continue // a record without a requirement: nothing can be changed at all
			}
			attrs := subset(r, assetAttrs, "denom")
			if d == "inc" && r.Chance(45, 100) {
				attrs = []string{"coin_id"}
			}
			if d == "xrpb" && r.Chance(30, 100) {
				attrs = []string{"min_swap_amount", "max_block_lock"}
			}
			ac.Multi = append(ac.Multi, c17Req{"denom", d, attrs})
		}
		if len(ac.Multi) > 0 {
			p.ACs = append(p.ACs, ac)
		}
	}
	if r.Chance(80, 100) {
		ac := c17AC{P: 1}
		if r.Chance(8, 100) {
			// a requirement key that does not identify records: both bnb types select the same rule,
			// and the rule allows every field in which they differ
			ac.Multi = append(ac.Multi, c17Req{"denom", "bnb", append([]string{"type", "liquidation_ratio", "stability_fee"}, subset(r, collAttrs, "")...)})
			ac.Multi = append(ac.Multi, c17Req{"denom", "xrp", subset(r, collAttrs, "")})
		} else if r.Chance(85, 100) {
			for _, t := range []string{"bnb-a", "bnb-b", "xrp-a"} {
				if r.Chance(8, 100) {
					continue
				}
				ac.Multi = append(ac.Multi, c17Req{"type", t, subset(r, collAttrs, "type")})
			}
		} else {
			for _, d := range []string{"bnb", "xrp"} {
				ac.Multi = append(ac.Multi, c17Req{"denom", d, subset(r, append([]string{"type", "type"}, collAttrs...), "")})
			}
		}
		if len(ac.Multi) > 0 {
			p.ACs = append(p.ACs, ac)
		}
	}
	if r.Chance(80, 100) {
		attrs := subset(r, debtAttrs, "")
		if len(attrs) == 0 {
			attrs = []string{"debt_floor"}
		}
		p.ACs = append(p.ACs, c17AC{P: 2, Single: attrs})
	}
	if r.Chance(5, 100) {
		p.ACs = append(p.ACs, c17AC{P: r.Intn(3)}) // no sub-parameter rules: everything allowed
	}
	if r.Chance(3, 100) {
		p.ACs = append(p.ACs, c17AC{P: -1, Single: []string{"x"}})
	}
	if allowPanic && r.Chance(4, 100) {
		p.ACs = append(p.ACs, c17AC{P: -2, Single: []string{"x"}})
	}
	if r.Chance(6, 100) && len(p.ACs) > 0 { // a second rule for the same parameter
		d := p.ACs[r.Intn(len(p.ACs))]
		if d.P == 2 {
			p.ACs = append(p.ACs, c17AC{P: 2, Single: subset(r, debtAttrs, "")})
		} else if d.P >= 0 {
			p.ACs = append(p.ACs, c17AC{P: d.P, Multi: append([]c17Req(nil), d.Multi...)})
		}
	}
	if p.ACs == nil {
		p.ACs = []c17AC{{P: 2, Single: []string{"debt_floor"}}}
	}
	return p
}

func pick[T any](r *Rng, xs []T) T { return xs[r.Intn(len(xs))] }

func c17GenSetup(r *Rng) c17Setup {
	s := c17Setup{IncActive: r.Chance(1, 10), RefAssetSet: r.Chance(1, 2), EmptyAssets: r.Chance(1, 40), XrpbCoinZero: r.Chance(1, 2),
		PoolFunded: r.Chance(85, 100), HardDeposit: r.Chance(80, 100), Cdp: r.Chance(85, 100)}
	// tally-denom balances: the default thousand, or supplies that thirds, sixths and sevenths divide exactly
	switch r.Pick(40, 25, 20, 15) {
	case 1:
		s.Bals = []int64{1_000_000, 600_000, 400_000, 500_000, 0, 500_000} // 3 000 000
	case 2:
		s.Bals = []int64{1_400_000, 700_000, 600_000, 100_000, 0, 1_400_000} // 4 200 000
	case 3:
		s.Bals = []int64{7, 14, 21, 0, 0, 0} // 42
	}
	sec := c17Sec
	perms := func(god bool) []c17Perm {
		if god {
			return []c17Perm{{Kind: "god"}}
		}
		ps := []c17Perm{c17GenPerm(r, false)}
		if r.Chance(1, 2) {
			ps = append(ps, c17Perm{Kind: "text"})
		}
		if r.Chance(7, 10) {
			ps = append([]c17Perm{{Kind: "other"}}, ps...) // SoftwareUpgradePermission
		}
		if r.Chance(1, 4) {
			// everything allowed for a scalar parameter whose validator dereferences a nil Int / Dec
			for i := range ps {
				if ps[i].Kind == "params" {
					ps[i].ACs = append(append([]c17AC(nil), ps[i].ACs...), c17AC{P: -3 - r.Intn(2)})
				}
			}
		}
		// the three x/community permissions, alone and in combinations, before or after the others
		for _, k := range []string{"cdprepay", "cdpwithdraw", "lendwithdraw"} {
			if r.Chance(35, 100) {
				if r.Chance(1, 2) {
					ps = append(ps, c17Perm{Kind: k})
				} else {
					ps = append([]c17Perm{{Kind: k}}, ps...)
				}
			}
		}
		if r.Chance(1, 12) { // a committee without a ParamsChangePermission
			var out []c17Perm
			for _, q := range ps {
				if q.Kind != "params" {
					out = append(out, q)
				}
			}
			if len(out) > 0 {
				ps = out
			}
		}
		return ps
	}
	s.Coms = []c17Com{
		{ID: 1, Members: []int{0, 1, 2}, Perms: perms(false), Threshold: pick(r, []string{"0.5", "0.667", "1.0", "0.34", "0.666666666666666667", "0.333333333333333333"}),
			Duration: pick(r, []int64{50 * sec, 100 * sec, 200 * sec, 0, 50*sec + sec/2, 100*sec + 1}), FPTP: r.Chance(6, 10)},
		{ID: 2, Members: []int{0, 1, 2, 3}, Perms: perms(r.Chance(1, 3)), Threshold: pick(r, []string{"0.5", "0.75", "0.25", "0.666666666666666667"}),
			Duration: pick(r, []int64{40 * sec, 100 * sec, 40*sec + sec/4}), FPTP: r.Chance(2, 10)},
		{ID: 3, Token: true, Quorum: pick(r, c17Quorums), Members: []int{0, 5}, Perms: append(perms(false), c17Perm{Kind: "text"}),
			Threshold: pick(r, c17TokenThresholds), Duration: pick(r, []int64{60 * sec, 100 * sec, 60*sec + sec/2}), FPTP: r.Chance(5, 10)},
	}
	return s
}

// quorums and thresholds: short decimals and the 18-digit roundings of 1/3, 2/3, 1/6, 5/6, 1/7, 6/7
// (LegacyDec rounds half to even: 2/3, 1/6 and 6/7 are rounded up, the others down)
var c17Quorums = []string{"0.4", "0.3", "0.0", "0.65", "0.666666666666666667", "0.666666666666666667", "0.333333333333333333", "0.166666666666666667", "0.142857142857142857", "0.857142857142857143"}
var c17TokenThresholds = []string{"0.5", "0.75", "0.6", "0.666666666666666667", "0.333333333333333333", "0.833333333333333333", "0.142857142857142857"}

// ------------------------------------------------------------ documents

var goodVals = map[string][]string{
	"coin_id": {`"0"`, `"714"`, `"9999"`, `"1"`, `"42"`}, "active": {`true`, `false`},
	"fixed_fee": {`"0"`, `"1000"`, `"2000"`}, "min_swap_amount": {`"1"`, `"2"`}, "max_swap_amount": {`"1000000000000"`, `"500"`},
	"min_block_lock": {`"0"`, `"100"`, `"220"`}, "max_block_lock": {`"270"`, `"300"`},
	"deputy_address": {"@0", "@6"}, "denom": {`"bnb"`, `"busd"`, `"usdx"`, `"inc"`},
	"liquidation_ratio": {`"1.500000000000000000"`, `"2.250000000000000000"`}, "stability_fee": {`"1.000000001547125958"`, `"1.000000000000000000"`},
	"auction_size": {`"7000000000"`, `"5"`}, "liquidation_penalty": {`"0.050000000000000000"`, `"0.100000000000000000"`},
	"keeper_reward_percentage": {`"0.010000000000000000"`, `"0.020000000000000000"`}, "check_collateralization_index_count": {`"10"`, `"0"`},
	"conversion_factor": {`"8"`, `"6"`}, "spot_market_id": {`"bnb:usd"`, `"xrp:usd"`}, "liquidation_market_id": {`"bnb:usd:30"`, `"xrp:usd:30"`},
	"type": {`"bnb-c"`, `"bnb-a"`}, "debt_floor": {`"10000000"`, `"1"`, `"20000000"`}, "reference_asset": {`"usd"`, `""`, `"eur"`},
	"limit": {`"400000000000000"`, `"350000000000000"`}, "time_limited": {`true`, `false`}, "time_period": {`"7200000000000"`, `"3600000000000"`},
	"time_based_limit": {`"100"`, `"0"`, `"50000000000"`}, "amount": {`"600000000000"`, `"500000000000"`},
}

var badVals = []string{`"-5"`, `"-1.000000000000000000"`, `"7.000000000000000000"`, `""`, `" "`, `"9223372036854775808"`, `"18446744073709551616"`,
	`"notanaddress"`, `"x"`, `"115792089237316195423570985008687907853269984665640564039457584007913129639936"`}

func (g *c17Gen) val(text string) *jnode {
	if strings.HasPrefix(text, "@") {
		if text == "@6" {
			return jStr(g.w.deputy.String())
		}
		return jStr(g.w.addrs[0].String())
	}
	j, err := parseJSON([]byte(text))
	if err != nil {
		panic(err)
	}
	return j
}

func (g *c17Gen) mark(k string) {
	if g.cnt != nil {
		g.cnt.Inc("split:doc:" + k)
	}
}

func setKey(o *jnode, k string, v *jnode) {
	for i := len(o.O) - 1; i >= 0; i-- {
		if o.O[i].K == k {
			o.O[i].V = v
			return
		}
	}
	o.O = append(o.O, jkv{k, v})
}

func dropKey(o *jnode, k string) {
	var out []jkv
	for _, kv := range o.O {
		if kv.K != k {
			out = append(out, kv)
		}
	}
	o.O = out
}

func (g *c17Gen) shuffleKeys(o *jnode) {
	for i := len(o.O) - 1; i > 0; i-- {
		j := g.r.Intn(i + 1)
		o.O[i], o.O[j] = o.O[j], o.O[i]
	}
}

// goodValue proposes a well-formed new value for a field
func (g *c17Gen) goodValue(f fieldInfo, cur *jnode) *jnode {
	if f.Kind == "obj" {
		var o *jnode
		if cur != nil && cur.K == 'o' {
			o = cur.clone()
		} else {
			o = jObj(nil)
		}
		sf := f.Sub[g.r.Intn(len(f.Sub))]
		if vs, ok := goodVals[sf.Name]; ok {
			setKey(o, sf.Name, g.val(pick(g.r, vs)))
		}
		g.mark("nested-changed")
		return o
	}
	if vs, ok := goodVals[f.Name]; ok {
		return g.val(pick(g.r, vs))
	}
	return jStr("x")
}

func fieldByName(sch []fieldInfo, n string) *fieldInfo {
	for i := range sch {
		if sch[i].Name == n {
			return &sch[i]
		}
	}
	return nil
}

func upperFirst(s string) string {
	if s == "" {
		return s
	}
	return strings.ToUpper(s[:1]) + s[1:]
}

// mutateRecord changes one record: allowed attributes first, then noise.
func (g *c17Gen) mutateRecord(rec *jnode, sch []fieldInfo, attrs []string, noisy bool) {
	r := g.r
	if rec.K != 'o' {
		return
	}
	if len(attrs) > 0 && r.Chance(75, 100) {
		for k := 0; k < 1+r.Intn(2); k++ {
			a := attrs[r.Intn(len(attrs))]
			if f := fieldByName(sch, a); f != nil {
				setKey(rec, a, g.goodValue(*f, rec.get(a)))
			}
		}
	}
	if !noisy {
		return
	}
	var absent, present []fieldInfo
	for _, f := range sch {
		if rec.get(f.Name) == nil {
			absent = append(absent, f)
		} else {
			present = append(present, f)
		}
	}
	isAllowed := func(n string) bool {
		for _, a := range attrs {
			if a == n {
				return true
			}
		}
		return false
	}
	var allowedPresent []string
	for _, f := range present {
		if isAllowed(f.Name) {
			allowedPresent = append(allowedPresent, f.Name)
		}
	}
	for k := 0; k < 1+r.Intn(2); k++ {
		switch r.Pick(12, 10, 6, 4, 5, 8, 16, 6, 6, 5, 5, 5, 5, 6, 5) {
		case 0:
			g.shuffleKeys(rec)
			g.mark("reordered-keys")
		case 1: // change a protected field
			f := sch[r.Intn(len(sch))]
			if !isAllowed(f.Name) {
				setKey(rec, f.Name, g.goodValue(f, rec.get(f.Name)))
				g.mark("protected-changed")
			}
		case 2: // drop an allowed key
			if len(allowedPresent) > 0 {
				dropKey(rec, pick(r, allowedPresent))
				g.mark("dropped-allowed-key")
			}
		case 3: // drop a protected key
			if len(present) > 0 {
				dropKey(rec, pick(r, present).Name)
			}
		case 4:
			setKey(rec, pick(r, []string{"extra", "memo", "Active2"}), g.val(pick(r, []string{`"x"`, `true`, `5`, `null`})))
		case 5: // add an absent omitempty key (zero or non-zero value)
			if len(absent) > 0 {
				f := pick(r, absent)
				setKey(rec, f.Name, g.goodValue(f, nil))
				g.mark("added-absent-omitempty")
			}
		case 6: // drop an allowed key AND add an absent omitempty key: the lengths agree again
			if len(absent) > 0 && len(allowedPresent) > 0 {
				f := pick(r, absent)
				dropKey(rec, pick(r, allowedPresent))
				setKey(rec, f.Name, g.goodValue(f, nil))
				g.mark("drop-and-add")
			}
		case 7: // duplicate key, same or different value, before or after
			if len(rec.O) > 0 {
				kv := rec.O[r.Intn(len(rec.O))]
				nv := kv.V.clone()
				if r.Chance(1, 2) {
					if f := fieldByName(sch, kv.K); f != nil {
						nv = g.goodValue(*f, kv.V)
					}
				}
				if r.Chance(1, 2) {
					rec.O = append(rec.O, jkv{kv.K, nv})
				} else {
					rec.O = append([]jkv{{kv.K, nv}}, rec.O...)
				}
				g.mark("dup-key")
			}
		case 8: // case variant of a key: instead of, or next to, the exact one
			if len(rec.O) > 0 {
				i := r.Intn(len(rec.O))
				name := rec.O[i].K
				variant := pick(r, []string{upperFirst(name), strings.ToUpper(name)})
				if r.Chance(1, 2) {
					rec.O[i].K = variant
				} else if f := fieldByName(sch, name); f != nil {
					rec.O = append(rec.O, jkv{variant, g.goodValue(*f, rec.O[i].V)})
				}
				g.mark("case-variant")
			}
		case 9:
			if len(rec.O) > 0 {
				rec.O[r.Intn(len(rec.O))].V = jNull()
				g.mark("null-value")
			}
		case 10:
			if len(rec.O) > 0 {
				rec.O[r.Intn(len(rec.O))].V = g.val(pick(r, []string{`5`, `true`, `[]`, `{}`, `["a"]`, `{"denom":"usdx"}`, `-3`}))
				g.mark("wrong-type")
			}
		case 11: // an invalid value
			if len(rec.O) > 0 {
				rec.O[r.Intn(len(rec.O))].V = g.val(pick(r, badVals))
			}
		case 12: // nested struct: drop / add / duplicate a sub key
			for _, f := range sch {
				if f.Kind == "obj" {
					if o := rec.get(f.Name); o != nil && o.K == 'o' {
						sf := pick(r, f.Sub)
						switch r.Intn(3) {
						case 0:
							dropKey(o, sf.Name)
						case 1:
							setKey(o, sf.Name, g.val(pick(r, goodVals[sf.Name])))
						default:
							o.O = append(o.O, jkv{sf.Name, g.val(pick(r, goodVals[sf.Name]))})
						}
						g.mark("nested-changed")
					}
				}
			}
		case 13: // an allowed attribute set to an invalid value
			if len(allowedPresent) > 0 {
				setKey(rec, pick(r, allowedPresent), g.val(pick(r, badVals)))
			}
		default:
			g.shuffleKeys(rec)
			g.mark("reordered-keys")
		}
	}
}

// genDoc derives a proposed value for a slot from its stored value.
func (g *c17Gen) genDoc(slot int, perm *c17Perm, prev *c17Snap) string {
	r := g.r
	if slot <= -3 {
		return "null" // the scalar parameters are only ever proposed as null: a nil Int / Dec, on which the registered validator panics
	}
	if slot < 0 {
		return pick(r, []string{`{"x":"1"}`, `[{"x":"1"}]`, `"5"`, `{`, `null`})
	}
	sl := g.w.slots[slot]
	switch r.Pick(94, 2, 1, 1, 2) {
	case 1:
		g.mark("not-json")
		return pick(r, []string{`{`, `[{"denom":"bnb"}`, `nul`, `{"a":}`})
	case 2:
		return "null"
	case 3:
		return pick(r, []string{`"text"`, `7`, `true`})
	case 4:
		if sl.Multi {
			return `{"denom":"bnb"}`
		}
		return `[{"denom":"usdx"}]`
	}
	cur, err := parseJSON([]byte(prev.raws[slot]))
	if err != nil {
		return "{}"
	}
	doc := cur.clone()
	noisy := r.Chance(45, 100)
	var acs []c17AC
	if perm != nil {
		for _, ac := range perm.ACs {
			if ac.P == slot {
				acs = append(acs, ac)
			}
		}
	}
	all := func() []string {
		var out []string
		for _, f := range sl.Schema {
			out = append(out, f.Name)
		}
		return out
	}
	if !sl.Multi {
		attrs := all()
		if len(acs) > 0 {
			attrs = acs[r.Intn(len(acs))].Single
		}
		g.mutateRecord(doc, sl.Schema, attrs, noisy)
		return doc.text()
	}
	if doc.K != 'a' {
		return pick(r, []string{`[]`, `null`, `{}`, `[{"denom":"bnb"}]`})
	}
	// a rule keyed by a value that two current records share: leave the first of
	// them alone and change a protected field of the second one only
	for _, ac := range acs {
		for _, q := range ac.Multi {
			var same []*jnode
			for _, rec := range doc.A {
				if v := rec.get(q.Key); v != nil && v.K == 's' && v.S == q.Val {
					same = append(same, rec)
				}
			}
			if len(same) >= 2 && r.Chance(40, 100) {
				for _, f := range sl.Schema {
					allowed := false
					for _, a := range q.Attrs {
						if a == f.Name {
							allowed = true
						}
					}
					if !allowed && f.Name != q.Key && r.Chance(1, 3) {
						setKey(same[1], f.Name, g.goodValue(f, same[1].get(f.Name)))
						g.mark("second-record-of-shared-key")
						return doc.text()
					}
				}
			}
		}
	}
	for _, rec := range doc.A {
		attrs := all()
		if len(acs) > 0 {
			attrs = nil
			for _, q := range acs[r.Intn(len(acs))].Multi {
				if v := rec.get(q.Key); v != nil && v.K == 's' && v.S == q.Val {
					attrs = q.Attrs
					break
				}
			}
		}
		if r.Chance(60, 100) {
			g.mutateRecord(rec, sl.Schema, attrs, noisy && r.Chance(1, 2))
		}
	}
	if noisy {
		switch r.Pick(30, 25, 8, 8, 6, 4, 19) {
		case 0, 1:
			for i := len(doc.A) - 1; i > 0; i-- {
				j := r.Intn(i + 1)
				doc.A[i], doc.A[j] = doc.A[j], doc.A[i]
			}
			g.mark("reordered-records")
		case 2:
			if len(doc.A) > 0 {
				i := r.Intn(len(doc.A))
				doc.A = append(doc.A, doc.A[i].clone())
				g.mark("dup-record")
			}
		case 3:
			if len(doc.A) > 0 {
				i := r.Intn(len(doc.A))
				doc.A = append(doc.A[:i], doc.A[i+1:]...)
			}
		case 4: // replace one record by a copy of another (count unchanged)
			if len(doc.A) > 1 {
				i := r.Intn(len(doc.A))
				j := (i + 1 + r.Intn(len(doc.A)-1)) % len(doc.A)
				doc.A[j] = doc.A[i].clone()
				g.mark("dup-record")
			}
		case 5:
			if len(doc.A) > 0 {
				doc.A[r.Intn(len(doc.A))] = jNull()
				g.mark("null-value")
			}
		}
	}
	return doc.text()
}

// genUpgrade: a plan a few blocks ahead - it goes stale when the deciding votes or
// the deadline come later than that - or far ahead, or already in the past
func (g *c17Gen) genUpgrade() *c17Content {
	return &c17Content{Kind: "upgrade", H: g.w.height + int64(pick(g.r, []int{1, 1, 2, 2, 3, 4, 6, 40, 40, 0, -3}))}
}

// genCommunity: one of the four x/community proposals; amounts around what the community pool,
// the module's hard deposit and its CDP hold, or ill-formed (ValidateBasic)
func (g *c17Gen) genCommunity(kind string) *c17Content {
	r := g.r
	c := &c17Content{Kind: kind}
	amt := func() int64 {
		return int64(pick(r, []int{1, 1000, 1_000_000, 5_000_000, 20_000_000, 55_000_000, 1_000_000_000, 3_000_000_000, 9_000_000_000_000}))
	}
	switch kind {
	case "lenddeposit", "lendwithdraw":
		switch r.Pick(40, 25, 20, 15) {
		case 0:
			c.Coins = []c17Coin{{"ukava", amt()}}
		case 1:
			c.Coins = []c17Coin{{"usdx", amt()}}
		case 2:
			c.Coins = []c17Coin{{"ukava", amt()}, {"usdx", amt()}}
		default:
			c.Coins = []c17Coin{{pick(r, []string{"bnb", "xrp", "hard"}), amt()}}
		}
		if r.Chance(14, 100) { // refused by ValidateBasic
			c.Coins = pick(r, [][]c17Coin{{}, {{"usdx", 5}, {"ukava", 5}}, {{"ukava", 5}, {"ukava", 5}}, {{"ukava", 0}}, {{"ukava", -5}}, {{"u", 5}}, {{"ukava", 5}, {"usdx", 0}},
				{{"Ukava", 5}, {"ukava", 5}}, {{"1kava", 5}}, {{"ukava", 5}, {"usd x", 7}}})
		}
	default:
		c.CType = pick(r, []string{"xrp-a", "xrp-a", "xrp-a", "xrp-a", "bnb-a", "nosuch-a"})
		if kind == "cdprepay" {
			c.Coins = []c17Coin{{"usdx", int64(pick(r, []int{1, 1_000_000, 5_000_000, 20_000_000, 55_000_000, 60_000_000, 900_000_000}))}}
		} else {
			c.Coins = []c17Coin{{"xrp", int64(pick(r, []int{1, 1_000_000_000, 40_000_000_000, 150_000_000_000, 190_000_000_000, 200_000_000_000, 900_000_000_000}))}}
		}
		if r.Chance(6, 100) {
			c.Coins[0].D = pick(r, []string{"usdx", "xrp", "bnb"})
		}
		if r.Chance(14, 100) { // refused by ValidateBasic
			switch r.Intn(4) {
			case 0:
				c.CType = pick(r, []string{"", " ", "\t "})
			case 1:
				c.Coins[0].A = pick(r, []int64{0, -1})
			case 2:
				c.Coins[0].D = pick(r, []string{"x", "9xrp", "us dx"})
			default:
				c.Coins = nil
			}
		}
	}
	return c
}

var communityKinds = []string{"lenddeposit", "lendwithdraw", "cdprepay", "cdpwithdraw"}

func (g *c17Gen) genContent(perm *c17Perm, prev *c17Snap) *c17Content {
	c := g.genContent0(perm, prev)
	if g.r.Chance(3, 100) { // refused by govv1beta1.ValidateAbstract, whatever the type
		c.Meta = 1 + g.r.Intn(3)
	}
	return c
}

func (g *c17Gen) genContent0(perm *c17Perm, prev *c17Snap) *c17Content {
	r := g.r
	switch r.Pick(66, 9, 3, 18, 2, 2) {
	case 1:
		return &c17Content{Kind: "text"}
	case 2:
		return &c17Content{Kind: "cchange"}
	case 3:
		return g.genCommunity(pick(r, communityKinds))
	case 4:
		return &c17Content{Kind: "cancelupgrade"}
	case 5:
		return &c17Content{Kind: "poolspend"}
	}
	c := &c17Content{Kind: "param"}
	n := 1
	if r.Chance(12, 100) {
		n = 2
	}
	for i := 0; i < n; i++ {
		slot := r.Intn(3)
		if perm != nil && len(perm.ACs) > 0 && r.Chance(85, 100) {
			slot = perm.ACs[r.Intn(len(perm.ACs))].P
		} else if r.Chance(12, 100) {
			slot = -1 - r.Intn(2)
		}
		c.Changes = append(c.Changes, c17Change{slot, g.genDoc(slot, perm, prev)})
	}
	if r.Chance(1, 60) {
		c.Changes = nil // refused by ValidateBasic
	}
	return c
}

func firstParamsPerm(c c17Com) *c17Perm {
	for i := range c.Perms {
		if c.Perms[i].Kind == "params" {
			return &c.Perms[i]
		}
	}
	return nil
}

func (g *c17Gen) comIDs() []int {
	var ids []int
	for id := 1; id <= 4; id++ {
		if _, ok := g.w.coms[id]; ok {
			ids = append(ids, id)
		}
	}
	return ids
}

// The model has one case (PNoKey) for every (subspace, key) on which Subspace.Update panics: the
// unregistered key -2 and the two null-valued scalars -3, -4.  An operation that brings two
// different ones of them together (a rule for one, a change of another) would be rendered
// ambiguously; the generators never build one, and genOp makes sure of it.
func ambiguousNoKey(perms []c17Perm, c *c17Content) bool {
	if c == nil {
		return false
	}
	for _, ch := range c.Changes {
		if ch.P > -2 {
			continue
		}
		for _, pm := range perms {
			for _, ac := range pm.ACs {
				if ac.P <= -2 && ac.P != ch.P {
					return true
				}
			}
		}
	}
	return false
}

func (g *c17Gen) genOp(prev *c17Snap) c17Op {
	for {
		op := g.genOp0(prev)
		var perms []c17Perm
		switch op.Kind {
		case "allows":
			perms = []c17Perm{*op.Perm}
		case "submit":
			perms = g.w.coms[op.Com].Perms
		}
		if !ambiguousNoKey(perms, op.Content) {
			return op
		}
	}
}

func (g *c17Gen) genOp0(prev *c17Snap) c17Op {
	r := g.r
	w := g.w
	if len(g.script) == 0 && r.Chance(4, 100) {
		g.script = g.staleUpgradeScript()
	}
	if len(g.script) == 0 && r.Chance(7, 100) {
		g.script = g.communityScript()
	}
	if len(g.script) == 0 && r.Chance(3, 100) {
		g.script = g.movedParamScript(prev)
	}
	if len(g.script) == 0 && r.Chance(6, 100) {
		g.script = g.tallyEdgeScript(prev)
	}
	if len(g.script) == 0 && r.Chance(5, 100) {
		g.script = g.deadlineEdgeScript(prev)
	}
	if len(g.script) == 0 && r.Chance(3, 100) {
		g.script = g.nilValueScript(prev)
	}
	if len(g.script) > 0 {
		op := g.script[0]
		g.script = g.script[1:]
		if op.Kind == "begin" && op.T < w.now {
			op.T = w.now
		}
		return op
	}
	ids := g.comIDs()
	pending := prev.props
	wVote, wBegin := 6, 8
	if len(pending) > 0 {
		wVote, wBegin = 30, 14
	}
	wApply := 5
	if len(pending) > 0 {
		wApply = 9
	}
	switch r.Pick(26, wApply, 22, wVote, wBegin, 3, 2, 1) {
	case 0:
		if r.Chance(3, 100) {
			// directed: a sub-parameter rule on a registered subspace's unset key makes allowsParamChange panic
			perm := c17Perm{Kind: "params", ACs: []c17AC{{P: -2, Single: []string{"x"}}}}
			return c17Op{Kind: "allows", Perm: &perm, Content: &c17Content{Kind: "param", Changes: []c17Change{{-2, `{"x":"1"}`}}}}
		}
		if g.matrix == 0 || r.Chance(22, 100) {
			// the permission matrix: every permission type against every proposal type, in turn
			n := g.idx + 37*g.matrix
			g.matrix++
			perm := c17Perm{Kind: c17PermKinds[n%len(c17PermKinds)]}
			if perm.Kind == "params" {
				perm = c17GenPerm(r, false)
			}
			content := g.anyContent(c17ContentKinds[(n/len(c17PermKinds))%len(c17ContentKinds)], &perm, prev)
			if r.Chance(1, 20) {
				content.Meta = 1 + r.Intn(3)
			}
			return c17Op{Kind: "allows", Perm: &perm, Content: content}
		}
		var perm c17Perm
		if len(ids) > 0 && r.Chance(65, 100) {
			c := w.coms[pick(r, ids)]
			perm = pick(r, c.Perms)
		} else {
			perm = c17GenPerm(r, true)
			if r.Chance(1, 12) {
				perm = pick(r, []c17Perm{{Kind: "god"}, {Kind: "text"}, {Kind: "other"}})
			}
		}
		var pp *c17Perm
		if perm.Kind == "params" {
			pp = &perm
		}
		if r.Chance(4, 100) {
			return c17Op{Kind: "allows", Perm: &perm, Content: g.genUpgrade()}
		}
		return c17Op{Kind: "allows", Perm: &perm, Content: g.genContent(pp, prev)}
	case 1:
		// directed: move a parameter under a pending parameter-change proposal (as x/gov could), so that
		// the proposal's permission or handler fails when it is enacted (closed as Invalid)
		if len(pending) > 0 && r.Chance(70, 100) {
			p := pick(r, pending)
			if pi := w.pend[int(p[0])]; pi != nil && pi.content.Kind == "param" && len(pi.content.Changes) > 0 && pi.content.Changes[0].P >= 0 {
				slot := pi.content.Changes[0].P
				return c17Op{Kind: "apply", Content: &c17Content{Kind: "param", Changes: []c17Change{{slot, g.genDoc(slot, nil, prev)}}}}
			}
		}
		return c17Op{Kind: "apply", Content: g.genContent(nil, prev)}
	case 2:
		op := c17Op{Kind: "submit", Com: 9}
		var pp *c17Perm
		if len(ids) > 0 && r.Chance(96, 100) {
			c := w.coms[pick(r, ids)]
			op.Com = c.ID
			pp = firstParamsPerm(c)
			op.A = pick(r, c.Members)
			if r.Chance(6, 100) {
				op.A = r.Intn(c17NAcc)
			}
		}
		op.Content = g.genContent(pp, prev)
		if r.Chance(10, 100) { // any proposal type, whatever the committee's permissions - rather one they do not cover
			k := pick(r, c17ContentKinds)
			if c, ok := w.coms[op.Com]; ok {
				for i := 0; i < 3 && anyTypeAllows(c.Perms, k); i++ {
					k = pick(r, c17ContentKinds)
				}
			}
			op.Content = g.anyContent(k, pp, prev)
			return op
		}
		if c, ok := w.coms[op.Com]; ok && r.Chance(22, 100) {
			for _, pm := range c.Perms {
				if pm.Kind == "other" || pm.Kind == "god" {
					op.Content = g.genUpgrade()
					break
				}
			}
		}
		if c, ok := w.coms[op.Com]; ok && anyTypeAllows(c.Perms, "cancelupgrade") && r.Chance(12, 100) {
			op.Content = &c17Content{Kind: pick(r, []string{"cancelupgrade", "cancelupgrade", "poolspend", "lenddeposit"})}
			if op.Content.Kind == "lenddeposit" {
				op.Content = g.genCommunity("lenddeposit")
			}
			return op
		}
		if c, ok := w.coms[op.Com]; ok && r.Chance(18, 100) {
			// a community proposal of a kind the committee has a permission for
			var ks []string
			for _, k := range communityKinds {
				if anyTypeAllows(c.Perms, k) {
					ks = append(ks, k)
				}
			}
			if len(ks) > 0 {
				op.Content = g.genCommunity(pick(r, ks))
			}
		}
		return op
	case 3:
		op := c17Op{Kind: "vote", Pid: 1 + r.Intn(6), A: r.Intn(c17NAcc), Vt: 1}
		if len(pending) > 0 && r.Chance(94, 100) {
			p := pick(r, pending)
			op.Pid = int(p[0])
			if c, ok := w.coms[int(p[1])]; ok {
				if c.Token {
					op.Vt = 1 + r.Pick(60, 25, 15)
				} else {
					if r.Chance(90, 100) {
						op.A = pick(r, c.Members)
					}
					if r.Chance(5, 100) {
						op.Vt = 2 + r.Intn(2)
					}
				}
			}
		}
		if r.Chance(2, 100) {
			op.Vt = pick(r, []int{0, 4})
		}
		return op
	case 4:
		// whole seconds, or a block time with a nanosecond part (so that deadlines get one too)
		dt := int64(1+r.Intn(15))*c17Sec + pick(r, []int64{0, 0, 0, 0, c17Sec / 2, c17Sec / 10, 999_999_999, 1, int64(r.Intn(1_000_000_000))})
		if r.Chance(1, 10) {
			dt -= (w.now + dt) % c17Sec // back onto a whole second
		}
		if len(pending) > 0 && r.Chance(50, 100) {
			// land on a deadline, or just before / after it: 0.4 s, 1 ns, 1 s
			p := pick(r, pending)
			target := p[2] + pick(r, []int64{0, 0, -1, 1, -4 * c17Sec / 10, -4 * c17Sec / 10, -c17Sec, c17Sec, -999_999_999})
			if target > w.now {
				dt = target - w.now
			}
		}
		return c17Op{Kind: "begin", T: w.now + dt}
	case 5:
		return c17Op{Kind: "transfer", A: r.Intn(c17NAcc), B: r.Intn(c17NAcc), X: int64(pick(r, []int{1, 1, 10, 50, 100, 300, 1000, 0, 100_000, 7}))}
	case 6:
		var c c17Com
		if len(ids) > 0 && r.Chance(80, 100) {
			c = w.coms[pick(r, ids)]
			c.Perms = append([]c17Perm(nil), c.Perms...)
		} else {
			c = c17Com{ID: 4, Members: []int{1, 4}, Perms: []c17Perm{c17GenPerm(r, false)}, Threshold: "0.5", Duration: 80 * c17Sec, FPTP: true}
		}
		switch r.Intn(6) {
		case 0:
			c.Perms = []c17Perm{c17GenPerm(r, false)}
		case 1:
			c.Threshold = pick(r, []string{"0.5", "1.0", "0.25", "0.666666666666666667", "0.333333333333333333"})
		case 2:
			c.Members = pick(r, [][]int{{0}, {0, 1, 2, 3, 4}, {3, 4}})
		case 3:
			c.FPTP = !c.FPTP
		case 4: // member <-> token
			c.Token = !c.Token
			c.Quorum = pick(r, c17Quorums)
		default:
			if r.Chance(1, 2) {
				c.Threshold = "0.0" // invalid
			} else {
				c.Members = []int{1, 1} // invalid
			}
		}
		return c17Op{Kind: "setcom", NewCom: &c}
	default:
		return c17Op{Kind: "delcom", Com: 1 + r.Intn(4)}
	}
}

// ------------------------------------------------------------ directed scenarios of the third round

// acceptableContent: a proposal the committee can submit now (tried on a copy of the state)
func (g *c17Gen) acceptableContent(c c17Com, prev *c17Snap) *c17Content {
	w := g.w
	if anyTypeAllows(c.Perms, "text") && g.r.Chance(2, 3) {
		return &c17Content{Kind: "text"}
	}
	for try := 0; try < 12; try++ {
		var cand *c17Content
		if try == 0 && anyTypeAllows(c.Perms, "text") {
			cand = &c17Content{Kind: "text"}
		} else if try == 1 && anyTypeAllows(c.Perms, "upgrade") {
			cand = &c17Content{Kind: "upgrade", H: w.height + 1000}
		} else {
			cand = g.genContent0(firstParamsPerm(c), prev)
		}
		if cand.Kind == "cchange" || cand.Kind == "lenddeposit" || cand.Kind == "poolspend" {
			continue
		}
		ok := false
		func() {
			defer func() { _ = recover() }()
			cctx, _ := w.ctx.CacheContext()
			content := w.goContent(*cand)
			ok = w.goCom(c).HasPermissionsFor(cctx, w.tApp.AppCodec(), w.tApp.GetParamsKeeper(), content) && w.k.ValidatePubProposal(cctx, content) == nil
		}()
		if ok {
			return cand
		}
	}
	return nil
}

// transfersTo: bank sends that take the tally-denom balances from cur to want (same total)
func transfersTo(cur, want []int64) []c17Op {
	have := append([]int64(nil), cur...)
	var ops []c17Op
	for to := range want {
		for from := range want {
			if have[to] >= want[to] {
				break
			}
			if from == to || have[from] <= want[from] {
				continue
			}
			x := have[from] - want[from]
			if d := want[to] - have[to]; d < x {
				x = d
			}
			ops = append(ops, c17Op{Kind: "transfer", A: from, B: to, X: x})
			have[from] -= x
			have[to] += x
		}
	}
	return ops
}

// ceilFrac: the least integer x with x >= (num/den) * y
func ceilFrac(num, den *big.Int, y int64) int64 {
	p := new(big.Int).Mul(num, big.NewInt(y))
	q, m := new(big.Int).QuoRem(p, den, new(big.Int))
	if m.Sign() > 0 {
		q.Add(q, big.NewInt(1))
	}
	return q.Int64()
}

// tallyEdgeScript: a token-committee vote whose turnout lands on the least amount that meets
// the quorum, or one unit beside it, and whose yes share lands on the least amount that meets
// the threshold, or one unit beside it.  Balances are arranged by bank sends beforehand; one
// more unit may move between the votes and the tally (balances count at tally time).
func (g *c17Gen) tallyEdgeScript(prev *c17Snap) []c17Op {
	w, r := g.w, g.r
	var cands []c17Com
	for _, id := range g.comIDs() {
		c := w.coms[id]
		if c.Token && anyTypeAllows(c.Perms, "text") && len(c.Members) > 0 {
			cands = append(cands, c)
		}
	}
	S := prev.supply
	if len(cands) == 0 || S <= 0 || len(prev.bals) != c17NAcc {
		return nil
	}
	var sum int64
	for _, b := range prev.bals {
		sum += b
	}
	if sum != S {
		return nil
	}
	// one unit below the least turnout that meets the quorum, where the turnout ratio rounded to
	// 18 decimals equals the quorum all the same (quorum 2/3 rounded up, supply a multiple of 3, ...)
	withinRounding := func(c c17Com) bool {
		qn, qd := fracOf(c.Quorum)
		t := ceilFrac(qn, qd, S) - 1
		return t >= 1 && sdk.NewDec(t).Quo(sdk.NewDec(S)).GTE(dec(c.Quorum))
	}
	c := pick(r, cands)
	for _, x := range cands {
		if withinRounding(x) && r.Chance(2, 3) {
			c = x
		}
	}
	qn, qd := fracOf(c.Quorum)
	tn, td := fracOf(c.Threshold)
	critical := withinRounding(c) && r.Chance(2, 3)
	clamp := func(x, lo, hi int64) int64 {
		if x < lo {
			return lo
		}
		if x > hi {
			return hi
		}
		return x
	}
	turnout := clamp(ceilFrac(qn, qd, S)+pick(r, []int64{-1, -1, 0, 0, 1}), 1, S)
	abstain := pick(r, []int64{0, 0, turnout / 10})
	nonAbstain := turnout - abstain
	yes := clamp(ceilFrac(tn, td, nonAbstain)+pick(r, []int64{-1, 0, 0, 0, 1}), 0, nonAbstain)
	if critical {
		// the quorum is missed by less than the rounding of the ratio; the threshold is met
		turnout = ceilFrac(qn, qd, S) - 1
		abstain = pick(r, []int64{0, turnout / 10})
		nonAbstain = turnout - abstain
		yes = clamp(ceilFrac(tn, td, nonAbstain)+pick(r, []int64{0, 0, 1}), 0, nonAbstain)
	}
	no := nonAbstain - yes
	// voters: three accounts in a random order; a fourth keeps the rest of the supply
	acc := []int{0, 1, 2, 3, 4, 5}
	for i := len(acc) - 1; i > 0; i-- {
		j := r.Intn(i + 1)
		acc[i], acc[j] = acc[j], acc[i]
	}
	want := make([]int64, c17NAcc)
	want[acc[0]], want[acc[1]], want[acc[2]], want[acc[3]] = yes, no, abstain, S-turnout
	ops := transfersTo(prev.bals, want)
	if len(ops) > 8 {
		return nil
	}
	pid := w.nextPid
	ops = append(ops, c17Op{Kind: "submit", Com: c.ID, A: c.Members[0], Content: &c17Content{Kind: "text"}})
	ops = append(ops, c17Op{Kind: "vote", Pid: pid, A: acc[0], Vt: 1})
	if no > 0 || r.Chance(1, 3) {
		ops = append(ops, c17Op{Kind: "vote", Pid: pid, A: acc[1], Vt: 2})
	}
	if abstain > 0 {
		ops = append(ops, c17Op{Kind: "vote", Pid: pid, A: acc[2], Vt: 3})
	}
	after := r.Pick(70, 15, 15)
	if critical {
		after = 0
	}
	switch after { // one unit into or out of the turnout after the votes
	case 1:
		if want[acc[3]] > 0 {
			ops = append(ops, c17Op{Kind: "transfer", A: acc[3], B: acc[0], X: 1})
		}
	case 2:
		if yes > 0 {
			ops = append(ops, c17Op{Kind: "transfer", A: acc[0], B: acc[3], X: 1})
		}
	}
	ops = append(ops, c17Op{Kind: "begin", T: w.now + c17Sec})
	if !c.FPTP {
		ops = append(ops, c17Op{Kind: "begin", T: w.now + c.Duration})
	}
	if g.cnt != nil {
		g.cnt.Inc("split:script:tally-edge")
	}
	return ops
}

// deadlineEdgeScript: a proposal whose deadline has a sub-second part, blocks 0.4 s and 1 ns
// before the deadline (same unix second: the proposal stays open and that block's votes
// count), a block on the deadline (closed; votes refused) and one 1 ns later.
func (g *c17Gen) deadlineEdgeScript(prev *c17Snap) []c17Op {
	w, r := g.w, g.r
	ids := g.comIDs()
	if len(ids) == 0 {
		return nil
	}
	c := w.coms[pick(r, ids)]
	if len(c.Members) == 0 || c.Duration < 2*c17Sec {
		return nil
	}
	content := g.acceptableContent(c, prev)
	if content == nil {
		return nil
	}
	var ops []c17Op
	now := w.now
	if (now+c.Duration)%c17Sec == 0 || r.Chance(1, 4) {
		now += c17Sec + pick(r, []int64{c17Sec / 2, c17Sec / 2, c17Sec / 10, 999_999_999, 400_000_001, int64(1 + r.Intn(999_999_999))})
		ops = append(ops, c17Op{Kind: "begin", T: now})
	}
	deadline := now + c.Duration
	pid := w.nextPid
	ops = append(ops, c17Op{Kind: "submit", Com: c.ID, A: c.Members[0], Content: content})
	voters := append([]int(nil), c.Members...)
	if c.Token {
		voters = []int{0, 1, 2, 3, 5}
	}
	for i := len(voters) - 1; i > 0; i-- {
		j := r.Intn(i + 1)
		voters[i], voters[j] = voters[j], voters[i]
	}
	next := 0
	vote := func() {
		v := voters[next%len(voters)]
		next++
		vt := 1
		if c.Token && r.Chance(1, 4) {
			vt = 2 + r.Intn(2)
		}
		ops = append(ops, c17Op{Kind: "vote", Pid: pid, A: v, Vt: vt})
	}
	for k := r.Intn(len(voters)); k > 0; k-- {
		vote()
	}
	for _, off := range []int64{-4 * c17Sec / 10, -1} {
		if r.Chance(3, 4) && deadline+off > now {
			ops = append(ops, c17Op{Kind: "begin", T: deadline + off})
			vote()
		}
	}
	ops = append(ops, c17Op{Kind: "begin", T: deadline})
	vote()
	if r.Chance(1, 3) {
		ops = append(ops, c17Op{Kind: "begin", T: deadline + 1})
	}
	if g.cnt != nil {
		g.cnt.Inc("split:script:deadline-edge")
	}
	return ops
}

// fields whose registered validator dereferences a nil Int / Dec (a runtime error, not a string panic)
var nilPanicAttrs = map[int][]string{
	0: {"fixed_fee", "min_swap_amount", "max_swap_amount", "supply_limit"},
	1: {"liquidation_penalty", "auction_size", "stability_fee", "keeper_reward_percentage", "check_collateralization_index_count"},
}

// nilValueScript: a parameter change the committee's permissions allow and whose handler
// panics with a runtime error: JSON null for an Int / Dec field of a record (or a dropped
// non-omitempty key, which amino zeroes) or for a whole scalar parameter.  It must be
// refused at submission; were it stored, every member votes and the begin blocker must
// close it Invalid without panicking.
func (g *c17Gen) nilValueScript(prev *c17Snap) []c17Op {
	w, r := g.w, g.r
	type cand struct {
		c   c17Com
		chg c17Change
	}
	var cands []cand
	for _, id := range g.comIDs() {
		c := w.coms[id]
		if c.Token {
			continue
		}
		god := false
		for _, pm := range c.Perms {
			if pm.Kind == "god" {
				god = true
			}
			if pm.Kind != "params" {
				continue
			}
			for _, ac := range pm.ACs {
				if ac.P <= -3 && len(ac.Single) == 0 && len(ac.Multi) == 0 {
					cands = append(cands, cand{c, c17Change{ac.P, "null"}})
				}
			}
		}
		if god {
			cands = append(cands, cand{c, c17Change{-3 - r.Intn(2), "null"}})
		}
		for slot := 0; slot <= 1; slot++ {
			cur, err := parseJSON([]byte(prev.raws[slot]))
			if err != nil || cur.K != 'a' {
				continue
			}
			all, _, reqs := allowedFor(c.Perms, slot)
			for i, rec := range cur.A {
				if rec.K != 'o' {
					continue
				}
				for _, a := range nilPanicAttrs[slot] {
					allowed := all
					for _, q := range reqs {
						if v := rec.get(q.Key); v != nil && v.K == 's' && v.S == q.Val {
							for _, x := range q.Attrs {
								allowed = allowed || x == a
							}
						}
					}
					if !allowed || rec.get(a) == nil {
						continue
					}
					doc := cur.clone()
					if r.Chance(3, 4) {
						setKey(doc.A[i], a, jNull())
					} else if all {
						dropKey(doc.A[i], a) // the lengths differ: only a rule-free permission lets this through
					} else {
						setKey(doc.A[i], a, jNull())
					}
					cands = append(cands, cand{c, c17Change{slot, doc.text()}})
				}
			}
		}
	}
	if len(cands) == 0 {
		return nil
	}
	x := pick(r, cands)
	var scalars []cand
	for _, y := range cands {
		if y.chg.P <= -3 {
			scalars = append(scalars, y)
		}
	}
	if len(scalars) > 0 && r.Chance(1, 2) {
		x = pick(r, scalars)
	}
	pid := w.nextPid
	ops := []c17Op{{Kind: "submit", Com: x.c.ID, A: x.c.Members[0], Content: &c17Content{Kind: "param", Changes: []c17Change{x.chg}}}}
	for _, m := range x.c.Members {
		ops = append(ops, c17Op{Kind: "vote", Pid: pid, A: m, Vt: 1})
	}
	ops = append(ops, c17Op{Kind: "begin", T: w.now + c17Sec})
	if !x.c.FPTP {
		ops = append(ops, c17Op{Kind: "begin", T: w.now + x.c.Duration})
	}
	if g.cnt != nil {
		g.cnt.Inc("split:script:nil-value")
		if x.chg.P <= -3 {
			g.cnt.Inc("split:script:nil-value-scalar")
		}
	}
	return ops
}
