package c17

// Generators: committee configurations, permissions, operations and proposed
// parameter documents derived from the stored ones by reordering keys and
// records, dropping, adding, duplicating keys and records, changing allowed and
// protected fields, case variants of keys, nulls and ill-typed values.

import (
	. "kavaverif/lib"

	"strings"
)

type c17Gen struct {
	r      *Rng
	w      *c17World
	cnt    *Counters
	script []c17Op // a directed sequence being played
	idx    int     // history index
	matrix int     // matrix queries made so far in this history
}

// anyContent: a proposal of the given kind
func (g *c17Gen) anyContent(k string, perm *c17Perm, prev *c17Snap) *c17Content {
	switch k {
	case "text", "cchange", "cancelupgrade", "poolspend":
		return &c17Content{Kind: k}
	case "upgrade":
		return g.genUpgrade()
	case "param":
		for {
			if c := g.genContent0(perm, prev); c.Kind == "param" {
				return c
			}
		}
	}
	return g.genCommunity(k)
}

// staleUpgradeScript: a software-upgrade proposal that is valid when submitted and
// whose plan height has passed when it is decided - by the deadline (deadline
// tally) or by the deciding votes (first past the post).  It must then be closed
// as Invalid by the dry run of enactProposal; the real handler would fail.
func (g *c17Gen) staleUpgradeScript() []c17Op {
	w, r := g.w, g.r
	var cands []c17Com
	for _, id := range g.comIDs() {
		c := w.coms[id]
		if c.Token || c.Duration < 10 {
			continue
		}
		for _, pm := range c.Perms {
			if pm.Kind == "other" || pm.Kind == "god" {
				cands = append(cands, c)
				break
			}
		}
	}
	if len(cands) == 0 {
		return nil
	}
	c := pick(r, cands)
	pid := w.nextPid
	h := w.height + int64(1+r.Intn(2))
	if r.Chance(3, 10) {
		h = w.height + 40 // still ahead when it is decided: scheduled
	}
	ops := []c17Op{{Kind: "submit", Com: c.ID, A: c.Members[0], Content: &c17Content{Kind: "upgrade", H: h}}}
	var votes []c17Op
	for _, m := range c.Members {
		votes = append(votes, c17Op{Kind: "vote", Pid: pid, A: m, Vt: 1})
	}
	blocks := []c17Op{{Kind: "begin", T: w.now + 1}, {Kind: "begin", T: w.now + 2}, {Kind: "begin", T: w.now + 3}}
	if c.FPTP {
		// nobody votes for three blocks, then everybody does: decided at the next block
		ops = append(ops, blocks...)
		ops = append(ops, votes...)
		ops = append(ops, c17Op{Kind: "begin", T: w.now + 4})
	} else {
		// everybody votes at once; the decision waits for the deadline
		ops = append(ops, votes...)
		ops = append(ops, blocks...)
		ops = append(ops, c17Op{Kind: "begin", T: w.now + c.Duration})
	}
	if g.cnt != nil {
		g.cnt.Inc("split:script:stale-upgrade")
	}
	return ops
}

// communityScript: a community proposal of a kind one of the committee's permissions
// allows (or not, now and then), with amounts the keepers can serve, voted through
// by every member and decided at the next block or at the deadline.
func (g *c17Gen) communityScript() []c17Op {
	w, r := g.w, g.r
	kind := pick(r, communityKinds)
	var cands []c17Com
	for _, id := range g.comIDs() {
		c := w.coms[id]
		if c.Token {
			continue
		}
		if anyTypeAllows(c.Perms, kind) || r.Chance(1, 10) {
			cands = append(cands, c)
		}
	}
	if len(cands) == 0 {
		return nil
	}
	c := pick(r, cands)
	content := &c17Content{Kind: kind}
	switch kind {
	case "lenddeposit":
		content.Coins = pick(r, [][]c17Coin{{{"ukava", 1_000_000}}, {{"usdx", 2_000_000}}, {{"ukava", 3_000_000}, {"usdx", 1_000_000}}, {{"ukava", 3_000_000_000}}})
	case "lendwithdraw":
		content.Coins = pick(r, [][]c17Coin{{{"ukava", 1_000_000}}, {{"usdx", 2_000_000}}, {{"ukava", 700_000_000}, {"usdx", 1_000_000}}, {{"ukava", 1_500_000_000}}, {{"usdx", 1_000_000_000}}})
	case "cdprepay":
		content.CType = "xrp-a"
		content.Coins = []c17Coin{{"usdx", pick(r, []int64{1_000_000, 5_000_000, 20_000_000, 30_000_000, 60_000_000})}}
	default:
		content.CType = "xrp-a"
		content.Coins = []c17Coin{{"xrp", pick(r, []int64{1_000_000_000, 40_000_000_000, 100_000_000_000})}}
	}
	pid := w.nextPid
	ops := []c17Op{{Kind: "submit", Com: c.ID, A: c.Members[0], Content: content}}
	for _, m := range c.Members {
		ops = append(ops, c17Op{Kind: "vote", Pid: pid, A: m, Vt: 1})
	}
	if r.Chance(2, 5) { // a second one of the same kind in the same block: the first uses up what the second needs
		switch kind {
		case "lendwithdraw":
			content.Coins = []c17Coin{{"usdx", 1_000_000_000}}
		case "cdprepay":
			content.Coins = []c17Coin{{"usdx", 60_000_000}}
		case "cdpwithdraw":
			content.Coins = []c17Coin{{"xrp", 100_000_000_000}}
		}
		c2 := *content
		ops = append(ops, c17Op{Kind: "submit", Com: c.ID, A: c.Members[0], Content: &c2})
		for _, m := range c.Members {
			ops = append(ops, c17Op{Kind: "vote", Pid: pid + 1, A: m, Vt: 1})
		}
	}
	ops = append(ops, c17Op{Kind: "begin", T: w.now + 1})
	if !c.FPTP {
		ops = append(ops, c17Op{Kind: "begin", T: w.now + c.Duration})
	}
	if g.cnt != nil {
		g.cnt.Inc("split:script:community")
	}
	return ops
}

// movedParamScript: a parameter-change proposal that its committee may submit now
// (it changes debt_floor only, which the allow-list names) and may no longer enact
// when it is decided, because x/gov changed a protected field (conversion_factor) of the
// same parameter in between: the stored document now differs from the current value
// in a protected field.  The permission re-check of enactProposal must close it Invalid.
func (g *c17Gen) movedParamScript(prev *c17Snap) []c17Op {
	w, r := g.w, g.r
	var cands []c17Com
	for _, id := range g.comIDs() {
		c := w.coms[id]
		if c.Token {
			continue
		}
		all, single, _ := allowedFor(c.Perms, 2)
		if all || !single["debt_floor"] || single["conversion_factor"] {
			continue
		}
		cands = append(cands, c)
	}
	cur, err := parseJSON([]byte(prev.raws[2]))
	if len(cands) == 0 || err != nil || cur.K != 'o' {
		return nil
	}
	c := pick(r, cands)
	other := func(name string, vals ...string) *jnode {
		for _, v := range vals {
			if x := cur.get(name); x == nil || x.text() != v {
				return g.val(v)
			}
		}
		return g.val(vals[0])
	}
	doc := cur.clone()
	setKey(doc, "debt_floor", other("debt_floor", `"1"`, `"20000000"`))
	moved := cur.clone()
	setKey(moved, "conversion_factor", other("conversion_factor", `"8"`, `"6"`))
	pid := w.nextPid
	ops := []c17Op{
		{Kind: "submit", Com: c.ID, A: c.Members[0], Content: &c17Content{Kind: "param", Changes: []c17Change{{2, doc.text()}}}},
		{Kind: "apply", Content: &c17Content{Kind: "param", Changes: []c17Change{{2, moved.text()}}}},
	}
	for _, m := range c.Members {
		ops = append(ops, c17Op{Kind: "vote", Pid: pid, A: m, Vt: 1})
	}
	ops = append(ops, c17Op{Kind: "begin", T: w.now + 1})
	if !c.FPTP {
		ops = append(ops, c17Op{Kind: "begin", T: w.now + c.Duration})
	}
	if g.cnt != nil {
		g.cnt.Inc("split:script:moved-param")
	}
	return ops
}

var (
	assetAttrs = []string{"coin_id", "active", "supply_limit", "fixed_fee", "min_swap_amount", "max_swap_amount", "min_block_lock", "max_block_lock", "deputy_address"}
	collAttrs  = []string{"liquidation_ratio", "debt_limit", "stability_fee", "auction_size", "liquidation_penalty", "keeper_reward_percentage", "check_collateralization_index_count", "conversion_factor", "spot_market_id", "liquidation_market_id"}
	debtAttrs  = []string{"debt_floor", "conversion_factor", "reference_asset", "denom"}
)

func subset(r *Rng, pool []string, extra string) []string {
	var out []string
	k := r.Pick(10, 35, 30, 15, 10)
	for len(out) < k && len(out) < len(pool) {
		c := pool[r.Intn(len(pool))]
		dup := false
		for _, x := range out {
			if x == c {
				dup = true
			}
		}
		if !dup {
			out = append(out, c)
		}
	}
	if extra != "" && r.Chance(1, 12) {
		out = append(out, extra)
	}
	if out == nil {
		out = []string{}
	}
	return out
}

func c17GenPerm(r *Rng, allowPanic bool) c17Perm {
	p := c17Perm{Kind: "params"}
	if r.Chance(85, 100) {
		ac := c17AC{P: 0}
		for _, d := range []string{"bnb", "inc", "xrpb"} {
			if r.Chance(12, 100) {
				continue // a record without a requirement: nothing can be changed at all
			}
			attrs := subset(r, assetAttrs, "denom")
			if d == "inc" && r.Chance(45, 100) {
				attrs = []string{"coin_id"}
			}
			if d == "xrpb" && r.Chance(30, 100) {
				attrs = []string{"min_swap_amount", "max_block_lock"}
			}
			ac.Multi = append(ac.Multi, c17Req{"denom", d, attrs})
		}
		if len(ac.Multi) > 0 {
			p.ACs = append(p.ACs, ac)
		}
	}
	if r.Chance(80, 100) {
		ac := c17AC{P: 1}
		if r.Chance(8, 100) {
			// a requirement key that does not identify records: both bnb types select the same rule,
			// and the rule allows every field in which they differ
			ac.Multi = append(ac.Multi, c17Req{"denom", "bnb", append([]string{"type", "liquidation_ratio", "stability_fee"}, subset(r, collAttrs, "")...)})
			ac.Multi = append(ac.Multi, c17Req{"denom", "xrp", subset(r, collAttrs, "")})
		} else if r.Chance(85, 100) {
			for _, t := range []string{"bnb-a", "bnb-b", "xrp-a"} {
				if r.Chance(8, 100) {
					continue
				}
				ac.Multi = append(ac.Multi, c17Req{"type", t, subset(r, collAttrs, "type")})
			}
		} else {
			for _, d := range []string{"bnb", "xrp"} {
				ac.Multi = append(ac.Multi, c17Req{"denom", d, subset(r, append([]string{"type", "type"}, collAttrs...), "")})
			}
		}
		if len(ac.Multi) > 0 {
			p.ACs = append(p.ACs, ac)
		}
	}
	if r.Chance(80, 100) {
		attrs := subset(r, debtAttrs, "")
		if len(attrs) == 0 {
			attrs = []string{"debt_floor"}
		}
		p.ACs = append(p.ACs, c17AC{P: 2, Single: attrs})
	}
	if r.Chance(5, 100) {
		p.ACs = append(p.ACs, c17AC{P: r.Intn(3)}) // no sub-parameter rules: everything allowed
	}
	if r.Chance(3, 100) {
		p.ACs = append(p.ACs, c17AC{P: -1, Single: []string{"x"}})
	}
	if allowPanic && r.Chance(4, 100) {
		p.ACs = append(p.ACs, c17AC{P: -2, Single: []string{"x"}})
	}
	if r.Chance(6, 100) && len(p.ACs) > 0 { // a second rule for the same parameter
		d := p.ACs[r.Intn(len(p.ACs))]
		if d.P == 2 {
			p.ACs = append(p.ACs, c17AC{P: 2, Single: subset(r, debtAttrs, "")})
		} else if d.P >= 0 {
			p.ACs = append(p.ACs, c17AC{P: d.P, Multi: append([]c17Req(nil), d.Multi...)})
		}
	}
	if p.ACs == nil {
		p.ACs = []c17AC{{P: 2, Single: []string{"debt_floor"}}}
	}
	return p
}

func pick[T any](r *Rng, xs []T) T { return xs[r.Intn(len(xs))] }

func c17GenSetup(r *Rng) c17Setup {
	s := c17Setup{IncActive: r.Chance(1, 10), RefAssetSet: r.Chance(1, 2), EmptyAssets: r.Chance(1, 40), XrpbCoinZero: r.Chance(1, 2),
		PoolFunded: r.Chance(85, 100), HardDeposit: r.Chance(80, 100), Cdp: r.Chance(85, 100)}
	perms := func(god bool) []c17Perm {
		if god {
			return []c17Perm{{Kind: "god"}}
		}
		ps := []c17Perm{c17GenPerm(r, false)}
		if r.Chance(1, 2) {
			ps = append(ps, c17Perm{Kind: "text"})
		}
		if r.Chance(7, 10) {
			ps = append([]c17Perm{{Kind: "other"}}, ps...) // SoftwareUpgradePermission
		}
		// the three x/community permissions, alone and in combinations, before or after the others
		for _, k := range []string{"cdprepay", "cdpwithdraw", "lendwithdraw"} {
			if r.Chance(35, 100) {
				if r.Chance(1, 2) {
					ps = append(ps, c17Perm{Kind: k})
				} else {
					ps = append([]c17Perm{{Kind: k}}, ps...)
				}
			}
		}
		if r.Chance(1, 12) { // a committee without a ParamsChangePermission
			var out []c17Perm
			for _, q := range ps {
				if q.Kind != "params" {
					out = append(out, q)
				}
			}
			if len(out) > 0 {
				ps = out
			}
		}
		return ps
	}
	s.Coms = []c17Com{
		{ID: 1, Members: []int{0, 1, 2}, Perms: perms(false), Threshold: pick(r, []string{"0.5", "0.667", "1.0", "0.34"}), Duration: pick(r, []int64{50, 100, 200, 0}), FPTP: r.Chance(6, 10)},
		{ID: 2, Members: []int{0, 1, 2, 3}, Perms: perms(r.Chance(1, 3)), Threshold: pick(r, []string{"0.5", "0.75", "0.25"}), Duration: pick(r, []int64{40, 100}), FPTP: r.Chance(2, 10)},
		{ID: 3, Token: true, Quorum: pick(r, []string{"0.4", "0.3", "0.0", "0.65"}), Members: []int{0, 5}, Perms: append(perms(false), c17Perm{Kind: "text"}),
			Threshold: pick(r, []string{"0.5", "0.75", "0.6"}), Duration: pick(r, []int64{60, 100}), FPTP: r.Chance(5, 10)},
	}
	return s
}

// ------------------------------------------------------------ documents

var goodVals = map[string][]string{
	"coin_id": {`"0"`, `"714"`, `"9999"`, `"1"`, `"42"`}, "active": {`true`, `false`},
	"fixed_fee": {`"0"`, `"1000"`, `"2000"`}, "min_swap_amount": {`"1"`, `"2"`}, "max_swap_amount": {`"1000000000000"`, `"500"`},
	"min_block_lock": {`"0"`, `"100"`, `"220"`}, "max_block_lock": {`"270"`, `"300"`},
	"deputy_address": {"@0", "@6"}, "denom": {`"bnb"`, `"busd"`, `"usdx"`, `"inc"`},
	"liquidation_ratio": {`"1.500000000000000000"`, `"2.250000000000000000"`}, "stability_fee": {`"1.000000001547125958"`, `"1.000000000000000000"`},
	"auction_size": {`"7000000000"`, `"5"`}, "liquidation_penalty": {`"0.050000000000000000"`, `"0.100000000000000000"`},
	"keeper_reward_percentage": {`"0.010000000000000000"`, `"0.020000000000000000"`}, "check_collateralization_index_count": {`"10"`, `"0"`},
	"conversion_factor": {`"8"`, `"6"`}, "spot_market_id": {`"bnb:usd"`, `"xrp:usd"`}, "liquidation_market_id": {`"bnb:usd:30"`, `"xrp:usd:30"`},
	"type": {`"bnb-c"`, `"bnb-a"`}, "debt_floor": {`"10000000"`, `"1"`, `"20000000"`}, "reference_asset": {`"usd"`, `""`, `"eur"`},
	"limit": {`"400000000000000"`, `"350000000000000"`}, "time_limited": {`true`, `false`}, "time_period": {`"7200000000000"`, `"3600000000000"`},
	"time_based_limit": {`"100"`, `"0"`, `"50000000000"`}, "amount": {`"600000000000"`, `"500000000000"`},
}

var badVals = []string{`"-5"`, `"-1.000000000000000000"`, `"7.000000000000000000"`, `""`, `" "`, `"9223372036854775808"`, `"18446744073709551616"`,
	`"notanaddress"`, `"x"`, `"115792089237316195423570985008687907853269984665640564039457584007913129639936"`}

func (g *c17Gen) val(text string) *jnode {
	if strings.HasPrefix(text, "@") {
		if text == "@6" {
			return jStr(g.w.deputy.String())
		}
		return jStr(g.w.addrs[0].String())
	}
	j, err := parseJSON([]byte(text))
	if err != nil {
		panic(err)
	}
	return j
}

func (g *c17Gen) mark(k string) {
	if g.cnt != nil {
		g.cnt.Inc("split:doc:" + k)
	}
}

func setKey(o *jnode, k string, v *jnode) {
	for i := len(o.O) - 1; i >= 0; i-- {
		if o.O[i].K == k {
			o.O[i].V = v
			return
		}
	}
	o.O = append(o.O, jkv{k, v})
}

func dropKey(o *jnode, k string) {
	var out []jkv
	for _, kv := range o.O {
		if kv.K != k {
			out = append(out, kv)
		}
	}
	o.O = out
}

func (g *c17Gen) shuffleKeys(o *jnode) {
	for i := len(o.O) - 1; i > 0; i-- {
		j := g.r.Intn(i + 1)
		o.O[i], o.O[j] = o.O[j], o.O[i]
	}
}

// goodValue proposes a well-formed new value for a field
func (g *c17Gen) goodValue(f fieldInfo, cur *jnode) *jnode {
	if f.Kind == "obj" {
		var o *jnode
		if cur != nil && cur.K == 'o' {
			o = cur.clone()
		} else {
			o = jObj(nil)
		}
		sf := f.Sub[g.r.Intn(len(f.Sub))]
		if vs, ok := goodVals[sf.Name]; ok {
			setKey(o, sf.Name, g.val(pick(g.r, vs)))
		}
		g.mark("nested-changed")
		return o
	}
	if vs, ok := goodVals[f.Name]; ok {
		return g.val(pick(g.r, vs))
	}
	return jStr("x")
}

func fieldByName(sch []fieldInfo, n string) *fieldInfo {
	for i := range sch {
		if sch[i].Name == n {
			return &sch[i]
		}
	}
	return nil
}

func upperFirst(s string) string {
	if s == "" {
		return s
	}
	return strings.ToUpper(s[:1]) + s[1:]
}

// mutateRecord changes one record: allowed attributes first, then noise.
func (g *c17Gen) mutateRecord(rec *jnode, sch []fieldInfo, attrs []string, noisy bool) {
	r := g.r
	if rec.K != 'o' {
		return
	}
	if len(attrs) > 0 && r.Chance(75, 100) {
		for k := 0; k < 1+r.Intn(2); k++ {
			a := attrs[r.Intn(len(attrs))]
			if f := fieldByName(sch, a); f != nil {
				setKey(rec, a, g.goodValue(*f, rec.get(a)))
			}
		}
	}
	if !noisy {
		return
	}
	var absent, present []fieldInfo
	for _, f := range sch {
		if rec.get(f.Name) == nil {
			absent = append(absent, f)
		} else {
			present = append(present, f)
		}
	}
	isAllowed := func(n string) bool {
		for _, a := range attrs {
			if a == n {
				return true
			}
		}
		return false
	}
	var allowedPresent []string
	for _, f := range present {
		if isAllowed(f.Name) {
			allowedPresent = append(allowedPresent, f.Name)
		}
	}
	for k := 0; k < 1+r.Intn(2); k++ {
		switch r.Pick(12, 10, 6, 4, 5, 8, 16, 6, 6, 5, 5, 5, 5, 6, 5) {
		case 0:
			g.shuffleKeys(rec)
			g.mark("reordered-keys")
		case 1: // change a protected field
			f := sch[r.Intn(len(sch))]
			if !isAllowed(f.Name) {
				setKey(rec, f.Name, g.goodValue(f, rec.get(f.Name)))
				g.mark("protected-changed")
			}
		case 2: // drop an allowed key
			if len(allowedPresent) > 0 {
				dropKey(rec, pick(r, allowedPresent))
				g.mark("dropped-allowed-key")
			}
		case 3: // drop a protected key
			if len(present) > 0 {
				dropKey(rec, pick(r, present).Name)
			}
		case 4:
			setKey(rec, pick(r, []string{"extra", "memo", "Active2"}), g.val(pick(r, []string{`"x"`, `true`, `5`, `null`})))
		case 5: // add an absent omitempty key (zero or non-zero value)
			if len(absent) > 0 {
				f := pick(r, absent)
				setKey(rec, f.Name, g.goodValue(f, nil))
				g.mark("added-absent-omitempty")
			}
		case 6: // drop an allowed key AND add an absent omitempty key: the lengths agree again
			if len(absent) > 0 && len(allowedPresent) > 0 {
				f := pick(r, absent)
				dropKey(rec, pick(r, allowedPresent))
				setKey(rec, f.Name, g.goodValue(f, nil))
				g.mark("drop-and-add")
			}
		case 7: // duplicate key, same or different value, before or after
			if len(rec.O) > 0 {
				kv := rec.O[r.Intn(len(rec.O))]
				nv := kv.V.clone()
				if r.Chance(1, 2) {
					if f := fieldByName(sch, kv.K); f != nil {
						nv = g.goodValue(*f, kv.V)
					}
				}
				if r.Chance(1, 2) {
					rec.O = append(rec.O, jkv{kv.K, nv})
				} else {
					rec.O = append([]jkv{{kv.K, nv}}, rec.O...)
				}
				g.mark("dup-key")
			}
		case 8: // case variant of a key: instead of, or next to, the exact one
			if len(rec.O) > 0 {
				i := r.Intn(len(rec.O))
				name := rec.O[i].K
				variant := pick(r, []string{upperFirst(name), strings.ToUpper(name)})
				if r.Chance(1, 2) {
					rec.O[i].K = variant
				} else if f := fieldByName(sch, name); f != nil {
					rec.O = append(rec.O, jkv{variant, g.goodValue(*f, rec.O[i].V)})
				}
				g.mark("case-variant")
			}
		case 9:
			if len(rec.O) > 0 {
				rec.O[r.Intn(len(rec.O))].V = jNull()
				g.mark("null-value")
			}
		case 10:
			if len(rec.O) > 0 {
				rec.O[r.Intn(len(rec.O))].V = g.val(pick(r, []string{`5`, `true`, `[]`, `{}`, `["a"]`, `{"denom":"usdx"}`, `-3`}))
				g.mark("wrong-type")
			}
		case 11: // an invalid value
			if len(rec.O) > 0 {
				rec.O[r.Intn(len(rec.O))].V = g.val(pick(r, badVals))
			}
		case 12: // nested struct: drop / add / duplicate a sub key
			for _, f := range sch {
				if f.Kind == "obj" {
					if o := rec.get(f.Name); o != nil && o.K == 'o' {
						sf := pick(r, f.Sub)
						switch r.Intn(3) {
						case 0:
							dropKey(o, sf.Name)
						case 1:
							setKey(o, sf.Name, g.val(pick(r, goodVals[sf.Name])))
						default:
							o.O = append(o.O, jkv{sf.Name, g.val(pick(r, goodVals[sf.Name]))})
						}
						g.mark("nested-changed")
					}
				}
			}
		case 13: // an allowed attribute set to an invalid value
			if len(allowedPresent) > 0 {
				setKey(rec, pick(r, allowedPresent), g.val(pick(r, badVals)))
			}
		default:
			g.shuffleKeys(rec)
			g.mark("reordered-keys")
		}
	}
}

// genDoc derives a proposed value for a slot from its stored value.
func (g *c17Gen) genDoc(slot int, perm *c17Perm, prev *c17Snap) string {
	r := g.r
	if slot < 0 {
		return pick(r, []string{`{"x":"1"}`, `[{"x":"1"}]`, `"5"`, `{`, `null`})
	}
	sl := g.w.slots[slot]
	switch r.Pick(94, 2, 1, 1, 2) {
	case 1:
		g.mark("not-json")
		return pick(r, []string{`{`, `[{"denom":"bnb"}`, `nul`, `{"a":}`})
	case 2:
		return "null"
	case 3:
		return pick(r, []string{`"text"`, `7`, `true`})
	case 4:
		if sl.Multi {
			return `{"denom":"bnb"}`
		}
		return `[{"denom":"usdx"}]`
	}
	cur, err := parseJSON([]byte(prev.raws[slot]))
	if err != nil {
		return "{}"
	}
	doc := cur.clone()
	noisy := r.Chance(45, 100)
	var acs []c17AC
	if perm != nil {
		for _, ac := range perm.ACs {
			if ac.P == slot {
				acs = append(acs, ac)
			}
		}
	}
	all := func() []string {
		var out []string
		for _, f := range sl.Schema {
			out = append(out, f.Name)
		}
		return out
	}
	if !sl.Multi {
		attrs := all()
		if len(acs) > 0 {
			attrs = acs[r.Intn(len(acs))].Single
		}
		g.mutateRecord(doc, sl.Schema, attrs, noisy)
		return doc.text()
	}
	if doc.K != 'a' {
		return pick(r, []string{`[]`, `null`, `{}`, `[{"denom":"bnb"}]`})
	}
	// a rule keyed by a value that two current records share: leave the first of
	// them alone and change a protected field of the second one only
	for _, ac := range acs {
		for _, q := range ac.Multi {
			var same []*jnode
			for _, rec := range doc.A {
				if v := rec.get(q.Key); v != nil && v.K == 's' && v.S == q.Val {
					same = append(same, rec)
				}
			}
			if len(same) >= 2 && r.Chance(40, 100) {
				for _, f := range sl.Schema {
					allowed := false
					for _, a := range q.Attrs {
						if a == f.Name {
							allowed = true
						}
					}
					if !allowed && f.Name != q.Key && r.Chance(1, 3) {
						setKey(same[1], f.Name, g.goodValue(f, same[1].get(f.Name)))
						g.mark("second-record-of-shared-key")
						return doc.text()
					}
				}
			}
		}
	}
	for _, rec := range doc.A {
		attrs := all()
		if len(acs) > 0 {
			attrs = nil
			for _, q := range acs[r.Intn(len(acs))].Multi {
				if v := rec.get(q.Key); v != nil && v.K == 's' && v.S == q.Val {
					attrs = q.Attrs
					break
				}
			}
		}
		if r.Chance(60, 100) {
			g.mutateRecord(rec, sl.Schema, attrs, noisy && r.Chance(1, 2))
		}
	}
	if noisy {
		switch r.Pick(30, 25, 8, 8, 6, 4, 19) {
		case 0, 1:
			for i := len(doc.A) - 1; i > 0; i-- {
				j := r.Intn(i + 1)
				doc.A[i], doc.A[j] = doc.A[j], doc.A[i]
			}
			g.mark("reordered-records")
		case 2:
			if len(doc.A) > 0 {
				i := r.Intn(len(doc.A))
				doc.A = append(doc.A, doc.A[i].clone())
				g.mark("dup-record")
			}
		case 3:
			if len(doc.A) > 0 {
				i := r.Intn(len(doc.A))
				doc.A = append(doc.A[:i], doc.A[i+1:]...)
			}
		case 4: // replace one record by a copy of another (count unchanged)
			if len(doc.A) > 1 {
				i := r.Intn(len(doc.A))
				j := (i + 1 + r.Intn(len(doc.A)-1)) % len(doc.A)
				doc.A[j] = doc.A[i].clone()
				g.mark("dup-record")
			}
		case 5:
			if len(doc.A) > 0 {
				doc.A[r.Intn(len(doc.A))] = jNull()
				g.mark("null-value")
			}
		}
	}
	return doc.text()
}

// genUpgrade: a plan a few blocks ahead - it goes stale when the deciding votes or
// the deadline come later than that - or far ahead, or already in the past
func (g *c17Gen) genUpgrade() *c17Content {
	return &c17Content{Kind: "upgrade", H: g.w.height + int64(pick(g.r, []int{1, 1, 2, 2, 3, 4, 6, 40, 40, 0, -3}))}
}

// genCommunity: one of the four x/community proposals; amounts around what the community pool,
// the module's hard deposit and its CDP hold, or ill-formed (ValidateBasic)
func (g *c17Gen) genCommunity(kind string) *c17Content {
	r := g.r
	c := &c17Content{Kind: kind}
	amt := func() int64 {
		return int64(pick(r, []int{1, 1000, 1_000_000, 5_000_000, 20_000_000, 55_000_000, 1_000_000_000, 3_000_000_000, 9_000_000_000_000}))
	}
	switch kind {
	case "lenddeposit", "lendwithdraw":
		switch r.Pick(40, 25, 20, 15) {
		case 0:
			c.Coins = []c17Coin{{"ukava", amt()}}
		case 1:
			c.Coins = []c17Coin{{"usdx", amt()}}
		case 2:
			c.Coins = []c17Coin{{"ukava", amt()}, {"usdx", amt()}}
		default:
			c.Coins = []c17Coin{{pick(r, []string{"bnb", "xrp", "hard"}), amt()}}
		}
		if r.Chance(14, 100) { // refused by ValidateBasic
			c.Coins = pick(r, [][]c17Coin{{}, {{"usdx", 5}, {"ukava", 5}}, {{"ukava", 5}, {"ukava", 5}}, {{"ukava", 0}}, {{"ukava", -5}}, {{"u", 5}}, {{"ukava", 5}, {"usdx", 0}},
				{{"Ukava", 5}, {"ukava", 5}}, {{"1kava", 5}}, {{"ukava", 5}, {"usd x", 7}}})
		}
	default:
		c.CType = pick(r, []string{"xrp-a", "xrp-a", "xrp-a", "xrp-a", "bnb-a", "nosuch-a"})
		if kind == "cdprepay" {
			c.Coins = []c17Coin{{"usdx", int64(pick(r, []int{1, 1_000_000, 5_000_000, 20_000_000, 55_000_000, 60_000_000, 900_000_000}))}}
		} else {
			c.Coins = []c17Coin{{"xrp", int64(pick(r, []int{1, 1_000_000_000, 40_000_000_000, 150_000_000_000, 190_000_000_000, 200_000_000_000, 900_000_000_000}))}}
		}
		if r.Chance(6, 100) {
			c.Coins[0].D = pick(r, []string{"usdx", "xrp", "bnb"})
		}
		if r.Chance(14, 100) { // refused by ValidateBasic
			switch r.Intn(4) {
			case 0:
				c.CType = pick(r, []string{"", " ", "\t "})
			case 1:
				c.Coins[0].A = pick(r, []int64{0, -1})
			case 2:
				c.Coins[0].D = pick(r, []string{"x", "9xrp", "us dx"})
			default:
				c.Coins = nil
			}
		}
	}
	return c
}

var communityKinds = []string{"lenddeposit", "lendwithdraw", "cdprepay", "cdpwithdraw"}

func (g *c17Gen) genContent(perm *c17Perm, prev *c17Snap) *c17Content {
	c := g.genContent0(perm, prev)
	if g.r.Chance(3, 100) { // refused by govv1beta1.ValidateAbstract, whatever the type
		c.Meta = 1 + g.r.Intn(3)
	}
	return c
}

func (g *c17Gen) genContent0(perm *c17Perm, prev *c17Snap) *c17Content {
	r := g.r
	switch r.Pick(66, 9, 3, 18, 2, 2) {
	case 1:
		return &c17Content{Kind: "text"}
	case 2:
		return &c17Content{Kind: "cchange"}
	case 3:
		return g.genCommunity(pick(r, communityKinds))
	case 4:
		return &c17Content{Kind: "cancelupgrade"}
	case 5:
		return &c17Content{Kind: "poolspend"}
	}
	c := &c17Content{Kind: "param"}
	n := 1
	if r.Chance(12, 100) {
		n = 2
	}
	for i := 0; i < n; i++ {
		slot := r.Intn(3)
		if perm != nil && len(perm.ACs) > 0 && r.Chance(85, 100) {
			slot = perm.ACs[r.Intn(len(perm.ACs))].P
		} else if r.Chance(12, 100) {
			slot = -1 - r.Intn(2)
		}
		c.Changes = append(c.Changes, c17Change{slot, g.genDoc(slot, perm, prev)})
	}
	if r.Chance(1, 60) {
		c.Changes = nil // refused by ValidateBasic
	}
	return c
}

func firstParamsPerm(c c17Com) *c17Perm {
	for i := range c.Perms {
		if c.Perms[i].Kind == "params" {
			return &c.Perms[i]
		}
	}
	return nil
}

func (g *c17Gen) comIDs() []int {
	var ids []int
	for id := 1; id <= 4; id++ {
		if _, ok := g.w.coms[id]; ok {
			ids = append(ids, id)
		}
	}
	return ids
}

func (g *c17Gen) genOp(prev *c17Snap) c17Op {
	r := g.r
	w := g.w
	if len(g.script) == 0 && r.Chance(4, 100) {
		g.script = g.staleUpgradeScript()
	}
	if len(g.script) == 0 && r.Chance(7, 100) {
		g.script = g.communityScript()
	}
	if len(g.script) == 0 && r.Chance(3, 100) {
		g.script = g.movedParamScript(prev)
	}
	if len(g.script) > 0 {
		op := g.script[0]
		g.script = g.script[1:]
		if op.Kind == "begin" && op.T < w.now {
			op.T = w.now
		}
		return op
	}
	ids := g.comIDs()
	pending := prev.props
	wVote, wBegin := 6, 8
	if len(pending) > 0 {
		wVote, wBegin = 30, 14
	}
	wApply := 5
	if len(pending) > 0 {
		wApply = 9
	}
	switch r.Pick(26, wApply, 22, wVote, wBegin, 3, 2, 1) {
	case 0:
		if r.Chance(3, 100) {
			// directed: a sub-parameter rule on a registered subspace's unset key makes allowsParamChange panic
			perm := c17Perm{Kind: "params", ACs: []c17AC{{P: -2, Single: []string{"x"}}}}
			return c17Op{Kind: "allows", Perm: &perm, Content: &c17Content{Kind: "param", Changes: []c17Change{{-2, `{"x":"1"}`}}}}
		}
		if g.matrix == 0 || r.Chance(22, 100) {
			// the permission matrix: every permission type against every proposal type, in turn
			n := g.idx + 37*g.matrix
			g.matrix++
			perm := c17Perm{Kind: c17PermKinds[n%len(c17PermKinds)]}
			if perm.Kind == "params" {
				perm = c17GenPerm(r, false)
			}
			content := g.anyContent(c17ContentKinds[(n/len(c17PermKinds))%len(c17ContentKinds)], &perm, prev)
			if r.Chance(1, 20) {
				content.Meta = 1 + r.Intn(3)
			}
			return c17Op{Kind: "allows", Perm: &perm, Content: content}
		}
		var perm c17Perm
		if len(ids) > 0 && r.Chance(65, 100) {
			c := w.coms[pick(r, ids)]
			perm = pick(r, c.Perms)
		} else {
			perm = c17GenPerm(r, true)
			if r.Chance(1, 12) {
				perm = pick(r, []c17Perm{{Kind: "god"}, {Kind: "text"}, {Kind: "other"}})
			}
		}
		var pp *c17Perm
		if perm.Kind == "params" {
			pp = &perm
		}
		if r.Chance(4, 100) {
			return c17Op{Kind: "allows", Perm: &perm, Content: g.genUpgrade()}
		}
		return c17Op{Kind: "allows", Perm: &perm, Content: g.genContent(pp, prev)}
	case 1:
		// directed: move a parameter under a pending parameter-change proposal (as x/gov could), so that
		// the proposal's permission or handler fails when it is enacted (closed as Invalid)
		if len(pending) > 0 && r.Chance(70, 100) {
			p := pick(r, pending)
			if pi := w.pend[int(p[0])]; pi != nil && pi.content.Kind == "param" && len(pi.content.Changes) > 0 && pi.content.Changes[0].P >= 0 {
				slot := pi.content.Changes[0].P
				return c17Op{Kind: "apply", Content: &c17Content{Kind: "param", Changes: []c17Change{{slot, g.genDoc(slot, nil, prev)}}}}
			}
		}
		return c17Op{Kind: "apply", Content: g.genContent(nil, prev)}
	case 2:
		op := c17Op{Kind: "submit", Com: 9}
		var pp *c17Perm
		if len(ids) > 0 && r.Chance(96, 100) {
			c := w.coms[pick(r, ids)]
			op.Com = c.ID
			pp = firstParamsPerm(c)
			op.A = pick(r, c.Members)
			if r.Chance(6, 100) {
				op.A = r.Intn(c17NAcc)
			}
		}
		op.Content = g.genContent(pp, prev)
		if r.Chance(10, 100) { // any proposal type, whatever the committee's permissions - rather one they do not cover
			k := pick(r, c17ContentKinds)
			if c, ok := w.coms[op.Com]; ok {
				for i := 0; i < 3 && anyTypeAllows(c.Perms, k); i++ {
					k = pick(r, c17ContentKinds)
				}
			}
			op.Content = g.anyContent(k, pp, prev)
			return op
		}
		if c, ok := w.coms[op.Com]; ok && r.Chance(22, 100) {
			for _, pm := range c.Perms {
				if pm.Kind == "other" || pm.Kind == "god" {
					op.Content = g.genUpgrade()
					break
				}
			}
		}
		if c, ok := w.coms[op.Com]; ok && anyTypeAllows(c.Perms, "cancelupgrade") && r.Chance(12, 100) {
			op.Content = &c17Content{Kind: pick(r, []string{"cancelupgrade", "cancelupgrade", "poolspend", "lenddeposit"})}
			if op.Content.Kind == "lenddeposit" {
				op.Content = g.genCommunity("lenddeposit")
			}
			return op
		}
		if c, ok := w.coms[op.Com]; ok && r.Chance(18, 100) {
			// a community proposal of a kind the committee has a permission for
			var ks []string
			for _, k := range communityKinds {
				if anyTypeAllows(c.Perms, k) {
					ks = append(ks, k)
				}
			}
			if len(ks) > 0 {
				op.Content = g.genCommunity(pick(r, ks))
			}
		}
		return op
	case 3:
		op := c17Op{Kind: "vote", Pid: 1 + r.Intn(6), A: r.Intn(c17NAcc), Vt: 1}
		if len(pending) > 0 && r.Chance(94, 100) {
			p := pick(r, pending)
			op.Pid = int(p[0])
			if c, ok := w.coms[int(p[1])]; ok {
				if c.Token {
					op.Vt = 1 + r.Pick(60, 25, 15)
				} else {
					if r.Chance(90, 100) {
						op.A = pick(r, c.Members)
					}
					if r.Chance(5, 100) {
						op.Vt = 2 + r.Intn(2)
					}
				}
			}
		}
		if r.Chance(2, 100) {
			op.Vt = pick(r, []int{0, 4})
		}
		return op
	case 4:
		dt := int64(1 + r.Intn(15))
		if len(pending) > 0 && r.Chance(45, 100) {
			// land on a deadline, one second before, or one second after
			p := pick(r, pending)
			target := p[2] + int64(r.Intn(3)-1)
			if target > w.now {
				dt = target - w.now
			}
		}
		return c17Op{Kind: "begin", T: w.now + dt}
	case 5:
		return c17Op{Kind: "transfer", A: r.Intn(c17NAcc), B: r.Intn(c17NAcc), X: int64(pick(r, []int{1, 10, 50, 100, 300, 1000, 0}))}
	case 6:
		var c c17Com
		if len(ids) > 0 && r.Chance(80, 100) {
			c = w.coms[pick(r, ids)]
			c.Perms = append([]c17Perm(nil), c.Perms...)
		} else {
			c = c17Com{ID: 4, Members: []int{1, 4}, Perms: []c17Perm{c17GenPerm(r, false)}, Threshold: "0.5", Duration: 80, FPTP: true}
		}
		switch r.Intn(6) {
		case 0:
			c.Perms = []c17Perm{c17GenPerm(r, false)}
		case 1:
			c.Threshold = pick(r, []string{"0.5", "1.0", "0.25"})
		case 2:
			c.Members = pick(r, [][]int{{0}, {0, 1, 2, 3, 4}, {3, 4}})
		case 3:
			c.FPTP = !c.FPTP
		case 4: // member <-> token
			c.Token = !c.Token
			c.Quorum = "0.3"
		default:
			if r.Chance(1, 2) {
				c.Threshold = "0.0" // invalid
			} else {
				c.Members = []int{1, 1} // invalid
			}
		}
		return c17Op{Kind: "setcom", NewCom: &c}
	default:
		return c17Op{Kind: "delcom", Com: 1 + r.Intn(4)}
	}
}
