package c17

// Ordered JSON documents with duplicate keys preserved (what the permission
// checker and the amino decoder each resolve in their own way), their text
// form, their parse from text, and their rendering as terms of Model/Json.v.

import (
	"bytes"
	"encoding/json"
	"fmt"
	"math/big"
	"regexp"
	"sort"
	"strings"
	"sync"

	. "kavaverif/lib"
)

type jnode struct {
	K byte // 'n' null, 'b' bool, '#' number, 's' string, 'a' array, 'o' object
	B bool
	N string // number literal
	S string
	A []*jnode
	O []jkv
}

type jkv struct {
	K string
	V *jnode
}

func jNull() *jnode          { return &jnode{K: 'n'} }
func jBool(b bool) *jnode    { return &jnode{K: 'b', B: b} }
func jNum(n int64) *jnode    { return &jnode{K: '#', N: fmt.Sprint(n)} }
func jStr(s string) *jnode   { return &jnode{K: 's', S: s} }
func jArr(a []*jnode) *jnode { return &jnode{K: 'a', A: a} }
func jObj(o []jkv) *jnode    { return &jnode{K: 'o', O: o} }

func (j *jnode) clone() *jnode {
	c := *j
	if j.A != nil {
		c.A = make([]*jnode, len(j.A))
		for i, x := range j.A {
			c.A[i] = x.clone()
		}
	}
	if j.O != nil {
		c.O = make([]jkv, len(j.O))
		for i, kv := range j.O {
			c.O[i] = jkv{kv.K, kv.V.clone()}
		}
	}
	return &c
}

func (j *jnode) get(k string) *jnode { // last occurrence
	for i := len(j.O) - 1; i >= 0; i-- {
		if j.O[i].K == k {
			return j.O[i].V
		}
	}
	return nil
}

func (j *jnode) text() string {
	var b strings.Builder
	j.write(&b)
	return b.String()
}

func (j *jnode) write(b *strings.Builder) {
	switch j.K {
	case 'n':
		b.WriteString("null")
	case 'b':
		if j.B {
			b.WriteString("true")
		} else {
			b.WriteString("false")
		}
	case '#':
		b.WriteString(j.N)
	case 's':
		bz, _ := json.Marshal(j.S)
		b.Write(bz)
	case 'a':
		b.WriteByte('[')
		for i, x := range j.A {
			if i > 0 {
				b.WriteByte(',')
			}
			x.write(b)
		}
		b.WriteByte(']')
	case 'o':
		b.WriteByte('{')
		for i, kv := range j.O {
			if i > 0 {
				b.WriteByte(',')
			}
			bz, _ := json.Marshal(kv.K)
			b.Write(bz)
			b.WriteByte(':')
			kv.V.write(b)
		}
		b.WriteByte('}')
	}
}

// parseJSON parses text into an ordered document, keeping duplicate keys.
func parseJSON(text []byte) (*jnode, error) {
	dec := json.NewDecoder(bytes.NewReader(text))
	dec.UseNumber()
	j, err := parseValue(dec)
	if err != nil {
		return nil, err
	}
	if _, err := dec.Token(); err == nil {
		return nil, fmt.Errorf("trailing data")
	}
	if !json.Valid(text) {
		return nil, fmt.Errorf("invalid JSON")
	}
	return j, nil
}

func parseValue(dec *json.Decoder) (*jnode, error) {
	t, err := dec.Token()
	if err != nil {
		return nil, err
	}
	switch v := t.(type) {
	case nil:
		return jNull(), nil
	case bool:
		return jBool(v), nil
	case json.Number:
		return &jnode{K: '#', N: v.String()}, nil
	case string:
		return jStr(v), nil
	case json.Delim:
		switch v {
		case '[':
			out := &jnode{K: 'a', A: []*jnode{}}
			for dec.More() {
				x, err := parseValue(dec)
				if err != nil {
					return nil, err
				}
				out.A = append(out.A, x)
			}
			if _, err := dec.Token(); err != nil {
				return nil, err
			}
			return out, nil
		case '{':
			out := &jnode{K: 'o', O: []jkv{}}
			for dec.More() {
				kt, err := dec.Token()
				if err != nil {
					return nil, err
				}
				k, ok := kt.(string)
				if !ok {
					return nil, fmt.Errorf("non-string key")
				}
				x, err := parseValue(dec)
				if err != nil {
					return nil, err
				}
				out.O = append(out.O, jkv{k, x})
			}
			if _, err := dec.Token(); err != nil {
				return nil, err
			}
			return out, nil
		}
	}
	return nil, fmt.Errorf("unexpected token %v", t)
}

// ---------------------------------------------------------------- Coq rendering

var (
	reCanonInt = regexp.MustCompile(`^(0|-?[1-9][0-9]*)$`)
	reCanonDec = regexp.MustCompile(`^(-?)(0|[1-9][0-9]*)\.([0-9]{18})$`)
	reSafeText = regexp.MustCompile(`^[A-Za-z0-9 _:./\t-]*$`)
)

type strTable struct {
	addrs map[string]int // bech32 -> address index
}

// coqString renders a string as an identifier defined once per case file
// (string literals are by far the most expensive thing for coqc to parse).
var strUsed = struct {
	mu sync.Mutex
	m  map[string]bool
}{m: map[string]bool{}}

func strIdent(s string) string {
	var b strings.Builder
	b.WriteString("s_")
	for i := 0; i < len(s); i++ {
		c := s[i]
		switch {
		case c >= 'a' && c <= 'z', c >= 'A' && c <= 'Z', c >= '0' && c <= '9':
			b.WriteByte(c)
		case c == '_':
			b.WriteString("__")
		default:
			fmt.Fprintf(&b, "_x%02x", c)
		}
	}
	return b.String()
}

func coqString(s string) string {
	if !reSafeText.MatchString(s) {
		panic(fmt.Sprintf("c17: string %q is outside the alphabet the case files support", s))
	}
	strUsed.mu.Lock()
	strUsed.m[s] = true
	strUsed.mu.Unlock()
	return strIdent(s)
}

func coqStringLit(s string) string {
	if strings.Contains(s, "\t") {
		// Coq string literals have no escapes: build the tab explicitly
		parts := strings.Split(s, "\t")
		for i := range parts {
			parts[i] = "\"" + parts[i] + "\""
		}
		return "(" + strings.Join(parts, " ++ String (ascii_of_nat 9) \"\" ++ ") + ")%string"
	}
	return "\"" + s + "\""
}

// strDefs returns the definitions of every string identifier used so far, in order.
func strDefs() string {
	strUsed.mu.Lock()
	defer strUsed.mu.Unlock()
	ks := make([]string, 0, len(strUsed.m))
	for k := range strUsed.m {
		ks = append(ks, k)
	}
	sort.Strings(ks)
	var b strings.Builder
	for _, k := range ks {
		fmt.Fprintf(&b, "Definition %s : string := %s.\n", strIdent(k), coqStringLit(k))
	}
	return b.String()
}

// classify renders a Go string as a Model/Json.v [jstr] (injective classification).
func (t *strTable) classify(s string) string {
	if i, ok := t.addrs[s]; ok {
		return fmt.Sprintf("(SAddr %s)", Nat(i))
	}
	if reCanonInt.MatchString(s) {
		z, _ := new(big.Int).SetString(s, 10)
		return fmt.Sprintf("(SInt %s)", Z(z))
	}
	if m := reCanonDec.FindStringSubmatch(s); m != nil {
		z, _ := new(big.Int).SetString(m[2]+m[3], 10)
		if m[1] == "-" {
			z.Neg(z)
		}
		if !(m[1] == "-" && z.Sign() == 0) {
			return fmt.Sprintf("(SDec %s)", Z(z))
		}
	}
	return fmt.Sprintf("(SText %s)", coqString(s))
}

func (t *strTable) coq(j *jnode) string {
	switch j.K {
	case 'n':
		return "JNull"
	case 'b':
		return "(JBool " + Bool(j.B) + ")"
	case '#':
		z, ok := new(big.Int).SetString(j.N, 10)
		if !ok {
			panic("c17: only integer number literals are generated: " + j.N)
		}
		return "(JNum " + Z(z) + ")"
	case 's':
		return "(JStr " + t.classify(j.S) + ")"
	case 'a':
		it := make([]string, len(j.A))
		for i, x := range j.A {
			it[i] = t.coq(x)
		}
		return "(JArr " + List(it) + ")"
	default:
		it := make([]string, len(j.O))
		for i, kv := range j.O {
			it[i] = "(" + coqString(kv.K) + ", " + t.coq(kv.V) + ")"
		}
		return "(JObj " + List(it) + ")"
	}
}

// coqOptText renders a proposed value text as [option json].
func (t *strTable) coqOptText(text string) string {
	j, err := parseJSON([]byte(text))
	if err != nil {
		return "None"
	}
	return "(Some " + t.coq(j) + ")"
}
