package c17

// C17 — x/committee: committees enact only what their permissions allow, once,
// and only when passed.  Histories of permission queries, direct handler calls,
// MsgSubmitProposal, MsgVote, begin blocks, token transfers and gov-side
// committee changes on the real committee keeper, with the real x/params
// subspaces of bep3 (AssetParams) and cdp (CollateralParams, DebtParam) as the
// targets of parameter-change proposals.

import (
	. "kavaverif/lib"

	"encoding/json"
	"fmt"
	"math/big"
	"os"
	"reflect"
	"sort"
	"strconv"
	"strings"
	"time"

	sdkmath "cosmossdk.io/math"
	abci "github.com/cometbft/cometbft/abci/types"
	sdk "github.com/cosmos/cosmos-sdk/types"
	distrtypes "github.com/cosmos/cosmos-sdk/x/distribution/types"
	govv1beta1 "github.com/cosmos/cosmos-sdk/x/gov/types/v1beta1"
	"github.com/cosmos/cosmos-sdk/x/params"
	paramstypes "github.com/cosmos/cosmos-sdk/x/params/types"
	paramsproposal "github.com/cosmos/cosmos-sdk/x/params/types/proposal"
	upgradetypes "github.com/cosmos/cosmos-sdk/x/upgrade/types"

	"github.com/kava-labs/kava/app"
	bep3types "github.com/kava-labs/kava/x/bep3/types"
	cdptypes "github.com/kava-labs/kava/x/cdp/types"
	"github.com/kava-labs/kava/x/committee"
	ckeeper "github.com/kava-labs/kava/x/committee/keeper"
	ctypes "github.com/kava-labs/kava/x/committee/types"
	"github.com/kava-labs/kava/x/community"
	communitytypes "github.com/kava-labs/kava/x/community/types"
	hardtypes "github.com/kava-labs/kava/x/hard/types"
	pricefeedtypes "github.com/kava-labs/kava/x/pricefeed/types"
)

func init() { Registry["C17"] = runC17 }

const c17Sec = int64(time.Second) // times and durations are nanoseconds throughout

const (
	c17NAcc     = 6
	c17DefaultL = 26
	c17Denom    = "hard"
)

var c17Bals = []int64{100, 200, 300, 50, 0, 350}

// ------------------------------------------------------------ schema table (by reflection)

type fieldInfo struct {
	Name string
	Kind string // str bool i64 u64 int dec addr obj
	Omit bool
	Sub  []fieldInfo
}

type slotInfo struct {
	Subspace string
	Key      string
	Multi    bool
	Vid      int
	Schema   []fieldInfo
}

var (
	tInt  = reflect.TypeOf(sdkmath.Int{})
	tDec  = reflect.TypeOf(sdkmath.LegacyDec{})
	tAddr = reflect.TypeOf(sdk.AccAddress{})
)

func reflectSchema(t reflect.Type, nested bool) []fieldInfo {
	var out []fieldInfo
	for i := 0; i < t.NumField(); i++ {
		f := t.Field(i)
		if f.PkgPath != "" {
			continue
		}
		tag := f.Tag.Get("json")
		if tag == "-" {
			continue
		}
		parts := strings.Split(tag, ",")
		fi := fieldInfo{Name: parts[0]}
		if fi.Name == "" {
			fi.Name = f.Name
		}
		for _, p := range parts[1:] {
			if p == "omitempty" {
				fi.Omit = true
			}
		}
		switch {
		case f.Type == tInt:
			fi.Kind = "int"
		case f.Type == tDec:
			fi.Kind = "dec"
		case f.Type == tAddr:
			fi.Kind = "addr"
		case f.Type.Kind() == reflect.String:
			fi.Kind = "str"
		case f.Type.Kind() == reflect.Bool:
			fi.Kind = "bool"
		case f.Type.Kind() == reflect.Int64:
			fi.Kind = "i64"
		case f.Type.Kind() == reflect.Uint64:
			fi.Kind = "u64"
		case f.Type.Kind() == reflect.Struct && !nested:
			fi.Kind = "obj"
			fi.Sub = reflectSchema(f.Type, true)
		default:
			panic(fmt.Sprintf("c17: field %s.%s has a type (%s) outside the modelled kinds", t.Name(), f.Name, f.Type))
		}
		out = append(out, fi)
	}
	return out
}

func c17Slots() []slotInfo {
	return []slotInfo{
		{bep3types.ModuleName, string(bep3types.KeyAssetParams), true, 0, reflectSchema(reflect.TypeOf(bep3types.AssetParam{}), false)},
		{cdptypes.ModuleName, string(cdptypes.KeyCollateralParams), true, 1, reflectSchema(reflect.TypeOf(cdptypes.CollateralParam{}), false)},
		{cdptypes.ModuleName, string(cdptypes.KeyDebtParam), false, 2, reflectSchema(reflect.TypeOf(cdptypes.DebtParam{}), false)},
	}
}

var coqKind = map[string]string{"str": "KStr", "bool": "KBool", "i64": "KI64", "u64": "KU64", "int": "KInt", "dec": "KDec", "addr": "KAddr"}

func coqSlots(sl []slotInfo) string {
	var it []string
	for _, s := range sl {
		var fs []string
		for _, f := range s.Schema {
			k := ""
			if f.Kind == "obj" {
				var sub []string
				for _, g := range f.Sub {
					sub = append(sub, fmt.Sprintf("(%s, %s, %s)", coqString(g.Name), coqKind[g.Kind], Bool(g.Omit)))
				}
				k = "(KObj " + List(sub) + ")"
			} else {
				k = "(KS " + coqKind[f.Kind] + ")"
			}
			fs = append(fs, fmt.Sprintf("mkField %s %s %s", coqString(f.Name), k, Bool(f.Omit)))
		}
		it = append(it, fmt.Sprintf("mkSlot %s %s %s", List(fs), Bool(s.Multi), Nat(s.Vid)))
	}
	return List(it)
}

// ------------------------------------------------------------ operations (replayable)

type c17Change struct {
	P int    `json:"p"` // slot index; -1 unknown subspace; -2 registered subspace, unregistered key; -3 cdp/SurplusThreshold, -4 hard/MinimumBorrowUSDValue (value always null)
	V string `json:"v"` // proposed value text
}

type c17Coin struct {
	D string `json:"d"`
	A int64  `json:"a"`
}

type c17Content struct {
	Kind    string      `json:"kind"` // text | param | cchange | upgrade | lenddeposit | lendwithdraw | cdprepay | cdpwithdraw | cancelupgrade | poolspend
	Changes []c17Change `json:"changes,omitempty"`
	H       int64       `json:"h,omitempty"`     // upgrade: plan height
	Coins   []c17Coin   `json:"coins,omitempty"` // community: the amount (lend) or the single coin (cdp)
	CType   string      `json:"ctype,omitempty"` // community cdp proposals: collateral type
	Meta    int         `json:"meta,omitempty"`  // 0 fine; 1 blank title; 2 empty description; 3 title too long
	ok      bool        // community: does the keeper call behind the handler succeed on the state it is run on next (recorded when executed)
}

func (c c17Content) isCommunity() bool {
	switch c.Kind {
	case "lenddeposit", "lendwithdraw", "cdprepay", "cdpwithdraw":
		return true
	}
	return false
}

var c17ContentKinds = []string{"text", "param", "upgrade", "cchange", "lenddeposit", "lendwithdraw", "cdprepay", "cdpwithdraw", "cancelupgrade", "poolspend"}
var c17PermKinds = []string{"god", "text", "params", "other", "cdprepay", "cdpwithdraw", "lendwithdraw"}

func contentTag(kind string) int {
	for i, k := range c17ContentKinds {
		if k == kind {
			return i
		}
	}
	return -1
}

// typeAllows is the permission matrix written down independently of the Allows methods:
// which proposal type a permission of the declared type can allow at all.
func typeAllows(perm, content string) bool {
	switch perm {
	case "god":
		return true
	case "text":
		return content == "text"
	case "params":
		return content == "param"
	case "other":
		return content == "upgrade"
	case "cdprepay":
		return content == "cdprepay"
	case "cdpwithdraw":
		return content == "cdpwithdraw"
	case "lendwithdraw":
		return content == "lendwithdraw"
	}
	return false
}

func anyTypeAllows(perms []c17Perm, content string) bool {
	for _, p := range perms {
		if typeAllows(p.Kind, content) {
			return true
		}
	}
	return false
}

type c17Req struct {
	Key   string   `json:"key"`
	Val   string   `json:"val"`
	Attrs []string `json:"attrs"`
}

type c17AC struct {
	P      int      `json:"p"`
	Single []string `json:"single,omitempty"`
	Multi  []c17Req `json:"multi,omitempty"`
}

type c17Perm struct {
	Kind string  `json:"kind"` // god | text | params | other (software upgrade) | cdprepay | cdpwithdraw | lendwithdraw
	ACs  []c17AC `json:"acs,omitempty"`
}

type c17Com struct {
	ID        int       `json:"id"`
	Token     bool      `json:"token"`
	Quorum    string    `json:"quorum,omitempty"`
	Members   []int     `json:"members"`
	Perms     []c17Perm `json:"perms"`
	Threshold string    `json:"threshold"`
	Duration  int64     `json:"duration"` // nanoseconds
	FPTP      bool      `json:"fptp"`
}

type c17Op struct {
	Kind    string      `json:"kind"` // allows apply submit vote begin transfer setcom delcom
	Perm    *c17Perm    `json:"perm,omitempty"`
	Content *c17Content `json:"content,omitempty"`
	A       int         `json:"a,omitempty"` // proposer / voter / sender
	B       int         `json:"b,omitempty"` // recipient
	Com     int         `json:"com,omitempty"`
	Pid     int         `json:"pid,omitempty"`
	Vt      int         `json:"vt,omitempty"`
	T       int64       `json:"t,omitempty"` // nanoseconds after genesis
	X       int64       `json:"x,omitempty"`
	NewCom  *c17Com     `json:"newcom,omitempty"`
}

type c17Setup struct {
	Coms         []c17Com `json:"coms"`
	IncActive    bool     `json:"inc_active"`
	RefAssetSet  bool     `json:"ref_asset_set"`
	EmptyAssets  bool     `json:"empty_assets"`
	XrpbCoinZero bool     `json:"xrpb_coin_zero"`
	PoolFunded   bool     `json:"pool_funded"`  // the community pool holds ukava and usdx
	HardDeposit  bool     `json:"hard_deposit"` // the community module account has a hard deposit
	Cdp          bool     `json:"cdp"`          // the community module account owns an xrp-a CDP
	Bals         []int64  `json:"bals,omitempty"` // tally-denom balances of the six accounts (default c17Bals)
}

type c17Hist struct {
	Seed  uint64   `json:"seed"`
	Idx   int      `json:"history"`
	Setup c17Setup `json:"setup"`
	Ops   []c17Op  `json:"ops"`
}

// ------------------------------------------------------------ world

type pendInfo struct {
	com      int
	deadline int64
	content  c17Content
}

type c17World struct {
	tApp    app.TestApp
	ctx     sdk.Context
	k       ckeeper.Keeper
	msg     ctypes.MsgServer
	addrs   []sdk.AccAddress
	deputy  sdk.AccAddress
	st      *strTable
	slots   []slotInfo
	now     int64
	height  int64
	coms    map[int]c17Com // driver's own record of the committee configurations
	pend    map[int]*pendInfo
	closed  map[int]bool
	voteAt  map[[2]int]int64
	cnt     *Counters
	nextPid int
	macc    sdk.AccAddress // x/community module account
	enacted [4]int64       // community keeper calls committed so far: hard deposit, hard withdrawal, cdp repayment, cdp withdrawal
	heldBack *[3]string    // a finding at a submission (predicate, signature, detail) that is reported at the end of the history unless a later step fails
}

type c17Snap struct {
	raws    []string // stored documents of the three slots
	others  string   // every other key of the bep3 and cdp subspaces
	props   [][3]int64
	votes   [][3]int64
	next    int
	bals    []int64
	supply  int64
	plan    int64    // height of the stored upgrade plan, 0 = none (raw x/upgrade store)
	ctypes  []int    // Go type of the content of each stored proposal (own type switch), in store order
	enacted [4]int64 // see c17World.enacted
	comm    string   // community pool, module account balances, its hard deposit and its CDP
}

func dec(s string) sdk.Dec { return sdk.MustNewDecFromStr(s) }

func (w *c17World) goPerm(p c17Perm) ctypes.Permission {
	switch p.Kind {
	case "god":
		return &ctypes.GodPermission{}
	case "text":
		return &ctypes.TextPermission{}
	case "other":
		return &ctypes.SoftwareUpgradePermission{}
	case "cdprepay":
		return &ctypes.CommunityCDPRepayDebtPermission{}
	case "cdpwithdraw":
		return &ctypes.CommunityCDPWithdrawCollateralPermission{}
	case "lendwithdraw":
		return &ctypes.CommunityPoolLendWithdrawPermission{}
	}
	var acs ctypes.AllowedParamsChanges
	for _, ac := range p.ACs {
		sub, key := w.prefNames(ac.P)
		g := ctypes.AllowedParamsChange{Subspace: sub, Key: key, SingleSubparamAllowedAttrs: ac.Single}
		for _, r := range ac.Multi {
			g.MultiSubparamsRequirements = append(g.MultiSubparamsRequirements,
				ctypes.SubparamRequirement{Key: r.Key, Val: r.Val, AllowedSubparamAttrChanges: r.Attrs})
		}
		acs = append(acs, g)
	}
	return &ctypes.ParamsChangePermission{AllowedParamsChanges: acs}
}

func (w *c17World) prefNames(p int) (string, string) {
	switch {
	case p == -1:
		return "nosuchspace", "Anything"
	case p == -2:
		return cdptypes.ModuleName, "NoSuchKey"
	case p == -3: // a registered scalar Int; only ever proposed as null, on which its validator dereferences nil
		return cdptypes.ModuleName, string(cdptypes.KeySurplusThreshold)
	case p == -4: // a registered scalar Dec; likewise
		return hardtypes.ModuleName, string(hardtypes.KeyMinimumBorrowUSDValue)
	}
	return w.slots[p].Subspace, w.slots[p].Key
}

func (w *c17World) goCom(c c17Com) ctypes.Committee {
	var members []sdk.AccAddress
	for _, m := range c.Members {
		members = append(members, w.addrs[m])
	}
	var perms []ctypes.Permission
	for _, p := range c.Perms {
		perms = append(perms, w.goPerm(p))
	}
	opt := ctypes.TALLY_OPTION_DEADLINE
	if c.FPTP {
		opt = ctypes.TALLY_OPTION_FIRST_PAST_THE_POST
	}
	dur := time.Duration(c.Duration)
	if c.Token {
		return ctypes.MustNewTokenCommittee(uint64(c.ID), "c", members, perms, dec(c.Threshold), dur, opt, dec(c.Quorum), c17Denom)
	}
	return ctypes.MustNewMemberCommittee(uint64(c.ID), "c", members, perms, dec(c.Threshold), dur, opt)
}

func rawCoins(cs []c17Coin) sdk.Coins {
	out := sdk.Coins{}
	for _, c := range cs {
		out = append(out, sdk.Coin{Denom: c.D, Amount: sdkmath.NewInt(c.A)})
	}
	return out
}

func (w *c17World) goContent(c c17Content) ctypes.PubProposal {
	title, desc := "title", "description"
	switch c.Meta {
	case 1:
		title = "  "
	case 2:
		desc = ""
	case 3:
		title = strings.Repeat("t", govv1beta1.MaxTitleLength+1)
	}
	one := func() sdk.Coin {
		if len(c.Coins) == 0 {
			return sdk.Coin{Denom: "usdx", Amount: sdkmath.ZeroInt()}
		}
		return sdk.Coin{Denom: c.Coins[0].D, Amount: sdkmath.NewInt(c.Coins[0].A)}
	}
	switch c.Kind {
	case "text":
		return govv1beta1.NewTextProposal(title, desc)
	case "upgrade":
		return upgradetypes.NewSoftwareUpgradeProposal(title, desc, upgradetypes.Plan{Name: "v2", Height: c.H})
	case "cchange":
		cc := ctypes.MustNewCommitteeChangeProposal(title, desc,
			w.goCom(c17Com{ID: 1, Members: []int{0, 1, 2, 3, 4, 5}, Perms: []c17Perm{{Kind: "god"}}, Threshold: "0.1", Duration: 10 * c17Sec, FPTP: true}))
		return &cc
	case "cancelupgrade":
		return upgradetypes.NewCancelSoftwareUpgradeProposal(title, desc)
	case "poolspend":
		return &distrtypes.CommunityPoolSpendProposal{Title: title, Description: desc, Recipient: w.addrs[0].String(), Amount: sdk.NewCoins(sdk.NewInt64Coin("ukava", 1000))}
	case "lenddeposit":
		return communitytypes.NewCommunityPoolLendDepositProposal(title, desc, rawCoins(c.Coins))
	case "lendwithdraw":
		return communitytypes.NewCommunityPoolLendWithdrawProposal(title, desc, rawCoins(c.Coins))
	case "cdprepay":
		return communitytypes.NewCommunityCDPRepayDebtProposal(title, desc, c.CType, one())
	case "cdpwithdraw":
		return communitytypes.NewCommunityCDPWithdrawCollateralProposal(title, desc, c.CType, one())
	}
	var chs []paramsproposal.ParamChange
	for _, ch := range c.Changes {
		sub, key := w.prefNames(ch.P)
		chs = append(chs, paramsproposal.NewParamChange(sub, key, ch.V))
	}
	return paramsproposal.NewParameterChangeProposal(title, desc, chs)
}

// contentKindOf is the driver's own type switch on a stored content
func contentKindOf(c govv1beta1.Content) int {
	switch c.(type) {
	case *govv1beta1.TextProposal:
		return 0
	case *paramsproposal.ParameterChangeProposal:
		return 1
	case *upgradetypes.SoftwareUpgradeProposal:
		return 2
	case *ctypes.CommitteeChangeProposal:
		return 3
	case *communitytypes.CommunityPoolLendDepositProposal:
		return 4
	case *communitytypes.CommunityPoolLendWithdrawProposal:
		return 5
	case *communitytypes.CommunityCDPRepayDebtProposal:
		return 6
	case *communitytypes.CommunityCDPWithdrawCollateralProposal:
		return 7
	case *upgradetypes.CancelSoftwareUpgradeProposal:
		return 8
	case *distrtypes.CommunityPoolSpendProposal:
		return 9
	}
	return 99
}

// communityOK runs the x/community handler directly on a copy of the state:
// what the keeper call behind a community proposal answers there.
func (w *c17World) communityOK(ctx sdk.Context, c c17Content) (ok bool) {
	cctx, _ := ctx.CacheContext()
	defer func() {
		if r := recover(); r != nil {
			ok = false
		}
	}()
	return community.NewCommunityPoolProposalHandler(w.tApp.GetCommunityKeeper())(cctx, w.goContent(c)) == nil
}

func c17NewWorld(setup c17Setup, cnt *Counters) *c17World {
	tApp := NewApp()
	all := Addrs(c17NAcc + 1)
	users, deputy := all[:c17NAcc], all[c17NAcc]
	cdc := tApp.AppCodec()
	b := app.NewAuthBankGenesisBuilder()
	bals := c17Bals
	if len(setup.Bals) == c17NAcc {
		bals = setup.Bals
	}
	for i, a := range users {
		coins := sdk.NewCoins(sdk.NewInt64Coin("ukava", 1_000_000))
		if bals[i] > 0 {
			coins = coins.Add(sdk.NewInt64Coin(c17Denom, bals[i]))
		}
		b.WithSimpleAccount(a, coins)
	}
	w := &c17World{tApp: tApp, addrs: users, deputy: deputy, slots: c17Slots(), cnt: cnt,
		coms: map[int]c17Com{}, pend: map[int]*pendInfo{}, closed: map[int]bool{}, voteAt: map[[2]int]int64{}, nextPid: 1}
	w.st = &strTable{addrs: map[string]int{}}
	for i, a := range all {
		w.st.addrs[a.String()] = i
	}
	var coms []ctypes.Committee
	for _, c := range setup.Coms {
		coms = append(coms, w.goCom(c))
		w.coms[c.ID] = c
	}
	gs := ctypes.NewGenesisState(1, coms, ctypes.Proposals{}, []ctypes.Vote{})

	// what the x/community handlers reach: price feed, a money market for ukava and usdx, cdp collateral types
	far := GenesisTime.Add(1000000 * time.Hour)
	pf := pricefeedtypes.DefaultGenesisState()
	for _, m := range [][3]string{{"bnb:usd", "bnb", "15.0"}, {"bnb:usd:30", "bnb", "15.0"}, {"xrp:usd", "xrp", "0.25"}, {"xrp:usd:30", "xrp", "0.25"},
		{"kava:usd", "ukava", "1.0"}, {"usdx:usd", "usdx", "1.0"}} {
		pf.Params.Markets = append(pf.Params.Markets, pricefeedtypes.Market{MarketID: m[0], BaseAsset: m[1], QuoteAsset: "usd", Oracles: []sdk.AccAddress{}, Active: true})
		pf.PostedPrices = append(pf.PostedPrices, pricefeedtypes.PostedPrice{MarketID: m[0], OracleAddress: sdk.AccAddress{}, Price: dec(m[2]), Expiry: far})
	}
	hg := hardtypes.DefaultGenesisState()
	for _, m := range [][2]string{{"ukava", "kava:usd"}, {"usdx", "usdx:usd"}} {
		hg.Params.MoneyMarkets = append(hg.Params.MoneyMarkets, hardtypes.NewMoneyMarket(m[0],
			hardtypes.NewBorrowLimit(false, sdk.NewDec(1e15), dec("0.6")), m[1], sdkmath.NewInt(1e6),
			hardtypes.NewInterestRateModel(dec("0.05"), dec("2"), dec("0.8"), dec("10")), dec("0.05"), sdk.ZeroDec()))
	}
	i := sdkmath.NewInt
	coll := func(denom, typ string, ratio string, fee string, market string) cdptypes.CollateralParam {
		return cdptypes.CollateralParam{Denom: denom, Type: typ, LiquidationRatio: dec(ratio), DebtLimit: sdk.NewInt64Coin("usdx", 500_000_000_000),
			StabilityFee: dec(fee), AuctionSize: i(7_000_000_000), LiquidationPenalty: dec("0.05"), SpotMarketID: market, LiquidationMarketID: market + ":30",
			KeeperRewardPercentage: dec("0.01"), CheckCollateralizationIndexCount: i(10), ConversionFactor: i(8)}
	}
	colls := cdptypes.CollateralParams{coll("bnb", "bnb-a", "1.5", "1.000000001547125958", "bnb:usd"), coll("bnb", "bnb-b", "2.0", "1.000000000000000000", "bnb:usd"),
		coll("xrp", "xrp-a", "2.0", "1.000000001547125958", "xrp:usd")}
	cg := cdptypes.GenesisState{
		Params: cdptypes.Params{
			GlobalDebtLimit: sdk.NewInt64Coin("usdx", 2_000_000_000_000), SurplusAuctionThreshold: cdptypes.DefaultSurplusThreshold,
			SurplusAuctionLot: cdptypes.DefaultSurplusLot, DebtAuctionThreshold: cdptypes.DefaultDebtThreshold, DebtAuctionLot: cdptypes.DefaultDebtLot,
			LiquidationBlockInterval: cdptypes.DefaultBeginBlockerExecutionBlockInterval, CollateralParams: colls,
			DebtParam: cdptypes.DebtParam{Denom: "usdx", ReferenceAsset: "usd", ConversionFactor: i(6), DebtFloor: i(10_000_000)},
		},
		StartingCdpID: cdptypes.DefaultCdpStartingID, DebtDenom: cdptypes.DefaultDebtDenom, GovDenom: cdptypes.DefaultGovDenom, CDPs: cdptypes.CDPs{},
	}
	for _, c := range colls {
		cg.PreviousAccumulationTimes = append(cg.PreviousAccumulationTimes, cdptypes.NewGenesisAccumulationTime(c.Type, time.Time{}, sdk.OneDec()))
		cg.TotalPrincipals = append(cg.TotalPrincipals, cdptypes.NewGenesisTotalPrincipal(c.Type, sdk.ZeroInt()))
	}
	tApp.InitializeFromGenesisStatesWithTime(GenesisTime, b.BuildMarshalled(cdc),
		app.GenesisState{ctypes.ModuleName: cdc.MustMarshalJSON(gs)},
		app.GenesisState{pricefeedtypes.ModuleName: cdc.MustMarshalJSON(&pf)},
		app.GenesisState{hardtypes.ModuleName: cdc.MustMarshalJSON(&hg)},
		app.GenesisState{cdptypes.ModuleName: cdc.MustMarshalJSON(&cg)})
	w.height = 2
	w.ctx = NewCtx(tApp, w.height, GenesisTime)
	w.k = tApp.GetCommitteeKeeper()
	w.msg = ckeeper.NewMsgServerImpl(w.k)
	w.macc = tApp.GetAccountKeeper().GetModuleAddress(communitytypes.ModuleAccountName)
	must := func(err error) {
		if err != nil {
			panic(fmt.Sprintf("c17 world: %v", err))
		}
	}
	tApp.GetPriceFeedKeeper().SetCurrentPricesForAllMarkets(w.ctx)
	if setup.PoolFunded {
		funds := sdk.NewCoins(sdk.NewInt64Coin("ukava", 5_000_000_000), sdk.NewInt64Coin("usdx", 5_000_000_000))
		must(tApp.FundAccount(w.ctx, deputy, funds))
		must(tApp.GetDistrKeeper().FundCommunityPool(w.ctx, funds, deputy))
	}
	if setup.HardDeposit {
		dep := sdk.NewCoins(sdk.NewInt64Coin("ukava", 2_000_000_000), sdk.NewInt64Coin("usdx", 1_000_000_000))
		must(tApp.FundModuleAccount(w.ctx, communitytypes.ModuleAccountName, dep))
		must(tApp.GetHardKeeper().Deposit(w.ctx, w.macc, dep))
	}
	if setup.Cdp {
		must(tApp.FundModuleAccount(w.ctx, communitytypes.ModuleAccountName, sdk.NewCoins(sdk.NewInt64Coin("xrp", 200_000_000_000))))
		must(tApp.GetCDPKeeper().AddCdp(w.ctx, w.macc, sdk.NewInt64Coin("xrp", 200_000_000_000), sdk.NewInt64Coin("usdx", 60_000_000), "xrp-a"))
	}

	// parameter values, written through the real subspaces
	asset := func(denom string, coin int64, active bool, minb, maxb uint64) bep3types.AssetParam {
		return bep3types.AssetParam{Denom: denom, CoinID: coin,
			SupplyLimit: bep3types.SupplyLimit{Limit: i(350_000_000_000_000), TimeLimited: false, TimePeriod: time.Hour, TimeBasedLimit: i(0)},
			Active:      active, DeputyAddress: deputy, FixedFee: i(1000), MinSwapAmount: i(1), MaxSwapAmount: i(1_000_000_000_000),
			MinBlockLock: minb, MaxBlockLock: maxb}
	}
	xc := int64(144)
	if setup.XrpbCoinZero {
		xc = 0
	}
	assets := bep3types.AssetParams{asset("bnb", 714, true, 220, 270), asset("inc", 9999, setup.IncActive, 220, 270), asset("xrpb", xc, true, 0, 270)}
	assets[2].SupplyLimit.TimeLimited = true
	assets[2].SupplyLimit.TimeBasedLimit = i(50_000_000_000)
	if setup.EmptyAssets {
		assets = bep3types.AssetParams{}
	}
	debt := cdptypes.DebtParam{Denom: "usdx", ReferenceAsset: "", ConversionFactor: i(6), DebtFloor: i(10_000_000)}
	if setup.RefAssetSet {
		debt.ReferenceAsset = "usd"
	}
	pk := tApp.GetParamsKeeper()
	bs, _ := pk.GetSubspace(bep3types.ModuleName)
	cs, _ := pk.GetSubspace(cdptypes.ModuleName)
	bs.Set(w.ctx, bep3types.KeyAssetParams, assets)
	cs.Set(w.ctx, cdptypes.KeyCollateralParams, colls)
	cs.Set(w.ctx, cdptypes.KeyDebtParam, debt)
	return w
}

func (w *c17World) subspace(name string) paramstypes.Subspace {
	s, ok := w.tApp.GetParamsKeeper().GetSubspace(name)
	if !ok {
		panic("no subspace " + name)
	}
	return s
}

func (w *c17World) rawsAt(ctx sdk.Context) []string {
	out := make([]string, len(w.slots))
	for i, s := range w.slots {
		out[i] = string(w.subspace(s.Subspace).GetRaw(ctx, []byte(s.Key)))
	}
	return out
}

func (w *c17World) addrIdx(a sdk.AccAddress) int {
	for i, x := range w.addrs {
		if x.Equals(a) {
			return i
		}
	}
	return 99
}

func (w *c17World) snap() *c17Snap {
	s := &c17Snap{raws: w.rawsAt(w.ctx)}
	var ob strings.Builder
	for _, name := range []string{bep3types.ModuleName, cdptypes.ModuleName} {
		ss := w.subspace(name)
		ss.IterateKeys(w.ctx, func(key []byte) bool {
			tracked := false
			for _, sl := range w.slots {
				if sl.Subspace == name && sl.Key == string(key) {
					tracked = true
				}
			}
			if !tracked {
				fmt.Fprintf(&ob, "%s/%s=%s;", name, key, ss.GetRaw(w.ctx, key))
			}
			return false
		})
	}
	s.others = ob.String()
	// raw committee store
	store := w.ctx.KVStore(w.tApp.GetKVStoreKey(ctypes.StoreKey))
	cdc := w.tApp.AppCodec()
	it := sdk.KVStorePrefixIterator(store, ctypes.ProposalKeyPrefix)
	for ; it.Valid(); it.Next() {
		var p ctypes.Proposal
		cdc.MustUnmarshal(it.Value(), &p)
		s.props = append(s.props, [3]int64{int64(p.ID), int64(p.CommitteeID), p.Deadline.Sub(GenesisTime).Nanoseconds()})
		s.ctypes = append(s.ctypes, contentKindOf(p.GetContent()))
	}
	it.Close()
	it = sdk.KVStorePrefixIterator(store, ctypes.VoteKeyPrefix)
	for ; it.Valid(); it.Next() {
		var v ctypes.Vote
		cdc.MustUnmarshal(it.Value(), &v)
		s.votes = append(s.votes, [3]int64{int64(v.ProposalID), int64(w.addrIdx(v.Voter)), int64(v.VoteType)})
	}
	it.Close()
	sort.Slice(s.votes, func(i, j int) bool {
		if s.votes[i][0] != s.votes[j][0] {
			return s.votes[i][0] < s.votes[j][0]
		}
		return s.votes[i][1] < s.votes[j][1]
	})
	if bz := store.Get(ctypes.NextProposalIDKey); bz != nil {
		s.next = int(ctypes.Uint64FromBytes(bz))
	}
	bk := w.tApp.GetBankKeeper()
	for _, a := range w.addrs {
		s.bals = append(s.bals, bk.GetBalance(w.ctx, a, c17Denom).Amount.Int64())
	}
	s.supply = bk.GetSupply(w.ctx, c17Denom).Amount.Int64()
	if bz := w.ctx.KVStore(w.tApp.GetKVStoreKey(upgradetypes.StoreKey)).Get(upgradetypes.PlanKey()); bz != nil {
		var pl upgradetypes.Plan
		cdc.MustUnmarshal(bz, &pl)
		s.plan = pl.Height
	}
	s.enacted = w.enacted
	s.comm = w.communityDigest(w.ctx)
	return s
}

// communityDigest: everything the four x/community handlers move
func (w *c17World) communityDigest(ctx sdk.Context) string {
	var b strings.Builder
	fp := w.tApp.GetDistrKeeper().GetFeePool(ctx)
	fmt.Fprintf(&b, "pool=%s;macc=%s;", fp.CommunityPool.String(), w.tApp.GetBankKeeper().GetAllBalances(ctx, w.macc).String())
	if d, ok := w.tApp.GetHardKeeper().GetDeposit(ctx, w.macc); ok {
		fmt.Fprintf(&b, "deposit=%s;", d.Amount.String())
	}
	// straight from the store: look-ups by collateral type go through the (changeable) collateral parameters
	w.tApp.GetCDPKeeper().IterateAllCdps(ctx, func(c cdptypes.CDP) bool {
		if c.Owner.Equals(w.macc) {
			fmt.Fprintf(&b, "cdp[%s]=%s/%s/%s;", c.Type, c.Collateral.String(), c.Principal.String(), c.AccumulatedFees.String())
		}
		return false
	})
	return b.String()
}

// communityCalls counts the keeper events behind the four community handlers
func communityCalls(evs sdk.Events) (n [4]int64) {
	for _, e := range evs {
		switch e.Type {
		case hardtypes.EventTypeHardDeposit:
			n[0]++
		case hardtypes.EventTypeHardWithdrawal:
			n[1]++
		case cdptypes.EventTypeCdpRepay:
			n[2]++
		case cdptypes.EventTypeCdpWithdrawal:
			n[3]++
		}
	}
	return
}

// closeEvents extracts (proposal id, outcome) from proposal_close events, in order.
func closeEvents(evs sdk.Events) [][2]int {
	var out [][2]int
	for _, e := range evs {
		if e.Type != ctypes.EventTypeProposalClose {
			continue
		}
		pid, oc := -1, -1
		for _, a := range e.Attributes {
			switch a.Key {
			case ctypes.AttributeKeyProposalID:
				pid, _ = strconv.Atoi(a.Value)
			case ctypes.AttributeKeyProposalOutcome:
				switch a.Value {
				case "Passed":
					oc = 0
				case "Failed":
					oc = 1
				case "Invalid":
					oc = 2
				}
			}
		}
		out = append(out, [2]int{pid, oc})
	}
	return out
}

type c17Out struct {
	kind   string // none bool id closed
	b      bool
	id     int
	closed [][2]int
	oracle [][2]int // begin: (proposal id, 1 if the community keeper call succeeds at its turn) for the stored community proposals
}

func (w *c17World) handlerFor(c c17Content) govv1beta1.Handler {
	if c.Kind == "param" {
		return params.NewParamChangeProposalHandler(w.tApp.GetParamsKeeper())
	}
	if c.isCommunity() {
		return community.NewCommunityPoolProposalHandler(w.tApp.GetCommunityKeeper())
	}
	return govv1beta1.ProposalHandler
}

// beginOracle computes, before a begin block is run, what the keeper call behind every
// stored community proposal answers at the moment the begin blocker reaches it: a first
// throw-away run of the begin blocker tells which proposals pass; a second copy of the
// state is then advanced proposal by proposal with the handlers of the passed ones.
func (w *c17World) beginOracle(ctx sdk.Context) (out [][2]int) {
	any := false
	for _, p := range w.pend {
		if p.content.isCommunity() {
			any = true
		}
	}
	if !any {
		return nil
	}
	passed := map[int]bool{}
	func() {
		defer func() { _ = recover() }()
		c1, _ := ctx.CacheContext()
		em := sdk.NewEventManager()
		committee.BeginBlocker(c1.WithEventManager(em), abci.RequestBeginBlock{}, w.k)
		for _, ev := range closeEvents(em.Events()) {
			if ev[1] == 0 {
				passed[ev[0]] = true
			}
		}
	}()
	sim, _ := ctx.CacheContext()
	w.k.IterateProposals(sim, func(p ctypes.Proposal) bool {
		pi := w.pend[int(p.ID)]
		if pi == nil {
			return false
		}
		if pi.content.isCommunity() {
			ok := w.communityOK(sim, pi.content)
			b := 0
			if ok {
				b = 1
			}
			out = append(out, [2]int{int(p.ID), b})
		}
		if passed[int(p.ID)] && pi.content.Kind != "upgrade" {
			func() {
				defer func() { _ = recover() }()
				_ = w.handlerFor(pi.content)(sim, w.goContent(pi.content))
			}()
		}
		return false
	})
	return out
}

func (w *c17World) exec(op c17Op) (cls Class, err error, out c17Out) {
	out.kind = "none"
	switch op.Kind {
	case "allows":
		cls, err = Atomically(w.ctx, func(ctx sdk.Context) error {
			out.kind, out.b = "bool", w.goPerm(*op.Perm).Allows(ctx, w.tApp.GetParamsKeeper(), w.goContent(*op.Content))
			return nil
		})
	case "apply":
		if op.Content.Kind == "upgrade" || op.Content.Kind == "cancelupgrade" || op.Content.Kind == "poolspend" {
			return ClassErr, fmt.Errorf("the upgrade and distribution handlers are not driven directly"), out
		}
		if op.Content.isCommunity() {
			op.Content.ok = w.communityOK(w.ctx, *op.Content)
		}
		var calls [4]int64
		cls, err = Atomically(w.ctx, func(ctx sdk.Context) error {
			content := w.goContent(*op.Content)
			if e := w.k.ValidatePubProposal(ctx, content); e != nil {
				return e
			}
			em := sdk.NewEventManager()
			e := w.handlerFor(*op.Content)(ctx.WithEventManager(em), content)
			calls = communityCalls(em.Events())
			return e
		})
		if cls == ClassOk {
			for i := range calls {
				w.enacted[i] += calls[i]
			}
		}
	case "submit":
		if op.Content.isCommunity() {
			op.Content.ok = w.communityOK(w.ctx, *op.Content)
		}
		cls, err = Atomically(w.ctx, func(ctx sdk.Context) error {
			m0, e := ctypes.NewMsgSubmitProposal(w.goContent(*op.Content), w.addrs[op.A], uint64(op.Com))
			if e != nil {
				return e
			}
			// through the codec, as a transaction is: the proposal's Any is unpacked against PubProposal
			bz, e := w.tApp.AppCodec().Marshal(m0)
			if e != nil {
				return e
			}
			m := &ctypes.MsgSubmitProposal{}
			if e := w.tApp.AppCodec().Unmarshal(bz, m); e != nil {
				return e
			}
			if e := m.ValidateBasic(); e != nil {
				return e
			}
			r, e := w.msg.SubmitProposal(sdk.WrapSDKContext(ctx), m)
			if e != nil {
				return e
			}
			out.kind, out.id = "id", int(r.ProposalID)
			return nil
		})
	case "vote":
		cls, err = Atomically(w.ctx, func(ctx sdk.Context) error {
			m := ctypes.NewMsgVote(w.addrs[op.A], uint64(op.Pid), ctypes.VoteType(op.Vt))
			if e := m.ValidateBasic(); e != nil {
				return e
			}
			_, e := w.msg.Vote(sdk.WrapSDKContext(ctx), m)
			return e
		})
	case "begin":
		if op.T < w.now {
			return ClassErr, fmt.Errorf("time goes backwards"), out
		}
		w.now = op.T
		w.height++
		w.ctx = w.ctx.WithBlockHeight(w.height).WithBlockTime(GenesisTime.Add(time.Duration(op.T)))
		out.oracle = w.beginOracle(w.ctx)
		var calls [4]int64
		cls, err = Atomically(w.ctx, func(ctx sdk.Context) error {
			em := sdk.NewEventManager()
			committee.BeginBlocker(ctx.WithEventManager(em), abci.RequestBeginBlock{}, w.k)
			out.kind, out.closed = "closed", closeEvents(em.Events())
			calls = communityCalls(em.Events())
			return nil
		})
		if cls == ClassOk {
			for i := range calls {
				w.enacted[i] += calls[i]
			}
		}
	case "transfer":
		cls, err = Atomically(w.ctx, func(ctx sdk.Context) error {
			if op.X <= 0 {
				return fmt.Errorf("invalid amount")
			}
			return w.tApp.GetBankKeeper().SendCoins(ctx, w.addrs[op.A], w.addrs[op.B], sdk.NewCoins(sdk.NewInt64Coin(c17Denom, op.X)))
		})
	case "setcom", "delcom":
		cls, err = Atomically(w.ctx, func(ctx sdk.Context) error {
			em := sdk.NewEventManager()
			h := committee.NewProposalHandler(w.k)
			var e error
			if op.Kind == "setcom" {
				cc, e2 := ctypes.NewCommitteeChangeProposal("title", "description", w.goComUnchecked(*op.NewCom))
				if e2 != nil {
					return e2
				}
				e = h(ctx.WithEventManager(em), &cc)
			} else {
				cd := ctypes.NewCommitteeDeleteProposal("title", "description", uint64(op.Com))
				e = h(ctx.WithEventManager(em), &cd)
			}
			if e != nil {
				return e
			}
			out.kind, out.closed = "closed", closeEvents(em.Events())
			return nil
		})
	default:
		panic("unknown op " + op.Kind)
	}
	return
}

// handlerVerdict runs the routed handler of a content on a copy of the state, the way the
// begin blocker would: "" when it succeeds, otherwise how it fails; panicked tells a panic
// (of any value: a string, an error, a runtime error) from a returned error.
func (w *c17World) handlerVerdict(ctx sdk.Context, c c17Content) (how string, panicked bool) {
	cctx, _ := ctx.CacheContext()
	defer func() {
		if r := recover(); r != nil {
			how, panicked = fmt.Sprintf("%T: %v", r, r), true
		}
	}()
	if e := w.handlerFor(c)(cctx, w.goContent(c)); e != nil {
		return e.Error(), false
	}
	return "", false
}

// goComUnchecked builds a committee without the constructor's panics (invalid ones are part of the malformed stream)
func (w *c17World) goComUnchecked(c c17Com) ctypes.Committee { return w.goCom(c) }

// ------------------------------------------------------------ monitors (independent of the model)

// allowedFor returns, for one slot, whether everything is allowed, the single-record allow list and the multi-record requirements
func allowedFor(perms []c17Perm, slot int) (all bool, single map[string]bool, reqs []c17Req) {
	single = map[string]bool{}
	for _, p := range perms {
		if p.Kind == "god" {
			return true, nil, nil
		}
		if p.Kind != "params" {
			continue
		}
		for _, ac := range p.ACs {
			if ac.P != slot {
				continue
			}
			if len(ac.Single) == 0 && len(ac.Multi) == 0 {
				return true, nil, nil
			}
			for _, a := range ac.Single {
				single[a] = true
			}
			reqs = append(reqs, ac.Multi...)
		}
	}
	return
}

func fieldText(rec *jnode, name string) string {
	if rec == nil || rec.K != 'o' {
		return "<nil>"
	}
	v := rec.get(name)
	if v == nil {
		return "<absent>"
	}
	return v.text()
}

// protectedDiff states "an allowed parameter change leaves every field outside the
// allow-list, and every record, as it was" on two stored documents of one slot.
func protectedDiff(sl slotInfo, perms []c17Perm, slot int, oldRaw, newRaw string) (sig, detail string) {
	if oldRaw == newRaw {
		return "", ""
	}
	all, single, reqs := allowedFor(perms, slot)
	if all {
		return "", ""
	}
	oldJ, e1 := parseJSON([]byte(oldRaw))
	newJ, e2 := parseJSON([]byte(newRaw))
	if e1 != nil || e2 != nil {
		return "param-permission-bypass:unparseable-stored-value", oldRaw + " -> " + newRaw
	}
	diffRec := func(o, n *jnode, allow map[string]bool) (string, string) {
		for _, f := range sl.Schema {
			if allow[f.Name] {
				continue
			}
			a, b := fieldText(o, f.Name), fieldText(n, f.Name)
			if a != b {
				if a == "<absent>" {
					return "param-permission-bypass:absent-omitempty-field", fmt.Sprintf("%s/%s protected field %q: absent (zero, omitempty) -> %s", sl.Subspace, sl.Key, f.Name, b)
				}
				return "param-permission-bypass:protected-field-changed", fmt.Sprintf("%s/%s protected field %q: %s -> %s", sl.Subspace, sl.Key, f.Name, a, b)
			}
		}
		return "", ""
	}
	if !sl.Multi {
		return diffRec(oldJ, newJ, single)
	}
	var olds, news []*jnode
	if oldJ.K == 'a' {
		olds = oldJ.A
	}
	if newJ.K == 'a' {
		news = newJ.A
	}
	allowOf := func(rec *jnode) map[string]bool {
		m := map[string]bool{}
		for _, r := range reqs {
			if v := rec.get(r.Key); v != nil && v.K == 's' && v.S == r.Val {
				for _, a := range r.Attrs {
					m[a] = true
				}
			}
		}
		return m
	}
	if len(olds) != len(news) {
		return "param-permission-bypass:record-count-changed", fmt.Sprintf("%s/%s: %d records -> %d", sl.Subspace, sl.Key, len(olds), len(news))
	}
	// perfect matching old -> new with protected fields equal (backtracking; at most a handful of records)
	used := make([]bool, len(news))
	var match func(i int) bool
	match = func(i int) bool {
		if i == len(olds) {
			return true
		}
		al := allowOf(olds[i])
		for j := range news {
			if used[j] {
				continue
			}
			if s, _ := diffRec(olds[i], news[j], al); s == "" {
				used[j] = true
				if match(i + 1) {
					return true
				}
				used[j] = false
			}
		}
		return false
	}
	if match(0) {
		return "", ""
	}
	// classify: pair records positionally by their requirement key value where possible
	for _, o := range olds {
		al := allowOf(o)
		var cand *jnode
		for _, r := range reqs {
			if v := o.get(r.Key); v != nil && v.K == 's' && v.S == r.Val {
				for _, n := range news {
					if nv := n.get(r.Key); nv != nil && nv.K == 's' && nv.S == r.Val {
						cand = n
						break
					}
				}
				break
			}
		}
		if cand == nil {
			continue
		}
		if s, d := diffRec(o, cand, al); s != "" {
			// does another new record carry the old protected fields (then a record was replaced)?
			for _, n := range news {
				if s2, _ := diffRec(o, n, al); s2 == "" {
					return "param-permission-bypass:unmatched-record", fmt.Sprintf("%s/%s: a record outside every matched requirement was replaced (%s -> %s)", sl.Subspace, sl.Key, oldRaw, newRaw)
				}
			}
			return s, d
		}
	}
	return "param-permission-bypass:unmatched-record", fmt.Sprintf("%s/%s: %s -> %s", sl.Subspace, sl.Key, oldRaw, newRaw)
}

// exact tally with big integers: the decimal strings of threshold and quorum are read as
// fractions num/den and every comparison is cross-multiplied - no division, no rounding.
func fracOf(s string) (num, den *big.Int) {
	r, ok := new(big.Rat).SetString(s)
	if !ok {
		panic("c17: not a decimal: " + s)
	}
	return new(big.Int).Set(r.Num()), new(big.Int).Set(r.Denom())
}

// geFrac: x >= (num/den) * y
func geFrac(x int64, num, den *big.Int, y int64) bool {
	l := new(big.Int).Mul(big.NewInt(x), den)
	r := new(big.Int).Mul(num, big.NewInt(y))
	return l.Cmp(r) >= 0
}

func (w *c17World) exactTally(c c17Com, pid int, s *c17Snap) bool {
	ok, _ := w.exactTallyDetail(c, pid, s)
	return ok
}

func (w *c17World) exactTallyDetail(c c17Com, pid int, s *c17Snap) (bool, string) {
	tn, td := fracOf(c.Threshold)
	if !c.Token {
		n := 0
		for _, v := range s.votes {
			if int(v[0]) == pid {
				n++
			}
		}
		ok := geFrac(int64(n), tn, td, int64(len(c.Members)))
		return ok, fmt.Sprintf("member committee %d: %d votes of %d members, threshold %s: %d*%s >= %s*%d is %v", c.ID, n, len(c.Members), c.Threshold, n, td, tn, len(c.Members), ok)
	}
	var yes, no, tot int64
	var vs []string
	for _, v := range s.votes {
		if int(v[0]) != pid {
			continue
		}
		b := int64(0)
		if int(v[1]) < len(s.bals) {
			b = s.bals[v[1]]
		}
		tot += b
		if v[2] == 1 {
			yes += b
		} else if v[2] == 2 {
			no += b
		}
		vs = append(vs, fmt.Sprintf("voter %d type %d balance %d", v[1], v[2], b))
	}
	qn, qd := fracOf(c.Quorum)
	quorum := geFrac(tot, qn, qd, s.supply)
	thr := geFrac(yes, tn, td, yes+no)
	return quorum && thr, fmt.Sprintf("token committee %d: quorum %s, threshold %s, supply %d; votes [%s]; total %d yes %d no %d; quorum met (%d*%s >= %s*%d): %v; threshold met (%d*%s >= %s*%d): %v",
		c.ID, c.Quorum, c.Threshold, s.supply, strings.Join(vs, "; "), tot, yes, no, tot, qd, qn, s.supply, quorum, yes, td, tn, yes+no, thr)
}

func (w *c17World) monitor(op c17Op, cls Class, out c17Out, before, after *c17Snap) (pred, sig, detail string) {
	paramsSame := func() bool {
		for i := range before.raws {
			if before.raws[i] != after.raws[i] {
				return false
			}
		}
		return before.others == after.others
	}
	switch op.Kind {
	case "allows":
		if !paramsSame() || before.comm != after.comm {
			return "query-changes-nothing", "allows-changed-params", ""
		}
		if cls == ClassOk {
			// the permission matrix, from the declared types alone
			want := typeAllows(op.Perm.Kind, op.Content.Kind)
			if op.Perm.Kind != "params" && out.b != want {
				return "permission-matrix", "allows-matrix:" + op.Perm.Kind + ":" + op.Content.Kind, fmt.Sprintf("Allows = %v, the permission type allows that proposal type: %v", out.b, want)
			}
			if op.Perm.Kind == "params" && out.b && !want {
				return "permission-matrix", "allows-matrix:" + op.Perm.Kind + ":" + op.Content.Kind, "a ParamsChangePermission allowed a proposal that is not a parameter change"
			}
		}
		if cls == ClassOk && out.b && op.Perm.Kind == "params" && op.Content.Kind == "param" {
			// what would enacting it do?
			cctx, _ := w.ctx.CacheContext()
			content := w.goContent(*op.Content)
			if w.k.ValidatePubProposal(cctx, content) == nil {
				if how, panicked := w.handlerVerdict(w.ctx, *op.Content); panicked {
					return "dry-run-refuses-a-panicking-handler", "dry-run-passed-handler-panics",
						fmt.Sprintf("ValidatePubProposal accepts a proposal whose handler, run on the same state, panics: %s; content %s", how, MustJSON(op.Content))
				}
				cctx2, _ := w.ctx.CacheContext()
				if params.NewParamChangeProposalHandler(w.tApp.GetParamsKeeper())(cctx2, content) == nil {
					nr := w.rawsAt(cctx2)
					for i := range nr {
						if s, d := protectedDiff(w.slots[i], []c17Perm{*op.Perm}, i, before.raws[i], nr[i]); s != "" {
							return "allowed-change-touches-only-listed-fields", s, d
						}
					}
				}
			}
		}
	case "apply":
		if cls == ClassPanic {
			// the driver calls ValidatePubProposal and then the handler, on the same state, as enactProposal does
			return "dry-run-refuses-a-panicking-handler", "dry-run-passed-handler-panics",
				fmt.Sprintf("ValidatePubProposal accepted a proposal whose handler then panicked on the same state; content %s", MustJSON(op.Content))
		}
	case "submit", "vote":
		handlerPanics := false
		if !paramsSame() || before.plan != after.plan {
			return "submit-vote-apply-no-effects", "submit-or-vote-changed-params", op.Kind
		}
		if before.comm != after.comm || before.enacted != after.enacted {
			return "submit-vote-apply-no-effects", "submit-or-vote-moved-community-funds", op.Kind + ": " + before.comm + " -> " + after.comm
		}
		if op.Kind == "submit" {
			if c, ok := w.coms[op.Com]; ok && !anyTypeAllows(c.Perms, op.Content.Kind) {
				// no permission of the committee can allow a proposal of this type: refused, nothing changes
				if cls == ClassOk {
					return "submission-needs-a-permission", "submitted-without-permission:" + op.Content.Kind, fmt.Sprintf("committee %d", op.Com)
				}
				if len(before.props) != len(after.props) || before.next != after.next || len(before.votes) != len(after.votes) {
					return "submission-needs-a-permission", "refused-submission-changed-the-store", op.Content.Kind
				}
			}
		}
		for i := range before.bals {
			if before.bals[i] != after.bals[i] {
				return "submit-vote-apply-no-effects", "submit-or-vote-changed-balances", op.Kind
			}
		}
		if op.Kind == "submit" && cls == ClassOk {
			if op.Content.Kind == "cchange" {
				return "committees-cannot-edit-committees", "committee-change-accepted-by-committee", ""
			}
			if op.Content.Kind == "upgrade" {
				if op.Content.H <= 0 || op.Content.H < w.height {
					return "failing-handler-rejected-at-submission", "stored-proposal-with-failing-handler", fmt.Sprintf("upgrade plan height %d at height %d", op.Content.H, w.height)
				}
			} else if op.Content.Kind != "cancelupgrade" {
				if how, panicked := w.handlerVerdict(w.ctx, *op.Content); panicked {
					// kept back: if the history goes on to the block that enacts it, the halted begin blocker is the
					// finding (begin-block-panicked-on-panicking-handler); otherwise this is reported at the end
					handlerPanics = true
					if w.heldBack == nil {
						w.heldBack = &[3]string{"failing-handler-rejected-at-submission", "stored-proposal-with-panicking-handler",
							fmt.Sprintf("proposal %d of committee %d was accepted; its handler, run on the state of the submission, panics: %s; content %s", out.id, op.Com, how, MustJSON(op.Content))}
					}
				} else if how != "" {
					return "failing-handler-rejected-at-submission", "stored-proposal-with-failing-handler", how
				}
			}
			c := w.coms[op.Com]
			w.pend[out.id] = &pendInfo{com: op.Com, deadline: w.now + c.Duration, content: *op.Content}
			if out.id != w.nextPid || w.closed[out.id] {
				return "proposal-ids-fresh", "proposal-id-reused", fmt.Sprint(out.id)
			}
			w.nextPid++
			// the dry run must agree with the permission: what would enacting it now do?
			if c.hasParamsOnly() && op.Content.Kind == "param" && !handlerPanics {
				cctx2, _ := w.ctx.CacheContext()
				if params.NewParamChangeProposalHandler(w.tApp.GetParamsKeeper())(cctx2, w.goContent(*op.Content)) == nil {
					nr := w.rawsAt(cctx2)
					for i := range nr {
						if s, d := protectedDiff(w.slots[i], c.Perms, i, before.raws[i], nr[i]); s != "" {
							return "allowed-change-touches-only-listed-fields", s, d
						}
					}
				}
			}
		}
		if op.Kind == "vote" && cls == ClassErr {
			// a vote cast at a block time strictly before the deadline is accepted
			if p := w.pend[op.Pid]; p != nil && !w.closed[op.Pid] && w.now < p.deadline && op.Vt >= 1 && op.Vt <= 3 {
				if c, ok := w.coms[p.com]; ok {
					member := false
					for _, m := range c.Members {
						member = member || m == op.A
					}
					if c.Token || (member && op.Vt == 1) {
						return "votes-before-deadline-accepted", "vote-refused-before-deadline",
							fmt.Sprintf("proposal %d voter %d type %d: block time %d ns, deadline %d ns (%d ns ahead)", op.Pid, op.A, op.Vt, w.now, p.deadline, p.deadline-w.now)
					}
				}
			}
		}
		if op.Kind == "vote" && cls == ClassOk {
			p := w.pend[op.Pid]
			if p == nil {
				return "votes-only-on-pending-proposals", "vote-accepted-for-unknown-proposal", fmt.Sprint(op.Pid)
			}
			if w.now >= p.deadline {
				return "votes-only-before-deadline", "vote-accepted-after-deadline", fmt.Sprintf("t=%d deadline=%d", w.now, p.deadline)
			}
			// a repeated vote replaces the earlier one: one stored vote per (proposal, voter), of the type just cast; all other votes as before
			n := 0
			for _, v := range after.votes {
				if int(v[0]) == op.Pid && int(v[1]) == op.A {
					n++
					if int(v[2]) != op.Vt {
						return "vote-replaces-earlier-vote", "stored-vote-has-another-type", fmt.Sprint(v)
					}
				}
			}
			others := func(vs [][3]int64) (out [][3]int64) {
				for _, v := range vs {
					if !(int(v[0]) == op.Pid && int(v[1]) == op.A) {
						out = append(out, v)
					}
				}
				return
			}
			if n != 1 || fmt.Sprint(others(before.votes)) != fmt.Sprint(others(after.votes)) {
				return "vote-replaces-earlier-vote", "vote-counted-twice-or-other-votes-touched", fmt.Sprintf("%d votes stored for proposal %d voter %d", n, op.Pid, op.A)
			}
			if c, ok := w.coms[p.com]; ok && !c.Token {
				member := false
				for _, m := range c.Members {
					member = member || m == op.A
				}
				if !member || op.Vt != 1 {
					return "member-committees-accept-member-yes-votes-only", "member-committee-accepted-foreign-or-non-yes-vote", fmt.Sprintf("voter %d type %d", op.A, op.Vt)
				}
			}
		}
	case "begin":
		if cls == ClassPanic {
			// a stored proposal whose handler fails now must be closed as Invalid, not halt the chain
			for pid, p := range w.pend {
				if !w.closed[pid] && p.content.Kind == "upgrade" && p.content.H < w.height {
					return "failing-handler-closed-invalid-without-halting", "begin-block-panicked-on-stale-proposal",
						fmt.Sprintf("proposal %d: upgrade plan height %d, block height %d, deadline %d, t=%d", pid, p.content.H, w.height, p.deadline, w.now)
				}
			}
			// which stored proposal's handler panics or fails on this block's state?
			var bad []string
			for pid := 1; pid < w.nextPid; pid++ {
				p := w.pend[pid]
				if p == nil || w.closed[pid] || p.content.Kind == "upgrade" || p.content.Kind == "cancelupgrade" {
					continue
				}
				if how, panicked := w.handlerVerdict(w.ctx, p.content); panicked {
					bad = append(bad, fmt.Sprintf("proposal %d (committee %d, deadline %d ns): handler panics: %s; content %s", pid, p.com, p.deadline, how, MustJSON(p.content)))
				}
			}
			if len(bad) > 0 {
				return "failing-handler-closed-invalid-without-halting", "begin-block-panicked-on-panicking-handler",
					fmt.Sprintf("block time %d ns: %s", w.now, strings.Join(bad, " | "))
			}
			return "begin-blocker-never-panics", "begin-blocker-panic", fmt.Sprintf("block time %d ns", w.now)
		}
		if cls != ClassOk {
			return "", "", ""
		}
		closedNow := map[int]int{}
		passed := 0
		var passedPid int
		var wantCalls [4]int64
		for _, ev := range out.closed {
			pid, oc := ev[0], ev[1]
			p := w.pend[pid]
			if p == nil || w.closed[pid] {
				return "closed-at-most-once", "proposal-closed-twice-or-unknown", fmt.Sprint(pid)
			}
			if _, dup := closedNow[pid]; dup {
				return "closed-at-most-once", "proposal-closed-twice-or-unknown", fmt.Sprint(pid)
			}
			closedNow[pid] = oc
			c, found := w.coms[p.com]
			switch oc {
			case 0, 2: // tally passed: enacted, or found invalid
				if !found {
					return "enacted-only-with-committee", "enacted-without-committee", fmt.Sprint(pid)
				}
				if ok, how := w.exactTallyDetail(c, pid, before); !ok {
					return "enacted-only-on-passing-tally", "enacted-on-failing-tally", fmt.Sprintf("proposal %d outcome %s: %s", pid, outcomeCoq[oc], how)
				}
				if !c.FPTP && w.now < p.deadline {
					return "deadline-committee-enacts-at-deadline", "enacted-before-deadline",
						fmt.Sprintf("proposal %d closed %s at block time %d ns, %d ns before its deadline %d ns", pid, outcomeCoq[oc], w.now, p.deadline-w.now, p.deadline)
				}
				if oc == 0 {
					passed++
					passedPid = pid
					// enacted only what a permission of the committee allows, judged by declared types
					if !anyTypeAllows(c.Perms, p.content.Kind) {
						return "enacted-only-with-permission", "enacted-without-permission:" + p.content.Kind, fmt.Sprintf("proposal %d of committee %d", pid, p.com)
					}
					if k := contentTag(p.content.Kind) - 4; k >= 0 && k < 4 {
						wantCalls[k]++
					}
				}
			case 1:
				if found && !(w.now >= p.deadline && !w.exactTally(c, pid, before)) {
					_, how := w.exactTallyDetail(c, pid, before)
					return "failed-only-when-expired-and-not-passing", "failed-while-passing-or-pending", fmt.Sprintf("proposal %d closed Failed at block time %d ns, deadline %d ns; %s", pid, w.now, p.deadline, how)
				}
			}
		}
		for pid, p := range w.pend {
			if w.closed[pid] {
				continue
			}
			if _, c := closedNow[pid]; c {
				continue
			}
			cm, found := w.coms[p.com]
			due := !found || w.now >= p.deadline || (cm.FPTP && w.exactTally(cm, pid, before))
			if due {
				return "closed-when-due", "not-closed-when-due", fmt.Sprintf("proposal %d t=%d deadline=%d", pid, w.now, p.deadline)
			}
		}
		for pid := range closedNow {
			w.closed[pid] = true
			for _, pr := range after.props {
				if int(pr[0]) == pid {
					return "closed-afterwards", "closed-proposal-still-stored", fmt.Sprint(pid)
				}
			}
			for _, v := range after.votes {
				if int(v[0]) == pid {
					return "closed-afterwards", "votes-of-closed-proposal-still-stored", fmt.Sprint(pid)
				}
			}
		}
		if passed == 0 && (!paramsSame() || before.plan != after.plan) {
			return "only-passed-proposals-change-params", "params-changed-without-passed-proposal", ""
		}
		// which community handler ran: exactly one keeper call of its own kind per passed community proposal
		var gotCalls [4]int64
		for i := range gotCalls {
			gotCalls[i] = after.enacted[i] - before.enacted[i]
		}
		if gotCalls != wantCalls {
			return "enacted-proposal-runs-its-own-handler", "community-handler-kind-mismatch", fmt.Sprintf("passed community proposals by kind %v, keeper calls by kind %v", wantCalls, gotCalls)
		}
		if wantCalls == [4]int64{} && before.comm != after.comm {
			return "only-passed-proposals-move-community-funds", "community-funds-moved-without-passed-proposal", before.comm + " -> " + after.comm
		}
		for _, ev := range out.closed {
			if p := w.pend[ev[0]]; p != nil && p.content.Kind == "upgrade" {
				if ev[1] == 0 && p.content.H < w.height {
					return "stale-upgrade-not-scheduled", "stale-upgrade-passed", fmt.Sprint(ev[0])
				}
				if ev[1] == 0 && after.plan != p.content.H && passed == 1 {
					return "passed-upgrade-is-scheduled", "passed-upgrade-not-scheduled", fmt.Sprint(ev[0])
				}
			}
			if p := w.pend[ev[0]]; p != nil && p.content.Kind == "cancelupgrade" && ev[1] == 0 && passed == 1 && after.plan != 0 {
				return "passed-cancellation-clears-the-plan", "passed-cancellation-left-the-plan", fmt.Sprint(ev[0])
			}
		}
		if passed == 1 {
			p := w.pend[passedPid]
			if p.content.Kind != "param" && !paramsSame() {
				return "only-passed-proposals-change-params", "params-changed-without-passed-proposal", ""
			}
			c := w.coms[p.com]
			for i := range before.raws {
				if s, d := protectedDiff(w.slots[i], c.Perms, i, before.raws[i], after.raws[i]); s != "" {
					return "enacted-change-touches-only-listed-fields", s, d
				}
			}
			if before.others != after.others {
				return "enacted-change-touches-only-listed-fields", "untargeted-param-changed", ""
			}
		}
	case "setcom", "delcom":
		if cls == ClassOk {
			for _, ev := range out.closed {
				w.closed[ev[0]] = true
			}
			if op.Kind == "setcom" {
				w.coms[op.NewCom.ID] = *op.NewCom
			} else {
				delete(w.coms, op.Com)
			}
		}
		if !paramsSame() || before.comm != after.comm {
			return "committee-change-keeps-params", "committee-change-changed-params", ""
		}
	}
	return "", "", ""
}

func (c c17Com) hasParamsOnly() bool {
	for _, p := range c.Perms {
		if p.Kind == "god" {
			return false
		}
	}
	return true
}

// ------------------------------------------------------------ Coq rendering

func coqStrList(xs []string) string {
	it := make([]string, len(xs))
	for i, x := range xs {
		it[i] = coqString(x)
	}
	return List(it)
}

func coqPref(p int) string {
	switch p {
	case -1:
		return "PNoSubspace"
	case -2, -3, -4:
		// -3, -4: a registered scalar parameter proposed as null.  Subspace.Update panics on it (nil dereference
		// in the validator) as it does on an unregistered key (string panic): the model has one case for both.
		return "PNoKey"
	}
	return "(PKnown " + Nat(p) + ")"
}

func (w *c17World) coqPerm(p c17Perm) string {
	switch p.Kind {
	case "god":
		return "PermGod"
	case "text":
		return "PermText"
	case "other":
		return "PermUpgrade"
	case "cdprepay":
		return "PermCdpRepay"
	case "cdpwithdraw":
		return "PermCdpWithdraw"
	case "lendwithdraw":
		return "PermLendWithdraw"
	}
	var acs []string
	for _, ac := range p.ACs {
		var rs []string
		for _, r := range ac.Multi {
			rs = append(rs, fmt.Sprintf("mkReq %s %s %s", coqString(r.Key), w.st.classify(r.Val), coqStrList(r.Attrs)))
		}
		acs = append(acs, fmt.Sprintf("mkAC %s %s %s", coqPref(ac.P), coqStrList(ac.Single), List(rs)))
	}
	return "(PermParams " + List(acs) + ")"
}

func coqCoin(c c17Coin) string { return fmt.Sprintf("(%s, %s)", coqString(c.D), Zi(c.A)) }

func (w *c17World) coqContent(c c17Content) string {
	body := w.coqBody(c)
	if c.Meta != 0 {
		return "(CBadMeta " + body + ")"
	}
	return body
}

func (w *c17World) coqBody(c c17Content) string {
	one := func() string {
		if len(c.Coins) == 0 {
			return coqCoin(c17Coin{"usdx", 0})
		}
		return coqCoin(c.Coins[0])
	}
	coins := func() string {
		it := make([]string, len(c.Coins))
		for i, x := range c.Coins {
			it[i] = coqCoin(x)
		}
		return List(it)
	}
	switch c.Kind {
	case "text":
		return "CText"
	case "cchange":
		return "CCommitteeChange"
	case "upgrade":
		return "(CUpgrade " + Zi(c.H) + ")"
	case "cancelupgrade":
		return "CCancelUpgrade"
	case "poolspend":
		return "CPoolSpend"
	case "lenddeposit":
		return fmt.Sprintf("(CLendDeposit %s %s)", coins(), Bool(c.ok))
	case "lendwithdraw":
		return fmt.Sprintf("(CLendWithdraw %s %s)", coins(), Bool(c.ok))
	case "cdprepay":
		return fmt.Sprintf("(CCdpRepay %s %s %s)", coqString(c.CType), one(), Bool(c.ok))
	case "cdpwithdraw":
		return fmt.Sprintf("(CCdpWithdraw %s %s %s)", coqString(c.CType), one(), Bool(c.ok))
	}
	var chs []string
	for _, ch := range c.Changes {
		chs = append(chs, fmt.Sprintf("(%s, %s)", coqPref(ch.P), w.st.coqOptText(ch.V)))
	}
	return "(CParam " + List(chs) + ")"
}

func mant(s string) string { return Z(dec(s).BigInt()) }

func (w *c17World) coqCom(c c17Com) string {
	kind := "CMember"
	if c.Token {
		kind = "(CToken " + mant(c.Quorum) + ")"
	}
	ms := make([]string, len(c.Members))
	for i, m := range c.Members {
		ms[i] = Nat(m)
	}
	ps := make([]string, len(c.Perms))
	for i, p := range c.Perms {
		ps[i] = w.coqPerm(p)
	}
	t := "AtDeadline"
	if c.FPTP {
		t = "FPTP"
	}
	return fmt.Sprintf("(mkCom %s %s %s %s %s %s %s)", Nat(c.ID), kind, List(ms), List(ps), mant(c.Threshold), Zi(c.Duration), t)
}

func (w *c17World) coqOp(op c17Op) string {
	switch op.Kind {
	case "allows":
		return fmt.Sprintf("OAllows %s %s", w.coqPerm(*op.Perm), w.coqContent(*op.Content))
	case "apply":
		return "OApply " + w.coqContent(*op.Content)
	case "submit":
		return fmt.Sprintf("OSubmit %s %s %s", Nat(op.A), Nat(op.Com), w.coqContent(*op.Content))
	case "vote":
		return fmt.Sprintf("OVote %s %s %s", Nat(op.Pid), Nat(op.A), Zi(int64(op.Vt)))
	case "begin":
		return "OBegin " + Zi(op.T)
	case "transfer":
		return fmt.Sprintf("OTransfer %s %s %s", Nat(op.A), Nat(op.B), Zi(op.X))
	case "setcom":
		return "OSetCommittee " + w.coqCom(*op.NewCom)
	default:
		return "ODeleteCommittee " + Nat(op.Com)
	}
}

var outcomeCoq = []string{"Passed", "Failed", "Invalid"}

func (w *c17World) coqRaw(raw string) string {
	j, err := parseJSON([]byte(raw))
	if err != nil {
		panic("c17: stored value is not JSON: " + raw)
	}
	return w.st.coq(j)
}

func triples(xs [][3]int64) string {
	it := make([]string, len(xs))
	for i, x := range xs {
		it[i] = fmt.Sprintf("(%s, %s, %s)", Nat(int(x[0])), Nat(int(x[1])), Zi(x[2]))
	}
	return List(it)
}

func (w *c17World) coqObs(cls Class, out c17Out, before, after *c17Snap) string {
	o := "OutNone"
	switch out.kind {
	case "bool":
		o = "(OutBool " + Bool(out.b) + ")"
	case "id":
		o = "(OutId " + Nat(out.id) + ")"
	case "closed":
		it := make([]string, len(out.closed))
		for i, ev := range out.closed {
			oc := "Failed"
			if ev[1] >= 0 && ev[1] < 3 {
				oc = outcomeCoq[ev[1]]
			}
			it[i] = fmt.Sprintf("(%s, %s)", Nat(ev[0]), oc)
		}
		o = "(OutClosed " + List(it) + ")"
	}
	if cls != ClassOk {
		o = "OutNone"
	}
	var dp []string
	for i := range after.raws {
		if before.raws[i] != after.raws[i] {
			dp = append(dp, fmt.Sprintf("(%s, %s)", Nat(i), w.coqRaw(after.raws[i])))
		}
	}
	bl := make([]string, len(after.bals))
	for i, b := range after.bals {
		bl[i] = Zi(b)
	}
	ct := make([]string, len(after.ctypes))
	for i, t := range after.ctypes {
		ct[i] = Nat(t)
	}
	return fmt.Sprintf("mkObs %s %s %s %s %s %s %s %s %s %s", cls.Coq(), o, List(dp), triples(after.props), triples(after.votes), Nat(after.next), List(bl), Zi(after.plan),
		List(ct), coqEnacted(after.enacted))
}

func coqEnacted(n [4]int64) string {
	return List([]string{Zi(n[0]), Zi(n[1]), Zi(n[2]), Zi(n[3])})
}

// coqOracle renders the ghost step that precedes a begin block: the recorded keeper
// verdicts for the stored community proposals; nothing observable changes.
func (w *c17World) coqOracle(orc [][2]int, s *c17Snap) string {
	it := make([]string, len(orc))
	for i, e := range orc {
		it[i] = fmt.Sprintf("(%s, %s)", Nat(e[0]), Bool(e[1] == 1))
	}
	return fmt.Sprintf("(OOracle %s,\n    %s)", List(it), w.coqObs(ClassOk, c17Out{kind: "none"}, s, s))
}

func (w *c17World) coqInit(setup c17Setup, s *c17Snap) string {
	ps := make([]string, len(s.raws))
	for i, r := range s.raws {
		ps[i] = w.coqRaw(r)
	}
	coms := append([]c17Com(nil), setup.Coms...)
	sort.Slice(coms, func(i, j int) bool { return coms[i].ID < coms[j].ID })
	cs := make([]string, len(coms))
	for i, c := range coms {
		cs[i] = w.coqCom(c)
	}
	bl := make([]string, len(s.bals))
	for i, b := range s.bals {
		bl[i] = Zi(b)
	}
	return fmt.Sprintf("(mkState %s\n   %s\n   [] [] %s %s %s 0 %s %s %s)", List(ps), List(cs), Nat(s.next), List(bl), Zi(s.supply), Zi(w.height), Zi(s.plan), coqEnacted(s.enacted))
}

// ------------------------------------------------------------ history runner

func c17ErrKind(err error) string {
	if err == nil {
		return "none"
	}
	m := err.Error()
	switch {
	case strings.Contains(m, "panic"):
		return "panic"
	case strings.Contains(m, "does not have permissions"):
		return "no-permission"
	case strings.Contains(m, "not member") || strings.Contains(m, "must be a member"):
		return "not-member"
	case strings.Contains(m, "expired") || strings.Contains(m, "≥"):
		return "expired"
	case strings.Contains(m, "unknown proposal") || strings.Contains(m, "proposal not found"):
		return "unknown-proposal"
	case strings.Contains(m, "committee not found") || strings.Contains(m, "unknown committee"):
		return "unknown-committee"
	case strings.Contains(m, "handler panicked"):
		return "handler-panicked"
	case strings.Contains(m, "setting parameter") || strings.Contains(m, "invalid parameter"):
		return "handler-failed"
	case strings.Contains(m, "no handler"):
		return "no-route"
	case strings.Contains(m, "vote type") || strings.Contains(m, "only accept yes"):
		return "vote-type"
	case strings.Contains(m, "insufficient"):
		return "insufficient-funds"
	}
	return "other"
}

func c17Run(seed uint64, idx, n int, setup c17Setup, ops []c17Op, cnt *Counters) (exec []c17Op, coq string, fail *Failure, nontrivial bool) {
	w := c17NewWorld(setup, cnt)
	r := NewRng(seed, uint64(idx)*2)
	g := &c17Gen{r: r, w: w, cnt: cnt, idx: idx}
	prev := w.snap()
	header := coqSlots(w.slots) + "\n  " + w.coqInit(setup, prev)
	var steps []string
	var held *Failure
	if ops != nil {
		n = len(ops)
	}
	for i := 0; i < n; i++ {
		var op c17Op
		if ops != nil {
			op = ops[i]
		} else {
			op = g.genOp(prev)
		}
		cls, err, out := w.exec(op)
		after := w.snap()
		exec = append(exec, op)
		if cnt != nil {
			cnt.Inc("op:" + op.Kind + ":" + cls.String())
			if cls != ClassOk {
				cnt.Inc("err:" + op.Kind + ":" + c17ErrKind(err))
			}
			c17Splits(w, op, cls, out, prev, after, cnt)
		}
		if cls == ClassOk && ((op.Kind == "allows" && out.b && op.Content.Kind == "param") || (op.Kind == "begin" && len(out.closed) > 0)) {
			nontrivial = true
		}
		if len(out.oracle) > 0 {
			steps = append(steps, w.coqOracle(out.oracle, prev))
		}
		steps = append(steps, fmt.Sprintf("(%s,\n    %s)", w.coqOp(op), w.coqObs(cls, out, prev, after)))
		if pred, sig, detail := w.monitor(op, cls, out, prev, after); pred != "" && fail == nil {
			fail = &Failure{History: idx, Step: i, Predicate: pred, Signature: sig, Detail: detail}
		}
		if w.heldBack != nil && held == nil {
			held = &Failure{History: idx, Step: i, Predicate: w.heldBack[0], Signature: w.heldBack[1], Detail: w.heldBack[2]}
		}
		prev = after
	}
	if fail == nil {
		fail = held
	}
	coq = fmt.Sprintf("mkHist %s\n  %s", header, List(steps))
	return
}

func c17Splits(w *c17World, op c17Op, cls Class, out c17Out, before, after *c17Snap, cnt *Counters) {
	switch op.Kind {
	case "allows":
		if cls == ClassPanic {
			cnt.Inc("split:allows:panic")
			return
		}
		if cls == ClassOk {
			cnt.Inc(fmt.Sprintf("split:matrix:%s:%s:%v", op.Perm.Kind, op.Content.Kind, out.b))
		}
		if op.Perm.Kind == "params" && op.Content.Kind == "param" {
			for _, ch := range op.Content.Changes {
				kind := "unknown-param"
				if ch.P >= 0 {
					kind = "single"
					if w.slots[ch.P].Multi {
						kind = "multi"
					}
				}
				cnt.Inc(fmt.Sprintf("split:allows:%s:%v", kind, out.b))
			}
		}
	case "vote":
		if p := w.pend[op.Pid]; p != nil && cls == ClassOk && w.now < p.deadline && w.now/c17Sec == p.deadline/c17Sec {
			cnt.Inc("split:edge:vote-accepted-in-deadline-second")
		}
	case "begin":
		for pid, p := range w.pend {
			closedNow := false
			for _, ev := range out.closed {
				closedNow = closedNow || ev[0] == pid
			}
			if !w.closed[pid] && !closedNow && w.now < p.deadline && w.now/c17Sec == p.deadline/c17Sec {
				cnt.Inc("split:edge:left-open-in-deadline-second")
			}
		}
		for _, ev := range out.closed {
			if p := w.pend[ev[0]]; p != nil && w.now == p.deadline && p.deadline%c17Sec != 0 {
				cnt.Inc("split:edge:closed-on-subsecond-deadline")
			}
			if p := w.pend[ev[0]]; p != nil {
				if c, ok := w.coms[p.com]; ok && c.Token && before.supply > 0 {
					var tot int64
					for _, v := range before.votes {
						if int(v[0]) == ev[0] && int(v[1]) < len(before.bals) {
							tot += before.bals[v[1]]
						}
					}
					qn, qd := fracOf(c.Quorum)
					least := ceilFrac(qn, qd, before.supply)
					switch tot {
					case least:
						cnt.Inc("split:edge:turnout-least-meeting-quorum")
					case least - 1:
						cnt.Inc("split:edge:turnout-one-below-quorum")
						// coverage only: would the rounded ratio have met it?
						if sdk.NewDec(tot).Quo(sdk.NewDec(before.supply)).GTE(dec(c.Quorum)) {
							cnt.Inc("split:edge:quorum-missed-within-rounding")
						}
					}
				}
			}
		}
		for _, ev := range out.closed {
			p := w.pend[ev[0]]
			when := "at-deadline"
			if p != nil && w.now < p.deadline {
				when = "fptp-early"
			}
			if p != nil {
				if _, ok := w.coms[p.com]; !ok {
					when = "no-committee"
				}
			}
			cnt.Inc(fmt.Sprintf("split:close:%s:%s", strings.ToLower(outcomeCoq[ev[1]]), when))
			if p != nil {
				cnt.Inc(fmt.Sprintf("split:closed:%s:%s", strings.ToLower(outcomeCoq[ev[1]]), p.content.Kind))
				if ev[1] == 2 && p.content.Kind == "param" {
					// was it the permission re-check (and not the dry run) that refused it?
					if c, ok := w.coms[p.com]; ok {
						func() {
							defer func() { _ = recover() }()
							cctx, _ := w.ctx.CacheContext()
							if !w.goCom(c).HasPermissionsFor(cctx, w.tApp.AppCodec(), w.tApp.GetParamsKeeper(), w.goContent(p.content)) {
								cnt.Inc("split:closed:invalid:permission-gone")
							}
						}()
					}
				}
			}
			if p != nil && p.content.Kind == "upgrade" {
				stale := "in-time"
				if p.content.H < w.height {
					stale = "stale"
				}
				cnt.Inc(fmt.Sprintf("split:upgrade:%s:%s:%s", strings.ToLower(outcomeCoq[ev[1]]), stale, when))
			}
			if p != nil {
				if c, ok := w.coms[p.com]; ok && c.Token {
					cnt.Inc("split:tally:token")
				} else if ok {
					cnt.Inc("split:tally:member")
				}
			}
		}
	case "submit":
		if cls == ClassOk {
			cnt.Inc("split:submit:stored:" + op.Content.Kind)
		} else if c, ok := w.coms[op.Com]; ok && (op.Content.Kind == "lenddeposit" || op.Content.Kind == "cchange") && anyTypeAllows(c.Perms, op.Content.Kind) {
			cnt.Inc("split:submit:refused-undecodable:" + op.Content.Kind)
		} else if ok && !anyTypeAllows(c.Perms, op.Content.Kind) {
			cnt.Inc("split:submit:refused-no-permission:" + op.Content.Kind)
		} else if ok && op.Content.Meta != 0 {
			cnt.Inc("split:submit:refused-bad-meta")
		} else if ok && op.Content.isCommunity() && !op.Content.ok {
			cnt.Inc("split:submit:refused-handler-fails:" + op.Content.Kind)
		} else if ok && op.Content.Kind == "param" && op.Content.Meta == 0 {
			permitted := false
			func() {
				defer func() { _ = recover() }()
				cctx, _ := w.ctx.CacheContext()
				permitted = w.goCom(c).HasPermissionsFor(cctx, w.tApp.AppCodec(), w.tApp.GetParamsKeeper(), w.goContent(*op.Content))
			}()
			if _, panicked := w.handlerVerdict(w.ctx, *op.Content); panicked && permitted {
				for _, ch := range op.Content.Changes {
					if ch.P != -2 {
						cnt.Inc("split:submit:refused-handler-panics-nil-value")
						break
					}
				}
			}
		}
	}
}

var c17AllSplits = []string{
	"allows:single:true", "allows:single:false", "allows:multi:true", "allows:multi:false", "allows:unknown-param:false", "allows:panic",
	"close:passed:fptp-early", "close:passed:at-deadline", "close:failed:at-deadline", "close:invalid:at-deadline", "close:invalid:fptp-early",
	"submit:stored:param", "submit:stored:text", "submit:stored:upgrade",
	"upgrade:invalid:stale:at-deadline", "upgrade:invalid:stale:fptp-early", "upgrade:passed:in-time:at-deadline", "upgrade:passed:in-time:fptp-early",
	"doc:dup-key", "doc:case-variant", "doc:reordered-keys", "doc:reordered-records", "doc:added-absent-omitempty", "doc:dropped-allowed-key",
	"doc:drop-and-add", "doc:dup-record", "doc:null-value", "doc:wrong-type", "doc:protected-changed", "doc:nested-changed", "doc:not-json",
	"tally:token", "tally:member",
	"submit:refused-undecodable:lenddeposit", "submit:stored:lendwithdraw", "submit:stored:cdprepay", "submit:stored:cdpwithdraw",
	"submit:refused-no-permission:lenddeposit", "submit:refused-no-permission:lendwithdraw", "submit:refused-no-permission:cdprepay", "submit:refused-no-permission:cdpwithdraw",
	"submit:refused-no-permission:text", "submit:refused-no-permission:upgrade", "submit:refused-no-permission:param",
	"closed:passed:lendwithdraw", "closed:passed:cdprepay", "closed:passed:cdpwithdraw", "closed:passed:text", "closed:passed:param", "closed:passed:upgrade",
	"closed:invalid:lendwithdraw", "closed:invalid:cdprepay", "closed:invalid:cdpwithdraw",
	"matrix:cdprepay:cdprepay:true", "matrix:cdpwithdraw:cdpwithdraw:true", "matrix:lendwithdraw:lendwithdraw:true",
	"matrix:cdprepay:cdpwithdraw:false", "matrix:cdpwithdraw:cdprepay:false", "matrix:lendwithdraw:lenddeposit:false", "matrix:lendwithdraw:cdprepay:false",
	"matrix:god:lenddeposit:true", "matrix:text:text:true", "matrix:other:upgrade:true", "matrix:text:upgrade:false", "matrix:other:text:false",
	"submit:refused-bad-meta", "closed:invalid:permission-gone",
	"script:tally-edge", "script:deadline-edge", "script:nil-value",
	"edge:vote-accepted-in-deadline-second", "edge:left-open-in-deadline-second", "edge:closed-on-subsecond-deadline",
	"edge:turnout-least-meeting-quorum", "edge:turnout-one-below-quorum", "edge:quorum-missed-within-rounding",
	"submit:refused-handler-panics-nil-value",
}

func runC17(o Opts) (*Result, error) {
	n := o.Len
	if n == 0 {
		n = c17DefaultL
	}
	res := &Result{Property: "C17", Seed: o.Seed,
		Rule: "histories of " + fmt.Sprint(n) + " operations (Permission.Allows queries, direct handler calls, MsgSubmitProposal, MsgVote, begin blocks, transfers, gov committee changes) from splitmix64(seed, history index) on a fresh app.TestApp; a history is non-trivial when a parameter-change document was allowed by a ParamsChangePermission or a begin block closed a proposal; distinct by hash of the operation list"}
	cnt := NewCounters()
	header := "From Kava Require Import Base.Prelude Model.Json Model.Committee.\nOpen Scope string_scope.\nOpen Scope list_scope."

	if o.Replay != "" {
		bz, err := os.ReadFile(o.Replay)
		if err != nil {
			return nil, err
		}
		var h c17Hist
		if err := json.Unmarshal(bz, &h); err != nil {
			return nil, err
		}
		_, coq, fail, _ := c17Run(h.Seed, h.Idx, 0, h.Setup, h.Ops, cnt)
		name, err := WriteShard(o.OutDir, 0, header+"\n"+strDefs(), []string{coq}, "mismatches")
		if err != nil {
			return nil, err
		}
		res.Shards = []string{name}
		res.HistIndex = []HistRef{{0, 0, h.Idx, MustJSON(h)}}
		res.Histories, res.Evaluations = 1, len(h.Ops)
		if fail != nil {
			fail.Replay = MustJSON(h)
			res.Failures = append(res.Failures, *fail)
		}
		res.Counters = cnt.Map()
		return res, nil
	}

	type outT struct {
		setup c17Setup
		ops   []c17Op
		coq   string
		fail  *Failure
		nt    bool
	}
	outs := make([]outT, o.N)
	ParallelFor(o.N, o.Workers, func(i int) {
		setup := c17GenSetup(NewRng(o.Seed, uint64(i)*2+1))
		ops, coq, fail, nt := c17Run(o.Seed, i, n, setup, nil, cnt)
		if fail != nil {
			sig := fail.Signature
			fails := func(cand []c17Op) bool {
				_, _, f, _ := c17Run(o.Seed, i, 0, setup, cand, nil)
				return f != nil && f.Signature == sig
			}
			small := Shrink(ops[:fail.Step+1], fails)
			_, _, f2, _ := c17Run(o.Seed, i, 0, setup, small, nil)
			if f2 != nil {
				f2.History = i
				f2.Step = fail.Step
				f2.Replay = MustJSON(c17Hist{o.Seed, i, setup, small})
				fail = f2
			} else {
				fail.Replay = MustJSON(c17Hist{o.Seed, i, setup, ops[:fail.Step+1]})
			}
		}
		outs[i] = outT{setup, ops, coq, fail, nt}
	})

	seen := map[string]bool{}
	perShard := 12
	var cases []string
	shard := 0
	flush := func() error {
		if len(cases) == 0 {
			return nil
		}
		name, err := WriteShard(o.OutDir, shard, header+"\n"+strDefs(), cases, "mismatches")
		if err != nil {
			return err
		}
		res.Shards = append(res.Shards, name)
		shard++
		cases = nil
		return nil
	}
	for i, ot := range outs {
		res.Histories++
		res.Evaluations += len(ot.ops)
		h := c17Hist{o.Seed, i, ot.setup, ot.ops}
		key := string(MustJSON(ot.ops))
		if ot.nt && !seen[key] {
			seen[key] = true
			res.DistinctNontrivial++
		}
		if i < 2 {
			res.Samples = append(res.Samples, h)
		}
		res.HistIndex = append(res.HistIndex, HistRef{shard, len(cases), i, MustJSON(h)})
		cases = append(cases, ot.coq)
		if len(cases) == perShard {
			if err := flush(); err != nil {
				return nil, err
			}
		}
		if ot.fail != nil {
			res.Failures = append(res.Failures, *ot.fail)
		}
	}
	if err := flush(); err != nil {
		return nil, err
	}
	res.Counters = cnt.Map()
	for _, k := range c17AllSplits {
		if res.Counters["split:"+k] == 0 {
			res.QualityGate = append(res.QualityGate, k)
		}
	}
	res.Extra = map[string]any{"schema_table_from_reflection": coqSlots(c17Slots())}
	return res, nil
}
