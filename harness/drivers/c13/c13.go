package c13

// C13 — x/bep3 atomic swaps.  Histories of CreateAtomicSwap / ClaimAtomicSwap /
// RefundAtomicSwap / BeginBlocker on the real keeper over the real x/bank, with
// monitors stating the property on the implementation (custody, counters,
// limits, single payout, status transitions, index coherence read raw from the
// store prefixes) and Coq case files for Model/Bep3.v.

import (
	. "kavaverif/lib"

	"bytes"
	"encoding/binary"
	"encoding/hex"
	"encoding/json"
	"errors"
	"fmt"
	"math/big"
	"os"
	"sort"
	"strings"
	"time"

	sdkmath "cosmossdk.io/math"
	sdk "github.com/cosmos/cosmos-sdk/types"

	"github.com/kava-labs/kava/app"
	"github.com/kava-labs/kava/x/bep3"
	bep3keeper "github.com/kava-labs/kava/x/bep3/keeper"
	bep3types "github.com/kava-labs/kava/x/bep3/types"
)

func init() { Registry["C13"] = runC13 }

var c13Denoms = []string{"bnb", "inc", "ukava"}

const (
	c13NAcc     = 7 // 0,1,2 users; 3,4 deputies; 5 bep3 module account; 6 another module account
	c13NDen     = 3
	c13Mod      = 5
	c13OtherMod = 6
	c13DefaultL = 40
	c13Horizon  = 86400
	c13Header   = "From Kava Require Import Base.Prelude Model.Bep3."
)

// ------------------------------------------------------------ configuration of one history

type c13Asset struct {
	Limit       int64  `json:"limit"`
	TimeLimited bool   `json:"time_limited"`
	PeriodSec   int64  `json:"period_s"`
	TLimit      int64  `json:"time_limit"`
	Active      bool   `json:"active"`
	Deputy      int    `json:"deputy"`
	Fee         int64  `json:"fee"`
	Min         int64  `json:"min"`
	Max         int64  `json:"max"`
	MinLock     uint64 `json:"min_lock"`
	MaxLock     uint64 `json:"max_lock"`
	Cur0        int64  `json:"cur0"`
	TL0         int64  `json:"tl0"`
	Elapsed0    int64  `json:"elapsed0_s"`
}

type c13Cfg struct {
	Assets      [2]c13Asset `json:"assets"`
	StartHeight int64       `json:"start_height"`
	UserFunds   int64       `json:"user_funds"`
}

func c13GenCfg(r *Rng) c13Cfg {
	var c c13Cfg
	for i := 0; i < 2; i++ {
		a := &c.Assets[i]
		a.Min = []int64{1, 1, 5, 100}[r.Intn(4)]
		a.Fee = []int64{0, 10, 1000}[r.Intn(3)]
		a.Max = []int64{10_000, 100_000, 1_000_000_000_000}[r.Pick(4, 4, 1)]
		base := a.Max
		if base > 1_000_000 {
			base = 1_000_000
		}
		a.Limit = base * int64(2+r.Intn(5))
		if r.Chance(1, 8) {
			a.Limit = 350_000_000_000_000
		}
		a.TimeLimited = r.Chance(1, 2)
		a.PeriodSec = []int64{30, 60, 600, 3600}[r.Intn(4)]
		a.TLimit = a.Limit / int64(1+r.Intn(4))
		if r.Chance(1, 6) {
			a.TLimit = a.Limit
		}
		a.Active = true
		a.Deputy = 3
		ml := []uint64{1, 2, 3, 10, 220, 0}[r.Pick(3, 3, 3, 2, 1, 2)] // 0: Params.Validate accepts it; the swap is open only for the rest of its creation block
		a.MinLock = ml
		a.MaxLock = ml + []uint64{0, 2, 10, 50}[r.Intn(4)]
		switch r.Intn(4) {
		case 0:
			a.Cur0 = 0
		case 1:
			a.Cur0 = a.Limit / 3
		case 2:
			a.Cur0 = a.Limit / 2
		default:
			a.Cur0 = a.Limit - int64(r.Intn(int(base)))
		}
		if a.TimeLimited && r.Chance(1, 3) {
			a.TL0 = int64(r.Intn(int(minI64(a.TLimit, base)) + 1))
			a.Elapsed0 = int64(r.Intn(int(a.PeriodSec)))
		}
	}
	// the second asset: sometimes another deputy, sometimes inactive
	if r.Chance(1, 2) {
		c.Assets[1].Deputy = 4
	}
	if r.Chance(1, 5) {
		c.Assets[1].Active = false
	}
	c.StartHeight = []int64{2, 10, 1000, 100_000}[r.Intn(4)]
	c.UserFunds = []int64{2_000_000, 2_000_000, 20_000, 500}[r.Intn(4)]
	return c
}

func minI64(a, b int64) int64 {
	if a < b {
		return a
	}
	return b
}

// ------------------------------------------------------------ operations

type c13Coin struct {
	D int    `json:"d"`
	A string `json:"a"`
}

type c13Op struct {
	Kind string `json:"kind"` // create | claim | refund | block
	// create
	Hash   string    `json:"hash,omitempty"` // random number hash, hex
	Ts     int64     `json:"ts,omitempty"`
	Span   uint64    `json:"span,omitempty"`
	Sender int       `json:"sender,omitempty"`
	Recip  int       `json:"recip,omitempty"`
	Soc    string    `json:"soc,omitempty"`
	Coins  []c13Coin `json:"coins,omitempty"`
	Cross  bool      `json:"cross,omitempty"`
	// claim / refund
	From   int    `json:"from,omitempty"`
	ID     string `json:"id,omitempty"`     // swap id, hex
	Secret string `json:"secret,omitempty"` // random number, hex
	// block
	Height int64 `json:"height,omitempty"`
	TimeNs int64 `json:"time_ns,omitempty"` // absolute, unix ns
	// generator's note (not used by replay)
	Note string `json:"note,omitempty"`
	// create / claim / refund: deliver as a transaction would -- ValidateBasic of the message,
	// then the real msg server (crossChain = true) -- instead of calling the keeper
	Msg bool `json:"msg,omitempty"`
}

// c13FormatOK: the format rules of the three ValidateBasic functions that the model does
// not carry (32-byte hash / swap id / random number, other-chain address lengths); a
// generated operation is delivered as a message only when they hold.
func c13FormatOK(op c13Op) bool {
	is32 := func(h string) bool {
		b, err := hex.DecodeString(h)
		return err == nil && len(b) == 32
	}
	switch op.Kind {
	case "create":
		return is32(op.Hash) && len(op.Soc) <= bep3types.MaxOtherChainAddrLength
	case "claim":
		return is32(op.ID) && is32(op.Secret)
	case "refund":
		return is32(op.ID)
	}
	return false
}

// c13MsgValid states the rules of MsgCreateAtomicSwap.ValidateBasic that the model carries.
func c13MsgValid(op c13Op) bool {
	if op.Kind != "create" {
		return true
	}
	if op.Ts <= 0 || op.Span == 0 || len(op.Coins) == 0 {
		return false
	}
	return c13Coins(op.Coins).IsValid()
}

func (w *c13World) execMsg(op c13Op) (Class, error) {
	return Atomically(w.ctx, func(ctx sdk.Context) error {
		ms := bep3keeper.NewMsgServerImpl(w.k)
		switch op.Kind {
		case "create":
			m := bep3types.NewMsgCreateAtomicSwap(w.addrs[op.Sender].String(), w.addrs[op.Recip].String(), "recipient-other-chain", op.Soc,
				unhex(op.Hash), op.Ts, c13Coins(op.Coins), op.Span)
			if err := m.ValidateBasic(); err != nil {
				return err
			}
			_, err := ms.CreateAtomicSwap(sdk.WrapSDKContext(ctx), &m)
			return err
		case "claim":
			m := bep3types.NewMsgClaimAtomicSwap(w.addrs[op.From].String(), unhex(op.ID), unhex(op.Secret))
			if err := m.ValidateBasic(); err != nil {
				return err
			}
			_, err := ms.ClaimAtomicSwap(sdk.WrapSDKContext(ctx), &m)
			return err
		case "refund":
			m := bep3types.NewMsgRefundAtomicSwap(w.addrs[op.From].String(), unhex(op.ID))
			if err := m.ValidateBasic(); err != nil {
				return err
			}
			_, err := ms.RefundAtomicSwap(sdk.WrapSDKContext(ctx), &m)
			return err
		}
		panic("not a message: " + op.Kind)
	})
}

type c13Swap struct {
	ID     string
	Denom  int
	Amt    *big.Int
	Hash   string
	Expire uint64
	Ts     int64
	Sender int
	Recip  int
	Soc    string // lower-cased
	Closed int64
	Status int // 1 open, 2 completed, 3 expired
	Cross  bool
	Dir    int // 1 incoming, 2 outgoing
}

func (a *c13Swap) equal(b *c13Swap) bool {
	return a.ID == b.ID && a.Denom == b.Denom && a.Amt.Cmp(b.Amt) == 0 && a.Hash == b.Hash && a.Expire == b.Expire &&
		a.Ts == b.Ts && a.Sender == b.Sender && a.Recip == b.Recip && a.Soc == b.Soc && a.Closed == b.Closed &&
		a.Status == b.Status && a.Cross == b.Cross && a.Dir == b.Dir
}

// same swap up to status and closed block
func (a *c13Swap) sameFixed(b *c13Swap) bool {
	return a.ID == b.ID && a.Denom == b.Denom && a.Amt.Cmp(b.Amt) == 0 && a.Hash == b.Hash && a.Expire == b.Expire &&
		a.Ts == b.Ts && a.Sender == b.Sender && a.Recip == b.Recip && a.Soc == b.Soc && a.Cross == b.Cross && a.Dir == b.Dir
}

type c13Sup struct {
	Inc, Out, Cur, TL *big.Int
	Elapsed           int64 // ns
}

type c13Snap struct {
	swaps   map[string]*c13Swap
	ids     []string // sorted
	bb      map[string]bool // "height/idhex", raw
	lt      map[string]bool
	sup     [2]c13Sup
	bal     [][]*big.Int
	bsup    []*big.Int
	prev    int64
	rawBad  string // malformed raw store entry, if any
	height  int64
	timeNs  int64
}

type c13World struct {
	tApp  app.TestApp
	ctx   sdk.Context
	k     bep3keeper.Keeper
	cfg   c13Cfg
	addrs []sdk.AccAddress
}

func c13Setup(cfg c13Cfg) *c13World {
	tApp := NewApp()
	users := Addrs(5)
	cdc := tApp.AppCodec()
	b := app.NewAuthBankGenesisBuilder()
	funds := sdk.NewCoins(
		sdk.NewInt64Coin("bnb", cfg.UserFunds),
		sdk.NewInt64Coin("inc", cfg.UserFunds),
		sdk.NewInt64Coin("ukava", cfg.UserFunds),
	)
	for i := 0; i < 5; i++ {
		b.WithSimpleAccount(users[i], funds)
	}
	var aps bep3types.AssetParams
	var sups bep3types.AssetSupplies
	for i := 0; i < 2; i++ {
		a := cfg.Assets[i]
		dn := c13Denoms[i]
		aps = append(aps, bep3types.AssetParam{
			Denom:  dn,
			CoinID: int64(714 + i),
			SupplyLimit: bep3types.SupplyLimit{
				Limit:          sdkmath.NewInt(a.Limit),
				TimeLimited:    a.TimeLimited,
				TimePeriod:     time.Duration(a.PeriodSec) * time.Second,
				TimeBasedLimit: sdkmath.NewInt(a.TLimit),
			},
			Active:        a.Active,
			DeputyAddress: users[a.Deputy],
			FixedFee:      sdkmath.NewInt(a.Fee),
			MinSwapAmount: sdkmath.NewInt(a.Min),
			MaxSwapAmount: sdkmath.NewInt(a.Max),
			MinBlockLock:  a.MinLock,
			MaxBlockLock:  a.MaxLock,
		})
		sups = append(sups, bep3types.NewAssetSupply(
			sdk.NewInt64Coin(dn, 0), sdk.NewInt64Coin(dn, 0), sdk.NewInt64Coin(dn, a.Cur0), sdk.NewInt64Coin(dn, a.TL0),
			time.Duration(a.Elapsed0)*time.Second))
	}
	gs := bep3types.GenesisState{
		Params:            bep3types.Params{AssetParams: aps},
		Supplies:          sups,
		PreviousBlockTime: GenesisTime,
	}
	tApp.InitializeFromGenesisStatesWithTime(GenesisTime,
		b.BuildMarshalled(cdc),
		app.GenesisState{bep3types.ModuleName: cdc.MustMarshalJSON(&gs)})
	ctx := NewCtx(tApp, cfg.StartHeight, GenesisTime.Add(6*time.Second))
	ak := tApp.GetAccountKeeper()
	addrs := make([]sdk.AccAddress, c13NAcc)
	copy(addrs, users)
	addrs[c13Mod] = ak.GetModuleAccount(ctx, bep3types.ModuleName).GetAddress()
	addrs[c13OtherMod] = ak.GetModuleAccount(ctx, "hard").GetAddress()
	return &c13World{tApp: tApp, ctx: ctx, k: tApp.GetBep3Keeper(), cfg: cfg, addrs: addrs}
}

func (w *c13World) addrIndex(a sdk.AccAddress) int {
	for i, x := range w.addrs {
		if x.Equals(a) {
			return i
		}
	}
	return 99
}

func c13DenomIndex(d string) int {
	for i, x := range c13Denoms {
		if x == d {
			return i
		}
	}
	return 98
}

// snap reads the observable state; the swap table and both indexes are read raw
// from the store prefixes.
func (w *c13World) snap() *c13Snap {
	s := &c13Snap{swaps: map[string]*c13Swap{}, bb: map[string]bool{}, lt: map[string]bool{}}
	s.height = w.ctx.BlockHeight()
	s.timeNs = w.ctx.BlockTime().UnixNano()
	store := w.ctx.KVStore(w.tApp.GetKVStoreKey(bep3types.StoreKey))
	cdc := w.tApp.AppCodec()
	it := sdk.KVStorePrefixIterator(store, bep3types.AtomicSwapKeyPrefix)
	for ; it.Valid(); it.Next() {
		var sw bep3types.AtomicSwap
		cdc.MustUnmarshal(it.Value(), &sw)
		key := it.Key()[1:]
		if !bytes.Equal(key, sw.GetSwapID()) {
			s.rawBad = "swap stored under a key that is not its id: " + hex.EncodeToString(key)
		}
		rec := &c13Swap{ID: hex.EncodeToString(key), Hash: hex.EncodeToString(sw.RandomNumberHash), Expire: sw.ExpireHeight,
			Ts: sw.Timestamp, Sender: w.addrIndex(sw.Sender), Recip: w.addrIndex(sw.Recipient),
			Soc: strings.ToLower(sw.SenderOtherChain), Closed: sw.ClosedBlock, Status: int(sw.Status), Cross: sw.CrossChain, Dir: int(sw.Direction)}
		if len(sw.Amount) == 1 {
			rec.Denom = c13DenomIndex(sw.Amount[0].Denom)
			rec.Amt = sw.Amount[0].Amount.BigInt()
		} else {
			rec.Denom = 98
			rec.Amt = big.NewInt(0)
			s.rawBad = "swap with an amount of " + fmt.Sprint(len(sw.Amount)) + " coins"
		}
		s.swaps[rec.ID] = rec
		s.ids = append(s.ids, rec.ID)
	}
	it.Close()
	sort.Strings(s.ids)
	for pi, pfx := range [][]byte{bep3types.AtomicSwapByBlockPrefix, bep3types.AtomicSwapLongtermStoragePrefix} {
		it := sdk.KVStorePrefixIterator(store, pfx)
		for ; it.Valid(); it.Next() {
			key := it.Key()[1:]
			if len(key) < 8 || !bytes.Equal(key[8:], it.Value()) {
				s.rawBad = "index entry whose value is not the id part of its key: " + hex.EncodeToString(key)
				continue
			}
			e := fmt.Sprintf("%d/%s", binary.BigEndian.Uint64(key[:8]), hex.EncodeToString(key[8:]))
			if pi == 0 {
				s.bb[e] = true
			} else {
				s.lt[e] = true
			}
		}
		it.Close()
	}
	for i := 0; i < 2; i++ {
		sp, found := w.k.GetAssetSupply(w.ctx, c13Denoms[i])
		if !found {
			s.rawBad = "asset supply missing for " + c13Denoms[i]
			sp = bep3types.NewAssetSupply(sdk.NewInt64Coin(c13Denoms[i], 0), sdk.NewInt64Coin(c13Denoms[i], 0), sdk.NewInt64Coin(c13Denoms[i], 0), sdk.NewInt64Coin(c13Denoms[i], 0), 0)
		}
		s.sup[i] = c13Sup{sp.IncomingSupply.Amount.BigInt(), sp.OutgoingSupply.Amount.BigInt(), sp.CurrentSupply.Amount.BigInt(),
			sp.TimeLimitedCurrentSupply.Amount.BigInt(), int64(sp.TimeElapsed)}
	}
	bk := w.tApp.GetBankKeeper()
	for a := 0; a < c13NAcc; a++ {
		row := make([]*big.Int, c13NDen)
		for d, dn := range c13Denoms {
			row[d] = bk.GetBalance(w.ctx, w.addrs[a], dn).Amount.BigInt()
		}
		s.bal = append(s.bal, row)
	}
	for _, dn := range c13Denoms {
		s.bsup = append(s.bsup, bk.GetSupply(w.ctx, dn).Amount.BigInt())
	}
	if t, found := w.k.GetPreviousBlockTime(w.ctx); found {
		s.prev = t.UnixNano()
	}
	return s
}

func c13Coins(cs []c13Coin) sdk.Coins {
	out := make(sdk.Coins, len(cs))
	for i, c := range cs {
		amt, _ := new(big.Int).SetString(c.A, 10)
		dn := "zzz"
		if c.D >= 0 && c.D < len(c13Denoms) {
			dn = c13Denoms[c.D]
		}
		out[i] = sdk.Coin{Denom: dn, Amount: sdkmath.NewIntFromBigInt(amt)}
	}
	return out
}

func unhex(s string) []byte {
	b, _ := hex.DecodeString(s)
	return b
}

func (w *c13World) exec(op c13Op) (Class, error) {
	if op.Msg {
		return w.execMsg(op)
	}
	switch op.Kind {
	case "block":
		w.ctx = w.ctx.WithBlockHeight(op.Height).WithBlockTime(time.Unix(0, op.TimeNs).UTC())
		return Atomically(w.ctx, func(ctx sdk.Context) error {
			bep3.BeginBlocker(ctx, w.k)
			return nil
		})
	case "create":
		return Atomically(w.ctx, func(ctx sdk.Context) error {
			return w.k.CreateAtomicSwap(ctx, unhex(op.Hash), op.Ts, op.Span, w.addrs[op.Sender], w.addrs[op.Recip],
				op.Soc, "recipient-other-chain", c13Coins(op.Coins), op.Cross)
		})
	case "claim":
		return Atomically(w.ctx, func(ctx sdk.Context) error {
			return w.k.ClaimAtomicSwap(ctx, w.addrs[op.From], unhex(op.ID), unhex(op.Secret))
		})
	case "refund":
		return Atomically(w.ctx, func(ctx sdk.Context) error {
			return w.k.RefundAtomicSwap(ctx, w.addrs[op.From], unhex(op.ID))
		})
	}
	panic("unknown op kind " + op.Kind)
}

func c13SwapID(hashHex string, sender sdk.AccAddress, soc string) string {
	h := append([]byte(nil), unhex(hashHex)...) // own backing array: CalculateSwapID appends to its argument
	return hex.EncodeToString(bep3types.CalculateSwapID(h, sender, soc))
}

// ------------------------------------------------------------ generation

type c13Known struct {
	secret string
	ts     int64
}

type c13Gen struct {
	r     *Rng
	known map[string]c13Known // swap id -> secret the generator used
	made  []string            // ids in creation order (successful or not)
	socs  []string
	okCreates map[string]c13Op // successful create per swap id (latest)
	deleted   []c13Op          // creates whose swap has since been deleted from the store
}

func (g *c13Gen) secret() []byte {
	b := make([]byte, 32)
	for i := 0; i < 4; i++ {
		binary.BigEndian.PutUint64(b[8*i:], g.r.Next())
	}
	return b
}

func (g *c13Gen) amount(w *c13World, s *c13Snap, d int, incoming bool, sender int, cnt *Counters) int64 {
	a := w.cfg.Assets[d]
	r := g.r
	sp := s.sup[d]
	var x int64
	switch r.Pick(30, 12, 22, 10, 10, 16) {
	case 0: // inside the range
		hi := a.Max
		if hi > 50_000 {
			hi = 50_000
		}
		lo := a.Fee + a.Min + 1
		if lo > hi {
			lo = a.Min
		}
		x = lo + r.Int63n(hi-lo+1)
	case 1: // min / max edges
		x = []int64{a.Min - 1, a.Min, a.Min + 1, a.Max - 1, a.Max, a.Max + 1}[r.Intn(6)]
	case 2: // the supply limit in force
		if incoming {
			room := a.Limit - sp.Cur.Int64() - sp.Inc.Int64()
			if a.TimeLimited && r.Chance(1, 2) {
				room = a.TLimit - sp.TL.Int64() - sp.Inc.Int64()
			}
			x = room + int64(r.Intn(3)-1)
		} else {
			avail := sp.Cur.Int64() - sp.Out.Int64()
			x = avail + int64(r.Intn(3)-1)
		}
		if r.Chance(2, 3) {
			if x > a.Max {
				x = a.Max
			}
			if x < a.Min {
				x = a.Min + int64(r.Intn(3))
			}
		}
	case 3: // the fee boundary of outgoing swaps
		x = a.Fee + a.Min + int64(r.Intn(3)-1)
	case 4: // the sender's balance
		x = s.bal[sender][d].Int64() + int64(r.Intn(3)-1)
		if r.Chance(2, 3) {
			if x > a.Max {
				x = a.Max
			}
			if x < a.Min {
				x = a.Min + int64(r.Intn(3))
			}
		}
	default: // a fraction of what is left
		room := a.Limit - sp.Cur.Int64() - sp.Inc.Int64()
		if !incoming {
			room = sp.Cur.Int64() - sp.Out.Int64()
		}
		if room < 4 {
			room = 4
		}
		x = room/4 + r.Int63n(room/4+1)
		if x > a.Max {
			x = a.Max
		}
	}
	return x
}

func (g *c13Gen) genCreate(w *c13World, s *c13Snap, cnt *Counters) c13Op {
	r := g.r
	op := c13Op{Kind: "create"}
	d := r.Pick(3, 1)
	if !w.cfg.Assets[d].Active && r.Chance(2, 3) {
		d = 1 - d
	}
	a := w.cfg.Assets[d]
	incoming := r.Chance(1, 2)
	// outgoing swaps need current supply; prefer incoming when there is none
	if !incoming && s.sup[d].Cur.Cmp(s.sup[d].Out) <= 0 && r.Chance(3, 4) {
		incoming = true
	}
	user := r.Intn(3)
	if incoming {
		op.Sender, op.Recip = a.Deputy, user
	} else {
		op.Sender, op.Recip = user, a.Deputy
	}
	nowS := s.timeNs / 1e9
	op.Ts = nowS - int64(r.Intn(600)) + int64(r.Intn(600))
	// height span
	if incoming {
		switch r.Pick(5, 3, 1, 1) {
		case 0:
			op.Span = uint64(r.Intn(6))
		case 1:
			op.Span = a.MinLock + uint64(r.Intn(int(a.MaxLock-a.MinLock)+1))
		case 2:
			op.Span = ^uint64(0) - uint64(r.Intn(3)) // wraps around
			op.Note = "span-wrap"
		default:
			op.Span = uint64(r.Intn(100000))
		}
	} else {
		op.Span = a.MinLock + uint64(r.Intn(int(a.MaxLock-a.MinLock)+1))
	}
	amt := g.amount(w, s, d, incoming, op.Sender, cnt)
	op.Coins = []c13Coin{{d, fmt.Sprint(amt)}}
	op.Cross = r.Chance(3, 4)
	op.Soc = g.socs[r.Intn(len(g.socs))]
	sec := g.secret()
	hash := bep3types.CalculateRandomHash(sec, op.Ts)
	if r.Chance(1, 20) {
		hash = g.secret() // a hash with no known preimage
		sec = nil
	}
	op.Hash = hex.EncodeToString(hash)
	// the id of a swap that was closed and deleted long ago is free again
	if len(g.deleted) > 0 && r.Chance(1, 3) {
		old := g.deleted[r.Intn(len(g.deleted))]
		op.Hash, op.Sender, op.Recip, op.Soc, op.Coins, op.Span = old.Hash, old.Sender, old.Recip, old.Soc, old.Coins, old.Span
		op.Note = "reuse-deleted-id"
		sec = nil
	} else if r.Chance(14, 100) { // malformed stream
		switch r.Intn(10) {
		case 0: // neither party is the deputy
			op.Sender, op.Recip = r.Intn(3), r.Intn(3)
			op.Note = "no-deputy"
		case 1: // deputy to deputy
			op.Sender, op.Recip = a.Deputy, a.Deputy
			op.Note = "deputy-both"
		case 2: // recipient is a module account
			op.Recip = []int{c13Mod, c13OtherMod}[r.Intn(2)]
			op.Note = "module-recipient"
		case 3:
			op.Coins = append(op.Coins, c13Coin{2, "5"})
			op.Note = "two-coins"
		case 4:
			op.Coins = nil
			op.Note = "no-coins"
		case 5:
			op.Coins = []c13Coin{{2, fmt.Sprint(amt)}}
			op.Note = "unsupported-denom"
		case 6: // timestamp edges: [now-15min, now+30min)
			op.Ts = []int64{nowS - 901, nowS - 900, nowS + 1799, nowS + 1800}[r.Intn(4)]
			if sec != nil {
				op.Hash = hex.EncodeToString(bep3types.CalculateRandomHash(sec, op.Ts))
			}
			op.Note = "timestamp-edge"
		case 7: // height span edges
			op.Span = []uint64{a.MinLock - 1, a.MinLock, a.MaxLock, a.MaxLock + 1}[r.Intn(4)]
			op.Note = "span-edge"
		case 8: // the other asset's deputy / a deputy as ordinary sender
			op.Sender = 3 + r.Intn(2)
			op.Note = "other-deputy"
		default: // duplicate of an existing swap id (same hash, sender, other-chain sender up to case)
			if len(s.ids) > 0 {
				t := s.swaps[s.ids[r.Intn(len(s.ids))]]
				op.Hash, op.Sender, op.Soc = t.Hash, t.Sender, strings.ToUpper(t.Soc)
				if t.Sender < c13NAcc && t.Dir == 1 {
					op.Recip = r.Intn(3)
				}
				if k, ok := g.known[t.ID]; ok {
					op.Ts = k.ts
				}
				sec = nil
				op.Note = "duplicate-id"
			}
		}
	}
	if op.Sender < len(w.addrs) {
		id := c13SwapID(op.Hash, w.addrs[op.Sender], op.Soc)
		if sec != nil {
			if _, dup := g.known[id]; !dup {
				g.known[id] = c13Known{hex.EncodeToString(sec), op.Ts}
			}
		}
		g.made = append(g.made, id)
	}
	return op
}

func (g *c13Gen) pickSwap(s *c13Snap, want func(*c13Swap) bool) *c13Swap {
	var c []*c13Swap
	for _, id := range s.ids {
		if want(s.swaps[id]) {
			c = append(c, s.swaps[id])
		}
	}
	if len(c) == 0 {
		return nil
	}
	return c[g.r.Intn(len(c))]
}

func (g *c13Gen) genClaim(w *c13World, s *c13Snap) (c13Op, bool) {
	r := g.r
	op := c13Op{Kind: "claim", From: r.Intn(5)}
	var t *c13Swap
	switch r.Pick(75, 8, 8, 4, 5) {
	case 0, 1:
		t = g.pickSwap(s, func(x *c13Swap) bool { return x.Status == 1 })
	case 2:
		t = g.pickSwap(s, func(x *c13Swap) bool { return x.Status == 3 })
		op.Note = "claim-expired"
	case 3:
		t = g.pickSwap(s, func(x *c13Swap) bool { return x.Status == 2 })
		op.Note = "claim-completed"
	default:
		op.ID = hex.EncodeToString(g.secret())
		if len(g.made) > 0 && r.Chance(1, 2) {
			op.ID = g.made[r.Intn(len(g.made))] // possibly never created or already deleted
		}
		op.Secret = hex.EncodeToString(g.secret())
		op.Note = "claim-unknown"
		return op, true
	}
	if t == nil {
		return op, false
	}
	op.ID = t.ID
	k, ok := g.known[t.ID]
	if ok && !r.Chance(12, 100) {
		op.Secret = k.secret
	} else {
		op.Secret = hex.EncodeToString(g.secret())
		if ok && r.Chance(1, 2) { // the secret of another swap
			for _, id := range s.ids {
				if k2, ok2 := g.known[id]; ok2 && id != t.ID {
					op.Secret = k2.secret
					break
				}
			}
		}
		op.Note = "wrong-secret"
	}
	return op, true
}

func (g *c13Gen) genRefund(w *c13World, s *c13Snap) (c13Op, bool) {
	r := g.r
	op := c13Op{Kind: "refund", From: r.Intn(5)}
	var t *c13Swap
	switch r.Pick(72, 15, 8, 5) {
	case 0:
		t = g.pickSwap(s, func(x *c13Swap) bool { return x.Status == 3 })
	case 1:
		// an open swap whose expire height is already reached (span 0: open for the rest of its
		// creation block; the begin blocker of the next block expires it) must still be refused
		t = g.pickSwap(s, func(x *c13Swap) bool { return x.Status == 1 && x.Expire <= uint64(s.height) })
		if t == nil || r.Chance(1, 3) {
			t = g.pickSwap(s, func(x *c13Swap) bool { return x.Status == 1 })
		}
		op.Note = "refund-open"
	case 2:
		t = g.pickSwap(s, func(x *c13Swap) bool { return x.Status == 2 })
		op.Note = "refund-completed"
	default:
		op.ID = hex.EncodeToString(g.secret())
		if len(g.made) > 0 && r.Chance(1, 2) {
			op.ID = g.made[r.Intn(len(g.made))]
		}
		op.Note = "refund-unknown"
		return op, true
	}
	if t == nil {
		return op, false
	}
	op.ID = t.ID
	return op, true
}

func (g *c13Gen) genBlock(w *c13World, s *c13Snap) c13Op {
	r := g.r
	op := c13Op{Kind: "block"}
	h := s.height + 1
	switch r.Pick(50, 12, 22, 16) {
	case 0:
	case 1:
		h = s.height + int64(2+r.Intn(5))
	case 2: // around the earliest expiry of an open swap
		var best int64 = -1
		for _, id := range s.ids {
			x := s.swaps[id]
			if x.Status == 1 && x.Expire < 1<<62 && int64(x.Expire) > s.height && (best < 0 || int64(x.Expire) < best) {
				best = int64(x.Expire)
			}
		}
		if best > 0 {
			h = best + int64(r.Intn(3)-1)
			op.Note = "to-expiry"
		}
	default: // around the earliest deletion height of a closed swap
		var best int64 = -1
		for _, id := range s.ids {
			x := s.swaps[id]
			if x.Status == 2 && (best < 0 || x.Closed+c13Horizon < best) {
				best = x.Closed + c13Horizon
			}
		}
		if best > 0 {
			h = best + int64(r.Intn(3)-1)
			op.Note = "to-horizon"
		}
	}
	if h <= s.height {
		h = s.height + 1
	}
	op.Height = h
	dt := int64(6e9)
	switch r.Pick(60, 10, 20, 10) {
	case 1:
		dt = int64(r.Intn(3)) * 1e9 / 2 // 0, 0.5 s, 1 s
	case 2: // the end of a time-limited period
		d := r.Intn(2)
		a := w.cfg.Assets[d]
		left := a.PeriodSec*1e9 - s.sup[d].Elapsed
		dt = left + int64(r.Intn(3)-1)
		if dt < 0 {
			dt = 0
		}
	case 3:
		dt = int64(1+r.Intn(4000)) * 1e9
	}
	op.TimeNs = s.timeNs + dt
	return op
}

func (g *c13Gen) gen(w *c13World, s *c13Snap, cnt *Counters) c13Op {
	for tries := 0; tries < 6; tries++ {
		switch g.r.Pick(34, 26, 14, 26) {
		case 0:
			return g.genCreate(w, s, cnt)
		case 1:
			if op, ok := g.genClaim(w, s); ok {
				return op
			}
		case 2:
			if op, ok := g.genRefund(w, s); ok {
				return op
			}
		default:
			if len(s.ids) > 0 || g.r.Chance(1, 3) {
				return g.genBlock(w, s)
			}
		}
	}
	return g.genCreate(w, s, cnt)
}

// ------------------------------------------------------------ monitors

func bigEq(a, b *big.Int) bool { return a.Cmp(b) == 0 }

// ledger is what the monitors accumulate over a history, from observed results only
type c13Ledger struct {
	netClaimed [2]*big.Int     // Σ claimed incoming − Σ claimed outgoing, per asset
	cur0       [2]*big.Int     // current supply at the start
	peg0       [c13NDen]*big.Int // bank supply − current supply at the start (assets), bank supply (others)
	closedAt   map[string]int  // swap id -> step at which its present instance was paid out (claim or refund)
	createdAt  map[string]int  // swap id -> step at which its present instance was created
}

func c13NewLedger(s *c13Snap) *c13Ledger {
	l := &c13Ledger{closedAt: map[string]int{}, createdAt: map[string]int{}}
	for i := 0; i < 2; i++ {
		l.netClaimed[i] = big.NewInt(0)
		l.cur0[i] = new(big.Int).Set(s.sup[i].Cur)
	}
	for d := 0; d < c13NDen; d++ {
		l.peg0[d] = new(big.Int).Set(s.bsup[d])
		if d < 2 {
			l.peg0[d].Sub(l.peg0[d], s.sup[d].Cur)
		}
	}
	return l
}

func c13SnapEqual(a, b *c13Snap) string {
	if len(a.ids) != len(b.ids) {
		return "swap table size"
	}
	for _, id := range a.ids {
		x, ok := b.swaps[id]
		if !ok || !x.equal(a.swaps[id]) {
			return "swap " + id
		}
	}
	if len(a.bb) != len(b.bb) || len(a.lt) != len(b.lt) {
		return "index size"
	}
	for e := range a.bb {
		if !b.bb[e] {
			return "by-block entry " + e
		}
	}
	for e := range a.lt {
		if !b.lt[e] {
			return "long-term entry " + e
		}
	}
	for i := 0; i < 2; i++ {
		if !bigEq(a.sup[i].Inc, b.sup[i].Inc) || !bigEq(a.sup[i].Out, b.sup[i].Out) || !bigEq(a.sup[i].Cur, b.sup[i].Cur) ||
			!bigEq(a.sup[i].TL, b.sup[i].TL) || a.sup[i].Elapsed != b.sup[i].Elapsed {
			return "supply of " + c13Denoms[i]
		}
	}
	for x := 0; x < c13NAcc; x++ {
		for d := 0; d < c13NDen; d++ {
			if !bigEq(a.bal[x][d], b.bal[x][d]) {
				return fmt.Sprintf("balance of account %d in %s", x, c13Denoms[d])
			}
		}
	}
	for d := 0; d < c13NDen; d++ {
		if !bigEq(a.bsup[d], b.bsup[d]) {
			return "bank supply of " + c13Denoms[d]
		}
	}
	if a.prev != b.prev {
		return "previous block time"
	}
	return ""
}

// c13StateMonitor: the state predicates of the property, on any observed state.
func c13StateMonitor(w *c13World, s *c13Snap, l *c13Ledger) (pred, sig, detail string) {
	if s.rawBad != "" {
		return "store-well-formed", "raw-store-malformed", s.rawBad
	}
	// sums over the swap records
	var inc, out [2]*big.Int
	for i := range inc {
		inc[i], out[i] = big.NewInt(0), big.NewInt(0)
	}
	wantBB, wantLT := map[string]bool{}, map[string]bool{}
	for _, id := range s.ids {
		x := s.swaps[id]
		if x.Denom > 1 {
			return "swap-asset-supported", "swap-of-unsupported-denom", id
		}
		if x.Status != 2 {
			if x.Dir == 1 {
				inc[x.Denom].Add(inc[x.Denom], x.Amt)
			} else {
				out[x.Denom].Add(out[x.Denom], x.Amt)
			}
		}
		switch x.Status {
		case 1:
			wantBB[fmt.Sprintf("%d/%s", x.Expire, id)] = true
		case 2:
			wantLT[fmt.Sprintf("%d/%s", uint64(x.Closed)+c13Horizon, id)] = true
		case 3:
		default:
			return "status-valid", "invalid-status", fmt.Sprintf("swap %s status %d", id, x.Status)
		}
		dep := w.cfg.Assets[x.Denom].Deputy
		if x.Dir == 1 && x.Sender != dep {
			return "incoming-only-deputy", "incoming-swap-not-from-deputy", fmt.Sprintf("swap %s sender %d deputy %d", id, x.Sender, dep)
		}
		if x.Dir == 2 && (x.Sender == dep || x.Recip != dep) {
			return "outgoing-to-deputy", "outgoing-swap-roles", fmt.Sprintf("swap %s sender %d recipient %d deputy %d", id, x.Sender, x.Recip, dep)
		}
		if x.Dir != 1 && x.Dir != 2 {
			return "direction-valid", "invalid-direction", id
		}
		if x.Amt.Sign() <= 0 {
			return "amount-positive", "non-positive-swap-amount", id
		}
	}
	for i := 0; i < 2; i++ {
		a := w.cfg.Assets[i]
		sp := s.sup[i]
		// custody
		if !bigEq(s.bal[c13Mod][i], out[i]) {
			return "custody", "module-balance-differs-from-open-outgoing", fmt.Sprintf("%s: module account holds %s, outgoing swaps not yet closed sum to %s", c13Denoms[i], s.bal[c13Mod][i], out[i])
		}
		// counters
		if !bigEq(sp.Inc, inc[i]) {
			return "counter-incoming", "incoming-supply-differs-from-swaps", fmt.Sprintf("%s: incoming supply %s, live incoming swaps %s", c13Denoms[i], sp.Inc, inc[i])
		}
		if !bigEq(sp.Out, out[i]) {
			return "counter-outgoing", "outgoing-supply-differs-from-swaps", fmt.Sprintf("%s: outgoing supply %s, live outgoing swaps %s", c13Denoms[i], sp.Out, out[i])
		}
		wantCur := new(big.Int).Add(l.cur0[i], l.netClaimed[i])
		if !bigEq(sp.Cur, wantCur) {
			return "counter-current", "current-supply-differs-from-net-claimed", fmt.Sprintf("%s: current supply %s, genesis + net claimed %s", c13Denoms[i], sp.Cur, wantCur)
		}
		// limits
		tot := new(big.Int).Add(sp.Cur, sp.Inc)
		if tot.Cmp(big.NewInt(a.Limit)) > 0 {
			return "supply-limit", "current-plus-incoming-above-limit", fmt.Sprintf("%s: current %s + incoming %s > limit %d", c13Denoms[i], sp.Cur, sp.Inc, a.Limit)
		}
		if a.TimeLimited {
			tl := new(big.Int).Add(sp.TL, sp.Inc)
			if tl.Cmp(big.NewInt(a.TLimit)) > 0 {
				return "time-limit", "time-limited-supply-above-allowance", fmt.Sprintf("%s: time-limited current %s + incoming %s > allowance %d", c13Denoms[i], sp.TL, sp.Inc, a.TLimit)
			}
		}
		if sp.Out.Cmp(sp.Cur) > 0 || sp.Out.Sign() < 0 || sp.Inc.Sign() < 0 || sp.TL.Sign() < 0 {
			return "supply-sane", "supply-counter-out-of-range", fmt.Sprintf("%s: inc %s out %s cur %s tl %s", c13Denoms[i], sp.Inc, sp.Out, sp.Cur, sp.TL)
		}
	}
	// the pegged asset's bank supply moves with the current supply
	for d := 0; d < c13NDen; d++ {
		v := new(big.Int).Set(s.bsup[d])
		if d < 2 {
			v.Sub(v, s.sup[d].Cur)
		}
		if !bigEq(v, l.peg0[d]) {
			return "peg", "bank-supply-not-moving-with-current-supply", fmt.Sprintf("%s: bank supply %s", c13Denoms[d], s.bsup[d])
		}
	}
	if !bigEq(s.bal[c13Mod][2], big.NewInt(0)) {
		return "custody", "module-holds-unrelated-coins", s.bal[c13Mod][2].String()
	}
	// indexes, raw
	for e := range wantBB {
		if !s.bb[e] {
			return "index-by-block", "open-swap-missing-from-by-block-index", e
		}
	}
	for e := range s.bb {
		if !wantBB[e] {
			return "index-by-block", "stale-by-block-entry", e
		}
	}
	for e := range wantLT {
		if !s.lt[e] {
			return "index-long-term", "closed-swap-missing-from-long-term-index", e
		}
	}
	for e := range s.lt {
		if !wantLT[e] {
			return "index-long-term", "stale-long-term-entry", e
		}
	}
	return "", "", ""
}

// c13OpMonitor: the transition predicates of the property for one executed operation.
func c13OpMonitor(w *c13World, step int, op c13Op, cls Class, before, after *c13Snap, l *c13Ledger) (pred, sig, detail string) {
	if cls == ClassPanic {
		return "no-panic", "operation-panicked", op.Kind
	}
	if cls != ClassOk {
		if d := c13SnapEqual(before, after); d != "" {
			return "failed-op-no-change", "failed-op-changed-state", d
		}
		// completeness of the gates: the right secret on an open swap / a refund of an expired swap go through
		switch op.Kind {
		case "claim":
			if x, ok := before.swaps[op.ID]; ok && x.Status == 1 &&
				hex.EncodeToString(bep3types.CalculateRandomHash(unhex(op.Secret), x.Ts)) == x.Hash {
				return "claim-with-preimage-succeeds", "open-swap-claim-refused", op.ID
			}
		case "refund":
			if x, ok := before.swaps[op.ID]; ok && x.Status == 3 {
				return "refund-of-expired-succeeds", "expired-swap-refund-refused", op.ID
			}
		}
		return "", "", ""
	}
	// expected balance changes
	exp := make([][]*big.Int, c13NAcc)
	for a := range exp {
		exp[a] = make([]*big.Int, c13NDen)
		for d := range exp[a] {
			exp[a][d] = new(big.Int).Set(before.bal[a][d])
		}
	}
	expSup := make([]*big.Int, c13NDen)
	for d := range expSup {
		expSup[d] = new(big.Int).Set(before.bsup[d])
	}
	changed := map[string]bool{} // ids allowed to change
	switch op.Kind {
	case "create":
		if len(op.Coins) != 1 || op.Coins[0].D > 1 {
			return "create-one-supported-coin", "create-accepted-bad-coins", fmt.Sprint(op.Coins)
		}
		d := op.Coins[0].D
		a := w.cfg.Assets[d]
		amt, _ := new(big.Int).SetString(op.Coins[0].A, 10)
		id := c13SwapID(op.Hash, w.addrs[op.Sender], op.Soc)
		if _, dup := before.swaps[id]; dup {
			return "create-fresh-id", "duplicate-swap-id-accepted", id
		}
		x, ok := after.swaps[id]
		if !ok {
			return "create-stores-swap", "created-swap-not-stored", id
		}
		incoming := op.Sender == a.Deputy
		wantDir := 2
		if incoming {
			wantDir = 1
		}
		if uint64(before.height)+op.Span < uint64(before.height) {
			// an expiry height that wraps around uint64 (0 is refused by genesis validation: the
			// state could not be exported and re-imported; small values expire the swap at once)
			return "create-expiry-does-not-wrap", "create-accepted-with-wrapped-expiry", fmt.Sprintf("height %d + span %d wraps to %d", before.height, op.Span, x.Expire)
		}
		if x.Dir == 1 && !incoming {
			return "incoming-only-deputy", "non-deputy-created-incoming-swap", fmt.Sprintf("sender %d is not the deputy %d of %s", op.Sender, a.Deputy, c13Denoms[d])
		}
		if x.Status != 1 || x.Dir != wantDir || !bigEq(x.Amt, amt) || x.Denom != d || x.Sender != op.Sender || x.Recip != op.Recip ||
			x.Hash != op.Hash || x.Ts != op.Ts || x.Closed != 0 || x.Cross != op.Cross || x.Expire != uint64(before.height)+op.Span {
			return "create-record-matches-request", "created-swap-record-differs", fmt.Sprintf("%+v", *x)
		}
		if !a.Active {
			return "create-needs-active-asset", "create-accepted-inactive-asset", c13Denoms[d]
		}
		if amt.Cmp(big.NewInt(a.Min)) < 0 || amt.Cmp(big.NewInt(a.Max)) > 0 {
			return "create-amount-in-range", "create-accepted-amount-out-of-range", amt.String()
		}
		nowT := time.Unix(0, before.timeNs)
		if op.Ts < nowT.Add(-15*time.Minute).Unix() || op.Ts >= nowT.Add(30*time.Minute).Unix() {
			return "create-timestamp-in-window", "create-accepted-bad-timestamp", fmt.Sprint(op.Ts)
		}
		if op.Recip == c13Mod || op.Recip == c13OtherMod {
			return "create-recipient-not-module", "create-accepted-module-recipient", fmt.Sprint(op.Recip)
		}
		if incoming {
			if op.Recip == a.Deputy {
				return "create-deputy-not-both", "create-accepted-deputy-both", ""
			}
			// limit in force, checked on the request
			tot := new(big.Int).Add(before.sup[d].Cur, before.sup[d].Inc)
			tot.Add(tot, amt)
			if tot.Cmp(big.NewInt(a.Limit)) > 0 {
				return "supply-limit", "create-above-supply-limit-accepted", tot.String()
			}
		} else {
			if op.Recip != a.Deputy {
				return "incoming-only-deputy", "non-deputy-swap-without-deputy-recipient", fmt.Sprintf("sender %d recipient %d", op.Sender, op.Recip)
			}
			if op.Span < a.MinLock || op.Span > a.MaxLock {
				return "create-span-in-range", "create-accepted-span-out-of-range", fmt.Sprint(op.Span)
			}
			if amt.Cmp(big.NewInt(a.Fee+a.Min)) <= 0 {
				return "create-covers-fee", "create-accepted-amount-not-above-fee", amt.String()
			}
			av := new(big.Int).Sub(before.sup[d].Cur, before.sup[d].Out)
			if amt.Cmp(av) > 0 {
				return "create-within-available-supply", "outgoing-above-available-supply-accepted", amt.String()
			}
			exp[op.Sender][d].Sub(exp[op.Sender][d], amt)
			exp[c13Mod][d].Add(exp[c13Mod][d], amt)
		}
		changed[id] = true
		l.createdAt[id] = step
		delete(l.closedAt, id)
	case "claim", "refund":
		x, ok := before.swaps[op.ID]
		if !ok {
			return op.Kind + "-existing-swap", op.Kind + "-of-unknown-swap-accepted", op.ID
		}
		if at, paid := l.closedAt[op.ID]; paid {
			return "funds-move-once", "swap-paid-out-twice", fmt.Sprintf("swap %s was already paid out at step %d", op.ID, at)
		}
		y, ok := after.swaps[op.ID]
		if !ok || y.Status != 2 || y.Closed != before.height || !y.sameFixed(x) {
			return op.Kind + "-completes-swap", "closed-swap-record-wrong", op.ID
		}
		d := x.Denom
		if op.Kind == "claim" {
			if x.Status != 1 {
				return "claim-needs-open", "claim-of-non-open-swap-accepted", fmt.Sprintf("swap %s status %d", op.ID, x.Status)
			}
			if hex.EncodeToString(bep3types.CalculateRandomHash(unhex(op.Secret), x.Ts)) != x.Hash {
				return "claim-needs-preimage", "claim-without-preimage-accepted", op.ID
			}
			if x.Dir == 1 {
				exp[x.Recip][d].Add(exp[x.Recip][d], x.Amt)
				expSup[d].Add(expSup[d], x.Amt)
				l.netClaimed[d].Add(l.netClaimed[d], x.Amt)
			} else {
				exp[c13Mod][d].Sub(exp[c13Mod][d], x.Amt)
				expSup[d].Sub(expSup[d], x.Amt)
				l.netClaimed[d].Sub(l.netClaimed[d], x.Amt)
			}
		} else {
			if x.Status != 3 {
				return "refund-needs-expired", "refund-of-non-expired-swap-accepted", fmt.Sprintf("swap %s status %d", op.ID, x.Status)
			}
			if x.Expire > uint64(before.height) {
				return "refund-needs-expired", "refund-before-expiry-height", fmt.Sprintf("expire %d height %d", x.Expire, before.height)
			}
			if x.Dir == 2 {
				exp[c13Mod][d].Sub(exp[c13Mod][d], x.Amt)
				exp[x.Sender][d].Add(exp[x.Sender][d], x.Amt)
			}
		}
		changed[op.ID] = true
		l.closedAt[op.ID] = step
	case "block":
		for _, id := range before.ids {
			x := before.swaps[id]
			y, still := after.swaps[id]
			switch {
			case x.Status == 1 && x.Expire <= uint64(after.height):
				if !still || y.Status != 3 || y.Closed != x.Closed || !y.sameFixed(x) {
					return "expiry-by-height", "open-swap-not-expired-at-height", id
				}
			case x.Status == 2 && uint64(x.Closed)+c13Horizon <= uint64(after.height):
				if still {
					return "deletion-after-horizon", "closed-swap-not-deleted-after-horizon", id
				}
			default:
				if !still {
					return "lifecycle", "swap-deleted-early", fmt.Sprintf("swap %s status %d closed %d height %d", id, x.Status, x.Closed, after.height)
				}
				if !y.equal(x) {
					return "lifecycle", "swap-changed-by-block", fmt.Sprintf("swap %s status %d -> %d", id, x.Status, y.Status)
				}
			}
			changed[id] = true
		}
	}
	// the time-limited allowance within a period: the time-limited current supply grows by the
	// incoming claims of a time-limited asset and is reset, together with the elapsed time, by the
	// first block that completes the period (or at every block when the asset is not time-limited)
	for i := 0; i < 2; i++ {
		a := w.cfg.Assets[i]
		wantTL := new(big.Int).Set(before.sup[i].TL)
		wantEl := before.sup[i].Elapsed
		switch op.Kind {
		case "claim":
			if x := before.swaps[op.ID]; x.Denom == i && x.Dir == 1 && a.TimeLimited {
				wantTL.Add(wantTL, x.Amt)
			}
		case "block":
			ne := before.sup[i].Elapsed + (op.TimeNs - before.prev)
			if a.TimeLimited && ne < a.PeriodSec*1e9 {
				wantEl = ne
			} else {
				wantEl = 0
				wantTL.SetInt64(0)
			}
		}
		if !bigEq(wantTL, after.sup[i].TL) || wantEl != after.sup[i].Elapsed {
			return "time-limited-accounting", "time-limited-supply-accounting-wrong", fmt.Sprintf("%s %s: time-limited current supply %s (expected %s), elapsed %d (expected %d)", op.Kind, c13Denoms[i], after.sup[i].TL, wantTL, after.sup[i].Elapsed, wantEl)
		}
	}
	if op.Kind == "block" && after.prev != op.TimeNs {
		return "time-limited-accounting", "previous-block-time-not-recorded", fmt.Sprint(after.prev)
	}
	// nothing else in the swap table changed
	for _, id := range before.ids {
		if changed[id] {
			continue
		}
		y, ok := after.swaps[id]
		if !ok || !y.equal(before.swaps[id]) {
			return "lifecycle", "unrelated-swap-changed", id
		}
	}
	for _, id := range after.ids {
		if _, ok := before.swaps[id]; !ok && !changed[id] {
			return "lifecycle", "swap-appeared", id
		}
	}
	// exact movement of funds
	for a := 0; a < c13NAcc; a++ {
		for d := 0; d < c13NDen; d++ {
			if !bigEq(exp[a][d], after.bal[a][d]) {
				return "exact-fund-movement", "balance-delta-wrong", fmt.Sprintf("%s: account %d %s: expected %s got %s (before %s)", op.Kind, a, c13Denoms[d], exp[a][d], after.bal[a][d], before.bal[a][d])
			}
		}
	}
	for d := 0; d < c13NDen; d++ {
		if !bigEq(expSup[d], after.bsup[d]) {
			return "exact-fund-movement", "bank-supply-delta-wrong", fmt.Sprintf("%s %s: expected %s got %s", op.Kind, c13Denoms[d], expSup[d], after.bsup[d])
		}
	}
	return "", "", ""
}

// ------------------------------------------------------------ Coq rendering

type c13Intern struct {
	hashes  map[string]int // 1-based
	secrets map[string]int
	socs    map[string]int
	unknown map[string]int
	htab    map[string]string // "secret/ts" -> Coq entry
	hkeys   []string
	ids     map[string][3]int // swap id hex -> triple
}

func c13NewIntern() *c13Intern {
	return &c13Intern{hashes: map[string]int{}, secrets: map[string]int{}, socs: map[string]int{}, unknown: map[string]int{},
		htab: map[string]string{}, ids: map[string][3]int{}}
}

func internIn(m map[string]int, k string) int {
	if v, ok := m[k]; ok {
		return v
	}
	m[k] = len(m) + 1
	return m[k]
}

func (in *c13Intern) triple(w *c13World, hashHex string, sender int, soc string) [3]int {
	t := [3]int{internIn(in.hashes, hashHex), sender, internIn(in.socs, strings.ToLower(soc))}
	if sender < len(w.addrs) {
		in.ids[c13SwapID(hashHex, w.addrs[sender], soc)] = t
	}
	return t
}

func (in *c13Intern) idOf(idHex string) [3]int {
	if t, ok := in.ids[idHex]; ok {
		return t
	}
	return [3]int{4000 + internIn(in.unknown, idHex), 0, 0}
}

func coqID(t [3]int) string { return fmt.Sprintf("(%s, %s, %s)", Nat(t[0]), Nat(t[1]), Nat(t[2])) }

func (in *c13Intern) coqSwap(w *c13World, x *c13Swap) string {
	st := map[int]string{1: "Open", 2: "Completed", 3: "Expired"}[x.Status]
	dir := map[int]string{1: "Incoming", 2: "Outgoing"}[x.Dir]
	if st == "" || dir == "" {
		st, dir = "Open", "Incoming" // reported by the monitor; keep the term well-formed
	}
	t := in.triple(w, x.Hash, x.Sender, x.Soc)
	return fmt.Sprintf("(mkSwap %s %s %s %s %s %s %s %s %s %s %s %s 0%%nat)", Nat(x.Denom), Z(x.Amt), Nat(t[0]),
		Z(new(big.Int).SetUint64(x.Expire)), Zi(x.Ts), Nat(x.Sender), Nat(x.Recip), Nat(t[2]), Zi(x.Closed), st, Bool(x.Cross), dir)
}

func c13CoqSup(sp c13Sup) string {
	return fmt.Sprintf("(mkSup %s %s %s %s %s)", Z(sp.Inc), Z(sp.Out), Z(sp.Cur), Z(sp.TL), Zi(sp.Elapsed))
}

func (in *c13Intern) coqEntry(e string) string {
	parts := strings.SplitN(e, "/", 2)
	h, _ := new(big.Int).SetString(parts[0], 10)
	return fmt.Sprintf("(%s, %s)", Z(h), coqID(in.idOf(parts[1])))
}

func (in *c13Intern) coqOp(w *c13World, op c13Op, before *c13Snap) string {
	switch op.Kind {
	case "create":
		t := in.triple(w, op.Hash, op.Sender, op.Soc)
		cs := make([]string, len(op.Coins))
		for i, c := range op.Coins {
			a, _ := new(big.Int).SetString(c.A, 10)
			cs[i] = fmt.Sprintf("(%s, %s)", Nat(c.D), Z(a))
		}
		return fmt.Sprintf("Create %s %s %s %s %s %s %s %s", Nat(t[0]), Zi(op.Ts), Z(new(big.Int).SetUint64(op.Span)),
			Nat(op.Sender), Nat(op.Recip), Nat(t[2]), List(cs), Bool(op.Cross))
	case "claim":
		sec := internIn(in.secrets, op.Secret)
		if x, ok := before.swaps[op.ID]; ok {
			key := fmt.Sprintf("%d/%d", sec, x.Ts)
			if _, seen := in.htab[key]; !seen {
				h := hex.EncodeToString(bep3types.CalculateRandomHash(unhex(op.Secret), x.Ts))
				in.htab[key] = fmt.Sprintf("(%s, %s, %s)", Nat(sec), Zi(x.Ts), Nat(internIn(in.hashes, h)))
				in.hkeys = append(in.hkeys, key)
			}
		}
		return fmt.Sprintf("Claim %s %s %s", Nat(op.From), coqID(in.idOf(op.ID)), Nat(sec))
	case "refund":
		return fmt.Sprintf("Refund %s %s", Nat(op.From), coqID(in.idOf(op.ID)))
	default:
		return fmt.Sprintf("BeginBlock %s %s", Zi(op.Height), Zi(op.TimeNs))
	}
}

func sortedKeys(m map[string]bool) []string {
	ks := make([]string, 0, len(m))
	for k := range m {
		ks = append(ks, k)
	}
	sort.Strings(ks)
	return ks
}

func (in *c13Intern) coqObs(w *c13World, cls Class, before, after *c13Snap) string {
	var sw, bbAdd, bbDel, ltAdd, ltDel, su, bl, bs []string
	for _, id := range after.ids {
		x := after.swaps[id]
		if y, ok := before.swaps[id]; !ok || !y.equal(x) {
			t := in.triple(w, x.Hash, x.Sender, x.Soc)
			if x.Sender >= len(w.addrs) {
				t = in.idOf(id)
			}
			sw = append(sw, fmt.Sprintf("(%s, Some %s)", coqID(t), in.coqSwap(w, x)))
		}
	}
	for _, id := range before.ids {
		if _, ok := after.swaps[id]; !ok {
			sw = append(sw, fmt.Sprintf("(%s, None)", coqID(in.idOf(id))))
		}
	}
	for _, e := range sortedKeys(after.bb) {
		if !before.bb[e] {
			bbAdd = append(bbAdd, in.coqEntry(e))
		}
	}
	for _, e := range sortedKeys(before.bb) {
		if !after.bb[e] {
			bbDel = append(bbDel, in.coqEntry(e))
		}
	}
	for _, e := range sortedKeys(after.lt) {
		if !before.lt[e] {
			ltAdd = append(ltAdd, in.coqEntry(e))
		}
	}
	for _, e := range sortedKeys(before.lt) {
		if !after.lt[e] {
			ltDel = append(ltDel, in.coqEntry(e))
		}
	}
	for i := 0; i < 2; i++ {
		a, b := before.sup[i], after.sup[i]
		if !bigEq(a.Inc, b.Inc) || !bigEq(a.Out, b.Out) || !bigEq(a.Cur, b.Cur) || !bigEq(a.TL, b.TL) || a.Elapsed != b.Elapsed {
			su = append(su, fmt.Sprintf("(%s, %s)", Nat(i), c13CoqSup(b)))
		}
	}
	for a := 0; a < c13NAcc; a++ {
		for d := 0; d < c13NDen; d++ {
			if !bigEq(before.bal[a][d], after.bal[a][d]) {
				bl = append(bl, fmt.Sprintf("(%s, %s, %s)", Nat(a), Nat(d), Z(after.bal[a][d])))
			}
		}
	}
	for d := 0; d < c13NDen; d++ {
		if !bigEq(before.bsup[d], after.bsup[d]) {
			bs = append(bs, fmt.Sprintf("(%s, %s)", Nat(d), Z(after.bsup[d])))
		}
	}
	return fmt.Sprintf("mkObs %s %s %s %s %s %s %s %s %s %s", cls.Coq(), List(sw), List(bbAdd), List(bbDel), List(ltAdd), List(ltDel),
		List(su), List(bl), List(bs), Zi(after.prev))
}

func (in *c13Intern) coqHeader(w *c13World, s0 *c13Snap) string {
	macc := make([]bool, c13NAcc)
	blk := make([]bool, c13NAcc)
	bk := w.tApp.GetBankKeeper()
	for a := 0; a < c13NAcc; a++ {
		macc[a] = w.k.Maccs[w.addrs[a].String()]
		blk[a] = bk.BlockedAddr(w.addrs[a])
	}
	var assets []string
	for i := 0; i < 2; i++ {
		a := w.cfg.Assets[i]
		assets = append(assets, fmt.Sprintf("mkAsset %s %s %s %s %s %s %s %s %s %s %s %s", Nat(i), Zi(a.Limit), Bool(a.TimeLimited),
			Zi(a.PeriodSec*1e9), Zi(a.TLimit), Bool(a.Active), Nat(a.Deputy), Zi(a.Fee), Zi(a.Min), Zi(a.Max),
			Z(new(big.Int).SetUint64(a.MinLock)), Z(new(big.Int).SetUint64(a.MaxLock))))
	}
	var hs []string
	for _, k := range in.hkeys {
		hs = append(hs, in.htab[k])
	}
	cur0 := []*big.Int{s0.sup[0].Cur, s0.sup[1].Cur, big.NewInt(0)}
	env := fmt.Sprintf("(mk_env %s %s %s %s %s\n   %s\n   %s %s %s)", Nat(c13NAcc), Nat(c13NDen), Nat(c13Mod), BoolList(macc), BoolList(blk),
		List(assets), List(hs), ZList(cur0), ZList(s0.bsup))
	brows := make([]string, c13NAcc)
	for a := 0; a < c13NAcc; a++ {
		brows[a] = ZList(s0.bal[a])
	}
	st := fmt.Sprintf("(mk_state %s %s %s %s %s %s)", Zi(s0.height), Zi(s0.timeNs), Zi(s0.prev),
		List([]string{c13CoqSup(s0.sup[0]), c13CoqSup(s0.sup[1])}), List(brows), ZList(s0.bsup))
	return env + "\n  " + st
}

// ------------------------------------------------------------ history runner

type c13Hist struct {
	Seed uint64  `json:"seed"`
	Idx  int     `json:"history"`
	Cfg  c13Cfg  `json:"cfg"`
	Ops  []c13Op `json:"ops"`
}

type c13Out struct {
	cfg    c13Cfg
	ops    []c13Op
	coq    string
	fail   *Failure
	okOps  int
	splits map[string]bool
}

func c13ErrKind(err error) string {
	if err == nil {
		return "none"
	}
	kinds := []struct {
		e error
		k string
	}{
		{bep3types.ErrAtomicSwapAlreadyExists, "swap-exists"}, {bep3types.ErrInvalidAmount, "amount-range"},
		{bep3types.ErrInvalidTimestamp, "timestamp"}, {bep3types.ErrInvalidSwapAccount, "swap-account"},
		{bep3types.ErrInvalidHeightSpan, "height-span"}, {bep3types.ErrInsufficientAmount, "fee"},
		{bep3types.ErrExceedsSupplyLimit, "supply-limit"}, {bep3types.ErrExceedsTimeBasedSupplyLimit, "time-limit"},
		{bep3types.ErrExceedsAvailableSupply, "available-supply"}, {bep3types.ErrAtomicSwapNotFound, "not-found"},
		{bep3types.ErrSwapNotClaimable, "not-claimable"}, {bep3types.ErrInvalidClaimSecret, "wrong-secret"},
		{bep3types.ErrSwapNotRefundable, "not-refundable"}, {bep3types.ErrAssetNotSupported, "asset-unsupported"},
		{bep3types.ErrAssetNotActive, "asset-inactive"},
	}
	for _, k := range kinds {
		if errors.Is(err, k.e) {
			return k.k
		}
	}
	m := err.Error()
	switch {
	case strings.Contains(m, "insufficient funds") || strings.Contains(m, "is smaller than"):
		return "insufficient-funds"
	case strings.Contains(m, "module account"):
		return "module-recipient"
	case strings.Contains(m, "exactly one coin"):
		return "coins-shape"
	}
	return "other"
}

var c13AllSplits = []string{
	"create:incoming", "create:outgoing", "claim:incoming", "claim:outgoing", "refund:incoming", "refund:outgoing",
	"block:expired>=1", "block:expired>=2", "block:deleted>=1", "block:tl-reset", "block:tl-accumulate",
	"create:incoming:exactly-at-limit", "create:incoming:exactly-at-time-limit", "create:outgoing:exactly-available",
	"create:outgoing:whole-balance", "err:insufficient-funds",
	"err:supply-limit", "err:time-limit", "err:available-supply", "err:wrong-secret", "err:not-claimable", "err:not-refundable",
	"err:swap-exists", "err:fee", "err:amount-range", "err:timestamp", "err:height-span", "err:swap-account",
	"race:claim-refused-at-expiry-block", "race:refund-same-block-as-expiry", "race:claim-last-block-before-expiry",
	"id-reused-after-deletion", "span-wrap-refused",
}

func c13Splits(w *c13World, step int, op c13Op, cls Class, err error, before, after *c13Snap, l *c13Ledger, lastBlockStep int, expiredAtLastBlock map[string]bool, everDeleted map[string]bool, mark func(string)) {
	if cls == ClassErr {
		k := c13ErrKind(err)
		mark("err:" + k)
		if op.Kind == "create" && uint64(before.height)+op.Span < uint64(before.height) {
			mark("span-wrap-refused")
		}
		if op.Kind == "claim" && k == "not-claimable" && expiredAtLastBlock[op.ID] {
			mark("race:claim-refused-at-expiry-block")
		}
		return
	}
	if cls != ClassOk {
		return
	}
	switch op.Kind {
	case "create":
		d := op.Coins[0].D
		a := w.cfg.Assets[d]
		amt, _ := new(big.Int).SetString(op.Coins[0].A, 10)
		id := c13SwapID(op.Hash, w.addrs[op.Sender], op.Soc)
		if everDeleted[id] {
			mark("id-reused-after-deletion")
		}
		if op.Sender == a.Deputy {
			mark("create:incoming")
			tot := new(big.Int).Add(after.sup[d].Cur, after.sup[d].Inc)
			if tot.Cmp(big.NewInt(a.Limit)) == 0 {
				mark("create:incoming:exactly-at-limit")
			}
			tl := new(big.Int).Add(after.sup[d].TL, after.sup[d].Inc)
			if a.TimeLimited && tl.Cmp(big.NewInt(a.TLimit)) == 0 {
				mark("create:incoming:exactly-at-time-limit")
			}
		} else {
			mark("create:outgoing")
			if after.sup[d].Cur.Cmp(after.sup[d].Out) == 0 {
				mark("create:outgoing:exactly-available")
			}
			if after.bal[op.Sender][d].Sign() == 0 {
				mark("create:outgoing:whole-balance")
			}
		}
		_ = amt
	case "claim":
		x := before.swaps[op.ID]
		if x == nil { // a claim reported successful for a swap that does not exist: left to the monitors
			break
		}
		if x.Dir == 1 {
			mark("claim:incoming")
		} else {
			mark("claim:outgoing")
		}
		if x.Expire == uint64(before.height)+1 {
			mark("race:claim-last-block-before-expiry")
		}
	case "refund":
		x := before.swaps[op.ID]
		if x == nil {
			break
		}
		if x.Dir == 1 {
			mark("refund:incoming")
		} else {
			mark("refund:outgoing")
		}
		if expiredAtLastBlock[op.ID] {
			mark("race:refund-same-block-as-expiry")
		}
	case "block":
		nexp, ndel := 0, 0
		for _, id := range before.ids {
			x := before.swaps[id]
			y, ok := after.swaps[id]
			if !ok {
				ndel++
				everDeleted[id] = true
			} else if x.Status == 1 && y.Status == 3 {
				nexp++
			}
		}
		if nexp >= 1 {
			mark("block:expired>=1")
		}
		if nexp >= 2 {
			mark("block:expired>=2")
		}
		if ndel >= 1 {
			mark("block:deleted>=1")
		}
		for i := 0; i < 2; i++ {
			if w.cfg.Assets[i].TimeLimited {
				if after.sup[i].Elapsed == 0 && (before.sup[i].Elapsed > 0 || before.sup[i].TL.Sign() > 0) {
					mark("block:tl-reset")
				}
				if after.sup[i].Elapsed > before.sup[i].Elapsed {
					mark("block:tl-accumulate")
				}
			}
		}
	}
}

// c13Run executes either generated (ops == nil) or explicit operations on a
// fresh app and returns what was executed, the Coq term and the first monitor failure.
func c13Run(seed uint64, idx, n int, cfg *c13Cfg, ops []c13Op, cnt *Counters) c13Out {
	r := NewRng(seed, uint64(idx))
	var c c13Cfg
	if cfg != nil {
		c = *cfg
	} else {
		c = c13GenCfg(r)
	}
	w := c13Setup(c)
	g := &c13Gen{r: r, known: map[string]c13Known{}, okCreates: map[string]c13Op{}, socs: []string{"0xAbCd01", "0xabcd01", "bnb1deputy", "bnb1user"}}
	in := c13NewIntern()
	out := c13Out{cfg: c, splits: map[string]bool{}}
	prev := w.snap()
	s0 := prev
	led := c13NewLedger(prev)
	var steps []string
	if ops != nil {
		n = len(ops)
	}
	mark := func(k string) {
		out.splits[k] = true
		if cnt != nil {
			cnt.Inc("split:" + k)
		}
	}
	if pred, sig, detail := c13StateMonitor(w, prev, led); pred != "" {
		out.fail = &Failure{History: idx, Step: -1, Predicate: pred, Signature: "initial-state:" + sig, Detail: detail}
	}
	expiredAtLastBlock := map[string]bool{}
	everDeleted := map[string]bool{}
	for i := 0; i < n; i++ {
		var op c13Op
		if ops != nil {
			op = ops[i]
		} else {
			op = g.gen(w, prev, cnt)
			op.Msg = (idx+i)%2 == 1 && c13FormatOK(op)
			if op.Msg && op.Kind == "create" {
				op.Cross = true // the msg server always passes crossChain = true
			}
		}
		coqOp := in.coqOp(w, op, prev)
		cls, err := w.exec(op)
		if op.Msg && cnt != nil {
			cnt.Inc("msg:" + op.Kind + ":" + cls.String())
			if !c13MsgValid(op) {
				cnt.Inc("msg:refused-by-validate-basic")
			}
		}
		after := w.snap()
		out.ops = append(out.ops, op)
		if cnt != nil {
			cnt.Inc("op:" + op.Kind + ":" + cls.String())
			if op.Note != "" {
				cnt.Inc("gen:" + op.Note + ":" + cls.String())
			}
		}
		if cls == ClassOk {
			out.okOps++
			switch op.Kind {
			case "create":
				g.okCreates[c13SwapID(op.Hash, w.addrs[op.Sender], op.Soc)] = op
			case "block":
				for _, id := range prev.ids {
					if _, still := after.swaps[id]; !still {
						if old, ok := g.okCreates[id]; ok {
							g.deleted = append(g.deleted, old)
						}
					}
				}
			}
		}
		c13Splits(w, i, op, cls, err, prev, after, led, 0, expiredAtLastBlock, everDeleted, mark)
		if op.Kind == "block" && cls == ClassOk {
			expiredAtLastBlock = map[string]bool{}
			for _, id := range prev.ids {
				if y, ok := after.swaps[id]; ok && prev.swaps[id].Status == 1 && y.Status == 3 {
					expiredAtLastBlock[id] = true
				}
			}
		}
		steps = append(steps, fmt.Sprintf("(%s, %s,\n    %s)", Bool(op.Msg), coqOp, in.coqObs(w, cls, prev, after)))
		if out.fail == nil {
			pred, sig, detail := c13OpMonitor(w, i, op, cls, prev, after, led)
			if pred == "" && op.Msg && !c13MsgValid(op) && cls == ClassOk {
				pred, sig, detail = "message-glue-refuses-malformed-swaps", "create-accepted-against-validate-basic", fmt.Sprintf("span %d timestamp %d coins %v", op.Span, op.Ts, op.Coins)
			}
			if pred == "" {
				pred, sig, detail = c13StateMonitor(w, after, led)
			}
			if pred != "" {
				out.fail = &Failure{History: idx, Step: i, Predicate: pred, Signature: sig, Detail: detail}
			}
		}
		prev = after
	}
	out.coq = fmt.Sprintf("mkMHist %s\n  %s", in.coqHeader(w, s0), List(steps))
	return out
}

func runC13(o Opts) (*Result, error) {
	n := o.Len
	if n == 0 {
		n = c13DefaultL
	}
	res := &Result{Property: "C13", Seed: o.Seed,
		Rule: "histories of " + fmt.Sprint(n) + " bep3 keeper calls (create/claim/refund/begin-block) generated from splitmix64(seed, history index) on a fresh app.TestApp with PRNG-chosen asset parameters; a history is non-trivial when it contains at least one successful claim or refund and one begin-block that expired or deleted a swap; distinct by hash of configuration and operation list"}
	cnt := NewCounters()

	if o.Replay != "" {
		bz, err := os.ReadFile(o.Replay)
		if err != nil {
			return nil, err
		}
		var h c13Hist
		if err := json.Unmarshal(bz, &h); err != nil {
			return nil, err
		}
		ot := c13Run(h.Seed, h.Idx, 0, &h.Cfg, h.Ops, cnt)
		name, err := WriteShard(o.OutDir, 0, c13Header, []string{ot.coq}, "mismatches_m")
		if err != nil {
			return nil, err
		}
		res.Shards = []string{name}
		res.HistIndex = []HistRef{{0, 0, h.Idx, MustJSON(h)}}
		res.Histories, res.Evaluations = 1, len(h.Ops)
		if ot.fail != nil {
			ot.fail.Replay = MustJSON(h)
			res.Failures = append(res.Failures, *ot.fail)
		}
		res.Counters = cnt.Map()
		return res, nil
	}

	outs := make([]c13Out, o.N)
	ParallelFor(o.N, o.Workers, func(i int) {
		ot := c13Run(o.Seed, i, n, nil, nil, cnt)
		if ot.fail != nil {
			sig := ot.fail.Signature
			cfg := ot.cfg
			fails := func(cand []c13Op) bool {
				f := c13Run(o.Seed, i, 0, &cfg, cand, nil).fail
				return f != nil && f.Signature == sig
			}
			upto := ot.fail.Step + 1
			if upto < 0 {
				upto = 0
			}
			small := Shrink(ot.ops[:upto], fails)
			f2 := c13Run(o.Seed, i, 0, &cfg, small, nil).fail
			if f2 != nil && f2.Signature == sig {
				f2.History = i
				f2.Replay = MustJSON(c13Hist{o.Seed, i, cfg, small})
				ot.fail = f2
			} else {
				ot.fail.Replay = MustJSON(c13Hist{o.Seed, i, cfg, ot.ops[:upto]})
			}
		}
		outs[i] = ot
	})

	seen := map[string]bool{}
	perShard := 30
	var cases []string
	shard := 0
	flush := func() error {
		if len(cases) == 0 {
			return nil
		}
		name, err := WriteShard(o.OutDir, shard, c13Header, cases, "mismatches_m")
		if err != nil {
			return err
		}
		res.Shards = append(res.Shards, name)
		shard++
		cases = nil
		return nil
	}
	okTotal := 0
	for i, ot := range outs {
		res.Histories++
		res.Evaluations += len(ot.ops)
		okTotal += ot.okOps
		h := c13Hist{o.Seed, i, ot.cfg, ot.ops}
		key := string(MustJSON(h.Cfg)) + string(MustJSON(ot.ops))
		paid := ot.splits["claim:incoming"] || ot.splits["claim:outgoing"] || ot.splits["refund:incoming"] || ot.splits["refund:outgoing"]
		blk := ot.splits["block:expired>=1"] || ot.splits["block:deleted>=1"]
		if paid && blk && !seen[key] {
			seen[key] = true
			res.DistinctNontrivial++
		}
		if i < 2 {
			res.Samples = append(res.Samples, h)
		}
		res.HistIndex = append(res.HistIndex, HistRef{shard, len(cases), i, MustJSON(h)})
		cases = append(cases, ot.coq)
		if len(cases) == perShard {
			if err := flush(); err != nil {
				return nil, err
			}
		}
		if ot.fail != nil {
			res.Failures = append(res.Failures, *ot.fail)
		}
	}
	if err := flush(); err != nil {
		return nil, err
	}
	res.Counters = cnt.Map()
	for _, k := range c13AllSplits {
		if res.Counters["split:"+k] == 0 {
			res.QualityGate = append(res.QualityGate, k)
		}
	}
	res.Extra = map[string]any{"ok_fraction": float64(okTotal) / float64(maxInt(1, res.Evaluations))}
	return res, nil
}

func maxInt(a, b int) int {
	if a > b {
		return a
	}
	return b
}
