package c13

// Genesis re-import histories for the C14a component of C14 (added for C14a; the
// C13 driver does not use this file): ordinary C13 histories with in-place
// re-imports of the x/bep3 genesis at PRNG-chosen points,
//
//	gs := bep3.ExportGenesis(branch of ctx); gs.Validate(); JSON round trip;
//	delete every key of the bep3 KV store; bep3.InitGenesis(ctx, k, accountKeeper, &gs)
//
// on the real keeper.  Swap ids are hashes, so the order in which the export
// lists the swaps (swap-store order) is recorded and handed to the model
// (Model/GenesisBep3.v, operation GReimport order).

import (
	. "kavaverif/lib"

	"bytes"
	"encoding/hex"
	"encoding/json"
	"fmt"
	"strings"
	"time"

	sdk "github.com/cosmos/cosmos-sdk/types"

	"github.com/kava-labs/kava/x/bep3"
	bep3types "github.com/kava-labs/kava/x/bep3/types"
)

const GenesisHeader = "From Kava Require Import Base.Prelude Model.Bep3 Model.GenesisBep3."

type GenesisHist struct {
	Part string  `json:"part"`
	Seed uint64  `json:"seed"`
	Idx  int     `json:"history"`
	Cfg  c13Cfg  `json:"cfg"`
	Ops  []c13Op `json:"ops"`
}

func (w *c13World) reimport(cnt *Counters) (cls Class, pred, sig, detail string) {
	key := w.tApp.GetKVStoreKey(bep3types.StoreKey)
	cdc := w.tApp.AppCodec()
	stage := "export"
	set := func(p, s, d string) {
		if pred == "" {
			pred, sig, detail = p, s, d
		}
	}
	cls, err := Atomically(w.ctx, func(ctx sdk.Context) error {
		bctx, _ := ctx.CacheContext()
		gs := bep3.ExportGenesis(bctx, w.k)
		exported := DumpStore(bctx, key)
		stage = "validate"
		if e := gs.Validate(); e != nil {
			set("bep3-exported-genesis-validates", "bep3-export-fails-validation", e.Error())
		}
		stage = "json"
		bz := cdc.MustMarshalJSON(&gs)
		var gs2 bep3types.GenesisState
		cdc.MustUnmarshalJSON(bz, &gs2)
		stage = "import"
		WipeStore(ctx, key)
		bep3.InitGenesis(ctx, w.k, w.tApp.GetAccountKeeper(), &gs2)
		stage = "compare"
		if d := DiffDumps(exported, DumpStore(ctx, key), nil); len(d) > 0 {
			set("bep3-store-identical-after-reimport", "bep3-store-differs-after-reimport", strings.Join(d, "; "))
		}
		b2, _ := ctx.CacheContext()
		gs3 := bep3.ExportGenesis(b2, w.k)
		if bz3 := cdc.MustMarshalJSON(&gs3); !bytes.Equal(bz, bz3) {
			set("bep3-reexport-identical", "bep3-reexport-differs", fmt.Sprintf("first export %d bytes, re-export %d bytes", len(bz), len(bz3)))
		}
		return nil
	})
	if cnt != nil {
		cnt.Inc("bep3/reimport:" + cls.String())
	}
	if cls != ClassOk {
		return cls, "bep3-reimport-does-not-panic", "bep3-reimport-panics-at-" + stage, fmt.Sprint(err)
	}
	return cls, pred, sig, detail
}

// ------------------------------------------------------------ probes: perturbed genesis files

var genesisMutations = []string{
	"none", "supply-incoming-changed", "supply-outgoing-changed", "supply-current-over-limit", "supply-current-negative",
	"supply-tl-negative", "drop-supply", "dup-supply", "supply-unknown-denom", "supply-current-plus-incoming-over-limit",
	"swap-status-expired", "swap-status-completed-no-closed", "swap-status-completed", "swap-status-open", "swap-expire-zero",
	"swap-ts-zero", "swap-amount-zero", "swap-amount-negative", "swap-amount-changed", "dup-swap", "drop-swap",
	"swap-direction-flipped", "swap-denom-unsupported", "prev-time-zero", "swap-closed-changed",
}

func genesisMutate(w *c13World, gs *bep3types.GenesisState, mut string, i int) {
	ns, np := len(gs.AtomicSwaps), len(gs.Supplies)
	coin := func(c sdk.Coin, amt int64) sdk.Coin { return sdk.Coin{Denom: c.Denom, Amount: sdk.NewInt(amt)} }
	switch mut {
	case "supply-incoming-changed":
		if np > 0 {
			gs.Supplies[i%np].IncomingSupply.Amount = gs.Supplies[i%np].IncomingSupply.Amount.AddRaw(1)
		}
	case "supply-outgoing-changed":
		if np > 0 {
			gs.Supplies[i%np].OutgoingSupply.Amount = gs.Supplies[i%np].OutgoingSupply.Amount.AddRaw(1)
		}
	case "supply-current-over-limit":
		if np > 0 {
			gs.Supplies[i%np].CurrentSupply.Amount = sdk.NewInt(w.cfg.Assets[c13DenomIndex(gs.Supplies[i%np].GetDenom())%2].Limit + 1)
		}
	case "supply-current-plus-incoming-over-limit":
		// current <= limit and incoming consistent with the swaps, but incoming + current = limit + 1
		if np > 0 && gs.Supplies[i%np].IncomingSupply.Amount.IsPositive() {
			lim := sdk.NewInt(w.cfg.Assets[c13DenomIndex(gs.Supplies[i%np].GetDenom())%2].Limit)
			gs.Supplies[i%np].CurrentSupply.Amount = lim.Sub(gs.Supplies[i%np].IncomingSupply.Amount).AddRaw(1)
		}
	case "supply-current-negative":
		if np > 0 {
			gs.Supplies[i%np].CurrentSupply = coin(gs.Supplies[i%np].CurrentSupply, -1)
		}
	case "supply-tl-negative":
		if np > 0 {
			gs.Supplies[i%np].TimeLimitedCurrentSupply = coin(gs.Supplies[i%np].TimeLimitedCurrentSupply, -1)
		}
	case "drop-supply":
		if np > 0 {
			gs.Supplies = append(append(bep3types.AssetSupplies{}, gs.Supplies[:i%np]...), gs.Supplies[i%np+1:]...)
		}
	case "dup-supply":
		if np > 0 {
			gs.Supplies = append(gs.Supplies, gs.Supplies[i%np])
		}
	case "supply-unknown-denom":
		if np > 0 {
			sp := &gs.Supplies[i%np]
			sp.IncomingSupply.Denom, sp.OutgoingSupply.Denom, sp.CurrentSupply.Denom, sp.TimeLimitedCurrentSupply.Denom = "ukava", "ukava", "ukava", "ukava"
		}
	case "prev-time-zero":
		gs.PreviousBlockTime = time.Unix(0, 0).UTC()
	}
	if ns == 0 {
		return
	}
	sw := &gs.AtomicSwaps[i%ns]
	switch mut {
	case "swap-status-expired":
		sw.Status = bep3types.SWAP_STATUS_EXPIRED
	case "swap-status-completed-no-closed":
		sw.Status, sw.ClosedBlock = bep3types.SWAP_STATUS_COMPLETED, 0
	case "swap-status-completed":
		sw.Status, sw.ClosedBlock = bep3types.SWAP_STATUS_COMPLETED, 5
	case "swap-status-open":
		sw.Status = bep3types.SWAP_STATUS_OPEN
	case "swap-expire-zero":
		sw.ExpireHeight = 0
	case "swap-ts-zero":
		sw.Timestamp = 0
	case "swap-amount-zero":
		sw.Amount = sdk.Coins{coin(sw.Amount[0], 0)}
	case "swap-amount-negative":
		sw.Amount = sdk.Coins{coin(sw.Amount[0], -3)}
	case "swap-amount-changed":
		sw.Amount = sdk.Coins{sdk.Coin{Denom: sw.Amount[0].Denom, Amount: sw.Amount[0].Amount.AddRaw(1)}}
	case "dup-swap":
		gs.AtomicSwaps = append(gs.AtomicSwaps, *sw)
	case "drop-swap":
		gs.AtomicSwaps = append(append(bep3types.AtomicSwaps{}, gs.AtomicSwaps[:i%ns]...), gs.AtomicSwaps[i%ns+1:]...)
	case "swap-direction-flipped":
		if sw.Direction == bep3types.SWAP_DIRECTION_INCOMING {
			sw.Direction = bep3types.SWAP_DIRECTION_OUTGOING
		} else {
			sw.Direction = bep3types.SWAP_DIRECTION_INCOMING
		}
	case "swap-denom-unsupported":
		sw.Amount = sdk.Coins{sdk.Coin{Denom: "ukava", Amount: sw.Amount[0].Amount}}
	case "swap-closed-changed":
		sw.ClosedBlock += 7
	}
}

func (w *c13World) swapRec(sw bep3types.AtomicSwap) *c13Swap {
	rec := &c13Swap{ID: hex.EncodeToString(sw.GetSwapID()), Hash: hex.EncodeToString(sw.RandomNumberHash), Expire: sw.ExpireHeight,
		Ts: sw.Timestamp, Sender: w.addrIndex(sw.Sender), Recip: w.addrIndex(sw.Recipient),
		Soc: strings.ToLower(sw.SenderOtherChain), Closed: sw.ClosedBlock, Status: int(sw.Status), Cross: sw.CrossChain, Dir: int(sw.Direction)}
	rec.Denom = c13DenomIndex(sw.Amount[0].Denom)
	rec.Amt = sw.Amount[0].Amount.BigInt()
	return rec
}

// probe: export on a discarded branch, perturb one field, real Validate, real InitGenesis (empty bep3
// store, discarded branch, recover); rendered for Model/GenesisBep3.v with both verdicts
func (w *c13World) probe(in *c13Intern, mut string, i int, cnt *Counters) (coq, pred, sig, detail string) {
	key := w.tApp.GetKVStoreKey(bep3types.StoreKey)
	bctx, _ := w.ctx.CacheContext()
	gs := bep3.ExportGenesis(bctx, w.k)
	gs.AtomicSwaps = append(bep3types.AtomicSwaps{}, gs.AtomicSwaps...)
	gs.Supplies = append(bep3types.AssetSupplies{}, gs.Supplies...)
	nSwap, nSup := len(gs.AtomicSwaps), len(gs.Supplies)
	genesisMutate(w, &gs, mut, i)
	valid := gs.Validate() == nil
	cls := ClassOk
	func() {
		defer func() {
			if r := recover(); r != nil {
				cls = ClassPanic
			}
		}()
		ictx, _ := w.ctx.CacheContext()
		WipeStore(ictx, key)
		bep3.InitGenesis(ictx, w.k, w.tApp.GetAccountKeeper(), &gs)
	}()
	if cnt != nil {
		cnt.Inc(fmt.Sprintf("bep3/probe:%s:valid=%v:init=%s", mut, valid, cls))
	}
	var sws, sups []string
	for _, sw := range gs.AtomicSwaps {
		sws = append(sws, in.coqSwap(w, w.swapRec(sw)))
	}
	for _, sp := range gs.Supplies {
		sups = append(sups, fmt.Sprintf("(%s, %s)", Nat(c13DenomIndex(sp.GetDenom())), c13CoqSup(c13Sup{sp.IncomingSupply.Amount.BigInt(),
			sp.OutgoingSupply.Amount.BigInt(), sp.CurrentSupply.Amount.BigInt(), sp.TimeLimitedCurrentSupply.Amount.BigInt(), int64(sp.TimeElapsed)})))
	}
	if mut == "supply-current-plus-incoming-over-limit" && nSup > 0 {
		sp := gs.Supplies[i%nSup]
		lim := w.cfg.Assets[c13DenomIndex(sp.GetDenom())%2].Limit
		if sp.IncomingSupply.Amount.IsPositive() && sp.IncomingSupply.Amount.Add(sp.CurrentSupply.Amount).Int64() == lim+1 && (!valid || cls == ClassOk) {
			pred, sig = "bep3-genesis-verdicts:"+mut, "bep3-probe-verdict-"+mut
			detail = fmt.Sprintf("perturbation %s (index %d): incoming + current supply = limit + 1: Validate passes=%v (expected true), InitGenesis ok=%v (expected false)", mut, i, valid, cls == ClassOk)
		}
	}
	if want, ok := genesisExpect[mut]; ok && (mut == "none" || mut == "prev-time-zero" || (strings.HasPrefix(mut, "sup") || strings.HasPrefix(mut, "dup-sup") || strings.HasPrefix(mut, "drop-sup")) && nSup > 0 ||
		(strings.Contains(mut, "swap")) && nSwap > 0) && (want[0] != valid || want[1] != (cls == ClassOk)) {
		pred, sig = "bep3-genesis-verdicts:"+mut, "bep3-probe-verdict-"+mut
		detail = fmt.Sprintf("perturbation %s (index %d) of the exported genesis: Validate passes=%v (expected %v), InitGenesis ok=%v (expected %v)", mut, i, valid, want[0], cls == ClassOk, want[1])
	}
	genCoq := fmt.Sprintf("(mkGen %s %s %s)", List(sws), List(sups), Zi(gs.PreviousBlockTime.UnixNano()))
	// stated on the implementation alone: a genesis state GenesisState.Validate refuses is never imported
	if !valid && cls == ClassOk {
		pred, sig = "invalid-genesis-imported:bep3:"+mut, "invalid-genesis-imported:bep3:"+mut
		detail = fmt.Sprintf("GenesisState.Validate refuses this genesis state (perturbation %s, index %d, of a real export) but InitGenesis on an emptied store imports it: %s", mut, i, genCoq)
	}
	return fmt.Sprintf("GProbe %s %s %s", genCoq, Bool(valid), cls.Coq()), pred, sig, detail
}

// genesisExpect: what GenesisState.Validate / InitGenesis must say about a perturbed export (validate passes, init
// ok), stated independently of the model, for the perturbations whose verdict does not depend on the state
var genesisExpect = map[string][2]bool{
	"none": {true, true}, "prev-time-zero": {true, true}, "dup-supply": {false, false}, "supply-current-negative": {false, false},
	"supply-tl-negative": {false, false}, "supply-incoming-changed": {true, false}, "supply-outgoing-changed": {true, false},
	"supply-current-over-limit": {true, false}, "supply-unknown-denom": {true, false},
	"dup-swap": {false, false}, "swap-expire-zero": {false, false}, "swap-ts-zero": {false, false}, "swap-amount-zero": {false, false},
	"swap-amount-negative": {false, false}, "swap-status-completed-no-closed": {false, false}, "swap-denom-unsupported": {true, false},
	"swap-closed-changed": {true, true},
}

// exportValidates: the monitor "every reachable state exports a genesis that passes validation"
func (w *c13World) exportValidates() (pred, sig, detail string) {
	func() {
		defer func() {
			if r := recover(); r != nil {
				pred, sig, detail = "bep3-export-does-not-panic", "bep3-export-panics", fmt.Sprint(r)
			}
		}()
		bctx, _ := w.ctx.CacheContext()
		gs := bep3.ExportGenesis(bctx, w.k)
		if e := gs.Validate(); e != nil {
			pred, sig, detail = "bep3-exported-genesis-validates", "bep3-export-fails-validation", e.Error()
		}
	}()
	return
}

// GenesisRun executes generated (ops == nil) or explicit operations on a fresh world.
func GenesisRun(seed uint64, idx, n int, cfg *c13Cfg, ops []c13Op, cnt *Counters) (GenesisPartOut, c13Cfg, []c13Op) {
	r := NewRng(seed, uint64(idx)+3_000_000)
	var c c13Cfg
	if cfg != nil {
		c = *cfg
	} else {
		c = c13GenCfg(r)
	}
	w := c13Setup(c)
	g := &c13Gen{r: r, known: map[string]c13Known{}, okCreates: map[string]c13Op{}, socs: []string{"0xAbCd01", "0xabcd01", "bnb1deputy", "bnb1user"}}
	in := c13NewIntern()
	out := GenesisPartOut{}
	prev := w.snap()
	s0 := prev
	led := c13NewLedger(prev)
	var steps []string
	var done []c13Op
	if ops != nil {
		n = len(ops)
	}
	forced := n/2 + r.Intn(n/2+1)
	probes := 0
	var fl *Failure
	for i := 0; i < n; i++ {
		var op c13Op
		if ops != nil {
			op = ops[i]
		} else {
			have := len(prev.ids) > 0
			if probes > 0 {
				probes--
				op = c13Op{Kind: "probe", Note: genesisMutations[r.Intn(len(genesisMutations))], From: r.Intn(8)}
			} else if i == forced || (have && r.Chance(1, 6)) || (!have && r.Chance(1, 30)) {
				op = c13Op{Kind: "reimport"}
			} else {
				op = g.gen(w, prev, nil)
			}
		}
		var cls Class
		var coqOp, pred, sig, detail string
		if op.Kind == "probe" {
			coqOp, pred, sig, detail = w.probe(in, op.Note, op.From, cnt)
			cls = ClassOk
		} else if op.Kind == "reimport" {
			probes = 2
			order := make([]string, len(prev.ids))
			for j, id := range prev.ids {
				order[j] = coqID(in.idOf(id))
			}
			coqOp = "GReimport " + List(order)
			cls, pred, sig, detail = w.reimport(cnt)
			if cls == ClassOk && cnt != nil {
				var open, expired, completed bool
				for _, id := range prev.ids {
					switch prev.swaps[id].Status {
					case 1:
						open = true
					case 2:
						completed = true
					case 3:
						expired = true
					}
				}
				if open {
					cnt.Inc("bep3/reimport:with-open-swaps")
				}
				if expired {
					cnt.Inc("bep3/reimport:with-expired-unrefunded-swaps")
				}
				if completed {
					cnt.Inc("bep3/reimport:with-completed-swaps-in-longterm-storage")
				}
				if len(g.deleted) > 0 {
					cnt.Inc("bep3/reimport:after-longterm-deletion")
				}
				for a := 0; a < 2; a++ {
					if prev.sup[a].TL.Sign() > 0 {
						cnt.Inc("bep3/reimport:time-limited-supply-in-use")
					}
					if prev.sup[a].Inc.Sign() > 0 {
						cnt.Inc("bep3/reimport:incoming-supply-nonzero")
					}
					if prev.sup[a].Out.Sign() > 0 {
						cnt.Inc("bep3/reimport:outgoing-supply-nonzero")
					}
				}
			}
		} else {
			coqOp = "GOp (" + in.coqOp(w, op, prev) + ")"
			cls, _ = w.exec(op)
			if cnt != nil {
				cnt.Inc("bep3/op:" + op.Kind + ":" + cls.String())
			}
		}
		after := w.snap()
		done = append(done, op)
		if cls == ClassOk {
			switch op.Kind {
			case "create":
				g.okCreates[c13SwapID(op.Hash, w.addrs[op.Sender], op.Soc)] = op
			case "block":
				for _, id := range prev.ids {
					if _, still := after.swaps[id]; !still {
						if old, ok := g.okCreates[id]; ok {
							g.deleted = append(g.deleted, old)
						}
					}
				}
			case "reimport":
				if len(prev.ids) > 0 {
					out.Nontriv = true
				}
			}
		}
		steps = append(steps, fmt.Sprintf("(%s,\n    %s)", coqOp, in.coqObs(w, cls, prev, after)))
		if fl == nil {
			if op.Kind == "probe" {
				// the probe's own verdict check (pred) stands
			} else if op.Kind != "reimport" {
				pred, sig, detail = c13OpMonitor(w, i, op, cls, prev, after, led)
			} else if op.Kind == "reimport" && pred == "" && cls == ClassOk {
				if d := c13SnapEqual(prev, after); d != "" {
					pred, sig, detail = "bep3-state-identical-after-reimport", "bep3-state-differs-after-reimport", d
				}
			}
			if pred == "" && cls == ClassOk && op.Kind != "probe" {
				pred, sig, detail = w.exportValidates()
			}
			if pred == "" {
				pred, sig, detail = c13StateMonitor(w, after, led)
				if pred != "" && op.Kind == "reimport" {
					pred = "bep3-invariants-after-reimport:" + pred
				}
			}
			if pred != "" {
				fl = &Failure{History: idx, Step: i, Predicate: pred, Signature: "C14a:bep3-" + strings.TrimPrefix(sig, "bep3-"), Detail: detail}
			}
		}
		prev = after
	}
	// outside the model (parameters are constants of a history): what a governance change that deactivates an
	// asset while swap records of it exist does to the round trip; reported through counters only
	if cnt != nil && len(prev.ids) > 0 {
		func() {
			bctx, _ := w.ctx.CacheContext()
			p := w.k.GetParams(bctx)
			d := prev.swaps[prev.ids[0]].Denom
			for k := range p.AssetParams {
				if p.AssetParams[k].Denom == c13Denoms[d%len(c13Denoms)] {
					p.AssetParams[k].Active = false
				}
			}
			w.k.SetParams(bctx, p)
			res := "ok"
			func() {
				defer func() {
					if r := recover(); r != nil {
						res = "init-panics"
						if strings.Contains(fmt.Sprint(r), "invalid asset") {
							res = "init-panics-swap-has-invalid-asset"
						}
					}
				}()
				gs := bep3.ExportGenesis(bctx, w.k)
				if gs.Validate() != nil {
					res = "validate-fails"
					return
				}
				WipeStore(bctx, w.tApp.GetKVStoreKey(bep3types.StoreKey))
				bep3.InitGenesis(bctx, w.k, w.tApp.GetAccountKeeper(), &gs)
			}()
			cnt.Inc("bep3/reported:reimport-after-asset-deactivated-with-swaps:" + res)
		}()
	}
	out.Fail = fl
	out.NOps = n
	out.Coq = fmt.Sprintf("mkGHist %s\n  %s", in.coqHeader(w, s0), List(steps))
	out.Key = string(MustJSON(done))
	return out, c, done
}

// GenesisPart runs one generated history and shrinks a failure.
func GenesisPart(seed uint64, i, n int, cnt *Counters) GenesisPartOut {
	ro, c, ops := GenesisRun(seed, i, n, nil, nil, cnt)
	if ro.Fail != nil {
		sig := ro.Fail.Signature
		fails := func(cand []c13Op) bool {
			r2, _, _ := GenesisRun(seed, i, 0, &c, cand, nil)
			return r2.Fail != nil && r2.Fail.Signature == sig
		}
		small := Shrink(ops[:ro.Fail.Step+1], fails)
		r2, _, _ := GenesisRun(seed, i, 0, &c, small, nil)
		if r2.Fail != nil {
			r2.Fail.History = i
			r2.Fail.Replay = MustJSON(GenesisHist{"bep3", seed, i, c, small})
			ro.Fail = r2.Fail
		} else {
			ro.Fail.Replay = MustJSON(GenesisHist{"bep3", seed, i, c, ops[:ro.Fail.Step+1]})
		}
	}
	ro.Desc = GenesisHist{"bep3", seed, i, c, ops}
	return ro
}

func GenesisReplay(raw json.RawMessage, cnt *Counters) (GenesisPartOut, error) {
	var h GenesisHist
	if err := json.Unmarshal(raw, &h); err != nil {
		return GenesisPartOut{}, err
	}
	ro, _, _ := GenesisRun(h.Seed, h.Idx, 0, &h.Cfg, h.Ops, cnt)
	if ro.Fail != nil {
		ro.Fail.Replay = MustJSON(h)
	}
	ro.Desc = h
	return ro, nil
}

// GenesisWanted lists the states in which a re-import must have happened at least once per run.
var GenesisWanted = []string{
	"bep3/reimport:with-open-swaps", "bep3/reimport:with-expired-unrefunded-swaps",
	"bep3/reimport:with-completed-swaps-in-longterm-storage", "bep3/reimport:after-longterm-deletion",
	"bep3/reimport:time-limited-supply-in-use", "bep3/reimport:incoming-supply-nonzero", "bep3/reimport:outgoing-supply-nonzero",
}
