package c12

// C12 — liquid staking derivatives and the custom governance tally.
// world.go: the test world (a fresh app.TestApp with three extra validators),
// the operations of a history executed on the real keepers / msg servers, and
// the projection of the implementation's observable state.

import (
	. "kavaverif/lib"

	"fmt"
	"math/big"
	"sort"
	"time"

	sdkmath "cosmossdk.io/math"
	"github.com/cosmos/cosmos-sdk/crypto/keys/ed25519"
	sdk "github.com/cosmos/cosmos-sdk/types"
	bankkeeper "github.com/cosmos/cosmos-sdk/x/bank/keeper"
	banktypes "github.com/cosmos/cosmos-sdk/x/bank/types"
	govkeeper "github.com/cosmos/cosmos-sdk/x/gov/keeper"
	govv1 "github.com/cosmos/cosmos-sdk/x/gov/types/v1"
	govv1beta1 "github.com/cosmos/cosmos-sdk/x/gov/types/v1beta1"
	stakingkeeper "github.com/cosmos/cosmos-sdk/x/staking/keeper"
	stakingtypes "github.com/cosmos/cosmos-sdk/x/staking/types"

	"github.com/kava-labs/kava/app"
	earntypes "github.com/kava-labs/kava/x/earn/types"
	liquidkeeper "github.com/kava-labs/kava/x/liquid/keeper"
	liquidtypes "github.com/kava-labs/kava/x/liquid/types"
)

const (
	nUsers = 5 // accounts 0..4: delegators and holders
	nOps   = 3 // accounts 5..7: operators of validators 1..3
	aGenD  = 8 // delegator of the genesis validator (never acts)
	aGenO  = 9 // account with the genesis validator's operator bytes (never acts)
	aLiq   = 10
	nAcc   = 11
	nVal   = 4 // validator 0 is the genesis validator of the test app
)

var operOf = []int{aGenO, 5, 6, 7}

var prec = Pow10(18)

// Setup is the per-history configuration (part of every replay file).
type Setup struct {
	SelfDel []string `json:"self_delegation"` // validators 1..3
	MinSelf []string `json:"min_self_delegation"`
	Fund    string   `json:"fund"` // ukava of every user / operator
}

type VoteOpt struct {
	O int    `json:"o"` // 0 yes 1 abstain 2 no 3 veto
	W string `json:"w"` // LegacyDec string
}
type Vote struct {
	Voter int       `json:"voter"`
	Opts  []VoteOpt `json:"opts"`
}

type Op struct {
	Kind   string `json:"kind"` // delegate undelegate redelegate slash jail unjail endblock mint burn send stash unstash tally mintmsg burnmsg savlist
	A      int    `json:"a,omitempty"`
	B      int    `json:"b,omitempty"`
	V      int    `json:"v,omitempty"`
	D      int    `json:"d,omitempty"` // mintmsg / burnmsg: the coin's denom: -1 the bond denom, d >= 0 the derivative of validator d
	W      int    `json:"w,omitempty"` // redelegate destination
	Amt    string `json:"amt,omitempty"`
	Power  int64  `json:"power,omitempty"`
	Factor string `json:"factor,omitempty"`
	Mature bool   `json:"mature,omitempty"`
	Place  string `json:"place,omitempty"` // savings | earn
	Listed bool   `json:"listed,omitempty"` // savlist: "bkava" is / is not in the x/savings SupportedDenoms after the parameter change
	Votes  []Vote `json:"votes,omitempty"`
}

type world struct {
	tApp     app.TestApp
	ctx      sdk.Context
	sk       *stakingkeeper.Keeper
	lk       liquidkeeper.Keeper
	bk       bankkeeper.Keeper
	addrs    []sdk.AccAddress
	vals     []sdk.ValAddress
	cons     []sdk.ConsAddress
	denoms   []string
	proposal govv1.Proposal
	setup    Setup
}

func bigOf(s string) *big.Int {
	x, ok := new(big.Int).SetString(s, 10)
	if !ok {
		return big.NewInt(0)
	}
	return x
}

func newWorld(st Setup) *world {
	tApp := NewApp()
	keyed := Addrs(nUsers + nOps + 1)
	cdc := tApp.AppCodec()
	fund := sdkmath.NewIntFromBigInt(bigOf(st.Fund))
	gen := app.NewFundedGenStateWithSameCoins(cdc, sdk.NewCoins(sdk.NewCoin("ukava", fund)), keyed)
	tApp.InitializeFromGenesisStatesWithTime(GenesisTime, gen)
	ctx := NewCtx(tApp, 2, GenesisTime.Add(10*time.Second))
	w := &world{tApp: tApp, ctx: ctx, sk: tApp.GetStakingKeeper(), lk: tApp.GetLiquidKeeper(), bk: tApp.GetBankKeeper(), setup: st}

	// unbonding / redelegation entry limits out of reach (the model does not count entries)
	sp := w.sk.GetParams(ctx)
	sp.MaxEntries = 1 << 30
	if err := w.sk.SetParams(ctx, sp); err != nil {
		panic(err)
	}
	// bkava accepted by savings and by an earn vault with the savings strategy
	ek := tApp.GetEarnKeeper()
	ep := ek.GetParams(ctx)
	ep.AllowedVaults = append(ep.AllowedVaults, earntypes.NewAllowedVault(liquidtypes.DefaultDerivativeDenom,
		earntypes.StrategyTypes{earntypes.STRATEGY_TYPE_SAVINGS}, false, nil))
	ek.SetParams(ctx, ep)
	svk := tApp.GetSavingsKeeper()
	svp := svk.GetParams(ctx)
	svp.SupportedDenoms = append(svp.SupportedDenoms, liquidtypes.DefaultDerivativeDenom)
	svk.SetParams(ctx, svp)

	// the genesis validator
	all := w.sk.GetAllValidators(ctx)
	if len(all) != 1 {
		panic("expected exactly the genesis validator")
	}
	gv := all[0]
	w.vals = []sdk.ValAddress{gv.GetOperator()}
	gc, _ := gv.GetConsAddr()
	w.cons = []sdk.ConsAddress{gc}

	w.addrs = make([]sdk.AccAddress, nAcc)
	copy(w.addrs, keyed[:nUsers+nOps])
	gd := w.sk.GetValidatorDelegations(ctx, gv.GetOperator())
	if len(gd) != 1 {
		panic("expected one delegation to the genesis validator")
	}
	w.addrs[aGenD] = gd[0].GetDelegatorAddr()
	w.addrs[aGenO] = sdk.AccAddress(gv.GetOperator())
	w.addrs[aLiq] = tApp.GetAccountKeeper().GetModuleAccount(ctx, liquidtypes.ModuleAccountName).GetAddress()

	// three validators created through MsgCreateValidator, then bonded by the end blocker
	msgServer := stakingkeeper.NewMsgServerImpl(w.sk)
	for i := 0; i < nOps; i++ {
		valAddr := sdk.ValAddress(w.addrs[nUsers+i])
		pk := ed25519.GenPrivKeyFromSecret([]byte(fmt.Sprintf("c12-validator-%d", i))).PubKey()
		msg, err := stakingtypes.NewMsgCreateValidator(valAddr, pk,
			sdk.NewCoin("ukava", sdkmath.NewIntFromBigInt(bigOf(st.SelfDel[i]))),
			stakingtypes.Description{Moniker: fmt.Sprintf("v%d", i+1)},
			stakingtypes.NewCommissionRates(sdk.ZeroDec(), sdk.ZeroDec(), sdk.ZeroDec()),
			sdkmath.NewIntFromBigInt(bigOf(st.MinSelf[i])))
		if err != nil {
			panic(err)
		}
		if _, err := msgServer.CreateValidator(sdk.WrapSDKContext(ctx), msg); err != nil {
			panic(err)
		}
		w.vals = append(w.vals, valAddr)
		w.cons = append(w.cons, sdk.ConsAddress(pk.Address()))
	}
	w.sk.BlockValidatorUpdates(ctx)
	for _, v := range w.vals {
		w.denoms = append(w.denoms, w.lk.GetLiquidStakingTokenDenom(v))
	}

	// one proposal in its voting period, used (on discarded branches of the state) by every tally
	gk := tApp.GetGovKeeper()
	deposit := gk.GetParams(ctx).MinDeposit
	proposer := keyed[nUsers+nOps]
	if err := tApp.FundAccount(ctx, proposer, deposit); err != nil {
		panic(err)
	}
	pmsg, err := govv1beta1.NewMsgSubmitProposal(govv1beta1.NewTextProposal("t", "d"), deposit, proposer)
	if err != nil {
		panic(err)
	}
	legacy := govkeeper.NewLegacyMsgServerImpl(gk.GetGovernanceAccount(ctx).GetAddress().String(), govkeeper.NewMsgServerImpl(&gk))
	res, err := legacy.SubmitProposal(sdk.WrapSDKContext(ctx), pmsg)
	if err != nil {
		panic(err)
	}
	p, found := gk.GetProposal(ctx, res.ProposalId)
	if !found || p.Status != govv1.StatusVotingPeriod {
		panic("proposal not in voting period")
	}
	w.proposal = p
	return w
}

// ------------------------------------------------------------ projection

type valSnap struct {
	Exists  bool
	Tokens  *big.Int
	Shares  *big.Int // mantissa
	Status  int      // 0 unbonded 1 unbonding 2 bonded
	Jailed  bool
	MinSelf *big.Int
	raw     stakingtypes.Validator
}

type snap struct {
	vals   []valSnap
	del    [][]*big.Int // nil = no record
	bal    []*big.Int
	dbal   [][]*big.Int
	sav    [][]*big.Int
	ern    [][]*big.Int
	dsup   []*big.Int
	redel  [][]bool
	ubd    []*big.Int
	bonded *big.Int // staking TotalBondedTokens
	listed bool     // "bkava" in the x/savings SupportedDenoms parameter
}

func statusIdx(s stakingtypes.BondStatus) int {
	switch s {
	case stakingtypes.Bonded:
		return 2
	case stakingtypes.Unbonding:
		return 1
	}
	return 0
}

func (w *world) snapAt(ctx sdk.Context) *snap {
	s := &snap{}
	svk := w.tApp.GetSavingsKeeper()
	ek := w.tApp.GetEarnKeeper()
	for i := 0; i < nVal; i++ {
		v, found := w.sk.GetValidator(ctx, w.vals[i])
		if !found {
			s.vals = append(s.vals, valSnap{Tokens: big.NewInt(0), Shares: big.NewInt(0), MinSelf: big.NewInt(0)})
		} else {
			s.vals = append(s.vals, valSnap{true, v.Tokens.BigInt(), v.DelegatorShares.BigInt(), statusIdx(v.Status), v.Jailed, v.MinSelfDelegation.BigInt(), v})
		}
		s.dsup = append(s.dsup, w.bk.GetSupply(ctx, w.denoms[i]).Amount.BigInt())
	}
	for a := 0; a < nAcc; a++ {
		addr := w.addrs[a]
		s.bal = append(s.bal, w.bk.GetBalance(ctx, addr, "ukava").Amount.BigInt())
		u := big.NewInt(0)
		for _, ubd := range w.sk.GetAllUnbondingDelegations(ctx, addr) {
			for _, e := range ubd.Entries {
				u.Add(u, e.Balance.BigInt())
			}
		}
		s.ubd = append(s.ubd, u)
		dep, hasDep := svk.GetDeposit(ctx, addr)
		shares, hasShares := ek.GetVaultAccountShares(ctx, addr)
		drow := make([]*big.Int, nVal)
		brow := make([]*big.Int, nVal)
		srow := make([]*big.Int, nVal)
		erow := make([]*big.Int, nVal)
		rrow := make([]bool, nVal)
		for i := 0; i < nVal; i++ {
			if d, found := w.sk.GetDelegation(ctx, addr, w.vals[i]); found {
				drow[i] = d.Shares.BigInt()
			}
			brow[i] = w.bk.GetBalance(ctx, addr, w.denoms[i]).Amount.BigInt()
			srow[i] = big.NewInt(0)
			if hasDep {
				srow[i] = dep.Amount.AmountOf(w.denoms[i]).BigInt()
			}
			erow[i] = big.NewInt(0)
			if hasShares {
				for _, sh := range shares {
					if sh.Denom == w.denoms[i] {
						if c, err := ek.ConvertToAssets(ctx, sh); err == nil {
							erow[i] = c.Amount.BigInt()
						}
					}
				}
			}
			rrow[i] = w.sk.HasReceivingRedelegation(ctx, addr, w.vals[i])
		}
		s.del = append(s.del, drow)
		s.dbal = append(s.dbal, brow)
		s.sav = append(s.sav, srow)
		s.ern = append(s.ern, erow)
		s.redel = append(s.redel, rrow)
	}
	s.bonded = w.sk.TotalBondedTokens(ctx).BigInt()
	for _, d := range svk.GetParams(ctx).SupportedDenoms {
		if d == liquidtypes.DefaultDerivativeDenom {
			s.listed = true
		}
	}
	return s
}

func (w *world) snap() *snap { return w.snapAt(w.ctx) }

func (s *snap) held(a, i int) *big.Int {
	x := new(big.Int).Add(s.dbal[a][i], s.sav[a][i])
	return x.Add(x, s.ern[a][i])
}

func (s *snap) delOr0(a, i int) *big.Int {
	if s.del[a][i] == nil {
		return big.NewInt(0)
	}
	return s.del[a][i]
}

// curr: the validators the tally sees (bonded, in the power index)
func (s *snap) curr(i int) bool {
	v := s.vals[i]
	return v.Exists && v.Status == 2 && !v.Jailed
}

// ------------------------------------------------------------ execution

type tallyOut struct {
	Yes, Abstain, No, Veto *big.Int
	Passes, Burn           bool
}

type result struct {
	cls    Class
	err    error
	shares *big.Int  // mint: derivative minted; burn: shares received (mantissa)
	tally  *tallyOut // tally
	tin    *tallyIn  // tally: the inputs the handler read
}

func coinU(amt *big.Int) sdk.Coin {
	return sdk.Coin{Denom: "ukava", Amount: sdkmath.NewIntFromBigInt(amt)}
}

func (w *world) denomOf(d int) string {
	if d < 0 {
		return "ukava"
	}
	return w.denoms[d]
}

func inRangeA(a int) bool { return a >= 0 && a < nAcc }
func inRangeU(a int) bool { return a >= 0 && a < nAcc && a != aLiq }
func inRangeV(i int) bool { return i >= 0 && i < nVal }

func (w *world) exec(op Op) (res result) {
	amt := bigOf(op.Amt)
	bad := func() result { return result{cls: ClassErr, err: fmt.Errorf("malformed operation")} }
	switch op.Kind {
	case "delegate", "undelegate", "mint", "burn", "stash", "unstash":
		if !inRangeU(op.A) || !inRangeV(op.V) {
			return bad()
		}
	case "mintmsg", "burnmsg":
		if !inRangeU(op.A) || !inRangeV(op.V) || !(op.D == -1 || inRangeV(op.D)) {
			return bad()
		}
	case "redelegate":
		if !inRangeU(op.A) || !inRangeV(op.V) || !inRangeV(op.W) {
			return bad()
		}
	case "send":
		if !inRangeU(op.A) || !inRangeA(op.B) || !inRangeV(op.V) {
			return bad()
		}
	case "slash", "jail", "unjail":
		if !inRangeV(op.V) {
			return bad()
		}
	}
	switch op.Kind {
	case "endblock":
		// the next block; with Mature the block time moves past every pending completion time
		dt := 5 * time.Second
		if op.Mature {
			dt = w.sk.UnbondingTime(w.ctx) + time.Second
		}
		w.ctx = w.ctx.WithBlockHeight(w.ctx.BlockHeight() + 1).WithBlockTime(w.ctx.BlockTime().Add(dt))
		res.cls, res.err = Atomically(w.ctx, func(ctx sdk.Context) error {
			w.sk.BlockValidatorUpdates(ctx)
			return nil
		})
		return
	case "tally":
		res = w.execTally(w.ctx, op.Votes)
		if res.cls == ClassOk {
			res.tin = w.tallyInputs(w.ctx, op.Votes)
		}
		return
	case "savlist":
		// a savings parameter change (governance): "bkava" removed from / put back into
		// SupportedDenoms through Keeper.SetParams; the other supported denoms are kept
		res.cls, res.err = Atomically(w.ctx, func(ctx sdk.Context) error {
			svk := w.tApp.GetSavingsKeeper()
			p := svk.GetParams(ctx)
			var ds []string
			for _, d := range p.SupportedDenoms {
				if d != liquidtypes.DefaultDerivativeDenom {
					ds = append(ds, d)
				}
			}
			if op.Listed {
				ds = append(ds, liquidtypes.DefaultDerivativeDenom)
			}
			p.SupportedDenoms = ds
			if err := p.Validate(); err != nil {
				return err
			}
			svk.SetParams(ctx, p)
			return nil
		})
		return
	}
	res.cls, res.err = Atomically(w.ctx, func(ctx sdk.Context) error {
		g := sdk.WrapSDKContext(ctx)
		switch op.Kind {
		case "delegate":
			msg := stakingtypes.NewMsgDelegate(w.addrs[op.A], w.vals[op.V], coinU(amt))
			if err := msg.ValidateBasic(); err != nil {
				return err
			}
			_, err := stakingkeeper.NewMsgServerImpl(w.sk).Delegate(g, msg)
			return err
		case "undelegate":
			msg := stakingtypes.NewMsgUndelegate(w.addrs[op.A], w.vals[op.V], coinU(amt))
			if err := msg.ValidateBasic(); err != nil {
				return err
			}
			_, err := stakingkeeper.NewMsgServerImpl(w.sk).Undelegate(g, msg)
			return err
		case "redelegate":
			msg := stakingtypes.NewMsgBeginRedelegate(w.addrs[op.A], w.vals[op.V], w.vals[op.W], coinU(amt))
			if err := msg.ValidateBasic(); err != nil {
				return err
			}
			_, err := stakingkeeper.NewMsgServerImpl(w.sk).BeginRedelegate(g, msg)
			return err
		case "slash":
			f, err := sdk.NewDecFromStr(op.Factor)
			if err != nil {
				return err
			}
			w.sk.Slash(ctx, w.cons[op.V], ctx.BlockHeight(), op.Power, f)
			return nil
		case "jail":
			w.sk.Jail(ctx, w.cons[op.V])
			return nil
		case "unjail":
			// as through x/slashing MsgUnjail: its checks on the staking side, then staking Unjail
			v, found := w.sk.GetValidator(ctx, w.vals[op.V])
			if !found {
				return fmt.Errorf("validator does not exist")
			}
			self, found := w.sk.GetDelegation(ctx, sdk.AccAddress(w.vals[op.V]), w.vals[op.V])
			if !found {
				return fmt.Errorf("validator has no self-delegation; cannot be unjailed")
			}
			if v.TokensFromShares(self.GetShares()).TruncateInt().LT(v.MinSelfDelegation) {
				return fmt.Errorf("validator's self delegation less than minimum; cannot be unjailed")
			}
			if !v.IsJailed() {
				return fmt.Errorf("validator not jailed; cannot be unjailed")
			}
			w.sk.Unjail(ctx, w.cons[op.V])
			return nil
		case "mint":
			msg := liquidtypes.NewMsgMintDerivative(w.addrs[op.A], w.vals[op.V], coinU(amt))
			if err := msg.ValidateBasic(); err != nil {
				return err
			}
			r, err := liquidkeeper.NewMsgServerImpl(w.lk).MintDerivative(g, &msg)
			if err == nil {
				res.shares = r.Received.Amount.BigInt()
			}
			return err
		case "burn":
			msg := liquidtypes.NewMsgBurnDerivative(w.addrs[op.A], w.vals[op.V], sdk.Coin{Denom: w.denoms[op.V], Amount: sdkmath.NewIntFromBigInt(amt)})
			if err := msg.ValidateBasic(); err != nil {
				return err
			}
			r, err := liquidkeeper.NewMsgServerImpl(w.lk).BurnDerivative(g, &msg)
			if err == nil {
				res.shares = r.Received.BigInt()
			}
			return err
		case "mintmsg":
			// a mint message whose coin is of a denom of the sender's choosing
			msg := liquidtypes.NewMsgMintDerivative(w.addrs[op.A], w.vals[op.V], sdk.Coin{Denom: w.denomOf(op.D), Amount: sdkmath.NewIntFromBigInt(amt)})
			if err := msg.ValidateBasic(); err != nil {
				return err
			}
			r, err := liquidkeeper.NewMsgServerImpl(w.lk).MintDerivative(g, &msg)
			if err == nil {
				res.shares = r.Received.Amount.BigInt()
			}
			return err
		case "burnmsg":
			// a burn message whose coin's denom and validator field are chosen independently
			msg := liquidtypes.NewMsgBurnDerivative(w.addrs[op.A], w.vals[op.V], sdk.Coin{Denom: w.denomOf(op.D), Amount: sdkmath.NewIntFromBigInt(amt)})
			if err := msg.ValidateBasic(); err != nil {
				return err
			}
			r, err := liquidkeeper.NewMsgServerImpl(w.lk).BurnDerivative(g, &msg)
			if err == nil {
				res.shares = r.Received.BigInt()
			}
			return err
		case "send":
			msg := banktypes.NewMsgSend(w.addrs[op.A], w.addrs[op.B], sdk.Coins{sdk.Coin{Denom: w.denoms[op.V], Amount: sdkmath.NewIntFromBigInt(amt)}})
			if err := msg.ValidateBasic(); err != nil {
				return err
			}
			_, err := bankkeeper.NewMsgServerImpl(w.bk).Send(g, msg)
			return err
		case "stash", "unstash":
			if amt.Sign() <= 0 {
				return fmt.Errorf("non-positive amount") // the messages' ValidateBasic
			}
			coin := sdk.NewCoin(w.denoms[op.V], sdkmath.NewIntFromBigInt(amt))
			switch {
			case op.Kind == "stash" && op.Place == "savings":
				return w.tApp.GetSavingsKeeper().Deposit(ctx, w.addrs[op.A], sdk.NewCoins(coin))
			case op.Kind == "stash":
				ek := w.tApp.GetEarnKeeper()
				return ek.Deposit(ctx, w.addrs[op.A], coin, earntypes.STRATEGY_TYPE_SAVINGS)
			case op.Place == "savings":
				return w.tApp.GetSavingsKeeper().Withdraw(ctx, w.addrs[op.A], sdk.NewCoins(coin))
			default:
				ek := w.tApp.GetEarnKeeper()
				// only whole-holding withdrawals are exercised (earn's dust rule on partial
				// withdrawals is outside this property's model)
				if w.snapAt(ctx).ern[op.A][op.V].Cmp(amt) != 0 {
					return fmt.Errorf("partial earn withdrawal not exercised")
				}
				_, err := ek.Withdraw(ctx, w.addrs[op.A], coin, earntypes.STRATEGY_TYPE_SAVINGS)
				return err
			}
		}
		panic("unknown op kind " + op.Kind)
	})
	if res.cls != ClassOk {
		res.shares = nil
	}
	return
}

// execTally casts the votes and runs the tally wired into the gov keeper
// (app.go SetTallyHandler) on a branch of the state that is then discarded.
func (w *world) execTally(ctx sdk.Context, votes []Vote) (res result) {
	cctx, _ := ctx.CacheContext()
	defer func() {
		if r := recover(); r != nil {
			res = result{cls: ClassPanic, err: fmt.Errorf("panic: %v", r)}
		}
	}()
	gk := w.tApp.GetGovKeeper()
	for _, v := range votes {
		if !inRangeU(v.Voter) {
			return result{cls: ClassErr, err: fmt.Errorf("malformed vote")}
		}
		var opts govv1.WeightedVoteOptions
		for _, o := range v.Opts {
			opts = append(opts, &govv1.WeightedVoteOption{Option: voteOption(o.O), Weight: o.W})
		}
		msg := govv1.NewMsgVoteWeighted(w.addrs[v.Voter], w.proposal.Id, opts, "")
		if err := msg.ValidateBasic(); err != nil {
			return result{cls: ClassErr, err: err}
		}
		if err := gk.AddVote(cctx, w.proposal.Id, w.addrs[v.Voter], opts, ""); err != nil {
			return result{cls: ClassErr, err: err}
		}
	}
	passes, burn, tr := gk.Tally(cctx, w.proposal)
	return result{cls: ClassOk, tally: &tallyOut{bigOf(tr.YesCount), bigOf(tr.AbstainCount), bigOf(tr.NoCount), bigOf(tr.NoWithVetoCount), passes, burn}}
}

func voteOption(o int) govv1.VoteOption {
	switch o {
	case 0:
		return govv1.OptionYes
	case 1:
		return govv1.OptionAbstain
	case 2:
		return govv1.OptionNo
	}
	return govv1.OptionNoWithVeto
}

// ------------------------------------------------------------ the inputs of the tally fold

// coinIn: a validator index with an amount (delegation shares mantissa, or derivative units)
type coinIn struct {
	V   int
	Amt *big.Int
}

type voterIn struct {
	Voter                       int
	Dels, Wallet, Savings, Earn []coinIn
}

type currIn struct {
	V              int
	Tokens, Shares *big.Int
}

// tallyIn: what app/tally_handler.go reads through the keepers for one tally, and the
// totalVotingPower its formulas give on these inputs with the SDK's own LegacyDec
type tallyIn struct {
	Curr   []currIn
	Bonded *big.Int
	Voters []voterIn
	Total  *big.Int // mantissa
}

func (w *world) valIndex(v sdk.ValAddress) int {
	for i, x := range w.vals {
		if x.Equals(v) {
			return i
		}
	}
	return -1
}

func sortCoins(cs []coinIn) []coinIn {
	sort.Slice(cs, func(i, j int) bool { return cs[i].V < cs[j].V })
	return cs
}

// tallyInputs reads, with the same keeper calls as the handler, the bonded validators, the
// total bonded tokens and every voter's delegations and derivative coins, then re-computes
// totalVotingPower.  nil when one of the handler's divisions would panic.
func (w *world) tallyInputs(ctx sdk.Context, votes []Vote) (ti *tallyIn) {
	defer func() {
		if r := recover(); r != nil {
			ti = nil
		}
	}()
	ti = &tallyIn{Bonded: w.sk.TotalBondedTokens(ctx).BigInt()}
	type cv struct {
		tokens sdkmath.Int
		shares sdk.Dec
		ded    sdk.Dec
		voted  bool
	}
	curr := map[int]*cv{}
	w.sk.IterateBondedValidatorsByPower(ctx, func(_ int64, v stakingtypes.ValidatorI) bool {
		i := w.valIndex(v.GetOperator())
		curr[i] = &cv{tokens: v.GetBondedTokens(), shares: v.GetDelegatorShares(), ded: sdk.ZeroDec()}
		ti.Curr = append(ti.Curr, currIn{i, v.GetBondedTokens().BigInt(), v.GetDelegatorShares().BigInt()})
		return false
	})
	sort.Slice(ti.Curr, func(i, j int) bool { return ti.Curr[i].V < ti.Curr[j].V })
	svk := w.tApp.GetSavingsKeeper()
	ek := w.tApp.GetEarnKeeper()
	total := sdk.ZeroDec()
	derivIdx := func(denom string) int {
		va, err := liquidtypes.ParseLiquidStakingTokenDenom(denom)
		if err != nil {
			return -1
		}
		return w.valIndex(va)
	}
	for _, vt := range votes {
		addr := w.addrs[vt.Voter]
		vi := voterIn{Voter: vt.Voter}
		// the voter is a validator operator: its vote is recorded for the second pass
		if c, ok := curr[w.valIndex(sdk.ValAddress(addr.Bytes()))]; ok && len(vt.Opts) > 0 {
			c.voted = true
		}
		w.sk.IterateDelegations(ctx, addr, func(_ int64, d stakingtypes.DelegationI) bool {
			i := w.valIndex(d.GetValidatorAddr())
			vi.Dels = append(vi.Dels, coinIn{i, d.GetShares().BigInt()})
			if c, ok := curr[i]; ok {
				c.ded = c.ded.Add(d.GetShares())
				total = total.Add(d.GetShares().MulInt(c.tokens).Quo(c.shares))
			}
			return false
		})
		sortCoins(vi.Dels)
		sum := map[int]sdkmath.Int{}
		add := func(dst *[]coinIn, c sdk.Coin) {
			if !c.Amount.IsPositive() {
				return
			}
			i := derivIdx(c.Denom)
			*dst = append(*dst, coinIn{i, c.Amount.BigInt()})
			if _, ok := sum[i]; !ok {
				sum[i] = sdk.ZeroInt()
			}
			sum[i] = sum[i].Add(c.Amount)
		}
		for _, c := range w.bk.GetAllBalances(ctx, addr) {
			if w.lk.IsDerivativeDenom(ctx, c.Denom) {
				add(&vi.Wallet, c)
			}
		}
		if dep, found := svk.GetDeposit(ctx, addr); found {
			for _, c := range dep.Amount {
				if w.lk.IsDerivativeDenom(ctx, c.Denom) {
					add(&vi.Savings, c)
				}
			}
		}
		if shares, found := ek.GetVaultAccountShares(ctx, addr); found {
			for _, sh := range shares {
				if w.lk.IsDerivativeDenom(ctx, sh.Denom) {
					if c, err := ek.ConvertToAssets(ctx, sh); err == nil {
						add(&vi.Earn, c)
					}
				}
			}
		}
		sortCoins(vi.Wallet)
		sortCoins(vi.Savings)
		sortCoins(vi.Earn)
		for i, amt := range sum {
			c, ok := curr[i]
			if !ok {
				continue
			}
			c.ded = c.ded.Add(sdk.NewDecFromInt(amt))
			staked, err := w.lk.GetStakedTokensForDerivatives(ctx, sdk.NewCoins(sdk.NewCoin(w.denoms[i], amt)))
			if err != nil {
				panic(err)
			}
			total = total.Add(sdk.NewDecFromInt(staked.Amount))
		}
		ti.Voters = append(ti.Voters, vi)
	}
	for _, c := range curr {
		if c.voted {
			total = total.Add(c.shares.Sub(c.ded).MulInt(c.tokens).Quo(c.shares))
		}
	}
	ti.Total = total.BigInt()
	return ti
}
