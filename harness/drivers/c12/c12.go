package c12

// c12.go: generators, Coq rendering, history runner, replay, shrinking.

import (
	. "kavaverif/lib"

	"encoding/json"
	"fmt"
	"math/big"
	"os"
	"sort"
	"strings"
	"sync"

	sdk "github.com/cosmos/cosmos-sdk/types"
)

func init() { Registry["C12"] = run }

const defaultLen = 45

const coqHeader = "From Kava Require Import Base.Prelude Model.Staking Model.Tally Model.Liquid Model.TallyTie Model.LiquidMsg Model.SavListing."

type Hist struct {
	Seed  uint64 `json:"seed"`
	Idx   int    `json:"history"`
	Setup Setup  `json:"setup"`
	Ops   []Op   `json:"ops"`
}

// ------------------------------------------------------------ generation

func genSetup(r *Rng) Setup {
	st := Setup{Fund: "100000000000"}
	for i := 0; i < nOps; i++ {
		var sd int64
		switch r.Pick(3, 3, 2, 2) {
		case 0:
			sd = 1_000_000 + r.Int63n(5)
		case 1:
			sd = 1_000_000_000 + r.Int63n(1000)
		case 2:
			sd = 2_000_000 + r.Int63n(3_000_000)
		default:
			sd = 1_000_000 + r.Int63n(2_000_000_000)
		}
		ms := []int64{1, 1_000_000, sd, sd / 2}[r.Intn(4)]
		if ms < 1 {
			ms = 1
		}
		st.SelfDel = append(st.SelfDel, fmt.Sprint(sd))
		st.MinSelf = append(st.MinSelf, fmt.Sprint(ms))
	}
	return st
}

var weightMenus = [][]string{
	{"1.000000000000000000"},
	{"0.500000000000000000", "0.500000000000000000"},
	{"0.300000000000000000", "0.700000000000000000"},
	{"0.333333333333333333", "0.666666666666666667"},
	{"0.250000000000000000", "0.250000000000000000", "0.250000000000000000", "0.250000000000000000"},
	{"0.000000000000000001", "0.999999999999999999"},
}

func genVotes(r *Rng, s *snap) []Vote {
	var votes []Vote
	order := []int{0, 1, 2, 3, 4, 5, 6, 7}
	p := 2 + r.Intn(6)
	for _, a := range order {
		if r.Intn(8) >= p {
			continue
		}
		menu := weightMenus[0]
		if r.Chance(1, 3) {
			menu = weightMenus[r.Intn(len(weightMenus))]
		}
		perm := []int{0, 1, 2, 3}
		for k := 3; k > 0; k-- {
			j := r.Intn(k + 1)
			perm[k], perm[j] = perm[j], perm[k]
		}
		v := Vote{Voter: a}
		for k, wt := range menu {
			v.Opts = append(v.Opts, VoteOpt{perm[k], wt})
		}
		votes = append(votes, v)
	}
	if len(votes) == 0 {
		votes = []Vote{{Voter: r.Intn(8), Opts: []VoteOpt{{0, weightMenus[0][0]}}}}
	}
	return votes
}

// tokensFor: about how many tokens `shares` (mantissa) of validator v are worth
func tokensFor(v valSnap, shares *big.Int) *big.Int {
	if v.Shares.Sign() == 0 {
		return big.NewInt(0)
	}
	x := new(big.Int).Mul(shares, v.Tokens)
	return x.Quo(x, v.Shares)
}

func genAmount(r *Rng, around *big.Int) *big.Int {
	x := new(big.Int)
	switch r.Pick(30, 20, 20, 10, 15, 5) {
	case 0: // down to one base unit
		x.SetInt64(1 + int64(r.Intn(12)))
	case 1: // near the whole position
		x.Add(around, big.NewInt(int64(r.Intn(5)-2)))
	case 2: // a fraction of the position
		if around.Sign() > 0 {
			x.Quo(around, big.NewInt(int64(2+r.Intn(9))))
			x.Add(x, big.NewInt(int64(r.Intn(3))))
		}
	case 3: // near a power of ten
		x.Add(Pow10(r.Intn(10)), big.NewInt(int64(r.Intn(3)-1)))
	case 4:
		x.SetInt64(r.Int63n(3_000_000) + 1)
	default: // more than there is
		x.Add(around, big.NewInt(1+r.Int63n(1_000_000)))
	}
	if x.Sign() <= 0 && !r.Chance(1, 12) {
		x.SetInt64(1)
	}
	return x
}

func pickVal(r *Rng, s *snap) int {
	// validator 0 is the test app's genesis validator: 10^6 tokens for one share, an exchange
	// rate no CreateValidator / Delegate history can produce; it only contributes bonded stake
	return 1 + r.Intn(3)
}

func genOp(r *Rng, s *snap, step, n int) Op {
	users := 8
	// delegators with a position in validator i; holders of derivative i
	type pos struct{ a, i int }
	var dels, holds, savs, erns []pos
	for a := 0; a < users; a++ {
		for i := 0; i < nVal; i++ {
			if s.del[a][i] != nil {
				dels = append(dels, pos{a, i})
			}
			if s.dbal[a][i].Sign() > 0 {
				holds = append(holds, pos{a, i})
			}
			if s.sav[a][i].Sign() > 0 {
				savs = append(savs, pos{a, i})
			}
			if s.ern[a][i].Sign() > 0 {
				erns = append(erns, pos{a, i})
			}
		}
	}
	wSlash := 4
	if step < 6 {
		wSlash = 18 // slashed validators (exchange rate below one) early in most histories
	}
	// a savings parameter change: "bkava" leaves SupportedDenoms (mostly while derivatives sit in
	// savings deposits) and comes back later
	wList := 1
	if !s.listed {
		wList = 2
	} else if len(savs) > 0 {
		wList = 4
	}
	switch r.Pick(14, 6, 5, wSlash, 3, 2, 6, 22, 18, 6, 5, 3, 8, wList) {
	case 13:
		if r.Chance(1, 10) {
			return Op{Kind: "savlist", Listed: s.listed} // a change that changes nothing
		}
		return Op{Kind: "savlist", Listed: !s.listed}
	case 0:
		a, i := r.Intn(users), pickVal(r, s)
		return Op{Kind: "delegate", A: a, V: i, Amt: genAmount(r, big.NewInt(int64(1_000_000+r.Intn(2_000_000_000)))).String()}
	case 1:
		if len(dels) > 0 && !r.Chance(1, 10) {
			p := dels[r.Intn(len(dels))]
			return Op{Kind: "undelegate", A: p.a, V: p.i, Amt: genAmount(r, tokensFor(s.vals[p.i], s.del[p.a][p.i])).String()}
		}
		return Op{Kind: "undelegate", A: r.Intn(users), V: pickVal(r, s), Amt: fmt.Sprint(1 + r.Intn(100))}
	case 2:
		if len(dels) > 0 && !r.Chance(1, 10) {
			p := dels[r.Intn(len(dels))]
			dst := pickVal(r, s)
			return Op{Kind: "redelegate", A: p.a, V: p.i, W: dst, Amt: genAmount(r, tokensFor(s.vals[p.i], s.del[p.a][p.i])).String()}
		}
		return Op{Kind: "redelegate", A: r.Intn(users), V: pickVal(r, s), W: pickVal(r, s), Amt: fmt.Sprint(1 + r.Intn(100))}
	case 3:
		i := pickVal(r, s)
		f := []string{"0.070000000000000000", "0.000100000000000000", "0.500000000000000000", "0.010000000000000000", "0.999999000000000000", "1.000000000000000000", "0.000000000000000000", "0.333333333333333333"}[r.Pick(30, 10, 10, 15, 8, 4, 3, 20)]
		pw := new(big.Int).Quo(s.vals[i].Tokens, big.NewInt(1_000_000)).Int64()
		if r.Chance(1, 6) {
			pw = int64(r.Intn(3000))
		}
		return Op{Kind: "slash", V: i, Power: pw, Factor: f}
	case 4:
		return Op{Kind: "jail", V: pickVal(r, s)}
	case 5:
		return Op{Kind: "unjail", V: pickVal(r, s)}
	case 6:
		return Op{Kind: "endblock", Mature: r.Chance(1, 3)}
	case 7: // mint
		if r.Chance(1, 14) {
			// a mint message paying with something else than the bond denom (a derivative the sender
			// holds, when there is one), or the ordinary message through the message-level wrapper
			if len(holds) > 0 && r.Chance(2, 3) {
				p := holds[r.Intn(len(holds))]
				v := p.i
				if r.Chance(1, 2) {
					v = pickVal(r, s)
				}
				return Op{Kind: "mintmsg", A: p.a, V: v, D: p.i, Amt: genAmount(r, s.dbal[p.a][p.i]).String()}
			}
			if len(dels) > 0 {
				p := dels[r.Intn(len(dels))]
				return Op{Kind: "mintmsg", A: p.a, V: p.i, D: -1, Amt: genAmount(r, tokensFor(s.vals[p.i], s.del[p.a][p.i])).String()}
			}
		}
		if len(dels) > 0 && !r.Chance(1, 12) {
			p := dels[r.Intn(len(dels))]
			whole := tokensFor(s.vals[p.i], s.del[p.a][p.i])
			return Op{Kind: "mint", A: p.a, V: p.i, Amt: genAmount(r, whole).String()}
		}
		return Op{Kind: "mint", A: r.Intn(users), V: pickVal(r, s), Amt: fmt.Sprint(1 + r.Intn(100))}
	case 8: // burn
		if len(holds) > 0 && r.Chance(1, 4) {
			// a burn message whose coin and validator field are chosen independently: the derivative
			// of one validator while naming another one (preferably one with minted derivatives, so
			// that the module has a delegation to take the shares from), the bond denom, or — through
			// the same wrapper — the matching pair
			p := holds[r.Intn(len(holds))]
			var others []int
			for i := 1; i < nVal; i++ {
				if i != p.i && s.dsup[i].Sign() > 0 && s.del[aLiq][i] != nil {
					others = append(others, i)
				}
			}
			v, d := pickVal(r, s), p.i
			switch r.Pick(70, 12, 10, 8) {
			case 0:
				if len(others) > 0 {
					v = others[r.Intn(len(others))]
				}
			case 1:
				v = p.i
			case 2:
				d = -1
			default:
			}
			amt := genAmount(r, s.dbal[p.a][p.i])
			if v != p.i && r.Chance(1, 2) {
				// an amount both the holder and the module's delegation to the named validator cover
				cover := new(big.Int).Quo(s.delOr0(aLiq, v), prec)
				if cover.Cmp(s.dbal[p.a][p.i]) > 0 {
					cover.Set(s.dbal[p.a][p.i])
				}
				if cover.Sign() > 0 {
					amt = new(big.Int).Mod(r.BigBits(62), cover)
					amt.Add(amt, big.NewInt(1))
					if r.Chance(1, 3) {
						amt.Set(cover)
					}
				}
			}
			return Op{Kind: "burnmsg", A: p.a, V: v, D: d, Amt: amt.String()}
		}
		if len(holds) > 0 && !r.Chance(1, 12) {
			p := holds[r.Intn(len(holds))]
			return Op{Kind: "burn", A: p.a, V: p.i, Amt: genAmount(r, s.dbal[p.a][p.i]).String()}
		}
		return Op{Kind: "burn", A: r.Intn(users), V: pickVal(r, s), Amt: fmt.Sprint(1 + r.Intn(100))}
	case 9: // send derivative units to another account (holders that never delegated)
		if len(holds) > 0 {
			p := holds[r.Intn(len(holds))]
			b := r.Intn(users)
			if r.Chance(1, 20) {
				b = aLiq
			}
			return Op{Kind: "send", A: p.a, B: b, V: p.i, Amt: genAmount(r, s.dbal[p.a][p.i]).String()}
		}
		return Op{Kind: "send", A: r.Intn(users), B: r.Intn(users), V: pickVal(r, s), Amt: "1"}
	case 10:
		place := []string{"savings", "earn"}[r.Intn(2)]
		if len(holds) > 0 {
			p := holds[r.Intn(len(holds))]
			return Op{Kind: "stash", Place: place, A: p.a, V: p.i, Amt: genAmount(r, s.dbal[p.a][p.i]).String()}
		}
		return Op{Kind: "stash", Place: place, A: r.Intn(users), V: pickVal(r, s), Amt: "1"}
	case 11:
		if len(savs) > 0 && r.Chance(1, 2) {
			p := savs[r.Intn(len(savs))]
			return Op{Kind: "unstash", Place: "savings", A: p.a, V: p.i, Amt: genAmount(r, s.sav[p.a][p.i]).String()}
		}
		if len(erns) > 0 {
			p := erns[r.Intn(len(erns))]
			amt := s.ern[p.a][p.i]
			if r.Chance(1, 8) {
				amt = genAmount(r, amt)
			}
			return Op{Kind: "unstash", Place: "earn", A: p.a, V: p.i, Amt: amt.String()}
		}
		return Op{Kind: "unstash", Place: []string{"savings", "earn"}[r.Intn(2)], A: r.Intn(users), V: pickVal(r, s), Amt: "1"}
	default:
		return Op{Kind: "tally", Votes: genVotes(r, s)}
	}
}

// scenario streams: short directed prefixes that reach the states the property
// statement names (slashed validator + small mints, unit burn worth zero tokens,
// jailed validator with derivative holders voting, whole-validator mint)
func scenario(r *Rng, st Setup) []Op {
	one := "1.000000000000000000"
	yes := func(a int) Vote { return Vote{Voter: a, Opts: []VoteOpt{{0, one}}} }
	switch r.Intn(10) {
	case 8, 9: // derivatives deposited in savings while "bkava" is a supported denom, then de-listed: holder and validator vote
		no := func(a int) Vote { return Vote{Voter: a, Opts: []VoteOpt{{2, one}}} }
		amt := 1_000_000 + r.Intn(400_000_000)
		part := 1 + r.Intn(amt)
		return []Op{{Kind: "delegate", A: 1, V: 2, Amt: fmt.Sprint(amt + r.Intn(1000))}, {Kind: "mint", A: 1, V: 2, Amt: fmt.Sprint(amt)},
			{Kind: "stash", Place: "savings", A: 1, V: 2, Amt: fmt.Sprint(part)},
			{Kind: "tally", Votes: []Vote{yes(1), no(6)}},
			{Kind: "savlist", Listed: false},
			{Kind: "tally", Votes: []Vote{yes(1), no(6)}},
			{Kind: "stash", Place: []string{"savings", "earn"}[r.Intn(2)], A: 1, V: 2, Amt: "1"},
			{Kind: "tally", Votes: []Vote{yes(1)}},
			{Kind: "unstash", Place: "savings", A: 1, V: 2, Amt: fmt.Sprint(1 + r.Intn(part))},
			{Kind: "tally", Votes: []Vote{yes(1), no(6), yes(0)}},
			{Kind: "savlist", Listed: true},
			{Kind: "stash", Place: "savings", A: 1, V: 2, Amt: "1"},
			{Kind: "tally", Votes: []Vote{yes(1), no(6)}}}
	case 7: // two validators with minted derivatives; the holder of the (slashed) one's derivative names the other one
		return []Op{{Kind: "delegate", A: 0, V: 1, Amt: "3000000"}, {Kind: "delegate", A: 1, V: 2, Amt: "3000000"},
			{Kind: "slash", V: 1, Power: 2, Factor: "0.500000000000000000"},
			{Kind: "mint", A: 0, V: 1, Amt: "400000"}, {Kind: "mint", A: 1, V: 2, Amt: "1000000"},
			{Kind: "burnmsg", A: 0, V: 2, D: 1, Amt: fmt.Sprint(1 + r.Intn(400000))},
			{Kind: "burnmsg", A: 1, V: 1, D: 2, Amt: fmt.Sprint(1 + r.Intn(400000))},
			{Kind: "burnmsg", A: 1, V: 2, D: 2, Amt: "1000"}, {Kind: "mintmsg", A: 1, V: 2, D: 2, Amt: "1000"}}
	case 0: // 7 % slash then repeated small mints
		ops := []Op{{Kind: "delegate", A: 0, V: 1, Amt: "1000000007"}, {Kind: "slash", V: 1, Power: 1000 + bigOf(st.SelfDel[0]).Int64()/1_000_000, Factor: "0.070000000000000000"}}
		for k := 0; k < 6; k++ {
			ops = append(ops, Op{Kind: "mint", A: 0, V: 1, Amt: fmt.Sprint(1 + r.Intn(9))})
		}
		return ops
	case 1: // unit burn worth zero tokens
		return []Op{{Kind: "delegate", A: 1, V: 2, Amt: "5000000"}, {Kind: "slash", V: 2, Power: 3, Factor: "0.333333333333333333"},
			{Kind: "mint", A: 1, V: 2, Amt: "1000"}, {Kind: "send", A: 1, B: 3, V: 2, Amt: "5"}, {Kind: "burn", A: 3, V: 2, Amt: "1"}}
	case 2: // derivative holders of a jailed validator vote
		return []Op{{Kind: "delegate", A: 2, V: 3, Amt: "700000000"}, {Kind: "mint", A: 2, V: 3, Amt: "650000000"},
			{Kind: "jail", V: 3}, {Kind: "endblock"}, {Kind: "tally", Votes: []Vote{yes(2), yes(5), yes(6)}}}
	case 3: // operator leaves, then the remaining delegator converts every share of the slashed validator
		return []Op{{Kind: "delegate", A: 4, V: 1, Amt: "3000000"}, {Kind: "undelegate", A: 5, V: 1, Amt: st.SelfDel[0]},
			{Kind: "slash", V: 1, Power: 2, Factor: "0.500000000000000000"},
			{Kind: "mint", A: 4, V: 1, Amt: "2000000"}, {Kind: "burn", A: 4, V: 1, Amt: "2500000"}}
	case 4: // incoming redelegation then conversions
		return []Op{{Kind: "delegate", A: 0, V: 1, Amt: "9000000"}, {Kind: "mint", A: 0, V: 1, Amt: "2000000"}, {Kind: "send", A: 0, B: 1, V: 1, Amt: "1000"},
			{Kind: "delegate", A: 1, V: 2, Amt: "4000000"}, {Kind: "redelegate", A: 1, V: 2, W: 1, Amt: "1000000"},
			{Kind: "mint", A: 1, V: 1, Amt: "500"}, {Kind: "burn", A: 1, V: 1, Amt: "10"}}
	case 5: // the module account ends up the last delegator of an unbonded validator; the holder redeems everything
		return []Op{{Kind: "delegate", A: 3, V: 3, Amt: "5000000"}, {Kind: "mint", A: 3, V: 3, Amt: "5000000"},
			{Kind: "undelegate", A: 7, V: 3, Amt: st.SelfDel[2]}, {Kind: "endblock"}, {Kind: "endblock", Mature: true},
			{Kind: "burn", A: 3, V: 3, Amt: "5000000"}, {Kind: "burn", A: 3, V: 3, Amt: "4999999"}}
	default: // operator conversions against the self-delegation minimum
		sd := bigOf(st.SelfDel[1])
		ms := bigOf(st.MinSelf[1])
		edge := new(big.Int).Sub(sd, ms)
		return []Op{{Kind: "mint", A: 6, V: 2, Amt: new(big.Int).Add(edge, big.NewInt(1)).String()}, {Kind: "mint", A: 6, V: 2, Amt: edge.String()}}
	}
}

// ------------------------------------------------------------ Coq rendering

func coqStatus(i int) string { return [...]string{"Unbonded", "Unbonding", "Bonded"}[i] }

func coqVal(v valSnap) string {
	if !v.Exists {
		return "no_val"
	}
	return fmt.Sprintf("(mkVal true %s %s %s %s %s)", Z(v.Tokens), Z(v.Shares), coqStatus(v.Status), Bool(v.Jailed), Z(v.MinSelf))
}

func coqOpt(x *big.Int) string {
	if x == nil {
		return "None"
	}
	return "(Some " + Z(x) + ")"
}

func decMantissa(s string) *big.Int {
	d, err := sdk.NewDecFromStr(s)
	if err != nil {
		return big.NewInt(0)
	}
	return d.BigInt()
}

func coqVotes(vs []Vote) string {
	it := make([]string, len(vs))
	for k, v := range vs {
		os := make([]string, len(v.Opts))
		for j, o := range v.Opts {
			os[j] = fmt.Sprintf("(%s, %s)", Nat(o.O), Z(decMantissa(o.W)))
		}
		it[k] = fmt.Sprintf("(%s, %s)", Nat(v.Voter), List(os))
	}
	return List(it)
}

func coqCoins(cs []coinIn) string {
	it := make([]string, len(cs))
	for k, c := range cs {
		it[k] = fmt.Sprintf("(%s, %s)", Nat(c.V), Z(c.Amt))
	}
	return List(it)
}

// coqTallyIn renders the recorded inputs of a tally (None for every other operation)
func coqTallyIn(ti *tallyIn) string {
	if ti == nil {
		return "None"
	}
	cur := make([]string, len(ti.Curr))
	for k, c := range ti.Curr {
		cur[k] = fmt.Sprintf("(%s, (%s, %s))", Nat(c.V), Z(c.Tokens), Z(c.Shares))
	}
	vs := make([]string, len(ti.Voters))
	for k, v := range ti.Voters {
		vs[k] = fmt.Sprintf("(mkVI %s %s %s %s %s)", Nat(v.Voter), coqCoins(v.Dels), coqCoins(v.Wallet), coqCoins(v.Savings), coqCoins(v.Earn))
	}
	return fmt.Sprintf("(Some (mkTI %s %s %s %s))", List(cur), Z(ti.Bonded), List(vs), Z(ti.Total))
}

func coqPlace(p string) string {
	if p == "savings" {
		return "PSav"
	}
	return "PEarn"
}

func coqDenom(d int) string {
	if d < 0 {
		return "DBond"
	}
	return "(DDeriv " + Nat(d) + ")"
}

// coqSop renders an operation of Model/SavListing.v: a savings parameter change, or a message
func coqSop(op Op) string {
	if op.Kind == "savlist" {
		return "SSetListed " + Bool(op.Listed)
	}
	return "SMsg (" + coqOp(op) + ")"
}

// coqOp renders a message-level operation of Model/LiquidMsg.v
func coqOp(op Op) string {
	amt := Z(bigOf(op.Amt))
	switch op.Kind {
	case "mintmsg":
		return fmt.Sprintf("MMintMsg %s %s %s %s", Nat(op.A), Nat(op.V), coqDenom(op.D), amt)
	case "burnmsg":
		return fmt.Sprintf("MBurnMsg %s %s %s %s", Nat(op.A), Nat(op.V), coqDenom(op.D), amt)
	}
	return "MPlain (" + coqPlainOp(op) + ")"
}

func coqPlainOp(op Op) string {
	amt := Z(bigOf(op.Amt))
	switch op.Kind {
	case "delegate":
		return fmt.Sprintf("Delegate %s %s %s", Nat(op.A), Nat(op.V), amt)
	case "undelegate":
		return fmt.Sprintf("Undelegate %s %s %s", Nat(op.A), Nat(op.V), amt)
	case "redelegate":
		return fmt.Sprintf("Redelegate %s %s %s %s", Nat(op.A), Nat(op.V), Nat(op.W), amt)
	case "slash":
		return fmt.Sprintf("Slash %s %s %s", Nat(op.V), Zi(op.Power), Z(decMantissa(op.Factor)))
	case "jail":
		return "Jail " + Nat(op.V)
	case "unjail":
		return "Unjail " + Nat(op.V)
	case "endblock":
		return "EndBlock " + Bool(op.Mature)
	case "mint":
		return fmt.Sprintf("Mint %s %s %s", Nat(op.A), Nat(op.V), amt)
	case "burn":
		return fmt.Sprintf("Burn %s %s %s", Nat(op.A), Nat(op.V), amt)
	case "send":
		return fmt.Sprintf("SendD %s %s %s %s", Nat(op.A), Nat(op.B), Nat(op.V), amt)
	case "stash":
		return fmt.Sprintf("Stash %s %s %s %s", coqPlace(op.Place), Nat(op.A), Nat(op.V), amt)
	case "unstash":
		return fmt.Sprintf("Unstash %s %s %s %s", coqPlace(op.Place), Nat(op.A), Nat(op.V), amt)
	}
	return "Tally " + coqVotes(op.Votes)
}

func coqObs(r result, b, a *snap) string {
	var vals, dels, bals, dbal, sav, ern, dsup, redel, ubd []string
	for i := 0; i < nVal; i++ {
		vb, va := b.vals[i], a.vals[i]
		if vb.Exists != va.Exists || vb.Tokens.Cmp(va.Tokens) != 0 || vb.Shares.Cmp(va.Shares) != 0 || vb.Status != va.Status || vb.Jailed != va.Jailed || vb.MinSelf.Cmp(va.MinSelf) != 0 {
			vals = append(vals, fmt.Sprintf("(%s, %s)", Nat(i), coqVal(va)))
		}
		if b.dsup[i].Cmp(a.dsup[i]) != 0 {
			dsup = append(dsup, fmt.Sprintf("(%s, %s)", Nat(i), Z(a.dsup[i])))
		}
	}
	for x := 0; x < nAcc; x++ {
		if b.bal[x].Cmp(a.bal[x]) != 0 {
			bals = append(bals, fmt.Sprintf("(%s, %s)", Nat(x), Z(a.bal[x])))
		}
		if b.ubd[x].Cmp(a.ubd[x]) != 0 {
			ubd = append(ubd, fmt.Sprintf("(%s, %s)", Nat(x), Z(a.ubd[x])))
		}
		for i := 0; i < nVal; i++ {
			if !sameOpt(b.del[x][i], a.del[x][i]) {
				dels = append(dels, fmt.Sprintf("(%s, %s, %s)", Nat(x), Nat(i), coqOpt(a.del[x][i])))
			}
			if b.dbal[x][i].Cmp(a.dbal[x][i]) != 0 {
				dbal = append(dbal, fmt.Sprintf("(%s, %s, %s)", Nat(x), Nat(i), Z(a.dbal[x][i])))
			}
			if b.sav[x][i].Cmp(a.sav[x][i]) != 0 {
				sav = append(sav, fmt.Sprintf("(%s, %s, %s)", Nat(x), Nat(i), Z(a.sav[x][i])))
			}
			if b.ern[x][i].Cmp(a.ern[x][i]) != 0 {
				ern = append(ern, fmt.Sprintf("(%s, %s, %s)", Nat(x), Nat(i), Z(a.ern[x][i])))
			}
			if b.redel[x][i] != a.redel[x][i] {
				redel = append(redel, fmt.Sprintf("(%s, %s, %s)", Nat(x), Nat(i), Bool(a.redel[x][i])))
			}
		}
	}
	out := "ONone"
	if r.cls == ClassOk && r.shares != nil {
		out = "(OShares " + Z(r.shares) + ")"
	}
	if r.cls == ClassOk && r.tally != nil {
		t := r.tally
		out = fmt.Sprintf("(OTally (mkTally %s %s %s %s %s %s))", Z(t.Yes), Z(t.Abstain), Z(t.No), Z(t.Veto), Bool(t.Passes), Bool(t.Burn))
	}
	return fmt.Sprintf("mkObs %s %s %s %s %s %s %s %s %s %s %s", r.cls.Coq(), out, List(vals), List(dels), List(bals), List(dbal), List(sav), List(ern), List(dsup), List(redel), List(ubd))
}

func (w *world) coqEnvState(s *snap) string {
	gp := w.tApp.GetGovKeeper().GetParams(w.ctx)
	opers := make([]string, nVal)
	for i, o := range operOf {
		opers[i] = Nat(o)
	}
	env := fmt.Sprintf("(mk_env %s %s %s %s %s %s %s %s %s)", Nat(nAcc), Nat(nVal), Nat(aLiq), List(opers),
		Z(decMantissa(gp.Quorum)), Z(decMantissa(gp.Threshold)), Z(decMantissa(gp.VetoThreshold)), Bool(gp.BurnVoteQuorum), Bool(gp.BurnVoteVeto))
	vs := make([]string, nVal)
	for i := range vs {
		vs[i] = coqVal(s.vals[i])
	}
	var ds []string
	for x := 0; x < nAcc; x++ {
		for i := 0; i < nVal; i++ {
			if s.del[x][i] != nil {
				ds = append(ds, fmt.Sprintf("(%s, %s, %s)", Nat(x), Nat(i), coqOpt(s.del[x][i])))
			}
		}
	}
	st := fmt.Sprintf("(mk_state %s %s %s)", List(vs), List(ds), ZList(s.bal))
	return env + "\n  " + st + "\n  " + Bool(s.listed)
}

// ------------------------------------------------------------ history runner

func normalize(op Op) Op {
	if op.Kind == "tally" {
		// one vote per voter (gov keeps the last one)
		seen := map[int]bool{}
		var vs []Vote
		for k := len(op.Votes) - 1; k >= 0; k-- {
			if !seen[op.Votes[k].Voter] {
				seen[op.Votes[k].Voter] = true
				vs = append([]Vote{op.Votes[k]}, vs...)
			}
		}
		op.Votes = vs
	}
	return op
}

type runOut struct {
	setup  Setup
	ops    []Op
	coq    string
	fails  []Failure
	okOps  int
	splits map[string]bool
}

// runHist executes either generated (ops == nil) or explicit operations.
func runHist(seed uint64, idx, n int, st *Setup, ops []Op, cnt *Counters) (o runOut) {
	r := NewRng(seed, uint64(idx))
	if st == nil {
		s := genSetup(r)
		st = &s
	}
	o.setup = *st
	w := newWorld(*st)
	o.splits = map[string]bool{}
	prev := w.snap()
	header := w.coqEnvState(prev)
	var steps []string
	var pre []Op
	if ops != nil {
		n = len(ops)
	} else if r.Chance(1, 2) {
		pre = scenario(r, *st)
	}
	seenSig := map[string]bool{}
	for i := 0; i < n; i++ {
		var op Op
		switch {
		case ops != nil:
			op = ops[i]
		case i < len(pre):
			op = pre[i]
		default:
			op = genOp(r, prev, i, n)
		}
		op = normalize(op)
		res := w.exec(op)
		after := w.snap()
		o.ops = append(o.ops, op)
		if cnt != nil {
			cnt.Inc("op:" + op.Kind + ":" + res.cls.String())
			if res.cls == ClassErr {
				cnt.Inc("err:" + op.Kind + ":" + errKind(res.err))
			}
		}
		if res.cls == ClassOk {
			o.okOps++
		}
		splits(op, res, prev, after, o.splits, cnt)
		steps = append(steps, fmt.Sprintf("(%s,\n    %s,\n    %s)", coqSop(op), coqObs(res, prev, after), coqTallyIn(res.tin)))
		for _, f := range monitor(w, op, res, prev, after) {
			if !seenSig[f.sig] {
				seenSig[f.sig] = true
				o.fails = append(o.fails, Failure{History: idx, Step: i, Predicate: f.pred, Signature: f.sig, Detail: f.detail})
			}
		}
		prev = after
	}
	o.coq = fmt.Sprintf("mkHist4 %s\n  %s", header, List(steps))
	return
}

func errKind(err error) string {
	if err == nil {
		return "none"
	}
	m := err.Error()
	for _, k := range []string{"insufficient funds", "no delegation", "invalid shares amount", "redelegation", "self delegation", "validator does not exist",
		"invalid coins", "untransferable", "not enough delegation shares", "too few tokens", "exchange rate", "smaller than", "deposit not found", "no deposit", "invalid withdraw", "insufficient", "malformed", "non-positive", "not allowed to receive"} {
		if strings.Contains(strings.ToLower(m), k) {
			return strings.ReplaceAll(k, " ", "-")
		}
	}
	return "other"
}

// splits counts the proof-relevant case splits an operation exercised.
func splits(op Op, r result, b, a *snap, seen map[string]bool, cnt *Counters) {
	mark := func(k string) {
		seen[k] = true
		if cnt != nil {
			cnt.Inc("split:" + k)
		}
	}
	if (op.Kind == "mintmsg" || op.Kind == "burnmsg") && inRangeU(op.A) && inRangeV(op.V) && inRangeV(op.D) && op.D != op.V && r.cls != ClassOk {
		if op.Kind == "burnmsg" && b.dsup[op.V].Sign() > 0 && b.dbal[op.A][op.D].Cmp(bigOf(op.Amt)) >= 0 && bigOf(op.Amt).Sign() > 0 &&
			b.delOr0(aLiq, op.V).Cmp(new(big.Int).Mul(bigOf(op.Amt), prec)) >= 0 {
			mark("burnmsg:other-validator-with-derivatives-refused")
		}
		if op.Kind == "mintmsg" {
			mark("mintmsg:derivative-denom-refused")
		}
	}
	op = plainKind(op)
	switch op.Kind {
	case "savlist":
		if r.cls == ClassOk && b.listed && !a.listed {
			mark("savlist:delisted")
			for x := 0; x < nAcc; x++ {
				for i := 0; i < nVal; i++ {
					if b.sav[x][i].Sign() > 0 {
						mark("savlist:delisted-with-derivatives-in-savings")
					}
				}
			}
		}
		if r.cls == ClassOk && !b.listed && a.listed {
			mark("savlist:relisted")
		}
	case "stash":
		if !b.listed && r.cls != ClassOk && inRangeU(op.A) && inRangeV(op.V) && bigOf(op.Amt).Sign() > 0 &&
			b.dbal[op.A][op.V].Cmp(bigOf(op.Amt)) >= 0 && b.vals[op.V].Exists {
			mark("stash:refused-while-delisted:" + op.Place)
		}
	case "unstash":
		if !b.listed && r.cls == ClassOk && op.Place == "savings" {
			mark("unstash:savings-while-delisted")
		}
	case "mint", "burn":
		if !inRangeU(op.A) || !inRangeV(op.V) {
			return
		}
		v := b.vals[op.V]
		if r.cls != ClassOk {
			if b.redel[op.A][op.V] && op.Kind == "mint" {
				mark("mint:refused-incoming-redelegation")
			}
			if op.Kind == "mint" && op.A == operOf[op.V] && strings.Contains(fmt.Sprint(r.err), "self delegation") {
				mark("mint:refused-min-self-delegation")
			}
			if op.Kind == "burn" && strings.Contains(fmt.Sprint(r.err), "validator does not exist") {
				mark("burn:refused-validator-removed")
			}
			return
		}
		mark(op.Kind + ":" + rateClass(v))
		mark(op.Kind + ":validator-" + statusName(v.Status))
		if v.Jailed {
			mark(op.Kind + ":validator-jailed")
		}
		if op.Kind == "mint" {
			if a.del[op.A][op.V] == nil {
				mark("mint:whole-delegation")
			}
			if new(big.Int).Sub(b.delOr0(op.A, op.V), a.delOr0(op.A, op.V)).Cmp(v.Shares) == 0 {
				mark("mint:all-validator-shares")
			}
			if op.A == operOf[op.V] {
				mark("mint:by-operator")
			}
			if bigOf(op.Amt).Cmp(big.NewInt(10)) <= 0 {
				mark("mint:at-most-ten-units")
			}
		} else {
			if b.del[op.A][op.V] == nil {
				mark("burn:holder-without-delegation")
			}
			if r.shares != nil && r.shares.Sign() == 0 {
				mark("burn:receives-zero-shares")
			}
			if a.del[aLiq][op.V] == nil {
				mark("burn:module-delegation-emptied")
			}
			if b.redel[op.A][op.V] {
				mark("burn:holder-has-incoming-redelegation")
			}
		}
	case "slash":
		if r.cls == ClassOk && inRangeV(op.V) && b.vals[op.V].Tokens.Cmp(a.vals[op.V].Tokens) != 0 {
			mark("slash:burned")
		}
	case "endblock":
		for i := 0; i < nVal; i++ {
			if b.vals[i].Status != a.vals[i].Status {
				mark("endblock:" + statusName(b.vals[i].Status) + "->" + statusName(a.vals[i].Status))
			}
			if b.vals[i].Exists && !a.vals[i].Exists {
				mark("endblock:validator-removed")
			}
		}
	case "undelegate":
		if r.cls == ClassOk && inRangeV(op.V) && !b.vals[op.V].Jailed && a.vals[op.V].Jailed {
			mark("undelegate:operator-jailed")
		}
	case "redelegate":
		if r.cls == ClassOk {
			mark("redelegate:ok")
		}
	case "tally":
		if r.cls != ClassOk {
			mark("tally:panic")
			return
		}
		for _, v := range op.Votes {
			for i := 0; i < nVal; i++ {
				if b.dbal[v.Voter][i].Sign() > 0 {
					mark("tally:derivative-in-wallet")
				}
				if b.sav[v.Voter][i].Sign() > 0 {
					mark("tally:derivative-in-savings")
					if !b.listed && b.curr(i) {
						mark("tally:derivative-in-savings-while-delisted")
					}
				}
				if b.ern[v.Voter][i].Sign() > 0 {
					mark("tally:derivative-in-earn")
				}
				if b.held(v.Voter, i).Sign() > 0 && b.vals[i].Exists && !b.curr(i) {
					mark("tally:derivative-of-non-bonded-validator")
				}
				if v.Voter == operOf[i] && b.curr(i) {
					mark("tally:validator-votes")
				}
				if b.del[v.Voter][i] != nil && b.curr(i) && v.Voter != operOf[i] {
					mark("tally:delegator-votes")
				}
			}
			if len(v.Opts) > 1 {
				mark("tally:weighted-vote")
			}
		}
		if r.tally.Passes {
			mark("tally:passes")
		}
	}
}

var allSplits = []string{
	"mint:rate=1", "mint:rate<1", "mint:validator-bonded", "mint:validator-unbonding", "mint:validator-unbonded", "mint:validator-jailed",
	"mint:whole-delegation", "mint:all-validator-shares", "mint:by-operator", "mint:at-most-ten-units",
	"mint:refused-incoming-redelegation", "mint:refused-min-self-delegation",
	"burn:rate=1", "burn:rate<1", "burn:validator-bonded", "burn:validator-unbonding", "burn:validator-unbonded", "burn:validator-jailed",
	"burn:holder-without-delegation", "burn:receives-zero-shares", "burn:module-delegation-emptied", "burn:holder-has-incoming-redelegation",
	"slash:burned", "endblock:bonded->unbonding", "endblock:unbonding->unbonded", "endblock:unbonding->bonded", "undelegate:operator-jailed", "redelegate:ok",
	"tally:derivative-in-wallet", "tally:derivative-in-savings", "tally:derivative-in-earn", "tally:derivative-of-non-bonded-validator",
	"tally:validator-votes", "tally:delegator-votes", "tally:weighted-vote", "tally:passes",
	"burnmsg:other-validator-with-derivatives-refused", "mintmsg:derivative-denom-refused",
	"savlist:delisted", "savlist:delisted-with-derivatives-in-savings", "savlist:relisted", "stash:refused-while-delisted:savings",
	"stash:refused-while-delisted:earn", "unstash:savings-while-delisted", "tally:derivative-in-savings-while-delisted",
}

// plainKind: a message-level mint / burn whose denom is the one every ordinary client sends is the
// plain operation (the monitors and case splits of mint / burn apply to it)
func plainKind(op Op) Op {
	if op.Kind == "burnmsg" && op.D == op.V {
		op.Kind = "burn"
	}
	if op.Kind == "mintmsg" && op.D == -1 {
		op.Kind = "mint"
	}
	return op
}

func shrinkFailure(seed uint64, idx int, st Setup, ops []Op, f Failure) Failure {
	sig := f.Signature
	fails := func(cand []Op) bool {
		o := runHist(seed, idx, 0, &st, cand, nil)
		for _, g := range o.fails {
			if g.Signature == sig {
				return true
			}
		}
		return false
	}
	small := Shrink(ops[:f.Step+1], fails)
	o := runHist(seed, idx, 0, &st, small, nil)
	for _, g := range o.fails {
		if g.Signature == sig {
			g.History = idx
			g.Replay = MustJSON(Hist{seed, idx, st, small})
			return g
		}
	}
	f.Replay = MustJSON(Hist{seed, idx, st, ops[:f.Step+1]})
	return f
}

func run(o Opts) (*Result, error) {
	n := o.Len
	if n == 0 {
		n = defaultLen
	}
	res := &Result{Property: "C12", Seed: o.Seed,
		Rule: "histories of " + fmt.Sprint(n) + " operations (staking messages, slash/jail, end blocker, liquid mint/burn incl. messages whose coin denom and validator field disagree, derivative transfers and savings/earn custody, savings parameter changes that remove \"bkava\" from SupportedDenoms and put it back, governance tallies) generated from splitmix64(seed, history index) on a fresh app.TestApp with three extra validators; a history is non-trivial when it contains a successful mint or burn on a validator whose exchange rate is not one, or a tally with derivative-holding voters; distinct by hash of setup and operation list"}
	cnt := NewCounters()

	if o.Replay != "" {
		bz, err := os.ReadFile(o.Replay)
		if err != nil {
			return nil, err
		}
		var h Hist
		if err := json.Unmarshal(bz, &h); err != nil {
			return nil, err
		}
		if len(h.Setup.SelfDel) != nOps {
			return nil, fmt.Errorf("replay file has no setup")
		}
		ro := runHist(h.Seed, h.Idx, 0, &h.Setup, h.Ops, cnt)
		name, err := WriteShard(o.OutDir, 0, coqHeader, []string{ro.coq}, "mismatches4")
		if err != nil {
			return nil, err
		}
		res.Shards = []string{name}
		res.HistIndex = []HistRef{{0, 0, h.Idx, MustJSON(h)}}
		res.Histories, res.Evaluations = 1, len(h.Ops)
		for _, f := range ro.fails {
			f.Replay = MustJSON(h)
			res.Failures = append(res.Failures, f)
		}
		res.Counters = cnt.Map()
		return res, nil
	}

	fixed := fixedHists()
	outs := make([]runOut, o.N+len(fixed))
	// only the first few witnesses of a signature are shrunk (the verdict needs one)
	var mu sync.Mutex
	shrunk := map[string]int{}
	ParallelFor(o.N+len(fixed), o.Workers, func(i int) {
		var ro runOut
		if i >= o.N {
			// the fixed histories (known-finding witnesses) run after the generated ones
			fh := fixed[i-o.N]
			ro = runHist(o.Seed, i, 0, &fh.Setup, fh.Ops, cnt)
		} else {
			ro = runHist(o.Seed, i, n, nil, nil, cnt)
		}
		for k, f := range ro.fails {
			mu.Lock()
			shrunk[f.Signature]++
			do := shrunk[f.Signature] <= 2
			mu.Unlock()
			if do {
				ro.fails[k] = shrinkFailure(o.Seed, i, ro.setup, ro.ops, f)
			} else {
				ro.fails[k].Replay = MustJSON(Hist{o.Seed, i, ro.setup, ro.ops[:f.Step+1]})
			}
		}
		outs[i] = ro
	})

	seen := map[string]bool{}
	perShard := 25
	var cases []string
	shard := 0
	flush := func() error {
		if len(cases) == 0 {
			return nil
		}
		name, err := WriteShard(o.OutDir, shard, coqHeader, cases, "mismatches4")
		if err != nil {
			return err
		}
		res.Shards = append(res.Shards, name)
		shard++
		cases = nil
		return nil
	}
	for i, ot := range outs {
		res.Histories++
		res.Evaluations += len(ot.ops)
		h := Hist{o.Seed, i, ot.setup, ot.ops}
		key := string(MustJSON(h.Setup)) + string(MustJSON(ot.ops))
		nontrivial := ot.splits["mint:rate<1"] || ot.splits["burn:rate<1"] || ot.splits["tally:derivative-in-wallet"] || ot.splits["tally:derivative-in-savings"] || ot.splits["tally:derivative-in-earn"]
		if nontrivial && !seen[key] {
			seen[key] = true
			res.DistinctNontrivial++
		}
		if i < 2 {
			res.Samples = append(res.Samples, h)
		}
		res.HistIndex = append(res.HistIndex, HistRef{shard, len(cases), i, MustJSON(h)})
		cases = append(cases, ot.coq)
		if len(cases) == perShard {
			if err := flush(); err != nil {
				return nil, err
			}
		}
		res.Failures = append(res.Failures, ot.fails...)
	}
	// put the shortest witness of every signature first
	sort.SliceStable(res.Failures, func(x, y int) bool {
		fx, fy := res.Failures[x], res.Failures[y]
		if fx.Signature != fy.Signature {
			return fx.Signature < fy.Signature
		}
		return len(fx.Replay) < len(fy.Replay)
	})
	if err := flush(); err != nil {
		return nil, err
	}
	res.Counters = cnt.Map()
	for _, k := range allSplits {
		if res.Counters["split:"+k] == 0 {
			res.QualityGate = append(res.QualityGate, k)
		}
	}
	return res, nil
}
