package c12

// The fixed history: minimal witness of the known finding
// "staked-value-changed:mint:unbond-truncation-reprices-remaining-shares" (known_findings.json; a copy of
// the replay file is /verif/corpus/C12/witness_mint_loss3.json; closed Coq witness:
// Properties/C12.v C12_value_two_units_refuted).  It runs on every check, after the generated
// histories, so that the finding is seen to reproduce; if somebody changes the rounding of the
// conversion it stops failing and the check says so ("known finding did not reproduce").

import "encoding/json"

const witnessMintLoss3JSON = `{"seed":1,"history":0,"setup":{"self_delegation":["1000002","1000000","1000000"],"min_self_delegation":["1","1","1"],"fund":"100000000000"},
"ops":[{"kind":"delegate","a":0,"v":1,"amt":"1000001"},
{"kind":"slash","v":1,"power":1,"factor":"0.070000000000000000"},
{"kind":"undelegate","a":5,"v":1,"amt":"965001"},
{"kind":"mint","a":0,"v":1,"amt":"965002"},
{"kind":"tally","votes":[{"voter":0,"opts":[{"o":0,"w":"1.000000000000000000"}]},{"voter":5,"opts":[{"o":2,"w":"1.000000000000000000"}]}]},
{"kind":"burn","a":0,"v":1,"amt":"499999"}]}`

func fixedHists() []Hist {
	var out []Hist
	for _, js := range []string{witnessMintLoss3JSON} {
		var h Hist
		if err := json.Unmarshal([]byte(js), &h); err != nil {
			panic(err)
		}
		out = append(out, h)
	}
	return out
}
