package c12

// monitor.go: the property stated directly on the implementation's observable
// state, independently of the Coq model.

import (
	. "kavaverif/lib"

	"fmt"
	"math/big"
	"strings"

	sdk "github.com/cosmos/cosmos-sdk/types"
)

type finding struct{ pred, sig, detail string }

func decOf(m *big.Int) sdk.Dec { return sdk.NewDecFromBigIntWithPrec(m, 18) }

// stakedValue: the tokens the validator record attributes to `shares` (validator.TokensFromShares, truncated)
func stakedValue(v valSnap, shares *big.Int) *big.Int {
	if !v.Exists || v.Shares.Sign() == 0 {
		return big.NewInt(0)
	}
	return v.raw.TokensFromShares(decOf(shares)).TruncateInt().BigInt()
}

func rateClass(v valSnap) string {
	if !v.Exists {
		return "removed"
	}
	tp := new(big.Int).Mul(v.Tokens, prec)
	switch tp.Cmp(v.Shares) {
	case 0:
		return "rate=1"
	case -1:
		return "rate<1"
	}
	return "rate>1"
}

// ownedShares: delegation shares + derivative units (1 unit = 1 share) of an account for a validator
func ownedShares(s *snap, a, i int) *big.Int {
	x := new(big.Int).Mul(s.held(a, i), prec)
	return x.Add(x, s.delOr0(a, i))
}

func statusName(i int) string { return [...]string{"unbonded", "unbonding", "bonded"}[i] }

func monitor(w *world, op Op, r result, b, a *snap) (out []finding) {
	add := func(pred, sig, detail string) { out = append(out, finding{pred, sig, detail}) }
	amt := bigOf(op.Amt)
	msgKind := op.Kind
	op = plainKind(op)

	// burning moves the stake of the burned derivative's validator back: a burn message is never
	// served from the module's delegation to another validator than the coin's
	if r.cls == ClassOk && (msgKind == "burnmsg" || msgKind == "mintmsg") && op.Kind == msgKind {
		add("conversion-moves-the-stake", "conversion-accepted-with-foreign-denom:"+msgKind,
			fmt.Sprintf("%s by %d naming validator %d accepted a coin of denom index %d (-1 = bond denom), amount %s", msgKind, op.A, op.V, op.D, amt))
	}

	// a refused operation changes nothing
	if r.cls != ClassOk {
		if op.Kind != "endblock" && !snapEqual(b, a) {
			add("refused-changes-nothing", "refused-op-changed-state", op.Kind)
		}
		if op.Kind == "tally" && r.cls == ClassPanic {
			add("tally-does-not-panic", "tally-panics", fmt.Sprint(r.err))
		}
		// every holder can always redeem
		if op.Kind == "burn" && amt.Sign() > 0 && inRangeU(op.A) && inRangeV(op.V) && b.dbal[op.A][op.V].Cmp(amt) >= 0 {
			need := new(big.Int).Mul(amt, prec)
			msg := fmt.Sprint(r.err)
			switch {
			case b.vals[op.V].Exists && b.vals[op.V].Tokens.Sign() == 0:
				// the validator was slashed to nothing: there is no stake left to redeem
			case b.delOr0(aLiq, op.V).Cmp(need) < 0:
				add("holder-can-redeem", "redeem-refused:module-delegation-short",
					fmt.Sprintf("burn %s of validator %d: module holds %s shares (mantissa), supply %s; %s", amt, op.V, b.delOr0(aLiq, op.V), b.dsup[op.V], msg))
			case strings.Contains(msg, "validator does not exist"):
				add("holder-can-redeem", "redeem-refused:last-shares-of-unbonded-validator",
					fmt.Sprintf("burn %s of validator %d (%s, shares %s): %s", amt, op.V, statusName(b.vals[op.V].Status), b.vals[op.V].Shares, msg))
			default:
				add("holder-can-redeem", "redeem-refused:other", fmt.Sprintf("burn %s of validator %d (%s): %s", amt, op.V, rateClass(b.vals[op.V]), msg))
			}
		}
		return
	}

	// ---- after every successful operation
	// never an empty delegation
	for x := 0; x < nAcc; x++ {
		for i := 0; i < nVal; i++ {
			if a.del[x][i] != nil && a.del[x][i].Sign() == 0 && !(b.del[x][i] != nil && b.del[x][i].Sign() == 0) {
				sig := "zero-share-delegation:" + op.Kind
				add("no-empty-delegation", sig, fmt.Sprintf("delegation (%d,%d) stored with 0 shares after %s %s (validator %s)", x, i, op.Kind, op.Amt, rateClass(b.vals[i])))
			}
		}
	}
	// backing: the derivative supply never exceeds the module's delegation shares;
	// reported for the operation that makes or widens a shortfall
	for i := 0; i < nVal; i++ {
		gapB := new(big.Int).Sub(new(big.Int).Mul(b.dsup[i], prec), b.delOr0(aLiq, i))
		gapA := new(big.Int).Sub(new(big.Int).Mul(a.dsup[i], prec), a.delOr0(aLiq, i))
		if gapA.Sign() > 0 && gapA.Cmp(gapB) > 0 {
			sig := "backing:" + op.Kind
			if op.Kind == "mint" && op.V == i {
				sig += ":" + rateClass(b.vals[i])
				if mv := new(big.Int).Sub(b.delOr0(op.A, i), a.delOr0(op.A, i)); mv.Cmp(b.vals[i].Shares) == 0 {
					sig += ":all-validator-shares" // the exchange rate is reset to one by the re-delegation
				}
			}
			add("supply-backed-by-module-shares", sig,
				fmt.Sprintf("validator %d: supply %s units, module delegation %s (mantissa), shortfall %s -> %s", i, a.dsup[i], a.delOr0(aLiq, i), gapB, gapA))
		}
	}

	switch op.Kind {
	case "mint", "burn":
		u, i := op.A, op.V
		from, to := u, aLiq
		if op.Kind == "burn" {
			from, to = aLiq, u
		}
		// the validator's tokens, status, jailing are unchanged; other validators untouched
		for j := 0; j < nVal; j++ {
			vb, va := b.vals[j], a.vals[j]
			if vb.Exists != va.Exists || vb.Tokens.Cmp(va.Tokens) != 0 || vb.Status != va.Status || vb.Jailed != va.Jailed {
				add("conversion-keeps-validator-tokens", "conversion-changed-validator:"+op.Kind,
					fmt.Sprintf("validator %d tokens %s -> %s status %d -> %d", j, vb.Tokens, va.Tokens, vb.Status, va.Status))
			}
			if j != i && vb.Shares.Cmp(va.Shares) != 0 {
				add("conversion-keeps-validator-tokens", "conversion-changed-other-validator", fmt.Sprint(j))
			}
		}
		// no unbonding period, no balance change
		for x := 0; x < nAcc; x++ {
			if b.ubd[x].Cmp(a.ubd[x]) != 0 || b.bal[x].Cmp(a.bal[x]) != 0 {
				add("conversion-without-unbonding", "conversion-changed-balance-or-unbonding:"+op.Kind, fmt.Sprintf("account %d", x))
			}
			for j := 0; j < nVal; j++ {
				touched := j == i && (x == from || x == to)
				if !touched && !sameOpt(b.del[x][j], a.del[x][j]) {
					add("conversion-moves-only-the-parties", "conversion-changed-third-party-delegation", fmt.Sprintf("(%d,%d)", x, j))
				}
				if !(j == i && x == u) && b.dbal[x][j].Cmp(a.dbal[x][j]) != 0 {
					add("conversion-moves-only-the-parties", "conversion-changed-third-party-derivative", fmt.Sprintf("(%d,%d)", x, j))
				}
			}
		}
		moved := new(big.Int).Sub(b.delOr0(from, i), a.delOr0(from, i))
		recv := new(big.Int).Sub(a.delOr0(to, i), b.delOr0(to, i))
		dd := new(big.Int).Sub(a.dbal[u][i], b.dbal[u][i])
		ds := new(big.Int).Sub(a.dsup[i], b.dsup[i])
		if moved.Sign() <= 0 || recv.Sign() < 0 || (op.Kind == "mint" && recv.Sign() == 0) {
			add("conversion-moves-the-stake", "conversion-wrong-direction:"+op.Kind, fmt.Sprintf("moved %s received %s", moved, recv))
		}
		if op.Kind == "mint" {
			// minted = min(whole shares taken from the user, whole shares received by the module) > 0
			want := new(big.Int).Quo(moved, prec)
			if got := new(big.Int).Quo(recv, prec); got.Cmp(want) < 0 {
				want = got
			}
			if want.Sign() <= 0 || dd.Cmp(want) != 0 || ds.Cmp(want) != 0 || r.shares == nil || r.shares.Cmp(want) != 0 {
				add("mint-issues-min-of-shares-moved-and-received", "mint-amount-mismatch", fmt.Sprintf("moved %s received %s minted %s supply %s", moved, recv, dd, ds))
			}
		} else {
			want := new(big.Int).Neg(amt)
			if dd.Cmp(want) != 0 || ds.Cmp(want) != 0 || moved.Cmp(new(big.Int).Mul(amt, prec)) != 0 || r.shares == nil || r.shares.Cmp(recv) != 0 {
				add("burn-moves-one-share-per-unit", "burn-amount-mismatch", fmt.Sprintf("moved %s burned %s supply %s received %s", moved, dd, ds, recv))
			}
		}
		// the staked value owned by the user changes by at most two base units
		vb := stakedValue(b.vals[i], ownedShares(b, u, i))
		va := stakedValue(a.vals[i], ownedShares(a, u, i))
		diff := new(big.Int).Sub(va, vb)
		if diff.CmpAbs(big.NewInt(2)) > 0 {
			sig := "staked-value-changed:" + op.Kind + ":" + rateClass(b.vals[i])
			if a.vals[i].Shares.Cmp(recv) == 0 {
				sig += ":all-validator-shares"
			}
			if op.Kind == "mint" && mintLossExplained(b.vals[i], a.vals[i], moved, new(big.Int).Neg(diff)) {
				sig = "staked-value-changed:mint:unbond-truncation-reprices-remaining-shares"
			}
			add("conversion-keeps-user-value", sig, fmt.Sprintf("user %d validator %d: value %s -> %s (%s %s)", u, i, vb, va, op.Kind, op.Amt))
		}
		// guards
		// the party whose delegation is unbonded (the sender of the shares) must have no
		// incoming redelegation to the validator: the user for a mint, the module for a burn
		if b.redel[from][i] {
			add("refused-with-incoming-redelegation", op.Kind+"-accepted-with-incoming-redelegation", fmt.Sprintf("sender %d validator %d", from, i))
		}
		if op.Kind == "mint" && u == operOf[i] {
			if stakedValue(a.vals[i], a.delOr0(u, i)).Cmp(a.vals[i].MinSelf) < 0 {
				add("self-delegation-stays-above-minimum", "mint-left-self-delegation-below-minimum",
					fmt.Sprintf("validator %d self delegation worth %s < %s", i, stakedValue(a.vals[i], a.delOr0(u, i)), a.vals[i].MinSelf))
			}
		}
	case "tally":
		t := r.tally
		sum := new(big.Int).Add(t.Yes, t.Abstain)
		sum.Add(sum, t.No).Add(sum, t.Veto)
		if sum.Cmp(b.bonded) > 0 {
			sig := "tally-exceeds-bonded"
			for _, v := range op.Votes {
				for i := 0; i < nVal; i++ {
					if b.held(v.Voter, i).Sign() > 0 && b.vals[i].Exists && !b.curr(i) {
						sig = "tally-exceeds-bonded:derivative-of-non-bonded-validator-counted"
					}
				}
			}
			add("counted-power-at-most-bonded-stake", sig, fmt.Sprintf("counted %s > bonded %s", sum, b.bonded))
		}
		// a derivative votes only while its validator is bonded: voters whose only
		// stake is derivatives of validators outside the bonded set carry no power
		onlyDead := len(op.Votes) > 0
		for _, v := range op.Votes {
			for i := 0; i < nVal; i++ {
				if b.curr(i) && (b.del[v.Voter][i] != nil && b.del[v.Voter][i].Sign() > 0 || b.held(v.Voter, i).Sign() > 0 || v.Voter == operOf[i]) {
					onlyDead = false
				}
			}
		}
		if onlyDead && sum.Sign() != 0 {
			add("derivative-votes-only-while-bonded", "derivative-of-non-bonded-validator-counted", fmt.Sprintf("counted %s with no voter holding bonded stake", sum))
		}
		// a derivative carries the voting power its backing delegation would carry: every voter's
		// own stake — delegations plus derivatives held in wallet, savings and earn, of validators
		// in the bonded set — is counted for the options it voted, weight by weight (validators'
		// inherited power only adds to that).  Lower bound per option, one unit of slack per term.
		{
			want := [4]*big.Int{new(big.Int), new(big.Int), new(big.Int), new(big.Int)}
			terms := int64(0)
			last := map[int]int{} // a second vote of the same voter replaces the first
			for k, v := range op.Votes {
				last[v.Voter] = k
			}
			for k, v := range op.Votes {
				if last[v.Voter] != k {
					continue
				}
				own := new(big.Int)
				for i := 0; i < nVal; i++ {
					if !b.curr(i) {
						continue
					}
					sh := new(big.Int).Mul(b.held(v.Voter, i), prec)
					sh.Add(sh, b.delOr0(v.Voter, i))
					own.Add(own, stakedValue(b.vals[i], sh))
					terms++
				}
				for _, o := range v.Opts {
					wd, err := sdk.NewDecFromStr(o.W)
					if err != nil || o.O < 0 || o.O > 3 || wd.IsNegative() {
						continue
					}
					part := new(big.Int).Mul(own, wd.BigInt())
					part.Quo(part, prec)
					want[o.O].Add(want[o.O], part)
					terms++
				}
			}
			got := [4]*big.Int{t.Yes, t.Abstain, t.No, t.Veto}
			for o := 0; o < 4; o++ {
				low := new(big.Int).Sub(want[o], big.NewInt(terms+1))
				if got[o].Cmp(low) < 0 {
					add("derivative-carries-the-power-of-its-backing", "tally-undercounts-voter-stake",
						fmt.Sprintf("option %d: counted %s, the voters' own delegations and derivatives of bonded validators are worth at least %s", o, got[o], want[o]))
					break
				}
			}
		}
		// counted once, wherever it is held: moving a voter's wallet derivatives into
		// savings or earn does not change the result
		if f := custodyInvariance(w, op, t); f != nil {
			out = append(out, *f)
		}
		// ... and neither does taking a voter's derivatives out of its savings deposit (withdrawals
		// are open whatever the savings parameters say)
		if f := custodyInvarianceOut(w, op, t); f != nil {
			out = append(out, *f)
		}
	}
	return
}

// mintLossExplained is the classifier of the known finding "a mint can cost three base units"
// (Properties/C12.v C12_value_two_units_refuted, C12_value_loss_by_share_price): Unbond
// truncates less than one token, the mint floors less than one received share, and a share is
// worth at most c = ceil(tokens * 10^18 / shares) tokens AFTER the mint; the theorem bounds the
// loss by c + 1 when the mint does not convert every share of the validator and the validator
// holds at most 10^18 tokens.  A loss above two units is the known finding exactly when that
// formula explains it (so c >= 2: the shares left behind were repriced above one token);
// anything else keeps the generic signature and is a violation.
func mintLossExplained(vb, va valSnap, moved, loss *big.Int) bool {
	if !vb.Exists || !va.Exists || va.Shares.Sign() <= 0 || loss.Cmp(big.NewInt(3)) < 0 {
		return false
	}
	if moved.Cmp(vb.Shares) == 0 || vb.Tokens.Cmp(prec) > 0 {
		return false
	}
	// c = ceil(T * 10^18 / S) after the mint
	num := new(big.Int).Mul(va.Tokens, prec)
	c, m := new(big.Int).QuoRem(num, va.Shares, new(big.Int))
	if m.Sign() != 0 {
		c.Add(c, big.NewInt(1))
	}
	if c.Sign() <= 0 {
		c.SetInt64(1)
	}
	return loss.Cmp(new(big.Int).Add(c, big.NewInt(1))) <= 0
}

func custodyInvariance(w *world, op Op, base *tallyOut) *finding {
	cctx, _ := w.ctx.CacheContext()
	moved := false
	for k, v := range op.Votes {
		for i := 0; i < nVal; i++ {
			bal := w.bk.GetBalance(cctx, w.addrs[v.Voter], w.denoms[i])
			if !bal.Amount.IsPositive() || !w.lk.IsDerivativeDenom(cctx, bal.Denom) {
				continue
			}
			// a refused deposit leaves nothing behind (while "bkava" is not a supported savings
			// denom both are refused, earn only after it has moved the coins)
			cls, _ := Atomically(cctx, func(ctx sdk.Context) error {
				if (k+i)%2 == 0 {
					return w.tApp.GetSavingsKeeper().Deposit(ctx, w.addrs[v.Voter], sdk.NewCoins(bal))
				}
				ek := w.tApp.GetEarnKeeper()
				return ek.Deposit(ctx, w.addrs[v.Voter], bal, 2) // STRATEGY_TYPE_SAVINGS
			})
			if cls == ClassOk {
				moved = true
			}
		}
	}
	if !moved {
		return nil
	}
	r := w.execTally(cctx, op.Votes)
	if r.cls != ClassOk {
		return &finding{"counted-once-wherever-held", "tally-differs-by-custody", fmt.Sprintf("tally after moving derivatives: %v", r.err)}
	}
	t := r.tally
	if t.Yes.Cmp(base.Yes) != 0 || t.No.Cmp(base.No) != 0 || t.Abstain.Cmp(base.Abstain) != 0 || t.Veto.Cmp(base.Veto) != 0 || t.Passes != base.Passes || t.Burn != base.Burn {
		return &finding{"counted-once-wherever-held", "tally-differs-by-custody",
			fmt.Sprintf("wallet: %s/%s/%s/%s  savings+earn: %s/%s/%s/%s", base.Yes, base.Abstain, base.No, base.Veto, t.Yes, t.Abstain, t.No, t.Veto)}
	}
	return nil
}

// custodyInvarianceOut: every voter withdraws the derivatives of its savings deposit into its wallet
// (on a discarded branch); the same votes must give the same result
func custodyInvarianceOut(w *world, op Op, base *tallyOut) *finding {
	cctx, _ := w.ctx.CacheContext()
	svk := w.tApp.GetSavingsKeeper()
	moved := false
	for _, v := range op.Votes {
		dep, found := svk.GetDeposit(cctx, w.addrs[v.Voter])
		if !found {
			continue
		}
		for _, c := range dep.Amount {
			if !c.Amount.IsPositive() || !w.lk.IsDerivativeDenom(cctx, c.Denom) {
				continue
			}
			if cls, _ := Atomically(cctx, func(ctx sdk.Context) error {
				return svk.Withdraw(ctx, w.addrs[v.Voter], sdk.NewCoins(c))
			}); cls == ClassOk {
				moved = true
			}
		}
	}
	if !moved {
		return nil
	}
	r := w.execTally(cctx, op.Votes)
	if r.cls != ClassOk {
		return &finding{"counted-once-wherever-held", "tally-differs-by-custody", fmt.Sprintf("tally after withdrawing derivatives from savings: %v", r.err)}
	}
	t := r.tally
	if t.Yes.Cmp(base.Yes) != 0 || t.No.Cmp(base.No) != 0 || t.Abstain.Cmp(base.Abstain) != 0 || t.Veto.Cmp(base.Veto) != 0 || t.Passes != base.Passes || t.Burn != base.Burn {
		return &finding{"counted-once-wherever-held", "tally-differs-by-custody",
			fmt.Sprintf("in savings: %s/%s/%s/%s  withdrawn to the wallet: %s/%s/%s/%s", base.Yes, base.Abstain, base.No, base.Veto, t.Yes, t.Abstain, t.No, t.Veto)}
	}
	return nil
}

func sameOpt(x, y *big.Int) bool {
	if x == nil || y == nil {
		return x == nil && y == nil
	}
	return x.Cmp(y) == 0
}

func snapEqual(b, a *snap) bool {
	for i := 0; i < nVal; i++ {
		vb, va := b.vals[i], a.vals[i]
		if vb.Exists != va.Exists || vb.Tokens.Cmp(va.Tokens) != 0 || vb.Shares.Cmp(va.Shares) != 0 || vb.Status != va.Status || vb.Jailed != va.Jailed {
			return false
		}
		if b.dsup[i].Cmp(a.dsup[i]) != 0 {
			return false
		}
	}
	for x := 0; x < nAcc; x++ {
		if b.bal[x].Cmp(a.bal[x]) != 0 || b.ubd[x].Cmp(a.ubd[x]) != 0 {
			return false
		}
		for i := 0; i < nVal; i++ {
			if !sameOpt(b.del[x][i], a.del[x][i]) || b.dbal[x][i].Cmp(a.dbal[x][i]) != 0 || b.sav[x][i].Cmp(a.sav[x][i]) != 0 ||
				b.ern[x][i].Cmp(a.ern[x][i]) != 0 || b.redel[x][i] != a.redel[x][i] {
				return false
			}
		}
	}
	return true
}
