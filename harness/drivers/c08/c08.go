package c08

// C08 — x/hard money market.  Histories of MsgDeposit / MsgWithdraw / MsgBorrow /
// MsgRepay / MsgLiquidate (ValidateBasic + the real msg server), governance parameter changes
// (k.SetParams; the next begin block syncs the money-market store), price changes through
// the real pricefeed keeper, plain bank transfers to the module account and begin blocks
// (hard.BeginBlocker at a later block time) on a fresh app.TestApp, with monitors stating
// the property on the implementation and Coq case files for Model/Hard.v.

import (
	. "kavaverif/lib"

	"encoding/json"
	"fmt"
	"math/big"
	"os"
	"strings"
	"time"

	sdkmath "cosmossdk.io/math"
	sdk "github.com/cosmos/cosmos-sdk/types"

	"github.com/kava-labs/kava/app"
	"github.com/kava-labs/kava/x/hard"
	hardkeeper "github.com/kava-labs/kava/x/hard/keeper"
	hardtypes "github.com/kava-labs/kava/x/hard/types"
	pfkeeper "github.com/kava-labs/kava/x/pricefeed/keeper"
	pftypes "github.com/kava-labs/kava/x/pricefeed/types"
)

func init() { Registry["C08"] = runC08 }

// denoms in string order; the last one has no money market
var denoms = []string{"bnb", "busd", "ukava", "weth", "zzz"}

const (
	nD       = 5
	nMkt     = 4
	nU       = 4
	hardAcc  = nU
	aucAcc   = nU + 1
	nAcc     = nU + 2
	defaultL = 36
)

var prec = Pow10(18)

type Coin struct {
	D int    `json:"d"`
	A string `json:"a"`
}

type Op struct {
	Kind  string       `json:"kind"` // deposit | withdraw | borrow | repay | liquidate | price | donate | block | params
	A     int          `json:"a,omitempty"`
	B     int          `json:"b,omitempty"`
	Coins []Coin       `json:"coins,omitempty"`
	D     int          `json:"d,omitempty"`
	X     string       `json:"x,omitempty"`   // price mantissa / donated amount
	T     int64        `json:"t,omitempty"`   // block: seconds to advance
	Fs    []string     `json:"fs,omitempty"`  // block: oracle factors (recomputed from the implementation at execution)
	X2    string       `json:"tag,omitempty"` // generator tag (which mixture component produced the amount)
	Mk    []*MarketCfg `json:"mk,omitempty"`  // params: the new money markets by denom index (null = removed)
}

type MarketCfg struct {
	CF      string `json:"cf"`
	LTV     string `json:"ltv"`
	HasMax  bool   `json:"has_max"`
	Max     string `json:"max"`
	Reserve string `json:"reserve"`
	Keeper  string `json:"keeper"`
	Base    string `json:"base"`
	Mult    string `json:"mult"`
	Kink    string `json:"kink"`
	Jump    string `json:"jump"`
}

type Cfg struct {
	Markets   []MarketCfg `json:"markets"`
	MinBorrow string      `json:"min_borrow"`
	Prices    []string    `json:"prices"` // initial prices (Dec strings)
	// Spot[d] = the denom whose pricefeed market ("<denom>:usd") is the SpotMarketID of money market d
	// (absent = every money market has its own spot market).  Denoms that share a spot market always
	// have the same price; a price change of the shared market is one "price" operation per denom
	// (the model keeps one price per denom), generated back to back.
	Spot []int `json:"spot,omitempty"`
}

func (c Cfg) spot(d int) int {
	if d < len(c.Spot) {
		return c.Spot[d]
	}
	return d
}

// sharers lists the money-market denoms priced by the same spot market as d (d included)
func (c Cfg) sharers(d int) []int {
	var out []int
	for x := 0; x < nMkt; x++ {
		if c.spot(x) == c.spot(d) {
			out = append(out, x)
		}
	}
	return out
}

type Hist struct {
	Seed uint64 `json:"seed"`
	Idx  int    `json:"history"`
	Cfg  Cfg    `json:"cfg"`
	Ops  []Op   `json:"ops"`
}

type world struct {
	tApp          app.TestApp
	ctx           sdk.Context
	hk            hardkeeper.Keeper
	pk            pfkeeper.Keeper
	addrs         []sdk.AccAddress
	cfg           Cfg
	height        int64
	now           time.Time
	cf            []*big.Int
	cur           []*MarketCfg // money markets of the params as last written with SetParams
	inForce       []*MarketCfg // the params as of the last successful begin block
	dirty         bool         // params changed since the last successful begin block
	prevForce     []*MarketCfg // the params in force before the last successful begin block
	keeperChanged bool         // some market's keeper share alone was changed by governance
	opSeq         int          // operations executed so far (stamp of statCache)
	statSeq       int
	statCache     []int
	overCause     []string // per user: what took the position over its limit (counters only)
}

func dec(s string) sdk.Dec { return sdk.MustNewDecFromStr(s) }

func bigOf(s string) *big.Int {
	x, ok := new(big.Int).SetString(s, 10)
	if !ok {
		panic("bad integer " + s)
	}
	return x
}

func mkMarket(cfg Cfg, d int, m MarketCfg) hardtypes.MoneyMarket {
	return hardtypes.NewMoneyMarket(denoms[d],
		hardtypes.NewBorrowLimit(m.HasMax, dec(m.Max), dec(m.LTV)),
		denoms[cfg.spot(d)]+":usd", sdkmath.NewIntFromBigInt(bigOf(m.CF)),
		hardtypes.NewInterestRateModel(dec(m.Base), dec(m.Mult), dec(m.Kink), dec(m.Jump)),
		dec(m.Reserve), dec(m.Keeper))
}

func copyMarkets(ms []*MarketCfg) []*MarketCfg {
	out := make([]*MarketCfg, len(ms))
	for i, m := range ms {
		if m != nil {
			c := *m
			out[i] = &c
		}
	}
	return out
}

func setup(cfg Cfg) *world {
	tApp := NewApp()
	users := Addrs(nU)
	cdc := tApp.AppCodec()
	b := app.NewAuthBankGenesisBuilder()
	for u := 0; u < nU; u++ {
		var cs sdk.Coins
		for d := 0; d < nD; d++ {
			cf := big.NewInt(1000000)
			if d < nMkt {
				cf = bigOf(cfg.Markets[d].CF)
			}
			amt := new(big.Int).Mul(cf, big.NewInt(1_000_000_000))
			if u == nU-1 { // a poor user
				amt = new(big.Int).Mul(cf, big.NewInt(40))
			}
			cs = append(cs, sdk.NewCoin(denoms[d], sdkmath.NewIntFromBigInt(amt)))
		}
		b.WithSimpleAccount(users[u], cs)
	}
	var mms hardtypes.MoneyMarkets
	var pms []pftypes.Market
	for d := 0; d < nMkt; d++ {
		m := cfg.Markets[d]
		mms = append(mms, mkMarket(cfg, d, m))
		pms = append(pms, pftypes.NewMarket(denoms[d]+":usd", denoms[d], "usd", []sdk.AccAddress{}, true))
	}
	hgs := hardtypes.NewGenesisState(hardtypes.NewParams(mms, dec(cfg.MinBorrow)),
		hardtypes.DefaultAccumulationTimes, hardtypes.DefaultDeposits, hardtypes.DefaultBorrows,
		hardtypes.DefaultTotalSupplied, hardtypes.DefaultTotalBorrowed, hardtypes.DefaultTotalReserves)
	pgs := pftypes.NewGenesisState(pftypes.NewParams(pms), nil)
	tApp.InitializeFromGenesisStatesWithTime(GenesisTime, b.BuildMarshalled(cdc),
		app.GenesisState{hardtypes.ModuleName: cdc.MustMarshalJSON(&hgs)},
		app.GenesisState{pftypes.ModuleName: cdc.MustMarshalJSON(&pgs)})
	w := &world{tApp: tApp, hk: tApp.GetHardKeeper(), pk: tApp.GetPriceFeedKeeper(), cfg: cfg, height: 2, now: GenesisTime}
	w.ctx = NewCtx(tApp, w.height, w.now)
	ak := tApp.GetAccountKeeper()
	w.addrs = append(w.addrs, users...)
	w.addrs = append(w.addrs, ak.GetModuleAccount(w.ctx, "hard").GetAddress(), ak.GetModuleAccount(w.ctx, "auction").GetAddress())
	for d := 0; d < nMkt; d++ {
		w.cf = append(w.cf, bigOf(cfg.Markets[d].CF))
		if cfg.spot(d) == d {
			w.setPrice(w.ctx, d, dec(cfg.Prices[d]))
		}
		m := cfg.Markets[d]
		w.cur = append(w.cur, &m)
	}
	w.inForce = copyMarkets(w.cur)
	w.statSeq = -1
	w.overCause = make([]string, nU)
	return w
}

// setPrice sets the price of the spot market of money market d
func (w *world) setPrice(ctx sdk.Context, d int, p sdk.Dec) {
	id := denoms[w.cfg.spot(d)] + ":usd"
	if _, err := w.pk.SetPrice(ctx, sdk.AccAddress{}, id, p, time.Date(2200, 1, 1, 0, 0, 0, 0, time.UTC)); err != nil {
		panic(err)
	}
	// with a zero price the current price is stored and GetCurrentPrice reports "no valid price"
	_ = w.pk.SetCurrentPrices(ctx, id)
}

// ------------------------------------------------------------ snapshots

type rec struct {
	amt []*big.Int
	idx [][2]*big.Int // (denom index, mantissa) in stored order
}

type synced struct {
	kind int // 0 none, 1 panic, 2 some
	amt  []*big.Int
}

type snap struct {
	bal    [][]*big.Int
	price  []*big.Int
	dep    []*rec
	bor    []*rec
	sdep   []synced
	sbor   []synced
	sfac   []*big.Int
	bfac   []*big.Int
	prev   []*big.Int
	tsup   []*big.Int
	tbor   []*big.Int
	tres   []*big.Int
	mkts   []string // Coq rendering of the stored money market per denom ("None" when absent)
	panics string
}

func denomIdx(s string) int {
	for i, d := range denoms {
		if d == s {
			return i
		}
	}
	return -1
}

func vecOf(cs sdk.Coins) []*big.Int {
	out := make([]*big.Int, nD)
	for d := 0; d < nD; d++ {
		out[d] = new(big.Int)
	}
	for _, c := range cs {
		if i := denomIdx(c.Denom); i >= 0 {
			out[i] = new(big.Int).Add(out[i], c.Amount.BigInt())
		}
	}
	return out
}

func (w *world) syncedDeposit(ctx sdk.Context, a sdk.AccAddress) (s synced) {
	defer func() {
		if r := recover(); r != nil {
			s = synced{kind: 1}
		}
	}()
	d, found := w.hk.GetSyncedDeposit(ctx, a)
	if !found {
		return synced{kind: 0}
	}
	return synced{kind: 2, amt: vecOf(d.Amount)}
}

func (w *world) syncedBorrow(ctx sdk.Context, a sdk.AccAddress) (s synced) {
	defer func() {
		if r := recover(); r != nil {
			s = synced{kind: 1}
		}
	}()
	b, found := w.hk.GetSyncedBorrow(ctx, a)
	if !found {
		return synced{kind: 0}
	}
	return synced{kind: 2, amt: vecOf(b.Amount)}
}

func (w *world) snap() *snap {
	ctx := w.ctx
	bk := w.tApp.GetBankKeeper()
	s := &snap{}
	for a := 0; a < nAcc; a++ {
		row := make([]*big.Int, nD)
		for d := range denoms {
			row[d] = bk.GetBalance(ctx, w.addrs[a], denoms[d]).Amount.BigInt()
		}
		s.bal = append(s.bal, row)
	}
	for d := 0; d < nD; d++ {
		p := new(big.Int)
		if d < nMkt {
			if cp, err := w.pk.GetCurrentPrice(ctx, denoms[w.cfg.spot(d)]+":usd"); err == nil {
				p = cp.Price.BigInt()
			}
		}
		s.price = append(s.price, p)
	}
	for u := 0; u < nU; u++ {
		if d, ok := w.hk.GetDeposit(ctx, w.addrs[u]); ok {
			r := &rec{amt: vecOf(d.Amount)}
			for _, f := range d.Index {
				r.idx = append(r.idx, [2]*big.Int{big.NewInt(int64(denomIdx(f.Denom))), f.Value.BigInt()})
			}
			s.dep = append(s.dep, r)
		} else {
			s.dep = append(s.dep, nil)
		}
		if b, ok := w.hk.GetBorrow(ctx, w.addrs[u]); ok {
			r := &rec{amt: vecOf(b.Amount)}
			for _, f := range b.Index {
				r.idx = append(r.idx, [2]*big.Int{big.NewInt(int64(denomIdx(f.Denom))), f.Value.BigInt()})
			}
			s.bor = append(s.bor, r)
		} else {
			s.bor = append(s.bor, nil)
		}
		s.sdep = append(s.sdep, w.syncedDeposit(ctx, w.addrs[u]))
		s.sbor = append(s.sbor, w.syncedBorrow(ctx, w.addrs[u]))
	}
	for d := 0; d < nD; d++ {
		var sf, bf, pv *big.Int
		if f, ok := w.hk.GetSupplyInterestFactor(ctx, denoms[d]); ok {
			sf = f.BigInt()
		}
		if f, ok := w.hk.GetBorrowInterestFactor(ctx, denoms[d]); ok {
			bf = f.BigInt()
		}
		if t, ok := w.hk.GetPreviousAccrualTime(ctx, denoms[d]); ok {
			pv = big.NewInt(t.Unix())
		}
		s.sfac, s.bfac, s.prev = append(s.sfac, sf), append(s.bfac, bf), append(s.prev, pv)
	}
	ts, _ := w.hk.GetSuppliedCoins(ctx)
	tb, _ := w.hk.GetBorrowedCoins(ctx)
	tr, _ := w.hk.GetTotalReserves(ctx)
	s.tsup, s.tbor, s.tres = vecOf(ts), vecOf(tb), vecOf(tr)
	for d := 0; d < nD; d++ {
		if m, ok := w.hk.GetMoneyMarket(ctx, denoms[d]); ok {
			hm := big.NewInt(0)
			if m.BorrowLimit.HasMaxLimit {
				hm = big.NewInt(1)
			}
			s.mkts = append(s.mkts, "(Some "+ZList([]*big.Int{m.ConversionFactor.BigInt(), m.BorrowLimit.LoanToValue.BigInt(), hm, m.BorrowLimit.MaximumLimit.BigInt(),
				m.ReserveFactor.BigInt(), m.KeeperRewardPercentage.BigInt(), m.InterestRateModel.BaseRateAPY.BigInt(), m.InterestRateModel.BaseMultiplier.BigInt(),
				m.InterestRateModel.Kink.BigInt(), m.InterestRateModel.JumpMultiplier.BigInt()})+")")
		} else {
			s.mkts = append(s.mkts, "None")
		}
	}
	return s
}

// ------------------------------------------------------------ execution

func mkCoins(cs []Coin) sdk.Coins {
	out := make(sdk.Coins, len(cs))
	for i, c := range cs {
		out[i] = sdk.Coin{Denom: denoms[c.D], Amount: sdkmath.NewIntFromBigInt(bigOf(c.A))}
	}
	return out
}

// oracleFactors computes, with the implementation's own exported functions, the
// interval's borrow interest factor of every money market the way AccrueInterest would
// (1.0 where AccrueInterest does not reach that computation, -1 for an APYToSPY error).
func (w *world) oracleFactors(newTime time.Time) []*big.Int {
	bk := w.tApp.GetBankKeeper()
	out := make([]*big.Int, nMkt)
	for d := 0; d < nMkt; d++ {
		out[d] = new(big.Int).Set(prec)
		func() {
			defer func() { _ = recover() }()
			pt, found := w.hk.GetPreviousAccrualTime(w.ctx, denoms[d])
			if !found {
				return
			}
			dt := int64(newTime.Sub(pt).Seconds())
			if dt == 0 {
				return
			}
			cash := bk.GetBalance(w.ctx, w.addrs[hardAcc], denoms[d]).Amount
			tb, _ := w.hk.GetBorrowedCoins(w.ctx)
			borrowed := tb.AmountOf(denoms[d])
			if borrowed.IsZero() {
				return
			}
			tr, _ := w.hk.GetTotalReserves(w.ctx)
			mm, inStore := w.hk.GetMoneyMarket(w.ctx, denoms[d])
			if !inStore {
				if w.cur[d] == nil {
					return
				}
				mm = mkMarket(w.cfg, d, *w.cur[d])
			}
			apy, err := hardkeeper.CalculateBorrowRate(mm.InterestRateModel, sdk.NewDecFromInt(cash), sdk.NewDecFromInt(borrowed), sdk.NewDecFromInt(tr.AmountOf(denoms[d])))
			if err != nil {
				out[d] = big.NewInt(-1)
				return
			}
			spy, err := hardkeeper.APYToSPY(sdk.OneDec().Add(apy))
			if err != nil {
				out[d] = big.NewInt(-1)
				return
			}
			out[d] = hardkeeper.CalculateBorrowInterestFactor(spy, sdkmath.NewInt(dt)).BigInt()
		}()
	}
	return out
}

func (w *world) exec(op *Op) (Class, error) {
	w.opSeq++
	ms := hardkeeper.NewMsgServerImpl(w.hk)
	switch op.Kind {
	case "block":
		nt := w.now.Add(time.Duration(op.T) * time.Second)
		fs := w.oracleFactors(nt)
		op.Fs = nil
		for _, f := range fs {
			op.Fs = append(op.Fs, f.String())
		}
		w.now = nt
		w.height++
		w.ctx = NewCtx(w.tApp, w.height, w.now)
		cls, err := Atomically(w.ctx, func(ctx sdk.Context) error {
			hard.BeginBlocker(ctx, w.hk)
			return nil
		})
		if cls == ClassOk {
			w.prevForce = w.inForce
			w.inForce = copyMarkets(w.cur)
			w.dirty = false
		}
		return cls, err
	case "params":
		var mms hardtypes.MoneyMarkets
		for d := 0; d < nMkt; d++ {
			if op.Mk[d] != nil {
				mms = append(mms, mkMarket(w.cfg, d, *op.Mk[d]))
			}
		}
		cls, err := Atomically(w.ctx, func(ctx sdk.Context) error {
			w.hk.SetParams(ctx, hardtypes.NewParams(mms, dec(w.cfg.MinBorrow)))
			return nil
		})
		if cls == ClassOk {
			w.cur = copyMarkets(op.Mk)
			w.dirty = true
		}
		return cls, err
	case "price":
		return Atomically(w.ctx, func(ctx sdk.Context) error {
			w.setPrice(ctx, op.D, sdk.NewDecFromBigIntWithPrec(bigOf(op.X), 18))
			return nil
		})
	case "donate":
		return Atomically(w.ctx, func(ctx sdk.Context) error {
			return w.tApp.GetBankKeeper().SendCoins(ctx, w.addrs[op.A], w.addrs[hardAcc],
				sdk.NewCoins(sdk.NewCoin(denoms[op.D], sdkmath.NewIntFromBigInt(bigOf(op.X)))))
		})
	}
	coins := mkCoins(op.Coins)
	return Atomically(w.ctx, func(ctx sdk.Context) error {
		g := sdk.WrapSDKContext(ctx)
		switch op.Kind {
		case "deposit":
			m := hardtypes.NewMsgDeposit(w.addrs[op.A], coins)
			if err := m.ValidateBasic(); err != nil {
				return err
			}
			_, err := ms.Deposit(g, &m)
			return err
		case "withdraw":
			m := hardtypes.NewMsgWithdraw(w.addrs[op.A], coins)
			if err := m.ValidateBasic(); err != nil {
				return err
			}
			_, err := ms.Withdraw(g, &m)
			return err
		case "borrow":
			m := hardtypes.NewMsgBorrow(w.addrs[op.A], coins)
			if err := m.ValidateBasic(); err != nil {
				return err
			}
			_, err := ms.Borrow(g, &m)
			return err
		case "repay":
			m := hardtypes.NewMsgRepay(w.addrs[op.A], w.addrs[op.B], coins)
			if err := m.ValidateBasic(); err != nil {
				return err
			}
			_, err := ms.Repay(g, &m)
			return err
		case "liquidate":
			m := hardtypes.NewMsgLiquidate(w.addrs[op.A], w.addrs[op.B])
			if err := m.ValidateBasic(); err != nil {
				return err
			}
			_, err := ms.Liquidate(g, &m)
			return err
		}
		panic("unknown op kind " + op.Kind)
	})
}

func errKind(err error) string {
	if err == nil {
		return "none"
	}
	m := err.Error()
	for _, k := range []string{"panic", "available to borrow", "exceeds the total amount", "prices are expired", "insufficient funds", "invalid coins", "exceeds the allowable amount", "outside loan-to-value", "within valid LTV", "below the minimum borrow", "no price found", "no valid price", "deposit not found", "no deposits found", "borrow not found", "denom", "exceeds available", "reserves", "protocol", "global asset borrow limit", "insufficient balance", "money market", "no coins"} {
		if strings.Contains(m, k) {
			return strings.ReplaceAll(k, " ", "-")
		}
	}
	return "other"
}

// ------------------------------------------------------------ Coq rendering

func zl(xs []*big.Int) string { return ZList(xs) }

func optZ(x *big.Int) string {
	if x == nil {
		return "None"
	}
	return "(Some " + Z(x) + ")"
}

func coqRec(r *rec) string {
	if r == nil {
		return "None"
	}
	ix := make([]string, len(r.idx))
	for i, p := range r.idx {
		ix[i] = fmt.Sprintf("(%s, %s)", Nat(int(p[0].Int64())), Z(p[1]))
	}
	return fmt.Sprintf("(Some (%s, %s))", zl(r.amt), List(ix))
}

func coqSynced(s synced) string {
	switch s.kind {
	case 0:
		return "SNone"
	case 1:
		return "SPanic"
	}
	return "(SSome " + zl(s.amt) + ")"
}

func coqCoins(cs []Coin) string {
	it := make([]string, len(cs))
	for i, c := range cs {
		it[i] = fmt.Sprintf("(%s, %s)", Nat(c.D), Z(bigOf(c.A)))
	}
	return List(it)
}

func coqOp(op Op, now time.Time) string {
	switch op.Kind {
	case "deposit":
		return fmt.Sprintf("Deposit %s %s", Nat(op.A), coqCoins(op.Coins))
	case "withdraw":
		return fmt.Sprintf("Withdraw %s %s", Nat(op.A), coqCoins(op.Coins))
	case "borrow":
		return fmt.Sprintf("Borrow %s %s", Nat(op.A), coqCoins(op.Coins))
	case "repay":
		return fmt.Sprintf("Repay %s %s %s", Nat(op.A), Nat(op.B), coqCoins(op.Coins))
	case "liquidate":
		return fmt.Sprintf("Liquidate %s %s", Nat(op.A), Nat(op.B))
	case "price":
		return fmt.Sprintf("SetPrice %s %s", Nat(op.D), Z(bigOf(op.X)))
	case "donate":
		return fmt.Sprintf("Donate %s %s %s", Nat(op.A), Nat(op.D), Z(bigOf(op.X)))
	case "params":
		mk := make([]string, nD)
		for d := 0; d < nD; d++ {
			mk[d] = "None"
			if d < nMkt && op.Mk[d] != nil {
				mk[d] = coqMarket(*op.Mk[d])
			}
		}
		return "SetParams " + List(mk)
	}
	fs := make([]string, len(op.Fs))
	for i, f := range op.Fs {
		fs[i] = Z(bigOf(f))
	}
	return fmt.Sprintf("BeginBlock %s %s", Zi(now.Unix()), List(fs))
}

func coqMarket(m MarketCfg) string {
	return fmt.Sprintf("(Some (mkMarket %s %s %s %s %s %s %s %s %s %s))", Z(bigOf(m.CF)), Z(decMant(m.LTV)), Bool(m.HasMax),
		Z(decMant(m.Max)), Z(decMant(m.Reserve)), Z(decMant(m.Keeper)), Z(decMant(m.Base)), Z(decMant(m.Mult)), Z(decMant(m.Kink)), Z(decMant(m.Jump)))
}

func coqObs(cls Class, b, a *snap) string {
	var dbal, ddep, dbor, dsdep, dsbor, dsf, dbf, dpv, dts, dtb, dtr, dmk []string
	for x := 0; x < nAcc; x++ {
		for d := 0; d < nD; d++ {
			if b.bal[x][d].Cmp(a.bal[x][d]) != 0 {
				dbal = append(dbal, fmt.Sprintf("(%s, %s, %s)", Nat(x), Nat(d), Z(a.bal[x][d])))
			}
		}
	}
	for u := 0; u < nU; u++ {
		if x, y := coqRec(b.dep[u]), coqRec(a.dep[u]); x != y {
			ddep = append(ddep, fmt.Sprintf("(%s, %s)", Nat(u), y))
		}
		if x, y := coqRec(b.bor[u]), coqRec(a.bor[u]); x != y {
			dbor = append(dbor, fmt.Sprintf("(%s, %s)", Nat(u), y))
		}
		if x, y := coqSynced(b.sdep[u]), coqSynced(a.sdep[u]); x != y {
			dsdep = append(dsdep, fmt.Sprintf("(%s, %s)", Nat(u), y))
		}
		if x, y := coqSynced(b.sbor[u]), coqSynced(a.sbor[u]); x != y {
			dsbor = append(dsbor, fmt.Sprintf("(%s, %s)", Nat(u), y))
		}
	}
	for d := 0; d < nD; d++ {
		if x, y := optZ(b.sfac[d]), optZ(a.sfac[d]); x != y {
			dsf = append(dsf, fmt.Sprintf("(%s, %s)", Nat(d), y))
		}
		if x, y := optZ(b.bfac[d]), optZ(a.bfac[d]); x != y {
			dbf = append(dbf, fmt.Sprintf("(%s, %s)", Nat(d), y))
		}
		if x, y := optZ(b.prev[d]), optZ(a.prev[d]); x != y {
			dpv = append(dpv, fmt.Sprintf("(%s, %s)", Nat(d), y))
		}
		if b.tsup[d].Cmp(a.tsup[d]) != 0 {
			dts = append(dts, fmt.Sprintf("(%s, %s)", Nat(d), Z(a.tsup[d])))
		}
		if b.tbor[d].Cmp(a.tbor[d]) != 0 {
			dtb = append(dtb, fmt.Sprintf("(%s, %s)", Nat(d), Z(a.tbor[d])))
		}
		if b.tres[d].Cmp(a.tres[d]) != 0 {
			dtr = append(dtr, fmt.Sprintf("(%s, %s)", Nat(d), Z(a.tres[d])))
		}
		if b.mkts[d] != a.mkts[d] {
			dmk = append(dmk, fmt.Sprintf("(%s, %s)", Nat(d), a.mkts[d]))
		}
	}
	return fmt.Sprintf("mkObs %s %s %s %s %s %s %s %s %s %s %s %s %s", cls.Coq(), List(dbal), List(ddep), List(dbor),
		List(dsdep), List(dsbor), List(dsf), List(dbf), List(dpv), List(dts), List(dtb), List(dtr), List(dmk))
}

func decMant(s string) *big.Int { return dec(s).BigInt() }

func (w *world) coqEnvState(s *snap) string {
	mk := make([]string, nD)
	for d := 0; d < nD; d++ {
		if d >= nMkt {
			mk[d] = "None"
			continue
		}
		mk[d] = coqMarket(w.cfg.Markets[d])
	}
	env := fmt.Sprintf("(mk_env %s %s %s)", Nat(nD), Nat(nU), Z(decMant(w.cfg.MinBorrow)))
	rows := make([]string, nAcc)
	for a := 0; a < nAcc; a++ {
		rows[a] = zl(s.bal[a])
	}
	pv := make([]string, nD)
	for d := 0; d < nD; d++ {
		pv[d] = optZ(s.prev[d])
	}
	st := fmt.Sprintf("(mk_state %s %s %s %s)", List(rows), zl(s.price), List(pv), List(mk))
	return env + "\n  " + st
}

// ------------------------------------------------------------ history runner

type runOut struct {
	ops    []Op
	coq    string
	fail   *Failure
	okOps  int
	splits map[string]bool
	notes  []string
}

// run executes either generated (ops == nil) or explicit operations.
func run(seed uint64, idx, n int, cfg *Cfg, ops []Op, cnt *Counters) (out runOut, usedCfg Cfg) {
	r := NewRng(seed, uint64(idx))
	var g *gen
	if ops == nil {
		g = newGen(r)
		usedCfg = g.cfg
	} else {
		usedCfg = *cfg
		n = len(ops)
	}
	w := setup(usedCfg)
	out.splits = map[string]bool{}
	prev := w.snap()
	header := w.coqEnvState(prev)
	countCfg(usedCfg, func(k string) {
		out.splits[k] = true
		if cnt != nil {
			cnt.Inc("split:" + k)
		}
	})
	var steps []string
	for i := 0; i < n; i++ {
		var op Op
		if ops != nil {
			op = ops[i]
		} else {
			op = g.next(w, prev, cnt)
		}
		pre := w.preMonitor(op)
		cls, err := w.exec(&op)
		after := w.snap()
		out.ops = append(out.ops, op)
		if cnt != nil {
			cnt.Inc("op:" + op.Kind + ":" + cls.String())
			if cls != ClassOk {
				cnt.Inc("err:" + op.Kind + ":" + errKind(err))
			}
		}
		if cls == ClassOk {
			out.okOps++
		}
		if cls == ClassPanic && err != nil {
			m := err.Error()
			if len(m) > 160 {
				m = m[:160]
			}
			if op.Kind == "block" {
				for d := 0; d < nMkt; d++ {
					if prev.tbor[d].Sign() != 0 && new(big.Int).Add(prev.bal[hardAcc][d], prev.tbor[d]).Cmp(prev.tres[d]) == 0 {
						m += fmt.Sprintf(" [%s: cash %s + borrowed %s = reserves %s]", denoms[d], prev.bal[hardAcc][d], prev.tbor[d], prev.tres[d])
					}
				}
			}
			out.notes = append(out.notes, op.Kind+": "+m)
			if os.Getenv("C08_DEBUG") != "" {
				fmt.Fprintf(os.Stderr, "panic in history %d step %d: %s: %s\n", idx, i, op.Kind, m)
			}
		}
		w.countSplits(op, cls, err, pre, prev, after, out.splits, cnt)
		steps = append(steps, fmt.Sprintf("(%s,\n    %s)", coqOp(op, w.now), coqObs(cls, prev, after)))
		if pred, sig, detail := w.monitor(op, cls, err, pre, prev, after); pred != "" && out.fail == nil {
			out.fail = &Failure{History: idx, Step: i, Predicate: pred, Signature: sig, Detail: detail}
		}
		prev = after
	}
	out.coq = fmt.Sprintf("mkHist %s\n  %s", header, List(steps))
	return
}

const coqHeader = "From Kava Require Import Base.Prelude Base.Dec Model.Hard."

func runC08(o Opts) (*Result, error) {
	n := o.Len
	if n == 0 {
		n = defaultL
	}
	res := &Result{Property: "C08", Seed: o.Seed,
		Rule: "histories of " + fmt.Sprint(n) + " hard-module operations (msg server calls, price changes, begin blocks) generated from splitmix64(seed, history index) on a fresh app.TestApp with a per-history money-market parameter set drawn over the whole validated parameter range (wide.go) and a scripted prefix (bad debt, split valuation, reserve borrow, market re-add, keeper-share change, over-limit position with zero-LTV collateral, exact synced amounts, global borrow limit, minimum borrow) chosen independently of it; a history is non-trivial when it contains a successful borrow or withdrawal at the LTV boundary, a successful liquidation, or an interest accrual with a non-zero interest amount; distinct by hash of configuration and operation list"}
	cnt := NewCounters()

	if o.Replay != "" {
		bz, err := os.ReadFile(o.Replay)
		if err != nil {
			return nil, err
		}
		var h Hist
		if err := json.Unmarshal(bz, &h); err != nil {
			return nil, err
		}
		ot, _ := run(h.Seed, h.Idx, 0, &h.Cfg, h.Ops, cnt)
		name, err := WriteShard(o.OutDir, 0, coqHeader, []string{ot.coq}, "mismatches")
		if err != nil {
			return nil, err
		}
		h.Ops = ot.ops
		res.Shards = []string{name}
		res.HistIndex = []HistRef{{0, 0, h.Idx, MustJSON(h)}}
		res.Histories, res.Evaluations = 1, len(h.Ops)
		if ot.fail != nil {
			ot.fail.Replay = MustJSON(h)
			res.Failures = append(res.Failures, *ot.fail)
		}
		res.Counters = cnt.Map()
		return res, nil
	}

	type hout struct {
		runOut
		cfg Cfg
	}
	// the fixed histories (c08_fixed.go) run after the generated ones on every run
	fixed := append(fixedHists(), wideFixedHists()...)
	total := o.N + len(fixed)
	outs := make([]hout, total)
	ParallelFor(total, o.Workers, func(i int) {
		var ot runOut
		var cfg Cfg
		if i < o.N {
			ot, cfg = run(o.Seed, i, n, nil, nil, cnt)
		} else {
			h := fixed[i-o.N]
			ot, cfg = run(o.Seed, i, 0, &h.Cfg, h.Ops, cnt)
		}
		if ot.fail != nil {
			sig := ot.fail.Signature
			fails := func(cand []Op) bool {
				c, _ := run(o.Seed, i, 0, &cfg, cand, nil)
				return c.fail != nil && c.fail.Signature == sig
			}
			small := Shrink(ot.ops[:ot.fail.Step+1], fails)
			c2, _ := run(o.Seed, i, 0, &cfg, small, nil)
			if c2.fail != nil {
				c2.fail.History = i
				c2.fail.Replay = MustJSON(Hist{o.Seed, i, cfg, c2.ops})
				ot.fail = c2.fail
			} else {
				ot.fail.Replay = MustJSON(Hist{o.Seed, i, cfg, ot.ops[:ot.fail.Step+1]})
			}
		}
		outs[i] = hout{ot, cfg}
	})

	seen := map[string]bool{}
	perShard := 20
	var cases []string
	shard := 0
	flush := func() error {
		if len(cases) == 0 {
			return nil
		}
		name, err := WriteShard(o.OutDir, shard, coqHeader, cases, "mismatches")
		if err != nil {
			return err
		}
		res.Shards = append(res.Shards, name)
		shard++
		cases = nil
		return nil
	}
	for i, ot := range outs {
		res.Histories++
		res.Evaluations += len(ot.ops)
		h := Hist{o.Seed, i, ot.cfg, ot.ops}
		key := string(MustJSON(h.Cfg)) + string(MustJSON(ot.ops))
		nontrivial := false
		for k := range ot.splits {
			if strings.HasPrefix(k, "nt:") {
				nontrivial = true
			}
		}
		if nontrivial && !seen[key] {
			seen[key] = true
			res.DistinctNontrivial++
		}
		if i < 2 {
			res.Samples = append(res.Samples, h)
		}
		res.HistIndex = append(res.HistIndex, HistRef{shard, len(cases), i, MustJSON(h)})
		cases = append(cases, ot.coq)
		if len(cases) == perShard {
			if err := flush(); err != nil {
				return nil, err
			}
		}
		if ot.fail != nil {
			res.Failures = append(res.Failures, *ot.fail)
		}
	}
	if err := flush(); err != nil {
		return nil, err
	}
	// arithmetic probes of the four interest computations (arith.go, coq/Model/HardArith.v)
	nArith := 600
	if o.Tier == "thorough" {
		nArith = 20000
	}
	terms, afails := arithProbes(o.Seed, nArith, cnt)
	for len(terms) > 0 {
		k := len(terms)
		if k > 1500 {
			k = 1500
		}
		name, err := WriteShard(o.OutDir, shard, arithHeader, terms[:k], "arith_mismatches")
		if err != nil {
			return nil, err
		}
		res.Shards = append(res.Shards, name)
		shard++
		terms = terms[k:]
	}
	res.Evaluations += nArith
	res.Failures = append(res.Failures, afails...)
	res.Counters = cnt.Map()
	for _, k := range allSplits {
		if res.Counters["split:"+k] == 0 {
			res.QualityGate = append(res.QualityGate, k)
		}
	}
	ok, tot := 0, 0
	for k, v := range res.Counters {
		if strings.HasPrefix(k, "op:") {
			tot += v
			if strings.HasSuffix(k, ":ok") {
				ok += v
			}
		}
	}
	panics := map[string]int{}
	for _, ot := range outs {
		for _, m := range ot.notes {
			panics[m]++
		}
	}
	var plist []string
	for _, k := range SortedKeys(panics) {
		if len(plist) < 12 {
			plist = append(plist, fmt.Sprintf("%dx %s", panics[k], k))
		}
	}
	res.Extra = map[string]any{"ok_fraction": fmt.Sprintf("%.3f", float64(ok)/float64(max(tot, 1))), "panics_observed": plist}
	return res, nil
}
